"""C02, matrix clauses - harness functions for checks/C02.py to import (world B part).

    from harness.c02_matrix import matrix_part
    matrix_part(ctx, rng, thorough)      # records violations through ctx.violation, returns a coverage dict

Theorems: coq/props/C02mx.v (C02_chol_insample_exact, C02_full_insample_error, C02_dtc_insample_error), proved in
thm/FactorThm.v / thm/AffineThm.v over the definitions regenerated into gen/MatGen.v; build them with
ctx.build_props(gen, extra_targets=["props/C02mx.vo"]).  The functions below are the independent NumPy searcher on
the implementation (mellon.parameters.compute_L / compute_Lp and the three predictor families):
  * Cholesky-latent family with the SAME Lp for L = K_xu Lp^-T and the predictor: pred(X) = L z + mu to rounding
    (bound: forward error of the triangular solves, Higham 2002 Thm 8.5: gamma_m |Lp^-T||Lp^T||w|);
  * full family, y_is_mean: pred(X) - y = -jitter * weights (defect = residual of the normal equations);
  * inducing-point (DTC) family with the cells among the inducing points: the proved in-sample error."""
import numpy as np

from harness.wb_common import U, real_module, dataset, KERNELS, make_kernel, col2, solve_tol


def matrix_part(ctx, rng, thorough=False):
    mc = real_module("mellon.conditional")
    par = real_module("mellon.parameters")
    counts = dict(chol_insample=0, full_insample=0, dtc_insample=0)
    for t in range(36 if thorough else 12):
        r = np.random.default_rng(rng.randrange(2 ** 31))
        n = int(r.choice([8, 20, 45]))
        d = int(r.choice([1, 2, 5]))
        j = float(r.choice([1e-8, 1e-6, 1e-4, 1e-3]))
        x = dataset(r, n, d, str(r.choice(["gauss", "clustered", "anisotropic"])))
        cov, kdesc = make_kernel(r, KERNELS[t % 6], float(r.choice([0.3, 1.0, 3.0])))
        mu = float(r.normal())
        m = int(r.choice([max(3, n // 3), n + 3]))
        xu = dataset(r, m, d, "gauss") if m < n else np.vstack([x, dataset(r, 3, d, "gauss")])
        base = dict(n=n, d=d, jitter=j, kernel=kdesc, x=x.tolist(), landmarks=xu.tolist(), mu=mu)
        # ---- Cholesky-latent, shared Lp (computed or user supplied)
        gp = "sparse_cholesky" if m < n else "fixed"
        Lp = np.asarray(par.compute_Lp(x, cov, gp_type=gp, landmarks=xu, jitter=j), dtype=float) if t % 3 else \
            1.3 * np.linalg.cholesky(np.asarray(cov(xu, xu), dtype=float) + 0.05 * np.eye(m))
        L = np.asarray(par.compute_L(x, cov, gp_type=gp, landmarks=xu, Lp=Lp, jitter=j), dtype=float)
        z = r.normal(size=(m,))
        p = mc.LandmarksConditionalCholesky(xu, z, mu, cov, n, L=Lp, jitter=j)
        pred = np.asarray(p(x), dtype=float)
        w = np.asarray(p.weights, dtype=float)
        Kxu = np.asarray(cov(x, xu), dtype=float)
        Li = np.abs(np.linalg.inv(Lp.T))
        fwd = 16 * m * U * (Li @ (np.abs(Lp.T) @ np.abs(w)))                   # |delta w|
        fwdL = 16 * m * U * ((np.abs(L) @ np.abs(Lp.T)) @ Li)                  # |delta L| row-wise
        tol = np.abs(Kxu) @ fwd + fwdL @ np.abs(z) + 16 * m * U * (np.abs(Kxu) @ np.abs(w) + np.abs(L) @ np.abs(z)) + 8 * U * abs(mu)
        counts["chol_insample"] += 1
        if not (np.abs(pred - (L @ z + mu)) <= tol).all():
            ctx.violation("C02|chol-insample|%s" % gp, "Cholesky-latent predictor at the cells differs from L z + mu",
                          dict(base, z=z.tolist(), max_dev=float(np.abs(pred - (L @ z + mu)).max()), bound=float(tol.max())))
        # ---- full family, y_is_mean
        y = r.normal(size=(n, 2))
        pf = mc.FullConditional(x, y, mu, cov, jitter=j, y_is_mean=True)
        W = col2(np.asarray(pf.weights, dtype=float))
        K = np.asarray(cov(x, x), dtype=float)
        A = K + j * np.eye(n)
        dev = np.abs(np.asarray(pf(x), dtype=float) - y + j * W)
        tolf = solve_tol(A, W, y - mu) + 8 * n * U * float(np.max(np.abs(K) @ np.abs(W))) + 8 * U * (abs(mu) + np.abs(y).max())
        counts["full_insample"] += 1
        if not (dev <= tolf).all():
            ctx.violation("C02|full-insample", "full predictor: pred(X) - y != -jitter * weights",
                          dict(base, y=y.tolist(), max_dev=float(dev.max()), bound=float(tolf)))
        # ---- DTC with the cells among the inducing points
        if m >= n:
            pd_ = mc.LandmarksConditional(x, xu, y, mu, cov, jitter=j, y_is_mean=True)
            Wd = col2(np.asarray(pd_.weights, dtype=float))
            Kuu = np.asarray(cov(xu, xu), dtype=float)
            rr = y - mu
            c0, *_ = np.linalg.lstsq(Kxu, rr, rcond=None)
            Ap = Kuu + j * np.eye(m)
            M = Kxu.T @ Kxu + j * Ap
            kap = np.linalg.cond(M) + np.linalg.cond(Kxu)
            if np.linalg.norm(Kxu @ c0 - rr) <= 1e-9 * np.linalg.norm(rr) and kap < 1e9:
                E = -j * Kxu @ np.linalg.solve(M, Ap @ c0)
                kL = np.sqrt((np.linalg.norm(Kuu, 2) + j) / j)
                told = 64 * m * U * kap * (np.abs(E).max() + j * np.abs(Wd).max() + j * np.abs(c0).max()) \
                    + solve_tol(M, Wd, Kxu.T @ rr, kL) / np.sqrt(j) + 1e-9 * np.abs(rr).max()
                counts["dtc_insample"] += 1
                if not (np.abs((np.asarray(pd_(x), dtype=float) - y) - E) <= told).all():
                    ctx.violation("C02|dtc-insample", "inducing-point predictor: in-sample error differs from the proved expression",
                                  dict(base, y=y.tolist(), bound=float(told)))
    return counts
