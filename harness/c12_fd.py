"""C12 numeric oracle: central finite differences of the value returned by CALLING a predictor,
with a step and a tolerance derived from explicit bounds (no tuning).

The predictor's `_mean` on a row x is  g(x) = mu + sum_j w_j k(x, b_j)  with k a stationary kernel
phi(|x - b| / ls) (times phi(|t - t_b| / ls_time) for the time-aware classes).  For a unit direction v,
|d^k/ds^k phi(|x + s v - b| / ls)| <= C_k / ls^k  with C_k = sup_{s,a} |d^k/ds^k phi(sqrt(s^2 + a^2))|
(the direction splits x - b into a component along v and one orthogonal to it).  The constants below
are those suprema evaluated on a grid (s in [-8, 8], a in [0.02, 6]; scratch script in the docstring of
`C`), multiplied by 2.  Hence the k-th directional derivative of g is bounded by W C_k / ls^k with
W = sum_j |w_j|, mixed partials by the same bound (a symmetric multilinear form attains its norm on
the diagonal), and derivatives of exp(g) follow from Faa di Bruno.

Evaluation noise of p(x): the code forms squared distances as xx - 2xy + yy, so each distance carries
an absolute error 4u(|x|^2 + |b|^2) / (2 dist) (DESIGN.md 2.3); through |phi'| <= C_1 / ls and the
n-term dot product this gives  noise_g <= W (C_1 delta / ls + (n + 8) u) + u |mu|.

Central differences (exact remainder formulas):
  first   (f(x+h) - f(x-h)) / 2h              |err| <= h^2 F3 / 6  + noise / h
  second  (f(x+h) - 2 f(x) + f(x-h)) / h^2    |err| <= h^2 F4 / 12 + 4 noise / h^2
  mixed   4-point / 4h^2                      |err| <= h^2 F4 / 3  + noise / h^2
h is the minimiser of the bound; SAFETY multiplies the whole bound (XLA may fuse / reorder).
"""
import numpy as np

U = 2.0 ** -53
SAFETY = 4.0

# 2 x sup over (s, a) of |d^k/ds^k phi(sqrt(s^2 + a^2))|, k = 1..4, unit length scale
# (Matern52: 0.626 1.667 2.980 23.9 | ExpQuad: 0.607 1.000 1.380 3.000 | RatQuad(alpha=1): 0.459 1.000 1.651 6.000)
C = {"Matern52": (1.26, 3.34, 6.0, 50.0), "ExpQuad": (1.22, 2.0, 2.8, 6.0), "RatQuad": (0.92, 2.0, 3.4, 12.0)}
MARGIN = 0.25          # query points keep this distance (in units of ls) from every conditioning point


class Info:
    """what the bounds need from a fitted predictor (read from its public state)"""

    def __init__(self, p):
        cf = p.cov_func
        self.time = hasattr(cf, "left")
        if self.time:
            self.kernel = type(cf.left).__name__
            self.ls, self.ls_time = float(cf.left.ls), float(cf.right.ls)
            if type(cf.right).__name__ != self.kernel:
                raise ValueError("time kernel differs from state kernel")
        else:
            self.kernel = type(cf).__name__
            self.ls, self.ls_time = float(cf.ls), None
        if self.kernel not in C:
            raise ValueError("no derivative constants for kernel %s" % self.kernel)
        if self.kernel == "RatQuad" and float(getattr(cf.left if self.time else cf, "alpha")) != 1.0:
            raise ValueError("RatQuad constants are for alpha = 1")
        # conditioning points: self.x for the full conditional, self.landmarks otherwise (generated table mean_centers)
        self.centers = np.asarray(p.landmarks if "Landmarks" in type(p).__name__ else p.x, dtype=float)
        self.w = np.asarray(p.weights, dtype=float).reshape(self.centers.shape[0], -1)
        self.W = float(np.abs(self.w).sum(axis=0).max())
        self.mu = float(np.max(np.abs(np.asarray(p.mu, dtype=float))))
        self.exp = type(p).__name__.startswith("Exp")
        self.n = self.centers.shape[0]

    def Mk(self, direction):
        """bounds on the 1st..4th derivative of g along a state coordinate or along time"""
        ls = self.ls_time if direction == "time" else self.ls
        return [self.W * C[self.kernel][k] / ls ** (k + 1) for k in range(4)]

    def noise_g(self, x):
        c = self.centers
        if self.time:
            ds = np.sqrt(((x[None, :-1] - c[:, :-1]) ** 2).sum(1))
            dt = np.abs(x[-1] - c[:, -1])
            delta_s = 4 * U * ((x[:-1] ** 2).sum() + (c[:, :-1] ** 2).sum(1)) / (2 * np.maximum(ds, 1e-6)) + 2 * U * ds
            delta_t = 4 * U * (x[-1] ** 2 + c[:, -1] ** 2) / (2 * np.maximum(dt, 1e-6)) + 2 * U * dt
            per = C[self.kernel][0] * (delta_s / self.ls + delta_t / self.ls_time)
        else:
            d = np.sqrt(((x[None, :] - c) ** 2).sum(1))
            delta = 4 * U * ((x ** 2).sum() + (c ** 2).sum(1)) / (2 * np.maximum(d, 1e-6)) + 2 * U * d
            per = C[self.kernel][0] * delta / self.ls
        wabs = np.abs(self.w).max(axis=1)
        return float((wabs * per).sum() + self.W * (self.n + 8) * U + U * self.mu)

    def bounds(self, x, gx, direction):
        """(F1..F4, noise) for the value the predictor RETURNS at x (gx = _mean at x, i.e. log of the value for Exp)"""
        M1, M2, M3, M4 = self.Mk(direction)
        ng = self.noise_g(x)
        if not self.exp:
            return (M1, M2, M3, M4), ng
        # exp(g): sup over a ball of radius 1e-2 ls around x (every step used is far smaller)
        f = np.exp(gx + M1 * 1e-2 * self.ls)
        F1 = f * M1
        F2 = f * (M1 ** 2 + M2)
        F3 = f * (M1 ** 3 + 3 * M1 * M2 + M3)
        F4 = f * (M1 ** 4 + 6 * M1 ** 2 * M2 + 3 * M2 ** 2 + 4 * M1 * M3 + M4)
        return (F1, F2, F3, F4), f * (ng + 4 * U)

    def far_enough(self, x):
        c = self.centers
        if self.time:
            ds = np.sqrt(((x[None, :-1] - c[:, :-1]) ** 2).sum(1)) if c.shape[1] > 1 else np.full(c.shape[0], np.inf)
            dt = np.abs(x[-1] - c[:, -1])
            return ds.min() >= MARGIN * self.ls and dt.min() >= MARGIN * self.ls_time
        return np.sqrt(((x[None, :] - c) ** 2).sum(1)).min() >= MARGIN * self.ls


def steps(F, noise, ls):
    """minimisers of the first- and second-difference error bounds, kept below 1e-2 ls and exactly representable"""
    F3, F4 = max(F[2], 1e-300), max(F[3], 1e-300)
    h1 = (3 * noise / F3) ** (1 / 3)
    h2 = (12 * noise / F4) ** (1 / 4)
    out = []
    for h in (h1, h2):
        h = min(max(h, 1e-7 * ls), 1e-2 * ls)
        out.append(2.0 ** np.round(np.log2(h)))
    return out


def tol_first(F, noise, h, xmax):
    return SAFETY * (h * h * F[2] / 6 + noise / h + 4 * U * max(xmax, 1.0) / h * F[0])


def tol_second(F, noise, h, xmax, mixed):
    t = h * h * F[3] / (3 if mixed else 12) + (1 if mixed else 4) * noise / (h * h)
    return SAFETY * (t + 8 * U * max(xmax, 1.0) / h * F[1])


def fd_points(x, cols, h1, h2):
    """rows at which the predictor must be evaluated: x, x +- h1 e_c, x +- h2 e_i, x +- h2 e_i +- h2 e_j (i < j)"""
    pts = [x.copy()]
    idx = {"0": 0}
    for c in cols:
        for s in (+1, -1):
            y = x.copy()
            y[c] += s * h1
            idx[("g", c, s)] = len(pts)
            pts.append(y)
    for a, i in enumerate(cols):
        for s in (+1, -1):
            y = x.copy()
            y[i] += s * h2
            idx[("d", i, s)] = len(pts)
            pts.append(y)
        for j in cols[a + 1:]:
            for si in (+1, -1):
                for sj in (+1, -1):
                    y = x.copy()
                    y[i] += si * h2
                    y[j] += sj * h2
                    idx[("m", i, j, si, sj)] = len(pts)
                    pts.append(y)
    return np.asarray(pts), idx


def fd_from_values(v, idx, cols, h1, h2):
    d = len(cols)
    g = np.zeros(d)
    H = np.zeros((d, d))
    for a, c in enumerate(cols):
        g[a] = (v[idx[("g", c, 1)]] - v[idx[("g", c, -1)]]) / (2 * h1)
        H[a, a] = (v[idx[("d", c, 1)]] - 2 * v[0] + v[idx[("d", c, -1)]]) / (h2 * h2)
        for b in range(a + 1, d):
            j = cols[b]
            H[a, b] = H[b, a] = (v[idx[("m", c, j, 1, 1)]] - v[idx[("m", c, j, 1, -1)]]
                                 - v[idx[("m", c, j, -1, 1)]] + v[idx[("m", c, j, -1, -1)]]) / (4 * h2 * h2)
    return g, H


def query_points(rng, info, X, k, time_values=None):
    """k rows near the data, at the margin from every conditioning point (rejection sampling; the spread of the proposals is
    doubled when the data are too dense for the margin; fewer than k rows - possibly none - are returned when even that fails:
    the caller then uses what there is, a data set without room for query points is no defect of the library)"""
    n, d = X.shape
    out = []
    for spread in (0.35, 0.7, 1.4, 2.8, 5.6):
        tries = 0
        while len(out) < k and tries < 3000:
            tries += 1
            i, j = rng.integers(0, n, size=2)
            lam = rng.uniform(0.2, 0.8)
            x = lam * X[i] + (1 - lam) * X[j]
            ds = d - 1 if info.time else d
            x[:ds] += rng.normal(size=ds) * spread * info.ls
            if info.time:
                tv = np.asarray(time_values, dtype=float)
                x[-1] = rng.choice(tv[:-1]) + rng.uniform(0.3, 0.7) * 1.0
            # exactly representable with few bits: keeps x +- h exact
            x = np.round(x * 1024) / 1024
            if info.far_enough(x):
                out.append(x)
        if len(out) >= k:
            break
    return np.asarray(out) if out else np.zeros((0, d))
