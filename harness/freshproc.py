"""Run a small script of estimator operations in THIS interpreter and print what the last estimator holds, bit-exactly.

The checks call it twice in fresh interpreters: once with a history (other estimators fitted before, attributes changed,
re-fits) and once with the plain one-shot construction that the history must be equivalent to.  Any state that survives
from one estimator / fit to the next (shared mutable defaults, module-level caches, stale per-instance caches) shows up as a
difference between the two outputs - no tolerance, no oracle: the implementation is compared with itself in a clean process.

spec (JSON file): {"steps": [step, ...], "query": [[...], ...]}
  step = {"op": "new", "cls": name, "kwargs": {...}}      construct (kwargs: JSON values; {"__array__": [...]} -> numpy array,
                                                           {"__int__": 3} -> Python int, {"__jnp0d__": 1.5} -> 0-d jax array)
       | {"op": "fit", "x": data | null, "y": data | null} est.fit(x[, y]) (x null: re-fit of a bound estimator);  data = {"seed": s, "n": n, "d": d, "scale": a, "shift": b,
                                                                                       "times": [sizes...] | null, "cols": c}
       | {"op": "set", "attr": name, "value": v}           setattr(est, attr, v)
       | {"op": "call", "name": m, "x": data | absent, "kwargs": {...}}   getattr(est, m)([x], **kwargs)  (prepare_inference, process_inference, ...)
output (stdout, one JSON line): {"ok": true, "obs": {name: hex-encoded value}} or {"ok": false, "error": "Type: message"}
"""
import json
import sys

import numpy as np


def decode(v):
    if isinstance(v, dict):
        if "__array__" in v:
            return np.asarray(v["__array__"], dtype=float)
        if "__int__" in v:
            return int(v["__int__"])
        if "__jnp0d__" in v:
            import jax.numpy as jnp
            return jnp.asarray(float(v["__jnp0d__"]))
        return {k: decode(x) for k, x in v.items()}
    return v


def make_data(spec):
    r = np.random.default_rng(spec["seed"])
    n, d = spec["n"], spec["d"]
    X = r.normal(size=(n, d)) * spec.get("scale", 1.0) + spec.get("shift", 0.0)
    if spec.get("times"):
        t = np.repeat(np.arange(len(spec["times"]), dtype=float), spec["times"])
        X = np.hstack([X, t[:, None]])
    return X


def make_values(spec):
    r = np.random.default_rng(spec["seed"] + 1)
    c = spec.get("cols", 0)
    return r.normal(size=(spec["n"],) if c == 0 else (spec["n"], c))


def enc(v):
    """bit-exact, order-preserving encoding"""
    if v is None:
        return None
    a = np.asarray(v)
    if a.dtype.kind in "fc":
        return {"shape": list(a.shape), "dtype": str(a.dtype), "hex": [float(x).hex() for x in a.astype(float).ravel()]}
    if a.dtype.kind in "iub":
        return {"shape": list(a.shape), "dtype": str(a.dtype), "int": [int(x) for x in a.ravel()]}
    return repr(v)


OBS = ["nn_distances", "d", "mu", "mu_dim", "mu_dens", "ls", "ls_time", "landmarks", "L", "initial_value", "pre_transformation",
       "log_density_x", "local_dim_x", "losses"]


def main():
    spec = json.load(open(sys.argv[1]))
    import mellon
    est = None
    for st in spec["steps"]:
        if st.get("may_fail"):
            try:
                est = step(est, st)
            except Exception:  # noqa: a history step that the library refuses leaves no estimator behind - that is fine
                pass
        else:
            est = step(est, st)
    report(est, spec)


def step(est, st):
    import mellon
    if True:
        op = st["op"]
        if op == "new":
            est = getattr(mellon, st["cls"])(**{k: decode(v) for k, v in st["kwargs"].items()})
        elif op == "fit":
            if st.get("x") is None:         # re-fit of a bound estimator: fit() / fit(y=values)
                if st.get("y") is not None:
                    est.fit(y=make_values(st["y"]))
                else:
                    est.fit()
            elif st.get("y") is not None:
                est.fit(make_data(st["x"]), make_values(st["y"]))
            else:
                est.fit(make_data(st["x"]))
        elif op == "set":
            setattr(est, st["attr"], decode(st["value"]))
        elif op == "call":
            args = [make_data(st["x"])] if st.get("x") is not None else []
            getattr(est, st["name"])(*args, **{k: decode(v) for k, v in st.get("kwargs", {}).items()})
        else:
            raise SystemExit("unknown op %r" % (op,))
    return est


def report(est, spec):
    obs = {"class": type(est).__name__, "gp_type": None if getattr(est, "gp_type", None) is None else est.gp_type.name}
    for a in OBS:
        if hasattr(est, a):
            try:
                obs[a] = enc(getattr(est, a))
            except Exception as e:  # noqa
                obs[a] = "unreadable: %s" % type(e).__name__
    q = np.asarray(spec["query"], dtype=float)
    p = est.predict
    obs["predictor_class"] = type(p).__name__
    obs["predict(query)"] = enc(p(q))
    print(json.dumps({"ok": True, "obs": obs}))


if __name__ == "__main__":
    try:
        main()
    except Exception as e:  # noqa
        print(json.dumps({"ok": False, "error": "%s: %s" % (type(e).__name__, str(e)[:300])}))


# ------------------------------------------------------------------ driver side (imported by the checks)
def run_spec(spec, tag, build_dir, timeout=2400):
    """run one spec in a fresh interpreter (same environment as the calling check); returns the decoded JSON line"""
    import os
    import subprocess
    path = os.path.join(build_dir, "fresh_%s.json" % tag)
    json.dump(spec, open(path, "w"))
    here = os.path.dirname(os.path.dirname(os.path.abspath(__file__)))
    try:
        o = subprocess.run([sys.executable, os.path.join(here, "harness", "freshproc.py"), path], cwd=here, env=dict(os.environ),
                           stdout=subprocess.PIPE, stderr=subprocess.PIPE, timeout=timeout, text=True)
    except subprocess.TimeoutExpired:
        return {"ok": False, "error": "timeout"}
    lines = [ln for ln in o.stdout.splitlines() if ln.startswith("{")]
    if not lines:
        return {"ok": False, "error": "no output: " + o.stderr[-300:]}
    return json.loads(lines[-1])


def differing(a, b):
    """names of the observables that are not bit-identical (a, b: outputs of run_spec)"""
    if not (a.get("ok") and b.get("ok")):
        return ["<outcome>"] if a.get("ok") != b.get("ok") or a.get("error", "").split(":")[0] != b.get("error", "").split(":")[0] else []
    return sorted(k for k in set(a["obs"]) | set(b["obs"]) if a["obs"].get(k) != b["obs"].get(k))
