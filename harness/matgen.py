"""World B: which paths of which functions are translated into coq/gen/MatGen.v, and how a
generated definition is evaluated inside Coq (PrimFloat instance) on NumPy inputs."""
import re

import numpy as np

from translate.pymatrix import Translator, PathError, Unsupported  # noqa: F401

C = "mellon.conditional."
D = "mellon.decomposition."
FULL, LM, CH = C + "_FullConditional", C + "_LandmarksConditional", C + "_LandmarksConditionalCholesky"

# (function, wanted attributes, static path).  Paths that are shape errors on the current tree
# (per-cell sigma with landmarks; landmarks + with_uncertainty without y_cov_factor: both listed under
# C15 in known_findings.jsonl) cannot be given a type in Coq and are listed in ILL_TYPED instead.
TARGETS = [
    ("mellon.util.stabilize", None, {}),
    ("mellon.util.add_variance", None, dict(M="none")),
    ("mellon.util.add_variance", None, dict(M="mat")),
    (C + "_get_L", None, dict(y_cov_factor="none")),
    (C + "_get_L", None, dict(y_cov_factor="mat")),
    # full GP
    (FULL + ".__init__", ("weights",), dict(L="none", sigma="scalar", y_cov_factor="none", y_is_mean=True, with_uncertainty=False)),
    (FULL + ".__init__", ("weights",), dict(L="none", sigma="scalar", y_cov_factor="none", y_is_mean=False, with_uncertainty=False)),
    (FULL + ".__init__", ("weights",), dict(L="none", sigma="vec", y_cov_factor="none", y_is_mean=False, with_uncertainty=False)),
    (FULL + ".__init__", ("weights",), dict(L="none", sigma="scalar", y_cov_factor="mat", y_is_mean=False, with_uncertainty=False)),
    (FULL + ".__init__", ("weights",), dict(L="mat", sigma="scalar", y_cov_factor="none", y_is_mean=False, with_uncertainty=False)),
    (FULL + ".__init__", ("L", "W"), dict(L="none", sigma="scalar", y_cov_factor="none", y_is_mean=True, with_uncertainty=True)),
    # the uncertainty flag must not change the weights (seeded change C16-1 hoisted the noise factor into _get_L on this path)
    (FULL + ".__init__", ("weights",), dict(L="none", sigma="scalar", y_cov_factor="none", y_is_mean=True, with_uncertainty=True)),
    (FULL + ".__init__", ("weights",), dict(L="none", sigma="scalar", y_cov_factor="none", y_is_mean=False, with_uncertainty=True)),
    (FULL + ".__init__", ("weights",), dict(L="none", sigma="vec", y_cov_factor="none", y_is_mean=False, with_uncertainty=True)),
    (FULL + ".__init__", ("L", "W"), dict(L="none", sigma="scalar", y_cov_factor="none", y_is_mean=False, with_uncertainty=True)),
    (FULL + ".__init__", ("L", "W"), dict(L="none", sigma="vec", y_cov_factor="none", y_is_mean=False, with_uncertainty=True)),
    (FULL + ".__init__", ("L", "W"), dict(L="none", sigma="scalar", y_cov_factor="mat", y_is_mean=True, with_uncertainty=True)),
    (FULL + ".__init__", ("L", "W"), dict(L="mat", sigma="scalar", y_cov_factor="mat", y_is_mean=True, with_uncertainty=True)),
    # a supplied noise factor (the estimators pass L diag(std) after ADVI) is for the mean covariance only: with y_is_mean it
    # must not enter the weights (seeded changes C02-1 / C01-4 / C06-4 merged the two _get_L calls)
    (FULL + ".__init__", ("weights",), dict(L="none", sigma="scalar", y_cov_factor="mat", y_is_mean=True, with_uncertainty=True)),
    # inducing points (DTC)
    (LM + ".__init__", ("weights",), dict(sigma="scalar", y_cov_factor="none", y_is_mean=True, with_uncertainty=False)),
    (LM + ".__init__", ("weights",), dict(sigma="scalar", y_cov_factor="none", y_is_mean=False, with_uncertainty=False)),
    (LM + ".__init__", ("L", "W"), dict(sigma="scalar", y_cov_factor="mat", y_is_mean=True, with_uncertainty=True)),
    (LM + ".__init__", ("weights",), dict(sigma="scalar", y_cov_factor="mat", y_is_mean=True, with_uncertainty=True)),
    # Cholesky-latent
    (CH + ".__init__", ("weights",), dict(L="none", sigma="scalar", y_is_mean=True, with_uncertainty=False)),
    (CH + ".__init__", ("weights",), dict(L="none", sigma="scalar", y_is_mean=False, with_uncertainty=False)),
    (CH + ".__init__", ("weights",), dict(L="none", sigma="vec", y_is_mean=False, with_uncertainty=False)),
    (CH + ".__init__", ("weights",), dict(L="mat", sigma="scalar", y_is_mean=True, with_uncertainty=False)),
    (CH + ".__init__", ("L", "W"), dict(L="none", sigma="scalar", y_is_mean=True, with_uncertainty=True)),
    (CH + ".__init__", ("weights",), dict(L="none", sigma="scalar", y_is_mean=True, with_uncertainty=True)),
    (CH + ".__init__", ("weights",), dict(L="none", sigma="vec", y_is_mean=True, with_uncertainty=True)),
    (CH + ".__init__", ("L", "W"), dict(L="none", sigma="vec", y_is_mean=True, with_uncertainty=True)),
    (CH + ".__init__", ("L", "W"), dict(L="mat", sigma="scalar", y_is_mean=True, with_uncertainty=True)),
    (CH + ".__init__", ("L", "W"), dict(L="mat", sigma="vec", y_is_mean=True, with_uncertainty=True)),
]
for _cls in (FULL, LM, CH):
    TARGETS.append((_cls + "._mean", None, {}))
    for _d in (True, False):
        TARGETS.append((_cls + "._covariance", None, dict(diag=_d)))
        TARGETS.append((_cls + "._mean_covariance", None, dict(diag=_d)))
TARGETS += [
    (D + "_full_rank", None, {}),
    (D + "_full_decomposition_low_rank", None, {}),
    (D + "_standard_low_rank", None, dict(Lp="none")),
    (D + "_standard_low_rank", None, dict(Lp="mat")),
    (D + "_modified_low_rank", None, {}),
    ("mellon.inference.compute_parameter_cov_factor", None, {}),
]

# static paths that must raise (class checked against the implementation by the checks)
ERROR_PATHS = [
    (FULL + ".__init__", dict(L="none", sigma="none", y_cov_factor="none", y_is_mean=False, with_uncertainty=False), "ValueError"),
    (LM + ".__init__", dict(sigma="none", y_cov_factor="none", y_is_mean=False, with_uncertainty=False), "ValueError"),
    (CH + ".__init__", dict(L="none", sigma="scalar", y_is_mean=False, with_uncertainty=True), "ValueError"),
    (CH + ".__init__", dict(L="mat", sigma="none", y_is_mean=True, with_uncertainty=True), "ValueError"),
]

EXPECTED_CLASSES = [
    ("FullConditional", ["_FullConditional", "Predictor"]),
    ("ExpFullConditional", ["_FullConditional", "ExpPredictor"]),
    ("FullConditionalTime", ["_FullConditional", "PredictorTime"]),
    ("LandmarksConditional", ["_LandmarksConditional", "Predictor"]),
    ("ExpLandmarksConditional", ["_LandmarksConditional", "ExpPredictor"]),
    ("LandmarksConditionalTime", ["_LandmarksConditional", "PredictorTime"]),
    ("LandmarksConditionalCholesky", ["_LandmarksConditionalCholesky", "Predictor"]),
    ("ExpLandmarksConditionalCholesky", ["_LandmarksConditionalCholesky", "ExpPredictor"]),
    ("LandmarksConditionalCholeskyTime", ["_LandmarksConditionalCholesky", "PredictorTime"]),
]


def translate_all(repo):
    """returns ({'gen/MatGen.v': text}, translated function names, meta, translator)"""
    tr = Translator(repo)
    for q, want, path in TARGETS:
        tr.target(q, want=want, **path)
    for q, path, cls in ERROR_PATHS:
        try:
            tr.target(q, want=("weights",), **path)
        except PathError as e:
            if e.cls != cls:
                raise Unsupported("path %s %s raises %s, expected %s" % (q, path, e.cls, cls))
        else:
            raise Unsupported("path %s %s no longer raises %s" % (q, path, cls))
    rows = tr.class_table()
    table = "Definition predictor_classes : list (string * list string) :=\n  [%s]%%string.\n" % ";\n   ".join(
        '("%s", [%s])' % (c, "; ".join('"%s"' % b for b in bs)) for c, bs in rows)
    text = tr.emit(extra="\n(* public predictor classes of mellon/conditional.py: (name, bases); all bodies are `pass` *)\n"
                   "Open Scope string_scope.\n" + table)
    return {"gen/MatGen.v": text}, list(tr.sources), tr.meta, tr


# ---------------------------------------------------------------- Coq evaluation (PrimFloat instance)
def flit(x):
    x = float(x)
    if x != x:
        return "nan"
    if x in (float("inf"), float("-inf")):
        return "infinity" if x > 0 else "neg_infinity"
    h = x.hex()
    return "(%s)" % h if h.startswith("-") else h


def mlit(a):
    a = np.asarray(a, dtype=float)
    if a.ndim == 1:
        a = a[:, None]
    return "[" + "; ".join("[" + "; ".join(flit(v) for v in row) + "]" for row in a) + "]"


def coq_call(meta, name, dims, args, ops="FloatOps"):
    """Gallina text applying generated definition `name` (explicit dims) to NumPy/scalar arguments"""
    m = meta[name]
    parts = ["@%s float FM %s" % (name, ops)] + [str(int(dims[d])) for d in m["dims"]]
    for pn, pt in m["params"]:
        v = args[pn]
        if pt == "nat":
            parts.append(str(int(v)))
        elif pt == "S":
            parts.append(flit(v))
        else:
            parts.append("(%s : list (list float))" % mlit(v))
    return "(" + " ".join(parts) + ")"


HEADER = ("From Coq Require Import List ZArith Uint63 PrimFloat.\nFrom MellonV Require Import MatOps MxFloat MatGen.\n"
          "Import ListNotations.\nOpen Scope float_scope.\n")

_num = r"(?:-?\d+(?:\.\d+)?(?:e[+-]?\d+)?|nan|-?infinity|neg_infinity)"


def parse_matrix(txt):
    """parse a printed list (list float)"""
    txt = txt.strip()
    rows = re.findall(r"\[([^\[\]]*)\]", txt)
    out = []
    for r in rows:
        r = r.strip()
        if not r:
            out.append([])
            continue
        out.append([float(t.replace("neg_infinity", "-inf").replace("infinity", "inf")) for t in r.split(";")])
    return np.array(out, dtype=float)


def eval_terms(ctx, name, terms, timeout=900):
    """evaluate a list of Gallina terms of type list (list float) with vm_compute; returns arrays"""
    body = [HEADER]
    for i, t in enumerate(terms):
        body.append("Definition r%d := %s." % (i, t))
        body.append("Eval vm_compute in r%d." % i)
    out = ctx.coq_eval(name, "\n".join(body), timeout=timeout)
    parts = re.split(r"\n\s*=\s", "\n" + out)[1:]
    res = []
    for p in parts:
        p = p.split("\n     :")[0]
        res.append(parse_matrix(p))
    if len(res) != len(terms):
        from vlib.core import Broken
        raise Broken("correspondence", name, "expected %d results, parsed %d: %s" % (len(terms), len(res), out[-400:]))
    return res
