"""World A harness (C05, C11, C03): exact-rational encoding of float inputs, kernel expression
trees (Mellon object / Gallina term / independent NumPy oracle with a derived error bound),
active_dims forms, sharded compilation of Interval goals.

Nothing here imports Mellon's kernels for the oracle side: the documented formulas are
re-derived with NumPy on coordinates selected by NumPy indexing.
"""
import math
import re
from concurrent.futures import ThreadPoolExecutor
from fractions import Fraction

import numpy as np

U = 2.0 ** -53            # unit round-off of float64
TINY = 2.0 ** -1000       # results near the underflow threshold may be flushed to zero


# ------------------------------------------------------------------ literals
def R(x):
    """float64 -> exact Gallina real literal"""
    fr = Fraction(float(x))
    if fr.denominator == 1:
        return str(fr.numerator) if fr.numerator >= 0 else "(%d)" % fr.numerator
    n = str(fr.numerator) if fr.numerator >= 0 else "(%d)" % fr.numerator
    return "(%s / %d)" % (n, fr.denominator)


def Rup(x):
    """a non-negative tolerance, rounded up to a short decimal literal"""
    x = float(x)
    if not (x >= 0) or math.isinf(x):
        raise ValueError("tolerance %r" % x)
    if x == 0:
        return "0"
    e = math.floor(math.log10(x)) - 3
    m = math.floor(x / 10.0 ** e) + 2
    fr = Fraction(m) * (Fraction(10) ** e)
    assert fr >= Fraction(x)
    return "(%d / %d)" % (fr.numerator, fr.denominator) if fr.denominator != 1 else str(fr.numerator)


def Rlist(v):
    return "[" + "; ".join(R(a) for a in v) + "]"


def Z(n):
    return "%d%%Z" % n if n >= 0 else "(%d)%%Z" % n


# ------------------------------------------------------------------ active_dims forms
class AD:
    def __init__(self, kind, py, coq):
        self.kind, self.py, self.coq = kind, py, coq

    def index(self, width):
        """resolved coordinates by NumPy's own indexing (independent of Mellon)"""
        if self.kind == "none":
            return list(range(width))
        ad = self.py
        if np.isscalar(ad):
            ad = [ad]
        return [int(i) for i in np.arange(width)[..., ad]]

    def __repr__(self):
        return "%s:%r" % (self.kind, self.py if self.kind != "mask" else list(map(bool, self.py)))


def optZ(v):
    return "None" if v is None else "(Some %s)" % Z(v)


def make_ad(kind, rng, width):
    """one active_dims value of the given form, valid for `width` columns, selecting >= 1 distinct column"""
    if kind == "none":
        return AD("none", None, "DNone")
    if kind == "int":
        i = rng.randrange(width)
        return AD("int", i, "(DInt %s)" % Z(i))
    if kind == "negint":
        i = -rng.randrange(1, width + 1)
        return AD("negint", i, "(DInt %s)" % Z(i))
    if kind == "list":
        k = rng.randrange(1, width + 1)
        idx = rng.sample(range(width), k)
        idx = [i if rng.random() < 0.6 else i - width for i in idx]
        py = idx if rng.random() < 0.5 else np.array(idx)
        return AD("list", py, "(DList [%s])" % "; ".join(Z(i) for i in idx))
    if kind == "mask":
        m = [rng.random() < 0.5 for _ in range(width)]
        if not any(m):
            m[rng.randrange(width)] = True
        return AD("mask", np.array(m), "(DMask [%s])" % "; ".join("true" if b else "false" for b in m))
    if kind == "slice":
        for _ in range(50):
            a = rng.choice([None, 0, 1, -1, -2, rng.randrange(-width, width + 1)])
            b = rng.choice([None, -1, width, rng.randrange(-width, width + 2)])
            s = rng.choice([None, None, 1, 2, -1])
            if len(range(width)[slice(a, b, s)]) >= 1:
                return AD("slice", slice(a, b, s), "(DSlice %s %s %s)" % (optZ(a), optZ(b), optZ(s)))
        return AD("slice", slice(None, None, None), "(DSlice None None None)")
    raise ValueError(kind)


AD_KINDS = ["none", "int", "negint", "list", "mask", "slice"]

# ------------------------------------------------------------------ documented formulas (NumPy oracle)
STATIONARY = ["Matern32", "Matern52", "ExpQuad", "Exponential", "RatQuad"]
BASES = STATIONARY + ["Linear"]
S3, S5 = math.sqrt(3.0), math.sqrt(5.0)


def phi(name, ls, alpha, d):
    """documented radial profile"""
    if name == "Matern32":
        r = S3 * d / ls
        return (1 + r) * math.exp(-r)
    if name == "Matern52":
        r = S5 * d / ls
        return (1 + r + r * r / 3) * math.exp(-r)
    if name == "ExpQuad":
        return math.exp(-d * d / (2 * ls * ls))
    if name == "Exponential":
        return math.exp(-d / (2 * ls))
    if name == "RatQuad":
        return math.exp(-alpha * math.log1p(d * d / (2 * alpha * ls * ls)))
    raise ValueError(name)


def dphi(name, ls, alpha, d):
    """derivative of the documented profile with respect to the distance"""
    if name == "Matern32":
        s = S3 / ls
        return -s * s * d * math.exp(-s * d)
    if name == "Matern52":
        s = S5 / ls
        r = s * d
        return -(s / 3) * r * (1 + r) * math.exp(-r)
    if name == "ExpQuad":
        return -(d / (ls * ls)) * math.exp(-d * d / (2 * ls * ls))
    if name == "Exponential":
        return -math.exp(-d / (2 * ls)) / (2 * ls)
    if name == "RatQuad":
        return -(d / (ls * ls)) * math.exp(-(alpha + 1) * math.log1p(d * d / (2 * alpha * ls * ls)))
    raise ValueError(name)


def dphi_mode(name, ls, alpha):
    """the distance at which |phi'| is largest (|phi'| is unimodal on [0, oo) for all five profiles)"""
    if name == "RatQuad":
        return ls * math.sqrt(2 * alpha / (2 * alpha + 1))
    return {"Matern32": ls / S3, "Matern52": ls * (1 + S5) / 2 / S5, "ExpQuad": ls, "Exponential": 0.0}[name]


def dphi_sup(name, ls, alpha, a, b):
    """sup of |phi'| over [a, b] (a >= 0), using unimodality"""
    a = max(a, 0.0)
    m = dphi_mode(name, ls, alpha)
    s = max(abs(dphi(name, ls, alpha, a)), abs(dphi(name, ls, alpha, b)))
    if a <= m <= b:
        s = max(s, abs(dphi(name, ls, alpha, m)))
    return s


def dist_oracle(x, y):
    """sqrt(|x-y|^2 + 1e-12) from coordinate differences (no cancellation), and the DERIVED bound on
    |float implementation - exact|: the code forms |x|^2 - 2<x,y> + |y|^2 with three length-d
    contractions (gamma_d each, any summation order) and three additions, so its squared distance is
    off by delta <= (2d+8) u (|x|^2+|y|^2); |sqrt(max(a+delta,0)) - sqrt(a)| <= min(sqrt(delta), delta/sqrt(a));
    the square root itself and the scaling by ls add 8u relative."""
    x = np.asarray(x, float)
    y = np.asarray(y, float)
    d = len(x)
    sq = float(np.sum((x - y) ** 2)) + 1e-12
    dist = math.sqrt(sq)
    S = float(np.sum(x * x) + np.sum(y * y))
    delta = (2 * d + 8) * U * S * 1.0000001 + 4 * U * 1e-12
    err = min(math.sqrt(delta), delta / dist) + 8 * U * dist
    return dist, err


def sq_true_rational(x, y):
    return sum((Fraction(float(a)) - Fraction(float(b))) ** 2 for a, b in zip(x, y)) + Fraction(1, 10 ** 12)


# ------------------------------------------------------------------ kernel expression trees
class Node:
    """op: base | add | addc | mul | mulc | pow"""

    def __init__(self, op, ad, name=None, ls=None, alpha=None, left=None, right=None, c=None):
        self.op, self.ad, self.name, self.ls, self.alpha, self.left, self.right, self.c = op, ad, name, ls, alpha, left, right, c

    # --- the Mellon object
    def build(self):
        import importlib
        mc = importlib.import_module("mellon.cov")
        bc = importlib.import_module("mellon.base_cov")
        if self.op == "base":
            cls = getattr(mc, self.name)
            if self.name == "RatQuad":
                return cls(alpha=self.alpha, ls=self.ls, active_dims=self.ad.py)
            return cls(ls=self.ls, active_dims=self.ad.py)
        l = self.left.build()
        if self.op == "add":
            return bc.Add(l, self.right.build(), active_dims=self.ad.py)
        if self.op == "mul":
            return bc.Mul(l, self.right.build(), active_dims=self.ad.py)
        if self.op == "addc":
            return bc.Add(l, self.c, active_dims=self.ad.py)
        if self.op == "mulc":
            return bc.Mul(l, self.c, active_dims=self.ad.py)
        if self.op == "pow":
            return bc.Pow(l, self.c, active_dims=self.ad.py)
        raise ValueError(self.op)

    # --- the Gallina term
    def coq(self):
        if self.op == "base":
            b = {"Matern32": "BMatern32", "Matern52": "BMatern52", "ExpQuad": "BExpQuad", "Exponential": "BExponential",
                 "Linear": "BLinear"}.get(self.name) or "(BRatQuad %s)" % R(self.alpha)
            return "(KBase %s %s %s)" % (b, R(self.ls), self.ad.coq)
        if self.op in ("add", "mul"):
            return "(%s %s %s %s)" % ("KAdd" if self.op == "add" else "KMul", self.left.coq(), self.right.coq(), self.ad.coq)
        k = {"addc": "KAddC", "mulc": "KMulC", "pow": "KPow"}[self.op]
        return "(%s %s %s %s)" % (k, self.left.coq(), R(self.c), self.ad.coq)

    def shape(self):
        if self.op == "base":
            return self.name
        if self.op in ("add", "mul"):
            return "%s(%s,%s)" % (self.op, self.left.shape(), self.right.shape())
        return "%s(%s)" % (self.op, self.left.shape())

    def describe(self):
        if self.op == "base":
            return "%s(ls=%r%s, ad=%r)" % (self.name, self.ls, ", alpha=%r" % self.alpha if self.name == "RatQuad" else "", self.ad)
        if self.op in ("add", "mul"):
            return "%s(%s, %s, ad=%r)" % (self.op, self.left.describe(), self.right.describe(), self.ad)
        return "%s(%s, %r, ad=%r)" % (self.op, self.left.describe(), self.c, self.ad)

    def depth(self):
        if self.op == "base":
            return 1
        return 1 + max(self.left.depth(), self.right.depth() if self.right is not None else 0)

    # --- independent oracle: value, derived error bound of the float implementation, gradient wrt y
    def oracle(self, x, y, grad=False, code_eps=True):
        """x, y: 1-D float arrays (one pair of points).  Returns (value, tol, g, gtol, ok) where g is the exact
        gradient wrt y (full width, zeros outside the active coordinates), computed from the documented
        formulas, tol/gtol bound |float implementation - exact| entry-wise, and ok is False when the model's
        side conditions fail (non-positive base under a power)."""
        x = np.asarray(x, float)
        y = np.asarray(y, float)
        w = len(y)
        idx = self.ad.index(w)
        xs, ys = x[idx], y[idx]
        ws = len(idx)
        ok = True
        if self.op == "base":
            if self.name == "Linear":
                v = float(np.dot(xs, ys)) / self.ls
                t = ((ws + 2) * U * float(np.sum(np.abs(xs * ys)))) / abs(self.ls) + 4 * U * abs(v) + TINY
                gs = xs / self.ls
                gts = 4 * U * np.abs(gs) + TINY
            else:
                dist, derr = dist_oracle(xs, ys)
                v = phi(self.name, self.ls, self.alpha, dist)
                L = dphi_sup(self.name, self.ls, self.alpha, dist - derr, dist + derr)
                kappa = 64.0
                if self.name == "RatQuad":
                    b = 1 + dist * dist / (2 * self.alpha * self.ls ** 2)
                    kappa += 4 * self.alpha + 2 * abs(self.alpha * math.log(b))
                t = L * derr + kappa * U * abs(v) + TINY
                gs = gts = None
                if grad:
                    # the code returns h(dist) * (y - x) with h(d) = coeff(d)/(d + eps); the exact derivative is eps = 0
                    eps = 1e-12 if code_eps else 0.0
                    co = dphi(self.name, self.ls, self.alpha, dist)
                    gs = co * (ys - xs) / (dist + eps)
                    lo = max(dist - derr, 0.0) + 1e-12
                    if self.name == "Exponential":
                        # coeff does not vanish at 0: |h'| <= sup|phi''|/(d+eps) + sup|phi'|/(d+eps)^2
                        c2 = d2phi_sup(self.name, self.ls, self.alpha, dist - derr, dist + derr)
                        dq = (c2 / lo + L / (lo * lo)) * derr
                        hmax = L / lo
                    else:
                        # coeff(d) = d psi(d) with psi smooth: h = psi d/(d+eps), |h'| <= sup|psi'| + sup|psi| eps/(d+eps)^2
                        p0, p1 = psi_bounds(self.name, self.ls, self.alpha)
                        dq = (p1 + p0 * 1e-12 / (lo * lo)) * derr
                        hmax = p0
                    # y - x is one rounded subtraction in the code; autodiff of |x|^2 - 2<x,y> + |y|^2 forms 2y_c - 2x_c
                    # from two separately rounded terms (absolute error 4u(|x_c|+|y_c|))
                    derr_delta = 2 * U * np.abs(ys - xs) if code_eps else 4 * U * (np.abs(xs) + np.abs(ys))
                    gts = dq * np.abs(ys - xs) + hmax * derr_delta + (kappa + 8) * U * np.abs(gs) + TINY
                    if not code_eps and self.name in ("Matern32", "Matern52"):
                        # autodiff of (poly(r)) e^{-r} subtracts two terms of size s phi(d): absolute error 16 u s phi(d)
                        # on the coefficient (the hand-written k_grad has the cancellation done symbolically)
                        s_ = (S3 if self.name == "Matern32" else S5) / self.ls
                        gts = gts + 16 * U * s_ * abs(v) * np.abs(ys - xs) / dist
            g = gt = None
            if grad:
                g = np.zeros(w)
                gt = np.zeros(w)
                g[idx] = gs
                gt[idx] = gts
            return v, t, g, gt, ok
        vl, tl, gl, gtl, okl = self.left.oracle(xs, ys, grad, code_eps)
        ok = okl
        if self.op in ("add", "mul"):
            vr, tr, gr, gtr, okr = self.right.oracle(xs, ys, grad, code_eps)
            ok = ok and okr
        gs = gts = None
        if self.op == "add":
            v = vl + vr
            t = tl + tr + U * abs(v) + TINY
            if grad:
                gs = gl + gr
                gts = gtl + gtr + U * np.abs(gs) + TINY
        elif self.op == "addc":
            v = vl + self.c
            t = tl + U * abs(v) + TINY
            if grad:
                gs, gts = gl, gtl
        elif self.op == "mul":
            v = vl * vr
            t = abs(vl) * tr + abs(vr) * tl + tl * tr + U * abs(v) + TINY      # (a product of normal numbers may underflow)
            if grad:
                gs = gl * vr + vl * gr
                gts = (np.abs(gl) * tr + abs(vr) * gtl + gtl * tr + np.abs(gr) * tl + abs(vl) * gtr + gtr * tl
                       + 3 * U * (np.abs(gl * vr) + np.abs(vl * gr)) + TINY)
        elif self.op == "mulc":
            v = vl * self.c
            t = abs(self.c) * tl + U * abs(v) + TINY
            if grad:
                gs = gl * self.c
                gts = abs(self.c) * gtl + U * np.abs(gs) + TINY
        elif self.op == "pow":
            p = self.c
            if not (vl - tl > 0):
                ok = False
                with np.errstate(all="ignore"):
                    v = float(np.power(vl, p)) if (vl > 0 or float(p).is_integer()) else float("nan")
                t = float("inf")
                if grad:
                    gs = np.full(ws, np.nan)
                    gts = np.full(ws, np.inf)
            else:
                with np.errstate(all="ignore"):
                    vl_, tl_ = np.float64(vl), np.float64(tl)
                    v = float(vl_ ** p)
                    lo, hi = float((vl_ - tl_) ** p), float((vl_ + tl_) ** p)
                    t = max(abs(lo - v), abs(hi - v)) + (64 + 2 * abs(p * math.log(vl))) * U * abs(v) + TINY
                    if grad:
                        q = float(p * vl_ ** (p - 1))
                        qlo, qhi = float(p * (vl_ - tl_) ** (p - 1)), float(p * (vl_ + tl_) ** (p - 1))
                        tq = max(abs(qlo - q), abs(qhi - q)) + (64 + 2 * abs((p - 1) * math.log(vl))) * U * abs(q)
                        gs = q * gl
                        gts = abs(q) * gtl + tq * np.abs(gl) + tq * gtl + 2 * U * np.abs(gs) + TINY
                if not np.isfinite(v) or not np.isfinite(t):
                    ok = False
        else:
            raise ValueError(self.op)
        g = gt = None
        if grad:
            g = np.zeros(w)
            gt = np.zeros(w)
            g[idx] = gs
            gt[idx] = gts
        return v, t, g, gt, ok


def psi_bounds(name, ls, alpha):
    """global bounds (sup|psi|, sup|psi'|) for psi(d) = phi'(d)/d of the four smooth profiles:
    Matern32 psi = -s^2 e^{-sd}; Matern52 psi = -(s^2/3)(1+r)e^{-r}, psi' = (s^3/3) r e^{-r};
    ExpQuad psi = -e^{-r^2/2}/ls^2, psi' = r e^{-r^2/2}/ls^3; RatQuad psi = -b^{-a-1}/ls^2, psi' = ((a+1)/a) r b^{-a-2}/ls^3"""
    if name == "Matern32":
        s = S3 / ls
        return s * s, s ** 3
    if name == "Matern52":
        s = S5 / ls
        return s * s / 3, s ** 3 / 3 * math.exp(-1.0)
    if name == "ExpQuad":
        return 1 / ls ** 2, math.exp(-0.5) / ls ** 3
    if name == "RatQuad":
        return 1 / ls ** 2, (alpha + 1) / alpha / ls ** 3
    raise ValueError(name)


def d2phi(name, ls, alpha, d):
    """second derivative of the documented profile"""
    if name == "Matern32":
        s = S3 / ls
        return -s * s * (1 - s * d) * math.exp(-s * d)
    if name == "Matern52":
        s = S5 / ls
        r = s * d
        return -(s * s / 3) * (1 + r - r * r) * math.exp(-r)
    if name == "ExpQuad":
        r = d / ls
        return -(1 - r * r) * math.exp(-r * r / 2) / (ls * ls)
    if name == "Exponential":
        return math.exp(-d / (2 * ls)) / (4 * ls * ls)
    if name == "RatQuad":
        r2 = d * d / (ls * ls)
        b = 1 + r2 / (2 * alpha)
        return -(1 / (ls * ls)) * (b ** (-alpha - 1) - r2 * (alpha + 1) / alpha * b ** (-alpha - 2))
    raise ValueError(name)


def d2phi_sup(name, ls, alpha, a, b):
    """a bound on sup |phi''| over [a,b]: |phi''| <= C/ls^2 globally (C = 3, 5/3, 1, 1/4, 1+(alpha+1)/alpha * ... ) and
    is evaluated on a grid when the interval is short relative to ls (it is smooth on the scale ls)"""
    a = max(a, 0.0)
    glob = {"Matern32": 3.0, "Matern52": 5.0 / 3 * 1.25, "ExpQuad": 1.0, "Exponential": 0.25, "RatQuad": 3.0}[name] / (ls * ls)
    if b - a > 0.05 * ls:
        return glob
    pts = [a + (b - a) * i / 8 for i in range(9)]
    loc = max(abs(d2phi(name, ls, alpha, p)) for p in pts)
    # |phi'''| <= 6/ls^3 for all five profiles: the grid value is within 6/ls^3 * (b-a)/16 of the sup
    return min(glob, loc + 6.0 / ls ** 3 * (b - a) / 16)


def random_base(rng, width, name=None, ad_kind=None, ls=None):
    name = name or rng.choice(BASES)
    ad = make_ad(ad_kind or rng.choice(AD_KINDS), rng, width)
    ls = ls if ls is not None else float(np.float64(10.0 ** rng.uniform(-2, 2)))
    alpha = float(np.float64(10.0 ** rng.uniform(-2, 2))) if name == "RatQuad" else None
    return Node("base", ad, name=name, ls=ls, alpha=alpha)


SCALARS = [0.5, 2.0, -1.5, 3.0, 0.125]
POWERS = [2.0, 3.0, 0.5, 1.5, -1.0, 2.5]


def combine(rng, op, width, mk_child, ad_kind=None):
    """an operator node of the given kind over children built by mk_child(sub_width)"""
    ad = make_ad(ad_kind or rng.choice(AD_KINDS), rng, width)
    sw = len(ad.index(width))
    if op in ("add", "mul"):
        return Node(op, ad, left=mk_child(sw), right=mk_child(sw))
    if op in ("addc", "mulc"):
        return Node(op, ad, left=mk_child(sw), c=rng.choice(SCALARS))
    return Node("pow", ad, left=mk_child(sw), c=rng.choice(POWERS))


OPS = ["add", "addc", "mul", "mulc", "pow"]


def random_tree(rng, depth, width):
    if depth <= 1:
        return random_base(rng, width)
    op = rng.choice(OPS)
    return combine(rng, op, width, lambda sw: random_tree(rng, rng.choice([depth - 1, depth - 1, 1]), sw))


def depth2_shapes():
    """all depth-2 shapes: op x base kernels (x base kernels)"""
    out = []
    for op in OPS:
        for a in BASES:
            if op in ("add", "mul"):
                for b in BASES:
                    out.append((op, a, b))
            else:
                out.append((op, a, None))
    return out


def depth2_tree(rng, shape, width, root_kind):
    op, a, b = shape
    ad = make_ad(root_kind, rng, width)
    sw = len(ad.index(width))
    # moderate length scales so that products/powers of kernels stay away from underflow most of the time
    mk = lambda nm: random_base(rng, sw, name=nm, ls=float(np.float64(10.0 ** rng.uniform(-1, 1.5))))
    if op in ("add", "mul"):
        return Node(op, ad, left=mk(a), right=mk(b))
    if op in ("addc", "mulc"):
        return Node(op, ad, left=mk(a), c=rng.choice(SCALARS))
    return Node("pow", ad, left=mk(a), c=rng.choice(POWERS))


# ------------------------------------------------------------------ point sets
def point_sets(rng, width, n=3):
    """X (n rows) and Y (n+3 rows): random rows, a coincident row, near-coincident rows (1e-7, 1e-10 relative),
    a collinear row and a large-offset row.  Coordinates up to 1e2."""
    scale = 10.0 ** rng.uniform(-1, 2)
    kind = rng.choice(["gauss", "gauss", "int", "dyadic"])
    if kind == "gauss":
        X = np.array([[rng.gauss(0, 1) * scale for _ in range(width)] for _ in range(n)])
    elif kind == "int":
        X = np.array([[float(rng.randrange(-100, 101)) for _ in range(width)] for _ in range(n)])
    else:
        X = np.array([[rng.randrange(-6400, 6401) / 64.0 for _ in range(width)] for _ in range(n)])
    X = np.clip(X, -100.0, 100.0)
    rows = [np.array([rng.gauss(0, 1) * scale for _ in range(width)])]
    rows.append(X[0].copy())                                                  # coincident
    rows.append(X[1 % n] + 1e-7 * scale * np.array([rng.gauss(0, 1) for _ in range(width)]))   # near-coincident
    rows.append(X[2 % n] * (1 + 1e-10))                                        # nearly coincident, relative
    rows.append(2.0 * X[0] - X[1 % n])                                         # collinear with two rows of X
    rows.append(X[0] + 100.0 * rng.choice([-1.0, 1.0]))                        # large offset
    Y = np.clip(np.array(rows), -200.0, 200.0)
    return X, Y


# ------------------------------------------------------------------ Interval goals, sharded
CASE_HDR = ("From Coq Require Import Reals List ZArith Lra Lia.\nFrom Interval Require Import Tactic.\n"
            "From MellonV Require Import %s.\nImport ListNotations.\nOpen Scope R_scope.\n")


def run_goals(ctx, name, imports, goals, shard=40, timeout=900):
    """goals: list of (statement, tactic).  Every goal is proved and closed with Qed (kernel-checked).
    Returns {index: message} for the goals that could not be proved (diagnosed shard by shard)."""
    from vlib.core import Broken, NCPU
    hdr = CASE_HDR % imports
    shards = [list(range(i, min(i + shard, len(goals)))) for i in range(0, len(goals), shard)]

    def one(k):
        idx = shards[k]
        body = [hdr] + ["Lemma case_%d : %s.\nProof. %s. Qed." % (i, goals[i][0], goals[i][1]) for i in idx]
        try:
            ctx.coq_eval("%s_%d" % (name, k), "\n".join(body), timeout=timeout)
            return {}
        except Broken:
            pass
        body = [hdr]
        for i in idx:
            body.append('Goal %s.\nProof. tryif (timeout 60 (%s)) then idtac "CASE-OK %d" else idtac "CASE-FAIL %d". Abort.'
                        % (goals[i][0], goals[i][1], i, i))
        try:
            out = ctx.coq_eval("%s_%d_diag" % (name, k), "\n".join(body), timeout=timeout)
        except Broken as b:
            return {i: "cases file does not compile: " + b.detail[:300] for i in idx}
        bad = {int(m): "interval could not prove the goal" for m in re.findall(r"CASE-FAIL (\d+)", out)}
        if not bad:
            return {i: "shard failed but no single goal did" for i in idx[:1]}
        return bad
    res = {}
    with ThreadPoolExecutor(max_workers=min(NCPU, max(1, len(shards)))) as ex:
        for r in ex.map(one, range(len(shards))):
            res.update(r)
    return res
