"""Shared pieces of the world-B checks (C01, C16, C02 matrix part, C04, C06, C09):
seeded data/kernels, recording of the linear-algebra oracles with contract validation,
the stated normal equations in NumPy, derived tolerances."""
import logging

import numpy as np

U = 2.0 ** -53          # unit roundoff of binary64


# ------------------------------------------------------------------ data
def dataset(rng, n, d, kind):
    if kind == "gauss":
        x = rng.normal(size=(n, d))
    elif kind == "clustered":
        k = max(2, n // 8)
        cent = rng.normal(size=(k, d)) * 3
        x = cent[rng.integers(0, k, size=n)] + 0.15 * rng.normal(size=(n, d))
    elif kind == "near-duplicate":
        base = rng.normal(size=(max(2, (n + 1) // 2), d))
        x = np.vstack([base, base[: n - base.shape[0]] + 1e-6 * rng.normal(size=(n - base.shape[0], d))])
    else:  # anisotropic
        x = rng.normal(size=(n, d)) * np.logspace(0, -2, d)[None, :]
    return np.ascontiguousarray(x[:n], dtype=float)


KERNELS = ["Matern32", "Matern52", "ExpQuad", "Exponential", "RatQuad", "Linear"]


def make_kernel(rng, name, ls, compose=False, active_dims=None):
    import mellon.cov as mcov
    kw = {} if active_dims is None else {"active_dims": active_dims}
    if name == "RatQuad":
        k = mcov.RatQuad(float(rng.choice([0.5, 1.0, 2.5])), ls, **kw)
    else:
        k = getattr(mcov, name)(ls, **kw)
    desc = "%s(ls=%g)" % (name, ls)
    if compose:
        other = rng.choice(["Matern52", "ExpQuad", "Exponential"])
        k2 = getattr(mcov, other)(ls * 2.0, **kw)
        how = rng.choice(["add", "mul", "scale"])
        if how == "add":
            k, desc = k + k2, "%s + %s(ls=%g)" % (desc, other, ls * 2)
        elif how == "mul":
            k, desc = k * k2, "%s * %s(ls=%g)" % (desc, other, ls * 2)
        else:
            k, desc = 0.7 * k + 0.25, "0.7*%s + 0.25" % desc
    return k, desc


# ------------------------------------------------------------------ oracle recording
class Recorder:
    """wraps cholesky / solve_triangular / eigh / qr as imported by the anchored modules and
    validates the contracts assumed in Coq (lib/MxInst.v) on every recorded call"""

    def __init__(self, modules):
        self.modules = modules
        self.saved = []
        self.counts = {"cholesky": 0, "solve_triangular": 0, "eigh": 0, "qr": 0}
        self.failures = []
        self.last = {}
        self.chol_nan = 0

    def __enter__(self):
        for mod in self.modules:
            for name in ("cholesky", "solve_triangular", "eigh", "qr"):
                if hasattr(mod, name):
                    real = getattr(mod, name)
                    self.saved.append((mod, name, real))
                    setattr(mod, name, self.wrap(name, real))
        return self

    def __exit__(self, *a):
        for mod, name, real in self.saved:
            setattr(mod, name, real)
        self.saved = []

    def wrap(self, name, real):
        def f(*args, **kw):
            out = real(*args, **kw)
            try:
                getattr(self, "check_" + name)(args, kw, out)
            except Exception as e:  # tracer values under jit etc.: not a recorded concrete call
                if not type(e).__name__.startswith("Tracer") and "Tracer" not in str(e)[:200]:
                    self.failures.append("%s: validation error %s: %s" % (name, type(e).__name__, str(e)[:200]))
            return out
        return f

    def check_cholesky(self, args, kw, L):
        A, L = np.asarray(args[0], dtype=float), np.asarray(L, dtype=float)
        # jnp.linalg.cholesky factorises the symmetrised input (A + A^T)/2; Gram matrices are symmetric only up to rounding
        if A.ndim == 2 and A.shape[0] == A.shape[1]:
            A = 0.5 * (A + A.T)
        self.counts["cholesky"] += 1
        self.last["chol"] = (A, L)
        n = A.shape[0]
        if np.isnan(L).any():
            self.chol_nan += 1      # allowed by the contract ("L with a NaN")
            return
        if n == 0:
            return
        tol = 2 * (n + 1) * n * U * np.linalg.norm(A) + 1e-300
        if np.abs(np.triu(L, 1)).max(initial=0.0) != 0.0 or not (np.diag(L) > 0).all() \
                or np.linalg.norm(L @ L.T - A) > tol:
            self.failures.append("cholesky: n=%d residual %.3g > %.3g or not lower/positive" % (n, np.linalg.norm(L @ L.T - A), tol))

    def check_solve_triangular(self, args, kw, x):
        T, b, x = np.asarray(args[0], dtype=float), np.asarray(args[1], dtype=float), np.asarray(x, dtype=float)
        self.counts["solve_triangular"] += 1
        if set(kw) - {"lower"}:
            self.failures.append("solve_triangular: unexpected keywords %s" % sorted(kw))
            return
        if np.isnan(x).any() or np.isnan(T).any() or np.isnan(b).any():
            return
        Tt = np.tril(T) if kw.get("lower", False) else np.triu(T)
        n = T.shape[0]
        b2, x2 = (b[:, None], x[:, None]) if b.ndim == 1 else (b, x)
        res = np.abs(Tt @ x2 - b2)
        bound = 8 * n * U * (np.abs(Tt) @ np.abs(x2)) + 1e-300
        if (res > bound).any():
            self.failures.append("solve_triangular: n=%d lower=%s residual/bound %.3g" % (n, kw.get("lower", False), (res / bound).max()))

    def check_eigh(self, args, kw, out):
        A = np.asarray(args[0], dtype=float)
        s, v = np.asarray(out[0], dtype=float), np.asarray(out[1], dtype=float)
        self.counts["eigh"] += 1
        self.last.setdefault("eigh", []).append((A, s, v))
        n = A.shape[0]
        tol = 64 * n * U * max(np.linalg.norm(A, 2), 1e-300)
        if np.linalg.norm(A @ v - v * s[None, :], 2) > tol or np.linalg.norm(v.T @ v - np.eye(n), 2) > 64 * n * U \
                or not (np.diff(s) >= 0).all():
            self.failures.append("eigh: n=%d residual %.3g orth %.3g" % (n, np.linalg.norm(A @ v - v * s[None, :], 2), np.linalg.norm(v.T @ v - np.eye(n), 2)))

    def check_qr(self, args, kw, out):
        Cm = np.asarray(args[0], dtype=float)
        Q, R = np.asarray(out[0], dtype=float), np.asarray(out[1], dtype=float)
        self.counts["qr"] += 1
        self.last.setdefault("qr", []).append((Cm, Q, R))
        n = max(Cm.shape)
        if kw.get("mode") != "reduced":
            self.failures.append("qr: mode %r" % (kw.get("mode"),))
        if np.linalg.norm(Q @ R - Cm) > 64 * n * U * max(np.linalg.norm(Cm), 1e-300) \
                or np.linalg.norm(Q.T @ Q - np.eye(Q.shape[1]), 2) > 64 * n * U or np.abs(np.tril(R, -1)).max(initial=0.0) > 0:
            self.failures.append("qr: residual %.3g" % np.linalg.norm(Q @ R - Cm))


def quiet():
    import mellon
    mellon.logger.setLevel(logging.CRITICAL)


def real_module(name):
    """mellon/__init__ rebinds mellon.conditional, mellon.inference ... to the public facade modules
    (_conditional.py ...); the implementation modules are the ones in sys.modules"""
    import importlib
    import sys
    importlib.import_module(name)
    return sys.modules[name]


# ------------------------------------------------------------------ the stated normal equations (NumPy)
def noise_matrix(kind, sigma, j, size):
    """noise term of the theorems: y_is_mean -> j I ; scalar -> max(s^2, j) I ; vector -> diag(max(s_i^2, j))"""
    if kind == "ymean":
        return j * np.eye(size)
    if kind == "scalar":
        return max(float(sigma) ** 2, j) * np.eye(size)
    if kind == "vector":
        return np.diag(np.maximum(np.asarray(sigma, dtype=float) ** 2, j))
    raise ValueError(kind)


def col2(a):
    a = np.asarray(a, dtype=float)
    return a[:, None] if a.ndim == 1 else a


def solve_tol(A, w, rhs, extra=1.0):
    """backward-error bound of a Cholesky solve in binary64 (Higham 2002, Thm 10.4 with
    || |R^T||R| ||_2 <= n ||A||_2):  ||A w - rhs||_2 <= (3n+1) n u ||A||_2 ||w||_2 (+ n u ||rhs|| for forming rhs);
    `extra` multiplies it (condition number of an intermediate factor, where the formulation has one)"""
    n = A.shape[0]
    return extra * (3 * n + 1) * n * U * (np.linalg.norm(A, 2) * np.linalg.norm(w) + np.linalg.norm(rhs)) + 1e-300


def resid_eval_err(A, w, rhs):
    """rounding error of evaluating A w - rhs in binary64"""
    n = A.shape[0]
    return 2 * (n + 2) * U * (np.linalg.norm(A) * np.linalg.norm(w) + np.linalg.norm(rhs))
