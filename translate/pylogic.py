"""Fail-closed translator: a subset of Python (Mellon's decision logic) -> Gallina
over the dynamically typed universe of coq/lib/PyVal.v.

Every Python expression becomes a term of type [res val]; statements are
translated in continuation style.  Anything outside the subset raises
Unsupported: the check that asked for the translation then reports that the
model can no longer be regenerated from the source (never a guess).

What is deliberately *not* modelled (recorded in DESIGN.md, trusted base):
  * logger.* calls, the text of messages, docstrings;
  * assignments whose value is never read afterwards and contains no call
    (e.g. `frac = summed[p] / summed[-1]` feeding only a log line), and `if`
    statements whose branches become empty after that.
"""
import ast
import os
from fractions import Fraction


class Unsupported(Exception):
    pass


EXN = {"ValueError", "TypeError", "AttributeError", "AssertionError", "IndexError", "KeyError"}

TYPE_NAMES = {
    "builtins.int": "TInt", "builtins.float": "TFloat", "builtins.bool": "TBool",
    "builtins.str": "TStr", "builtins.dict": "TDict", "builtins.list": "TList",
    "builtins.tuple": "TTuple", "builtins.set": "TSet", "builtins.slice": "TSlice",
    "jax.numpy.ndarray": "TNdarray", "jax.numpy.integer": "TNpInteger",
    "jax.numpy.floating": "TNpFloating", "collections.abc.Iterable": "TIterable",
    "mellon.util.GaussianProcessType": "TGpType",
    "mellon.base_cov.Covariance": 'TClass "Covariance"',
    "builtins.type": 'TClass "type"',
}

# fully qualified callee -> (Gallina function, arity)
CALLS = {
    "builtins.len": ("py_len", 1), "builtins.float": ("py_float", 1), "builtins.int": ("py_int", 1),
    "builtins.min": ("py_min2", 2), "builtins.max": ("py_max2", 2),
    "jax.numpy.isnan": ("np_isnan", 1), "jax.numpy.isinf": ("np_isinf", 1),
    "jax.numpy.count_nonzero": ("np_count_nonzero", 1), "jax.numpy.cumsum": ("np_cumsum", 1),
    "jax.numpy.searchsorted": ("np_searchsorted", 2), "jax.numpy.any": ("np_any", 1),
    "jax.numpy.all": ("np_all", 1), "jax.numpy.sum": ("np_sum", 1),
    "jax.numpy.min": ("np_min", 1), "jax.numpy.ndim": ("np_ndim_f", 1),
    "jax.numpy.isscalar": ("np_isscalar", 1), "jax.numpy.squeeze": ("np_squeeze", 1),
    "jax.numpy.full": ("np_full", 2), "jax.numpy.where": ("np_where", 3),
    "jax.numpy.unique": ("np_unique", 1), "jax.numpy.asarray": ("np_asarray", 1),
    "builtins.sum": ("py_sum", 1), "jax.numpy.atleast_2d": ("np_atleast_2d", 1),
}
METHODS = {
    "sum": ("np_sum", 0), "any": ("np_any", 0), "all": ("np_all", 0), "item": ("np_item", 0),
    "lower": ("str_lower", 0), "tolist": ("np_tolist", 0), "values": ("dict_values", 0),
    "todense": ("m_todense", 0),
}
ATTRS = {"T": "np_T", "shape": "np_shape", "ndim": "np_ndim", "size": "np_size", "value": "enum_value",
         "start": "slice_start", "stop": "slice_stop", "step": "slice_step"}
CMPOPS = {ast.Lt: "py_lt", ast.LtE: "py_le", ast.Gt: "py_gt", ast.GtE: "py_ge",
          ast.Eq: "py_eq", ast.NotEq: "py_ne", ast.Is: "py_is", ast.IsNot: "py_is_not",
          ast.In: "py_in", ast.NotIn: "py_not_in"}
BINOPS = {ast.Add: "py_add", ast.Sub: "py_sub", ast.Mult: "py_mul", ast.Div: "py_truediv",
          ast.BitOr: "py_or_", ast.BitAnd: "py_and_", ast.Pow: "py_pow"}

GPT = ["FULL", "FULL_NYSTROEM", "SPARSE_CHOLESKY", "SPARSE_NYSTROEM", "FIXED"]


def coq_string(s):
    return '"' + s.replace('"', '""') + '"'


def coq_Z(n):
    return str(n) if n >= 0 else "(%d)" % n


def coq_Q(fr):
    fr = Fraction(fr)
    return "(%s # %d)" % (coq_Z(fr.numerator), fr.denominator)


def coq_float(x):
    if x != x:
        return "XNaN"
    if x == float("inf"):
        return "XPInf"
    if x == float("-inf"):
        return "XNInf"
    return "(XFin %s)" % coq_Q(Fraction(x))


class Module:
    """One source file: its AST, import table and module-level constants."""

    def __init__(self, repo, relpath):
        self.repo = repo
        self.relpath = relpath
        self.modname = relpath[:-3].replace("/", ".")
        with open(os.path.join(repo, relpath)) as f:
            self.src = f.read()
        self.tree = ast.parse(self.src)
        self.imports = {}
        self.consts = {}
        self.funcs = {}
        self.classes = {}
        pkg = self.modname.rsplit(".", 1)[0]
        for node in self.tree.body:
            if isinstance(node, ast.ImportFrom):
                base = node.module or ""
                if node.level:
                    base = pkg + ("." + base if base else "")
                for a in node.names:
                    self.imports[a.asname or a.name] = base + "." + a.name
            elif isinstance(node, ast.Import):
                for a in node.names:
                    self.imports[a.asname or a.name] = a.name
            elif isinstance(node, ast.Assign) and len(node.targets) == 1 \
                    and isinstance(node.targets[0], ast.Name):
                self.consts[node.targets[0].id] = node.value
            elif isinstance(node, ast.FunctionDef):
                self.funcs[node.name] = node
            elif isinstance(node, ast.ClassDef):
                self.classes[node.name] = node


class Translator:
    def __init__(self, repo):
        self.repo = repo
        self.modules = {}
        self.defs = []          # (coq name, text) in emission order
        self.done = {}          # qualified python name -> coq name
        self.sigs = {}          # qualified python name -> [(param, default ast or None)]
        self.oracles = {}
        self.drop_params = set()
        self.constructors = set()
        self.identity_calls = set()

    def module(self, relpath):
        if relpath not in self.modules:
            self.modules[relpath] = Module(self.repo, relpath)
        return self.modules[relpath]

    def module_by_name(self, modname):
        return self.module(modname.replace(".", "/") + ".py")

    # ----- name resolution
    def qualify(self, mod, name, local):
        if name in local:
            return None
        if name in mod.funcs or name in mod.classes or name in mod.consts:
            return mod.modname + "." + name
        if name in mod.imports:
            return mod.imports[name]
        return "builtins." + name

    def find_function(self, qual):
        modname, fn = qual.rsplit(".", 1)
        if not modname.startswith("mellon"):
            return None
        try:
            m = self.module_by_name(modname)
        except FileNotFoundError:
            # Class.method ?
            modname2, cls = modname.rsplit(".", 1)
            m = self.module_by_name(modname2)
            c = m.classes.get(cls)
            if c is None:
                return None
            for node in c.body:
                if isinstance(node, ast.FunctionDef) and node.name == fn:
                    return m, node
            return None
        if fn in m.funcs:
            return m, m.funcs[fn]
        if fn in m.imports and m.imports[fn] != qual:
            return self.find_function(m.imports[fn])
        return None

    def const_value(self, qual):
        modname, nm = qual.rsplit(".", 1)
        if not modname.startswith("mellon"):
            return None
        m = self.module_by_name(modname)
        if nm in m.consts:
            return m, m.consts[nm]
        if nm in m.imports and m.imports[nm] != qual:
            return self.const_value(m.imports[nm])
        return None

    # ----- public entry
    def translate(self, qual, coq_name=None, oracles=None, drop_params=()):
        """Translate mellon.<module>.<func> (and, recursively, the Mellon functions it calls)."""
        if qual in self.done:
            return self.done[qual]
        found = self.find_function(qual)
        if found is None:
            raise Unsupported("function %s not found" % qual)
        mod, fn = found
        coq_name = coq_name or ("py_" + qual.split(".", 1)[1].replace(".", "_"))
        self.done[qual] = coq_name
        ft = FuncTranslator(self, mod, fn, oracles or {}, set(drop_params))
        text = ft.run(coq_name)
        self.defs.append((coq_name, text))
        return coq_name

    def emit(self, header_imports=("PyVal", "PyVal2")):
        out = ["(* GENERATED by /verif/translate/pylogic.py from the working tree of /repo. Do not edit. *)",
               "From Coq Require Import ZArith QArith List String.",
               "From MellonV Require Import %s." % " ".join(header_imports),
               "Import ListNotations.", "Open Scope Z_scope.", "Open Scope string_scope.", ""]
        for _, t in self.defs:
            out.append(t)
            out.append("")
        return "\n".join(out)


def names_read(nodes):
    s = set()
    for n in nodes:
        for x in ast.walk(n):
            if isinstance(x, ast.Name) and isinstance(x.ctx, ast.Load):
                s.add(x.id)
    return s


def is_logger_call(stmt):
    return (isinstance(stmt, ast.Expr) and isinstance(stmt.value, ast.Call)
            and isinstance(stmt.value.func, ast.Attribute)
            and isinstance(stmt.value.func.value, ast.Name)
            and stmt.value.func.value.id == "logger")


def is_docstring(stmt):
    return (isinstance(stmt, ast.Expr) and isinstance(stmt.value, ast.Constant)
            and isinstance(stmt.value.value, str))


def has_call(e):
    for x in ast.walk(e):
        if isinstance(x, ast.Call):
            f = x.func
            if isinstance(f, ast.Name) and f.id in ("type", "len"):
                continue
            return True
    return False


class FuncTranslator:
    def __init__(self, tr, mod, fn, oracles, drop_params):
        self.tr = tr
        self.mod = mod
        self.fn = fn
        self.oracles = oracles      # callee simple name -> list of fresh parameter names
        self.drop = drop_params
        self.extra_params = []
        self.locals = set()
        self.tmp = 0

    def fresh(self, base="t"):
        self.tmp += 1
        return "%s_%d" % (base, self.tmp)

    def run(self, coq_name):
        fn = self.fn
        a = fn.args
        if a.vararg or a.kwarg or a.kwonlyargs or a.posonlyargs:
            raise Unsupported("%s: unsupported signature" % fn.name)
        params = [p.arg for p in a.args]
        defaults = [None] * (len(params) - len(a.defaults)) + list(a.defaults)
        self.is_method = bool(params) and params[0] == "self"
        if self.is_method:
            params, defaults = params[1:], defaults[1:]
        self.tr.sigs[self.mod.modname + "." + fn.name] = list(zip(params, defaults))
        self.locals = set(params)
        for n in ast.walk(fn):
            if isinstance(n, ast.Name) and isinstance(n.ctx, ast.Store):
                self.locals.add(n.id)
        body = self.block(list(fn.body), live_after=set(), rest=None)
        ps = [p for p in params] + [p for p in self.extra_params if not p.startswith("self_")] \
            + sorted(p for p in self.extra_params if p.startswith("self_"))
        sig = " ".join("(%s : val)" % p for p in ps)
        return "Definition %s %s : res val :=\n%s." % (coq_name, sig, body)

    # ----- statements
    def strip(self, stmts, live_after):
        """drop docstrings, logger calls and dead call-free assignments (back to front)"""
        out = []
        live = set(live_after)
        for st in reversed(stmts):
            if is_docstring(st) or is_logger_call(st):
                continue
            if isinstance(st, ast.Pass):
                continue
            if isinstance(st, ast.Assign) and len(st.targets) == 1 and isinstance(st.targets[0], ast.Name) \
                    and st.targets[0].id not in live and not has_call(st.value):
                continue
            if isinstance(st, ast.If):
                b = self.strip(st.body, live)
                o = self.strip(st.orelse, live)
                if not b and not o:
                    continue
                st = ast.If(test=st.test, body=b, orelse=o)
            out.append(st)
            if not isinstance(st, ast.Raise):      # exception messages are not modelled
                live |= names_read([st])
        out.reverse()
        return out

    def terminates(self, stmts):
        if not stmts:
            return False
        last = stmts[-1]
        if isinstance(last, (ast.Return, ast.Raise)):
            return True
        if isinstance(last, ast.If):
            return self.terminates(last.body) and self.terminates(last.orelse)
        return False

    def block(self, stmts, live_after, rest):
        """rest: None (function end) or a thunk returning the Coq text of the continuation"""
        stmts = self.strip(stmts, live_after | (rest[1] if rest else set()))
        return self.seq(stmts, rest)

    def seq(self, stmts, rest):
        if not stmts:
            return rest[0]() if rest else "Ok VNone"
        st, tail = stmts[0], stmts[1:]
        k = (lambda: self.seq(tail, rest))
        if isinstance(st, ast.Return):
            if st.value is None:
                return "Ok VNone"
            return self.expr(st.value)
        if isinstance(st, ast.Raise):
            return "Err %s" % self.exn_of(st.exc)
        if isinstance(st, ast.Assert):
            return "bind %s (fun c_ => if c_ then\n%s\n else Err AssertionError)" % (self.cond(st.test), k())
        if isinstance(st, ast.Assign):
            if len(st.targets) != 1:
                raise Unsupported("multiple assignment targets")
            t = st.targets[0]
            if isinstance(t, ast.Name):
                return "bind %s (fun %s =>\n%s)" % (self.expr(st.value), t.id, k())
            if isinstance(t, ast.Tuple) and all(isinstance(e, ast.Name) for e in t.elts):
                # tuple unpacking of an oracle call or of a translated function's tuple result
                names = [e.id for e in t.elts]
                if isinstance(st.value, ast.Call) and isinstance(st.value.func, ast.Name) \
                        and st.value.func.id in self.oracles:
                    fresh = self.oracles[st.value.func.id]
                    if len(fresh) != len(names):
                        raise Unsupported("oracle arity")
                    for f in fresh:
                        if f not in self.extra_params:
                            self.extra_params.append(f)
                    binds = "".join("let %s := %s in " % (n, f) for n, f in zip(names, fresh) if n != f)
                    return binds + "\n" + k()
                tmp = self.fresh("tup")
                binds = "".join("bind (py_getitem %s (VInt %d)) (fun %s =>\n" % (tmp, i, n)
                                for i, n in enumerate(names))
                return "bind %s (fun %s => %s%s%s)" % (self.expr(st.value), tmp, binds, k(), ")" * len(names))
            raise Unsupported("assignment target %s" % ast.dump(t))
        if isinstance(st, ast.If):
            tail_reads = names_read(tail) | (rest[1] if rest else set())
            tb = self.terminates(st.body)
            ob = self.terminates(st.orelse)
            cont = (k, tail_reads)
            bt = self.seq(st.body, None if tb else cont)
            ot = self.seq(st.orelse, None if ob else cont)
            return "bind %s (fun c_ => if c_ then\n%s\n else\n%s)" % (self.cond(st.test), bt, ot)
        if isinstance(st, ast.Expr):
            # a call evaluated for its exceptions only (validators)
            return "bind %s (fun _ =>\n%s)" % (self.expr(st.value), k())
        if isinstance(st, ast.Try):
            return self.try_stmt(st, k)
        if isinstance(st, ast.For):
            return self.for_stmt(st, tail, rest)
        raise Unsupported("statement %s at line %d" % (type(st).__name__, st.lineno))

    def try_stmt(self, st, k):
        if st.orelse or st.finalbody or len(st.body) != 1 or not isinstance(st.body[0], ast.Assign):
            raise Unsupported("try statement shape (line %d)" % st.lineno)
        asg = st.body[0]
        if len(asg.targets) != 1 or not isinstance(asg.targets[0], ast.Name):
            raise Unsupported("try body target")
        var = asg.targets[0].id
        term = self.expr(asg.value)
        for h in reversed(st.handlers):
            if h.type is None:
                raise Unsupported("bare except")
            classes = h.type.elts if isinstance(h.type, ast.Tuple) else [h.type]
            cl = []
            for c in classes:
                if not isinstance(c, ast.Name) or c.id not in EXN:
                    raise Unsupported("except class %s" % ast.dump(c))
                cl.append(c.id)
            hb = self.strip(h.body, set())
            if len(hb) == 1 and isinstance(hb[0], ast.Raise):
                ht = "Err %s" % self.exn_of(hb[0].exc)
            elif len(hb) == 1 and isinstance(hb[0], ast.Assign) and isinstance(hb[0].targets[0], ast.Name) \
                    and hb[0].targets[0].id == var:
                ht = self.expr(hb[0].value)
            else:
                raise Unsupported("except handler shape (line %d)" % h.lineno)
            term = "try_except (%s) [%s] (%s)" % (term, "; ".join(cl), ht)
        return "bind (%s) (fun %s =>\n%s)" % (term, var, k())

    def for_stmt(self, st, tail, rest):
        # only: for <name> in GaussianProcessType: <body>   (unrolled over the enum members)
        if st.orelse or not isinstance(st.target, ast.Name) or not isinstance(st.iter, ast.Name):
            raise Unsupported("for statement shape (line %d)" % st.lineno)
        q = self.tr.qualify(self.mod, st.iter.id, self.locals)
        if q != "mellon.util.GaussianProcessType":
            raise Unsupported("for over %s" % q)
        members = self.enum_members()
        var = st.target.id
        k = (lambda: self.seq(tail, rest))
        tail_reads = names_read(tail) | (rest[1] if rest else set())
        body = self.strip(st.body, tail_reads)

        def unroll(i):
            if i == len(members):
                return k()
            cont = ((lambda: unroll(i + 1)), tail_reads | names_read(st.body))
            return "let %s := VEnum %s in\n%s" % (var, members[i], self.seq(body, cont))
        return unroll(0)

    def enum_members(self):
        m = self.tr.module("mellon/util.py")
        c = m.classes["GaussianProcessType"]
        out = []
        for node in c.body:
            if isinstance(node, ast.Assign) and isinstance(node.targets[0], ast.Name):
                out.append(node.targets[0].id)
        if out != GPT:
            raise Unsupported("GaussianProcessType members changed: %r" % out)
        return out

    def exn_of(self, e):
        if isinstance(e, ast.Call):
            e = e.func
        if isinstance(e, ast.Name) and e.id in EXN:
            return e.id
        raise Unsupported("raise of %s" % ast.dump(e))

    # ----- conditions (res bool)
    def cond(self, e):
        if isinstance(e, ast.BoolOp):
            op = "and_then" if isinstance(e.op, ast.And) else "or_else"
            parts = [self.cond(v) for v in e.values]
            acc = parts[-1]
            for p in reversed(parts[:-1]):
                acc = "(%s %s %s)" % (op, p, acc)
            return acc
        if isinstance(e, ast.UnaryOp) and isinstance(e.op, ast.Not):
            return "(rmap negb %s)" % self.cond(e.operand)
        if isinstance(e, ast.Call) and isinstance(e.func, ast.Name) and e.func.id in ("all", "any") \
                and e.func.id not in self.mod.imports and len(e.args) == 1 \
                and isinstance(e.args[0], ast.GeneratorExp):
            g = e.args[0]
            if len(g.generators) != 1 or g.generators[0].ifs or not isinstance(g.generators[0].target, ast.Name):
                raise Unsupported("generator shape")
            v = g.generators[0].target.id
            saved = set(self.locals)
            self.locals.add(v)
            r = "(bind %s (py_%s_gen (fun %s => %s)))" % (self.expr(g.generators[0].iter), e.func.id, v, self.cond(g.elt))
            self.locals = saved
            return r
        return "(cond %s)" % self.expr(e)

    def boolish(self, e):
        if isinstance(e, ast.BoolOp):
            return all(self.boolish(v) for v in e.values)
        if isinstance(e, ast.UnaryOp) and isinstance(e.op, ast.Not):
            return True
        if isinstance(e, ast.Compare):
            return True
        if isinstance(e, ast.Call) and isinstance(e.func, ast.Name) and e.func.id in ("isinstance", "hasattr", "isscalar", "all"):
            return True
        return False

    # ----- expressions (res val)
    def expr(self, e):
        if isinstance(e, ast.Constant):
            return "(Ok %s)" % self.const(e.value)
        if isinstance(e, ast.JoinedStr):
            return '(Ok (VStr ""))'
        if isinstance(e, ast.Name):
            if e.id in self.locals:
                if e.id in self.drop:
                    return '(Ok (VStr ""))'
                return "(Ok %s)" % e.id
            q = self.tr.qualify(self.mod, e.id, self.locals)
            cv = self.tr.const_value(q) if q else None
            if cv is not None:
                m, node = cv
                if isinstance(node, ast.Constant):
                    return "(Ok %s)" % self.const(node.value)
                if isinstance(node, ast.UnaryOp) and isinstance(node.op, ast.USub) and isinstance(node.operand, ast.Constant):
                    return "(Ok %s)" % self.const(-node.operand.value)
            raise Unsupported("name %s (%s)" % (e.id, q))
        if isinstance(e, ast.Tuple):
            return "(py_tuple [%s])" % "; ".join(self.expr(x) for x in e.elts)
        if isinstance(e, ast.List):
            return "(py_list [%s])" % "; ".join(self.expr(x) for x in e.elts)
        if isinstance(e, ast.BoolOp) or (isinstance(e, ast.UnaryOp) and isinstance(e.op, ast.Not)):
            if not self.boolish(e):
                raise Unsupported("and/or used as a value (line %d)" % e.lineno)
            return "(of_bool %s)" % self.cond(e)
        if isinstance(e, ast.UnaryOp) and isinstance(e.op, ast.USub):
            if isinstance(e.operand, ast.Constant) and isinstance(e.operand.value, (int, float)) \
                    and not isinstance(e.operand.value, bool):
                return "(Ok %s)" % self.const(-e.operand.value)
            return "(bind %s py_neg)" % self.expr(e.operand)
        if isinstance(e, ast.UnaryOp) and isinstance(e.op, ast.Invert):
            return "(bind %s py_invert)" % self.expr(e.operand)
        if isinstance(e, ast.BinOp):
            if type(e.op) not in BINOPS:
                raise Unsupported("operator %s" % type(e.op).__name__)
            return "(bind2 %s %s %s)" % (BINOPS[type(e.op)], self.expr(e.left), self.expr(e.right))
        if isinstance(e, ast.Compare):
            return self.compare(e)
        if isinstance(e, ast.IfExp):
            return "(bind %s (fun c_ => if c_ then %s else %s))" % (self.cond(e.test), self.expr(e.body), self.expr(e.orelse))
        if isinstance(e, ast.Attribute):
            return self.attribute(e)
        if isinstance(e, ast.Subscript):
            return self.subscript(e)
        if isinstance(e, ast.Call):
            return self.call(e)
        if isinstance(e, ast.ListComp):
            return self.listcomp(e)
        raise Unsupported("expression %s at line %d" % (type(e).__name__, getattr(e, "lineno", 0)))

    def const(self, v):
        if v is None:
            return "VNone"
        if v is True:
            return "(VBool true)"
        if v is False:
            return "(VBool false)"
        if isinstance(v, int):
            return "(VInt %s)" % coq_Z(v)
        if isinstance(v, float):
            return "(VFloat %s)" % coq_float(v)
        if isinstance(v, str):
            return "(VStr %s)" % coq_string(v)
        raise Unsupported("constant %r" % (v,))

    def compare(self, e):
        # type(x) is T
        if len(e.ops) == 1 and isinstance(e.ops[0], (ast.Is, ast.IsNot)) and isinstance(e.left, ast.Call) \
                and isinstance(e.left.func, ast.Name) and e.left.func.id == "type" and "type" not in self.locals:
            t = self.typename(e.comparators[0])
            r = "(bind %s (fun x_ => py_type_is x_ %s))" % (self.expr(e.left.args[0]), t)
            if isinstance(e.ops[0], ast.IsNot):
                r = "(bind %s py_not)" % r
            return r
        if len(e.ops) == 1:
            return "(bind2 %s %s %s)" % (CMPOPS[type(e.ops[0])], self.expr(e.left), self.expr(e.comparators[0]))
        # chained comparison a < b < c : evaluate each operand once
        names = [self.fresh("c") for _ in range(len(e.comparators) + 1)]
        operands = [e.left] + list(e.comparators)
        parts = []
        for i, op in enumerate(e.ops):
            parts.append("(cond (%s %s %s))" % (CMPOPS[type(op)], names[i], names[i + 1]))
        acc = parts[-1]
        for p in reversed(parts[:-1]):
            acc = "(and_then %s %s)" % (p, acc)
        body = "(of_bool %s)" % acc
        for n, o in reversed(list(zip(names, operands))):
            body = "(bind %s (fun %s => %s))" % (self.expr(o), n, body)
        return body

    def typename(self, t):
        if isinstance(t, ast.Name):
            q = self.tr.qualify(self.mod, t.id, self.locals)
            if q in TYPE_NAMES:
                return TYPE_NAMES[q]
        raise Unsupported("type %s" % ast.dump(t))

    def attribute(self, e):
        if isinstance(e.value, ast.Name) and e.value.id == "self" and getattr(self, "is_method", False):
            nm = "self_" + e.attr
            if nm not in self.extra_params:
                self.extra_params.append(nm)
            return "(Ok %s)" % nm
        # Enum member
        if isinstance(e.value, ast.Name) and e.value.id not in self.locals:
            q = self.tr.qualify(self.mod, e.value.id, self.locals)
            if q == "mellon.util.GaussianProcessType":
                if e.attr not in self.enum_members():
                    raise Unsupported("enum member %s" % e.attr)
                return "(Ok (VEnum %s))" % e.attr
            raise Unsupported("attribute of %s" % q)
        if e.attr in ATTRS:
            return "(bind %s %s)" % (self.expr(e.value), ATTRS[e.attr])
        raise Unsupported("attribute .%s" % e.attr)

    def slice_part(self, x):
        return "(Ok VNone)" if x is None else self.expr(x)

    def subscript(self, e):
        s = e.slice
        if isinstance(s, ast.Slice):
            return "(bind (py_tuple [%s; %s; %s; %s]) np_slice1_t)" % (
                self.expr(e.value), self.slice_part(s.lower), self.slice_part(s.upper), self.slice_part(s.step))
        if isinstance(s, ast.Tuple) and len(s.elts) == 2 and isinstance(s.elts[0], ast.Slice) \
                and s.elts[0].lower is None and s.elts[0].upper is None and s.elts[0].step is None:
            c = s.elts[1]
            if isinstance(c, ast.Slice):
                return "(bind (py_tuple [%s; %s; %s; %s]) np_slice_cols_t)" % (
                    self.expr(e.value), self.slice_part(c.lower), self.slice_part(c.upper), self.slice_part(c.step))
            return "(bind2 np_col %s %s)" % (self.expr(e.value), self.expr(c))
        if isinstance(s, (ast.Tuple, ast.Slice)):
            raise Unsupported("subscript form at line %d" % e.lineno)
        if isinstance(s, ast.Constant) and s.value is None:
            return "(bind %s np_expand0)" % self.expr(e.value)
        if isinstance(s, ast.UnaryOp) and isinstance(s.op, ast.Invert):
            return "(bind2 py_getitem2 %s %s)" % (self.expr(e.value), self.expr(s))
        return "(bind2 py_getitem %s %s)" % (self.expr(e.value), self.expr(s))

    def listcomp(self, e):
        if len(e.generators) != 1 or not isinstance(e.generators[0].target, ast.Name):
            raise Unsupported("comprehension shape")
        g = e.generators[0]
        v = g.target.id
        saved = set(self.locals)
        self.locals.add(v)
        c = "(Ok true)"
        if g.ifs:
            c = self.cond(g.ifs[0] if len(g.ifs) == 1 else ast.BoolOp(op=ast.And(), values=g.ifs))
        r = "(bind %s (py_listcomp (fun %s => %s) (fun %s => %s)))" % (self.expr(g.iter), v, self.expr(e.elt), v, c)
        self.locals = saved
        return r

    def call(self, e):
        f = e.func
        if isinstance(f, ast.Name) and f.id not in self.locals:
            if f.id == "isinstance":
                t = e.args[1]
                ts = t.elts if isinstance(t, ast.Tuple) else [t]
                return "(bind %s (fun x_ => py_isinstance x_ [%s]))" % (
                    self.expr(e.args[0]), "; ".join(self.typename(x) for x in ts))
            if f.id == "hasattr":
                if not isinstance(e.args[1], ast.Constant):
                    raise Unsupported("hasattr name")
                return "(bind %s (fun x_ => py_hasattr x_ %s))" % (self.expr(e.args[0]), coq_string(e.args[1].value))
            if f.id in self.oracles:
                fresh = self.oracles[f.id]
                if len(fresh) != 1:
                    raise Unsupported("oracle %s used as a single value" % f.id)
                if fresh[0] not in self.extra_params:
                    self.extra_params.append(fresh[0])
                return "(Ok %s)" % fresh[0]
            q = self.tr.qualify(self.mod, f.id, self.locals)
            if f.id in self.tr.constructors:
                # a class instantiation: only which class is built matters to the logic model
                return "(Ok (VObj %s 0))" % coq_string(f.id)
            if f.id in self.tr.identity_calls:
                return self.expr(e.args[0])
            if q == "jax.numpy.asarray" and len(e.args) == 1 and len(e.keywords) == 1 and e.keywords[0].arg == "dtype" \
                    and isinstance(e.keywords[0].value, ast.Name) and e.keywords[0].value.id == "float":
                return self.apply("np_asarray_float", [self.expr(e.args[0])])
            if q == "jax.numpy.concatenate" and len(e.args) == 1 and len(e.keywords) == 1 and e.keywords[0].arg == "axis" \
                    and isinstance(e.keywords[0].value, ast.Constant) and e.keywords[0].value.value == 1:
                return self.apply("np_concat_cols", [self.expr(e.args[0])])
            if q == "builtins.min" and len(e.args) == 1 and not e.keywords:
                return self.apply("py_min1", [self.expr(e.args[0])])
            if q in CALLS:
                g, ar = CALLS[q]
                if e.keywords or len(e.args) != ar:
                    raise Unsupported("call %s arity/keywords (line %d)" % (q, e.lineno))
                return self.apply(g, [self.expr(a) for a in e.args])
            return self.user_call(q, e)
        if isinstance(f, ast.Attribute):
            # static method on the enum
            if isinstance(f.value, ast.Name) and f.value.id not in self.locals:
                q = self.tr.qualify(self.mod, f.value.id, self.locals)
                return self.user_call(q + "." + f.attr, e)
            if f.attr in METHODS:
                g, ar = METHODS[f.attr]
                if e.keywords or len(e.args) != ar:
                    raise Unsupported("method .%s arity" % f.attr)
                return self.apply(g, [self.expr(f.value)] + [self.expr(a) for a in e.args])
            if f.attr == "reshape" and len(e.args) == 2 and not e.keywords:
                return self.apply("np_reshape2", [self.expr(f.value)] + [self.expr(a) for a in e.args])
            if f.attr == "replace" and len(e.args) == 2 and not e.keywords:
                return self.apply("str_replace", [self.expr(f.value)] + [self.expr(a) for a in e.args])
            raise Unsupported("method .%s (line %d)" % (f.attr, e.lineno))
        raise Unsupported("call form at line %d" % e.lineno)

    def apply(self, g, args):
        n = len(args)
        if n == 1:
            return "(bind %s %s)" % (args[0], g)
        if n == 2:
            return "(bind2 %s %s %s)" % (g, args[0], args[1])
        if n == 3:
            return "(bind3 %s %s %s %s)" % (g, args[0], args[1], args[2])
        names = ["a%d_" % i for i in range(n)]
        body = "(%s %s)" % (g, " ".join(names))
        for nm, a in reversed(list(zip(names, args))):
            body = "(bind %s (fun %s => %s))" % (a, nm, body)
        return body

    def user_call(self, q, e):
        if not q.startswith("mellon."):
            raise Unsupported("call to %s (line %d)" % (q, e.lineno))
        # resolve through re-exports
        found = self.tr.find_function(q)
        if found is None:
            raise Unsupported("callee %s not found" % q)
        m, fn = found
        canon = m.modname + "." + fn.name if fn.name in m.funcs else q
        coq = self.tr.translate(canon if fn.name in m.funcs else q)
        sig = self.tr.sigs[m.modname + "." + fn.name]
        args = {}
        for (p, _), a in zip(sig, e.args):
            args[p] = self.expr(a)
        if len(e.args) > len(sig):
            raise Unsupported("too many arguments to %s" % q)
        for kw in e.keywords:
            if kw.arg is None or kw.arg not in [p for p, _ in sig]:
                raise Unsupported("keyword %s to %s" % (kw.arg, q))
            args[kw.arg] = self.expr(kw.value)
        ordered = []
        for p, d in sig:
            if p in args:
                ordered.append(args[p])
            elif d is not None:
                sub = FuncTranslator(self.tr, m, fn, {}, set())
                ordered.append(sub.expr(d))
            else:
                raise Unsupported("missing argument %s to %s" % (p, q))
        return self.apply(coq, ordered)
