"""C12 structural tables, generated from the AST of /repo (fail closed).

Three tables are extracted and emitted as Coq data (gen/C12Wiring.v):

  * class table (mellon/base_predictor.py): for Predictor / ExpPredictor / PredictorTime the base
    class, which `mean` function object `__call__` is bound to (`__call__ = mean` in the class body
    binds the function object of THAT class body; a class that overrides `mean` without re-binding
    `__call__` keeps calling the base's mean), how `mean` prepares its input (ensure_2d(validate_array)
    or the validate_time_x merge) and the tail of `mean` in each branch of its boolean flag
    (self._mean(x) | exp(self._mean(x)) | self._mean(x) - log(self.n_obs));
  * wiring table: for gradient / hessian / hessian_log_determinant / time_derivative, after method
    resolution along the MRO: the function of mellon/derivatives.py that is called, the callable
    that is differentiated (self.__call__ / self.mean / self._mean), the symbolic value of every
    positional argument (first = differentiated, rest = held fixed), the post-processing ([:, k]);
    `super().gradient(A)` is inlined with A substituted for the base method's input;
  * derivatives table (mellon/derivatives.py): for gradient / hessian / hessian_log_determinant the
    autodiff operator applied to `function` (nesting of jax.jacrev / jax.jacfwd, default argnums),
    the call pattern (x[None, :], *args), the vmap in_axes, the inner post-processing
    (reshape to (d, d) and jax.numpy.linalg.slogdet for the log-determinant), the reshape rule
    (threshold on the rank of the raw result, target below / above it), atleast_2d;
  * mean read-out table (mellon/conditional.py): `_mean` of the three conditional mix-ins is
    mu + dot(cov_func(Xnew, <centers>), weights), and the nine concrete classes are `pass` bodies over
    (mix-in, base) with no mix-in defining any of the wired methods.

Anything that does not match the recognised statement shapes raises Unsupported.
"""
import ast

from translate.pylogic import Module, Unsupported

CLASSES = ["Predictor", "ExpPredictor", "PredictorTime"]
COQ_CLS = {"Predictor": "CPredictor", "ExpPredictor": "CExpPredictor", "PredictorTime": "CPredictorTime"}
METHODS = ["gradient", "hessian", "hessian_log_determinant", "time_derivative"]
COQ_METH = {"gradient": "MGradient", "hessian": "MHessian", "hessian_log_determinant": "MHessLogDet",
            "time_derivative": "MTimeDerivative"}
COQ_DFUN = {"gradient": "DGradient", "hessian": "DHessian", "hessian_log_determinant": "DHessLogDet"}
MIXINS = ["_FullConditional", "_LandmarksConditional", "_LandmarksConditionalCholesky"]
CONCRETE = {
    "FullConditional": ("_FullConditional", "Predictor"),
    "ExpFullConditional": ("_FullConditional", "ExpPredictor"),
    "FullConditionalTime": ("_FullConditional", "PredictorTime"),
    "LandmarksConditional": ("_LandmarksConditional", "Predictor"),
    "ExpLandmarksConditional": ("_LandmarksConditional", "ExpPredictor"),
    "LandmarksConditionalTime": ("_LandmarksConditional", "PredictorTime"),
    "LandmarksConditionalCholesky": ("_LandmarksConditionalCholesky", "Predictor"),
    "ExpLandmarksConditionalCholesky": ("_LandmarksConditionalCholesky", "ExpPredictor"),
    "LandmarksConditionalCholeskyTime": ("_LandmarksConditionalCholesky", "PredictorTime"),
}


def U(node):
    return ast.unparse(node)


def strip_doc(body):
    return [s for s in body if not (isinstance(s, ast.Expr) and isinstance(s.value, ast.Constant)
                                    and isinstance(s.value.value, str))]


def is_logger(st):
    return isinstance(st, ast.Expr) and isinstance(st.value, ast.Call) and U(st.value.func).startswith("logger.")


class Sym:
    """symbolic value of a local name inside a predictor method"""

    def __init__(self, coq, text):
        self.coq, self.text = coq, text

    def __repr__(self):
        return self.text


def params_of(fn):
    args = [a.arg for a in fn.args.args]
    if fn.args.vararg or fn.args.kwarg or fn.args.kwonlyargs or fn.args.posonlyargs:
        raise Unsupported("%s: unexpected parameter kinds" % fn.name)
    defaults = dict(zip(args[len(args) - len(fn.args.defaults):], fn.args.defaults))
    return args, defaults


def decorators(fn):
    return [U(d) for d in fn.decorator_list]


def input_env(fn, mod):
    """initial environment: positional data parameters (after self) are ARaw i; `jit` and flags are not data"""
    args, defaults = params_of(fn)
    if args[0] != "self":
        raise Unsupported("%s: first parameter is not self" % fn.name)
    env = {}
    i = 0
    for a in args[1:]:
        if a in ("jit", "normalize", "logscale"):
            continue
        env[a] = Sym("(ARaw %d)" % i, "arg%d" % i)
        i += 1
    if "time" in env:
        d = defaults.get("time")
        if not (isinstance(d, ast.Constant) and d.value is None):
            raise Unsupported("%s: time has no None default" % fn.name)
    return env


def resolve(mod, name):
    q = mod.imports.get(name)
    if q is None:
        raise Unsupported("%s: name %s is not an import of the module" % (mod.relpath, name))
    return q


def step_prepare(st, env, mod, fname):
    """recognised input-preparation statements; returns True when consumed"""
    if not (isinstance(st, ast.Assign) and len(st.targets) == 1):
        return False
    tgt, val = st.targets[0], st.value
    if isinstance(tgt, ast.Name) and isinstance(val, ast.Call) and isinstance(val.func, ast.Name):
        q = resolve(mod, val.func.id)
        if q == "mellon.validation.validate_array":
            if len(val.args) == 2 and isinstance(val.args[0], ast.Name) and val.args[0].id == tgt.id \
                    and isinstance(val.args[1], ast.Constant) and not val.keywords and tgt.id in env:
                env[tgt.id] = Sym(env[tgt.id].coq, "validate_array(%s)" % env[tgt.id].text)
                env["__validated__" + tgt.id] = True
                return True
            raise Unsupported("%s: validate_array call shape: %s" % (fname, U(st)))
        if q == "mellon.util.ensure_2d":
            if len(val.args) == 1 and isinstance(val.args[0], ast.Name) and val.args[0].id == tgt.id \
                    and not val.keywords and env.get("__validated__" + tgt.id):
                env[tgt.id] = Sym("(A2d %s)" % env[tgt.id].coq, "ensure_2d(%s)" % env[tgt.id].text)
                return True
            raise Unsupported("%s: ensure_2d call shape (must follow validate_array): %s" % (fname, U(st)))
        if q == "mellon.validation.validate_bool":
            if len(val.args) == 2 and isinstance(val.args[0], ast.Name) and val.args[0].id == tgt.id:
                return True
            raise Unsupported("%s: validate_bool call shape: %s" % (fname, U(st)))
        if q == "mellon.validation.validate_time_x":
            kw = {k.arg: U(k.value) for k in val.keywords}
            a = [x.id if isinstance(x, ast.Name) else None for x in val.args]
            if len(a) == 2 and a[0] in env and a[1] == "time" and "time" in env \
                    and env[a[0]].coq == "(ARaw 0)" and env["time"].coq == "(ARaw 1)" \
                    and kw == {"n_features": "self.n_input_features", "cast_scalar": "True"}:
                env[tgt.id] = Sym("AMerged", "validate_time_x(arg0, arg1)")
                return True
            raise Unsupported("%s: validate_time_x call shape: %s" % (fname, U(st)))
        return False
    # X, time = Xnew[:, :-1], Xnew[:, -1]
    if isinstance(tgt, ast.Tuple) and isinstance(val, ast.Tuple) and len(tgt.elts) == len(val.elts):
        new = {}
        for t, v in zip(tgt.elts, val.elts):
            if not (isinstance(t, ast.Name) and isinstance(v, ast.Subscript) and isinstance(v.value, ast.Name)
                    and v.value.id in env):
                raise Unsupported("%s: tuple assignment shape: %s" % (fname, U(st)))
            base = env[v.value.id]
            s = U(v.slice)
            if s == "(:, :-1)":
                new[t.id] = Sym("(AStateCols %s)" % base.coq, "%s[:, :-1]" % base.text)
            elif s == "(:, -1)":
                new[t.id] = Sym("(ATimeCol %s)" % base.coq, "%s[:, -1]" % base.text)
            else:
                raise Unsupported("%s: unrecognised slice %s" % (fname, U(v)))
        env.update(new)
        return True
    return False


def tail_of(e, var):
    s = U(e)
    if s == "self._mean(%s)" % var:
        return "TId"
    if s == "exp(self._mean(%s))" % var:
        return "TExp"
    if s == "self._mean(%s) - log(self.n_obs)" % var:
        return "TSubLogN"
    raise Unsupported("mean tail not recognised: %s" % s)


def branch_return(stmts, var, fname):
    """a branch made of raise-guards, logger calls and one final return"""
    stmts = list(stmts)
    while stmts and (is_logger(stmts[0]) or isinstance(stmts[0], ast.If) or
                     (isinstance(stmts[0], ast.Assign) and isinstance(stmts[0].value, (ast.Constant, ast.JoinedStr, ast.Tuple)))):
        st = stmts.pop(0)
        if isinstance(st, ast.If):
            inner = [x for x in st.body if not is_logger(x) and not isinstance(x, ast.Assign)]
            if st.orelse or len(inner) != 1 or not isinstance(inner[0], ast.Raise):
                raise Unsupported("%s: guard inside a mean branch is not if-raise: %s" % (fname, U(st)[:80]))
    if len(stmts) != 1 or not isinstance(stmts[0], ast.Return):
        raise Unsupported("%s: mean branch does not end in a single return" % fname)
    return tail_of(stmts[0].value, var)


def mean_info(cls_node, mod):
    fn = next((n for n in cls_node.body if isinstance(n, ast.FunctionDef) and n.name == "mean"), None)
    if fn is None:
        return None
    fname = "%s.mean" % cls_node.name
    args, defaults = params_of(fn)
    flags = [a for a in args if a in ("normalize", "logscale")]
    if len(flags) != 1 or not (isinstance(defaults.get(flags[0]), ast.Constant) and defaults[flags[0]].value is False):
        raise Unsupported("%s: expected exactly one boolean flag defaulting to False" % fname)
    flag = flags[0]
    env = input_env(fn, mod)
    body = strip_doc(fn.body)
    var = None
    i = 0
    while i < len(body):
        st = body[i]
        if step_prepare(st, env, mod, fname):
            i += 1
            continue
        if isinstance(st, ast.If) and isinstance(st.test, ast.Compare) and "n_input_features" in U(st.test):
            if U(st.test) not in ("x.shape[1] != self.n_input_features",) or st.orelse \
                    or len(st.body) != 1 or not isinstance(st.body[0], ast.Raise) \
                    or not U(st.body[0].exc).startswith("ValueError("):
                raise Unsupported("%s: feature-count guard: %s" % (fname, U(st.test)))
            i += 1
            continue
        break
    rest = body[i:]
    data = [k for k, v in env.items() if not k.startswith("__") and k != "time"]
    if len(data) != 1:
        raise Unsupported("%s: cannot identify the data variable" % fname)
    var = data[0]
    if not rest or not isinstance(rest[0], ast.If) or U(rest[0].test) != flag:
        raise Unsupported("%s: expected `if %s:` after input preparation, found %s" % (fname, flag, U(rest[0])[:60] if rest else "nothing"))
    t_true = branch_return(rest[0].body, var, fname)
    if rest[0].orelse:
        if len(rest) != 1:
            raise Unsupported("%s: statements after if/else" % fname)
        t_false = branch_return(rest[0].orelse, var, fname)
    else:
        t_false = branch_return(rest[1:], var, fname)
    decos = decorators(fn)
    if decos not in ([], ["make_multi_time_argument"]):
        raise Unsupported("%s: decorators %s" % (fname, decos))
    return dict(flag=flag, input=env[var], tail_true=t_true, tail_false=t_false, decorated=bool(decos))


def call_binding(cls_node):
    """the class body assigns __call__ = mean after defining mean"""
    seen_mean = False
    bound = None
    for n in cls_node.body:
        if isinstance(n, ast.FunctionDef) and n.name == "mean":
            seen_mean = True
        if isinstance(n, ast.FunctionDef) and n.name == "__call__":
            raise Unsupported("%s defines __call__ as a method" % cls_node.name)
        if isinstance(n, ast.Assign) and any(isinstance(t, ast.Name) and t.id == "__call__" for t in n.targets):
            if not (isinstance(n.value, ast.Name) and n.value.id == "mean" and seen_mean and len(n.targets) == 1):
                raise Unsupported("%s: __call__ bound to %s" % (cls_node.name, U(n.value)))
            bound = "own"
        elif isinstance(n, ast.Assign) and any(isinstance(t, ast.Name) and t.id in ("mean", "_mean") for t in n.targets):
            raise Unsupported("%s re-binds %s" % (cls_node.name, U(n)))
    if seen_mean and bound is None:
        return "stale"        # overrides mean but __call__ still is the base's function object
    return bound


CALLABLES = {"self.__call__": "CCall", "self.mean": "CMean", "self._mean": "CUMean"}


def wiring_of_method(cls_node, fn, mod, base_rows):
    fname = "%s.%s" % (cls_node.name, fn.name)
    env = input_env(fn, mod)
    body = strip_doc(fn.body)
    for st in body[:-1]:
        if not step_prepare(st, env, mod, fname):
            raise Unsupported("%s: statement not recognised: %s" % (fname, U(st)[:100]))
    last = body[-1]
    if not isinstance(last, ast.Return):
        raise Unsupported("%s: does not end in return" % fname)
    e = last.value
    post = "PNone"
    if isinstance(e, ast.Subscript):
        s = e.slice
        if isinstance(s, ast.Tuple) and len(s.elts) == 2 and U(s.elts[0]) == ":":
            k = s.elts[1]
            if isinstance(k, ast.UnaryOp) and isinstance(k.op, ast.USub) and isinstance(k.operand, ast.Constant):
                kv = -k.operand.value
            elif isinstance(k, ast.Constant) and isinstance(k.value, int):
                kv = k.value
            else:
                raise Unsupported("%s: column selector %s" % (fname, U(k)))
            post = "(PColumn (%d))" % kv
            e = e.value
        else:
            raise Unsupported("%s: post-processing subscript %s" % (fname, U(e.slice)))
    if not isinstance(e, ast.Call):
        raise Unsupported("%s: returns %s" % (fname, U(e)[:80]))
    kw = {k.arg: U(k.value) for k in e.keywords}
    if kw != {"jit": "jit"}:
        raise Unsupported("%s: keywords of the derivative call are %s" % (fname, kw))

    def sym(a):
        if isinstance(a, ast.Name) and a.id in env and not a.id.startswith("__"):
            return env[a.id]
        raise Unsupported("%s: argument %s is not a prepared local" % (fname, U(a)))
    if isinstance(e.func, ast.Name):
        q = resolve(mod, e.func.id)
        if not q.startswith("mellon.derivatives.") or q.split(".")[-1] not in COQ_DFUN:
            raise Unsupported("%s: calls %s" % (fname, q))
        dfun = q.split(".")[-1]
        if not e.args or U(e.args[0]) not in CALLABLES:
            raise Unsupported("%s: differentiated callable %s" % (fname, U(e.args[0]) if e.args else None))
        return dict(dfun=dfun, callable=CALLABLES[U(e.args[0])], callable_text=U(e.args[0]),
                    args=[sym(a) for a in e.args[1:]], post=post, via=None)
    if U(e.func).startswith("super()."):
        m = e.func.attr
        if m not in base_rows:
            raise Unsupported("%s: super().%s has no wired row in the base class" % (fname, m))
        b = base_rows[m]
        if len(e.args) != 1 or len(b["args"]) != 1 or b["post"] != "PNone":
            raise Unsupported("%s: super().%s call shape" % (fname, m))
        inner = sym(e.args[0])
        a0 = b["args"][0]
        return dict(dfun=b["dfun"], callable=b["callable"], callable_text=b["callable_text"],
                    args=[Sym(a0.coq.replace("(ARaw 0)", inner.coq), a0.text.replace("arg0", inner.text))],
                    post=post, via="super().%s" % m)
    raise Unsupported("%s: call target %s" % (fname, U(e.func)))


def predictor_tables(repo):
    mod = Module(repo, "mellon/base_predictor.py")
    info = {}
    for c in CLASSES:
        node = mod.classes.get(c)
        if node is None:
            raise Unsupported("class %s not found" % c)
        bases = [U(b) for b in node.bases]
        if c == "Predictor":
            if bases != ["ABC"]:
                raise Unsupported("Predictor bases %s" % bases)
            base = None
        else:
            if bases != ["Predictor"]:
                raise Unsupported("%s bases %s" % (c, bases))
            base = "Predictor"
        info[c] = dict(node=node, base=base, mean=mean_info(node, mod), call=call_binding(node), rows={})
    # __call__ resolution: which class's mean function object is called
    for c in CLASSES:
        i = info[c]
        if i["call"] == "own":
            i["call_target"] = c
        elif i["call"] == "stale" or i["call"] is None:
            i["call_target"] = info[i["base"]]["call_target"] if i["base"] else None
        if i["mean"] is None:
            i["mean_target"] = i["base"]
        else:
            i["mean_target"] = c
    # wiring rows, bases first
    for c in CLASSES:
        i = info[c]
        base_rows = info[i["base"]]["resolved"] if i["base"] else {}
        own = {}
        for n in i["node"].body:
            if isinstance(n, ast.FunctionDef) and n.name in METHODS:
                decos = decorators(n)
                want = ["make_multi_time_argument"] if c == "PredictorTime" else []
                if decos != want:
                    raise Unsupported("%s.%s: decorators %s" % (c, n.name, decos))
                own[n.name] = wiring_of_method(i["node"], n, mod, base_rows)
                own[n.name]["defined_in"] = c
        res = dict(base_rows)
        res.update(own)
        i["resolved"] = res
    return mod, info


# ----------------------------------------------------------------------------- derivatives.py
def adop_of(e, fname):
    """nesting of jax.jacrev / jax.jacfwd applied to `function`"""
    if isinstance(e, ast.Name) and e.id == "function":
        return "AFun"
    if isinstance(e, ast.Call) and U(e.func) in ("jax.jacrev", "jax.jacfwd") and len(e.args) == 1 and not e.keywords:
        return "(%s %s)" % ("AJacrev" if U(e.func) == "jax.jacrev" else "AJacfwd", adop_of(e.args[0], fname))
    raise Unsupported("%s: autodiff operator %s" % (fname, U(e)[:80]))


def derivative_row(mod, name):
    fn = mod.funcs.get(name)
    if fn is None:
        raise Unsupported("derivatives.%s not found" % name)
    fname = "derivatives." + name
    a = fn.args
    if [x.arg for x in a.args] != ["function", "x"] or a.vararg is None or a.vararg.arg != "args" \
            or [x.arg for x in a.kwonlyargs] != ["jit"] or U(a.kw_defaults[0]) != "True":
        raise Unsupported("%s: signature" % fname)
    body = strip_doc(fn.body)
    row = dict(atleast2d=False, inner="INone", thr=None, small=None, large=None)
    names = {}
    inner_def = None
    i = 0
    while i < len(body):
        st = body[i]
        s = U(st)
        if s == "x = atleast_2d(x)" and inner_def is None:
            if mod.imports.get("atleast_2d") != "jax.numpy.atleast_2d":
                raise Unsupported("%s: atleast_2d import" % fname)
            row["atleast2d"] = True
        elif isinstance(st, ast.Assign) and len(st.targets) == 1 and isinstance(st.targets[0], ast.Name) \
                and s in ("d = x.shape[1]", "hess_shape = (d, d)", "out_shape = x.shape + x.shape[1:]",
                          "in_axes = (0,) * (len(args) + 1)"):
            names[st.targets[0].id] = U(st.value)
        elif isinstance(st, ast.FunctionDef) and inner_def is None:
            inner_def = st
        elif isinstance(st, ast.If) and inner_def is not None and s == "if jit:\n    %s = jax.jit(%s)" % (inner_def.name, inner_def.name):
            row["jit_guarded"] = True
        else:
            break
        i += 1
    rest = body[i:]
    if inner_def is None:
        raise Unsupported("%s: no inner per-row function" % fname)
    ia = inner_def.args
    if [x.arg for x in ia.args] != ["x"] or ia.vararg is None or ia.vararg.arg != "args" or ia.kwonlyargs or inner_def.decorator_list:
        raise Unsupported("%s: inner function signature" % fname)
    ib = strip_doc(inner_def.body)
    # per-row body
    if len(ib) == 1 and isinstance(ib[0], ast.Return):
        call = ib[0].value
    elif len(ib) == 3 and isinstance(ib[0], ast.Assign) and U(ib[0].targets[0]) == "hess" \
            and U(ib[1]) == "sign, log_det = jax.numpy.linalg.slogdet(hess)" and U(ib[2]) == "return (sign, log_det)":
        v = ib[0].value
        if not (isinstance(v, ast.Call) and isinstance(v.func, ast.Attribute) and v.func.attr == "reshape"
                and len(v.args) == 1 and U(v.args[0]) == "hess_shape" and names.get("hess_shape") == "(d, d)"
                and names.get("d") == "x.shape[1]"):
            raise Unsupported("%s: Hessian is not reshaped to (d, d) with d = x.shape[1]: %s" % (fname, U(v)[:100]))
        call = v.func.value
        row["inner"] = "ISlogdetSquare"
    elif len(ib) == 4 and isinstance(ib[0], ast.Assign) and U(ib[0].targets[0]) == "hess" \
            and U(ib[1]) == ("if hess.size == d * d:\n    hess = hess.reshape(hess_shape)\nelse:\n    hess = hess.reshape((-1,) + hess_shape)") \
            and U(ib[2]) == "sign, log_det = jax.numpy.linalg.slogdet(hess)" and U(ib[3]) == "return (sign, log_det)" \
            and names.get("hess_shape") == "(d, d)" and names.get("d") == "x.shape[1]":
        # scalar-valued function: one (d, d) Hessian; vector-valued: one (d, d) block per output
        call = ib[0].value
        row["inner"] = "ISlogdetPerOutput"
    else:
        raise Unsupported("%s: inner function body: %s" % (fname, U(inner_def)[:200]))
    if not (isinstance(call, ast.Call) and len(call.args) == 2 and U(call.args[0]) == "x[None, :]"
            and U(call.args[1]) == "*args" and not call.keywords):
        raise Unsupported("%s: per-row call pattern %s" % (fname, U(call)[:100]))
    row["op"] = adop_of(call.func, fname)
    if names.get("in_axes") != "(0,) * (len(args) + 1)":
        raise Unsupported("%s: in_axes" % fname)
    vm = "jax.vmap(%s, in_axes=in_axes)(x, *args)" % inner_def.name
    if row["inner"] in ("ISlogdetSquare", "ISlogdetPerOutput"):
        if len(rest) != 1 or U(rest[0]) != "return " + vm:
            raise Unsupported("%s: tail %s" % (fname, [U(r) for r in rest]))
        tgt = "SRows" if row["inner"] == "ISlogdetSquare" else "SRowsOut"
        row["thr"], row["small"], row["large"] = None, tgt, tgt
        return row
    if len(rest) != 3 or not isinstance(rest[0], ast.Assign) or U(rest[0].value) != vm:
        raise Unsupported("%s: vmap statement" % fname)
    res = U(rest[0].targets[0])
    iff = rest[1]
    if not (isinstance(iff, ast.If) and not iff.orelse and len(iff.body) == 1 and isinstance(iff.test, ast.Compare)
            and U(iff.test.left) == "len(%s.shape)" % res and isinstance(iff.test.ops[0], ast.LtE)
            and isinstance(iff.test.comparators[0], ast.Constant)):
        raise Unsupported("%s: reshape rule test %s" % (fname, U(iff)[:100]))
    row["thr"] = int(iff.test.comparators[0].value)

    def target(st):
        s = U(st)
        if s == "return %s.reshape(x.shape)" % res:
            return "SX"
        if s == "return %s.reshape(out_shape)" % res and names.get("out_shape") == "x.shape + x.shape[1:]":
            return "SXX"
        if s == "return %s.reshape(%s.shape[::2])" % (res, res):
            return "SEveryOther"
        raise Unsupported("%s: reshape target %s" % (fname, s))
    row["small"] = target(iff.body[0])
    row["large"] = target(rest[2])
    return row


def derivative_tables(repo):
    mod = Module(repo, "mellon/derivatives.py")
    if mod.imports.get("jax") != "jax":
        raise Unsupported("derivatives.py: jax import")
    return {n: derivative_row(mod, n) for n in COQ_DFUN}


# ----------------------------------------------------------------------------- conditional.py
def conditional_tables(repo):
    mod = Module(repo, "mellon/conditional.py")
    wired = set(METHODS) | {"mean", "__call__"}
    centers = {}
    for m in MIXINS:
        node = mod.classes.get(m)
        if node is None or node.bases:
            raise Unsupported("mix-in %s missing or has bases" % m)
        meths = {n.name: n for n in node.body if isinstance(n, ast.FunctionDef)}
        bad = wired & set(meths)
        for n in node.body:
            if isinstance(n, ast.Assign) and any(isinstance(t, ast.Name) and t.id in wired for t in n.targets):
                bad.add(U(n))
        if bad:
            raise Unsupported("mix-in %s defines %s" % (m, sorted(bad)))
        fn = meths.get("_mean")
        if fn is None or [a.arg for a in fn.args.args] != ["self", "Xnew"]:
            raise Unsupported("%s._mean signature" % m)
        env = {}
        body = strip_doc(fn.body)
        for st in body[:-1]:
            if isinstance(st, ast.Assign) and len(st.targets) == 1 and isinstance(st.targets[0], ast.Name):
                v = st.value
                if isinstance(v, ast.Attribute) and U(v.value) == "self":
                    env[st.targets[0].id] = "self." + v.attr
                    continue
                if isinstance(v, ast.Call) and isinstance(v.func, ast.Name) and env.get(v.func.id) == "self.cov_func" \
                        and len(v.args) == 2 and U(v.args[0]) == "Xnew" and isinstance(v.args[1], ast.Name) and not v.keywords:
                    env[st.targets[0].id] = ("K", env.get(v.args[1].id))
                    continue
            raise Unsupported("%s._mean statement %s" % (m, U(st)))
        r = body[-1]
        ok = isinstance(r, ast.Return) and isinstance(r.value, ast.BinOp) and isinstance(r.value.op, ast.Add) \
            and isinstance(r.value.left, ast.Name) and env.get(r.value.left.id) == "self.mu" \
            and isinstance(r.value.right, ast.Call) and U(r.value.right.func) == "dot" \
            and mod.imports.get("dot") == "jax.numpy.dot" and len(r.value.right.args) == 2 \
            and isinstance(r.value.right.args[0], ast.Name) and isinstance(env.get(r.value.right.args[0].id), tuple) \
            and isinstance(r.value.right.args[1], ast.Name) and env.get(r.value.right.args[1].id) == "self.weights"
        if not ok:
            raise Unsupported("%s._mean is not mu + dot(cov_func(Xnew, centers), weights): %s" % (m, U(r)))
        c = env[r.value.right.args[0].id][1]
        if c not in ("self.x", "self.landmarks"):
            raise Unsupported("%s._mean centers %s" % (m, c))
        centers[m] = c
    for c, (mix, base) in CONCRETE.items():
        node = mod.classes.get(c)
        if node is None or [U(b) for b in node.bases] != [mix, base]:
            raise Unsupported("concrete class %s bases" % c)
        if not (len(node.body) == 1 and isinstance(node.body[0], ast.Pass)):
            raise Unsupported("concrete class %s body is not pass" % c)
        if mod.imports.get(base) != "mellon.base_predictor." + base:
            raise Unsupported("concrete class %s base import" % c)
    return centers


# ----------------------------------------------------------------------------- emission
def coq_list(xs):
    return "[" + "; ".join(xs) + "]"


def emit(repo):
    mod, info = predictor_tables(repo)
    drows = derivative_tables(repo)
    centers = conditional_tables(repo)
    L = ["(* GENERATED by translate/c12_wiring.py from mellon/base_predictor.py, derivatives.py, conditional.py *)",
         "From Coq Require Import ZArith List String.", "From MellonV Require Import DerivSem.",
         "Import ListNotations.", "Open Scope Z_scope.", ""]

    def by_cls(name, typ, f):
        L.append("Definition %s (c : pcls) : %s :=\n  match c with\n%s\n  end." % (
            name, typ, "\n".join("  | %s => %s" % (COQ_CLS[c], f(c)) for c in CLASSES)))

    def opt_cls(x):
        return "Some %s" % COQ_CLS[x] if x else "None"
    by_cls("base_of", "option pcls", lambda c: opt_cls(info[c]["base"]))
    by_cls("call_target", "option pcls", lambda c: opt_cls(info[c]["call_target"]))
    by_cls("mean_target", "option pcls", lambda c: opt_cls(info[c]["mean_target"]))

    def own_mean(c, key, default):
        m = info[c]["mean"]
        return m[key] if m else default
    by_cls("mean_input", "argexpr", lambda c: own_mean(c, "input", Sym("(ARaw 0)", "")).coq if info[c]["mean"] else "(ARaw 0)")
    L.append("Definition mean_tail (c : pcls) (flag : bool) : tail :=\n  match c, flag with\n%s\n  end." % "\n".join(
        "  | %s, true => %s\n  | %s, false => %s" % (COQ_CLS[c], own_mean(c, "tail_true", "TId"), COQ_CLS[c], own_mean(c, "tail_false", "TId"))
        for c in CLASSES))
    by_cls("mean_multi_time_wrapped", "bool", lambda c: "true" if own_mean(c, "decorated", False) else "false")
    rows = []
    for c in CLASSES:
        for m in METHODS:
            r = info[c]["resolved"].get(m)
            if r is None:
                rows.append("  | %s, %s => None" % (COQ_CLS[c], COQ_METH[m]))
            else:
                rows.append("  | %s, %s => Some (mkW %s %s %s %s)" % (
                    COQ_CLS[c], COQ_METH[m], COQ_DFUN[r["dfun"]], r["callable"], coq_list([a.coq for a in r["args"]]), r["post"]))
    L.append("Definition wiring_of (c : pcls) (m : meth) : option wiring :=\n  match c, m with\n%s\n  end." % "\n".join(rows))
    L.append("Definition defined_in (c : pcls) (m : meth) : option pcls :=\n  match c, m with\n%s\n  end." % "\n".join(
        "  | %s, %s => %s" % (COQ_CLS[c], COQ_METH[m], opt_cls((info[c]["resolved"].get(m) or {}).get("defined_in")))
        for c in CLASSES for m in METHODS))

    def drow(n):
        r = drows[n]
        thr = "None" if r["thr"] is None else "(Some %d%%nat)" % r["thr"]
        return "mkD %s %s %s %s %s %s" % (r["op"], r["inner"], thr, r["small"], r["large"], "true" if r["atleast2d"] else "false")
    L.append("Definition deriv_table (f : dfun) : drow :=\n  match f with\n%s\n  end." % "\n".join(
        "  | %s => %s" % (COQ_DFUN[n], drow(n)) for n in COQ_DFUN))
    cen = {"self.x": "CenX", "self.landmarks": "CenLandmarks"}
    L.append("Definition mean_centers : list (string * center) := %s." % coq_list(
        '("%s"%%string, %s)' % (m, cen[centers[m]]) for m in MIXINS))
    L.append("Definition concrete_classes : list (string * (string * pcls)) := %s." % coq_list(
        '("%s"%%string, ("%s"%%string, %s))' % (c, mix, COQ_CLS[b]) for c, (mix, b) in CONCRETE.items()))
    L.append("")
    human = []
    for c in CLASSES:
        for m in METHODS:
            r = info[c]["resolved"].get(m)
            if r:
                human.append(dict(cls=c, method=m, defined_in=r["defined_in"], derivatives_function=r["dfun"],
                                  differentiates=r["callable_text"], wrt=r["args"][0].text if r["args"] else None,
                                  held_fixed=[a.text for a in r["args"][1:]], post=r["post"], via=r["via"],
                                  operator=drows[r["dfun"]]["op"], vmap_in_axes="(0,) * (len(args) + 1)",
                                  reshape=dict(threshold=drows[r["dfun"]]["thr"], below=drows[r["dfun"]]["small"],
                                               above=drows[r["dfun"]]["large"])))
    meta = dict(call_target={c: info[c]["call_target"] for c in CLASSES},
                mean={c: (dict(flag=info[c]["mean"]["flag"], input=info[c]["mean"]["input"].text,
                               tail_true=info[c]["mean"]["tail_true"], tail_false=info[c]["mean"]["tail_false"])
                          if info[c]["mean"] else None) for c in CLASSES},
                mean_centers=centers)
    return "\n".join(L), human, meta
