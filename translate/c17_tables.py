"""C17 structural tables, generated from the AST of /repo (fail closed).

  * `_run_inference` (mellon/base_model.py): the if/elif chain on `optimizer == <string>`, per branch the routine
    of mellon/inference.py that is called with which arguments and where every field of its result goes
    (self.<attr> = results.<field> | None | [results.<field>]); the final else raises ValueError;
  * `minimize_lbfgsb`: ScipyMinimize(fun=loss_func, method="L-BFGS-B", jit=jit).run(initial_value) and the
    expression behind each field of the returned tuple;
  * loop skeletons of `minimize_adam` and `run_advi`: range of the loop, the index handed to the step, what is
    appended to the trace per iteration, where the returned parameters are read, post-processing of the trace;
    for ADVI additionally the data flow of the PRNG key (PRNGKey(<loop index>)) and std = exp(log_std);
  * randomness sites: every use of jax.random / numpy.random / random / sklearn k_means in mellon/*.py with the
    origin of its seed, and the `_prepare_attribute` guard that keeps k_means off the path when landmarks are given.

Anything not matching the recognised shapes raises Unsupported.
"""
import ast
import glob
import os

from translate.pylogic import Module, Unsupported, coq_string

U = ast.unparse

OPT_COQ = {"adam": "OAdam", "advi": "OAdvi", "L-BFGS-B": "OLbfgsb"}
ROUTINE_COQ = {"minimize_adam": "RAdam", "run_advi": "RAdvi", "minimize_lbfgsb": "RLbfgsb"}
ATTR_COQ = {"pre_transformation": "APre", "pre_transformation_std": "APreStd", "opt_state": "AOptState", "losses": "ALosses"}
FIELD_COQ = {"pre_transformation": "FPre", "pre_transformation_std": "FPreStd", "opt_state": "FOptState",
             "losses": "FLosses", "loss": "FLoss"}


def strip_doc(body):
    return [s for s in body if not (isinstance(s, ast.Expr) and isinstance(s.value, ast.Constant)
                                    and isinstance(s.value.value, str))]


def is_logger(st):
    return isinstance(st, ast.Expr) and isinstance(st.value, ast.Call) and U(st.value.func).startswith("logger.")


# ----------------------------------------------------------------------------- _run_inference
def run_inference_table(repo):
    mod = Module(repo, "mellon/base_model.py")
    cls = mod.classes.get("BaseEstimator")
    if cls is None:
        raise Unsupported("BaseEstimator not found")
    fn = next((n for n in cls.body if isinstance(n, ast.FunctionDef) and n.name == "_run_inference"), None)
    if fn is None or [a.arg for a in fn.args.args] != ["self"]:
        raise Unsupported("_run_inference signature")
    body = [s for s in strip_doc(fn.body) if not is_logger(s)]
    env = {}
    while body and isinstance(body[0], ast.Assign):
        st = body.pop(0)
        if not (len(st.targets) == 1 and isinstance(st.targets[0], ast.Name) and isinstance(st.value, ast.Attribute)
                and U(st.value.value) == "self"):
            raise Unsupported("_run_inference: local binding %s" % U(st))
        env[st.targets[0].id] = "self." + st.value.attr
    if len(body) != 1 or not isinstance(body[0], ast.If):
        raise Unsupported("_run_inference: expected one if/elif chain")
    branches = []
    node = body[0]
    else_exn = None
    while True:
        t = node.test
        if not (isinstance(t, ast.Compare) and len(t.ops) == 1 and isinstance(t.ops[0], ast.Eq) and isinstance(t.left, ast.Name)
                and env.get(t.left.id) == "self.optimizer" and isinstance(t.comparators[0], ast.Constant)
                and isinstance(t.comparators[0].value, str)):
            raise Unsupported("_run_inference: branch test %s" % U(t))
        branches.append((t.comparators[0].value, node.body))
        if len(node.orelse) == 1 and isinstance(node.orelse[0], ast.If):
            node = node.orelse[0]
            continue
        # final else: error = ValueError(...); logger.error(error); raise error
        rest = [s for s in node.orelse if not is_logger(s)]
        names = {}
        for s in rest:
            if isinstance(s, ast.Assign) and isinstance(s.value, ast.Call) and isinstance(s.value.func, ast.Name):
                names[U(s.targets[0])] = s.value.func.id
            elif isinstance(s, ast.Raise):
                e = s.exc
                else_exn = e.func.id if isinstance(e, ast.Call) and isinstance(e.func, ast.Name) else names.get(U(e))
            else:
                raise Unsupported("_run_inference: else branch statement %s" % U(s)[:80])
        break
    if else_exn is None:
        raise Unsupported("_run_inference: the final else does not raise")
    out = {}
    for name, stmts in branches:
        if name not in OPT_COQ or name in out:
            raise Unsupported("_run_inference: optimizer string %r" % name)
        stmts = [s for s in stmts if not is_logger(s)]
        first = stmts[0]
        if not (isinstance(first, ast.Assign) and U(first.targets[0]) == "results" and isinstance(first.value, ast.Call)
                and isinstance(first.value.func, ast.Name)):
            raise Unsupported("_run_inference[%s]: first statement %s" % (name, U(first)[:80]))
        routine = first.value.func.id
        if mod.imports.get(routine) != "mellon.inference." + routine or routine not in ROUTINE_COQ:
            raise Unsupported("_run_inference[%s]: routine %s" % (name, routine))

        def src(e):
            if isinstance(e, ast.Name) and e.id in env:
                return env[e.id]
            if isinstance(e, ast.Attribute) and U(e.value) == "self":
                return "self." + e.attr
            raise Unsupported("_run_inference[%s]: argument %s" % (name, U(e)))
        pos = [src(a) for a in first.value.args]
        kws = {k.arg: src(k.value) for k in first.value.keywords}
        if pos != ["self.loss_func", "self.initial_value"]:
            raise Unsupported("_run_inference[%s]: positional arguments %s" % (name, pos))
        want_kw = {"jit": "self.jit"} if routine == "minimize_lbfgsb" else \
            {"n_iter": "self.n_iter", "init_learn_rate": "self.init_learn_rate", "jit": "self.jit"}
        if kws != want_kw:
            raise Unsupported("_run_inference[%s]: keywords %s" % (name, kws))
        wiring = []
        for s in stmts[1:]:
            if not (isinstance(s, ast.Assign) and len(s.targets) == 1 and isinstance(s.targets[0], ast.Attribute)
                    and U(s.targets[0].value) == "self" and s.targets[0].attr in ATTR_COQ):
                raise Unsupported("_run_inference[%s]: statement %s" % (name, U(s)[:80]))
            a, v = s.targets[0].attr, s.value
            if isinstance(v, ast.Constant) and v.value is None:
                w = ("SNone", None)
            elif isinstance(v, ast.Attribute) and U(v.value) == "results" and v.attr in FIELD_COQ:
                w = ("SField", v.attr)
            elif isinstance(v, ast.List) and len(v.elts) == 1 and isinstance(v.elts[0], ast.Attribute) \
                    and U(v.elts[0].value) == "results" and v.elts[0].attr in FIELD_COQ:
                w = ("SSingleton", v.elts[0].attr)
            else:
                raise Unsupported("_run_inference[%s]: value %s" % (name, U(v)))
            if a in [x[0] for x in wiring]:
                raise Unsupported("_run_inference[%s]: %s assigned twice" % (name, a))
            wiring.append((a, w))
        out[name] = dict(routine=routine, wiring=wiring)
    if set(out) != set(OPT_COQ):
        raise Unsupported("_run_inference: optimizers %s" % sorted(out))
    return out, else_exn


# ----------------------------------------------------------------------------- inference.py
def results_fields(stmts, fname):
    """Results = namedtuple("Results", "<fields>") ... Results(<exprs>) -> [(field, expr ast)]"""
    fields = None
    for s in stmts:
        if isinstance(s, ast.Assign) and U(s.targets[0]) == "Results" and isinstance(s.value, ast.Call) \
                and U(s.value.func) == "namedtuple" and len(s.value.args) == 2 and isinstance(s.value.args[1], ast.Constant):
            fields = s.value.args[1].value.split()
    if fields is None:
        raise Unsupported("%s: Results namedtuple" % fname)
    call = None
    for s in stmts:
        v = s.value if isinstance(s, (ast.Assign, ast.Return)) else None
        if isinstance(v, ast.Call) and U(v.func) == "Results":
            call = v
    if call is None or call.keywords or len(call.args) != len(fields):
        raise Unsupported("%s: Results(...) call" % fname)
    last = stmts[-1]
    if not isinstance(last, ast.Return) or not (U(last.value) == "results" or last.value is call):
        raise Unsupported("%s: does not return the Results tuple" % fname)
    return list(zip(fields, call.args))


def lbfgsb_table(mod):
    fn = mod.funcs.get("minimize_lbfgsb")
    if fn is None or [a.arg for a in fn.args.args] != ["loss_func", "initial_value", "jit"]:
        raise Unsupported("minimize_lbfgsb signature")
    body = strip_doc(fn.body)
    if U(body[0]) != "opt = ScipyMinimize(fun=loss_func, method='L-BFGS-B', jit=jit).run(initial_value)":
        raise Unsupported("minimize_lbfgsb: optimiser call %s" % U(body[0]))
    if mod.imports.get("ScipyMinimize") != "jaxopt.ScipyMinimize":
        raise Unsupported("minimize_lbfgsb: ScipyMinimize import")
    exprs = {"opt.params": "EOptParams", "opt.state": "EOptState", "opt.state.fun_val.item()": "EOptFunVal",
             "loss_func(initial_value).item()": "ELossAtInitial", "loss_func(initial_value)": "ELossAtInitial",
             "initial_value": "EInitialValue"}
    out = []
    for f, e in results_fields(body, "minimize_lbfgsb"):
        if U(e) not in exprs or f not in FIELD_COQ:
            raise Unsupported("minimize_lbfgsb: field %s = %s" % (f, U(e)))
        out.append((f, exprs[U(e)]))
    return out


def range_offset(e, fname):
    """range(n_iter) / range(n_iter - k) / range(n_iter + k) -> offset"""
    if not (isinstance(e, ast.Call) and U(e.func) == "range" and len(e.args) == 1):
        raise Unsupported("%s: loop iterable %s" % (fname, U(e)))
    a = e.args[0]
    if isinstance(a, ast.Name) and a.id == "n_iter":
        return 0
    if isinstance(a, ast.BinOp) and isinstance(a.left, ast.Name) and a.left.id == "n_iter" \
            and isinstance(a.right, ast.Constant) and isinstance(a.right.value, int) and isinstance(a.op, (ast.Add, ast.Sub)):
        return a.right.value if isinstance(a.op, ast.Add) else -a.right.value
    raise Unsupported("%s: loop count %s" % (fname, U(a)))


def adam_table(mod):
    fn = mod.funcs.get("minimize_adam")
    if fn is None or [a.arg for a in fn.args.args] != ["loss_func", "initial_value", "n_iter", "init_learn_rate", "jit"]:
        raise Unsupported("minimize_adam signature")
    body = strip_doc(fn.body)
    src = [U(s) for s in body]
    need = ["(opt_init, opt_update, get_params) = adam(learn_schedule)", "opt_state = opt_init(initial_value)",
            "val_grad = jax.value_and_grad(loss_func)", "if jit:\n    val_grad = jax.jit(val_grad)", "losses = list()"]
    need = [n.replace("(opt_init, opt_update, get_params)", "opt_init, opt_update, get_params") for n in need]
    for n in need:
        if n not in src:
            raise Unsupported("minimize_adam: missing statement `%s`" % n)
    if mod.imports.get("adam") != "jax.example_libraries.optimizers.adam":
        raise Unsupported("minimize_adam: adam import")
    defs = {s.name: s for s in body if isinstance(s, ast.FunctionDef)}
    if set(defs) != {"learn_schedule", "step"}:
        raise Unsupported("minimize_adam: inner functions %s" % sorted(defs))
    if U(defs["learn_schedule"]).split("\n", 1)[1].strip() != "return exp(-0.01 * i) * init_learn_rate":
        raise Unsupported("minimize_adam: learn_schedule %s" % U(defs["learn_schedule"]))
    st = [U(s) for s in strip_doc(defs["step"].body)]
    if [a.arg for a in defs["step"].args.args] != ["step", "opt_state"] or st != [
            "value, grads = val_grad(get_params(opt_state))", "opt_state = opt_update(step, grads, opt_state)",
            "return (value, opt_state)"]:
        raise Unsupported("minimize_adam: step body %s" % st)
    loops = [s for s in body if isinstance(s, ast.For)]
    if len(loops) != 1 or loops[0].orelse or not isinstance(loops[0].target, ast.Name):
        raise Unsupported("minimize_adam: loop")
    lp = loops[0]
    var = lp.target.id
    off = range_offset(lp.iter, "minimize_adam")
    lb = [U(s) for s in lp.body]
    idx = None
    appends = 0
    appended = None
    for s in lp.body:
        t = U(s)
        if isinstance(s, ast.Assign) and isinstance(s.value, ast.Call) and U(s.value.func) == "step":
            if U(s.targets[0]) != "(value, opt_state)" and U(s.targets[0]) != "value, opt_state":
                raise Unsupported("minimize_adam: step result binding %s" % t)
            a = s.value.args
            if len(a) != 2 or U(a[1]) != "opt_state":
                raise Unsupported("minimize_adam: step arguments %s" % t)
            idx = "IdxLoopVar" if U(a[0]) == var else ("(IdxConst %d)" % a[0].value if isinstance(a[0], ast.Constant) else None)
            if idx is None:
                raise Unsupported("minimize_adam: step index %s" % U(a[0]))
        elif t == "losses.append(value.item())":
            if idx is None:
                raise Unsupported("minimize_adam: append before the step")
            appends += 1
            appended = "AppStepValue"
        else:
            raise Unsupported("minimize_adam: loop statement %s" % t)
    after = body[body.index(lp) + 1:]
    a_src = [U(s) for s in after]
    params_after = "pre_transformation = get_params(opt_state)" in a_src
    post = "TPStack" if "losses = stack(losses)" in a_src else "TPNone"
    if mod.imports.get("stack") != "jax.numpy.stack":
        raise Unsupported("minimize_adam: stack import")
    fields = results_fields(after, "minimize_adam")
    if [(f, U(e)) for f, e in fields] != [("pre_transformation", "pre_transformation"), ("opt_state", "opt_state"), ("losses", "losses")]:
        raise Unsupported("minimize_adam: result fields %s" % [(f, U(e)) for f, e in fields])
    extra = [t for t in a_src if t not in ("pre_transformation = get_params(opt_state)", "losses = stack(losses)")
             and not t.startswith("Results = ") and not t.startswith("results = ") and not t.startswith("return ")]
    if extra or not params_after:
        raise Unsupported("minimize_adam: statements after the loop %s" % a_src)
    return dict(offset=off, idx=idx, appends=appends, appended=appended or "AppNothing", params_after=params_after, post=post)


def advi_table(mod):
    fn = mod.funcs.get("run_advi")
    if fn is None or [a.arg for a in fn.args.args] != ["loss_func", "initial_parameters", "n_iter", "init_learn_rate", "nsamples", "jit"]:
        raise Unsupported("run_advi signature")
    body = strip_doc(fn.body)
    defs = {s.name: s for s in body if isinstance(s, ast.FunctionDef)}
    if set(defs) != {"negative_logprob", "objective", "learn_schedule", "update"}:
        raise Unsupported("run_advi: inner functions %s" % sorted(defs))
    if [U(s) for s in strip_doc(defs["negative_logprob"].body)] != ["return -loss_func(x)"]:
        raise Unsupported("run_advi: negative_logprob")
    ob = defs["objective"]
    oargs = [a.arg for a in ob.args.args]
    obody = strip_doc(ob.body)
    if oargs != ["params", "t"] or len(obody) != 2 or U(obody[1]) != "return -calculate_batch_elbo(negative_logprob, rng, params, nsamples)":
        raise Unsupported("run_advi: objective %s" % U(ob))
    k = obody[0]
    if not (isinstance(k, ast.Assign) and U(k.targets[0]) == "rng" and isinstance(k.value, ast.Call)
            and U(k.value.func) == "random.PRNGKey" and len(k.value.args) == 1 and not k.value.keywords):
        raise Unsupported("run_advi: key construction %s" % U(k))
    if mod.imports.get("random") != "jax.random":
        raise Unsupported("run_advi: random import")
    karg = k.value.args[0]
    if isinstance(karg, ast.Name) and karg.id == "t":
        key = "objective-arg-1"
    elif isinstance(karg, ast.Constant) and isinstance(karg.value, int):
        key = "(KeyConst %d)" % karg.value
    else:
        raise Unsupported("run_advi: key argument %s" % U(karg))
    up = defs["update"]
    ub = [U(s) for s in strip_doc(up.body)]
    if [a.arg for a in up.args.args] != ["i", "opt_state"] or ub[0] != "params = get_params(opt_state)" \
            or ub[2:] != ["return (opt_update(i, gradient, opt_state), elbo)"]:
        raise Unsupported("run_advi: update %s" % ub)
    if ub[1] == "elbo, gradient = jax.value_and_grad(objective)(params, i)":
        second = "update-arg-0"
    else:
        raise Unsupported("run_advi: objective call %s" % ub[1])
    src = [U(s) for s in body]
    for n in ["init_mean, init_std = (initial_parameters, -10 * zeros_like(initial_parameters))",
              "opt_init, opt_update, get_params = adam(learn_schedule)", "opt_state = opt_init((init_mean, init_std))",
              "if jit:\n    update = jax.jit(update)", "elbos = list()"]:
        if n not in src:
            raise Unsupported("run_advi: missing statement `%s`" % n)
    loops = [s for s in body if isinstance(s, ast.For)]
    if len(loops) != 1 or loops[0].orelse or not isinstance(loops[0].target, ast.Name):
        raise Unsupported("run_advi: loop")
    lp = loops[0]
    var = lp.target.id
    off = range_offset(lp.iter, "run_advi")
    idx = None
    appends = 0
    for s in lp.body:
        t = U(s)
        if isinstance(s, ast.Assign) and isinstance(s.value, ast.Call) and U(s.value.func) == "update":
            if U(s.targets[0]) not in ("(opt_state, elbo)", "opt_state, elbo"):
                raise Unsupported("run_advi: update result binding %s" % t)
            a = s.value.args
            if len(a) != 2 or U(a[1]) != "opt_state":
                raise Unsupported("run_advi: update arguments %s" % t)
            idx = "IdxLoopVar" if U(a[0]) == var else ("(IdxConst %d)" % a[0].value if isinstance(a[0], ast.Constant) else None)
            if idx is None:
                raise Unsupported("run_advi: update index %s" % U(a[0]))
        elif t == "elbos.append(elbo.item())":
            if idx is None:
                raise Unsupported("run_advi: append before the update")
            appends += 1
        else:
            raise Unsupported("run_advi: loop statement %s" % t)
    # key data flow: PRNGKey(t) <- objective(params, t) <- update(i, ..) passes i <- loop passes the loop variable
    if key == "objective-arg-1" and second == "update-arg-0":
        key = "KeyLoopIndex" if idx == "IdxLoopVar" else "(KeyConst %s)" % idx.split()[-1].rstrip(")")
    after = body[body.index(lp) + 1:]
    a_src = [U(s) for s in after]
    if a_src[0] not in ("params, log_stds = get_params(opt_state)", "(params, log_stds) = get_params(opt_state)"):
        raise Unsupported("run_advi: parameters after the loop %s" % a_src[0])
    std = None
    if a_src[1] == "stds = exp(log_stds)" and mod.imports.get("exp") == "jax.numpy.exp":
        std = "StdExp"
    elif a_src[1] == "stds = log_stds":
        std = "StdId"
    else:
        raise Unsupported("run_advi: std expression %s" % a_src[1])
    fields = results_fields(after, "run_advi")
    if [(f, U(e)) for f, e in fields] != [("pre_transformation", "params"), ("pre_transformation_std", "stds"), ("losses", "elbos")]:
        raise Unsupported("run_advi: result fields %s" % [(f, U(e)) for f, e in fields])
    return dict(offset=off, idx=idx, appends=appends, appended="AppStepValue" if appends else "AppNothing",
                params_after=True, post="TPNone", key=key, std=std)


# ----------------------------------------------------------------------------- randomness
RANDOM_ROOTS = {"jax.random", "numpy.random", "random", "sklearn.cluster.k_means", "sklearn.cluster.KMeans",
                "secrets", "uuid", "os.urandom", "time.time", "numpy.random.default_rng"}


def randomness_sites(repo):
    """every call whose callee resolves into a randomness source, with the origin of its first argument"""
    sites = []
    for path in sorted(glob.glob(os.path.join(repo, "mellon", "*.py"))):
        rel = "mellon/" + os.path.basename(path)
        if os.path.basename(path).startswith("_") and os.path.basename(path) != "__init__.py":
            continue        # facade modules re-export only
        mod = Module(repo, rel)

        def qual(e):
            if isinstance(e, ast.Name):
                return mod.imports.get(e.id)
            if isinstance(e, ast.Attribute):
                q = qual(e.value)
                return q + "." + e.attr if q else None
            return None

        def visit(fn, owner):
            params = set()
            for sub in ast.walk(fn):          # parameters of the function and of the closures defined inside it
                if isinstance(sub, (ast.FunctionDef, ast.Lambda)):
                    params |= {a.arg for a in sub.args.args + sub.args.kwonlyargs}
            keylocals = set()
            for node in ast.walk(fn):
                if isinstance(node, ast.Assign) and isinstance(node.value, ast.Call):
                    q = qual(node.value.func)
                    if q in ("jax.random.PRNGKey", "jax.random.split", "jax.random.key"):
                        for t in node.targets:
                            if isinstance(t, ast.Name):
                                keylocals.add(t.id)
            for node in ast.walk(fn):
                if not isinstance(node, ast.Call):
                    continue
                q = qual(node.func)
                if not q or not any(q == r or q.startswith(r + ".") for r in RANDOM_ROOTS):
                    continue
                a0 = node.args[0] if node.args else None
                kws = {k.arg for k in node.keywords}
                if q.startswith("jax.random."):
                    if isinstance(a0, ast.Name) and a0.id in params:
                        kind = "SeedParam"
                    elif isinstance(a0, ast.Name) and a0.id in keylocals:
                        kind = "SeedDerivedKey"
                    elif isinstance(a0, ast.Constant):
                        kind = "SeedConst"
                    else:
                        kind = "SeedUnknown"
                elif q.startswith("sklearn.cluster"):
                    kind = "SeedParam" if "random_state" in kws else "SeedGlobalState"
                else:
                    kind = "SeedGlobalState"
                sites.append((rel, owner, q, kind))
        for node in mod.tree.body:
            if isinstance(node, ast.FunctionDef):
                visit(node, node.name)
            elif isinstance(node, ast.ClassDef):
                for m in node.body:
                    if isinstance(m, ast.FunctionDef):
                        visit(m, node.name + "." + m.name)
    return sites


def landmarks_guard(repo):
    """_prepare_attribute returns early when the attribute is already set; _compute_landmarks is the only caller of
    compute_landmarks in the estimators; compute_landmarks is the only caller of k_means"""
    mod = Module(repo, "mellon/base_model.py")
    cls = mod.classes["BaseEstimator"]
    fn = next((n for n in cls.body if isinstance(n, ast.FunctionDef) and n.name == "_prepare_attribute"), None)
    if fn is None:
        raise Unsupported("_prepare_attribute not found")
    body = [U(s) for s in strip_doc(fn.body)]
    want = ["if getattr(self, attribute) is not None:\n    return", "function_name = '_compute_' + attribute",
            "function = getattr(self, function_name)", "value = function()", "setattr(self, attribute, value)"]
    if body != want:
        raise Unsupported("_prepare_attribute body %s" % body)
    callers, direct = [], []
    for path in sorted(glob.glob(os.path.join(repo, "mellon", "*.py"))):
        b = os.path.basename(path)
        if b.startswith("_") and b != "__init__.py":
            continue
        m = Module(repo, "mellon/" + b)
        for node in ast.walk(m.tree):
            if isinstance(node, ast.FunctionDef):
                for c in ast.walk(node):
                    if isinstance(c, ast.Call) and isinstance(c.func, ast.Name) \
                            and c.func.id in ("compute_landmarks", "compute_landmarks_rescale_time"):
                        if b == "parameters.py" or m.imports.get(c.func.id, "").endswith("parameters." + c.func.id):
                            callers.append(("parameters." if b == "parameters.py" else "") + node.name)
                    if isinstance(c, ast.Call) and isinstance(c.func, ast.Attribute) and c.func.attr == "_compute_landmarks":
                        direct.append("%s:%s" % (b, node.name))
    return sorted(set(callers)), sorted(set(direct))


# ----------------------------------------------------------------------------- emission
def emit(repo):
    ri, else_exn = run_inference_table(repo)
    mod = Module(repo, "mellon/inference.py")
    lb = lbfgsb_table(mod)
    ad = adam_table(mod)
    av = advi_table(mod)
    sites = randomness_sites(repo)
    callers, direct = landmarks_guard(repo)
    if else_exn not in ("ValueError", "TypeError", "KeyError", "AttributeError"):
        raise Unsupported("_run_inference: unknown-optimizer exception %s" % else_exn)
    L = ["(* GENERATED by translate/c17_tables.py from mellon/base_model.py, inference.py and mellon/*.py *)",
         "From Coq Require Import ZArith List String.", "From MellonV Require Import PyVal OptSem.",
         "Import ListNotations.", "Open Scope string_scope.", "Open Scope Z_scope.", ""]
    L.append("Definition optimizer_names : list (string * optimizer) := [%s]." % "; ".join(
        "(%s, %s)" % (coq_string(n), OPT_COQ[n]) for n in ri))
    L.append("Definition unknown_optimizer_exn : exn := %s." % else_exn)
    L.append("Definition routine_of (o : optimizer) : routine :=\n  match o with\n%s\n  end." % "\n".join(
        "  | %s => %s" % (OPT_COQ[n], ROUTINE_COQ[ri[n]["routine"]]) for n in ri))

    def wsrc(w):
        return "SNone" if w[0] == "SNone" else "(%s %s)" % (w[0], FIELD_COQ[w[1]])
    L.append("Definition attr_wiring (o : optimizer) : list (attr * src) :=\n  match o with\n%s\n  end." % "\n".join(
        "  | %s => [%s]" % (OPT_COQ[n], "; ".join("(%s, %s)" % (ATTR_COQ[a], wsrc(w)) for a, w in ri[n]["wiring"])) for n in ri))
    L.append("Definition lbfgsb_fields : list (field * lexpr) := [%s]." % "; ".join("(%s, %s)" % (FIELD_COQ[f], e) for f, e in lb))

    def skel(name, t):
        L.append("Definition %s : loop_skel := mkSkel (%d) %s %d%%nat %s %s %s." % (
            name, t["offset"], t["idx"], t["appends"], t["appended"], "true" if t["params_after"] else "false", t["post"]))
    skel("adam_skel", ad)
    skel("advi_skel", av)
    L.append("Definition advi_key_source : key_source := %s." % av["key"])
    L.append("Definition advi_std_expr : std_expr := %s." % av["std"])
    L.append("Definition random_sites : list (string * string * string * seed_kind) := [%s]." % ";\n  ".join(
        "(%s, %s, %s, %s)" % (coq_string(f), coq_string(o), coq_string(q), k) for f, o, q, k in sites))
    L.append("Definition compute_landmarks_callers : list string := [%s]." % "; ".join(coq_string(c) for c in callers))
    L.append("Definition direct_compute_landmarks_calls : list string := [%s]." % "; ".join(coq_string(c) for c in direct))
    L.append("Definition prepare_attribute_guards_set_value : bool := true.")
    L.append("")
    meta = dict(run_inference={n: dict(routine=ri[n]["routine"], wiring={a: (w[0], w[1]) for a, w in ri[n]["wiring"]}) for n in ri},
                unknown_optimizer=else_exn, minimize_lbfgsb=dict(lb), minimize_adam=ad, run_advi=av,
                random_sites=[dict(file=f, function=o, callee=q, seed=k) for f, o, q, k in sites],
                compute_landmarks_callers=callers, direct_compute_landmarks_calls=direct)
    return "\n".join(L), meta
