"""Fail-closed translator for the element-wise numeric subset of Mellon (world A).

Python source (read from the working tree of the repository with `ast`)  ->  R-valued
Gallina definitions.  The subset is straight-line arithmetic

    + - * / **   sqrt exp log square maximum   literals   pi   gammaln (-> `lgam`)
    named reductions  arraysum(e) / e.mean()   broadcasting subscripts [..., None] [:, None] [None, :]

on NumPy scalars and arrays, read *element-wise*: every array variable stands for one of its
entries and carries an axis kind (vec / col / row / mat / pair / pairx / pairc) so that a
combination NumPy would broadcast differently is refused instead of guessed.  Local names are
inlined (symbolic execution of straight-line code), docstrings are ignored.

Everything that is not arithmetic - which array is sliced by which `active_dims`, what is
handed to the operands, how the gradient is scattered back, the three contractions in
`distance` - is recognised by EXACT AST PATTERN against the templates below; the entry-wise
semantics of those patterns is written once in coq/lib/ALists.v.  Any statement that is
neither arithmetic of the subset nor an exact match of its template raises Unsupported:
the check then reports that the model can no longer be regenerated (never a guess).
"""
import ast
import os
from fractions import Fraction


class Unsupported(Exception):
    pass


# ------------------------------------------------------------------ modules
class Module:
    def __init__(self, repo, relpath):
        self.path = os.path.join(repo, relpath)
        self.relpath = relpath
        with open(self.path) as f:
            self.src = f.read()
        self.tree = ast.parse(self.src)
        pkg = relpath[:-3].replace("/", ".")
        self.name = pkg
        self.imports = {}
        for st in self.tree.body:
            if isinstance(st, ast.ImportFrom):
                base = st.module or ""
                if st.level:
                    parent = pkg.rsplit(".", st.level)[0]
                    base = parent + ("." + base if base else "")
                for a in st.names:
                    self.imports[a.asname or a.name] = base + "." + a.name
            elif isinstance(st, ast.Import):
                for a in st.names:
                    self.imports[a.asname or a.name] = a.name

    def find(self, qual):
        """qual: 'f' or 'Class.method'"""
        parts = qual.split(".")
        body = self.tree.body
        node = None
        for p in parts:
            hit = [s for s in body if isinstance(s, (ast.FunctionDef, ast.ClassDef)) and s.name == p]
            if len(hit) != 1:
                raise Unsupported("%s: %s not found (or defined %d times)" % (self.relpath, qual, len(hit)))
            node = hit[0]
            body = node.body
        if not isinstance(node, ast.FunctionDef):
            raise Unsupported("%s: %s is not a function" % (self.relpath, qual))
        if node.decorator_list:
            raise Unsupported("%s: %s is decorated" % (self.relpath, qual))
        return node


def strip_doc(body):
    if body and isinstance(body[0], ast.Expr) and isinstance(getattr(body[0], "value", None), ast.Constant) \
            and isinstance(body[0].value.value, str):
        return body[1:]
    return body


def same(node, src):
    """exact AST equality of a statement/expression with a template given as source text"""
    t = ast.parse(src).body[0]
    if isinstance(node, ast.expr) and isinstance(t, ast.Expr):
        t = t.value
    return ast.dump(node) == ast.dump(t)


def need(node, src, where):
    if not same(node, src):
        raise Unsupported("%s: expected exactly `%s`, found `%s`" % (where, src, ast.unparse(node)))


def params_of(fn):
    a = fn.args
    if a.vararg or a.kwarg or a.kwonlyargs or a.posonlyargs:
        raise Unsupported("%s: unsupported signature" % fn.name)
    return [x.arg for x in a.args], list(a.defaults)


# ------------------------------------------------------------------ IR
# expr := ('num', Fraction) | ('var', name) | ('pi',) | ('bin', op, a, b) | ('neg', a)
#       | ('powi', a, int) | ('rpow', a, b) | ('fn', name, [args]) | ('sum', body, kind) | ('mean', body)
#       | ('lgam', a) | ('quantile', body, q)
KJOIN = {("col", "row"): "mat", ("col", "mat"): "mat", ("row", "mat"): "mat",
         ("pairx", "pairc"): "pairc"}


def kjoin(a, b, where):
    if a == "scalar":
        return b
    if b == "scalar" or a == b:
        return a
    k = KJOIN.get((a, b)) or KJOIN.get((b, a))
    if k is None:
        raise Unsupported("%s: operands of axis kinds %s and %s do not broadcast entry-wise" % (where, a, b))
    return k


FUNCS = {"jax.numpy.sqrt": ("sqrt", 1), "jax.numpy.exp": ("exp", 1), "jax.numpy.log": ("ln", 1),
         "jax.numpy.square": ("square", 1), "jax.numpy.maximum": ("Rmax", 2)}


class Scalar:
    """symbolic execution of straight-line arithmetic; env: name -> (expr, kind)"""

    def __init__(self, mod, where, attrs=None, calls=None):
        self.mod, self.where = mod, where
        self.env = {}
        self.attrs = attrs or {}      # 'self.ls' -> (expr, kind)
        self.calls = calls or {}      # unparsed call text -> (expr, kind)   (exact text match)
        self.uses_lgam = False

    def err(self, msg, node=None):
        raise Unsupported("%s: %s%s" % (self.where, msg, (" in `%s`" % ast.unparse(node)) if node is not None else ""))

    def bind(self, name, expr, kind="scalar"):
        self.env[name] = (expr, kind)

    def assign(self, st):
        if not (isinstance(st, ast.Assign) and len(st.targets) == 1 and isinstance(st.targets[0], ast.Name)):
            self.err("statement outside the subset", st)
        self.env[st.targets[0].id] = self.expr(st.value)

    def qual(self, name):
        return self.mod.imports.get(name)

    def expr(self, e):
        if isinstance(e, (ast.BinOp, ast.Call, ast.Subscript)) and ast.unparse(e) in self.calls:
            return self.calls[ast.unparse(e)]
        if isinstance(e, ast.Constant):
            v = e.value
            if isinstance(v, bool) or not isinstance(v, (int, float)):
                self.err("literal outside the subset", e)
            if isinstance(v, float) and (v != v or v in (float("inf"), float("-inf"))):
                self.err("non-finite literal", e)
            return ("num", Fraction(repr(v))), "scalar"
        if isinstance(e, ast.Name):
            if e.id in self.env:
                return self.env[e.id]
            if self.qual(e.id) == "jax.numpy.pi":
                return ("pi",), "scalar"
            self.err("unknown name %s" % e.id, e)
        if isinstance(e, ast.Attribute):
            txt = ast.unparse(e)
            if txt in self.attrs:
                return self.attrs[txt]
            self.err("unknown attribute", e)
        if isinstance(e, ast.UnaryOp):
            if isinstance(e.op, ast.USub):
                a, k = self.expr(e.operand)
                if a[0] == "num":
                    return ("num", -a[1]), k
                return ("neg", a), k
            if isinstance(e.op, ast.UAdd):
                return self.expr(e.operand)
            self.err("unary operator outside the subset", e)
        if isinstance(e, ast.BinOp):
            a, ka = self.expr(e.left)
            b, kb = self.expr(e.right)
            k = kjoin(ka, kb, self.where + " `" + ast.unparse(e) + "`")
            ops = {ast.Add: "+", ast.Sub: "-", ast.Mult: "*", ast.Div: "/"}
            if type(e.op) in ops:
                return ("bin", ops[type(e.op)], a, b), k
            if isinstance(e.op, ast.Pow):
                if b[0] == "num" and b[1].denominator == 1 and abs(b[1]) <= 64:
                    return ("powi", a, int(b[1])), k
                return ("rpow", a, b), k
            self.err("binary operator outside the subset", e)
        if isinstance(e, ast.Subscript):
            return self.subscript(e)
        if isinstance(e, ast.Call):
            return self.call(e)
        self.err("expression outside the subset", e)

    def subscript(self, e):
        a, k = self.expr(e.value)
        idx = e.slice.elts if isinstance(e.slice, ast.Tuple) else [e.slice]
        shape = []
        for i in idx:
            if isinstance(i, ast.Constant) and i.value is Ellipsis:
                shape.append("...")
            elif (isinstance(i, ast.Constant) and i.value is None) or \
                    (isinstance(i, ast.Name) and i.id not in self.env and self.qual(i.id) == "jax.numpy.newaxis"):
                shape.append("None")
            elif isinstance(i, ast.Slice) and i.lower is None and i.upper is None and i.step is None:
                shape.append(":")
            else:
                self.err("subscript is not a pure broadcast", e)
        shape = tuple(shape)
        table = {("pair", ("...", "None")): "pairx", ("vec", (":", "None")): "col", ("vec", ("None", ":")): "row",
                 ("scalar", (":", "None")): "scalar", ("scalar", ("None", ":")): "scalar"}
        if (k, shape) not in table:
            self.err("broadcast subscript %s on a value of axis kind %s" % (list(shape), k), e)
        return a, table[(k, shape)]

    def call(self, e):
        txt = ast.unparse(e)
        if txt in self.calls:
            return self.calls[txt]
        if e.keywords and not (isinstance(e.func, ast.Name) and self.qual(e.func.id) == "jax.numpy.sort"):
            self.err("keyword arguments", e)
        if isinstance(e.func, ast.Attribute):            # method reductions / .item()
            a, k = self.expr(e.func.value)
            if e.args:
                self.err("method call with arguments", e)
            if e.func.attr == "item":
                if k != "scalar":
                    self.err(".item() of a non-scalar", e)
                return a, "scalar"
            if e.func.attr == "mean":
                if k != "vec":
                    self.err(".mean() of axis kind %s" % k, e)
                return ("mean", a), "scalar"
            self.err("method outside the subset", e)
        if not isinstance(e.func, ast.Name):
            self.err("callee outside the subset", e)
        name = e.func.id
        if name in self.env and self.env[name][0][0] == "closure":
            return self.inline(self.env[name][0], e)
        q = self.qual(name)
        if q in FUNCS:
            g, ar = FUNCS[q]
            if len(e.args) != ar:
                self.err("arity", e)
            args, k = [], "scalar"
            for x in e.args:
                a, ka = self.expr(x)
                k = kjoin(k, ka, self.where)
                args.append(a)
            if g == "square":
                return ("powi", args[0], 2), k
            return ("fn", g, args), k
        if q == "jax.scipy.special.gammaln":
            if len(e.args) != 1:
                self.err("arity", e)
            a, k = self.expr(e.args[0])
            self.uses_lgam = True
            return ("lgam", a), k
        if q == "jax.numpy.sum":
            if len(e.args) != 1:
                self.err("arraysum with an axis", e)
            a, k = self.expr(e.args[0])
            if k not in ("vec", "mat"):
                self.err("arraysum of axis kind %s" % k, e)
            return ("sum", a, k), "scalar"
        if q == "jax.numpy.sort":
            # sort(distances, axis=-1): the entry variable then denotes the sorted row (library contract)
            if len(e.args) == 1 and len(e.keywords) == 1 and e.keywords[0].arg == "axis" and same(e.keywords[0].value, "-1"):
                a, k = self.expr(e.args[0])
                if a[0] == "var" and k == "mat":
                    return ("var", a[1] + "_sorted"), "mat"
            self.err("sort outside the recognised form", e)
        if q == "jax.numpy.quantile":
            if len(e.args) == 2:
                a, k = self.expr(e.args[0])
                qq, kq = self.expr(e.args[1])
                if k == "vec" and qq[0] == "num":
                    return ("quantile", a, qq), "scalar"
            self.err("quantile outside the recognised form", e)
        if q and q.startswith(self.mod.name.rsplit(".", 1)[0] + ".") and name in self.user_funcs:
            return self.user_funcs[name](self, e)
        self.err("callee outside the subset (%s)" % q, e)

    user_funcs = {}

    def inline(self, clo, e):
        _, fn, saved = clo
        ps, defaults = params_of(fn)
        if defaults or len(ps) != len(e.args):
            self.err("closure call", e)
        sub = Scalar(self.mod, self.where + "/" + fn.name, self.attrs, self.calls)
        sub.env = dict(saved if saved is not None else self.env)
        for p, x in zip(ps, e.args):
            sub.env[p] = self.expr(x)
        r = sub.run_body(strip_doc(fn.body))
        self.uses_lgam |= sub.uses_lgam
        return r

    def run_body(self, body):
        """assignments / nested defs then `return e`; returns (expr, kind)"""
        for st in body[:-1]:
            if isinstance(st, ast.FunctionDef):
                if st.decorator_list:
                    self.err("decorated closure", st)
                self.env[st.name] = (("closure", st, None), "closure")
            else:
                self.assign(st)
        last = body[-1] if body else None
        if not isinstance(last, ast.Return) or last.value is None:
            self.err("function does not end in `return e`")
        return self.expr(last.value)


# ------------------------------------------------------------------ emission
def coq_num(fr):
    if fr.denominator == 1:
        return str(fr.numerator) if fr.numerator >= 0 else "(%d)" % fr.numerator
    n = str(fr.numerator) if fr.numerator >= 0 else "(%d)" % fr.numerator
    return "(%s / %d)" % (n, fr.denominator)


def free_vars(e, acc=None):
    acc = [] if acc is None else acc
    if e[0] == "var":
        if e[1] not in acc:
            acc.append(e[1])
    elif e[0] in ("bin",):
        free_vars(e[2], acc), free_vars(e[3], acc)
    elif e[0] in ("neg", "lgam", "mean"):
        free_vars(e[1], acc)
    elif e[0] == "powi":
        free_vars(e[1], acc)
    elif e[0] == "rpow":
        free_vars(e[1], acc), free_vars(e[2], acc)
    elif e[0] == "fn":
        for a in e[2]:
            free_vars(a, acc)
    elif e[0] in ("sum",):
        free_vars(e[1], acc)
    elif e[0] == "quantile":
        free_vars(e[1], acc)
    return acc


class Emitter:
    def __init__(self, kinds):
        self.kinds = kinds          # var name -> kind (for reductions)

    def go(self, e):
        t = e[0]
        if t == "num":
            return coq_num(e[1])
        if t == "var":
            return e[1]
        if t == "pi":
            return "PI"
        if t == "bin":
            return "(%s %s %s)" % (self.go(e[2]), e[1], self.go(e[3]))
        if t == "neg":
            return "(- %s)" % self.go(e[1])
        if t == "powi":
            if e[2] >= 0:
                return "(%s ^ %d)" % (self.go(e[1]), e[2])
            return "(/ (%s ^ %d))" % (self.go(e[1]), -e[2])
        if t == "rpow":
            return "(Rpower %s %s)" % (self.go(e[1]), self.go(e[2]))
        if t == "fn":
            return "(%s %s)" % (e[1], " ".join(self.go(a) for a in e[2]))
        if t == "lgam":
            return "(lgam %s)" % self.go(e[1])
        if t in ("sum", "mean"):
            body = e[1]
            vs = free_vars(body)
            if t == "mean" or e[2] == "vec":
                arr = [v for v in vs if self.kinds.get(v) == "vec"]
                other = [v for v in vs if self.kinds.get(v) not in ("vec", "scalar")]
                if other or not 1 <= len(arr) <= 3:
                    raise Unsupported("reduction over variables %r" % vs)
                fn = "(fun %s => %s)" % (" ".join(arr), self.go(body))
                mp = {1: "map", 2: "map2", 3: "map3"}[len(arr)]
                lst = "(%s %s %s)" % (mp, fn, " ".join(v + "_l" for v in arr))
                return "(sum_list %s)" % lst if t == "sum" else "(mean_list %s)" % lst
            outer = [v for v in vs if self.kinds.get(v) in ("mat", "col")]
            inner = [v for v in vs if self.kinds.get(v) in ("mat", "row")]
            rest = [v for v in vs if self.kinds.get(v) not in ("mat", "col", "row", "scalar")]
            mats = [v for v in vs if self.kinds.get(v) == "mat"]
            if rest or len(mats) != 1 or not 1 <= len(outer) <= 3 or not 1 <= len(inner) <= 2:
                raise Unsupported("matrix reduction over variables %r" % vs)
            m = mats[0]
            ofn = {1: "map", 2: "map2", 3: "map3"}[len(outer)]
            ifn = {1: "map", 2: "map2"}[len(inner)]
            oargs = " ".join((v + "_row") if v == m else v for v in outer)
            iargs = " ".join(v for v in inner)
            ilists = " ".join((m + "_row") if v == m else (v + "_l") for v in inner)
            olists = " ".join(v + "_l" for v in outer)
            return "(sum_list (%s (fun %s => sum_list (%s (fun %s => %s) %s)) %s))" % (
                ofn, oargs, ifn, iargs, self.go(body), ilists, olists)
        if t == "quantile":
            body = e[1]
            vs = [v for v in free_vars(body) if self.kinds.get(v) == "vec"]
            if not 1 <= len(vs) <= 2:
                raise Unsupported("quantile over variables %r" % vs)
            mp = {1: "map", 2: "map2"}[len(vs)]
            return "(quantile_list (%s (fun %s => %s) %s) %s)" % (mp, " ".join(vs), self.go(body),
                                                                " ".join(v + "_l" for v in vs), coq_num(e[2][1]))
        raise Unsupported("cannot emit %r" % (t,))


def definition(name, params, body, ret="R"):
    ps = " ".join("(%s : %s)" % (p, ty) for p, ty in params)
    return "Definition %s %s : %s :=\n  %s.\n" % (name, ps, ret, body)


# ------------------------------------------------------------------ kernels (cov.py, base_cov.py, util.py)
STATIONARY = ["Matern32", "Matern52", "ExpQuad", "Exponential", "RatQuad"]
SEL_X = "x = select_active_dims(x, self.active_dims)"
SEL_Y = "y = select_active_dims(y, self.active_dims)"
KGRAD_PRE = ["x_shape = x.shape", "active_dims = self.active_dims", "x = select_active_dims(x, active_dims)"]
KGRAD_IN = ["y_shape = y.shape", "y = select_active_dims(y, active_dims)"]
KGRAD_POST = ["target_shape = x_shape[:-1] + y_shape",
              "full_grad = expand_to_inactive({v}, target_shape, active_dims)", "return full_grad"]


class KernelTranslator:
    """cov.py / base_cov.py / util.py / parameters.compute_cov_func  ->  gen/AKernels.v"""

    def __init__(self, repo):
        self.repo = repo
        self.cov = Module(repo, "mellon/cov.py")
        self.base = Module(repo, "mellon/base_cov.py")
        self.util = Module(repo, "mellon/util.py")
        self.par = Module(repo, "mellon/parameters.py")
        self.out = []
        self.funcs = []
        self.facts = []

    # -- helpers
    def check_imports(self, mod, names):
        for local, q in names.items():
            if mod.imports.get(local) != q:
                raise Unsupported("%s: name %s is bound to %s, expected %s" % (mod.relpath, local, mod.imports.get(local), q))

    def class_attrs(self, cls):
        init = self.cov.find(cls + ".__init__")
        ps, _ = params_of(init)
        body = strip_doc(init.body)
        need(body[0], "super().__init__()", cls + ".__init__")
        attrs = {}
        for st in body[1:]:
            if not (isinstance(st, ast.Assign) and len(st.targets) == 1 and isinstance(st.targets[0], ast.Attribute)
                    and same(st.targets[0].value, "self") and isinstance(st.value, ast.Name)
                    and st.value.id == st.targets[0].attr and st.value.id in ps):
                raise Unsupported("%s.__init__: `%s` is not `self.a = a`" % (cls, ast.unparse(st)))
            attrs[st.targets[0].attr] = st.value.id
        return attrs

    def kernel_k(self, cls):
        where = "cov.py:%s.k" % cls
        fn = self.cov.find(cls + ".k")
        ps, d = params_of(fn)
        if ps != ["self", "x", "y"] or d:
            raise Unsupported(where + ": signature")
        body = strip_doc(fn.body)
        if len(body) < 3:
            raise Unsupported(where + ": body too short")
        need(body[0], SEL_X, where)
        need(body[1], SEL_Y, where)
        attrs = self.class_attrs(cls)
        if "active_dims" not in attrs or "ls" not in attrs:
            raise Unsupported(where + ": attributes")
        names = [a for a in attrs if a != "active_dims"]
        sc = Scalar(self.cov, where,
                    attrs={"self." + a: (("var", a), "scalar") for a in names},
                    calls={"distance(x, y)": (("var", "dist"), "pair"),
                           "einsum('ij,kj->ik', x, y)": (("var", "dotxy"), "pair")})
        e, k = sc.run_body(body[2:])
        if k != "pair":
            raise Unsupported(where + ": result is not one value per pair of points")
        fv = free_vars(e)
        geo = "dotxy" if cls == "Linear" else "dist"
        if geo not in fv or ("dist" in fv and "dotxy" in fv):
            raise Unsupported(where + ": does not depend on %s only" % geo)
        order = [a for a in ("alpha", "ls") if a in names]
        if sorted(order) != sorted(names):
            raise Unsupported(where + ": unexpected hyper-parameters %r" % names)
        self.out.append(definition("%s_k" % cls, [(a, "R") for a in order] + [(geo, "R")], Emitter({}).go(e)))
        self.funcs.append("mellon.cov.%s.k" % cls)
        return order

    def kernel_kgrad(self, cls, order):
        where = "cov.py:%s.k_grad" % cls
        fn = self.cov.find(cls + ".k_grad")
        ps, d = params_of(fn)
        if ps != ["self", "x"] or d:
            raise Unsupported(where + ": signature")
        body = strip_doc(fn.body)
        for st, t in zip(body, KGRAD_PRE):
            need(st, t, where)
        rest = body[len(KGRAD_PRE):]
        stationary = cls != "Linear"
        if stationary:
            need(rest[0], "dist_grad = distance_grad(x)", where)
            rest = rest[1:]
        if len(rest) < 2 or not isinstance(rest[-2], ast.FunctionDef):
            raise Unsupported(where + ": closure not found")
        need(rest[-1], "return %s" % rest[-2].name, where)
        inner = rest[-2]
        ips, idf = params_of(inner)
        if ips != ["y"] or idf or inner.decorator_list:
            raise Unsupported(where + ": closure signature")
        sc = Scalar(self.cov, where, attrs={"self." + a: (("var", a), "scalar") for a in order})
        for st in rest[:-2]:
            sc.assign(st)
        ib = strip_doc(inner.body)
        for st, t in zip(ib, KGRAD_IN):
            need(st, t, where)
        ib = ib[len(KGRAD_IN):]
        if stationary:
            need(ib[0], "dist, grad = dist_grad(y)", where)
            ib = ib[1:]
            sc.bind("dist", ("var", "dist"), "pair")
            sc.bind("grad", ("var", "g"), "pairc")
        else:
            sc.calls["repeat(x[:, None, :], y.shape[0], axis=1)"] = (("var", "xc"), "pairc")
        if len(ib) < 4:
            raise Unsupported(where + ": closure body too short")
        for st in ib[:-3]:
            sc.assign(st)
        last = ib[-4] if False else None
        # the value handed to expand_to_inactive
        st_exp = ib[-2]
        if not (isinstance(st_exp, ast.Assign) and isinstance(st_exp.value, ast.Call) and st_exp.value.args
                and isinstance(st_exp.value.args[0], ast.Name)):
            raise Unsupported(where + ": expand_to_inactive call not recognised")
        v = st_exp.value.args[0].id
        for st, t in zip(ib[-3:], KGRAD_POST):
            need(st, t.format(v=v), where)
        if v not in sc.env:
            raise Unsupported(where + ": %s undefined" % v)
        e, k = sc.env[v]
        if k != "pairc":
            raise Unsupported(where + ": gradient is not one value per pair and coordinate")
        fv = free_vars(e)
        if stationary:
            if "g" not in fv or set(fv) - set(order) - {"dist", "g"}:
                raise Unsupported(where + ": free variables %r" % fv)
            ps_ = [(a, "R") for a in order] + [("dist", "R"), ("g", "R")]
            self.out.append(definition("%s_kgrad" % cls, ps_, Emitter({}).go(e)))
            self.out.append(definition("%s_kgrad_coeff" % cls, ps_[:-1], "%s_kgrad %s 1" % (cls, " ".join(p for p, _ in ps_[:-1]))))
        else:
            if set(fv) - set(order) - {"xc"}:
                raise Unsupported(where + ": free variables %r" % fv)
            self.out.append(definition("%s_kgrad" % cls, [(a, "R") for a in order] + [("xc", "R")], Emitter({}).go(e)))
        self.funcs.append("mellon.cov.%s.k_grad" % cls)

    def distance(self):
        where = "util.py:distance"
        fn = self.util.find("distance")
        ps, d = params_of(fn)
        if ps != ["x", "y"] or d:
            raise Unsupported(where + ": signature")
        body = strip_doc(fn.body)
        need(body[0], "xx = arraysum(x * x, axis=1)[:, newaxis]", where)
        need(body[1], "yy = arraysum(y * y, axis=1)[newaxis, :]", where)
        need(body[2], "xy = tensordot(x, y, (1, 1))", where)
        sc = Scalar(self.util, where)
        for n in ("xx", "yy", "xy"):
            sc.bind(n, ("var", n), "pair")
        e, k = sc.run_body(body[3:])
        self.out.append("(* entry (i,j) of distance(x, y); xx = sum_c x_ic^2, xy = sum_c x_ic y_jc, yy = sum_c y_jc^2\n"
                        "   (the three contractions are matched by exact AST pattern) *)\n")
        self.out.append(definition("distance_entry", [("xx", "R"), ("xy", "R"), ("yy", "R")], Emitter({}).go(e)))
        self.funcs.append("mellon.util.distance")

        where = "util.py:distance_grad"
        fn = self.util.find("distance_grad")
        ps, d = params_of(fn)
        if ps != ["x", "eps"] or len(d) != 1 or not isinstance(d[0], ast.Constant) or not isinstance(d[0].value, float):
            raise Unsupported(where + ": signature")
        eps = Fraction(repr(d[0].value))
        body = strip_doc(fn.body)
        need(body[0], "xx = arraysum(x * x, axis=1)[:, newaxis]", where)
        if len(body) != 3 or not isinstance(body[1], ast.FunctionDef):
            raise Unsupported(where + ": shape of the body")
        need(body[2], "return %s" % body[1].name, where)
        inner = body[1]
        if params_of(inner) != (["y"], []):
            raise Unsupported(where + ": closure signature")
        ib = strip_doc(inner.body)
        need(ib[0], "yy = arraysum(y * y, axis=1)[newaxis, :]", where)
        need(ib[1], "xy = tensordot(x, y, axes=(1, 1))", where)
        sc = Scalar(self.util, where)
        for n in ("xx", "yy", "xy"):
            sc.bind(n, ("var", n), "pair")
        sc.bind("eps", ("var", "eps"), "scalar")
        sc.calls["y[newaxis, :] - x[:, newaxis]"] = (("bin", "-", ("var", "yc"), ("var", "xc")), "pairc")
        rest = ib[2:]
        if not (isinstance(rest[-1], ast.Return) and isinstance(rest[-1].value, ast.Tuple) and len(rest[-1].value.elts) == 2):
            raise Unsupported(where + ": does not return (distance, gradient)")
        for st in rest[:-1]:
            sc.assign(st)
        de, dk = sc.expr(rest[-1].value.elts[0])
        ge, gk = sc.expr(rest[-1].value.elts[1])
        if dk != "pair" or gk != "pairc":
            raise Unsupported(where + ": axis kinds of the result")
        P = [("eps", "R"), ("xx", "R"), ("xy", "R"), ("yy", "R")]
        self.out.append(definition("distance_grad_dist", P, Emitter({}).go(de)))
        self.out.append("(* entry (i,j,c) of the gradient; xc = x_ic, yc = y_jc (delta matched by exact AST pattern) *)\n")
        self.out.append(definition("distance_grad_entry", P + [("xc", "R"), ("yc", "R")], Emitter({}).go(ge)))
        self.out.append(definition("distance_grad_eps", [], coq_num(eps)))
        self.funcs.append("mellon.util.distance_grad")
        self.check_imports(self.util, {"arraysum": "jax.numpy.sum", "tensordot": "jax.numpy.tensordot",
                                       "newaxis": "jax.numpy.newaxis", "sqrt": "jax.numpy.sqrt",
                                       "maximum": "jax.numpy.maximum"})

    def dims(self):
        """select_active_dims / expand_to_inactive: exact AST pattern, semantics in lib/ALists.v"""
        fn = self.util.find("select_active_dims")
        body = strip_doc(fn.body)
        if params_of(fn) != (["x", "active_dims"], []) or len(body) != 2:
            raise Unsupported("util.py:select_active_dims: shape of the body")
        need(body[0], "if active_dims is not None:\n    if isscalar(active_dims):\n        active_dims = [active_dims]\n"
                      "    x = x[..., active_dims]", "util.py:select_active_dims")
        need(body[1], "return x", "util.py:select_active_dims")
        fn = self.util.find("expand_to_inactive")
        body = strip_doc(fn.body)
        if params_of(fn) != (["values", "target_shape", "active_dims"], []) or len(body) != 5:
            raise Unsupported("util.py:expand_to_inactive: shape of the body")
        for st, t in zip(body, ["if active_dims is None:\n    return values",
                                "if isscalar(active_dims):\n    active_dims = [active_dims]",
                                "full_array = zeros(target_shape, dtype=values.dtype)",
                                "full_array = full_array.at[..., active_dims].set(values)",
                                "return full_array"]):
            need(st, t, "util.py:expand_to_inactive")
        self.check_imports(self.util, {"isscalar": "jax.numpy.isscalar", "zeros": "jax.numpy.zeros"})
        self.check_imports(self.cov, {"select_active_dims": "mellon.util.select_active_dims",
                                      "expand_to_inactive": "mellon.util.expand_to_inactive",
                                      "distance": "mellon.util.distance", "distance_grad": "mellon.util.distance_grad",
                                      "sqrt": "jax.numpy.sqrt", "exp": "jax.numpy.exp", "square": "jax.numpy.square",
                                      "einsum": "jax.numpy.einsum", "repeat": "jax.numpy.repeat"})
        self.check_imports(self.base, {"select_active_dims": "mellon.util.select_active_dims",
                                       "expand_to_inactive": "mellon.util.expand_to_inactive"})
        self.out.append("(* util.select_active_dims / util.expand_to_inactive match their templates exactly:\n"
                        "   x[..., active_dims] with a scalar wrapped into a one-element list, None = identity;\n"
                        "   zeros(target).at[..., active_dims].set(values), None = identity *)\n")
        self.out.append("Definition select_active_dims (ad : dims) (x : list R) : list R := sel ad x.\n")
        self.out.append("Definition expand_to_inactive (ad : dims) (width : nat) (values : nat -> R) (c : nat) : R := "
                        "expand ad width values c.\n")
        self.funcs += ["mellon.util.select_active_dims", "mellon.util.expand_to_inactive"]

    def algebra(self):
        call = {"self.left(x, y)": (("var", "lk"), "pair"), "self.right(x, y)": (("var", "rk"), "pair")}
        attr = {"self.right": (("var", "c"), "scalar")}
        for cls in ("Add", "Mul", "Pow"):
            where = "base_cov.py:%s.k" % cls
            fn = self.base.find(cls + ".k")
            if params_of(fn) != (["self", "x", "y"], []):
                raise Unsupported(where + ": signature")
            body = strip_doc(fn.body)
            need(body[0], SEL_X, where)
            need(body[1], SEL_Y, where)
            if cls == "Pow":
                if len(body) != 3:
                    raise Unsupported(where + ": shape of the body")
                sc = Scalar(self.base, where, attrs={"self.right": (("var", "p"), "scalar")}, calls=call)
                e, k = sc.run_body(body[2:])
                self.out.append(definition("Pow_k", [("p", "R"), ("lk", "R")], Emitter({}).go(e)))
            else:
                if len(body) != 4 or not isinstance(body[2], ast.If) or body[2].orelse or len(body[2].body) != 1:
                    raise Unsupported(where + ": shape of the body")
                need(body[2].test, "callable(self.right)", where)
                sc = Scalar(self.base, where, attrs=attr, calls=call)
                e1, _ = sc.run_body(body[2].body)
                e2, _ = sc.run_body(body[3:])
                if set(free_vars(e1)) != {"lk", "rk"} or set(free_vars(e2)) != {"lk", "c"}:
                    raise Unsupported(where + ": operands")
                self.out.append(definition("%s_k_kk" % cls, [("lk", "R"), ("rk", "R")], Emitter({}).go(e1)))
                self.out.append(definition("%s_k_kc" % cls, [("c", "R"), ("lk", "R")], Emitter({}).go(e2)))
            self.funcs.append("mellon.base_cov.%s.k" % cls)
        need(self.base.find("Covariance.__call__").body[-1], "return self.k(x, y)", "base_cov.py:Covariance.__call__")
        # ---- gradients
        for cls in ("Add", "Mul", "Pow"):
            where = "base_cov.py:%s.k_grad" % cls
            fn = self.base.find(cls + ".k_grad")
            if params_of(fn) != (["self", "x"], []):
                raise Unsupported(where + ": signature")
            body = [s for s in strip_doc(fn.body)]
            for st, t in zip(body, KGRAD_PRE):
                need(st, t, where)
            rest = body[len(KGRAD_PRE):]
            lname = {"Add": "left_grad", "Mul": "left_grad_func", "Pow": "base_grad_func"}[cls]
            rname = {"Add": "right_grad", "Mul": "right_grad_func"}.get(cls)
            need(rest[0], "%s = self.left.k_grad(x)" % lname, where)
            rest = rest[1:]

            def closure(stmts, both, tag):
                if len(stmts) != 1 or not isinstance(stmts[0], ast.FunctionDef) or stmts[0].name != "k_grad":
                    raise Unsupported(where + ": closure (%s)" % tag)
                inner = stmts[0]
                if params_of(inner) != (["y"], []):
                    raise Unsupported(where + ": closure signature")
                ib = strip_doc(inner.body)
                need(ib[0], KGRAD_IN[0], where)
                if not (same(ib[1], KGRAD_IN[1]) or same(ib[1], "y = select_active_dims(y, self.active_dims)")):
                    raise Unsupported(where + ": `%s`" % ast.unparse(ib[1]))
                calls = {"%s(y)" % lname: (("var", "lg"), "pairc"),
                         "self.left.k(x, y)": (("var", "lk"), "pair")}
                if both:
                    calls["%s(y)" % rname] = (("var", "rg"), "pairc")
                    calls["self.right.k(x, y)"] = (("var", "rk"), "pair")
                sc = Scalar(self.base, where + "(" + tag + ")",
                            attrs={"self.right": (("var", "p" if cls == "Pow" else "c"), "scalar")}, calls=calls)
                mid = ib[2:-3]
                for st in mid:
                    sc.assign(st)
                st_exp = ib[-2]
                if not (isinstance(st_exp, ast.Assign) and isinstance(st_exp.value, ast.Call) and st_exp.value.args
                        and isinstance(st_exp.value.args[0], ast.Name)):
                    raise Unsupported(where + ": expand_to_inactive call not recognised")
                v = st_exp.value.args[0].id
                for st, t in zip(ib[-3:], KGRAD_POST):
                    need(st, t.format(v=v), where)
                e, k = sc.env[v]
                if k != "pairc":
                    raise Unsupported(where + ": axis kind of the gradient")
                return e
            if cls == "Pow":
                if not same(rest[-1], "return k_grad"):
                    raise Unsupported(where + ": return")
                e = closure(rest[:-1], False, "power")
                if set(free_vars(e)) != {"p", "lk", "lg"}:
                    raise Unsupported(where + ": operands %r" % free_vars(e))
                self.out.append(definition("Pow_kgrad", [("p", "R"), ("lk", "R"), ("lg", "R")], Emitter({}).go(e)))
            else:
                if len(rest) != 2 or not isinstance(rest[0], ast.If) or not same(rest[1], "return k_grad"):
                    raise Unsupported(where + ": shape of the body")
                need(rest[0].test, "callable(self.right)", where)
                need(rest[0].body[0], "%s = self.right.k_grad(x)" % rname, where)
                e1 = closure(rest[0].body[1:], True, "kernel operand")
                e2 = closure(rest[0].orelse, False, "scalar operand")
                want1 = {"lg", "rg"} if cls == "Add" else {"lk", "rk", "lg", "rg"}
                want2 = {"lg"} if cls == "Add" else {"lg", "c"}
                if set(free_vars(e1)) != want1 or set(free_vars(e2)) != want2:
                    raise Unsupported(where + ": operands %r / %r" % (free_vars(e1), free_vars(e2)))
                self.out.append(definition("%s_kgrad_kk" % cls, [("lk", "R"), ("rk", "R"), ("lg", "R"), ("rg", "R")],
                                           Emitter({}).go(e1)))
                self.out.append(definition("%s_kgrad_kc" % cls, [("c", "R"), ("lg", "R")], Emitter({}).go(e2)))
            self.funcs.append("mellon.base_cov.%s.k_grad" % cls)
        # operators build the nodes
        for op, cls in (("__add__", "Add"), ("__radd__", "Add"), ("__mul__", "Mul"), ("__rmul__", "Mul"), ("__pow__", "Pow")):
            f = self.base.find("Covariance." + op)
            b = strip_doc(f.body)
            if len(b) != 1:
                raise Unsupported("base_cov.py:Covariance.%s" % op)
            need(b[0], "return %s(self, other)" % cls, "base_cov.py:Covariance.%s" % op)
        init = self.base.find("CovariancePair.__init__")
        if params_of(init)[0] != ["self", "left", "right", "active_dims"]:
            raise Unsupported("base_cov.py:CovariancePair.__init__ signature")
        for st, t in zip(strip_doc(init.body), ["super().__init__()", "self.left = left", "self.right = right",
                                                "self.active_dims = active_dims"]):
            need(st, t, "base_cov.py:CovariancePair.__init__")

    def cov_func(self):
        where = "parameters.py:compute_cov_func"
        fn = self.par.find("compute_cov_func")
        if params_of(fn)[0] != ["cov_func_curry", "ls", "ls_time"]:
            raise Unsupported(where + ": signature")
        body = strip_doc(fn.body)
        if len(body) != 2:
            raise Unsupported(where + ": shape of the body")
        need(body[0], "if ls_time is not None:\n    return cov_func_curry(ls=ls, active_dims=slice(None, -1)) * "
                      "cov_func_curry(ls=ls_time, active_dims=-1)", where)
        need(body[1], "return cov_func_curry(ls=ls)", where)
        self.out.append("(* parameters.compute_cov_func matches its template exactly *)\n")
        self.out.append("Definition compute_cov_func (curry : R -> dims -> kexpr) (ls : R) (ls_time : option R) : kexpr :=\n"
                        "  match ls_time with\n"
                        "  | Some lt => KMul (curry ls (DSlice None (Some (-1)%Z) None)) (curry lt (DInt (-1)%Z)) DNone\n"
                        "  | None => curry ls DNone\n  end.\n")
        self.funcs.append("mellon.parameters.compute_cov_func")

    def run(self):
        self.dims()
        self.distance()
        for cls in STATIONARY + ["Linear"]:
            order = self.kernel_k(cls)
            self.kernel_kgrad(cls, order)
        self.algebra()
        hdr = ("(* GENERATED by /verif/translate/pyscalar.py from the working tree of the repository. Do not edit. *)\n"
               "From Coq Require Import Reals List ZArith.\nFrom MellonV Require Import ALists.\nOpen Scope R_scope.\n\n")
        text1 = hdr + "\n".join(self.out)
        self.out = []
        self.cov_func()
        text2 = ("(* GENERATED by /verif/translate/pyscalar.py from the working tree of the repository. Do not edit. *)\n"
                 "From Coq Require Import Reals List ZArith.\nFrom MellonV Require Import ALists AKernels AKExpr.\n"
                 "Open Scope R_scope.\n\n") + "\n".join(self.out)
        return {"gen/AKernels.v": text1, "gen/ACovFunc.v": text2}, self.funcs


# ------------------------------------------------------------------ inference (inference.py, util.mle, parameters.py)
class InferenceTranslator:
    def __init__(self, repo):
        self.inf = Module(repo, "mellon/inference.py")
        self.util = Module(repo, "mellon/util.py")
        self.par = Module(repo, "mellon/parameters.py")
        self.out = []
        self.funcs = []

    def closure_fn(self, mod, name, inner_name, outer_kinds, inner_kinds, where):
        fn = mod.find(name)
        ps, d = params_of(fn)
        if ps != list(outer_kinds) or d:
            raise Unsupported(where + ": signature %r" % ps)
        sc = Scalar(mod, where)
        for p, k in outer_kinds.items():
            sc.bind(p, ("var", p), k)
        body = strip_doc(fn.body)
        if len(body) < 2 or not isinstance(body[-2], ast.FunctionDef) or body[-2].name != inner_name:
            raise Unsupported(where + ": closure %s not found" % inner_name)
        need(body[-1], "return %s" % inner_name, where)
        for st in body[:-2]:
            if isinstance(st, ast.FunctionDef):
                sc.env[st.name] = (("closure", st, None), "closure")
            else:
                sc.assign(st)
        inner = body[-2]
        ips, idf = params_of(inner)
        if ips != list(inner_kinds) or idf:
            raise Unsupported(where + ": closure signature %r" % ips)
        for p, k in inner_kinds.items():
            sc.bind(p, ("var", p), k)
        # closures defined in the outer body see the outer environment at call time
        e, k = sc.run_body(strip_doc(inner.body))
        return e, k, sc

    def run(self):
        U, I, P = self.util, self.inf, self.par
        for mod in (U, I):
            if mod.imports.get("gammaln") != "jax.scipy.special.gammaln" or mod.imports.get("log") != "jax.numpy.log" \
                    or mod.imports.get("pi") != "jax.numpy.pi":
                raise Unsupported("%s: gammaln/log/pi imports" % mod.relpath)
        if I.imports.get("arraysum") != "jax.numpy.sum" or I.imports.get("exp") != "jax.numpy.exp":
            raise Unsupported("inference.py: arraysum/exp imports")
        # ---- mle
        fn = U.find("mle")
        if params_of(fn) != (["nn_distances", "d"], []):
            raise Unsupported("util.py:mle signature")
        sc = Scalar(U, "util.py:mle")
        sc.bind("nn_distances", ("var", "r"), "vec")
        sc.bind("d", ("var", "d"), "vec")
        e, k = sc.run_body(strip_doc(fn.body))
        if k != "vec" or not sc.uses_lgam:
            raise Unsupported("util.py:mle: result kind")
        mle_e = e
        self.out.append(definition("mle", [("r", "R"), ("d", "R")], Emitter({}).go(e)))
        self.funcs.append("mellon.util.mle")
        # ---- _normal
        e, k, sc = self.closure_fn(I, "_normal", "logpdf", {"k": "scalar"}, {"z": "vec"}, "inference.py:_normal")
        if k != "scalar":
            raise Unsupported("inference.py:_normal: result kind")
        self.out.append(definition("normal_logpdf", [("k", "R"), ("z_l", "list R")], Emitter({"z": "vec", "k": "scalar"}).go(e)))
        self.funcs.append("mellon.inference._normal")
        # ---- _nearest_neighbors
        e, k, sc = self.closure_fn(I, "_nearest_neighbors", "logpdf", {"r": "vec", "d": "vec"}, {"log_density": "vec"},
                                   "inference.py:_nearest_neighbors")
        if k != "scalar" or e[0] != "sum" or e[2] != "vec":
            raise Unsupported("inference.py:_nearest_neighbors: the result is not arraysum of an entry-wise expression")
        self.out.append("(* one term of the nearest-neighbour log-likelihood (entry-wise body of arraysum) *)\n")
        self.out.append(definition("nn_term", [("r", "R"), ("d", "R"), ("log_density", "R")], Emitter({}).go(e[1])))
        self.out.append(definition("nn_loglik", [("r_l", "list R"), ("d_l", "list R"), ("log_density_l", "list R")],
                                   "sum_list (map3 nn_term r_l d_l log_density_l)"))
        self.funcs.append("mellon.inference._nearest_neighbors")
        # ---- _multivariate / compute_loss_func (exact patterns)
        fn = I.find("_multivariate")
        b = strip_doc(fn.body)
        if params_of(fn) != (["mu", "L"], []) or len(b) != 2 or not isinstance(b[0], ast.FunctionDef):
            raise Unsupported("inference.py:_multivariate shape")
        need(strip_doc(b[0].body)[0], "return L.dot(z) + mu", "inference.py:_multivariate")
        need(b[1], "return transform", "inference.py:_multivariate")
        self.out.append("(* _multivariate matches `L.dot(z) + mu` exactly; row i of the transform: *)\n")
        self.out.append(definition("transform_row", [("mu", "R"), ("Lrow", "list R"), ("z_l", "list R")], "dot Lrow z_l + mu"))
        self.out.append(definition("transform", [("mu", "R"), ("L", "list (list R)"), ("z_l", "list R")],
                                   "map (fun Lrow => transform_row mu Lrow z_l) L", ret="list R"))
        fn = I.find("compute_loss_func")
        b = strip_doc(fn.body)
        if params_of(fn) != (["nn_distances", "d", "transform", "k"], []) or len(b) != 4 or not isinstance(b[2], ast.FunctionDef):
            raise Unsupported("inference.py:compute_loss_func shape")
        need(b[0], "prior = _normal(k)", "inference.py:compute_loss_func")
        need(b[1], "likelihood = _nearest_neighbors(nn_distances, d)", "inference.py:compute_loss_func")
        need(strip_doc(b[2].body)[0], "return -(prior(z) + likelihood(transform(z)))", "inference.py:compute_loss_func")
        need(b[3], "return loss_func", "inference.py:compute_loss_func")
        self.out.append(definition("loss", [("k", "R"), ("r_l", "list R"), ("d_l", "list R"), ("tr", "list R -> list R"), ("z_l", "list R")],
                                   "- (normal_logpdf k z_l + nn_loglik r_l d_l (tr z_l))"))
        self.funcs += ["mellon.inference._multivariate", "mellon.inference.compute_loss_func"]
        # ---- _poisson
        fn = I.find("_poisson")
        if params_of(fn) != (["distances"], []):
            raise Unsupported("inference.py:_poisson signature")
        body = strip_doc(fn.body)
        need(body[0], "k = distances.shape[1]", "inference.py:_poisson")
        need(body[1], "counts = arange(1, k + 1)", "inference.py:_poisson")
        if I.imports.get("arange") != "jax.numpy.arange" or I.imports.get("sort") != "jax.numpy.sort":
            raise Unsupported("inference.py: arange/sort imports")
        sc = Scalar(I, "inference.py:_poisson")
        sc.bind("distances", ("var", "dist"), "mat")
        sc.bind("counts", ("var", "cnt"), "vec")
        rest = body[2:]
        if not isinstance(rest[-2], ast.FunctionDef) or rest[-2].name != "logpdf":
            raise Unsupported("inference.py:_poisson: closure")
        need(rest[-1], "return logpdf", "inference.py:_poisson")
        for st in rest[:-2]:
            if isinstance(st, ast.FunctionDef):
                sc.env[st.name] = (("closure", st, None), "closure")
            else:
                sc.assign(st)
        inner = rest[-2]
        if params_of(inner) != (["dims", "log_dens"], []):
            raise Unsupported("inference.py:_poisson: closure signature")
        sc.bind("dims", ("var", "dims"), "vec")
        sc.bind("log_dens", ("var", "log_dens"), "vec")
        e, k = sc.run_body(strip_doc(inner.body))
        if k != "scalar" or e[0] != "sum" or e[2] != "mat":
            raise Unsupported("inference.py:_poisson: the result is not arraysum of an entry-wise matrix expression")
        self.out.append("(* entry (i,j) of the k-NN Poisson log-likelihood: dist_sorted = j-th smallest distance of cell i,\n"
                        "   cnt = j (arange(1,k+1)), dims/log_dens = values of cell i *)\n")
        self.out.append(definition("poisson_term", [("dist_sorted", "R"), ("cnt", "R"), ("dims", "R"), ("log_dens", "R")],
                                   Emitter({}).go(e[1])))
        self.out.append(definition("poisson_loglik", [("dist_sorted_l", "list (list R)"), ("cnt_l", "list R"),
                                                      ("dims_l", "list R"), ("log_dens_l", "list R")],
                                   Emitter({"dist_sorted": "mat", "cnt": "row", "dims": "col", "log_dens": "col"}).go(e)))
        self.funcs.append("mellon.inference._poisson")
        # ---- compute_dimensionality_transform (exact pattern)
        fn = I.find("compute_dimensionality_transform")
        b = strip_doc(fn.body)
        if params_of(fn) != (["mu_dim", "mu_dens", "L"], []) or len(b) != 4 or not isinstance(b[2], ast.FunctionDef):
            raise Unsupported("inference.py:compute_dimensionality_transform shape")
        need(b[0], "dim_transform = _multivariate(mu_dim, L)", "inference.py:compute_dimensionality_transform")
        need(b[1], "dens_transform = _multivariate(mu_dens, L)", "inference.py:compute_dimensionality_transform")
        ib = strip_doc(b[2].body)
        need(ib[0], "dims, dens = z[0, :], z[1, :]", "inference.py:compute_dimensionality_transform")
        need(ib[1], "return exp(dim_transform(dims)), dens_transform(dens)", "inference.py:compute_dimensionality_transform")
        self.out.append(definition("dimensionality_transform", [("mu_dim", "R"), ("mu_dens", "R"), ("L", "list (list R)"),
                                                                ("z0", "list R"), ("z1", "list R")],
                                   "(map exp (transform mu_dim L z0), transform mu_dens L z1)", ret="list R * list R"))
        self.funcs.append("mellon.inference.compute_dimensionality_transform")
        # ---- compute_ls / compute_mu
        fn = P.find("compute_ls")
        if params_of(fn) != (["nn_distances"], []):
            raise Unsupported("parameters.py:compute_ls signature")
        for n, q in (("exp", "jax.numpy.exp"), ("log", "jax.numpy.log"), ("quantile", "jax.numpy.quantile"), ("mle", "mellon.util.mle")):
            if P.imports.get(n) != q:
                raise Unsupported("parameters.py: import of %s" % n)
        sc = Scalar(P, "parameters.py:compute_ls")
        sc.bind("nn_distances", ("var", "r"), "vec")
        e, k = sc.run_body(strip_doc(fn.body))
        self.out.append(definition("compute_ls", [("r_l", "list R")], Emitter({"r": "vec"}).go(e)))
        fn = P.find("compute_mu")
        if params_of(fn) != (["nn_distances", "d"], []):
            raise Unsupported("parameters.py:compute_mu signature")
        sc = Scalar(P, "parameters.py:compute_mu")
        sc.bind("nn_distances", ("var", "r"), "vec")
        sc.bind("d", ("var", "d"), "vec")
        sc.calls["mle(nn_distances, d)"] = (("fn", "mle", [("var", "r"), ("var", "d")]), "vec")
        e, k = sc.run_body(strip_doc(fn.body))
        self.out.append(definition("compute_mu", [("r_l", "list R"), ("d_l", "list R")], Emitter({"r": "vec", "d": "vec"}).go(e)))
        self.funcs += ["mellon.parameters.compute_ls", "mellon.parameters.compute_mu"]
        # ---- compute_initial_value target, compute_nn_distances, compute_d (exact patterns)
        fn = P.find("compute_initial_value")
        b = strip_doc(fn.body)
        need(b[0], "target = mle(nn_distances, d) - mu", "parameters.py:compute_initial_value")
        need(b[1], "return Ridge(fit_intercept=False).fit(L, target).coef_", "parameters.py:compute_initial_value")
        self.out.append(definition("initial_value_target", [("r", "R"), ("d", "R"), ("mu", "R")], "mle r d - mu"))
        fn = P.find("compute_nn_distances")
        need(strip_doc(fn.body)[0], "return compute_distances(x, 1)[:, 0]", "parameters.py:compute_nn_distances")
        fn = P.find("compute_distances")
        for st, t in zip(strip_doc(fn.body), [
                "x = ensure_2d(x)",
                "if x.shape[1] >= 20:\n    tree = BallTree(x, metric='euclidean')\nelse:\n    tree = KDTree(x, metric='euclidean')",
                "distances = tree.query(x, k=k + 1)[0][:, 1:]", "return distances"]):
            need(st, t, "parameters.py:compute_distances")
        fn = P.find("compute_d")
        for st, t in zip(strip_doc(fn.body), ["if len(x.shape) < 2:\n    return 1", "return x.shape[1]"]):
            need(st, t, "parameters.py:compute_d")
        self.out.append("(* compute_d matches its template: 1 for a one-dimensional input, the number of columns otherwise *)\n")
        self.out.append("Definition compute_d (ndim : nat) (ncols : nat) : nat := if Nat.ltb ndim 2 then 1%nat else ncols.\n")
        self.funcs += ["mellon.parameters.compute_initial_value", "mellon.parameters.compute_nn_distances",
                       "mellon.parameters.compute_distances", "mellon.parameters.compute_d"]
        hdr = ("(* GENERATED by /verif/translate/pyscalar.py from the working tree of the repository. Do not edit. *)\n"
               "From Coq Require Import Reals List.\nFrom MellonV Require Import ALists.\nOpen Scope R_scope.\n\n"
               "Section Inference.\n(* jax.scipy.special.gammaln, uninterpreted *)\nVariable lgam : R -> R.\n\n")
        return {"gen/AInference.v": hdr + "\n".join(self.out) + "\nEnd Inference.\n"}, self.funcs


def translate_kernels(repo):
    return KernelTranslator(repo).run()


def translate_inference(repo):
    return InferenceTranslator(repo).run()


if __name__ == "__main__":
    import sys
    repo = sys.argv[1] if len(sys.argv) > 1 else "/repo"
    for f in (translate_kernels, translate_inference):
        files, funcs = f(repo)
        for k, v in files.items():
            print("(* ==== %s ==== *)" % k)
            print(v)
        print("(* functions: %s *)" % ", ".join(funcs))
