"""Extension of translate/pylogic.py for C14 / C18 (new module; pylogic.py itself is unchanged).

Adds, still fail-closed:
  * further primitives (coq/lib/PyValExtC14.v): `.index(v)`, `empty`, `a[i]` on NumPy arrays;
  * function-valued oracles: a callee replaced by a Gallina *function parameter* of the generated
    definition (`fun_oracles = {"compute_ls": "ls_of"}`), its arguments ordered by the callee's
    real signature (defaults filled in), so that the wiring of the call is part of the generated term;
  * augmented assignment `x op= e`;
  * synthetic functions: a contiguous slice of the statements of a real function, translated as a
    function of the names it reads (used for the straight-line prologue of a function whose loop
    is modelled by hand);
  * a canonical skeleton (one normalised `ast.unparse` string per statement; docstrings, logger
    calls and the text of exception messages removed) used as a generated structural table.
"""
import ast
import copy

from translate.pylogic import (Translator, FuncTranslator, Unsupported, CALLS, METHODS, coq_string,
                               is_docstring, is_logger_call)

CALLS14 = dict(CALLS)
CALLS14.update({"jax.numpy.empty": ("np_empty", 1)})
METHODS14 = dict(METHODS)
METHODS14.update({"index": ("list_index", 1)})


class FuncTranslator14(FuncTranslator):
    def __init__(self, tr, mod, fn, oracles, drop_params, fun_oracles=None):
        super().__init__(tr, mod, fn, oracles, drop_params)
        self.fun_oracles = dict(fun_oracles or {})     # callee simple name -> (gallina parameter name, arity)
        self.fun_params = []

    def run(self, coq_name):
        text = super().run(coq_name)
        if self.fun_params:
            head = "Definition %s " % coq_name
            assert text.startswith(head)
            fps = " ".join("(%s : %s)" % (n, " -> ".join(["val"] * ar + ["res val"])) for n, ar in self.fun_params)
            text = head + fps + " " + text[len(head):]
        return text

    # ----- statements
    def exc_vars(self):
        """names bound (only) to freshly constructed exception objects: name -> class"""
        if not hasattr(self, "_exc_vars"):
            from translate.pylogic import EXN
            d, bad = {}, set()
            for n in ast.walk(self.fn):
                if isinstance(n, ast.Assign) and len(n.targets) == 1 and isinstance(n.targets[0], ast.Name):
                    v = n.value
                    nm = n.targets[0].id
                    if isinstance(v, ast.Call) and isinstance(v.func, ast.Name) and v.func.id in EXN:
                        if d.get(nm, v.func.id) != v.func.id:
                            bad.add(nm)
                        d[nm] = v.func.id
                    elif nm in d:
                        bad.add(nm)
            self._exc_vars = {k: v for k, v in d.items() if k not in bad}
        return self._exc_vars

    def strip(self, stmts, live_after):
        # `error = ValueError(message)` only feeds `raise error` / logger calls: not a value of the model
        ev = self.exc_vars()
        stmts = [st for st in stmts if not (isinstance(st, ast.Assign) and len(st.targets) == 1
                                           and isinstance(st.targets[0], ast.Name) and st.targets[0].id in ev)]
        return super().strip(stmts, live_after)

    def exn_of(self, e):
        if isinstance(e, ast.Name) and e.id in self.exc_vars():
            return self.exc_vars()[e.id]
        return super().exn_of(e)

    def seq(self, stmts, rest):
        if stmts and isinstance(stmts[0], ast.Assign) and len(stmts[0].targets) == 1 \
                and isinstance(stmts[0].targets[0], ast.Attribute) and isinstance(stmts[0].targets[0].value, ast.Name) \
                and stmts[0].targets[0].value.id == "self" and getattr(self, "is_method", False):
            # self.attr = e : later reads of self.attr see the new value (the parameter self_attr is shadowed)
            st = stmts[0]
            nm = "self_" + st.targets[0].attr
            if nm not in self.extra_params:
                self.extra_params.append(nm)
            tail = list(stmts[1:])
            return "bind %s (fun %s =>\n%s)" % (self.expr(st.value), nm, self.seq(tail, rest))
        if stmts and isinstance(stmts[0], ast.AugAssign):
            st = stmts[0]
            if not isinstance(st.target, ast.Name):
                raise Unsupported("augmented assignment target (line %d)" % st.lineno)
            new = ast.Assign(targets=[ast.Name(id=st.target.id, ctx=ast.Store())],
                             value=ast.BinOp(left=ast.Name(id=st.target.id, ctx=ast.Load()), op=st.op, right=st.value),
                             lineno=st.lineno)
            return super().seq([new] + list(stmts[1:]), rest)
        return super().seq(stmts, rest)

    # ----- expressions
    def subscript(self, e):
        s = e.slice
        plain = not isinstance(s, (ast.Slice, ast.Tuple)) and not (isinstance(s, ast.Constant) and s.value is None) \
            and not (isinstance(s, ast.UnaryOp) and isinstance(s.op, ast.Invert))
        if plain:
            return "(bind2 py_getitem_x %s %s)" % (self.expr(e.value), self.expr(s))
        return super().subscript(e)

    def typename_x(self, t):
        if isinstance(t, ast.Name):
            q = self.tr.qualify(self.mod, t.id, self.locals)
            if q == "numpy.ndarray":
                return "TNumpyNdarray"
        return "TB %s" % self.typename(t) if " " not in self.typename(t) else "TB (%s)" % self.typename(t)

    def call(self, e):
        f = e.func
        if isinstance(f, ast.Name) and f.id not in self.locals and f.id in self.fun_oracles:
            return self.fun_oracle_call(f.id, e)
        if isinstance(f, ast.Name) and f.id == "isinstance" and f.id not in self.locals and len(e.args) == 2:
            t = e.args[1]
            ts = t.elts if isinstance(t, ast.Tuple) else [t]
            if any(isinstance(x, ast.Name) and self.tr.qualify(self.mod, x.id, self.locals) == "numpy.ndarray" for x in ts):
                return "(bind %s (fun x_ => py_isinstance_x x_ [%s]))" % (
                    self.expr(e.args[0]), "; ".join(self.typename_x(x) for x in ts))
        if isinstance(f, ast.Name) and f.id == "sum" and f.id not in self.locals and f.id not in self.mod.imports \
                and f.id not in self.mod.funcs and len(e.args) == 1 and not e.keywords and isinstance(e.args[0], ast.GeneratorExp):
            g = e.args[0]
            lc = ast.ListComp(elt=g.elt, generators=g.generators)
            ast.copy_location(lc, g)
            return "(bind %s py_sum)" % self.listcomp(lc)
        if isinstance(f, ast.Name) and f.id not in self.locals:
            q = self.tr.qualify(self.mod, f.id, self.locals)
            if q in CALLS14 and q not in CALLS:
                g, ar = CALLS14[q]
                if e.keywords or len(e.args) != ar:
                    raise Unsupported("call %s arity/keywords (line %d)" % (q, e.lineno))
                return self.apply(g, [self.expr(a) for a in e.args])
        if isinstance(f, ast.Attribute) and f.attr in METHODS14 and f.attr not in METHODS \
                and not (isinstance(f.value, ast.Name) and f.value.id not in self.locals and f.value.id != "self"):
            g, ar = METHODS14[f.attr]
            if e.keywords or len(e.args) != ar:
                raise Unsupported("method .%s arity" % f.attr)
            return self.apply(g, [self.expr(f.value)] + [self.expr(a) for a in e.args])
        return super().call(e)

    def fun_oracle_call(self, name, e):
        """callee -> function parameter; arguments in the order of the callee's real signature"""
        pname = self.fun_oracles[name]
        q = self.tr.qualify(self.mod, name, self.locals)
        found = self.tr.find_function(q) if q and q.startswith("mellon.") else None
        if found is None:
            raise Unsupported("function oracle %s: callee %s not found" % (name, q))
        m, fn = found
        a = fn.args
        if a.vararg or a.kwarg or a.kwonlyargs or a.posonlyargs:
            raise Unsupported("function oracle %s: signature" % name)
        params = [p.arg for p in a.args]
        defaults = [None] * (len(params) - len(a.defaults)) + list(a.defaults)
        if len(e.args) > len(params):
            raise Unsupported("too many arguments to %s" % name)
        args = {}
        for p, x in zip(params, e.args):
            args[p] = self.expr(x)
        for kw in e.keywords:
            if kw.arg is None or kw.arg not in params or kw.arg in args:
                raise Unsupported("keyword %s to %s" % (kw.arg, name))
            args[kw.arg] = self.expr(kw.value)
        ordered = []
        for p, d in zip(params, defaults):
            if p in args:
                ordered.append(args[p])
            elif d is not None:
                ordered.append(FuncTranslator(self.tr, m, fn, {}, set()).expr(d))
            else:
                raise Unsupported("missing argument %s to %s" % (p, name))
        if (pname, len(params)) not in self.fun_params:
            self.fun_params.append((pname, len(params)))
        return self.apply(pname, ordered)


class Translator14(Translator):
    def translate(self, qual, coq_name=None, oracles=None, drop_params=(), fun_oracles=None):
        if qual in self.done:
            return self.done[qual]
        found = self.find_function(qual)
        if found is None:
            raise Unsupported("function %s not found" % qual)
        mod, fn = found
        coq_name = coq_name or ("py_" + qual.split(".", 1)[1].replace(".", "_"))
        self.done[qual] = coq_name
        ft = FuncTranslator14(self, mod, fn, oracles or {}, set(drop_params), fun_oracles)
        text = ft.run(coq_name)
        self.defs.append((coq_name, text))
        return coq_name

    def translate_slice(self, qual, coq_name, stop_before, returns, fun_oracles=None, stop_pred=None):
        """Translate the statements of function `qual` that precede the first statement of type
        `stop_before` (e.g. ast.For), followed by `return (<returns>...)`, as a function of the
        original parameters."""
        found = self.find_function(qual)
        if found is None:
            raise Unsupported("function %s not found" % qual)
        mod, fn = found
        body = []
        hit = False
        for st in fn.body:
            if (stop_pred(st) if stop_pred is not None else isinstance(st, stop_before)):
                hit = True
                break
            body.append(st)
        if not hit:
            raise Unsupported("%s: no stop statement" % (qual,))
        ret = ast.Return(value=ast.Tuple(elts=[ast.Name(id=n, ctx=ast.Load()) for n in returns], ctx=ast.Load()))
        new = copy.copy(fn)
        new.body = list(body) + [ret]
        ast.fix_missing_locations(new)
        ft = FuncTranslator14(self, mod, new, {}, set(), fun_oracles)
        text = ft.run(coq_name)
        self.defs.append((coq_name, text))
        return coq_name

    def emit(self, header_imports=("PyVal", "PyValExtC14")):
        return super().emit(header_imports=header_imports)


# ---------------------------------------------------------------------------
# canonical skeleton of a block of statements

class _Canon(ast.NodeTransformer):
    def visit_Raise(self, node):
        e = node.exc
        if isinstance(e, ast.Call):
            e = e.func
        return ast.Raise(exc=ast.Call(func=e, args=[], keywords=[]), cause=None)

    def visit_JoinedStr(self, node):
        return ast.Constant(value="")


def skeleton(stmts, depth=0):
    """one string per statement (nested blocks indented with '> '), logger calls / docstrings removed,
    exception messages removed"""
    out = []
    pre = "> " * depth
    for st in stmts:
        if is_docstring(st) or is_logger_call(st):
            continue
        if isinstance(st, ast.If):
            out.append(pre + "if " + ast.unparse(_Canon().visit(copy.deepcopy(st.test))) + ":")
            out += skeleton(st.body, depth + 1)
            if st.orelse:
                out.append(pre + "else:")
                out += skeleton(st.orelse, depth + 1)
        elif isinstance(st, ast.For):
            out.append(pre + "for " + ast.unparse(st.target) + " in " + ast.unparse(st.iter) + ":")
            out += skeleton(st.body, depth + 1)
            if st.orelse:
                raise Unsupported("for-else")
        elif isinstance(st, (ast.While, ast.Try, ast.With, ast.FunctionDef, ast.ClassDef)):
            raise Unsupported("skeleton: statement %s" % type(st).__name__)
        else:
            st2 = _Canon().visit(copy.deepcopy(st))
            ast.fix_missing_locations(st2)
            out.append(pre + " ".join(ast.unparse(st2).split()))
    return out


def coq_string_list(name, items):
    return "Definition %s : list string := [\n  %s]." % (name, ";\n  ".join(coq_string(s) for s in items))
