"""Fail-closed translator: the matrix subset of Mellon -> generic Gallina over MatOps.

Each target is a function (or method) of /repo's working tree together with a
*path*: the static facts that select one straight-line path through it (which
arguments are None, the kind of `sigma`, boolean flags).  The function body is
executed symbolically; every Python assignment becomes a Gallina `let`, every
library call one MatOps operation:

    dot(a, b), a @ b, a.dot(b)            mmul a b          (operand order from the AST)
    a.T                                   mtr a
    cholesky(a)                           chol a
    solve_triangular(t, b, lower=True)    solve_lower t b   (flag from the AST)
    solve_triangular(t, b)                solve_upper t b
    eye(n) * s / s * eye(n)               mscale s (meye n)
    diag(v) / diag(A)                     mdiagv v / mdiagof A   (by the kind of the operand)
    where, square, sqrt, <, + - * /       mmap / mmap2 / mbcol / madd / msub / mscale
    sum(a, axis=0|1)                      msum0 / msum1
    cov_func(a, b)                        Gram-matrix parameter K_a_b
    cov_func.diag(a)                      parameter Kdiag_a
    _eigendecomposition(W, rank=r)        eig_vals p W, eig_vecs p W   (p: dimension parameter, decided by C10's model)
    qr(C, mode="reduced")                 qr_q k C, qr_r k C
    other functions of the repository     translated on demand, specialised to the static facts

Parameter shapes come from the table SPECS; all other shapes are inferred by
Coq, so a dimension error in the source becomes a Coq type error.  Anything
outside the subset raises Unsupported.  Dynamic conditions are accepted only as
`if cond: raise ...` guards; they are listed with each definition (the model
describes the non-raising path).  Not modelled: logger calls, message texts,
docstrings, attributes that are not matrices (n_obs, n_input_features, ...:
recorded in `meta` only).
"""
import ast
import os


class Unsupported(Exception):
    pass


class PathError(Exception):
    """the selected static path raises: (exception class)"""

    def __init__(self, cls, why=""):
        super().__init__("%s %s" % (cls, why))
        self.cls = cls


# ------------------------------------------------------------------ values
class V:
    __slots__ = ("kind", "term", "py", "name", "rows", "items", "shape")

    def __init__(self, kind, term=None, py=None, name=None, rows=None, items=None, shape=None):
        self.shape = shape    # (rows, cols) as Coq nat terms when known (used only to annotate lets)
        self.kind = kind      # none scalar vec mat pts dim cov bool int str dyn tuple self shape
        self.term = term      # Coq text (scalar vec mat dim)
        self.py = py          # python value (bool int str)
        self.name = name      # pts: canonical point-set name
        self.rows = rows      # pts: Coq nat term of the number of rows (or None)
        self.items = items    # tuple / shape

    def __repr__(self):
        return "V(%s,%s)" % (self.kind, self.term if self.term is not None else self.py)


NONE = V("none")


def paren(t):
    return t if t.isidentifier() or t == "_" else "(" + t + ")"


def app(f, *args):
    return f + " " + " ".join(paren(a) for a in args)


# ------------------------------------------------------------------ table
class P:
    """allowed kinds of one parameter and, for matrix kinds, its declared shape"""

    def __init__(self, none=False, scalar=False, vec=None, mat=None, pts=None, flag=False, dim=False, cov=False,
                 abbr=None):
        self.none, self.scalar, self.vec, self.mat, self.pts = none, scalar, vec, mat, pts
        self.flag, self.dim, self.cov, self.abbr = flag, dim, cov, abbr

    def kinds(self):
        k = []
        if self.none:
            k.append("none")
        if self.scalar:
            k.append("scalar")
        if self.vec:
            k.append("vec")
        if self.mat:
            k.append("mat")
        if self.pts:
            k.append("pts")
        if self.flag:
            k += [True, False]
        if self.dim:
            k.append("dim")
        if self.cov:
            k.append("cov")
        return k


SC = dict(scalar=True)
SIGMA = dict(none=True, scalar=True, abbr="s")

SPECS = {
    "mellon.util.stabilize": ("stabilize", dict(A=P(mat=("n", "n")), jitter=P(**SC))),
    "mellon.util.add_variance": ("add_variance", dict(K=P(mat=("n", "n")), M=P(none=True, mat=("n", "k"), abbr="M"),
                                                      jitter=P(**SC))),
    "mellon.conditional._get_L": ("get_L", dict(x=P(pts=("n",)), cov_func=P(cov=True), jitter=P(**SC),
                                                y_cov_factor=P(none=True, mat=("n", "k"), abbr="c"))),
    "mellon.conditional._sigma_to_y_cov_factor": ("sigma_to_y_cov_factor", dict(
        sigma=P(vec=("ns",), **SIGMA), y_cov_factor=P(none=True, mat=("nc", "k"), abbr="c"), n=P(dim=True))),
    "mellon.conditional._FullConditional.__init__": ("FullCond_init", dict(
        x=P(pts=("n",)), y=P(mat=("n", "c")), mu=P(**SC), cov_func=P(cov=True),
        L=P(none=True, mat=("n", "n"), abbr="L"), sigma=P(vec=("n",), **SIGMA), jitter=P(**SC),
        y_cov_factor=P(none=True, mat=("n", "k"), abbr="c"), y_is_mean=P(flag=True, abbr="y"),
        with_uncertainty=P(flag=True, abbr="u"))),
    "mellon.conditional._LandmarksConditional.__init__": ("LandmarksCond_init", dict(
        x=P(pts=("n",)), xu=P(pts=("m",)), y=P(mat=("n", "c")), mu=P(**SC), cov_func=P(cov=True),
        sigma=P(vec=("n",), **SIGMA), jitter=P(**SC),
        y_cov_factor=P(none=True, mat=("n", "k"), abbr="c"), y_is_mean=P(flag=True, abbr="y"),
        with_uncertainty=P(flag=True, abbr="u"))),
    "mellon.conditional._LandmarksConditionalCholesky.__init__": ("LandmarksCholCond_init", dict(
        xu=P(pts=("m",)), pre_transformation=P(mat=("m", "c")), mu=P(**SC), cov_func=P(cov=True), n_obs=P(dim=True),
        L=P(none=True, mat=("m", "m"), abbr="L"), sigma=P(vec=("m",), **SIGMA), jitter=P(**SC),
        y_is_mean=P(flag=True, abbr="y"), with_uncertainty=P(flag=True, abbr="u"))),
    "mellon.decomposition._full_rank": ("full_rank", dict(x=P(pts=("n",)), cov_func=P(cov=True), sigma=P(**SC), jitter=P(**SC))),
    "mellon.decomposition._full_decomposition_low_rank": ("full_decomposition_low_rank", dict(
        x=P(pts=("n",)), cov_func=P(cov=True), rank=P(dim=True), sigma=P(**SC), jitter=P(**SC))),
    "mellon.decomposition._standard_low_rank": ("standard_low_rank", dict(
        x=P(pts=("n",)), cov_func=P(cov=True), xu=P(pts=("m",)), Lp=P(none=True, mat=("m", "m"), abbr="P"),
        sigma=P(**SC), jitter=P(**SC))),
    "mellon.decomposition._modified_low_rank": ("modified_low_rank", dict(
        x=P(pts=("n",)), cov_func=P(cov=True), xu=P(pts=("m",)), rank=P(dim=True), sigma=P(**SC), jitter=P(**SC))),
    "mellon.inference.compute_parameter_cov_factor": ("compute_parameter_cov_factor", dict(
        pre_transformation_std=P(vec=("p",)), L=P(mat=("n", "p")))),
}

# attributes read through `self` by the methods: name -> (kind, shape)
SELF_FULL = dict(cov_func=("cov",), x=("pts", "b"), weights=("mat", "b", "c"), mu=("scalar",), L=("mat", "b", "b"),
                 W=("mat", "b", "k"))
SELF_LM = dict(cov_func=("cov",), landmarks=("pts", "b"), weights=("mat", "b", "c"), mu=("scalar",), L=("mat", "b", "b"),
               W=("mat", "b", "k"))
for _cls, _nm, _self in (("_FullConditional", "FullCond", SELF_FULL), ("_LandmarksConditional", "LandmarksCond", SELF_LM),
                         ("_LandmarksConditionalCholesky", "LandmarksCholCond", SELF_LM)):
    SPECS["mellon.conditional.%s._mean" % _cls] = (_nm + "_mean", dict(self=_self, Xnew=P(pts=("q",))))
    SPECS["mellon.conditional.%s._covariance" % _cls] = (_nm + "_covariance", dict(
        self=_self, Xnew=P(pts=("q",)), diag=P(flag=True, abbr="d")))
    SPECS["mellon.conditional.%s._mean_covariance" % _cls] = (_nm + "_mean_covariance", dict(
        self=_self, Xnew=P(pts=("q",)), diag=P(flag=True, abbr="d")))

IGNORED_CALLS = {"mellon.conditional._check_covariance", "mellon.conditional._check_uncertainty"}
IDENTITY_CALLS = {"mellon.util.ensure_2d"}
MATRIX_ATTRS = {"weights", "L", "W"}


class Module:
    def __init__(self, repo, modname):
        self.modname = modname
        path = os.path.join(repo, modname.replace(".", "/") + ".py")
        with open(path) as f:
            self.tree = ast.parse(f.read())
        self.imports, self.funcs, self.classes = {}, {}, {}
        pkg = modname.rsplit(".", 1)[0]
        for node in self.tree.body:
            if isinstance(node, ast.ImportFrom):
                base = node.module or ""
                if node.level:
                    base = pkg + ("." + base if base else "")
                for a in node.names:
                    self.imports[a.asname or a.name] = base + "." + a.name
            elif isinstance(node, ast.Import):
                for a in node.names:
                    self.imports[a.asname or a.name] = a.name
            elif isinstance(node, ast.FunctionDef):
                self.funcs[node.name] = node
            elif isinstance(node, ast.ClassDef):
                self.classes[node.name] = node


class Def:
    """one generated definition"""

    def __init__(self, name, dims, params, body, ret_kind, guards, src):
        self.name, self.dims, self.params, self.body = name, dims, params, body
        self.ret_kind, self.guards, self.src = ret_kind, guards, src

    def text(self):
        s = "(* %s%s *)\n" % (self.src, "".join("\n   guard (non-raising path assumed): not (%s)" % g for g in self.guards))
        s += "Definition %s" % self.name
        if self.dims:
            s += " {%s : nat}" % " ".join(self.dims)
        for pn, pt in self.params:
            s += " (%s : %s)" % (pn, pt)
        s += " :=\n  %s.\n" % self.body
        return s


class Frame:
    """symbolic execution of one function body"""

    def __init__(self, tr, mod, qual, fn, env, pspec, selfspec=None):
        self.tr, self.mod, self.qual, self.fn = tr, mod, qual, fn
        self.env = env
        self.lets = []          # (name, term)
        self.used = set()
        self.grams = {}         # (a, b) -> param name     a = 'x' or 'diag'
        self.gram_types = {}
        self.selfspec = selfspec
        self.self_reads = {}    # attr -> V
        self.attrs = {}         # attr -> V  (self.attr = e)
        self.guards = []
        self.extra_dims = []    # oracle output dimensions (explicit nat parameters)
        self.returned = None
        self.pspec = pspec
        self.leaf_shape = {}

    # -- helpers
    def fresh(self, base):
        base = base if base.isidentifier() else "t"
        name, i = base, 0
        while name in self.used or name in RESERVED:
            i += 1
            name = "%s%d" % (base, i)
        self.used.add(name)
        return name

    def bind(self, pyname, v):
        """let-bind matrix/vector/scalar values under (a fresh variant of) the Python name"""
        if v.kind in ("mat", "vec", "scalar") and not v.term.isidentifier():
            nm = self.fresh(pyname)
            ann = " : M %s %s" % v.shape if (v.shape and v.kind != "scalar") else (" : S" if v.kind == "scalar" else "")
            self.lets.append((nm + ann, v.term))
            v = V(v.kind, nm, shape=v.shape, items=v.items)
        elif v.kind == "tuple":
            v = V("tuple", items=[self.bind("%s_%d" % (pyname, i), x) for i, x in enumerate(v.items)])
        return v

    def gram(self, a, b):
        key = (a.name, b.name)
        if key not in self.grams:
            nm = "K_%s_%s" % key
            self.used.add(nm)
            self.grams[key] = nm
            self.gram_types[nm] = "M %s %s" % (a.rows, b.rows)
        return V("mat", self.grams[key], shape=(a.rows, b.rows))

    def gram_diag(self, a):
        key = ("diag", a.name)
        if key not in self.grams:
            nm = "Kdiag_%s" % a.name
            self.used.add(nm)
            self.grams[key] = nm
            self.gram_types[nm] = "M %s 1" % a.rows
        return V("vec", self.grams[key], shape=(a.rows, "1"))

    def resolve(self, node):
        """fully qualified name of a callee expression, or None"""
        if isinstance(node, ast.Name):
            if node.id in self.env:
                return None
            if node.id in self.mod.imports:
                return self.mod.imports[node.id]
            if node.id in self.mod.funcs:
                return self.mod.modname + "." + node.id
            return "builtins." + node.id
        return None

    # -- statements
    def run(self, body):
        for st in body:
            if self.returned is not None:
                return
            self.stmt(st)

    def stmt(self, st):
        if isinstance(st, ast.Expr):
            if isinstance(st.value, ast.Constant) and isinstance(st.value.value, str):
                return
            if isinstance(st.value, ast.Call):
                f = st.value.func
                if isinstance(f, ast.Attribute) and isinstance(f.value, ast.Name) and f.value.id == "logger":
                    return
                q = self.resolve(f)
                if q in IGNORED_CALLS:
                    return
                if q in SPECS:      # evaluated for its exceptions only
                    self.ev(st.value)
                    return
                if isinstance(f, ast.Attribute) and f.attr == "add" and isinstance(f.value, ast.Attribute) \
                        and f.value.attr == "_state_variables":
                    return
            raise Unsupported("%s: expression statement %s" % (self.qual, ast.dump(st)[:120]))
        if isinstance(st, ast.Assign):
            if len(st.targets) != 1:
                raise Unsupported("multiple assignment targets")
            tgt = st.targets[0]
            if isinstance(tgt, ast.Attribute) and isinstance(tgt.value, ast.Name) and tgt.value.id == "self":
                if tgt.attr == "_state_variables":
                    return
                v = self.ev(st.value)
                self.attrs[tgt.attr] = v
                return
            v = self.ev(st.value)
            if isinstance(tgt, ast.Name):
                self.env[tgt.id] = self.bind(tgt.id, v)
                return
            if isinstance(tgt, ast.Tuple) and all(isinstance(e, ast.Name) for e in tgt.elts):
                if v.kind != "tuple" or len(v.items) != len(tgt.elts):
                    raise Unsupported("tuple assignment from %r" % v)
                for e, x in zip(tgt.elts, v.items):
                    self.env[e.id] = self.bind(e.id, x)
                return
            raise Unsupported("assignment target %s" % ast.dump(tgt)[:80])
        if isinstance(st, ast.If):
            c = self.ev(st.test)
            if c.kind == "bool":
                self.run(st.body if c.py else st.orelse)
                return
            if c.kind == "dyn":
                body = [s for s in st.body if not self.is_noise(s)]
                if len(body) == 1 and isinstance(body[0], ast.Raise) and not st.orelse:
                    self.guards.append(c.term)
                    return
                raise Unsupported("%s: dynamic condition `%s` outside a raise-guard" % (self.qual, c.term))
            raise Unsupported("if on %r" % c)
        if isinstance(st, ast.Return):
            self.returned = NONE if st.value is None else self.ev(st.value)
            return
        if isinstance(st, ast.Raise):
            cls = "Exception"
            if isinstance(st.exc, ast.Call) and isinstance(st.exc.func, ast.Name):
                cls = st.exc.func.id
            raise PathError(cls, "raised on this static path in %s" % self.qual)
        if isinstance(st, ast.Try):
            # try: Stds = diagonal(sigma)  except ValueError: <body>   (jnp.diag of a 0-d array raises ValueError)
            if len(st.body) == 1 and isinstance(st.body[0], ast.Assign) and len(st.handlers) == 1 \
                    and isinstance(st.handlers[0].type, ast.Name) and st.handlers[0].type.id == "ValueError" \
                    and not st.orelse and not st.finalbody:
                call = st.body[0].value
                if isinstance(call, ast.Call) and self.resolve(call.func) == "jax.numpy.diag" and len(call.args) == 1:
                    a = self.ev(call.args[0])
                    if a.kind == "scalar":
                        self.run(st.handlers[0].body)
                        return
                    if a.kind in ("vec", "mat"):
                        self.stmt(st.body[0])
                        return
                    if a.kind == "none":
                        raise PathError("TypeError", "diag(None)")
            raise Unsupported("%s: try statement" % self.qual)
        if isinstance(st, ast.FunctionDef):
            raise Unsupported("%s: nested function %s" % (self.qual, st.name))
        if isinstance(st, ast.Pass):
            return
        raise Unsupported("%s: statement %s" % (self.qual, type(st).__name__))

    def is_noise(self, s):
        if isinstance(s, ast.Expr) and isinstance(s.value, ast.Call):
            f = s.value.func
            return isinstance(f, ast.Attribute) and isinstance(f.value, ast.Name) and f.value.id == "logger"
        if isinstance(s, ast.Assign) and len(s.targets) == 1 and isinstance(s.targets[0], ast.Name) \
                and s.targets[0].id == "message":
            return True
        return False

    # -- expressions
    def ev(self, n):
        if isinstance(n, ast.Constant):
            if n.value is None:
                return NONE
            if isinstance(n.value, bool):
                return V("bool", py=n.value)
            if isinstance(n.value, int):
                return V("int", py=n.value)
            if isinstance(n.value, str):
                return V("str", py=n.value)
            raise Unsupported("literal %r" % (n.value,))
        if isinstance(n, ast.JoinedStr):
            return V("str", py="")
        if isinstance(n, ast.Name):
            if n.id in self.env:
                return self.env[n.id]
            raise Unsupported("%s: unknown name %s" % (self.qual, n.id))
        if isinstance(n, ast.Set):
            return V("str", py="set")
        if isinstance(n, ast.Attribute):
            if isinstance(n.value, ast.Name) and n.value.id == "self" and "self" not in self.env:
                return self.self_attr(n.attr)
            base = self.ev(n.value)
            if n.attr == "T":
                if base.kind == "mat":
                    return V("mat", app("mtr", base.term), shape=(base.shape[1], base.shape[0]) if base.shape else None)
                raise Unsupported(".T of %r" % base)
            if n.attr == "shape":
                if base.kind == "pts":
                    return V("shape", items=[V("dim", base.rows), V("dim", None)])
                if base.kind == "mat" and base.items:
                    return V("shape", items=[V("dim", base.items[0]), V("dim", base.items[1])])
                if base.kind == "mat" and base.shape:
                    return V("shape", items=[V("dim", base.shape[0]), V("dim", base.shape[1])])
                raise Unsupported(".shape of a %s without a declared shape" % base.kind)
            raise Unsupported("attribute .%s" % n.attr)
        if isinstance(n, ast.Subscript):
            base = self.ev(n.value)
            if base.kind == "shape" and isinstance(n.slice, ast.Constant) and n.slice.value in (0, 1):
                return base.items[n.slice.value]
            if base.kind == "vec" and isinstance(n.slice, ast.Tuple) and len(n.slice.elts) == 2 \
                    and isinstance(n.slice.elts[0], ast.Constant) and n.slice.elts[0].value is None \
                    and isinstance(n.slice.elts[1], ast.Slice) and n.slice.elts[1].lower is None \
                    and n.slice.elts[1].upper is None and n.slice.elts[1].step is None:
                return V("rowvec", base.term, shape=base.shape)     # v[None, :]
            raise Unsupported("subscript %s" % ast.dump(n)[:100])
        if isinstance(n, ast.UnaryOp) and isinstance(n.op, ast.Not):
            v = self.ev(n.operand)
            if v.kind == "bool":
                return V("bool", py=not v.py)
            raise Unsupported("not on %r" % v)
        if isinstance(n, ast.BoolOp):
            dyn = []
            for e in n.values:
                v = self.ev(e)
                if v.kind == "bool":
                    if isinstance(n.op, ast.And) and not v.py:
                        return V("bool", py=False)
                    if isinstance(n.op, ast.Or) and v.py:
                        return V("bool", py=True)
                elif v.kind == "dyn":
                    dyn.append(v.term)
                else:
                    raise Unsupported("boolean operand %r" % v)
            if dyn:
                return V("dyn", (" and " if isinstance(n.op, ast.And) else " or ").join(dyn))
            return V("bool", py=isinstance(n.op, ast.And))
        if isinstance(n, ast.Compare):
            if len(n.ops) == 1 and isinstance(n.ops[0], (ast.Is, ast.IsNot)):
                a, b = self.ev(n.left), self.ev(n.comparators[0])
                if b.kind != "none":
                    raise Unsupported("`is` against something other than None")
                r = a.kind == "none"
                return V("bool", py=r if isinstance(n.ops[0], ast.Is) else not r)
            if len(n.ops) == 1:
                a, b = self.ev(n.left), self.ev(n.comparators[0])
                if a.kind == "int" and b.kind == "int":
                    op = n.ops[0]
                    r = {ast.Eq: a.py == b.py, ast.NotEq: a.py != b.py, ast.Lt: a.py < b.py, ast.Gt: a.py > b.py,
                         ast.LtE: a.py <= b.py, ast.GtE: a.py >= b.py}.get(type(op))
                    if r is None:
                        raise Unsupported("comparison")
                    return V("bool", py=r)
            lifted = self.lift(n)
            return self.materialize(lifted)
        if isinstance(n, ast.BinOp):
            return self.binop(n)
        if isinstance(n, ast.Call):
            return self.call(n)
        if isinstance(n, ast.Tuple):
            return V("tuple", items=[self.ev(e) for e in n.elts])
        raise Unsupported("%s: expression %s" % (self.qual, type(n).__name__))

    def self_attr(self, attr):
        if self.selfspec is None:
            raise Unsupported("%s: read of self.%s" % (self.qual, attr))
        if attr not in self.selfspec:
            raise Unsupported("%s: self.%s is not in the table" % (self.qual, attr))
        if attr not in self.self_reads:
            sp = self.selfspec[attr]
            if sp[0] == "cov":
                v = V("cov")
            elif sp[0] == "pts":
                v = V("pts", name=attr if attr != "landmarks" else "xu", rows=sp[1])
            elif sp[0] == "scalar":
                self.used.add(attr)
                v = V("scalar", attr)
            else:
                self.used.add(attr)
                v = V("mat", attr, shape=(sp[1], sp[2]))
            self.self_reads[attr] = v
        return self.self_reads[attr]

    # elementwise machinery ------------------------------------------------
    # lifted value: (leaves [matrix terms], body over t0 t1 .., kind of the leaves or None)
    def lift(self, n):
        if isinstance(n, ast.Constant) and isinstance(n.value, int) and not isinstance(n.value, bool):
            if n.value == 0:
                return ([], "s0", None, False)
            if n.value == 1:
                return ([], "s1", None, False)
            raise Unsupported("numeric literal %r" % n.value)
        if isinstance(n, ast.BinOp) and type(n.op) in SOPS:
            a, b = self.lift(n.left), self.lift(n.right)
            return self.lift2(SOPS[type(n.op)], a, b, False)
        if isinstance(n, ast.Compare) and len(n.ops) == 1 and isinstance(n.ops[0], (ast.Lt, ast.Gt)):
            a, b = self.lift(n.left), self.lift(n.comparators[0])
            if isinstance(n.ops[0], ast.Gt):
                return self.lift2("sltb", b, a, True, swapped=True)
            return self.lift2("sltb", a, b, True)
        if isinstance(n, ast.Call):
            q = self.resolve(n.func)
            if q == "jax.numpy.where" and len(n.args) == 3 and not n.keywords:
                c, a, b = (self.lift(x) for x in n.args)
                if not c[3]:
                    raise Unsupported("where on a non-boolean condition")
                leaves, terms, kind = merge([c, a, b])
                return (leaves, app("sif", *terms), kind, False)
            if q == "jax.numpy.square" and len(n.args) == 1:
                a = self.lift(n.args[0])
                return (a[0], app("smul", a[1], a[1]), a[2], False)
            if q == "jax.numpy.sqrt" and len(n.args) == 1:
                a = self.lift(n.args[0])
                return (a[0], app("ssqrt", a[1]), a[2], False)
        v = self.ev(n)
        if v.kind == "scalar":
            return ([], v.term, None, False)
        if v.kind in ("vec", "mat"):
            self.leaf_shape[v.term] = v.shape
            return ([v.term], "t0", v.kind, False)
        raise Unsupported("element-wise operand %r" % v)

    def lift2(self, op, a, b, isbool, swapped=False):
        leaves, terms, kind = merge([a, b])
        return (leaves, app(op, *terms), kind, isbool)

    def materialize(self, l):
        leaves, body, kind, isbool = l
        if isbool:
            if not leaves:
                return V("sbool", body)
            return V("dyn", body)
        if not leaves:
            return V("scalar", body)
        sh = self.leaf_shape.get(leaves[0]) or (self.leaf_shape.get(leaves[1]) if len(leaves) > 1 else None)
        if len(leaves) == 1:
            return V(kind, "mmap (fun t0 => %s) %s" % (body, paren(leaves[0])), shape=sh)
        if len(leaves) == 2:
            return V(kind, "mmap2 (fun t0 t1 => %s) %s %s" % (body, paren(leaves[0]), paren(leaves[1])), shape=sh)
        raise Unsupported("element-wise expression over %d arrays" % len(leaves))

    def binop(self, n):
        if isinstance(n.op, ast.MatMult):
            return self.matmul(self.ev(n.left), self.ev(n.right))
        if type(n.op) not in SOPS:
            raise Unsupported("operator %s" % type(n.op).__name__)
        a, b = self.ev(n.left), self.ev(n.right)
        op = type(n.op)
        lit = {0: "s0", 1: "s1"}
        if a.kind == "int" and a.py in lit:
            a = V("scalar", lit[a.py])
        if b.kind == "int" and b.py in lit:
            b = V("scalar", lit[b.py])
        ks = (a.kind, b.kind)
        sh = a.shape or b.shape

        def const(t):
            return "mconst %s %s %s" % ((sh[0], sh[1], paren(t)) if sh else ("_", "_", paren(t)))
        if ks == ("scalar", "scalar"):
            return V("scalar", app(SOPS[op], a.term, b.term))
        if a.kind in ("mat", "vec") and b.kind == a.kind:
            if op is ast.Add:
                return V(a.kind, app("madd", a.term, b.term), shape=sh)
            if op is ast.Sub:
                return V(a.kind, app("msub", a.term, b.term), shape=sh)
            return V(a.kind, "mmap2 %s %s %s" % (SOPS[op], paren(a.term), paren(b.term)), shape=sh)
        if a.kind in ("mat", "vec") and b.kind == "scalar":
            if op is ast.Mult:
                return V(a.kind, app("mscale", b.term, a.term), shape=sh)
            if op is ast.Add:
                return V(a.kind, app("madd", a.term, const(b.term)), shape=sh)
            if op is ast.Sub:
                return V(a.kind, app("msub", a.term, const(b.term)), shape=sh)
            return V(a.kind, "mmap (fun t0 => sdiv t0 %s) %s" % (paren(b.term), paren(a.term)), shape=sh)
        if a.kind == "scalar" and b.kind in ("mat", "vec"):
            if op is ast.Mult:
                return V(b.kind, app("mscale", a.term, b.term), shape=sh)
            if op is ast.Add:
                return V(b.kind, app("madd", const(a.term), b.term), shape=sh)
            if op is ast.Sub:
                return V(b.kind, app("msub", const(a.term), b.term), shape=sh)
            return V(b.kind, "mmap (fun t0 => sdiv %s t0) %s" % (paren(a.term), paren(b.term)), shape=sh)
        if a.kind == "mat" and b.kind in ("vec", "rowvec") and op in (ast.Mult, ast.Div):
            return V("mat", "mbcol %s %s %s" % (SOPS[op], paren(a.term), paren(b.term)), shape=a.shape)
        raise Unsupported("%s: %s between %s and %s" % (self.qual, type(n.op).__name__, a.kind, b.kind))

    def matmul(self, a, b):
        if a.kind == "mat" and b.kind in ("mat", "vec"):
            return V(b.kind, app("mmul", a.term, b.term), shape=(a.shape[0], b.shape[1]) if (a.shape and b.shape) else None)
        if a.kind == "none" or b.kind == "none":
            raise PathError("TypeError", "dot with None")
        raise Unsupported("dot of %s and %s" % (a.kind, b.kind))

    # calls ------------------------------------------------------------------
    def call(self, n):
        f = n.func
        kw = {k.arg: k.value for k in n.keywords}
        if None in kw:
            raise Unsupported("**kwargs")
        # methods
        if isinstance(f, ast.Attribute):
            if isinstance(f.value, ast.Name) and f.value.id == "logger":
                return NONE
            base = self.ev(f.value)
            if base.kind == "cov" and f.attr == "diag" and len(n.args) == 1 and not kw:
                a = self.ev(n.args[0])
                if a.kind != "pts":
                    raise Unsupported("cov_func.diag of %r" % a)
                return self.gram_diag(a)
            if f.attr == "dot" and len(n.args) == 1 and not kw:
                return self.matmul(base, self.ev(n.args[0]))
            raise Unsupported("method .%s" % f.attr)
        if isinstance(f, ast.Name) and f.id in self.env:
            callee = self.env[f.id]
            if callee.kind == "cov" and len(n.args) == 2 and not kw:
                a, b = self.ev(n.args[0]), self.ev(n.args[1])
                if a.kind != "pts" or b.kind != "pts":
                    raise Unsupported("cov_func of %r, %r" % (a, b))
                return self.gram(a, b)
            raise Unsupported("call of local %s" % f.id)
        q = self.resolve(f)
        args = n.args
        if q in ("jax.numpy.dot",) and len(args) == 2 and not kw:
            return self.matmul(self.ev(args[0]), self.ev(args[1]))
        if q == "jax.numpy.linalg.cholesky" and len(args) == 1 and not kw:
            a = self.ev(args[0])
            if a.kind != "mat":
                raise Unsupported("cholesky of %r" % a)
            return V("mat", app("chol", a.term), shape=a.shape)
        if q == "jax.scipy.linalg.solve_triangular" and len(args) == 2 and set(kw) <= {"lower"}:
            lower = False
            if "lower" in kw:
                lv = kw["lower"]
                if not (isinstance(lv, ast.Constant) and isinstance(lv.value, bool)):
                    raise Unsupported("solve_triangular: non-literal lower=")
                lower = lv.value
            t, b = self.ev(args[0]), self.ev(args[1])
            if b.kind == "none":
                raise PathError("TypeError", "solve_triangular with None")
            if t.kind != "mat" or b.kind not in ("mat", "vec"):
                raise Unsupported("solve_triangular of %r, %r" % (t, b))
            return V(b.kind, app("solve_lower" if lower else "solve_upper", t.term, b.term), shape=b.shape)
        if q == "jax.numpy.eye" and len(args) == 1 and not kw:
            d = self.ev(args[0])
            if d.kind != "dim" or d.term is None:
                raise Unsupported("eye of %r" % d)
            return V("mat", app("meye", d.term), shape=(d.term, d.term))
        if q == "jax.numpy.diag" and len(args) == 1 and not kw:
            a = self.ev(args[0])
            if a.kind == "vec":
                return V("mat", app("mdiagv", a.term), shape=(a.shape[0], a.shape[0]) if a.shape else None)
            if a.kind == "mat":
                return V("vec", app("mdiagof", a.term), shape=(a.shape[0], "1") if a.shape else None)
            if a.kind == "none":
                raise PathError("TypeError", "diag(None)")
            raise Unsupported("diag of %r" % a)
        if q == "jax.numpy.sum" and len(args) == 1 and set(kw) == {"axis"}:
            ax = kw["axis"]
            a = self.ev(args[0])
            if not (isinstance(ax, ast.Constant) and ax.value in (0, 1)) or a.kind != "mat":
                raise Unsupported("sum(axis=...) form")
            return V("vec", app("msum0" if ax.value == 0 else "msum1", a.term),
                     shape=((a.shape[1] if ax.value == 0 else a.shape[0]), "1") if a.shape else None)
        if q in ("jax.numpy.where", "jax.numpy.square", "jax.numpy.sqrt"):
            return self.materialize(self.lift(n))
        if q == "jax.numpy.ndim" and len(args) == 1 and not kw:
            a = self.ev(args[0])
            d = {"scalar": 0, "vec": 1, "mat": 2}.get(a.kind)
            if d is None:
                raise Unsupported("ndim of %r" % a)
            return V("int", py=d)
        if q in ("jax.numpy.any", "jax.numpy.isnan") and len(args) == 1 and not kw:
            a = self.ev(args[0])
            return V("dyn", "%s(%s)" % (q.rsplit(".", 1)[1], a.term if a.term else a.kind))
        if q in IDENTITY_CALLS and len(args) == 1 and not kw:
            a = self.ev(args[0])
            if a.kind != "pts":
                raise Unsupported("%s of %r" % (q, a))
            return a
        if q == "jax.numpy.linalg.qr" and len(args) == 1 and set(kw) == {"mode"} \
                and isinstance(kw["mode"], ast.Constant) and kw["mode"].value == "reduced":
            a = self.ev(args[0])
            if a.kind != "mat":
                raise Unsupported("qr of %r" % a)
            k = self.fresh("kq")
            self.extra_dims.append(k)
            return V("tuple", items=[V("mat", "qr_q %s %s" % (k, paren(a.term)), shape=(a.shape[0], k) if a.shape else None),
                                     V("mat", "qr_r %s %s" % (k, paren(a.term)), shape=(k, a.shape[1]) if a.shape else None)])
        if q == "mellon.decomposition._eigendecomposition" and len(args) == 1 and set(kw) == {"rank"}:
            a = self.ev(args[0])
            r = self.ev(kw["rank"])
            if a.kind != "mat" or r.kind != "dim":
                raise Unsupported("_eigendecomposition of %r rank %r" % (a, r))
            p = self.fresh("p")
            self.extra_dims.append(p)
            return V("tuple", items=[V("vec", "eig_vals %s %s" % (p, paren(a.term)), shape=(p, "1")),
                                     V("mat", "eig_vecs %s %s" % (p, paren(a.term)), shape=(a.shape[0], p) if a.shape else None)])
        if q and q.startswith("mellon.") and q in SPECS:
            return self.repo_call(q, n)
        raise Unsupported("%s: call of %s" % (self.qual, q or ast.dump(f)[:60]))

    def repo_call(self, q, n):
        mod, fn = self.tr.find(q)
        names = [a.arg for a in fn.args.args]
        defaults = dict(zip(names[len(names) - len(fn.args.defaults):], fn.args.defaults))
        given = {}
        for nm, a in zip(names, n.args):
            given[nm] = self.ev(a)
        for k in n.keywords:
            if k.arg in given or k.arg not in names:
                raise Unsupported("bad keyword %s in call of %s" % (k.arg, q))
            given[k.arg] = self.ev(k.value)
        for nm in names:
            if nm not in given:
                if nm not in defaults:
                    raise Unsupported("missing argument %s in call of %s" % (nm, q))
                d = defaults[nm]
                if isinstance(d, ast.Constant) and d.value is None:
                    given[nm] = NONE
                else:
                    raise Unsupported("non-None default for %s in call of %s (pass it explicitly)" % (nm, q))
        d = self.tr.specialize(q, given)
        # actual arguments in the callee's parameter order
        actual = []
        for kind, key in d.origin:
            if kind == "gram":
                a, b = key
                if a == "diag":
                    actual.append(self.gram_diag(given[d.ptsmap[b]]).term)
                else:
                    actual.append(self.gram(given[d.ptsmap[a]], given[d.ptsmap[b]]).term)
            elif kind == "extra":
                nm = self.fresh(key)
                self.extra_dims.append(nm)
                actual.append(nm)
            else:
                v = given[key]
                if v.kind == "dim" and v.term is None:
                    raise Unsupported("dimension argument without a declared size")
                actual.append(v.term)
        self.guards += ["%s: %s" % (d.name, g) for g in d.guards]
        term = app(d.name, *actual) if actual else d.name
        # return shape: substitute the callee's dimension names by the caller's
        sub, ok = {}, True
        for (kind, key), (pn, pt) in zip(d.origin, d.params):
            av = None
            if kind == "param":
                av = given[key]
            elif kind == "gram":
                a_, b_ = key
                av = self.gram_diag(given[d.ptsmap[b_]]) if a_ == "diag" else self.gram(given[d.ptsmap[a_]], given[d.ptsmap[b_]])
            if av is None:
                continue
            if pt == "nat" and av.kind == "dim":
                sub[pn] = av.term
            elif pt.startswith("M ") and av.shape:
                _m, r_, c_ = pt.split()
                sub[r_], sub[c_] = av.shape[0], av.shape[1]
        shape = None
        if d.ret_shape:
            shape = tuple(sub.get(x, x if x.isdigit() else None) for x in d.ret_shape)
            if None in shape:
                shape = None
        return V(d.ret_kind, term, shape=shape)

    def bind_tuple(self, d, term):
        raise Unsupported("tuple-valued repository function %s" % d.name)


SOPS = {ast.Add: "sadd", ast.Sub: "ssub", ast.Mult: "smul", ast.Div: "sdiv"}
RESERVED = {"S", "M", "fst", "snd", "s0", "s1", "chol", "let", "in", "fun", "if", "then", "else", "at", "as", "end",
            "match", "with", "return", "Type", "Set", "Prop", "forall", "exists", "fix", "cofix", "where"}


def merge(ls):
    """merge lifted operands: common leaf list, bodies renamed accordingly"""
    leaves, kind, terms = [], None, []
    for (lv, body, k, _b) in ls:
        if k is not None:
            if kind is not None and kind != k:
                raise Unsupported("element-wise mix of vector and matrix")
            kind = k
        ren = {}
        for i, t in enumerate(lv):
            if t not in leaves:
                leaves.append(t)
            ren["t%d" % i] = "u%d" % leaves.index(t)
        for a, b in ren.items():
            body = replace_ident(body, a, b)
        terms.append(body)
    terms = [replace_prefix(t) for t in terms]
    return leaves, terms, kind


def replace_ident(s, a, b):
    import re
    return re.sub(r"\b%s\b" % a, b, s)


def replace_prefix(s):
    import re
    return re.sub(r"\bu(\d+)\b", r"t\1", s)


class Translator:
    def __init__(self, repo):
        self.repo = repo
        self.mods = {}
        self.defs = []            # in dependency order
        self.by_key = {}
        self.meta = {}
        self.path_errors = {}
        self.sources = []

    def module(self, modname):
        if modname not in self.mods:
            self.mods[modname] = Module(self.repo, modname)
        return self.mods[modname]

    def find(self, q):
        parts = q.split(".")
        # module.function or module.Class.method
        for cut in (len(parts) - 1, len(parts) - 2):
            modname = ".".join(parts[:cut])
            if os.path.exists(os.path.join(self.repo, modname.replace(".", "/") + ".py")):
                mod = self.module(modname)
                rest = parts[cut:]
                if len(rest) == 1 and rest[0] in mod.funcs:
                    return mod, mod.funcs[rest[0]]
                if len(rest) == 2 and rest[0] in mod.classes:
                    for node in mod.classes[rest[0]].body:
                        if isinstance(node, ast.FunctionDef) and node.name == rest[1]:
                            return mod, node
        raise Unsupported("cannot find %s in the working tree" % q)

    def specialize(self, q, given, want=None):
        """given: param name -> V (caller's values) ; returns the Def (translating on demand)"""
        base, spec = SPECS[q]
        mod, fn = self.find(q)
        names = [a.arg for a in fn.args.args]
        if fn.args.vararg or fn.args.kwarg or fn.args.kwonlyargs:
            raise Unsupported("%s: signature form" % q)
        is_method = names and names[0] == "self"
        pnames = names[1:] if is_method else names
        if set(pnames) != set(k for k in spec if k != "self"):
            raise Unsupported("%s: signature changed: %s vs table %s" % (q, pnames, sorted(spec)))
        env, suffix, key = {}, [], [q]
        params = []      # (origin kind, key, coq name, coq type)
        dims = []
        ptsmap = {}

        def usedim(d):
            if d not in dims and not str(d).isdigit():
                dims.append(d)
        for nm0 in pnames:
            ps = spec[nm0]
            v = given[nm0]
            nm = nm0 + "_" if nm0 in RESERVED else nm0
            k = v.py if v.kind == "bool" else v.kind
            if k == "rowvec":
                k = "vec"
            if k not in ps.kinds():
                raise Unsupported("%s: argument %s has kind %s, table allows %s" % (q, nm, k, ps.kinds()))
            key.append((nm0, k))
            if ps.abbr:
                suffix.append(ps.abbr + {"none": "N", "scalar": "S", "vec": "V", "mat": "M", True: "T", False: "F"}[k])
            if k == "none":
                env[nm0] = NONE
            elif k in (True, False):
                env[nm0] = V("bool", py=k)
            elif k == "cov":
                env[nm0] = V("cov")
            elif k == "pts":
                env[nm0] = V("pts", name=nm0, rows=ps.pts[0])
                usedim(ps.pts[0])
                ptsmap[nm0] = nm0
            elif k == "dim":
                env[nm0] = V("dim", nm)
                params.append(("param", nm0, nm, "nat"))
            elif k == "scalar":
                env[nm0] = V("scalar", nm)
                params.append(("param", nm0, nm, "S"))
            elif k == "vec":
                env[nm0] = V("vec", nm, shape=(ps.vec[0], "1"))
                usedim(ps.vec[0])
                params.append(("param", nm0, nm, "M %s 1" % ps.vec[0]))
            elif k == "mat":
                env[nm0] = V("mat", nm, items=ps.mat, shape=ps.mat)
                usedim(ps.mat[0])
                usedim(ps.mat[1])
                params.append(("param", nm0, nm, "M %s %s" % ps.mat))
        key = tuple(key) + ((tuple(want),) if want else ())
        if key in self.by_key:
            return self.by_key[key]
        if key in self.path_errors:
            raise self.path_errors[key]
        name = base + ("_" + "_".join(suffix) if suffix else "")
        fr = Frame(self, mod, q, fn, env, spec, selfspec=spec.get("self"))
        for _o, _k, pn, _t in params:
            fr.used.add(pn)
        for d in dims:
            fr.used.add(d)
        fr.used |= {"b", "c", "k", "q", "n", "m"}
        try:
            fr.run(fn.body)
        except PathError as e:
            self.path_errors[key] = e
            raise
        src = "%s  [%s]" % (q, ", ".join("%s=%s" % (a, b) for a, b in key[1:1 + len(pnames)] if b not in ("cov",)))
        if q not in self.sources:
            self.sources.append(q)
        # self attributes read -> parameters
        selfparams = []
        for attr in sorted(fr.self_reads):
            v = fr.self_reads[attr]
            sp = spec["self"][attr]
            if v.kind == "scalar":
                selfparams.append(("self", attr, attr, "S"))
            elif v.kind == "mat":
                selfparams.append(("self", attr, attr, "M %s %s" % (sp[1], sp[2])))
                usedim(sp[1])
                usedim(sp[2])
            elif v.kind == "pts":
                usedim(sp[1])
                ptsmap[v.name] = attr
        gramparams = [("gram", k, fr.grams[k], fr.gram_types[fr.grams[k]]) for k in sorted(fr.grams)]
        extra = [("extra", e, e, "nat") for e in fr.extra_dims]
        allparams = extra + gramparams + selfparams + params
        # only dimensions that occur in a parameter type can be implicit
        occurring = set()
        for _o, _k, _n, t in allparams:
            occurring |= set(t.split())
        dims = [d for d in dims if d in occurring]

        def emit(result, nm_, kind, shape=None):
            body = result
            for ln, lt in reversed(needed_lets(fr.lets, result)):
                body = "let %s := %s in\n  %s" % (ln, lt, body)
            used_params = [(o, k_, pn, pt) for (o, k_, pn, pt) in allparams]
            d = Def(nm_, dims, [(pn, pt) for (_o, _k, pn, pt) in used_params], body, kind, list(fr.guards), src)
            d.origin = [(o, k_) for (o, k_, _pn, _pt) in used_params]
            d.ptsmap = ptsmap
            d.param_names = [pn for (_o, _k, pn, _pt) in used_params]
            d.ret_shape = shape
            self.defs.append(d)
            self.meta[nm_] = dict(params=[(pn, pt) for (_o, _k, pn, pt) in used_params], dims=dims, guards=list(fr.guards),
                                  kind=kind, source=src)
            return d

        if fn.name == "__init__":
            out = {}
            info = {}
            for attr, v in fr.attrs.items():
                if attr in MATRIX_ATTRS and (want is None or attr in want):
                    if v.kind == "none":
                        raise PathError("TypeError", "attribute %s is None" % attr)
                    out[attr] = emit(v.term, "%s_%s" % (name, attr), v.kind, v.shape)
                else:
                    info[attr] = v.term if v.term else (v.name or v.kind)
            self.meta[name] = dict(attrs=sorted(fr.attrs), other=info)
            self.by_key[key] = out
            return out
        r = fr.returned
        if r is None:
            raise Unsupported("%s: no return on this path" % q)
        if r.kind not in ("mat", "vec", "scalar"):
            raise Unsupported("%s: returns %r" % (q, r))
        d = emit(r.term, name, r.kind, r.shape)
        self.by_key[key] = d
        return d

    # public entry: translate one path of one target
    def target(self, q, want=None, **path):
        base, spec = SPECS[q]
        given = {}
        for nm, ps in spec.items():
            if nm == "self":
                continue
            if nm in path:
                k = path[nm]
            else:
                ks = [k for k in ps.kinds() if k != "none"]
                if len(ks) != 1:
                    raise Unsupported("target %s: choose a kind for %s" % (q, nm))
                k = ks[0]
            if k == "none":
                given[nm] = NONE
            elif k in (True, False):
                given[nm] = V("bool", py=k)
            elif k == "pts":
                given[nm] = V("pts", name=nm, rows=ps.pts[0])
            elif k == "dim":
                given[nm] = V("dim", nm)
            else:
                given[nm] = V(k, nm)
        return self.specialize(q, given, want)

    def class_table(self, modname="mellon.conditional"):
        """public predictor classes: (name, bases) with bodies that are only `pass`"""
        mod = self.module(modname)
        rows = []
        for cname, node in mod.classes.items():
            if cname.startswith("_"):
                continue
            if not all(isinstance(s, ast.Pass) for s in node.body):
                raise Unsupported("class %s has a non-empty body" % cname)
            bases = [b.id for b in node.bases if isinstance(b, ast.Name)]
            if len(bases) != len(node.bases):
                raise Unsupported("class %s: base form" % cname)
            rows.append((cname, bases))
        return rows

    def emit(self, extra=""):
        out = ["(* GENERATED by /verif/translate/pymatrix.py from the working tree of the repository - do not edit. *)",
               "From Coq Require Import List String.", "From MellonV Require Import MatOps.", "Import ListNotations.",
               "Set Implicit Arguments.", "",
               "Section Gen.", "Context {S : Type} {M : nat -> nat -> Type} {ops : MatOps S M}.", ""]
        for d in self.defs:
            out.append(d.text())
        out.append("End Gen.")
        out.append(extra)
        return "\n".join(out) + "\n"


def needed_lets(lets, result):
    """the let-bindings the result depends on, in order"""
    import re
    need, out = set(re.findall(r"[A-Za-z_][A-Za-z_0-9']*", result)), []
    for ln, lt in reversed(lets):
        if ln.split(" :")[0] in need:
            out.append((ln, lt))
            need |= set(re.findall(r"[A-Za-z_][A-Za-z_0-9']*", lt + " " + ln))
    out.reverse()
    return out
