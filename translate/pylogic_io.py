"""pylogic extension for file-codec logic (C07): `with <opener>(path, mode) as f: ...`, augmented
assignment on strings, str(), .endswith(), module attributes used as values (gzip.open).
The translated function returns, instead of None, the pair (opener, path) of the LAST `with` it executes."""
import ast

from .pylogic import FuncTranslator, Translator, Unsupported, coq_string


class IOFuncTranslator(FuncTranslator):
    def seq(self, stmts, rest):
        if stmts:
            st, tail = stmts[0], stmts[1:]
            k = (lambda: self.seq(tail, rest))
            if isinstance(st, ast.With):
                if len(st.items) != 1 or not isinstance(st.items[0].context_expr, ast.Call):
                    raise Unsupported("with statement shape (line %d)" % st.lineno)
                call = st.items[0].context_expr
                if len(call.args) != 2 or call.keywords or not isinstance(call.args[1], ast.Constant):
                    raise Unsupported("opener call shape (line %d)" % st.lineno)
                opener = self.opener(call.func)
                mode = call.args[1].value
                # the body may only move text between the file and a local (f.write(x) / x = f.read())
                for b in st.body:
                    ok = (isinstance(b, ast.Expr) and isinstance(b.value, ast.Call) and isinstance(b.value.func, ast.Attribute)
                          and b.value.func.attr == "write") or \
                         (isinstance(b, ast.Assign) and isinstance(b.value, ast.Call) and isinstance(b.value.func, ast.Attribute)
                          and b.value.func.attr == "read")
                    if not ok:
                        raise Unsupported("with body (line %d)" % b.lineno)
                self.saw_with = True
                return "bind (py_tuple [%s; (Ok (VStr %s)); %s]) (fun io_ =>\n%s)" % (
                    opener, coq_string(mode), self.expr(call.args[0]), k())
            if isinstance(st, ast.AugAssign) and isinstance(st.op, ast.Add) and isinstance(st.target, ast.Name):
                return "bind (bind2 py_add_s (Ok %s) %s) (fun %s =>\n%s)" % (st.target.id, self.expr(st.value), st.target.id, k())
            if isinstance(st, ast.Return) and getattr(self, "saw_with", False):
                return "Ok io_"
        elif getattr(self, "saw_with", False) and rest is None:
            return "Ok io_"
        return super().seq(stmts, rest)

    def opener(self, f):
        if isinstance(f, ast.Name) and f.id in self.locals:
            return "(Ok %s)" % f.id
        return self.modattr(f)

    def modattr(self, f):
        if isinstance(f, ast.Name) and f.id == "open" and "open" not in self.mod.imports:
            return '(Ok (VStr "open"))'
        if isinstance(f, ast.Attribute) and isinstance(f.value, ast.Name) and f.value.id in self.mod.imports \
                and self.mod.imports[f.value.id] in ("gzip", "bz2") and f.attr == "open":
            return "(Ok (VStr %s))" % coq_string(self.mod.imports[f.value.id] + ".open")
        raise Unsupported("opener %s" % ast.dump(f))

    def expr(self, e):
        if isinstance(e, ast.Call) and isinstance(e.func, ast.Name) and e.func.id == "str" and "str" not in self.locals \
                and len(e.args) == 1 and not e.keywords:
            return "(bind %s py_str)" % super().expr(e.args[0])
        if isinstance(e, ast.Call) and isinstance(e.func, ast.Attribute) and e.func.attr == "endswith" and len(e.args) == 1:
            return "(bind2 str_endswith %s %s)" % (self.expr(e.func.value), self.expr(e.args[0]))
        if isinstance(e, ast.Attribute) or (isinstance(e, ast.Name) and e.id == "open" and e.id not in self.locals):
            try:
                return self.modattr(e)
            except Unsupported:
                pass
        if isinstance(e, ast.Call) and isinstance(e.func, ast.Attribute) and isinstance(e.func.value, ast.Name) \
                and e.func.value.id in ("json", "cls", "self") and e.func.attr in ("dumps", "from_json_str", "to_dict"):
            return '(Ok (VStr "<json>"))'
        return super().expr(e)


def translate_io(tr, qual, coq_name):
    found = tr.find_function(qual)
    if found is None:
        raise Unsupported("function %s not found" % qual)
    mod, fn = found
    ft = IOFuncTranslator(tr, mod, fn, {}, set())
    text = ft.run(coq_name)
    tr.done[qual] = coq_name
    tr.defs.append((coq_name, text))
    return coq_name
