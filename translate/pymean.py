"""Fail-closed translator for the result tails of the predictor `mean` methods (property C02).

    Predictor.mean / PredictorTime.mean :  `if normalize: ... return self._mean(x) - log(self.n_obs)  else: return self._mean(x)`
    ExpPredictor.mean                   :  `if logscale: return self._mean(x)` ; `return exp(self._mean(x))`

The methods are split at the first `if <bool parameter>:`.  The statements BEFORE the split (argument
validation, modelled by C20 / C13) must match their templates exactly; the statements FROM the split on are
translated:  control flow structurally (if / else / return / raise ValueError; logger calls and message strings
are ignored), the test `self.n_obs is None or self.n_obs == 0` by exact AST pattern into a case analysis on
`n_obs : option R`, and every returned expression by the arithmetic translator of translate/pyscalar.py
(`self._mean(<arg>)` is the variable `mean_x`, `self.n_obs` the guarded variable `n_obs_v`, log -> ln, exp -> exp).
`self.n_obs` read outside the guard, any other statement or a changed prefix raises Unsupported.
"""
import ast

from translate.pyscalar import Module, Scalar, Emitter, Unsupported, same

PREFIX = {
    "Predictor": ['x = validate_array(x, "x")', "x = ensure_2d(x)", 'normalize = validate_bool(normalize, "normalize")',
                  "SHAPECHECK"],
    "ExpPredictor": ['x = validate_array(x, "x")', 'logscale = validate_bool(logscale, "logscale")', "x = ensure_2d(x)",
                     "SHAPECHECK"],
    "PredictorTime": ["Xnew = validate_time_x(Xnew, time, n_features=self.n_input_features, cast_scalar=True)",
                      'normalize = validate_bool(normalize, "normalize")'],
}
SIG = {"Predictor": (["self", "x", "normalize"], "x", "normalize"),
       "ExpPredictor": (["self", "x", "logscale"], "x", "logscale"),
       "PredictorTime": (["self", "Xnew", "time", "normalize"], "Xnew", "normalize")}
DECOR = {"Predictor": [], "ExpPredictor": [], "PredictorTime": ["make_multi_time_argument"]}
NOBS_TEST = "self.n_obs is None or self.n_obs == 0"


def is_logger(st):
    return (isinstance(st, ast.Expr) and isinstance(st.value, ast.Call) and isinstance(st.value.func, ast.Attribute)
            and isinstance(st.value.func.value, ast.Name) and st.value.func.value.id == "logger")


def is_message(st):
    return (isinstance(st, ast.Assign) and len(st.targets) == 1 and isinstance(st.targets[0], ast.Name)
            and st.targets[0].id == "message" and isinstance(st.value, (ast.Constant, ast.JoinedStr)))


def is_shapecheck(st):
    return (isinstance(st, ast.If) and not st.orelse and same(st.test, "x.shape[1] != self.n_input_features")
            and len(st.body) == 1 and isinstance(st.body[0], ast.Raise) and raises_value_error(st.body[0]))


def raises_value_error(st):
    e = st.exc
    if isinstance(e, ast.Call):
        e = e.func
    return isinstance(e, ast.Name) and e.id == "ValueError"


class Tail:
    def __init__(self, mod, cls, xarg, flag):
        self.mod, self.cls, self.xarg, self.flag = mod, cls, xarg, flag
        self.uses_nobs = False

    def scalar(self, guarded):
        attrs = {"self.n_obs": (("var", "n_obs_v"), "scalar")} if guarded else {}
        return Scalar(self.mod, "%s.mean" % self.cls, attrs=attrs,
                      calls={"self._mean(%s)" % self.xarg: (("var", "mean_x"), "scalar")})

    def block(self, stmts, guarded, rest):
        """rest: None (nothing may follow) or a function guarded -> Coq text of what follows when the block falls through"""
        stmts = [s for s in stmts if not is_logger(s) and not is_message(s)
                 and not (isinstance(s, ast.Expr) and isinstance(s.value, ast.Constant))]
        if not stmts:
            if rest is None:
                raise Unsupported("%s.mean: a branch of the tail falls off the end of the method" % self.cls)
            return rest(guarded)
        st, tail = stmts[0], stmts[1:]
        if isinstance(st, ast.Return):
            if st.value is None:
                raise Unsupported("%s.mean: bare return" % self.cls)
            for n in ast.walk(st.value):
                if isinstance(n, ast.Attribute) and ast.unparse(n) == "self.n_obs" and not guarded:
                    raise Unsupported("%s.mean: self.n_obs is read outside the `is None or == 0` guard" % self.cls)
            e, _ = self.scalar(guarded).expr(st.value)
            return "Ok %s" % Emitter({}).go(e)
        if isinstance(st, ast.Raise):
            if not raises_value_error(st) and not (isinstance(st.exc, ast.Name) and st.exc.id in ("error", "message")):
                raise Unsupported("%s.mean: raise of something that is not a ValueError" % self.cls)
            return "Err ValueError"
        if isinstance(st, ast.If):
            follow = (lambda g: self.block(tail, g, rest)) if (tail or rest is not None) else None
            if isinstance(st.test, ast.Name) and st.test.id == self.flag:
                a = self.block(st.body, guarded, follow)
                b = self.block(st.orelse, guarded, follow)
                return "(if %s then %s else %s)" % (self.flag, a, b)
            if same(st.test, NOBS_TEST):
                self.uses_nobs = True
                missing = self.block(st.body, False, follow)
                # the else branch and everything after the `if` run with n_obs = Some n_obs_v, n_obs_v <> 0
                present = self.block(st.orelse, True, follow)
                return ("(match n_obs with None => %s | Some n_obs_v => if Req_EM_T n_obs_v 0 then %s else %s end)"
                        % (missing, missing, present))
            raise Unsupported("%s.mean: test `%s` outside the recognised forms" % (self.cls, ast.unparse(st.test)))
        raise Unsupported("%s.mean: statement `%s` outside the subset" % (self.cls, ast.unparse(st)[:80]))


def translate_means(repo):
    """returns (Coq text of gen/C02Mean.v, list of translated functions)"""
    mod = Module(repo, "mellon/base_predictor.py")
    out = ["(* GENERATED by /verif/translate/pymean.py from the working tree of the repository. Do not edit. *)",
           "From Coq Require Import Reals.", "From MellonV Require Import PyVal.", "Open Scope R_scope.", "",
           "(* result tails of the `mean` methods of mellon/base_predictor.py; mean_x = self._mean(x),",
           "   n_obs = self.n_obs (None -> None).  The argument validation in front of the tail matches its",
           "   template exactly (modelled by C20 / C13). *)", ""]
    funcs = []
    for cls in ("Predictor", "ExpPredictor", "PredictorTime"):
        cnode = [s for s in mod.tree.body if isinstance(s, ast.ClassDef) and s.name == cls]
        if len(cnode) != 1:
            raise Unsupported("base_predictor.py: class %s not found" % cls)
        cnode = cnode[0]
        fns = [s for s in cnode.body if isinstance(s, ast.FunctionDef) and s.name == "mean"]
        if len(fns) != 1:
            raise Unsupported("%s.mean not found" % cls)
        fn = fns[0]
        if not any(same(s, "__call__ = mean") for s in cnode.body):
            raise Unsupported("%s: `__call__ = mean` is gone" % cls)
        decos = [ast.unparse(d) for d in fn.decorator_list]
        if decos != DECOR[cls]:
            raise Unsupported("%s.mean: decorators %r" % (cls, decos))
        params, xarg, flag = SIG[cls]
        a = fn.args
        if [p.arg for p in a.args] != params or a.vararg or a.kwarg or a.kwonlyargs:
            raise Unsupported("%s.mean: signature changed: %r" % (cls, [p.arg for p in a.args]))
        dflt = a.defaults[-1] if a.defaults else None
        if not (isinstance(dflt, ast.Constant) and dflt.value is False):
            raise Unsupported("%s.mean: default of %s is not False" % (cls, flag))
        body = [s for s in fn.body if not (isinstance(s, ast.Expr) and isinstance(s.value, ast.Constant))]
        split = None
        for i, st in enumerate(body):
            if isinstance(st, ast.If) and isinstance(st.test, ast.Name) and st.test.id == flag:
                split = i
                break
        if split is None:
            raise Unsupported("%s.mean: no `if %s:` found" % (cls, flag))
        prefix = body[:split]
        want = PREFIX[cls]
        if len(prefix) != len(want):
            raise Unsupported("%s.mean: validation prefix has %d statements, expected %d" % (cls, len(prefix), len(want)))
        for st, w in zip(prefix, want):
            ok = is_shapecheck(st) if w == "SHAPECHECK" else same(st, w)
            if not ok:
                raise Unsupported("%s.mean: prefix statement `%s` does not match `%s`" % (cls, ast.unparse(st)[:80], w))
        t = Tail(mod, cls, xarg, flag)
        text = t.block(body[split:], False, None)
        ps = "(mean_x : R) (%s : bool)" % flag + (" (n_obs : option R)" if t.uses_nobs else "")
        out.append("Definition %s_mean_tail %s : res R :=\n  %s.\n" % (cls, ps, text))
        funcs.append("mellon.base_predictor.%s.mean (result tail)" % cls)
    return "\n".join(out), funcs
