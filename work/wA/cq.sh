#!/bin/bash
cd /verif/work/wA && timeout ${T:-300} coqc -q -w none -R /verif/coq MellonV -R /verif/work/wA MellonV "$1" > /tmp/wA_cq.out 2>&1; rc=$?
grep -v auto_activate /tmp/wA_cq.out; exit $rc
