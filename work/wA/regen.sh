#!/bin/bash
# regenerate gen/*.v into the work dir from ${1:-/repo}
cd /verif && /venv/bin/python - "$@" <<'PY' 2>&1 | grep -v auto_activate
import sys
sys.path.insert(0,'/verif')
from translate import pyscalar
repo = sys.argv[1] if len(sys.argv)>1 else '/repo'
for f in (pyscalar.translate_kernels, pyscalar.translate_inference):
    files, funcs = f(repo)
    for k,v in files.items():
        open('/verif/work/wA/'+k,'w').write(v)
        print('wrote',k)
PY
