From Coq Require Import Reals List ZArith Lra.
From Interval Require Import Tactic.
From MellonV Require Import ALists AInference AInferenceThm AInfCaseTac.
Import ListNotations.
Open Scope R_scope.
Goal forall lgam : R -> R, 0.28 <= lgam (3 / 2 + 1) <= 0.29 -> Rabs (mle lgam (1/4) 3 - 2.7) <= 0.1.
Proof. intros lgam H. Time icase lgam. Qed.
Goal forall lgam : R -> R, 0.28 <= lgam (3 / 2 + 1) <= 0.29 -> -0.121 <= lgam (2 / 2 + 1) <= 0 ->
  Rabs (nn_loglik lgam [1/4; 1/2] [3; 2] [1; 2] - 2.7) <= 10.
Proof. intros lgam H H2. Time icase lgam. Qed.
Goal forall lgam r d, rsort (map2 (mle lgam) r d) = [1; 2; 3; 5] -> Rabs (compute_mu lgam r d - (-8.97)) <= 0.001.
Proof. intros lgam r d H. unfold compute_mu, quantile_list. rewrite H.
  rewrite (quantile_sorted_at _ _ 0) by (simpl; lra). unfold interp_at. simpl. interval. Qed.
Goal Rabs (compute_ls [1/4; 1/2; 1] - 10.04) <= 0.01.
Proof. ireduce. interval. Qed.
