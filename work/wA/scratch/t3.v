From Coq Require Import Reals List ZArith.
From Interval Require Import Tactic.
From MellonV Require Import ALists AKernels AKExpr ACaseTac.
Import ListNotations.
Open Scope R_scope.
Goal Rabs (keval (KMul (KBase BMatern52 (3/2) (DInt (-1)%Z)) (KPow (KAddC (KBase (BRatQuad (5/2)) (7/4) (DSlice None (Some 2%Z) None)) (1/2) DNone) (3/2) (DList [0%Z; 2%Z])) DNone)
   [1/2; 3/4; 5/4] [1/4; 9/8; 2] - 0.5) <= 1.
Proof. kreduce. Show. interval with (i_prec 80). Qed.
Goal Rabs (dist_pts [100; 100] [100; 100 + 1/1125899906842624] - 0.000001) <= 1e-7.
Proof. Time kcase. Qed.
