From Coq Require Import Reals Lra.
From Interval Require Import Tactic.
Open Scope R_scope.
Definition M52 (ls dist : R) := let r := sqrt 5 * dist / ls in (r + r*r/3 + 1) * exp (-r).
Goal Rabs (M52 (3/2) (1234567/1048576) - 0.5) <= 1.
Proof. unfold M52. cbv zeta. interval with (i_prec 70). Qed.
Goal Rabs (Rpower (1 + 3/4) (-(5/2)) - 0.2468) <= 0.001.
Proof. interval with (i_prec 70). Qed.
Goal Rabs (Rmax (3/4 - 1) 0) <= 0.001.
Proof. interval. Qed.
Goal forall g, 1 <= g <= 1 + 1e-15 -> Rabs (g*2 - 2) <= 1e-14.
Proof. intros. interval. Qed.
Check exp_ineq1_le.
Check exp_ineq1.
