#!/bin/bash
# show goal before line N of file F (work dir)
f=$1; n=$2
cd /verif/work/wA
( head -n $((n-1)) "$f"; echo "Show."; ) | timeout 120 coqtop -q -R /verif/coq MellonV -R /verif/work/wA MellonV 2>&1 | grep -v auto_activate | tail -${3:-30}
