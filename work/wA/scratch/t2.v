From Coq Require Import Reals Lra.
From Interval Require Import Tactic.
Open Scope R_scope.
Goal Rabs (Rmax (3/4) 0) <= 1.
Proof. Fail interval. Abort.
Goal Rabs (Rmin (3/4) 0) <= 1.
Proof. Fail interval. Abort.
Goal forall g, 1 <= g <= 1 + 1e-15 -> Rabs (g*2 - 2) <= 1e-14.
Proof. intros. interval. Qed.
Check exp_ineq1_le.
Check exp_ineq1.
Goal Rabs (powerRZ (3/4) (-2)%Z) <= 2.
Proof. interval. Qed.
Goal Rabs ((3/4)^2) <= 2.
Proof. interval. Qed.
Goal Rabs (ln PI) <= 2.
Proof. interval. Qed.
