From Coq Require Import ZArith QArith List String Bool Lia.
From MellonV Require Import PyVal PyValExtC02 C02Dispatch.
Import ListNotations.
Open Scope Z_scope.
Open Scope string_scope.

Ltac inv_step H :=
  match type of H with
  | Err _ = Ok _ => discriminate H
  | Ok _ = Ok _ => injection H as H
  | bind (Ok _) _ = Ok _ => cbn [bind] in H
  | bind ?m _ = Ok _ => let E := fresh "E" in destruct m eqn:E; cbn [bind] in H; [|discriminate H]
  | (if ?b then _ else _) = Ok _ => let B := fresh "B" in destruct b eqn:B
  end.

Definition xarr (n d : Z) (dat : list xf) : val := VArr KF [n; d] dat.
Definition is_nystroem (g : gpt) : bool := match g with FULL_NYSTROEM | SPARSE_NYSTROEM => true | _ => false end.
Definition lm_val (l : option (Z * Z * list xf)) : val :=
  match l with None => VNone | Some (m, d, dat) => VArr KF [m; d] dat end.

Section S.
Variable oracle : string -> list val -> res val.

Lemma est_Lp_spec n d xd cov g jit lm :
  c02_base_model_BaseEstimator__compute_Lp oracle cov (VEnum g) jit (lm_val lm) (xarr n d xd)
  = if is_nystroem g then Ok VNone
    else oracle "_full_rank" [match g, lm with
                              | FULL, _ | _, None => xarr n d xd
                              | _, Some _ => lm_val lm end; cov; VInt 0; jit].
Proof.
  unfold c02_base_model_BaseEstimator__compute_Lp, c02_parameters_compute_Lp, xarr.
  destruct lm as [[[m dd] ld]|]; destruct g; cbn; try reflexivity;
    match goal with |- bind ?o _ = _ => destruct o; reflexivity end.
Qed.
End S.
