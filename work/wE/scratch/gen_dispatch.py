import sys
sys.path.insert(0, "/verif")
from checks.C02 import translate_dispatch
text, funcs = translate_dispatch()
open("/verif/work/wE/gen/C02Dispatch.v", "w").write(text)
print(len(text), funcs)
