From Coq Require Import ZArith QArith List String Bool Lia.
From MellonV Require Import PyVal PyValExtC02 C02Dispatch.
Import ListNotations.
Open Scope Z_scope.
Open Scope string_scope.

Ltac inv_step H :=
  match type of H with
  | Err _ = Ok _ => discriminate H
  | Ok _ = Ok _ => injection H as H
  | bind (Ok _) _ = Ok _ => cbn [bind] in H
  | bind ?m _ = Ok _ => let E := fresh "E" in destruct m eqn:E; cbn [bind] in H; [|discriminate H]
  | (if ?b then _ else _) = Ok _ => let B := fresh "B" in destruct b eqn:B
  end.

Definition xarr (n d : Z) (dat : list xf) : val := VArr KF [n; d] dat.
Definition lm_val (l : option (Z * Z * list xf)) : val :=
  match l with None => VNone | Some (m, d, dat) => VArr KF [m; d] dat end.

Lemma validate_L_input_shape n d xd cov g lm Lp rank sg jit t :
  c02_parameters_validate_compute_L_input (xarr n d xd) cov (VEnum g) (lm_val lm) Lp rank sg jit = Ok t ->
  exists nl ns r, t = VTuple [xarr n d xd; lm_val lm; nl; ns; VEnum g; r].
Proof.
  unfold c02_parameters_validate_compute_L_input, xarr.
  intros H.
  inv_step H. inv_step H.
  destruct lm as [[[m dd] ld]|]; destruct g; cbn in H.
  all: repeat inv_step H.
  all: try (subst; do 3 eexists; reflexivity).
  Show.
Qed.
