import sys, json, time
sys.path.insert(0, "/verif")
import checks.C08 as c
class Ctx:
    def __init__(self, seed, thorough=False):
        self.seed, self.thorough = seed, thorough
        self.cov, self.broken, self.assumptions, self.v = {}, [], [], []
    def build_props(self, gen, extra_targets=()): return True
    def violation(self, key, what, rep):
        self.v.append(key)
        print("VIOL", key, what, {k: v for k, v in rep.items() if k not in ("x", "landmarks", "perm", "Q")})
ctx = Ctx(int(sys.argv[1]) if len(sys.argv) > 1 else 0)
import os
if os.environ.get("DBG"): ctx.seed = -1
t0 = time.time()
c.run(ctx)
print("time", time.time() - t0, "fits", ctx.cov["real_fits"], "violations", len(ctx.v))
print(json.dumps(ctx.cov["input_distribution"], indent=0)[:3000])
