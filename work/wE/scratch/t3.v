From Coq Require Import ZArith QArith List String Bool Lia.
From MellonV Require Import PyVal PyValExtC02 C02Dispatch.
Import ListNotations.
Open Scope Z_scope.
Open Scope string_scope.

Ltac inv_step H :=
  match type of H with
  | Err _ = Ok _ => discriminate H
  | Ok _ = Ok _ => injection H as H
  | bind (Ok _) _ = Ok _ => cbn [bind] in H
  | bind ?m _ = Ok _ => let E := fresh "E" in destruct m eqn:E; cbn [bind] in H; [|discriminate H]
  | (if ?b then _ else _) = Ok _ => let B := fresh "B" in destruct b eqn:B
  end.

Definition xarr (n d : Z) (dat : list xf) : val := VArr KF [n; d] dat.
Definition lm_val (l : option (Z * Z * list xf)) : val :=
  match l with None => VNone | Some (m, d, dat) => VArr KF [m; d] dat end.

Lemma validate_L_input_shape n d xd cov g lm Lp rank sg jit t :
  c02_parameters_validate_compute_L_input (xarr n d xd) cov (VEnum g) (lm_val lm) Lp rank sg jit = Ok t ->
  exists nl ns r, t = VTuple [xarr n d xd; lm_val lm; nl; ns; VEnum g; r].
Proof.
  unfold c02_parameters_validate_compute_L_input, xarr.
  intros H.
  inv_step H. inv_step H.
  destruct lm as [[[m dd] ld]|]; destruct g; cbn in H.
  all: repeat inv_step H.
  all: try (subst; do 3 eexists; reflexivity).
Qed.

Section S.
Variable oracle : string -> list val -> res val.

Definition L_spec (x cov lm jit Lp : val) (g : gpt) (L : val) : Prop :=
  match g with
  | FULL => (Lp = VNone /\ oracle "_full_rank" [x; cov; VInt 0; jit] = Ok L) \/ (Lp <> VNone /\ L = Lp)
  | FULL_NYSTROEM => exists r, oracle "_full_decomposition_low_rank" [x; cov; r; VInt 0; jit] = Ok L
  | SPARSE_CHOLESKY | FIXED => oracle "_standard_low_rank" [x; cov; lm; Lp; VInt 0; jit] = Ok L
  | SPARSE_NYSTROEM => exists r, oracle "_modified_low_rank" [x; cov; lm; r; VInt 0; jit] = Ok L
  end.

Lemma py_is_none_true v b : cond (bind2 py_is (Ok v) (Ok VNone)) = Ok b -> b = true -> v = VNone.
Proof. destruct v; cbn; intros [= <-]; congruence. Qed.
Lemma py_is_none_false v b : cond (bind2 py_is (Ok v) (Ok VNone)) = Ok b -> b = false -> v <> VNone.
Proof. destruct v; cbn; intros [= <-]; congruence. Qed.

Lemma compute_L_spec n d xd cov g lm Lp rank jit L :
  c02_parameters_compute_L oracle (xarr n d xd) cov (VEnum g) (lm_val lm) Lp rank (VInt 0) jit = Ok L ->
  L_spec (xarr n d xd) cov (lm_val lm) jit Lp g L.
Proof.
  unfold c02_parameters_compute_L. cbn [bind]. intros H.
  inv_step H.
  destruct (validate_L_input_shape _ _ _ _ _ _ _ _ _ _ _ E) as (nl & ns & r & ->).
  destruct g; simpl in H; unfold L_spec.
  - destruct Lp; try (right; split; [discriminate|congruence]). left. split; [reflexivity|exact H].
  - eexists; exact H.
  - destruct Lp; exact H.
  - eexists; exact H.
  - destruct Lp; exact H.
Qed.
End S.
