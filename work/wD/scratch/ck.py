import numpy as np, jax, jax.numpy as jnp
jax.config.update("jax_enable_x64", True)
def m52(r): return (1+np.sqrt(5)*r+5*r*r/3)*jnp.exp(-np.sqrt(5)*r)
def eq(r): return jnp.exp(-r*r/2)
def rq(r): return 1/(1+r*r/2)
for name,phi in [("Matern52",m52),("ExpQuad",eq),("RatQuad",rq)]:
    def psi(s,a): return phi(jnp.sqrt(s*s+a*a+1e-12))
    ds=[psi]
    for k in range(4): ds.append(jax.grad(ds[-1],argnums=0))
    S=jnp.linspace(-8,8,3201); A=jnp.concatenate([jnp.array([0.,1e-6,1e-5,1e-4,1e-3,1e-2]),jnp.linspace(0.02,6,300)])
    out=[]
    for k in range(1,5):
        v=jax.vmap(lambda a: jax.vmap(lambda s: ds[k](s,a))(S))(A)
        out.append((float(jnp.abs(v).max()), float(jnp.abs(v[6:]).max())))
    print(name,out)
