import logging, numpy as np, mellon
mellon.logger.setLevel(logging.CRITICAL)
x=np.array([0.0,0.5,0.5,1.0,1.75,2.5,3.0,3.25,4.0,4.5,5.25,6.0])[:,None]
for est in (mellon.DensityEstimator, mellon.DimensionalityEstimator):
    try:
        e=est(gp_type="full"); e.fit(x); print(est.__name__,"ok", np.isfinite(np.asarray(e.predict(x))).all())
    except Exception as ex: print(est.__name__, type(ex).__name__, str(ex)[:120])
x2=np.array([[0.0,0.0],[0.5,1.0],[0.5,1.0],[1.0,0.2],[1.75,0.3],[2.5,2.0],[3.0,1.0],[3.25,0.1],[4.0,0.7],[4.5,3.0],[5.25,1.1],[6.0,0.4]])
for est in (mellon.DensityEstimator, mellon.DimensionalityEstimator):
    try:
        e=est(gp_type="full"); e.fit(x2); print(est.__name__,"2d ok", np.isfinite(np.asarray(e.predict(x2))).all())
    except Exception as ex: print(est.__name__, "2d", type(ex).__name__, str(ex)[:120])
