import json, logging, numpy as np, mellon
from checks import C12
from harness import c12_fd as fd
mellon.logger.setLevel(logging.CRITICAL)
class Ctx: seed=0; thorough=False
c=C12.plan(Ctx)[4]; p,X=C12.fit(c); info=fd.Info(p)
xq=fd.query_points(np.random.default_rng(c["data_seed"]+5),info,X,2,C12.TIMES)
json.dump({"property":"C12","key":"x","what":"y","replay":{"config":dict(c,query_rows=xq.tolist())}}, open("/verif/work/wD/scratch/rep12.json","w"))
from checks import C17
json.dump({"property":"C17","replay":{"config":C17.plan(Ctx)[7]}}, open("/verif/work/wD/scratch/rep17.json","w"))
