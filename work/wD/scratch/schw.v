From Coq Require Import Reals List ZArith Bool Lra Lia.
From Coquelicot Require Import Coquelicot.
From MellonV Require Import ALists AListsFacts DerivSem C12Wiring DerivThm.
Import ListNotations.
Open Scope R_scope.

Lemma upd_comm (x : list R) i j u v : i <> j -> upd (upd x j v) i u = upd (upd x i u) j v.
Proof.
  revert i j. induction x as [|a x IH]; intros i j H; [reflexivity|].
  destruct i as [|i], j as [|j]; cbn; [now elim H|reflexivity|reflexivity|].
  f_equal. apply IH. congruence.
Qed.

(* f restricted to coordinates i and j *)
Definition F2 (f : list R -> R) (x : list R) (i j : nat) (u v : R) : R := f (upd (upd x i u) j v).

Lemma mixed_commute_schwarz (f : list R -> R) x i j : i <> j ->
  locally_2d (fun u v =>
    ex_derive (fun z => F2 f x i j z v) u /\ ex_derive (fun z => F2 f x i j u z) v /\
    ex_derive (fun z => Derive (fun t => F2 f x i j z t) v) u /\
    ex_derive (fun z => Derive (fun t => F2 f x i j t z) u) v) (nth i x 0) (nth j x 0) ->
  continuity_2d_pt (fun u v => Derive (fun z => Derive (fun t => F2 f x i j z t) v) u) (nth i x 0) (nth j x 0) ->
  continuity_2d_pt (fun u v => Derive (fun z => Derive (fun t => F2 f x i j t z) u) v) (nth i x 0) (nth j x 0) ->
  Derive (fun v => partial_at f (upd x j v) i) (nth j x 0) = Derive (fun u => partial_at f (upd x i u) j) (nth i x 0).
Proof.
  intros Hij HD HC2 HC1.
  pose proof (Schwarz (F2 f x i j) (nth i x 0) (nth j x 0) HD HC2 HC1) as S.
  transitivity (Derive (fun z => Derive (fun t => F2 f x i j t z) (nth i x 0)) (nth j x 0)).
  - apply Derive_ext. intros v. unfold partial_at. rewrite nth_upd_other by exact Hij.
    apply Derive_ext. intros t. unfold F2. now rewrite upd_comm.
  - rewrite <- S. apply Derive_ext. intros u. unfold partial_at.
    rewrite nth_upd_other by (intro E; apply Hij; now symmetry).
    apply Derive_ext. intros t. reflexivity.
Qed.
