import logging, numpy as np, jax, mellon
mellon.logger.setLevel(logging.CRITICAL)
rng=np.random.default_rng(0)
X=rng.normal(size=(20,2)); Y=np.stack([np.sin(X[:,0]),X[:,1]**2,X[:,0]*X[:,1]],axis=1)
for gp,kw in (("full",{}),("sparse_cholesky",dict(n_landmarks=6))):
    e=mellon.FunctionEstimator(gp_type=gp,ls=1.0,sigma=0.1,**kw); e.fit(X,Y); p=e.predict
    xq=rng.normal(size=(5,2))
    print(type(p).__name__, p(xq).shape, p.gradient(xq).shape, p.hessian(xq).shape)
    try: print([a.shape for a in p.hessian_log_determinant(xq)])
    except Exception as ex: print("hld", type(ex).__name__, str(ex)[:100])
    e=mellon.FunctionEstimator(gp_type=gp,ls=1.0,sigma=0.1,**kw); e.fit(X,Y[:,0]); p=e.predict
    print(type(p).__name__, p(xq).shape, p.gradient(xq).shape, p.hessian(xq).shape, [a.shape for a in p.hessian_log_determinant(xq)])
    # check values for multi-output vs FD
    g=np.asarray(mellon.FunctionEstimator(gp_type=gp,ls=1.0,sigma=0.1,**kw).fit(X,Y).gradient(xq))
