import logging, numpy as np, mellon
from checks import C12
from harness import c12_fd as fd
mellon.logger.setLevel(logging.CRITICAL)
class Ctx: seed=0; thorough=False
for cfg in C12.plan(Ctx):
    p,X=C12.fit(cfg); info=fd.Info(p)
    xq=fd.query_points(np.random.default_rng(cfg["data_seed"]+5),info,X,4,C12.TIMES)
    d=cfg["d"]; cols=list(range(d))
    for x in xq:
        v=float(p(x[None,:-1],x[-1:])[0]) if info.time else float(p(x[None,:])[0])
        gx=np.log(v) if info.exp else v
        F,noise=info.bounds(x,gx,"state"); h1,h2=fd.steps(F,noise,info.ls)
        H=np.asarray(p.hessian(x[None,:]))[0]
        print(type(p).__name__,cfg["kernel"],d,"W %.3g F2 %.3g F4 %.3g noise %.2g h2 %.2g tolm %.3g |H| %.3g"%(info.W,F[1],F[3],noise,h2,fd.tol_second(F,noise,h2,1,True),np.abs(H).max()))
