import logging, numpy as np, mellon, time
from checks import C12, C17
from harness import c12_fd as fd
mellon.logger.setLevel(logging.CRITICAL)
class Ctx:
    seed=0; thorough=True; violations=[]; broken=[]
    def violation(self,k,w,r): self.violations.append((k,w))
ctx=Ctx()
cf=C12.plan(ctx); print(len(cf), "C12 thorough cells")
st=C12.Stats()
for c in cf:
    if (c["est"],c["gp"],c["kernel"],c["d"]) in [("time","full","Matern52",1),("density","sparse_nystroem","RatQuad",6),("dimensionality","full","ExpQuad",1),("time","sparse_cholesky","RatQuad",5),("dimensionality","sparse_cholesky","Matern52",6)]:
        t0=time.time(); p,X=C12.fit(c); info=fd.Info(p)
        xq=fd.query_points(np.random.default_rng(c["data_seed"]+5),info,X,6,C12.TIMES)
        C12.check_predictor(ctx,c,p,X,xq,st,info); print(c["est"],c["gp"],c["kernel"],c["d"],"%.1fs"%(time.time()-t0), len(ctx.violations))
print(ctx.violations[:3]); print(st.worst)
print(len(C17.plan(ctx)), "C17 thorough configs")
