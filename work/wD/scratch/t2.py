import time, logging, sys
import numpy as np, jax, mellon
from harness import c12_fd as fd
mellon.logger.setLevel(logging.CRITICAL)
rng=np.random.default_rng(int(sys.argv[1]) if len(sys.argv)>1 else 0)
KS={"Matern52":mellon.cov.Matern52,"ExpQuad":mellon.cov.ExpQuad,"RatQuad":mellon.cov.RatQuad}
def fit(est, gp, kern, d, n=24):
    X=rng.normal(size=(n,d))
    kw=dict(gp_type=gp, cov_func_curry=KS[kern], ls=float(np.sqrt(d)))
    if gp!="full": kw["n_landmarks"]=8
    if gp=="sparse_nystroem": kw["rank"]=0.9
    if est=="time":
        t=np.repeat([0.,1.,2.],n//3); X=np.concatenate([X,t[:,None]],axis=1)
        e=mellon.TimeSensitiveDensityEstimator(ls_time=1.0, **kw)
    elif est=="dim": e=mellon.DimensionalityEstimator(**kw)
    else: e=mellon.DensityEstimator(**kw)
    e.fit(X); return e.predict, X
i=0
for est in ("dens","dim","time"):
  for gp in ("full","sparse_cholesky","sparse_nystroem"):
    kern=list(KS)[i%3]; d=[1,2,3,4,5,6,2,3,1][i]; i+=1
    t0=time.time()
    p,X=fit(est,gp,kern,d)
    info=fd.Info(p)
    xq=fd.query_points(rng,info,X,3,[0.,1.,2.])
    cols=list(range(d))
    g=np.asarray(p.gradient(xq)); H=np.asarray(p.hessian(xq))
    worst=[0,0,0]
    for r,x in enumerate(xq):
        gx=float(np.log(p(x[None,:])[0])) if info.exp else float(p(x[None,:])[0])
        F,noise=fd.bounds=info.bounds(x,gx,"state")
        h1,h2=fd.steps(F,noise,info.ls)
        pts,idx=fd.fd_points(x,cols,h1,h2)
        v=np.asarray(p(pts),dtype=float)
        gf,Hf=fd.fd_from_values(v,idx,cols,h1,h2)
        t1=fd.tol_first(F,noise,h1,np.abs(x).max()); t2=fd.tol_second(F,noise,h2,np.abs(x).max(),True)
        e1=np.abs(g[r][:d]-gf).max(); e2=np.abs(H[r]-Hf).max()
        worst[0]=max(worst[0],e1/t1); worst[1]=max(worst[1],e2/t2)
        if r==0: print("   h",h1,h2,"tol",t1,t2,"|g|",np.abs(gf).max(),"|H|",np.abs(Hf).max(),"W",info.W,"noise",noise)
        if info.time:
            F,noise=info.bounds(x,gx,"time"); h1,h2=fd.steps(F,noise,info.ls_time)
            pts,idx=fd.fd_points(x,[d],h1,h2); v=np.asarray(p(pts),dtype=float); gf,_=fd.fd_from_values(v,idx,[d],h1,h2)
            td=np.asarray(p.time_derivative(x[None,:]))[0]
            worst[2]=max(worst[2],abs(td-gf[0])/fd.tol_first(F,noise,h1,np.abs(x).max()))
    print(est,gp,kern,d,type(p).__name__,"ratio",worst,"%.1fs"%(time.time()-t0))
