import logging, numpy as np, mellon
from checks import C12
mellon.logger.setLevel(logging.CRITICAL)
class Ctx: seed=0; thorough=True
for c in C12.plan(Ctx):
    if (c["est"],c["gp"],c["kernel"],c["d"])==("dimensionality","full","ExpQuad",1):
        X=C12.make_data(c["data_seed"],c["est"],c["d"],c["n"]); print(c, "unique rows", len(np.unique(X)), "of", len(X))
        print(sorted(X[:,0].tolist()))
        for est in (mellon.DensityEstimator, mellon.DimensionalityEstimator):
            try: e=est(gp_type="full", cov_func_curry=mellon.cov.ExpQuad, ls=1.0); e.fit(X); print(est.__name__,"ok")
            except Exception as ex: print(est.__name__, type(ex).__name__, str(ex)[:100])
        Xu=np.unique(X,axis=0)
        try: e=mellon.DimensionalityEstimator(gp_type="full", cov_func_curry=mellon.cov.ExpQuad, ls=1.0); e.fit(Xu); print("unique rows only: ok")
        except Exception as ex: print("unique rows only:", type(ex).__name__, str(ex)[:100])
