import time, logging, sys, json
import numpy as np, jax, jax.numpy as jnp, mellon
mellon.logger.setLevel(logging.CRITICAL)
rng=np.random.default_rng(0)
n,d=24,2
X=np.round(rng.normal(size=(n,d))*256)/256
LM=X[:8].copy()
def fit(opt,gp,jit,n_iter):
    kw=dict(gp_type=gp, optimizer=opt, jit=jit, n_iter=n_iter)
    if gp!="full": kw["landmarks"]=LM
    if gp=="sparse_nystroem": kw["rank"]=6
    e=mellon.DensityEstimator(**kw); e.fit(X); return e
for opt in ("L-BFGS-B","adam","advi"):
  for gp in ("full","sparse_cholesky","sparse_nystroem"):
    for jit in (True,False):
        t0=time.time(); e=fit(opt,gp,jit,5); t1=time.time()
        lf=e.loss_func; z0=e.initial_value; z=e.pre_transformation
        g0=np.asarray(jax.grad(lf)(z0)); g1=np.asarray(jax.grad(lf)(z))
        e2=fit(opt,gp,jit,5)
        same=np.array_equal(np.asarray(e.pre_transformation),np.asarray(e2.pre_transformation))
        print(opt,gp,jit,"%.1fs"%(t1-t0),"loss0 %.6f loss1 %.6f rep %s"%(float(lf(z0)),float(lf(z)),np.asarray(e.losses)[-1]),"g %.2e -> %.2e"%(np.abs(g0).max(),np.abs(g1).max()),"same",same, np.asarray(e.losses).shape, None if e.pre_transformation_std is None else (np.asarray(e.pre_transformation_std).shape, float(np.min(e.pre_transformation_std))))
