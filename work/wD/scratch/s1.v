From Coq Require Import Reals List ZArith Bool Lra Lia.
From MellonV Require Import DerivSem C12Wiring.
Import ListNotations.
Goal forall n d, sprod (tl (raw_shape (deriv_table DHessLogDet) n d None)) = sprod [d; d].
intros. cbn. Show.
Abort.
Goal forall n d, out_shape (deriv_table DHessLogDet) n d None = [n].
intros. cbn. Show.
Abort.
