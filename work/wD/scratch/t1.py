import time, logging
t0=time.time()
import numpy as np, jax, mellon
mellon.logger.setLevel(logging.CRITICAL)
print("import", time.time()-t0)
rng=np.random.default_rng(0)
n,d=24,2
X=rng.normal(size=(n,d))
for gp,kw in [("full",dict()),("sparse_cholesky",dict(n_landmarks=8)),("sparse_nystroem",dict(n_landmarks=8,rank=0.9))]:
    t0=time.time()
    est=mellon.DensityEstimator(gp_type=gp, **kw); est.fit(X); p=est.predict
    print(gp,type(p).__name__, time.time()-t0, p.cov_func, p.mu, p.weights.shape)
    xq=rng.normal(size=(5,d))
    for jit in (True,False):
        t0=time.time(); g=p.gradient(xq,jit=jit); t1=time.time(); h=p.hessian(xq,jit=jit); t2=time.time(); s=p.hessian_log_determinant(xq,jit=jit); t3=time.time()
        print(jit, g.shape,h.shape,[a.shape for a in s], t1-t0,t2-t1,t3-t2)
    t0=time.time()
    est=mellon.DimensionalityEstimator(gp_type=gp, **kw); est.fit(X); p=est.predict
    print(gp,type(p).__name__, time.time()-t0, p.cov_func, p.mu, p.weights.shape)
    Xt=np.concatenate([X, np.repeat([0.,1.,2.],n//3)[:,None]],axis=1)
    t0=time.time()
    est=mellon.TimeSensitiveDensityEstimator(gp_type=gp, **kw); est.fit(Xt); p=est.predict
    print(gp,type(p).__name__, time.time()-t0, p.cov_func, p.mu, p.weights.shape)
    t0=time.time(); g=p.time_derivative(xq, 1.0); print(g.shape, time.time()-t0)
