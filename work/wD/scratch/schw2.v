From Coq Require Import Reals List ZArith Bool Lra Lia.
From Coquelicot Require Import Coquelicot.
From MellonV Require Import ALists AListsFacts DerivSem C12Wiring DerivThm.
Import ListNotations.
Open Scope R_scope.
Definition F2 (f : list R -> R) (x : list R) (i j : nat) (u v : R) : R := f (upd (upd x i u) j v).

Lemma D_lin_r (z v : R) : Derive (fun t => z * t) v = z.
Proof. apply is_derive_unique. auto_derive; [exact I|ring]. Qed.
Lemma D_lin_l (z u : R) : Derive (fun t => t * z) u = z.
Proof. apply is_derive_unique. auto_derive; [exact I|ring]. Qed.

Lemma schwarz_hypotheses_example :
  let f := fun l : list R => nth 0 l 0 * nth 1 l 0 in
  let x := [1; 2] in
  0%nat <> 1%nat /\
  locally_2d (fun u v =>
    ex_derive (fun z => F2 f x 0 1 z v) u /\ ex_derive (fun z => F2 f x 0 1 u z) v /\
    ex_derive (fun z => Derive (fun t => F2 f x 0 1 z t) v) u /\
    ex_derive (fun z => Derive (fun t => F2 f x 0 1 t z) u) v) (nth 0 x 0) (nth 1 x 0) /\
  continuity_2d_pt (fun u v => Derive (fun z => Derive (fun t => F2 f x 0 1 z t) v) u) (nth 0 x 0) (nth 1 x 0) /\
  continuity_2d_pt (fun u v => Derive (fun z => Derive (fun t => F2 f x 0 1 t z) u) v) (nth 0 x 0) (nth 1 x 0).
Proof.
  cbv zeta. unfold F2. cbn [upd nth].
  split; [discriminate|]. split; [|split].
  - apply locally_2d_forall. intros u v. repeat split.
    + auto_derive; exact I.
    + auto_derive; exact I.
    + apply (ex_derive_ext (fun z => z)); [intros z; symmetry; apply D_lin_r|]. auto_derive; exact I.
    + apply (ex_derive_ext (fun z => z)); [intros z; symmetry; apply D_lin_l|]. auto_derive; exact I.
  - apply (continuity_2d_pt_ext (fun _ _ => 1)); [|apply continuity_2d_pt_const].
    intros u v. symmetry. rewrite (Derive_ext _ (fun z => z)) by (intros z; apply D_lin_r). apply Derive_id.
  - apply (continuity_2d_pt_ext (fun _ _ => 1)); [|apply continuity_2d_pt_const].
    intros u v. symmetry. rewrite (Derive_ext _ (fun z => z)) by (intros z; apply D_lin_l). apply Derive_id.
Qed.
