(* C06: total uncertainty = covariance + mean_covariance (generated wrappers of base_predictor.py, gen/C06Unc.v),
   hence symmetric positive semi-definite, with the diag form equal to the diagonal of the full form. *)
From mathcomp Require Import all_ssreflect all_fingroup all_algebra.
From MellonV Require Import MatOps MxInst MxPsd MatGen C06Unc CondThm FactorThm CovThm.
Set Implicit Arguments.
Unset Strict Implicit.
Unset Printing Implicit Defensive.
Import Order.TTheory GRing.Theory Num.Theory.
Local Open Scope ring_scope.

Section Unc.
Variable F : rcfType.
Variable cholF : forall n : nat, 'M[F]_n -> 'M[F]_n.
Variable eigS : forall n p : nat, 'M[F]_n -> 'cV[F]_p.
Variable eigV : forall n p : nat, 'M[F]_n -> 'M[F]_(n, p).
Variable qrQ : forall n m k : nat, 'M[F]_(n, m) -> 'M[F]_(n, k).
Variable qrR : forall n m k : nat, 'M[F]_(n, m) -> 'M[F]_(k, m).
Let ops := MxOps cholF eigS eigV qrQ qrR.
Local Existing Instance ops.

Lemma uncertainty_is_sum q r (c m : 'M[F]_(q, r)) :
  [/\ Predictor_uncertainty c m = c + m, PredictorTime_uncertainty c m = c + m & ExpPredictor_uncertainty c m = c + m].
Proof. by []. Qed.

Lemma diagofD n (A B : 'M[F]_n) : diagof (A + B) = diagof A + diagof B.
Proof. by apply/matrixP => i j; rewrite !mxE. Qed.

Section One.
Variables (q b k : nat) (Kss : 'M[F]_q) (Kd : 'cV[F]_q) (Kbs : 'M[F]_(b, q)) (Kbb N L : 'M[F]_b) (W : 'M[F]_(b, k)).
Hypothesis cL : chol_of L (Kbb + N).

Lemma uncertainty_sym_psd :
  sym Kss -> spd (Kbb + N) -> psd N -> psd (block_mx Kbb Kbs Kbs^T Kss) ->
  let U := Predictor_uncertainty (FullCond_covariance_dF Kss Kbs L) (FullCond_mean_covariance_dF Kbs^T W) in
  sym U /\ psd U.
Proof.
move=> sK sA pN pJ U; rewrite /U; have [-> _ _] := uncertainty_is_sum (FullCond_covariance_dF Kss Kbs L) (FullCond_mean_covariance_dF Kbs^T W).
have [_ sM pM _] := mean_cov_gram cholF eigS eigV qrQ qrR Kbs^T W.
split.
  apply: symD => //; apply: (cov_sym cholF eigS eigV qrQ qrR Kbs cL) => //; by case: sA.
by apply: psdD => //; apply: (cov_psd cholF eigS eigV qrQ qrR cL).
Qed.

Lemma uncertainty_diag_agrees :
  Kd = diagof Kss ->
  Predictor_uncertainty (FullCond_covariance_dT Kd Kbs L) (FullCond_mean_covariance_dT Kbs^T W)
  = diagof (Predictor_uncertainty (FullCond_covariance_dF Kss Kbs L) (FullCond_mean_covariance_dF Kbs^T W)).
Proof.
move=> eK; have [e1 _ _] := uncertainty_is_sum (FullCond_covariance_dT Kd Kbs L) (FullCond_mean_covariance_dT Kbs^T W).
have [e2 _ _] := uncertainty_is_sum (FullCond_covariance_dF Kss Kbs L) (FullCond_mean_covariance_dF Kbs^T W).
have [_ _ _ eM] := mean_cov_gram cholF eigS eigV qrQ qrR Kbs^T W.
by rewrite e1 e2 diagofD (cov_diag_agrees cholF eigS eigV qrQ qrR Kbs L eK) eM.
Qed.

End One.
End Unc.
