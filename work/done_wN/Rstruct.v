(* Coq's classical real numbers as a MathComp real closed field (no mathcomp-analysis in this
   sandbox).  This is the bridge between world A (lists over R, Coquelicot) and world B (MathComp
   matrices over an arbitrary rcfType): every world-B theorem can be instantiated at R.
   Standard-library axioms used: those of the classical reals, plus Epsilon (choice structure) and
   functional extensionality (for the choice mixin). *)
Require Import Rdefinitions Raxioms RIneq Rbasic_fun Zwf.
Require Import Epsilon FunctionalExtensionality Ranalysis1 Rsqrt_def.
Require Import Reals.
From mathcomp Require Import all_ssreflect ssralg poly ssrnum.
Set Implicit Arguments.
Unset Strict Implicit.
Unset Printing Implicit Defensive.

Local Open Scope R_scope.

Definition eqr (r1 r2 : R) : bool := if Req_EM_T r1 r2 is left _ then true else false.

Lemma eqrP : Equality.axiom eqr.
Proof. by move=> r1 r2; rewrite /eqr; case: Req_EM_T => H; apply: (iffP idP). Qed.

Canonical R_eqMixin := EqMixin eqrP.
Canonical R_eqType := Eval hnf in EqType R R_eqMixin.

Fact inhR : inhabited R.
Proof. exact: (inhabits 0). Qed.

Definition pickR (P : pred R) (n : nat) :=
  let x := epsilon inhR P in if P x then Some x else None.

Fact pickR_some P n x : pickR P n = Some x -> P x.
Proof. by rewrite /pickR; case: (boolP (P _)) => // Px [<-]. Qed.

Fact pickR_ex (P : pred R) : (exists x : R, P x) -> exists n, pickR P n.
Proof. by rewrite /pickR; move=> /(epsilon_spec inhR)->; exists 0%N. Qed.

Fact pickR_ext (P Q : pred R) : P =1 Q -> pickR P =1 pickR Q.
Proof.
move=> PEQ n; rewrite /pickR; set u := epsilon _ _; set v := epsilon _ _.
suff -> : u = v by rewrite PEQ.
by congr epsilon; apply: functional_extensionality => x; rewrite PEQ.
Qed.

Definition R_choiceMixin : choiceMixin R := Choice.Mixin pickR_some pickR_ex pickR_ext.
Canonical R_choiceType := Eval hnf in ChoiceType R R_choiceMixin.

Fact RplusA : associative Rplus.
Proof. by move=> *; rewrite Rplus_assoc. Qed.

Definition R_zmodMixin := ZmodMixin RplusA Rplus_comm Rplus_0_l Rplus_opp_l.
Canonical R_zmodType := Eval hnf in ZmodType R R_zmodMixin.

Fact RmultA : associative Rmult.
Proof. by move=> *; rewrite Rmult_assoc. Qed.

Fact R1_neq_0 : R1 != R0.
Proof. by apply/eqP/R1_neq_R0. Qed.

Definition R_ringMixin := RingMixin RmultA Rmult_1_l Rmult_1_r Rmult_plus_distr_r Rmult_plus_distr_l R1_neq_0.
Canonical R_ringType := Eval hnf in RingType R R_ringMixin.
Canonical R_comRingType := Eval hnf in ComRingType R Rmult_comm.

Definition Rinvx r := if (r != 0) then / r else r.
Definition unit_R r := r != 0.

Lemma RmultRinvx : {in unit_R, left_inverse 1 Rinvx Rmult}.
Proof.
move=> r; rewrite -topredE /unit_R /Rinvx => /= rNZ /=.
by rewrite rNZ Rinv_l //; apply/eqP.
Qed.

Lemma RinvxRmult : {in unit_R, right_inverse 1 Rinvx Rmult}.
Proof.
move=> r; rewrite -topredE /unit_R /Rinvx => /= rNZ /=.
by rewrite rNZ Rinv_r //; apply/eqP.
Qed.

Lemma intro_unit_R x y : y * x = 1 /\ x * y = 1 -> unit_R x.
Proof.
move=> [yx_eq1 _]; apply/eqP => x0.
by move: yx_eq1; rewrite x0 Rmult_0_r => /esym; apply: R1_neq_R0.
Qed.

Lemma Rinvx_out : {in predC unit_R, Rinvx =1 id}.
Proof. by move=> x; rewrite inE /= /Rinvx -if_neg => ->. Qed.

Definition R_unitRingMixin := UnitRingMixin RmultRinvx RinvxRmult intro_unit_R Rinvx_out.
Canonical R_unitRing := Eval hnf in UnitRingType R R_unitRingMixin.
Canonical R_comUnitRingType := Eval hnf in [comUnitRingType of R].

Lemma R_idomainMixin x y : x * y = 0 -> (x == 0) || (y == 0).
Proof.
(do 2 case: (boolP (_ == _)) => // /eqP) => yNZ xNZ xy0.
by case: (Rmult_integral _ _ xy0).
Qed.

Canonical R_idomainType := Eval hnf in IdomainType R R_idomainMixin.

Lemma R_fieldMixin : GRing.Field.mixin_of [unitRingType of R].
Proof. by []. Qed.

Definition R_fieldIdomainMixin := FieldIdomainMixin R_fieldMixin.
Canonical R_fieldType := FieldType R R_fieldMixin.

(* ---- order ---- *)
Definition Rleb r1 r2 := if Rle_dec r1 r2 is left _ then true else false.
Definition Rltb r1 r2 := Rleb r1 r2 && (r1 != r2).

Lemma RlebP r1 r2 : reflect (r1 <= r2) (Rleb r1 r2).
Proof. by rewrite /Rleb; apply: (iffP idP); case: Rle_dec. Qed.

Lemma RltbP r1 r2 : reflect (r1 < r2) (Rltb r1 r2).
Proof.
rewrite /Rltb; apply: (iffP andP) => [[/RlebP h /eqP ne]|h].
  by case: h => // e; case: ne.
by split; [apply/RlebP; apply: Rlt_le|apply/eqP; apply: Rlt_not_eq].
Qed.

Section ssreal_struct.
Import Order.TTheory GRing.Theory Num.Theory Num.Def.
Local Open Scope R_scope.

Lemma Rleb_norm_add x y : Rleb (Rabs (x + y)) (Rabs x + Rabs y).
Proof. by apply/RlebP/Rabs_triang. Qed.

Lemma addr_Rgtb0 x y : Rltb 0 x -> Rltb 0 y -> Rltb 0 (x + y).
Proof. by move/RltbP=> Hx /RltbP Hy; apply/RltbP/Rplus_lt_0_compat. Qed.

Lemma Rnorm0_eq0 x : Rabs x = 0 -> x = 0.
Proof. by move=> H; case: (x == 0) /eqP => // /Rabs_no_R0. Qed.

Lemma Rleb_leVge x y : Rleb 0 x -> Rleb 0 y -> (Rleb x y) || (Rleb y x).
Proof.
move/RlebP=> Hx /RlebP Hy; case: (Rlt_le_dec x y).
  by move/Rlt_le/RlebP=> ->.
by move/RlebP=> ->; rewrite orbT.
Qed.

Lemma RnormM : {morph Rabs : x y / x * y}.
Proof. exact: Rabs_mult. Qed.

Lemma Rleb_def x y : (Rleb x y) = (Rabs (y - x) == y - x).
Proof.
apply/(sameP (RlebP x y))/(iffP idP) => [/eqP H| /Rle_minus H].
  apply: Rminus_le; rewrite -Ropp_minus_distr.
  apply/Rge_le/Ropp_0_le_ge_contravar; rewrite -H; apply: Rabs_pos.
apply/eqP/Rabs_pos_eq.
rewrite -Ropp_minus_distr; apply: Ropp_0_ge_le_contravar.
by apply: Rle_ge.
Qed.

Lemma Rltb_def x y : (Rltb x y) = (y != x) && (Rleb x y).
Proof.
apply/(sameP (RltbP x y))/(iffP idP).
  case/andP=> /eqP H /RlebP/Rle_not_gt H1.
  by case: (Rtotal_order x y) => // [] [/esym | /H1].
move=> H; apply/andP; split; [apply/eqP|apply/RlebP].
  exact: Rgt_not_eq.
exact: Rlt_le.
Qed.

Definition R_numMixin := NumMixin Rleb_norm_add addr_Rgtb0 Rnorm0_eq0 Rleb_leVge RnormM Rleb_def Rltb_def.
Canonical R_porderType := POrderType ring_display R R_numMixin.
Canonical R_numDomainType := NumDomainType R R_numMixin.
Canonical R_normedZmodType := NormedZmodType R R R_numMixin.

Lemma RleP : forall x y, reflect (Rle x y) (x <= y)%O.
Proof. exact: RlebP. Qed.
Lemma RltP : forall x y, reflect (Rlt x y) (x < y)%O.
Proof. exact: RltbP. Qed.

Lemma R_total : totalPOrderMixin R_porderType.
Proof.
move=> x y; case: (Rle_lt_dec x y) => [/RleP -> //|/Rlt_le/RleP ->]; exact: orbT.
Qed.

Canonical R_latticeType := LatticeType R R_total.
Canonical R_distrLatticeType := DistrLatticeType R R_total.
Canonical R_orderType := OrderType R R_total.
Canonical R_numFieldType := [numFieldType of R].
Canonical R_realDomainType := [realDomainType of R].
Canonical R_realFieldType := [realFieldType of R].

(* ---- real closedness: the intermediate value theorem for polynomials ---- *)
Lemma continuity_poly (p : {poly R}) : continuity (fun x => p.[x])%R.
Proof.
elim/poly_ind: p => [|p c IHp].
  by rewrite (_ : (fun _ => _) = (fun _ => 0%R)); [apply: continuity_const => ? ?|apply: functional_extensionality => x; rewrite horner0].
rewrite (_ : (fun _ => _) = (fun x => p.[x] * x + c)%R); last first.
  by apply: functional_extensionality => x; rewrite hornerMXaddC.
apply: continuity_plus; last by apply: continuity_const => ? ?.
by apply: continuity_mult => //; apply: derivable_continuous; apply: derivable_id.
Qed.

Lemma Rreal_closed_axiom : Num.real_closed_axiom R_numDomainType.
Proof.
move=> p a b; rewrite !le_eqVlt.
case Hpa: ((p.[a])%R == 0%R).
  by move=> ? _; exists a => //; rewrite lexx le_eqVlt.
case Hpb: ((p.[b])%R == 0%R).
  by move=> ? _; exists b => //; rewrite lexx le_eqVlt andbT.
case Hab: (a == b).
  by move=> _; rewrite (eqP Hab) eq_sym Hpb (ltNge 0) /=; case/andP=> /ltW ->.
rewrite eq_sym Hpb /=; clear=> /RltbP Hab /andP [] /RltbP Hpa /RltbP Hpb.
suff Hcp : continuity (fun x => (p.[x])%R).
  have [z [[Haz Hzb] Hz]] := IVT _ a b Hcp Hab Hpa Hpb.
  exists z; last by apply/rootP.
  by apply/andP; split; apply/RleP.
exact: continuity_poly.
Qed.

Canonical R_rcfType := RcfType R Rreal_closed_axiom.

End ssreal_struct.
