(* Schur product theorem over a real closed field: the entry-wise (Hadamard) product of two
   symmetric positive semi-definite matrices is positive semi-definite.  Proof: A + eI is spd, so it
   has a Cholesky factor (MxChol.cholm); (L L^T) o B = sum_k D_k B D_k is a sum of congruences of B;
   let e -> 0 (order argument, no topology). *)
From mathcomp Require Import all_ssreflect all_algebra.
From mathcomp Require Import ring.
From MellonV Require Import MatOps MxInst MxPsd MxChol.
Set Implicit Arguments.
Unset Strict Implicit.
Unset Printing Implicit Defensive.
Import Order.TTheory GRing.Theory Num.Theory.
Local Open Scope ring_scope.

Section SchurProd.
Variable F : rcfType.

Definition hadamard n (A B : 'M[F]_n) : 'M[F]_n := \matrix_(i, j) (A i j * B i j).

Lemma qf_sum n (A : 'M[F]_n) (v : 'cV[F]_n) : qf A v = \sum_i \sum_j v i 0 * A i j * v j 0.
Proof.
rewrite /qf mxE (eq_bigr (fun j => \sum_i v i 0 * A i j * v j 0)); first by rewrite exchange_big.
by move=> j _; rewrite mxE big_distrl /=; apply: eq_bigr => i _; rewrite mxE.
Qed.

Lemma sym_hadamard n (A B : 'M[F]_n) : sym A -> sym B -> sym (hadamard A B).
Proof.
move=> sA sB; apply/matrixP => i j; rewrite !mxE.
by rewrite -{1}sA -{1}sB !mxE.
Qed.

(* (L L^T) o B is a sum of congruences of B *)
Lemma qf_hadamard_gram n m (L : 'M[F]_(n, m)) (B : 'M[F]_n) v :
  qf (hadamard (L *m L^T) B) v = \sum_k qf B (\col_i (L i k * v i 0)).
Proof.
rewrite qf_sum.
under [RHS]eq_bigr => k _ do rewrite qf_sum.
rewrite [RHS]exchange_big /=; apply: eq_bigr => i _.
rewrite [RHS]exchange_big /=; apply: eq_bigr => j _.
rewrite !mxE big_distrl big_distrr big_distrl /=; apply: eq_bigr => k _.
by rewrite !mxE; ring.
Qed.

Lemma psd_hadamard_gram n m (L : 'M[F]_(n, m)) (B : 'M[F]_n) : psd B -> psd (hadamard (L *m L^T) B).
Proof.
by move=> pB v; rewrite qfE qf_hadamard_gram; apply: sumr_ge0 => k _; rewrite -qfE.
Qed.

Lemma qf_delta_mx n (A : 'M[F]_n) i : qf A (delta_mx i 0) = A i i.
Proof. by rewrite /qf trmx_delta -rowE -colE !mxE. Qed.

Lemma psd_diag_ge0 n (B : 'M[F]_n) i : psd B -> 0 <= B i i.
Proof. by move=> /(_ (delta_mx i 0)); rewrite qfE qf_delta_mx. Qed.

Lemma spd_shift n (K : 'M[F]_n) j : sym K -> psd K -> 0 < j -> spd (K + j%:M).
Proof. by move=> sK pK j0; split; [apply: symD => //; apply: sym_scalar|apply: pdDr => //; apply: pd_scalar]. Qed.

Lemma qf_hadamard_shift n (A B : 'M[F]_n) e v :
  qf (hadamard (A + e%:M) B) v = qf (hadamard A B) v + e * \sum_i B i i * v i 0 ^+ 2.
Proof.
rewrite !qf_sum big_distrr /= -big_split /=; apply: eq_bigr => i _.
rewrite (bigD1 i) //= [in RHS](bigD1 i) //=.
have -> : \sum_(j < n | j != i) v i 0 * hadamard (A + e%:M) B i j * v j 0
        = \sum_(j < n | j != i) v i 0 * hadamard A B i j * v j 0.
  by apply: eq_bigr => j ji; rewrite !mxE eq_sym (negbTE ji) mulr0n addr0.
by rewrite !mxE eqxx mulr1n; move: (\sum_(j < n | j != i) _) => S; move: (A i i) (B i i) (v i 0) => a b x; ring.
Qed.

(* order argument replacing the limit e -> 0 *)
Lemma ge0_by_eps (x c : F) : 0 <= c -> (forall e, 0 < e -> 0 <= x + e * c) -> 0 <= x.
Proof.
move=> c0 h; case: (ltrP x 0) => // x0.
move: c0; rewrite le_eqVlt => /orP [/eqP c0|c0].
  by have := h 1 ltr01; rewrite -c0 mulr0 addr0 leNgt x0.
have e0 : 0 < - x / (c *+ 2) by rewrite divr_gt0 ?oppr_gt0 // pmulrn_lgt0.
have := h _ e0.
have -> : x + - x / (c *+ 2) * c = x / 2%:R.
  by field; rewrite gt_eqF.
rewrite pmulr_lge0 ?invr_gt0 ?ltr0n // => x1.
by move: x0; rewrite ltNge x1.
Qed.

Theorem schur_product n (A B : 'M[F]_n) : sym A -> psd A -> psd B -> psd (hadamard A B).
Proof.
move=> sA pA pB v; rewrite qfE.
apply: (@ge0_by_eps _ (\sum_i B i i * v i 0 ^+ 2)).
  by apply: sumr_ge0 => i _; rewrite mulr_ge0 ?sqr_ge0 // psd_diag_ge0.
move=> e e0; rewrite -qf_hadamard_shift.
have sAe : spd (A + e%:M) by apply: spd_shift.
have [_ _ <-] := cholmP sAe.
by rewrite -qfE; apply: psd_hadamard_gram.
Qed.

End SchurProd.
