(* A Cholesky factorisation exists (and is computed by recursion on the dimension) for every
   symmetric positive definite matrix over a real closed field.  Consequence: the library
   contract [chol_contract] assumed by every world-B theorem is satisfiable, i.e. those
   theorems are not vacuous, and [cholm] can be substituted for the oracle. *)
From mathcomp Require Import all_ssreflect all_algebra.
From MellonV Require Import MatOps MxInst MxPsd.
Set Implicit Arguments.
Unset Strict Implicit.
Unset Printing Implicit Defensive.
Import Order.TTheory GRing.Theory Num.Theory.
Local Open Scope ring_scope.

Section Chol.
Variable F : rcfType.

(* strict version of MxPsd.schur_psd *)
Lemma schur_pd n m (A : 'M[F]_n) (B : 'M[F]_(n, m)) (C : 'M[F]_m) :
  spd A -> pd (block_mx A B B^T C) -> pd (C - B^T *m invmx A *m B).
Proof.
move=> sA pJ v v0; have uA := spd_unit sA; case: sA => sA _.
pose t := invmx A *m B *m v.
have tT : t^T = v^T *m B^T *m invmx A by rewrite /t !trmx_mul trmx_inv sA mulmxA.
have e0 : (- t)^T *m A + v^T *m B^T = 0.
  by rewrite linearN /= mulNmx tT -!mulmxA mulVmx // mulmx1 addNr.
have c0 : col_mx (- t) v != 0 by rewrite col_mx_eq0 negb_and v0 orbT.
have := pJ (col_mx (- t) v) c0; rewrite tr_col_mx mul_row_block mul_row_col e0 mul0mx add0r.
suff -> : v^T *m (C - B^T *m invmx A *m B) *m v = ((- t)^T *m B + v^T *m C) *m v by [].
by rewrite linearN /= tT mulmxBr mulmxBl mulmxDl !mulNmx addrC !mulmxA.
Qed.

Lemma sym_block n m (A : 'M[F]_(n + m)) :
  sym A -> [/\ sym (ulsubmx A), sym (drsubmx A) & ursubmx A = (dlsubmx A)^T].
Proof.
by rewrite /sym -{1 2}[A]submxK tr_block_mx => /eq_block_mx [h1 h2 h3 h4]; split.
Qed.

Lemma pd_ul n m (A : 'M[F]_(n + m)) : pd A -> pd (ulsubmx A).
Proof.
move=> pA v v0.
have c0 : col_mx v (0 : 'cV_m) != 0 by rewrite col_mx_eq0 negb_and v0.
have := pA _ c0; rewrite -{1}[A]submxK tr_col_mx mul_row_block mul_row_col.
by rewrite trmx0 !mul0mx !addr0 mulmx0 addr0.
Qed.

(* one step of the recursion:
     [ a  b^T ]   [ r   0  ] [ r  l^T  ]
     [ b  C   ] = [ l   L' ] [ 0  L'^T ]     r = sqrt a, l = b / r, L' L'^T = C - l l^T *)
Lemma schur_step n (A : 'M[F]_(1 + n)) :
  spd A ->
  let r := Num.sqrt (A 0 0) in let l := r^-1 *: dlsubmx A in
  [/\ 0 < r, r * r = A 0 0, ulsubmx A = (A 0 0)%:M, ursubmx A = (dlsubmx A)^T & spd (drsubmx A - l *m l^T)].
Proof.
move=> sA; have [symA pA] := sA.
have [sUL sDR eUR] := sym_block symA.
set a := A 0 0; set b := dlsubmx A; set C := drsubmx A.
have eUL : ulsubmx A = a%:M.
  by rewrite [LHS]mx11_scalar !mxE /a; congr (A _ _)%:M; apply: val_inj.
have a0 : 0 < a.
  have := pd_ul pA (v:=1%:M); rewrite eUL.
  have -> : ((1%:M : 'M[F]_1) != 0) by apply/eqP => /matrixP /(_ 0 0); rewrite !mxE /= => /eqP; rewrite oner_eq0.
  by move/(_ isT); rewrite trmx1 mul1mx mulmx1 mxE eqxx mulr1n.
move=> r l; have r0 : 0 < r by rewrite sqrtr_gt0.
have rr : r * r = a by rewrite -expr2 sqr_sqrtr // ltW.
have ll : l *m l^T = b *m invmx (a%:M : 'M[F]_1) *m b^T.
  rewrite /l linearZ /= -scalemxAl -scalemxAr scalerA invmx_scalar mul_mx_scalar -scalemxAl.
  by rewrite -invfM rr.
split=> //; split.
  by apply: symB => //; rewrite /sym trmx_mul trmxK.
have sa : spd (a%:M : 'M[F]_1) by split; [apply: sym_scalar | apply: pd_scalar].
have := @schur_pd 1 n a%:M b^T C sa.
rewrite trmxK -eUL -eUR submxK => /(_ pA).
by rewrite ll eUL eUR.
Qed.

Lemma chol_step n (A : 'M[F]_(1 + n)) (L' : 'M[F]_n) :
  spd A ->
  let r := Num.sqrt (A 0 0) in let l := r^-1 *: dlsubmx A in
  chol_of L' (drsubmx A - l *m l^T) -> chol_of (block_mx r%:M 0 l L') A.
Proof.
move=> sA r l [lL dL eL]; have [r0 rr eUL eUR _] := schur_step sA.
split.
- rewrite /is_lower; apply/is_trig_mxP; rewrite is_trig_block_mx // eqxx /=; apply/andP; split.
    by apply/is_trig_mxP => i j; rewrite !ord1.
  by apply/is_trig_mxP.
- move=> i; case: (split_ordP i) => k ->.
    by rewrite block_mxEul mxE eqxx mulr1n.
  by rewrite block_mxEdr.
- rewrite tr_block_mx mulmx_block trmx0 tr_scalar_mx !mulmx0 !mul0mx !addr0.
  rewrite -scalar_mxM rr mul_scalar_mx mul_mx_scalar eL.
  rewrite -[RHS]submxK eUL eUR; congr block_mx.
  + by rewrite /l linearZ /= scalerA divff ?scale1r // gt_eqF.
  + by rewrite /l scalerA divff ?scale1r // gt_eqF.
  + by rewrite addrC subrK.
Qed.

Fixpoint cholm (n : nat) : 'M[F]_n -> 'M[F]_n :=
  match n with
  | 0 => fun _ => 0
  | n'.+1 => fun A : 'M[F]_(1 + n') =>
      let r := Num.sqrt (A 0 0) in
      let l := r^-1 *: dlsubmx A in
      (block_mx r%:M 0 l (cholm (drsubmx A - l *m l^T)) : 'M[F]_(1 + n'))
  end.

Lemma cholmP n (A : 'M[F]_n) : spd A -> chol_of (cholm A) A.
Proof.
elim: n A => [A _|n IH A sA].
  by split=> [[]|[]|] //; apply/matrixP => -[].
apply: (@chol_step n A _ sA); apply: IH.
by have [] := @schur_step n A sA.
Qed.

Theorem chol_contract_cholm : chol_contract cholm.
Proof. by move=> n A; apply: cholmP. Qed.

Theorem chol_exists n (A : 'M[F]_n) : spd A -> exists L, chol_of L A.
Proof. by move=> sA; exists (cholm A); apply: cholmP. Qed.

(* the factor is unique: the contract pins the oracle down completely (every function that meets
   chol_contract agrees with cholm on spd inputs) *)
Lemma cholm_S n (A : 'M[F]_(1 + n)) :
  cholm A = block_mx (Num.sqrt (A 0 0))%:M 0 ((Num.sqrt (A 0 0))^-1 *: dlsubmx A)
              (cholm (drsubmx A - ((Num.sqrt (A 0 0))^-1 *: dlsubmx A) *m ((Num.sqrt (A 0 0))^-1 *: dlsubmx A)^T)).
Proof. by []. Qed.

Lemma chol_unique n (A L : 'M[F]_n) : chol_of L A -> L = cholm A.
Proof.
elim: n A L => [A L _|n IH A L [lL dL eL]]; first by apply/matrixP => -[].
change ('M[F]_(1 + n)) in A; change ('M[F]_(1 + n)) in L.
have trL : is_trig_mx L by apply/is_trig_mxP.
move: trL; rewrite -{1}[L]submxK (@is_trig_block_mx _ 1 n 1 n) // => /and3P [/eqP ur0 _ /is_trig_mxP lD].
set l11 := L 0 0; set l21 := dlsubmx L; set L22 := drsubmx L.
have eUL : ulsubmx L = l11%:M.
  by rewrite [LHS]mx11_scalar !mxE /l11; congr (L _ _)%:M; apply: val_inj.
have l0 : 0 < l11 by apply: dL.
have := eL; rewrite -{1 2}[L]submxK ur0 eUL (@tr_block_mx _ 1 n 1 n) (@mulmx_block _ 1 n 1 n 1 n) trmx0 tr_scalar_mx !mulmx0 !mul0mx !addr0.
rewrite -scalar_mxM mul_scalar_mx mul_mx_scalar -/l21 -/L22 -[A in _ = A]submxK.
move=> hB; have [e11 e12 e21 e22] := @eq_block_mx _ 1 n 1 n _ _ _ _ _ _ _ _ hB.
have ea : l11 * l11 = A 0 0.
  have := congr1 (fun M : 'M[F]_1 => M 0 0) e11; rewrite !mxE eqxx mulr1n => ->.
  by congr (A _ _); apply: val_inj.
have er : Num.sqrt (A 0 0) = l11 by rewrite -ea -expr2 sqrtr_sqr gtr0_norm.
have el : (Num.sqrt (A 0 0))^-1 *: dlsubmx A = l21.
  by rewrite er -e21 scalerA mulVf ?scale1r // gt_eqF.
have c22 : chol_of L22 (drsubmx A - l21 *m l21^T).
  split=> //; first by move=> i; have := dL (rshift 1 i); rewrite -{1}[L]submxK (@block_mxEdr _ 1 n 1 n).
  by rewrite -e22 addrC addKr.
by rewrite cholm_S el er -(IH _ _ c22) -{1}[L]submxK ur0 eUL.
Qed.

Theorem chol_contract_unique (c1 c2 : forall n : nat, 'M[F]_n -> 'M[F]_n) :
  chol_contract c1 -> chol_contract c2 -> forall n (A : 'M[F]_n), spd A -> c1 n A = c2 n A.
Proof. by move=> h1 h2 n A sA; rewrite (chol_unique (h1 n A sA)) (chol_unique (h2 n A sA)). Qed.

End Chol.
