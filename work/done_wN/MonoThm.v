(* C06: "the predictive variance never increases when inducing points are added".
   Pure algebra first (a variational bound for x^T A^-1 x and its block monotonicity), then the
   statement for the generated covariance bodies of the inducing-point predictors. *)
From mathcomp Require Import all_ssreflect all_fingroup all_algebra.
From MellonV Require Import MatOps MxInst MxPsd MxChol MatGen CondThm FactorThm CovThm.
Set Implicit Arguments.
Unset Strict Implicit.
Unset Printing Implicit Defensive.
Import Order.TTheory GRing.Theory Num.Theory.
Local Open Scope ring_scope.

Section MonoAlg.
Variable F : rcfType.

Lemma mx11_tr (M : 'M[F]_1) : M^T = M.
Proof. by apply/matrixP => i j; rewrite !mxE !ord1. Qed.

(* for spd A:  c^T A^-1 c  >=  2 t^T c - t^T A t   for every t (equality at t = A^-1 c) *)
Lemma inv_variational n (A : 'M[F]_n) (c t : 'cV[F]_n) :
  spd A -> (t^T *m c) 0 0 + (t^T *m c) 0 0 - qf A t <= qf (invmx A) c.
Proof.
move=> sA; have uA := spd_unit sA; have [symA pA] := sA.
have symI : (invmx A)^T = invmx A by apply: sym_inv.
pose u := invmx A *m c.
have h := pd_psd pA (u - t); rewrite qfE /qf in h.
have e1 : (u^T *m A *m u) = c^T *m invmx A *m c.
  by rewrite /u trmx_mul symI -!mulmxA (mulmxA A) mulmxV // mul1mx.
have e2 : (u^T *m A *m t) = (t^T *m c)^T.
  by rewrite /u trmx_mul symI -(mulmxA c^T) mulVmx // mulmx1 trmx_mul trmxK.
have e3 : (t^T *m A *m u) = t^T *m c.
  by rewrite /u mulmxA -(mulmxA t^T) mulmxV // mulmx1.
move: h; rewrite mulmxBr linearB /= !mulmxBl e1 e2 e3 mx11_tr /qf.
move: (c^T *m invmx A *m c) (t^T *m c) (t^T *m A *m t) => X Y Z; rewrite !mxE.
move: (X 0 0) (Y 0 0) (Z 0 0) => x y z; rewrite opprB addrA subr_ge0 => h.
by rewrite ler_subl_addr -(ler_add2r (- y)) addrK addrAC.
Qed.

(* block monotonicity:  [c1; c2]^T [[A1, B], [B^T, D]]^-1 [c1; c2]  >=  c1^T A1^-1 c1 *)
Lemma inv_block_mono n1 n2 (A1 : 'M[F]_n1) (B : 'M[F]_(n1, n2)) (D : 'M[F]_n2) (c1 : 'cV[F]_n1) (c2 : 'cV[F]_n2) :
  spd A1 -> spd (block_mx A1 B B^T D) ->
  qf (invmx A1) c1 <= qf (invmx (block_mx A1 B B^T D)) (col_mx c1 c2).
Proof.
move=> sA1 sA; have uA1 := spd_unit sA1; have [symA1 _] := sA1.
have symI : (invmx A1)^T = invmx A1 by apply: sym_inv.
pose t1 := invmx A1 *m c1.
have := inv_variational (col_mx c1 c2) (col_mx t1 0) sA.
have -> : (col_mx t1 (0 : 'cV[F]_n2))^T *m col_mx c1 c2 = t1^T *m c1.
  by rewrite tr_col_mx mul_row_col trmx0 mul0mx addr0.
have -> : qf (block_mx A1 B B^T D) (col_mx t1 0) = qf A1 t1.
  by rewrite /qf tr_col_mx mul_row_block mul_row_col trmx0 !mul0mx !addr0 mulmx0 addr0.
have e : t1^T *m c1 = c1^T *m invmx A1 *m c1 by rewrite /t1 trmx_mul symI.
have -> : qf A1 t1 = qf (invmx A1) c1.
  by rewrite /qf /t1 trmx_mul symI -!mulmxA (mulmxA A1) mulmxV // mul1mx !mulmxA.
by rewrite e -/(qf (invmx A1) c1) addrK.
Qed.

(* Loewner form:  C1^T A1^-1 C1  <=  [C1; C2]^T A^-1 [C1; C2] *)
Lemma proj_block_mono n1 n2 q (A1 : 'M[F]_n1) (B : 'M[F]_(n1, n2)) (D : 'M[F]_n2)
      (C1 : 'M[F]_(n1, q)) (C2 : 'M[F]_(n2, q)) :
  spd A1 -> spd (block_mx A1 B B^T D) ->
  loe (C1^T *m invmx A1 *m C1) ((col_mx C1 C2)^T *m invmx (block_mx A1 B B^T D) *m col_mx C1 C2).
Proof.
move=> sA1 sA; apply/loe_qf => v; rewrite !qf_congr mul_col_mx.
exact: inv_block_mono.
Qed.

End MonoAlg.

Section MonoGen.
Variable F : rcfType.
Variable cholF : forall n : nat, 'M[F]_n -> 'M[F]_n.
Variable eigS : forall n p : nat, 'M[F]_n -> 'cV[F]_p.
Variable eigV : forall n p : nat, 'M[F]_n -> 'M[F]_(n, p).
Variable qrQ : forall n m k : nat, 'M[F]_(n, m) -> 'M[F]_(n, k).
Variable qrR : forall n m k : nat, 'M[F]_(n, m) -> 'M[F]_(k, m).
Let ops := MxOps cholF eigS eigV qrQ qrR.
Local Existing Instance ops.

(* conditioning set 1 (b1 points, regularised Gram A1, factor L1) is enlarged by b2 points;
   A = [[A1, B], [B^T, D]] is the regularised Gram of the enlarged set, L its factor *)
Lemma var_monotone_in_inducing_points q b1 b2 (Kss : 'M[F]_q)
      (A1 : 'M[F]_b1) (B : 'M[F]_(b1, b2)) (D : 'M[F]_b2)
      (K1s : 'M[F]_(b1, q)) (K2s : 'M[F]_(b2, q)) (L1 : 'M[F]_b1) (L : 'M[F]_(b1 + b2)) :
  spd A1 -> spd (block_mx A1 B B^T D) ->
  chol_of L1 A1 -> chol_of L (block_mx A1 B B^T D) ->
  loe (LandmarksCond_covariance_dF Kss (col_mx K1s K2s) L) (LandmarksCond_covariance_dF Kss K1s L1)
  /\ forall i, (LandmarksCond_covariance_dF Kss (col_mx K1s K2s) L) i i
               <= (LandmarksCond_covariance_dF Kss K1s L1) i i.
Proof.
move=> sA1 sA cL1 cL.
have e1 : LandmarksCond_covariance_dF Kss K1s L1 = Kss - K1s^T *m invmx A1 *m K1s.
  by have := @cov_closed F cholF eigS eigV qrQ qrR q b1 Kss K1s A1 0 L1; rewrite addr0; apply.
have e2 : LandmarksCond_covariance_dF Kss (col_mx K1s K2s) L
          = Kss - (col_mx K1s K2s)^T *m invmx (block_mx A1 B B^T D) *m col_mx K1s K2s.
  by have := @cov_closed F cholF eigS eigV qrQ qrR q (b1 + b2) Kss (col_mx K1s K2s) (block_mx A1 B B^T D) 0 L; rewrite addr0; apply.
have h : loe (LandmarksCond_covariance_dF Kss (col_mx K1s K2s) L) (LandmarksCond_covariance_dF Kss K1s L1).
  rewrite e1 e2 /loe opprB addrC addrA subrK.
  exact: (proj_block_mono K1s K2s sA1 sA).
split=> // i; have /loe_qf /(_ (delta_mx i 0)) := h.
by rewrite !qf_delta.
Qed.

End MonoGen.
