(* C16: in-sample predictions of the full model shrink monotonically towards the prior mean as sigma grows.
   With a = max(sigma^2, jitter) the in-sample deviation from the prior mean is M_a r, M_a = K (K + aI)^-1,
   r = y - mu; for 0 < a <= b,  M_a^2 - M_b^2 = (b - a) [ (K Ai)^T Bi (K Ai) + (K Bi)^T Ai (K Bi) ]  is psd
   (Ai = (K+aI)^-1, Bi = (K+bI)^-1, all commuting), hence |M_b r|^2 <= |M_a r|^2 for every r. *)
From mathcomp Require Import all_ssreflect all_fingroup all_algebra.
From MellonV Require Import MatOps MxInst MxPsd MatGen CondThm AffineThm.
Set Implicit Arguments.
Unset Strict Implicit.
Unset Printing Implicit Defensive.
Import Order.TTheory GRing.Theory Num.Theory.
Local Open Scope ring_scope.

Section ShrinkAlg.
Variable F : rcfType.
Variables (n : nat) (K : 'M[F]_n).
Hypothesis symK : sym K.
Hypothesis psdK : psd K.

Let A (a : F) := K + a%:M.
Let Ai (a : F) := invmx (A a).

Lemma shiftA_spd a : 0 < a -> spd (A a).
Proof. by move=> a0; split; [apply: symD => //; apply: sym_scalar|apply: pdDr => //; apply: pd_scalar]. Qed.

Lemma shiftA_unit a : 0 < a -> A a \in unitmx.
Proof. by move=> a0; apply: spd_unit; apply: shiftA_spd. Qed.

(* K (K+aI)^-1 = I - a (K+aI)^-1 = (K+aI)^-1 K *)
Lemma KAi a : 0 < a -> K *m Ai a = 1%:M - a *: Ai a.
Proof.
move=> a0; have -> : K = A a - a%:M by rewrite /A addrK.
by rewrite mulmxBl mulmxV ?shiftA_unit // mul_scalar_mx.
Qed.

Lemma AiK a : 0 < a -> Ai a *m K = 1%:M - a *: Ai a.
Proof.
move=> a0; have {1}-> : K = A a - a%:M by rewrite /A addrK.
by rewrite mulmxBr mulVmx ?shiftA_unit // mul_mx_scalar.
Qed.

Lemma Ai_sym a : 0 < a -> (Ai a)^T = Ai a.
Proof. by move=> a0; apply: sym_inv; case: (shiftA_spd a0). Qed.

Lemma Ai_psd a : 0 < a -> psd (Ai a).
Proof. by move=> a0; apply: pd_psd; apply: pd_inv; apply: shiftA_spd. Qed.

Lemma KAi_sym a : 0 < a -> (K *m Ai a)^T = K *m Ai a.
Proof. by move=> a0; rewrite KAi // linearB linearZ /= trmx1 Ai_sym. Qed.

(* the difference of the two smoothers *)
Lemma smoother_diff a b : 0 < a -> 0 < b ->
  K *m Ai a - K *m Ai b = (b - a) *: (Ai a *m K *m Ai b).
Proof.
move=> a0 b0.
have e1 : Ai a *m K *m Ai b = Ai a - b *: (Ai a *m Ai b).
  by rewrite -mulmxA KAi // mulmxBr mulmx1 -scalemxAr.
have e2 : Ai a *m K *m Ai b = Ai b - a *: (Ai a *m Ai b).
  by rewrite AiK // mulmxBl mul1mx -scalemxAl.
rewrite scalerBl {1}e2 e1 !scalerBr !scalerA (mulrC a b) !KAi //.
move: (a *: Ai a) (b *: Ai b) ((b * a) *: _) => X Y Z.
have -> : 1%:M - X - (1%:M - Y) = Y - X by rewrite opprB addrC addrA subrK.
by rewrite opprB addrA subrK.
Qed.

Definition sqn (v : 'cV[F]_n) : F := (v^T *m v) 0 0.

Lemma smoother_sq_diff a b : 0 < a -> 0 < b ->
  (K *m Ai a) *m (K *m Ai a) - (K *m Ai b) *m (K *m Ai b)
  = (b - a) *: ((K *m Ai a)^T *m Ai b *m (K *m Ai a) + (K *m Ai b)^T *m Ai a *m (K *m Ai b)).
Proof.
move=> a0 b0; set Ma := K *m Ai a; set Mb := K *m Ai b.
have -> : Ma *m Ma - Mb *m Mb = (Ma - Mb) *m Ma + Mb *m (Ma - Mb).
  by rewrite mulmxBl mulmxBr addrA subrK.
rewrite /Ma /Mb smoother_diff // -!scalemxAl -!scalemxAr -scalerDr; congr (_ *: _).
rewrite !KAi_sym //; congr (_ + _); last by rewrite !mulmxA.
have -> : K *m Ai a = Ai a *m K by rewrite KAi // AiK.
by rewrite !mulmxA.
Qed.

Lemma smoother_shrinks a b (r : 'cV[F]_n) : 0 < a -> a <= b ->
  sqn (K *m Ai b *m r) <= sqn (K *m Ai a *m r).
Proof.
move=> a0 ab; have b0 : 0 < b by apply: lt_le_trans ab.
have sq c : 0 < c -> sqn (K *m Ai c *m r) = qf ((K *m Ai c) *m (K *m Ai c)) r.
  by move=> c0; rewrite /sqn /qf trmx_mul KAi_sym // !mulmxA.
rewrite !sq // -subr_ge0 -qfB smoother_sq_diff // qfZ mulr_ge0 ?subr_ge0 // qfD addr_ge0 //.
  by rewrite -qfE; apply: psd_congr; apply: Ai_psd.
by rewrite -qfE; apply: psd_congr; apply: Ai_psd.
Qed.

End ShrinkAlg.

Section ShrinkGen.
Variable F : rcfType.
Variable cholF : forall n : nat, 'M[F]_n -> 'M[F]_n.
Variable eigS : forall n p : nat, 'M[F]_n -> 'cV[F]_p.
Variable eigV : forall n p : nat, 'M[F]_n -> 'M[F]_(n, p).
Variable qrQ : forall n m k : nat, 'M[F]_(n, m) -> 'M[F]_(n, k).
Variable qrR : forall n m k : nat, 'M[F]_(n, m) -> 'M[F]_(k, m).
Hypothesis chol_ok : chol_contract cholF.
Let ops := MxOps cholF eigS eigV qrQ qrR.
Local Existing Instance ops.

(* in-sample prediction of the full model with noise level sigma, minus the prior mean *)
Definition insample_dev n (K : 'M[F]_n) (y : 'cV[F]_n) (mu sigma j : F) : 'cV[F]_n :=
  FullCond_mean K mu (FullCond_init_LN_sS_cN_yF_uF_weights K y mu sigma j) - const_mx mu.

Lemma insample_devE n (K : 'M[F]_n) (y : 'cV[F]_n) mu sigma j :
  sym K -> psd K -> 0 < j ->
  insample_dev K y mu sigma j = K *m invmx (K + (Num.max (sigma ^+ 2) j)%:M) *m (y - const_mx mu).
Proof.
move=> sK pK j0; rewrite /insample_dev full_weights_scalar // /FullCond_mean /=.
by rewrite addrC addKr mulmxA.
Qed.

Lemma shrinkage_monotone n (K : 'M[F]_n) (y : 'cV[F]_n) mu s t j :
  sym K -> psd K -> 0 < j -> s ^+ 2 <= t ^+ 2 ->
  sqn (insample_dev K y mu t j) <= sqn (insample_dev K y mu s j).
Proof.
move=> sK pK j0 st; rewrite !insample_devE //.
apply: smoother_shrinks => //; first by apply: max_jitter_gt0.
by rewrite le_maxl le_maxr st /= le_maxr lexx orbT.
Qed.

End ShrinkGen.
