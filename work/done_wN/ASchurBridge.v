(* Bridge from world B to world A for C05: the Schur product theorem for MathComp matrices over a real
   closed field (lib/MxSchurProd.v), instantiated at Coq's R (lib/Rstruct.v), gives the statement the
   kernel-algebra closure theorem of thm/APsdThm.v needs: the pointwise product of two symmetric positive
   semi-definite kernels (in the list-over-R presentation generated from the source) is positive semi-definite. *)
From Coq Require Import Reals List.
From mathcomp Require Import all_ssreflect all_algebra.
From MellonV Require Import ALists AKernels AKExpr AKernelsThm APsdThm.
From MellonV Require Import Rstruct MatOps MxInst MxPsd MxChol MxSchurProd.
Set Implicit Arguments.
Unset Strict Implicit.
Unset Printing Implicit Defensive.
Import GRing.Theory Num.Theory.

Section Bridge.
Local Open Scope ring_scope.

(* list sums as big sums *)
Lemma sum_list_big (l : list R) : sum_list l = \sum_(i < size l) nth (0 : R) l i.
Proof.
elim: l => [|a l IH] /=; first by rewrite big_ord0.
by rewrite big_ord_recl /= IH.
Qed.

Lemma map2_nth {A B : Type} (f : A -> B -> R) (da : A) (db : B) la lb (i : nat) :
  size la = size lb -> (i < size la)%N ->
  nth (0 : R) (map2 f la lb) i = f (nth da la i) (nth db lb i).
Proof.
elim: la lb i => [|a la IH] [|b lb] [|i] //= [e] lt_i.
by apply: IH.
Qed.

Lemma size_map2 {A B C : Type} (f : A -> B -> C) la lb : size la = size lb -> size (map2 f la lb) = size la.
Proof. by elim: la lb => [|a la IH] [|b lb] //= [e]; rewrite IH. Qed.

Lemma sum_map2_big {A B : Type} (f : A -> B -> R) (da : A) (db : B) la lb :
  size la = size lb ->
  sum_list (map2 f la lb) = \sum_(i < size la) f (nth da la i) (nth db lb i).
Proof.
move=> e; rewrite sum_list_big size_map2 //.
by apply: eq_bigr => i _; rewrite (map2_nth f da db).
Qed.

(* Gram matrix and weight vector of a point list *)
Definition gramR (k : list R -> list R -> R) (pts : list (list R)) : 'M[R]_(size pts) :=
  \matrix_(i, j) k (nth [::] pts i) (nth [::] pts j).
Definition colR n (v : list R) : 'cV[R]_n := \col_i nth (0 : R) v i.

Lemma quad_qf k pts v : size v = size pts -> quad k pts v = qf (gramR k pts) (colR (size pts) v).
Proof.
move=> e; rewrite /quad qf_sum (sum_map2_big _ (0 : R) [::]) // e.
apply: eq_bigr => i _; rewrite (sum_map2_big _ (0 : R) [::]) // e.
by apply: eq_bigr => j _; rewrite !mxE /GRing.mul /= Rmult_assoc (Rmult_comm (nth 0 v j)) -Rmult_assoc.
Qed.

Lemma colR_surj n (u : 'cV[R]_n) : colR n [seq u i 0 | i <- enum 'I_n] = u.
Proof.
apply/matrixP => i j; rewrite !mxE ord1 (nth_map i) ?size_enum_ord // nth_ord_enum.
by [].
Qed.

Lemma len_seq n (u : 'cV[R]_n) : length [seq u i 0 | i <- enum 'I_n] = n.
Proof. exact: (etrans (size_map _ _) (size_enum_ord _)). Qed.

Lemma psd_gramR k pts : APsdThm.psd k -> MxInst.psd (gramR k pts).
Proof.
move=> pk u; rewrite qfE -(colR_surj u) -quad_qf; last exact: len_seq.
by apply/RleP; apply: pk; exact: len_seq.
Qed.

Lemma sym_gramR k pts : ksym k -> sym (gramR k pts).
Proof. by move=> sk; apply/matrixP => i j; rewrite !mxE. Qed.

Lemma gramR_mul k1 k2 pts :
  gramR (fun x y => Rmult (k1 x y) (k2 x y)) pts = hadamard (gramR k1 pts) (gramR k2 pts).
Proof. by apply/matrixP => i j; rewrite !mxE. Qed.

End Bridge.

(* the hypothesis [hadamard_psd] of APsdThm.keval_psd_partial, now a theorem *)
Theorem hadamard_psd_R (k1 k2 : list R -> list R -> R) :
  ksym k1 -> ksym k2 -> APsdThm.psd k1 -> APsdThm.psd k2 -> APsdThm.psd (fun x y => Rmult (k1 x y) (k2 x y)).
Proof.
move=> s1 s2 p1 p2 pts v e.
rewrite quad_qf // gramR_mul.
apply/RleP; rewrite -qfE; apply: schur_product; [exact: sym_gramR|exact: psd_gramR|exact: psd_gramR].
Qed.

(* closure of the kernel algebra with the Schur product discharged: only Bochner's theorem for the
   base profiles remains a hypothesis *)
Theorem keval_psd_bochner_only :
  (forall b ls, base_ok b ls -> APsdThm.psd (base_k b ls)) ->
  forall e, psd_shape e -> APsdThm.psd (keval e).
Proof. by move=> kb e se; apply: keval_psd_partial => //; exact: hadamard_psd_R. Qed.
