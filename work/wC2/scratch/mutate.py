import subprocess, sys, json, os, shutil
REPO="/tmp/wC2_repo"
def run(pid, name, path, old, new, count=1):
    p=os.path.join(REPO,path)
    src=open(p).read()
    assert src.count(old)>=1, (name, "pattern not found")
    open(p,"w").write(src.replace(old,new,count))
    try:
        import glob
        for f in glob.glob("/verif/replays/%s-*.json"%pid): os.remove(f)
        env=dict(os.environ, MELLON_REPO=REPO)
        r=subprocess.run(["bin/check",pid],cwd="/verif",env=env,capture_output=True,text=True)
        out=[l for l in r.stdout.splitlines() if "auto_activate" not in l]
        ev=json.load(open("/verif/evidence/%s.json"%pid))
        keys=[]
        import glob
        for f in sorted(glob.glob("/verif/replays/%s-0-*.json"%pid)):
            keys.append(json.load(open(f)).get("key"))
        print("=== %s: rc=%d %s"%(name,r.returncode,out[-1] if out else ""))
        for b in ev["coverage"]["broken"][:4]: print("   broken:", b[:260].replace("\n"," "))
        print("   violation keys:", sorted(set(keys))[:6])
    finally:
        open(p,"w").write(src)
if __name__=="__main__":
    which=sys.argv[1:]
    M={
     "mask-ge": ("C14","mellon/parameters.py","mask = x[:, -1] == time","mask = x[:, -1] >= time"),
     "lt1": ("C14","mellon/parameters.py","if n_samples < 2:","if n_samples < 1:"),
     "exp-d": ("C14","mellon/parameters.py","1 / d if ndim(d) == 0 else 1 / d[mask]","d if ndim(d) == 0 else d[mask]"),
     "ls-normalized": ("C14","mellon/time_sensitive_density_estimator.py","nn_distances = compute_nn_distances_within_time_points(x, normalize=False)","nn_distances = compute_nn_distances_within_time_points(x, d=self.d, normalize=normalized)"),
     "list-by-position": ("C14","mellon/parameters.py","return normalize[unique_times.tolist().index(time)]","return normalize[list(dict.fromkeys(unique_times.tolist()[::-1])).index(time)]"),
     "nobs-ncells": ("C14","mellon/time_sensitive_density_estimator.py","log_density_func.n_obs = compute_average_cell_count(x, normalize)","log_density_func.n_obs = x.shape[0]"),
     "nobs-avg-ncells": ("C14","mellon/parameters.py","        return n_cells / n_unique_times\n","        return n_cells\n"),
    }
    DE="mellon/density_estimator.py"
    M.update({
     "mu-before-d": ("C18",DE,'        self._prepare_attribute("d")\n        self._prepare_attribute("mu")\n','        self._prepare_attribute("mu")\n        self._prepare_attribute("d")\n'),
     "recompute": ("C18","mellon/base_model.py","        if getattr(self, attribute) is not None:\n            return\n","        if getattr(self, attribute) is not None:\n            pass\n"),
     "fp-no-guard": ("C18",DE,"        if self.x is not None and x is not None and self.x is not x:","        if False:"),
     "stale-predict": ("C18",DE,"        if build_predict:\n            self._set_log_density_func()","        if build_predict and self.log_density_func is None:\n            self._set_log_density_func()"),
     "read-later": ("C18",DE,"    def _compute_mu(self):\n        nn_distances = self.nn_distances\n","    def _compute_mu(self):\n        ls = self.ls\n        nn_distances = self.nn_distances\n"),
    })
    for w in which:
        run(M[w][0], w, *M[w][1:])
