import logging, numpy as np, mellon
mellon.logger.setLevel(logging.CRITICAL)
rng=np.random.default_rng(0); X=rng.normal(size=(12,2))
kw=dict(optimizer="adam", n_iter=2, jit=False, k=3)
ref=mellon.DimensionalityEstimator(**kw).fit(X)
for S in (["d"],["L","initial_value"],["cov_func"],["ls"]):
    e=mellon.DimensionalityEstimator(**dict(kw, **{a:getattr(ref,a) for a in S})).fit(X); print(S, [a for a in ["distances","nn_distances","d","mu_dens","ls","cov_func","Lp","L","initial_value","transform","loss_func","pre_transformation","local_dim_x","log_density_x","local_dim_func","log_density_func"] if getattr(e,a) is None])
    for a in ["distances","nn_distances","d","mu_dens","ls","L","initial_value","pre_transformation","local_dim_x","log_density_x"]:
        v,r=np.asarray(getattr(e,a)),np.asarray(getattr(ref,a))
        if not (v.shape==r.shape and v.dtype==r.dtype and np.array_equal(v,r)): print(S,a,v.shape,r.shape,v.dtype,r.dtype, float(np.abs(v-r).max()) if v.shape==r.shape else "")
