import logging, time, copy, numpy as np, jax.numpy as jnp
import mellon
mellon.logger.setLevel(logging.CRITICAL)
rng = np.random.default_rng(0)
X = rng.normal(size=(12,2)); F = rng.normal(size=(12,2))
kw = dict(optimizer="adam", n_iter=2, jit=False, n_landmarks=0)
def mk(cls=mellon.DensityEstimator, **k):
    return cls(**dict(kw, **k))
def t(label, f):
    t0=time.time()
    try: r=f(); s="ok"
    except Exception as e: s=type(e).__name__+": "+str(e)[:70]
    print("%-40s %-60s %.3fs"%(label, s, time.time()-t0))
e=mk(); t("fit", lambda: e.fit(X)); t("fit again None", lambda: e.fit()); t("fit X again", lambda: e.fit(X)); t("fit est.x", lambda: e.fit(e.x)); t("fit F", lambda: e.fit(F))
t("fit_predict None", lambda: e.fit_predict()); t("fit_predict X", lambda: e.fit_predict(X)); t("fit_predict B", lambda: e.fit_predict(e.x)); t("predict", lambda: e.predict(X))
e=mk(); t("run before prepare", lambda: e.run_inference())
e=mk(); t("process before anything", lambda: e.process_inference())
e=mk(); t("predict before anything", lambda: e.predict)
e=mk(); t("prepare None unbound", lambda: e.prepare_inference(None)); t("set_x None unbound", lambda: e.set_x(None)); t("fit None unbound", lambda: e.fit()); t("fit_predict None unbound", lambda: e.fit_predict())
e=mk(); t("set_x X", lambda: e.set_x(X)); t("set_x X again", lambda: e.set_x(X)); t("set_x B", lambda: e.set_x(e.x)); t("prepare X", lambda: e.prepare_inference(X)); t("prepare None", lambda: e.prepare_inference(None)); t("process before run", lambda: e.process_inference()); t("predict before run", lambda: e.predict); t("run", lambda: e.run_inference()); t("predict lazily", lambda: e.predict(X)); print(e.log_density_x is None); t("process F", lambda: e.process_inference(build_predict=False)); 
J = jnp.asarray(X)
e=mk(); t("set_x J", lambda: e.set_x(J)); print(e.x is J); t("fit J", lambda: e.fit(J)); t("fit_predict J", lambda: e.fit_predict(J))
e2=copy.copy(e); print(e2.x is e.x)
for cls,k in ((mellon.DimensionalityEstimator, dict(k=3)), (mellon.TimeSensitiveDensityEstimator, dict(ls_time=1.0))):
    Xc = X if cls is mellon.DimensionalityEstimator else np.concatenate([X, np.repeat([0.,1.],6)[:,None]],axis=1)
    e=mk(cls, **k); t(cls.__name__+" fit", lambda: e.fit(Xc)); t(" fit again", lambda: e.fit()); t(" predict", lambda: e.predict(Xc))
    e=mk(cls, **k); t(" run before prepare", lambda: e.run_inference()); t(" process before", lambda: e.process_inference()); t(" predict before", lambda: e.predict)
