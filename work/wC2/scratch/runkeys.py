import sys, os, collections
sys.path.insert(0, "/verif")
from vlib import core
import importlib
pid = sys.argv[1]
ctx = core.Ctx(pid, os.environ.get("VERIF_TIER", "quick"), int(os.environ.get("VERIF_SEED", "0")))
mod = importlib.import_module("checks." + pid)
mod.run(ctx)
c = collections.Counter(k for k, _, _ in ctx.violations)
for k, v in c.items(): print(v, k)
print("known hits", ctx.known_hits)
print("broken", len(ctx.broken))
for b in ctx.broken[:15]: print("  ", str(b)[:700])
print("wall", ctx.cov.get("evaluations"))
seenk=set()
for k,_,rp in ctx.violations:
    kk=k.split("|")[2] if k.count("|")>=2 else k
    if kk in seenk: continue
    seenk.add(kk); print(k, {a:b for a,b in rp.items() if a!="x"})
