import sys
sys.path.insert(0, "/verif")
import importlib
C = importlib.import_module("checks.C18")
gen, funcs, info = C.translate()
for rel, text in gen.items():
    open("/verif/work/wC2/" + rel, "w").write(text)
    print("wrote", rel, len(text))
