#!/bin/bash
# run a check in-process and list all violation keys
cd /verif
export PYTHONPATH=/verif:${MELLON_REPO:-/repo}
export JAX_PLATFORMS=cpu PYTHONHASHSEED=0 JAX_ENABLE_X64=1 MELLON_VERIF=1
export OMP_NUM_THREADS=4 XLA_FLAGS="--xla_cpu_multi_thread_eigen=false intra_op_parallelism_threads=4"
export PYTHONDONTWRITEBYTECODE=1
/venv/bin/python work/wC2/scratch/runkeys.py "$@" 2>&1 | grep -v auto_activate
