import sys
sys.path.insert(0, "/verif")
import importlib
C14 = importlib.import_module("checks.C14")
gen, funcs = C14.translate()
for rel, text in gen.items():
    open("/verif/work/wC2/" + rel, "w").write(text)
    print("wrote", rel, len(text))
