From Coq Require Import ZArith QArith List Bool Lia.
From MellonV Require Import PyVal PyValFacts PyValExtC14 C14Gen C14Model C14Thm.
Import ListNotations.
Open Scope Z_scope.

Lemma vtx_column n c dat :
  py_validation_validate_time_x (VArr KF [n; c] dat) VNone VNone (VBool false) = Ok (VArr KF [n; c] dat).
Proof. Time reflexivity. Qed.

Lemma prologue_column_off n c dat d nz : 1 <= c -> nz = VNone \/ nz = VBool false ->
  nnwt_prologue (VArr KF [n; c] dat) VNone d nz
  = bind (np_empty (VInt n)) (fun init =>
    bind (py_truediv (VInt n) (VInt (n_unique dat n c))) (fun av =>
    Ok (VTuple [VArr KF [n; c] dat; VArr KF [n_unique dat n c] (sort_dedup (col_list dat n c (c - 1))); init; av; d]))).
Proof.
  intros Hc Hnz. unfold nnwt_prologue.
  cbn [bind]. rewrite vtx_column. cbn [bind bind2].
  unfold np_col. cbn [as_num].
  destruct (Z.ltb_spec (-1) 0); [|lia].
  destruct (Z.leb_spec 0 (-1 + c)); [|lia]. destruct (Z.ltb_spec (-1 + c) c); [|lia].
  replace (-1 + c) with (c - 1) by lia.
  cbn [andb bind np_unique np_shape map py_getitem_x py_getitem np_index1 as_num].
  cbn [length Z.of_nat Z.ltb Z.leb Z.compare andb Pos.of_succ_nat Pos.succ]. unfold nthZ. cbn [Z.to_nat nth].
  fold (n_unique dat n c).
  change (bind2 py_getitem_x (Ok (VTuple [VInt n; VInt c])) (Ok (VInt 0))) with (Ok (VInt n)).
  cbn [bind].
  destruct (np_empty (VInt n)) as [init|]; cbn [bind]; [|reflexivity].
  cbn [py_len bind].
  destruct (py_truediv (VInt n) (VInt (n_unique dat n c))) as [av|]; cbn [bind]; [|reflexivity].
  destruct Hnz as [-> | ->]; reflexivity.
Qed.
