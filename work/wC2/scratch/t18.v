From Coq Require Import ZArith List Bool String.
From MellonV Require Import PyVal C18Machine C18Gen.
Import ListNotations.
Open Scope string_scope.
Eval vm_compute in (order_respects_deps table_DensityEstimator, order_respects_deps table_TimeSensitiveDensityEstimator, order_respects_deps table_DimensionalityEstimator).
Eval vm_compute in run_enc table_DensityEstimator guards_DensityEstimator universe_DensityEstimator init [OFit (AOrig DX); OFit (AOrig DX); OFit ABound; OFitPredict (AOrig DF); OPredict 0].
Eval vm_compute in run_enc table_TimeSensitiveDensityEstimator guards_TimeSensitiveDensityEstimator universe_TimeSensitiveDensityEstimator init [OSetX (AOrig DX); OPrepare (AOrig DX); OPrepare ANone; ORun; OPredict 0; OProcess false; OPredict 0].
