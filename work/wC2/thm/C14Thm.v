(* C14: theorems about the per-time-point neighbour-distance model. *)
From Coq Require Import ZArith QArith List Bool Lia Sorting.Sorted.
From MellonV Require Import PyVal PyValFacts PyValExtC14 C14Gen C14Model.
Import ListNotations.
Open Scope Z_scope.

(* ---------- structural tables: the loop of the source is the loop of the model ---------- *)
Lemma skeleton_ok :
  nnwt_skeleton = expected_nnwt_skeleton
  /\ compute_nn_distances_skeleton = expected_compute_nn_distances_skeleton
  /\ n_obs_wiring = expected_n_obs_wiring.
Proof. repeat split; vm_compute; reflexivity. Qed.

(* ---------- select / scatter / rank ---------- *)
Lemma select_length {A} (m : list bool) (l : list A) :
  length m = length l -> length (select m l) = count_true m.
Proof.
  revert l; induction m as [|b m IH]; intros [|a l] H; simpl in *; try discriminate; [reflexivity|].
  injection H as H. unfold count_true in *. destruct b; simpl; rewrite IH by assumption; reflexivity.
Qed.

Lemma scatter_length {A} (m : list bool) (v acc : list A) : length (scatter m v acc) = length acc.
Proof.
  revert v acc; induction m as [|b m IH]; intros v [|a acc]; simpl; try reflexivity.
  destruct b; [destruct v|]; simpl; rewrite IH; reflexivity.
Qed.

Lemma rank_le_count (m : list bool) i : (rank m i <= count_true m)%nat.
Proof.
  revert i; induction m as [|b m IH]; intros [|i]; simpl; try lia.
  unfold count_true in *. specialize (IH i). destruct b; simpl; lia.
Qed.

Lemma rank_lt_count (m : list bool) i :
  nth i m false = true -> (rank m i < count_true m)%nat.
Proof.
  revert i; induction m as [|b m IH]; intros [|i] H; simpl in *; try discriminate.
  - subst b. unfold count_true; simpl; lia.
  - specialize (IH i H). unfold count_true in *. destruct b; simpl; lia.
Qed.

Lemma scatter_nth {A} (m : list bool) (v acc : list A) i d :
  length m = length acc -> length v = count_true m -> (i < length acc)%nat ->
  nth i (scatter m v acc) d = if nth i m false then nth (rank m i) v d else nth i acc d.
Proof.
  revert v acc i; induction m as [|b m IH]; intros v [|a acc] i Hm Hv Hi; simpl in *; try discriminate; try lia.
  injection Hm as Hm. unfold count_true in Hv. destruct b; simpl in Hv.
  - destruct v as [|x v]; [discriminate|]. injection Hv as Hv.
    destruct i as [|i]; simpl; [reflexivity|]. apply IH; [assumption|exact Hv|lia].
  - destruct i as [|i]; simpl; [reflexivity|]. apply IH; [assumption|exact Hv|lia].
Qed.

Lemma select_nth_rank {A} (m : list bool) (l : list A) i d :
  length m = length l -> nth i m false = true -> nth (rank m i) (select m l) d = nth i l d.
Proof.
  revert l i; induction m as [|b m IH]; intros [|a l] i Hm Hi; simpl in *; try discriminate.
  - destruct i; discriminate.
  - injection Hm as Hm. destruct i as [|i]; simpl in *.
    + subst b. reflexivity.
    + destruct b; simpl; apply IH; assumption.
Qed.

Lemma rank_inj (m : list bool) i j :
  nth i m false = true -> nth j m false = true -> rank m i = rank m j -> i = j.
Proof.
  revert i j; induction m as [|b m IH]; intros [|i] [|j] Hi Hj H; simpl in *; try discriminate; try reflexivity.
  - subst b. lia.
  - subst b. lia.
  - f_equal. apply IH; try assumption. destruct b; lia.
Qed.

Lemma rank_surj (m : list bool) k :
  (k < count_true m)%nat -> exists j, (j < length m)%nat /\ nth j m false = true /\ rank m j = k.
Proof.
  revert k; induction m as [|b m IH]; intros k H; unfold count_true in *; simpl in *; [lia|].
  destruct b; simpl in *.
  - destruct k as [|k].
    + exists 0%nat. repeat split; lia.
    + destruct (IH k) as [j [H1 [H2 H3]]]; [lia|]. exists (S j). simpl. repeat split; try lia; assumption.
  - destruct (IH k H) as [j [H1 [H2 H3]]]. exists (S j). simpl. repeat split; try lia; assumption.
Qed.

(* ---------- equality / order on float values ---------- *)
Lemma Qeqb_refl q : Qeq_bool q q = true.
Proof. apply Qeq_bool_iff. reflexivity. Qed.

Lemma xf_eqb_refl a : xf_isnan a = false -> xf_eqb a a = true.
Proof. destruct a; simpl; intros H; try reflexivity; [apply Qeqb_refl|discriminate]. Qed.

Lemma xf_eqb_sym a b : xf_eqb a b = xf_eqb b a.
Proof.
  destruct a, b; simpl; try reflexivity.
  destruct (Qeq_bool q q0) eqn:E, (Qeq_bool q0 q) eqn:F; try reflexivity.
  - apply Qeq_bool_iff in E. symmetry in E. apply Qeq_bool_iff in E. congruence.
  - apply Qeq_bool_iff in F. symmetry in F. apply Qeq_bool_iff in F. congruence.
Qed.

Lemma xf_eqb_trans a b c : xf_eqb a b = true -> xf_eqb b c = true -> xf_eqb a c = true.
Proof.
  destruct a, b, c; simpl; try discriminate; try reflexivity.
  intros H1 H2. apply Qeq_bool_iff in H1, H2. apply Qeq_bool_iff. now rewrite H1.
Qed.

(* two values equal to a common third one are equal *)
Lemma xf_eqb_eucl a b c : xf_eqb a b = true -> xf_eqb a c = true -> xf_eqb b c = true.
Proof. intros H1 H2. rewrite xf_eqb_sym in H1. eapply xf_eqb_trans; eassumption. Qed.

Lemma Qltb_lt p q : Qltb p q = true <-> (p < q)%Q.
Proof.
  unfold Qltb. split; intros H.
  - apply Qnot_le_lt. intros C. apply Qle_bool_iff in C. rewrite C in H. discriminate.
  - destruct (Qle_bool q p) eqn:E; [|reflexivity]. apply Qle_bool_iff in E. exfalso. exact (Qlt_not_le _ _ H E).
Qed.

Lemma xf_ltb_trans a b c : xf_ltb a b = true -> xf_ltb b c = true -> xf_ltb a c = true.
Proof.
  destruct a, b, c; simpl; try discriminate; try reflexivity.
  intros H1 H2. apply Qltb_lt in H1, H2. apply Qltb_lt. eapply Qlt_trans; eassumption.
Qed.

Lemma xf_ltb_neq a b : xf_ltb a b = true -> xf_eqb a b = false.
Proof.
  destruct a, b; simpl; try discriminate; try reflexivity.
  intros H. apply Qltb_lt in H. destruct (Qeq_bool q q0) eqn:E; [|reflexivity].
  apply Qeq_bool_iff in E. rewrite E in H. exfalso. exact (Qlt_irrefl _ H).
Qed.

Lemma xf_trichotomy a b :
  xf_isnan a = false -> xf_isnan b = false -> xf_ltb a b = false -> xf_eqb a b = false -> xf_ltb b a = true.
Proof.
  destruct a, b; simpl; try discriminate; try reflexivity.
  intros _ _ H1 H2. apply Qltb_lt.
  destruct (Q_dec q q0) as [[H|H]|H].
  - apply Qltb_lt in H. congruence.
  - exact H.
  - apply Qeq_bool_iff in H. congruence.
Qed.

(* ---------- jnp.unique: strictly ascending, hence pairwise distinct, and covering ---------- *)
Definition lt_rel (a b : xf) : Prop := xf_ltb a b = true.

Lemma insert_dedup_in x l y : In y (insert_dedup x l) -> y = x \/ In y l.
Proof.
  induction l as [|h t IH]; simpl.
  - intros [H|[]]. left. symmetry. exact H.
  - destruct (xf_ltb x h).
    + intros [H|H]; [left; symmetry; exact H|right; exact H].
    + destruct (xf_eqb x h); [intros H; right; exact H|].
      intros [H|H]; [right; left; exact H|]. destruct (IH H) as [H1|H1]; [left; exact H1|right; right; exact H1].
Qed.

Lemma insert_dedup_nonan x l :
  xf_isnan x = false -> Forall (fun y => xf_isnan y = false) l -> Forall (fun y => xf_isnan y = false) (insert_dedup x l).
Proof.
  intros Hx Hl. apply Forall_forall. intros y Hy. apply insert_dedup_in in Hy. destruct Hy as [->|Hy]; [assumption|].
  rewrite Forall_forall in Hl. auto.
Qed.

Lemma insert_dedup_sorted x l :
  xf_isnan x = false -> Forall (fun y => xf_isnan y = false) l ->
  StronglySorted lt_rel l -> StronglySorted lt_rel (insert_dedup x l).
Proof.
  intros Hx Hn Hs. induction Hs as [|h t Hs IH Hh]; simpl.
  - constructor; constructor.
  - inversion Hn as [|? ? Hhn Htn]; subst.
    destruct (xf_ltb x h) eqn:E1.
    + constructor; [constructor; assumption|]. constructor; [exact E1|].
      eapply Forall_impl; [|exact Hh]. intros y Hy. eapply xf_ltb_trans; eassumption.
    + destruct (xf_eqb x h) eqn:E2; [constructor; assumption|].
      constructor; [apply IH; assumption|].
      apply Forall_forall. intros y Hy. apply insert_dedup_in in Hy. destruct Hy as [->|Hy].
      * apply xf_trichotomy; assumption.
      * rewrite Forall_forall in Hh. auto.
Qed.

Lemma insert_dedup_cover x l : xf_isnan x = false -> exists u, In u (insert_dedup x l) /\ xf_eqb x u = true.
Proof.
  intros Hx. induction l as [|h t IH]; simpl.
  - exists x. split; [left; reflexivity|apply xf_eqb_refl; assumption].
  - destruct (xf_ltb x h); [exists x; split; [left; reflexivity|apply xf_eqb_refl; assumption]|].
    destruct (xf_eqb x h) eqn:E; [exists h; split; [left; reflexivity|assumption]|].
    destruct IH as [u [H1 H2]]. exists u. split; [right; assumption|assumption].
Qed.


Definition nonan_part (l : list xf) : list xf := fold_right insert_dedup [] (filter (fun x => negb (xf_isnan x)) l).

Lemma nonan_part_props (l : list xf) :
  Forall (fun y => xf_isnan y = false) (nonan_part l) /\ StronglySorted lt_rel (nonan_part l).
Proof.
  unfold nonan_part. induction l as [|a l [IH1 IH2]]; simpl; [split; constructor|].
  destruct (xf_isnan a) eqn:E; simpl; [split; assumption|].
  split; [apply insert_dedup_nonan|apply insert_dedup_sorted]; assumption.
Qed.

Lemma insert_dedup_mono x l y : In y l -> xf_isnan y = false -> exists u, In u (insert_dedup x l) /\ xf_eqb y u = true.
Proof.
  intros Hy Hn. induction l as [|h t IH]; simpl; [destruct Hy|].
  destruct (xf_ltb x h); [exists y; split; [right; assumption|apply xf_eqb_refl; assumption]|].
  destruct (xf_eqb x h) eqn:E; [exists y; split; [assumption|apply xf_eqb_refl; assumption]|].
  destruct Hy as [->|Hy].
  - exists y. split; [left; reflexivity|apply xf_eqb_refl; assumption].
  - destruct (IH Hy) as [u [H1 H2]]. exists u. split; [right; assumption|assumption].
Qed.

Lemma nonan_part_cover (l : list xf) x : In x l -> xf_isnan x = false -> exists u, In u (nonan_part l) /\ xf_eqb x u = true.
Proof.
  unfold nonan_part. induction l as [|a l IH]; simpl; [tauto|].
  intros [->|Hx] Hn.
  - rewrite Hn. simpl. apply insert_dedup_cover. assumption.
  - destruct (IH Hx Hn) as [u [H1 H2]].
    destruct (xf_isnan a) eqn:E; simpl; [exists u; tauto|].
    destruct (insert_dedup_mono a _ u H1) as [w [H3 H4]].
    { destruct u; try reflexivity. destruct x; discriminate. }
    exists w. split; [assumption|]. eapply xf_eqb_trans; eassumption.
Qed.

Lemma sort_dedup_split l : sort_dedup l = nonan_part l ++ (if existsb xf_isnan l then [XNaN] else []).
Proof. reflexivity. Qed.

(* pairwise distinctness in the sense the loop needs *)
Definition distinct (uts : list xf) : Prop :=
  forall i j, (i < length uts)%nat -> (j < length uts)%nat -> i <> j -> xf_eqb (nth i uts XNaN) (nth j uts XNaN) = false.

Lemma sorted_distinct l : StronglySorted lt_rel l -> distinct l.
Proof.
  intros Hs. induction Hs as [|h t Hs IH Hh]; intros i j Hi Hj Hij; simpl in *; [lia|].
  rewrite Forall_forall in Hh.
  destruct i as [|i], j as [|j]; try lia.
  - apply xf_ltb_neq. apply Hh. apply nth_In. lia.
  - rewrite xf_eqb_sym. apply xf_ltb_neq. apply Hh. apply nth_In. lia.
  - apply IH; lia.
Qed.

Lemma distinct_app_nan l : distinct l -> Forall (fun y => xf_isnan y = false) l -> distinct (l ++ [XNaN]).
Proof.
  intros Hd Hn i j Hi Hj Hij. rewrite app_length in Hi, Hj. simpl in Hi, Hj.
  destruct (Nat.lt_ge_cases i (length l)) as [Hi'|Hi'], (Nat.lt_ge_cases j (length l)) as [Hj'|Hj'].
  - rewrite !app_nth1 by assumption. apply Hd; assumption.
  - rewrite (app_nth2 l [XNaN]) with (n := j) by assumption.
    replace (j - length l)%nat with 0%nat by lia. simpl. destruct (nth i (l ++ [XNaN]) XNaN); reflexivity.
  - rewrite (app_nth2 l [XNaN]) with (n := i) by assumption.
    replace (i - length l)%nat with 0%nat by lia. reflexivity.
  - lia.
Qed.

Lemma sort_dedup_distinct l : distinct (sort_dedup l).
Proof.
  rewrite sort_dedup_split. destruct (nonan_part_props l) as [H1 H2].
  destruct (existsb xf_isnan l).
  - apply distinct_app_nan; [apply sorted_distinct|]; assumption.
  - rewrite app_nil_r. apply sorted_distinct. assumption.
Qed.

(* "ordered from earliest to latest" *)
Lemma sort_dedup_sorted l : existsb xf_isnan l = false -> StronglySorted lt_rel (sort_dedup l).
Proof. intros H. rewrite sort_dedup_split, H, app_nil_r. apply nonan_part_props. Qed.

Lemma sort_dedup_cover l x : In x l -> xf_isnan x = false -> exists u, In u (sort_dedup l) /\ xf_eqb x u = true.
Proof.
  intros H1 H2. destruct (nonan_part_cover l x H1 H2) as [u [H3 H4]]. exists u. split; [|assumption].
  rewrite sort_dedup_split. apply in_or_app. left. assumption.
Qed.

Lemma sort_dedup_nan l : existsb xf_isnan l = true -> In XNaN (sort_dedup l).
Proof. intros H. rewrite sort_dedup_split, H. apply in_or_app. right. left. reflexivity. Qed.

(* ---------- the loop: induction over the fold with a filled-positions invariant ---------- *)
Lemma nth_zip_with {A B C} (f : A -> B -> C) (a : list A) (b : list B) k da db dc :
  (k < length a)%nat -> (k < length b)%nat -> nth k (zip_with f a b) dc = f (nth k a da) (nth k b db).
Proof.
  revert b k; induction a as [|x a IH]; intros [|y b] k Ha Hb; simpl in *; try lia.
  destruct k as [|k]; [reflexivity|]. apply IH; lia.
Qed.

Lemma zip_with_length {A B C} (f : A -> B -> C) (a : list A) (b : list B) :
  length a = length b -> length (zip_with f a b) = length a.
Proof. revert b; induction a as [|x a IH]; intros [|y b] H; simpl in *; try discriminate; [reflexivity|]. now rewrite IH by lia. Qed.

Lemma distinct_tail t r : distinct (t :: r) -> distinct r.
Proof. intros H i j Hi Hj Hij. apply (H (S i) (S j)); simpl; lia. Qed.

Lemma distinct_head t r u : distinct (t :: r) -> In u r -> xf_eqb t u = false.
Proof.
  intros H Hu. destruct (In_nth _ _ XNaN Hu) as [j [Hj <-]].
  apply (H 0%nat (S j)); simpl; lia.
Qed.

Lemma fold_err {A B} (f : res A -> B -> res A) (l : list B) e :
  (forall b, f (Err e) b = Err e) -> fold_left f l (Err e) = Err e.
Proof. intros H. induction l as [|b l IH]; simpl; [reflexivity|]. rewrite H. exact IH. Qed.

Lemma xf_eqb_nan_l u : xf_eqb XNaN u = false.
Proof. reflexivity. Qed.

Section LoopSpec.
  Context {P : Type}.
  Variable nn_oracle : list P -> list xf.
  Variable fac : xf -> list bool -> nat -> res (option (list xf)).
  Hypothesis nn_len : forall g, length (nn_oracle g) = length g.
  Hypothesis fac_len : forall t m n fs, fac t m n = Ok (Some fs) -> length fs = n.

  (* the value the property assigns to cell i of the time point u *)
  Definition value_at (cs : list (P * xf)) (u : xf) (fo : option (list xf)) (i : nat) : xf :=
    let m := mask_of cs u in
    let k := rank m i in
    let nn := nth k (nn_oracle (select m (map fst cs))) XNaN in
    match fo with None => nn | Some fs => xf_mul (nth k fs XNaN) nn end.

  Definition time_of (cs : list (P * xf)) (i : nat) : xf := nth i (map snd cs) XNaN.

  Lemma mask_length (cs : list (P * xf)) u : length (mask_of cs u) = length cs.
  Proof. unfold mask_of. apply map_length. Qed.

  Lemma mask_nth (cs : list (P * xf)) u i : nth i (mask_of cs u) false = xf_eqb (time_of cs i) u.
  Proof.
    unfold mask_of, time_of. revert i. induction cs as [|c cs IH]; intros [|i]; simpl; try reflexivity. apply IH.
  Qed.

  Lemma step_ok cs acc t a1 :
    length acc = length cs -> step nn_oracle fac cs acc t = Ok a1 ->
    (2 <= count_true (mask_of cs t))%nat /\ length a1 = length cs /\
    exists fo, fac t (mask_of cs t) (count_true (mask_of cs t)) = Ok fo /\
      forall i, (i < length cs)%nat ->
        nth i a1 XNaN = if nth i (mask_of cs t) false then value_at cs t fo i else nth i acc XNaN.
  Proof.
    intros Hacc. unfold step.
    destruct (Nat.ltb_spec (count_true (mask_of cs t)) 2) as [Hc|Hc]; [discriminate|].
    destruct (fac t (mask_of cs t) (count_true (mask_of cs t))) as [fo|e] eqn:Hf; simpl; [|discriminate].
    intros H. injection H as <-. split; [exact Hc|]. split; [rewrite scatter_length; exact Hacc|].
    exists fo. split; [reflexivity|]. intros i Hi.
    assert (Hsel : length (nn_oracle (select (mask_of cs t) (map fst cs))) = count_true (mask_of cs t)).
    { rewrite nn_len. apply select_length. rewrite mask_length, map_length. reflexivity. }
    assert (Hsc : length (scaled fo (nn_oracle (select (mask_of cs t) (map fst cs)))) = count_true (mask_of cs t)).
    { destruct fo as [fs|]; simpl; [|exact Hsel]. rewrite zip_with_length; [exact (fac_len _ _ _ _ Hf)|].
      rewrite Hsel. exact (fac_len _ _ _ _ Hf). }
    rewrite scatter_nth; [|rewrite mask_length; symmetry; exact Hacc|exact Hsc|rewrite Hacc; exact Hi].
    destruct (nth i (mask_of cs t) false) eqn:Hm; [|reflexivity].
    unfold value_at. pose proof (rank_lt_count _ _ Hm) as Hr.
    destruct fo as [fs|]; simpl; [|reflexivity].
    apply nth_zip_with; [rewrite (fac_len _ _ _ _ Hf)|rewrite Hsel]; exact Hr.
  Qed.

  Theorem loop_spec cs uts : forall init out,
    length init = length cs -> distinct uts ->
    loop nn_oracle fac cs uts init = Ok out ->
    length out = length cs
    /\ (forall u, In u uts ->
          (2 <= count_true (mask_of cs u))%nat /\
          exists fo, fac u (mask_of cs u) (count_true (mask_of cs u)) = Ok fo /\
            forall i, (i < length cs)%nat -> xf_eqb (time_of cs i) u = true -> nth i out XNaN = value_at cs u fo i)
    /\ (forall i, (i < length cs)%nat -> (forall u, In u uts -> xf_eqb (time_of cs i) u = false) ->
          nth i out XNaN = nth i init XNaN).
  Proof.
    induction uts as [|t r IH]; intros init out Hlen Hd Hloop.
    - unfold loop in Hloop. simpl in Hloop. injection Hloop as <-.
      split; [exact Hlen|]. split; [intros u []|reflexivity].
    - unfold loop in Hloop. simpl in Hloop.
      destruct (step nn_oracle fac cs init t) as [a1|e] eqn:Hs.
      2:{ rewrite fold_err in Hloop by reflexivity. discriminate. }
      destruct (step_ok _ _ _ _ Hlen Hs) as [Hc [Hl1 [fo [Hf Hv]]]].
      destruct (IH a1 out Hl1 (distinct_tail _ _ Hd) Hloop) as [Ho [Hin Hout]].
      split; [exact Ho|]. split.
      + intros u [<-|Hu].
        * split; [exact Hc|]. exists fo. split; [exact Hf|]. intros i Hi Hm.
          rewrite Hout; [|exact Hi|].
          -- rewrite Hv by exact Hi. rewrite mask_nth, Hm. reflexivity.
          -- intros u' Hu'. destruct (xf_eqb (time_of cs i) u') eqn:E; [|reflexivity].
             pose proof (xf_eqb_eucl _ _ _ Hm E) as C. rewrite (distinct_head _ _ _ Hd Hu') in C. discriminate.
        * exact (Hin u Hu).
      + intros i Hi Hno. rewrite Hout; [|exact Hi|intros u Hu; apply Hno; right; exact Hu].
        rewrite Hv by exact Hi. rewrite mask_nth, (Hno t (or_introl eq_refl)). reflexivity.
  Qed.

  (* a time point with fewer than two cells is refused (ValueError when the factor computation itself cannot fail,
     e.g. without normalisation) *)
  Theorem loop_singleton_refused (cs : list (P * xf)) uts init u :
    In u uts -> (count_true (mask_of cs u) < 2)%nat ->
    (forall t m n, exists fo, fac t m n = Ok fo) ->
    loop nn_oracle fac cs uts init = Err ValueError.
  Proof.
    intros Hu Hc Hfac. unfold loop. revert init. induction uts as [|t r IH]; intros init; [destruct Hu|].
    simpl. destruct (step nn_oracle fac cs init t) as [a1|e] eqn:Hs.
    - destruct Hu as [->|Hu]; [|apply IH; exact Hu].
      unfold step in Hs. destruct (Nat.ltb_spec (count_true (mask_of cs u)) 2); [discriminate|lia].
    - assert (e = ValueError) as ->.
      { unfold step in Hs. destruct (count_true (mask_of cs t) <? 2)%nat; [congruence|].
        destruct (Hfac t (mask_of cs t) (count_true (mask_of cs t))) as [fo Hfo]. rewrite Hfo in Hs. discriminate. }
      apply fold_err. reflexivity.
  Qed.
End LoopSpec.
