#!/bin/bash
# compile a file of this work dir against /verif/coq
cd /verif/work/wC2
for f in "$@"; do
  /usr/bin/time -f "%es $f" timeout 300 coqc -q -w none -R /verif/coq MellonV -R /verif/work/wC2 MellonV "$f" 2>&1 | grep -v auto_activate
done
