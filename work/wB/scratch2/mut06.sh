#!/bin/bash
# usage: mut06.sh  -> runs the 4 C06 mutations
cd /verif
F=/tmp/wBc_repo/mellon/conditional.py
run() {
  name=$1; shift
  cp /repo/mellon/conditional.py $F
  /venv/bin/python - "$@" <<'PY'
import sys
f='/tmp/wBc_repo/mellon/conditional.py'
s=open(f).read()
old,new,which=sys.argv[1],sys.argv[2],int(sys.argv[3])
assert old in s
parts=s.split(old)
# replace only the `which`-th occurrence (0-based)
s=old.join(parts[:which+1])+new+old.join(parts[which+1:])
open(f,'w').write(s)
PY
  echo "=== $name"; diff /repo/mellon/conditional.py $F | head -6
  MELLON_REPO=/tmp/wBc_repo VERIF_SEED=7 bin/check C06 2>&1 | tail -8
  /venv/bin/python - <<'PY'
import json,glob
for f in sorted(glob.glob('/verif/replays/C06-7-*.json')):
    d=json.load(open(f)); print("  KEY", d['key'], '|', d['what'][:90])
PY
  rm -f /verif/replays/C06-7-*.json /verif/replays/C06-broken-7.json
}
run M1_lower "A = solve_triangular(L, Kus, lower=True)" "A = solve_triangular(L, Kus)" 0
run M2_plus "cov = Kss - dot(A.T, A)" "cov = Kss + dot(A.T, A)" 0
run M3_square "var = Kss - arraysum(square(A), axis=0)" "var = Kss - arraysum(A, axis=0)" 0
run M4_Wlower "W = solve_triangular(L.T, solve_triangular(L, y_cov_factor, lower=True))" "W = solve_triangular(L.T, solve_triangular(L, y_cov_factor))" 0
cp /repo/mellon/conditional.py $F
