import random, numpy as np
from harness.wb_common import *
from checks import C06
quiet()
mc = real_module("mellon.conditional")
class R2(Recorder):
    def check_cholesky(self, args, kw, L):
        n0=len(self.failures)
        super().check_cholesky(args, kw, L)
        if len(self.failures)>n0:
            A=np.asarray(args[0],dtype=float); L=np.asarray(L,dtype=float)
            print(self.failures[-1]); print(repr(A)); print(repr(L)); print(np.linalg.cond(A), np.abs(A-A.T).max())
            L2=np.linalg.cholesky(A); print("numpy resid", np.linalg.norm(L2@L2.T-A))
            print("asym-aware", np.linalg.norm(L@L.T-np.tril(A)-np.tril(A,-1).T), "mean-sym", np.linalg.norm(L@L.T-0.5*(A+A.T)))
class Ctx:
    def violation(self,*a): print("VIOL",a[:2])
rng = random.Random(0)
C06.make_configs(rng, False)
rec=R2([mc])
counts=dict(nested=0)
with rec:
    C06.nested_clause(Ctx(), rng, False, counts)
