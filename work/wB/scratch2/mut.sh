#!/bin/bash
# usage: mut.sh CHECK file old new name
cd /verif
CHK=$1; FILE=$2; OLD=$3; NEW=$4; NAME=$5
cp /repo/mellon/$FILE /tmp/wBc_repo/mellon/$FILE
/venv/bin/python - "$FILE" "$OLD" "$NEW" <<'PY'
import sys
f='/tmp/wBc_repo/mellon/'+sys.argv[1]
s=open(f).read()
old,new=sys.argv[2],sys.argv[3]
assert old in s
i=s.index(old)
s=s[:i]+new+s[i+len(old):]
open(f,'w').write(s)
PY
echo "=== $NAME"; diff /repo/mellon/$FILE /tmp/wBc_repo/mellon/$FILE | head -6
PYTHONPATH=/verif:/tmp/wBc_repo MELLON_REPO=/tmp/wBc_repo JAX_PLATFORMS=cpu JAX_ENABLE_X64=1 /venv/bin/python work/wB/scratch2/drv.py $CHK 7 2>&1 | grep "^VIOL\|^BROKEN" | cut -c1-260
cp /repo/mellon/$FILE /tmp/wBc_repo/mellon/$FILE
