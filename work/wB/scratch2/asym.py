import random, numpy as np
from harness.wb_common import *
quiet()
rng = random.Random(0)
from checks import C06
C06.make_configs(rng, False)
for kname in KERNELS:
    for fam in ("chol","dtc"):
        seed = rng.randrange(2 ** 31)
        r = np.random.default_rng(seed)
        d = int(r.choice([1, 2, 3, 5])); j = float(r.choice([1e-8, 1e-6, 1e-4, 1e-3])); ls = float(r.choice([0.3, 1.0, 3.0]))
        cov, kdesc = make_kernel(r, kname, ls, False)
        n = int(r.choice([10, 25, 40]))
        kind=str(r.choice(["gauss", "clustered"]))
        x = dataset(r, n, d, kind)
        K=np.asarray(cov(x,x))
        print(kdesc, d, n, kind, "asym", np.abs(K-K.T).max(), "max|x|^2", (x*x).sum(1).max())
