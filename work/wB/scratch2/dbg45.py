import random, numpy as np
from harness.wb_common import *
from checks import C06
quiet()
rng = random.Random(0)
cfg=[c for c in C06.make_configs(rng, False) if c["id"]==45][0]
b=C06.build(cfg)
p=b["p"]; L=np.asarray(p.L); cov=b["cov"]; Xq=b["Xq"]
Kbq=np.asarray(cov(b["xu"],Xq)); Kss=np.asarray(cov(Xq,Xq))
A,V,Dm=C06.cov_terms(L,Kbq,Kss)
print("Dm35",Dm[3,5],"Kss35",Kss[3,5],"na",np.linalg.norm(A,axis=0)[[3,5]], "smin", np.linalg.svd(L,compute_uv=False)[-1])
print("Kbq col3 max", np.abs(Kbq[:,3]).max(), "A col3 max", np.abs(A[:,3]).max())
import jax.numpy as jnp
from jax.scipy.linalg import solve_triangular
Aj=np.asarray(solve_triangular(jnp.asarray(L),jnp.asarray(Kbq),lower=True))
print("rel diff A col3 jax vs scipy", np.abs(Aj[:,3]-A[:,3]).max()/np.abs(A[:,3]).max())
print((A[:,3]@A[:,5]), (Aj[:,3]@Aj[:,5]))
