import numpy as np
from harness.wb_common import *
quiet()
mp = real_module("mellon.parameters")
import mellon
rng=np.random.default_rng(0)
x=dataset(rng,12,2,"gauss"); cov,_=make_kernel(rng,"Matern52",1.0)
for gp,kw in [("full",{}),("sparse_cholesky",dict(landmarks=x)),("fixed",dict(landmarks=x)),("full_nystroem",dict(rank=5)),("full_nystroem",dict(rank=0.9)),("full_nystroem",dict(rank=12)),("full_nystroem",dict(rank=1.0)),("sparse_nystroem",dict(landmarks=x,rank=12)),("sparse_nystroem",dict(landmarks=x,rank=5)), (None, dict(landmarks=x))]:
    try:
        L=np.asarray(mp.compute_L(x,cov,gp_type=gp,jitter=1e-6,**kw)); print(gp,kw.keys(),kw.get("rank"),L.shape)
    except Exception as e: print(gp,kw.get("rank"),type(e).__name__,str(e)[:150])
print(mp.compute_landmarks(x, gp_type=mellon.util.GaussianProcessType.FIXED, n_landmarks=20) is not None)
est=mellon.DensityEstimator(gp_type="fixed", n_landmarks=20, cov_func=cov, jitter=1e-6, ls=1.0)
est.prepare_inference(x)
print(est.gp_type, np.array_equal(np.asarray(est.landmarks), x), np.asarray(est.L).shape, est.Lp is None)
