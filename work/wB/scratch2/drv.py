import sys, os, importlib, collections
from vlib import core
pid, seed = sys.argv[1], int(sys.argv[2])
ctx = core.Ctx(pid, "quick", seed)
mod = importlib.import_module("checks." + pid)
mod.run(ctx)
c = collections.Counter(k for k, _, _ in ctx.violations)
for k, v in c.items(): print("VIOL", v, k)
seen=set()
for k, w, r in ctx.violations:
    if k in seen: continue
    seen.add(k); print(k, w[:100], {a: r[a] for a in r if a not in ('x','Xnew','pre_transformation','landmarks','values','y_cov_factor','sigma')})
for b in ctx.broken: print("BROKEN", str(b)[:600])
print(ctx.cov.get("searcher_checks"), ctx.cov["evaluations"])
