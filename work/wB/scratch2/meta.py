from harness import matgen
from vlib.core import REPO
gen, funcs, meta, tr = matgen.translate_all(REPO)
for k, v in meta.items():
    print(k, v.get("dims"), v.get("params"), [a for a in v if a not in ("dims", "params")])
