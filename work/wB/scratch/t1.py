import sys
sys.path.insert(0,'/verif')
from translate.pymatrix import *
tr = Translator('/repo')
C='mellon.conditional.'
def tgt(q, **path):
    try:
        d = tr.target(q, **path)
        print("OK ", d.name)
    except PathError as e:
        print("PATHERR", q, path, e)
tgt('mellon.util.stabilize')
tgt('mellon.util.add_variance', M='none')
tgt('mellon.util.add_variance', M='mat')
for L in ('none','mat'):
  for y in (True, False):
    for s in ('scalar','vec','none'):
      for c in ('none','mat'):
        for u in (False, True):
            tgt(C+'_FullConditional.__init__', L=L, sigma=s, y_cov_factor=c, y_is_mean=y, with_uncertainty=u)
print(tr.emit())
