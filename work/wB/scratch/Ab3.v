From mathcomp Require Import all_ssreflect all_fingroup all_algebra.
From MellonV Require Import MatOps MxInst MxPsd MatGen CondThm FactorThm.
About nystroem_LLt. About gap_trace.
