(* C04 / C02 (matrix part) / C09: the four factorisations of the kernel matrix
   (generated full_rank, standard_low_rank_*, full_decomposition_low_rank,
   modified_low_rank): L L^T identities, Loewner bound (K + jI) - L L^T >= 0,
   in-sample exactness of the Cholesky-latent predictor, sparse-vs-full identity. *)
From mathcomp Require Import all_ssreflect all_fingroup all_algebra.
From MellonV Require Import MatOps MxInst MxPsd MatGen CondThm.
Set Implicit Arguments.
Unset Strict Implicit.
Unset Printing Implicit Defensive.
Import Order.TTheory GRing.Theory Num.Theory.
Local Open Scope ring_scope.

Section Factor.
Variable F : rcfType.
Variable cholF : forall n : nat, 'M[F]_n -> 'M[F]_n.
Variable eigS : forall n p : nat, 'M[F]_n -> 'cV[F]_p.
Variable eigV : forall n p : nat, 'M[F]_n -> 'M[F]_(n, p).
Variable qrQ : forall n m k : nat, 'M[F]_(n, m) -> 'M[F]_(n, k).
Variable qrR : forall n m k : nat, 'M[F]_(n, m) -> 'M[F]_(k, m).
Hypothesis chol_ok : chol_contract cholF.

Let ops := MxOps cholF eigS eigV qrQ qrR.
Local Existing Instance ops.

(* what _eigendecomposition is assumed to return when it keeps p pairs of a
   symmetric psd matrix W (eigh contract + the slicing proved in C10): the kept
   pairs (s, V) together with the discarded ones (sd, Vd) form an orthogonal
   eigen-decomposition of W; kept eigenvalues are positive, discarded ones >= 0 *)
Definition eig_top_of n p (W : 'M[F]_n) (s : 'cV[F]_p) (V : 'M[F]_(n, p)) :=
  exists q, exists sd : 'cV[F]_q, exists Vd : 'M[F]_(n, q),
    [/\ W = Vd *m diagv sd *m Vd^T + V *m diagv s *m V^T,
        (forall i, 0 <= sd i 0), (forall i, 0 < s i 0),
        V^T *m V = 1%:M & Vd^T *m V = 0].
Definition eig_contract := forall n p (W : 'M[F]_n), sym W -> psd W -> eig_top_of W (eigS p W) (eigV p W).

(* reduced QR *)
Definition qr_contract := forall n m k (C : 'M[F]_(n, m)),
  qrQ k C *m qrR k C = C /\ (qrQ k C)^T *m qrQ k C = 1%:M.

(* ---- small algebra ---- *)
Lemma bcol_mulE n p (A : 'M[F]_(n, p)) (d : 'cV[F]_p) :
  (\matrix_(i, l) (A i l * d l 0)) = A *m diagv d.
Proof.
apply/matrixP => i l; rewrite !mxE (bigD1 l) //= big1 ?addr0; last first.
  by move=> t tl; rewrite !mxE (negbTE tl) mulr0.
by rewrite !mxE eqxx.
Qed.

Lemma bcol_divE n p (A : 'M[F]_(n, p)) (d : 'cV[F]_p) :
  (\matrix_(i, l) (A i l / d l 0)) = A *m diagv (\col_i (d i 0)^-1).
Proof. by rewrite -bcol_mulE; apply/matrixP => i l; rewrite !mxE. Qed.

Lemma diagv_sqrt_sq p (s : 'cV[F]_p) : (forall i, 0 <= s i 0) ->
  diagv (map_mx Num.sqrt s) *m (diagv (map_mx Num.sqrt s))^T = diagv s.
Proof.
move=> s0; rewrite diagv_tr diagv_mul; congr diagv; apply/matrixP => i l.
by rewrite !mxE ord1 -expr2 sqr_sqrtr.
Qed.

Lemma scaled_gram n p (V : 'M[F]_(n, p)) (s : 'cV[F]_p) : (forall i, 0 <= s i 0) ->
  (V *m diagv (map_mx Num.sqrt s)) *m (V *m diagv (map_mx Num.sqrt s))^T = V *m diagv s *m V^T.
Proof. by move=> s0; rewrite trmx_mul mulmxA -(mulmxA V) diagv_sqrt_sq. Qed.

Lemma max_sif (a b : F) : sif (a < b) b a = Num.max a b.
Proof. by rewrite /sif /Num.max; case: ifP. Qed.

(* ---- full: L L^T = K + max(sigma^2, j) I ---- *)
Section Full.
Variables (n : nat) (K : 'M[F]_n) (s j : F).
Hypothesis symK : sym K.
Hypothesis psdK : psd K.
Hypothesis j_gt0 : 0 < j.

Lemma full_rankE : full_rank K s j = cholF (K + (Num.max (s ^+ 2) j)%:M).
Proof. by rewrite /full_rank stabilizeE /= max_sif -expr2. Qed.

Lemma full_rank_chol : chol_of (full_rank K s j) (K + (Num.max (s ^+ 2) j)%:M).
Proof. by rewrite full_rankE; apply: chol_ok; apply: spd_jitter => //; apply: max_jitter_gt0. Qed.

Lemma full_LLt : full_rank K s j *m (full_rank K s j)^T = K + (Num.max (s ^+ 2) j)%:M.
Proof. by case: full_rank_chol. Qed.
End Full.

(* ---- inducing points: L = K_xu Lp^-T ---- *)
Section Standard.
Variables (n m : nat) (Kxu : 'M[F]_(n, m)) (Kuu : 'M[F]_m) (s j : F).
Hypothesis symK : sym Kuu.
Hypothesis psdK : psd Kuu.
Hypothesis j_gt0 : 0 < j.

Lemma standard_given (Lp : 'M[F]_m) s' j' :
  is_lower Lp -> standard_low_rank_PM Kxu Lp s' j' = Kxu *m invmx Lp^T.
Proof. by move=> lL; rewrite /standard_low_rank_PM /= lowpart_id // trmx_mul trmxK trmx_inv. Qed.

Lemma standard_recomputed :
  let Lp := full_rank Kuu s j in
  standard_low_rank_PN Kxu Kuu s j = Kxu *m invmx Lp^T.
Proof.
move=> Lp; rewrite /standard_low_rank_PN -/Lp.
case: (full_rank_chol s symK psdK j_gt0) => lL _ _.
by rewrite /= lowpart_id // trmx_mul trmxK trmx_inv.
Qed.

Lemma standard_LLt :
  let L := standard_low_rank_PN Kxu Kuu s j in
  L *m L^T = Kxu *m invmx (Kuu + (Num.max (s ^+ 2) j)%:M) *m Kxu^T.
Proof.
move=> L; rewrite /L standard_recomputed trmx_mul trmx_inv trmxK.
have cL := full_rank_chol s symK psdK j_gt0.
by rewrite mulmxA -(mulmxA Kxu) (chol_inv cL).
Qed.

(* C02: the Cholesky-latent predictor built with the same Lp reproduces L z at the cells *)
Lemma chol_insample c (Lp : 'M[F]_m) (z : 'M[F]_(m, c)) mu n_obs s1 j1 s2 j2 :
  is_lower Lp ->
  Kxu *m LandmarksCholCond_init_LM_sS_yT_uF_weights z mu n_obs Lp s1 j1
  = standard_low_rank_PM Kxu Lp s2 j2 *m z.
Proof.
move=> lL; rewrite standard_given // /LandmarksCholCond_init_LM_sS_yT_uF_weights.
by rewrite (solve_upper_tr _ _ _ _ _ _ lL) mulmxA.
Qed.

End Standard.

(* ---- Loewner bound for the Nystroem projection (Schur complement) ---- *)
Lemma psd_block_shift n m (A : 'M[F]_n) (B : 'M[F]_(n, m)) (C : 'M[F]_m) a :
  0 <= a -> psd (block_mx A B B^T C) -> psd (block_mx (A + a%:M) B B^T C).
Proof.
move=> a0 pJ.
have -> : block_mx (A + a%:M) B B^T C = block_mx A B B^T C + block_mx a%:M 0 0 0.
  by rewrite add_block_mx !addr0.
apply: psdD => // v; rewrite -[v]vsubmxK tr_col_mx mul_row_block mul_row_col !mulmx0 !addr0 mul0mx addr0.
exact: (psd_scalar a0).
Show. Abort. 
