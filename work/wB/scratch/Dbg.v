(* Lemmas about the generated conditional constructors (gen/MatGen.v) under the
   MathComp instance: noise assembly, normal equations of the three formulations,
   read-out / batch independence, linearity in the values. *)
From mathcomp Require Import all_ssreflect all_algebra.
From MellonV Require Import MatOps MxInst MxPsd MatGen.
Set Implicit Arguments.
Unset Strict Implicit.
Unset Printing Implicit Defensive.
Import Order.TTheory GRing.Theory Num.Theory.
Local Open Scope ring_scope.

Section Cond.
Variable F : rcfType.
Variable cholF : forall n : nat, 'M[F]_n -> 'M[F]_n.
Variable eigS : forall n p : nat, 'M[F]_n -> 'cV[F]_p.
Variable eigV : forall n p : nat, 'M[F]_n -> 'M[F]_(n, p).
Variable qrQ : forall n m k : nat, 'M[F]_(n, m) -> 'M[F]_(n, k).
Variable qrR : forall n m k : nat, 'M[F]_(n, m) -> 'M[F]_(k, m).
Hypothesis chol_ok : chol_contract cholF.

Let ops := MxOps cholF eigS eigV qrQ qrR.
Local Existing Instance ops.

(* ---------------------------------------------------------------- noise *)
Lemma stabilizeE n (A : 'M[F]_n) j : stabilize A j = A + j%:M.
Proof. by rewrite /stabilize /= scalemx1. Qed.

Lemma add_variance_none n (K : 'M[F]_n) j : add_variance_MN K j = K + j%:M.
Proof. by rewrite /add_variance_MN stabilizeE. Qed.

(* the noise term assembled by add_variance from a factor M: M M^T with every
   diagonal entry raised to at least the jitter *)
Definition noise_of n k (Mf : 'M[F]_(n, k)) (j : F) : 'M[F]_n :=
  Mf *m Mf^T + diagv (\col_i (if (Mf *m Mf^T) i i < j then j - (Mf *m Mf^T) i i else 0)).

Lemma add_variance_factor n k (K : 'M[F]_n) (Mf : 'M[F]_(n, k)) j :
  add_variance_MM K Mf j = K + noise_of Mf j.
Proof.
rewrite /add_variance_MM /noise_of /= -addrA; congr (_ + (_ + diagv _)).
by apply/matrixP => i c; rewrite !mxE.
Qed.

Lemma noise_of_diag n k (Mf : 'M[F]_(n, k)) j i :
  (noise_of Mf j) i i = Num.max ((Mf *m Mf^T) i i) j.
Proof.
rewrite /noise_of; move: (Mf *m Mf^T) => N; rewrite mxE [X in _ + X]mxE eqxx mxE.
case: (ltP (N i i) j) => h; last by rewrite addr0.
by rewrite addrC subrK.
Qed.

Lemma noise_of_offdiag n k (Mf : 'M[F]_(n, k)) j i l :
  i != l -> (noise_of Mf j) i l = (Mf *m Mf^T) i l.
Proof.
by move=> il; rewrite /noise_of; move: (Mf *m Mf^T) => N; rewrite mxE [X in _ + X]mxE (negbTE il) addr0.
Qed.

Lemma noise_of_scalar n s j :
  noise_of (s *: (1%:M : 'M[F]_n)) j = (Num.max (s ^+ 2) j)%:M.
Proof.
apply/matrixP => i l; case: (eqVneq i l) => [->|il].
  rewrite noise_of_diag -scalemxAl mul1mx linearZ /= trmx1 scalerA !mxE eqxx mulr1n.
  by rewrite -expr2 mulr1.
rewrite noise_of_offdiag // -scalemxAl mul1mx linearZ /= trmx1 scalerA !mxE (negbTE il).
by rewrite mulr0n mulr0.
Qed.

Lemma diagv_mul n (d e : 'cV[F]_n) : diagv d *m diagv e = diagv (\col_i (d i 0 * e i 0)).
Proof.
apply/matrixP => i l; rewrite !mxE (bigD1 i) //= big1 ?addr0; last first.
  by move=> t ti; rewrite !mxE eq_sym (negbTE ti) mul0r.
by rewrite !mxE eqxx; case: eqP => _; rewrite ?mulr0.
Qed.

Lemma diagv_tr n (d : 'cV[F]_n) : (diagv d)^T = diagv d.
Proof. exact: sym_diagv. Qed.

Lemma noise_of_vector n (s : 'cV[F]_n) j :
  noise_of (diagv s) j = diagv (\col_i Num.max (s i 0 ^+ 2) j).
Proof.
apply/matrixP => i l; case: (eqVneq i l) => [->|il].
  by rewrite noise_of_diag diagv_tr diagv_mul !mxE eqxx expr2.
by rewrite noise_of_offdiag // diagv_tr diagv_mul !mxE (negbTE il).
Qed.

Lemma diagv_const n (a : F) : diagv (const_mx a : 'cV[F]_n) = a%:M.
Proof. by apply/matrixP => i l; rewrite !mxE; case: eqP. Qed.


(* ------------------------------------------------- positive definiteness *)
Lemma spd_jitter n (K : 'M[F]_n) j : sym K -> psd K -> 0 < j -> spd (K + j%:M).
Proof. by move=> sK pK j0; split; [apply: symD => //; apply: sym_scalar|apply: pdDr => //; apply: pd_scalar]. Qed.

Lemma spd_noise_diag n (K : 'M[F]_n) (d : 'cV[F]_n) :
  sym K -> psd K -> (forall i, 0 < d i 0) -> spd (K + diagv d).
Proof. by move=> sK pK d0; split; [apply: symD => //; apply: sym_diagv|apply: pdDr => //; apply: pd_diagv]. Qed.

Lemma max_jitter_gt0 (a j : F) : 0 < j -> 0 < Num.max a j.
Proof. by move=> j0; rewrite lt_maxr j0 orbT. Qed.

(* ------------------------------------------------------ triangular solves *)
Lemma solve_chain n c (L : 'M[F]_n) (r : 'M[F]_(n, c)) :
  is_lower L -> solve_upper (mtr L) (solve_lower L r) = invmx L^T *m (invmx L *m r).
Proof. by move=> lL; rewrite /= uppart_tr lowpart_id. Qed.

Lemma solve_upper_tr n c (L : 'M[F]_n) (r : 'M[F]_(n, c)) :
  is_lower L -> solve_upper (mtr L) r = invmx L^T *m r.
Proof. by move=> lL; rewrite /= uppart_tr lowpart_id. Qed.

Lemma solve_lowerE n c (L : 'M[F]_n) (r : 'M[F]_(n, c)) :
  is_lower L -> solve_lower L r = invmx L *m r.
Proof. by move=> lL; rewrite /= lowpart_id. Qed.

Lemma chol_solve n c (L A : 'M[F]_n) (r : 'M[F]_(n, c)) :
  chol_of L A -> A *m (invmx L^T *m (invmx L *m r)) = r.
Proof.
move=> cL; have uL := chol_of_unit cL; case: cL => lL _ <-.
by rewrite -mulmxA (mulmxA L^T) mulmxV ?unitmx_tr // mul1mx mulmxA mulmxV // mul1mx.
Qed.

Lemma chol_inv n (L A : 'M[F]_n) : chol_of L A -> invmx L^T *m invmx L = invmx A.
Proof.
move=> cL; have uL := chol_of_unit cL; case: cL => lL _ <-.
have uA : L *m L^T \in unitmx by rewrite unitmx_mul unitmx_tr uL.
rewrite -[LHS]mulmx1 -(mulmxV uA) mulmxA -[RHS]mul1mx; congr (_ *m _).
by rewrite -mulmxA (mulmxA (invmx L)) mulVmx // mul1mx mulVmx ?unitmx_tr // .
Qed.

(* ------------------------------------------------ full GP: normal equations *)
Section Full.
Variables (n c : nat) (K : 'M[F]_n) (y : 'M[F]_(n, c)) (mu j : F).
Hypothesis symK : sym K.
Hypothesis psdK : psd K.
Hypothesis j_gt0 : 0 < j.

Let r := y - const_mx mu.

Lemma full_weights_ymean sigma :
  FullCond_init_LN_sS_cN_yT_uF_weights K y mu sigma j = invmx (K + j%:M) *m r.
Proof.
rewrite /FullCond_init_LN_sS_cN_yT_uF_weights /get_L_cN add_variance_none.
have cL := chol_ok (spd_jitter symK psdK j_gt0); case: (cL) => lL _ _.
by rewrite (solve_chain _ lL) mulmxA (chol_inv cL).
Qed.

Lemma full_normal_eq_ymean sigma :
  (K + j%:M) *m FullCond_init_LN_sS_cN_yT_uF_weights K y mu sigma j = y - const_mx mu.
Proof. by rewrite full_weights_ymean mulmxA mulmxV ?mul1mx // spd_unit //; apply: spd_jitter. Qed.

Lemma full_weights_scalar sigma :
  FullCond_init_LN_sS_cN_yF_uF_weights K y mu sigma j = invmx (K + (Num.max (sigma ^+ 2) j)%:M) *m r.
Proof.
rewrite /FullCond_init_LN_sS_cN_yF_uF_weights /get_L_cM /sigma_to_y_cov_factor_sS_cN add_variance_factor.
rewrite [mscale _ _]/= noise_of_scalar.
have cL := chol_ok (spd_jitter symK psdK (max_jitter_gt0 (sigma ^+ 2) j_gt0)); case: (cL) => lL _ _.
by rewrite (solve_chain _ lL) mulmxA (chol_inv cL).
Qed.

Lemma full_normal_eq_scalar sigma :
  (K + (Num.max (sigma ^+ 2) j)%:M) *m FullCond_init_LN_sS_cN_yF_uF_weights K y mu sigma j = y - const_mx mu.
Proof.
rewrite full_weights_scalar mulmxA mulmxV ?mul1mx // spd_unit //; apply: spd_jitter => //.
exact: max_jitter_gt0.
Qed.

Lemma full_weights_vector (sigma : 'cV[F]_n) :
  FullCond_init_LN_sV_cN_yF_uF_weights K y mu sigma j
  = invmx (K + diagv (\col_i Num.max (sigma i 0 ^+ 2) j)) *m r.
Proof.
rewrite /FullCond_init_LN_sV_cN_yF_uF_weights /get_L_cM /sigma_to_y_cov_factor_sV_cN add_variance_factor.
rewrite [mdiagv _]/= noise_of_vector.
have sp : spd (K + diagv (\col_i Num.max (sigma i 0 ^+ 2) j)).
  by apply: spd_noise_diag => // i; rewrite mxE max_jitter_gt0.
have cL := chol_ok sp; case: (cL) => lL _ _.
by rewrite (solve_chain _ lL) mulmxA (chol_inv cL).
Qed.

Lemma full_normal_eq_vector (sigma : 'cV[F]_n) :
  (K + diagv (\col_i Num.max (sigma i 0 ^+ 2) j)) *m FullCond_init_LN_sV_cN_yF_uF_weights K y mu sigma j
  = y - const_mx mu.
Proof.
rewrite full_weights_vector mulmxA mulmxV ?mul1mx // spd_unit //.
by apply: spd_noise_diag => // i; rewrite mxE max_jitter_gt0.
Qed.

(* a general noise factor (e.g. L diag(std) from the latent posterior); here positive
   definiteness of the regularised matrix is a hypothesis *)
Lemma full_weights_factor k sigma (Yf : 'M[F]_(n, k)) :
  spd (K + noise_of Yf j) ->
  FullCond_init_LN_sS_cM_yF_uF_weights K y mu sigma j Yf = invmx (K + noise_of Yf j) *m r.
Proof.
move=> sp.
rewrite /FullCond_init_LN_sS_cM_yF_uF_weights /get_L_cM /sigma_to_y_cov_factor_sS_cM add_variance_factor.
have cL := chol_ok sp; case: (cL) => lL _ _.
by rewrite (solve_chain _ lL) mulmxA (chol_inv cL).
Qed.

Lemma full_normal_eq_factor k sigma (Yf : 'M[F]_(n, k)) :
  spd (K + noise_of Yf j) ->
  (K + noise_of Yf j) *m FullCond_init_LN_sS_cM_yF_uF_weights K y mu sigma j Yf = y - const_mx mu.
Proof. by move=> sp; rewrite full_weights_factor // mulmxA mulmxV ?mul1mx // spd_unit. Qed.

(* a supplied factor L (any lower-triangular matrix with non-zero diagonal) *)
Lemma full_weights_given (L : 'M[F]_n) sigma :
  is_lower L -> FullCond_init_LM_sS_cN_yF_uF_weights y mu L sigma j = invmx L^T *m (invmx L *m r).
Proof. by move=> lL; rewrite /FullCond_init_LM_sS_cN_yF_uF_weights (solve_chain _ lL). Qed.

Lemma full_normal_eq_given (L : 'M[F]_n) sigma :
  is_lower L -> (forall i, L i i != 0) ->
  (L *m L^T) *m FullCond_init_LM_sS_cN_yF_uF_weights y mu L sigma j = y - const_mx mu.
Proof.
move=> lL dL; rewrite full_weights_given //; have uL := lower_unit lL dL.
by rewrite -mulmxA (mulmxA L^T) mulmxV ?unitmx_tr // mul1mx mulmxA mulmxV // mul1mx.
Qed.

End Full.

(* ------------------------------- inducing points (DTC): normal equations *)
Section Dtc.
Variables (n m c : nat) (Kuf : 'M[F]_(m, n)) (Kuu : 'M[F]_m) (y : 'M[F]_(n, c)) (mu j : F).
Hypothesis symK : sym Kuu.
Hypothesis psdK : psd Kuu.
Hypothesis j_gt0 : 0 < j.

Let r := y - const_mx mu.
Let Lu := cholF (Kuu + j%:M).
Let A := invmx Lu *m Kuf.

Lemma Lu_chol : chol_of Lu (Kuu + j%:M).
Proof. exact: chol_ok (spd_jitter symK psdK j_gt0). Qed.

Lemma Lu_A : Lu *m A = Kuf.
Proof. by rewrite /A mulmxA mulmxV ?mul1mx // (chol_of_unit Lu_chol). Qed.

Lemma spd_AAt_noise a : 0 < a -> spd (A *m A^T + a%:M).
Proof. by move=> a0; apply: spd_jitter => //; [apply: sym_gram|apply: psd_gram]. Qed.

(* closed form of the generated weights, noise level a on the whitened inducing variables *)
Definition dtc_w (a : F) := invmx Lu^T *m (invmx (A *m A^T + a%:M) *m (A *m r)).

Lemma dtc_weights_ymean sigma :
  LandmarksCond_init_sS_cN_yT_uF_weights Kuf Kuu y mu sigma j = dtc_w j.
Proof.
rewrite /LandmarksCond_init_sS_cN_yT_uF_weights /get_L_cN add_variance_none stabilizeE.
case: (Lu_chol) => lL _ _; rewrite /= -/Lu lowpart_id // -/A.
have cB := chol_ok (spd_AAt_noise j_gt0); case: (cB) => lB _ _.
by rewrite !uppart_tr !lowpart_id // -/r /dtc_w; congr (_ *m _); rewrite mulmxA (chol_inv cB).
Qed.

Lemma dtc_weights_scalar sigma :
  LandmarksCond_init_sS_cN_yF_uF_weights Kuf Kuu y mu sigma j = dtc_w (Num.max (sigma ^+ 2) j).
Proof.
rewrite /LandmarksCond_init_sS_cN_yF_uF_weights /get_L_cN add_variance_none add_variance_factor.
rewrite /sigma_to_y_cov_factor_sS_cN [mscale _ _]/= noise_of_scalar.
case: (Lu_chol) => lL _ _; rewrite /= -/Lu lowpart_id // -/A.
have cB := chol_ok (spd_AAt_noise (max_jitter_gt0 (sigma ^+ 2) j_gt0)); case: (cB) => lB _ _.
by rewrite !uppart_tr !lowpart_id // -/r /dtc_w; congr (_ *m _); rewrite mulmxA (chol_inv cB).
Qed.

(* (K_uf K_fu + a (K_uu + j I)) w = K_uf (y - mu) *)
Lemma dtc_normal_eq_closed a : 0 < a ->
  (Kuf *m Kuf^T + a *: (Kuu + j%:M)) *m dtc_w a = Kuf *m r.
Proof.
move=> a0; have uL := chol_of_unit Lu_chol; case: (Lu_chol) => _ _ LLt.
have uB := spd_unit (spd_AAt_noise a0).
have -> : Kuf *m Kuf^T + a *: (Kuu + j%:M) = Lu *m (A *m A^T + a%:M) *m Lu^T.
  rewrite mulmxDr mulmxDl -LLt mul_mx_scalar -scalemxAl; congr (_ + _).
  by rewrite -{1 2}Lu_A trmx_mul !mulmxA.
rewrite /dtc_w mulmxA.
Show. Abort. 
