From MellonV Require Import MatOps.
Section Gen.
Context {S : Type} {M : nat -> nat -> Type} {ops : MatOps S M}.
Definition stabilize {n : nat} (A : M n n) (jitter : S) :=
  madd A (mscale jitter (meye n)).
Time Definition t1 {n m : nat} (kq : nat) (p : nat) (p1 : nat) (K_x_xu : M n m) (K_xu_xu : M m m) (rank : nat) (sigma : S) (jitter : S) :=
  let sigma2 := smul sigma sigma in
  let sigma21 := sif (sltb sigma2 jitter) jitter sigma2 in
  let W := stabilize K_xu_xu sigma21 in
  let qr_out := qr_red kq K_x_xu in
  let Q := fst qr_out in
  let R := snd qr_out in
  let eig_out := eig_top p W in
  let s := fst eig_out in
  let v := snd eig_out in
  let T := mmul R v in T.
Time Definition t2 {n m : nat} (kq : nat) (p : nat) (p1 : nat) (K_x_xu : M n m) (K_xu_xu : M m m) (rank : nat) (sigma : S) (jitter : S) :=
  let T := t1 kq p p1 K_x_xu K_xu_xu rank sigma jitter in
  let s := fst (eig_top p K_xu_xu) in 
  let X := (mmul (mbcol sdiv T s) (mtr T)) in X.
Time Definition t3 {n m : nat} (kq : nat) (p : nat) (p1 : nat) (K_x_xu : M n m) (K_xu_xu : M m m) (rank : nat) (sigma : S) (jitter : S) :=
  let X := t2 kq p p1 K_x_xu K_xu_xu rank sigma jitter in
  let eig_out1 := eig_top p1 X in
  let S1 := fst eig_out1 in
  let V := snd eig_out1 in V.
End Gen.
