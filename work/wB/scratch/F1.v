From Coq Require Import List ZArith Uint63 PrimFloat.
From MellonV Require Import MatOps MxFloat.
Import ListNotations.
Open Scope float_scope.
Definition A : FM 2 2 := [[0x1.0000000000000p+2; -0x1.8000000000000p-1]; [(-0x1.8p-1); 0x1.4p+1]].
Eval vm_compute in A.
Eval vm_compute in (@chol float FM FloatOps 2 A).
Eval vm_compute in (0x0.0p+0, 1e-8, 0x1.5798ee2308c3ap-27).
