import numpy as np, logging, sys
import mellon, mellon.conditional as mc
from mellon.cov import Matern52, ExpQuad, Exponential, RatQuad, Matern32, Linear
mellon.logger.setLevel(logging.CRITICAL)
rng=np.random.default_rng(0)
u=2.0**-53
for trial in range(12):
    n=int(rng.choice([10,30,60])); d=int(rng.choice([1,2,5])); m=int(rng.choice([5,n,n+7]))
    x=rng.normal(size=(n,d)); xu=np.vstack([x,rng.normal(size=(8,d))])[:m] if m>n else x[:m]+0.0
    if m!=n: xu = rng.normal(size=(m,d))
    ls=float(rng.choice([0.3,1.0,3.0])); j=float(rng.choice([1e-8,1e-6,1e-3]))
    cov=[Matern52,ExpQuad,Exponential,RatQuad][trial%4](ls) if trial%4!=3 else RatQuad(1.0,ls)
    y=rng.normal(size=(n,2)); mu=0.3
    K=np.asarray(cov(x,x)); Kuf=np.asarray(cov(xu,x)); Kuu=np.asarray(cov(xu,xu))
    # full
    p=mc.FullConditional(x,y,mu,cov,sigma=0.0,jitter=j,y_is_mean=True)
    w=np.asarray(p.weights); A=K+j*np.eye(n); r=y-mu
    res=np.linalg.norm(A@w-r); tol=n*u*(np.linalg.norm(A,2)*np.linalg.norm(w)+np.linalg.norm(r))
    # dtc
    p2=mc.LandmarksConditional(x,xu,y,mu,cov,sigma=0.0,jitter=j,y_is_mean=True)
    w2=np.asarray(p2.weights); M=Kuf@Kuf.T+j*(Kuu+j*np.eye(m)); rhs=Kuf@r
    res2=np.linalg.norm(M@w2-rhs); tol2=m*u*(np.linalg.norm(M,2)*np.linalg.norm(w2)+np.linalg.norm(rhs))
    kap=np.sqrt((np.linalg.norm(Kuu,2)+j)/j)
    print("n=%d m=%d j=%g %s ls=%g | full res/tol=%.2g |w|=%.2g | dtc res/tol=%.3g  kappa=%.2g  res/(tol*kappa)=%.2g |w2|=%.2g nan=%s"%(n,m,j,type(cov).__name__,ls,res/tol,np.linalg.norm(w),res2/tol2,kap,res2/tol2/kap,np.linalg.norm(w2),np.isnan(w2).any()))
