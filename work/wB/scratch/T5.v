From MellonV Require Import MatOps.
Section Gen.
Context {S : Type} {M : nat -> nat -> Type} {ops : MatOps S M}.
Time Definition c4 {n : nat} (A : M n n) :=
  let B := mmul A A in let C := mmul B B in let D := mmul C C in let E := mmul D D in E.
Time Definition c6 {n : nat} (A : M n n) :=
  let B := mmul A A in let C := mmul B B in let D := mmul C C in let E := mmul D D in 
  let F := mmul E E in let G := mmul F F in G.
Time Definition c8 {n : nat} (A : M n n) :=
  let B := mmul A A in let C := mmul B B in let D := mmul C C in let E := mmul D D in 
  let F := mmul E E in let G := mmul F F in let H := mmul G G in let I := mmul H H in I.
Time Definition d8 {n : nat} (A : M n n) :=
  let B := mmul A A in let C := mmul B A in let D := mmul C A in let E := mmul D A in 
  let F := mmul E A in let G := mmul F A in let H := mmul G A in let I := mmul H A in I.
Time Definition e8 {n : nat} (A : M n n) :=
  let B : M n n := mmul A A in let C : M n n := mmul B B in let D : M n n := mmul C C in let E : M n n := mmul D D in 
  let F : M n n := mmul E E in let G : M n n := mmul F F in let H : M n n := mmul G G in let I : M n n := mmul H H in I.
End Gen.
