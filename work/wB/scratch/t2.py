import sys
sys.path.insert(0,'/verif')
from translate.pymatrix import *
tr = Translator('/repo')
C='mellon.conditional.'
D='mellon.decomposition.'
def tgt(q, want=None, **path):
    try:
        d = tr.target(q, want=want, **path)
        print("OK ", d if isinstance(d, dict) else d.name)
    except PathError as e:
        print("PATHERR", q, path, e)
tgt('mellon.util.stabilize')
tgt('mellon.util.add_variance', M='none')
tgt('mellon.util.add_variance', M='mat')
tgt(C+'_FullConditional.__init__', L='none', sigma='scalar', y_cov_factor='none', y_is_mean=False, with_uncertainty=True)
for y in (True, False):
    for s in ('scalar','vec','none'):
      for c in ('none','mat'):
        for u in (False, True):
            tgt(C+'_LandmarksConditional.__init__', sigma=s, y_cov_factor=c, y_is_mean=y, with_uncertainty=u)
for L in ('none','mat'):
  for y in (True, False):
    for s in ('scalar','vec','none'):
        for u in (False, True):
            tgt(C+'_LandmarksConditionalCholesky.__init__', L=L, sigma=s, y_is_mean=y, with_uncertainty=u)
for cls in ('_FullConditional','_LandmarksConditional','_LandmarksConditionalCholesky'):
    tgt(C+cls+'._mean')
    for d in (True, False):
        tgt(C+cls+'._covariance', diag=d)
        tgt(C+cls+'._mean_covariance', diag=d)
tgt(D+'_full_rank')
tgt(D+'_full_decomposition_low_rank')
tgt(D+'_standard_low_rank', Lp='none')
tgt(D+'_standard_low_rank', Lp='mat')
tgt(D+'_modified_low_rank')
tgt('mellon.inference.compute_parameter_cov_factor')
print(tr.class_table())
open('/verif/work/wB/gen/TestGen.v','w').write(tr.emit())
