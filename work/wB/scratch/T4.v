From MellonV Require Import MatOps.
Section Gen.
Context {S : Type} {M : nat -> nat -> Type} {ops : MatOps S M}.
Time Definition t5 {n m : nat} (kq : nat) (p : nat) (p1 : nat) (K_x_xu : M n m) (W : M m m)  :=
  let Q := qr_q kq K_x_xu in
  let R := qr_r kq K_x_xu in
  let s := eig_vals p W in
  let v := eig_vecs p W in
  let T := mmul R v in
  let S1 := eig_vals p1 (mmul (mbcol sdiv T s) (mtr T)) in
  let V := eig_vecs p1 (mmul (mbcol sdiv T s) (mtr T)) in
  let L := mbcol smul (mmul Q V) (mmap (fun t0 => ssqrt t0) S1) in
  L.
Time Definition t6 {n m : nat} (kq : nat) (p : nat) (p1 : nat) (K_x_xu : M n m) (W : M m m)  :=
  let Q := qr_q kq K_x_xu in
  let R := qr_r kq K_x_xu in
  let s := eig_vals p W in
  let v := eig_vecs p W in
  let T := mmul R v in
  let S1 := eig_vals p1 (mmul (mbcol (fun a b => sdiv a b) T s) (mtr T)) in
  let V := eig_vecs p1 (mmul (mbcol (fun a b => sdiv a b) T s) (mtr T)) in
  let L := mbcol (fun a b => smul a b) (mmul Q V) (mmap (fun t0 => ssqrt t0) S1) in
  L.
Time Definition t7 {n m : nat} (kq : nat) (p : nat) (p1 : nat) (K_x_xu : M n m) (W : M m m)  :=
  let Q := qr_q kq K_x_xu in
  let R := qr_r kq K_x_xu in
  let s := eig_vals p W in
  let v := eig_vecs p W in
  let T := mmul R v in
  let S1 := eig_vals p1 (mmul (mbcol (@sdiv S M ops) T s) (mtr T)) in
  let V := eig_vecs p1 (mmul (mbcol (@sdiv S M ops) T s) (mtr T)) in
  let L := mbcol (@smul S M ops) (mmul Q V) (mmap (fun t0 => @ssqrt S M ops t0) S1) in
  L.
End Gen.
