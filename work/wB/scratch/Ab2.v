From mathcomp Require Import all_ssreflect all_fingroup all_algebra.
From MellonV Require Import MatOps MxInst MxPsd MatGen CondThm CovThm CrossThm.
About cov_sym. About cov_psd. About var_bounds. About cov_closed. About inv_bound. About W_latent. About cov_at_conditioning_points.
