From mathcomp Require Import all_ssreflect all_fingroup all_algebra.
From MellonV Require Import MatOps MxInst MxPsd MatGen CondThm.
About full_normal_eq_ymean. About full_normal_eq_scalar. About dtc_coeff_spd. About dtc_normal_eq_closed. About latent_eq_ymean. About dtc_weights_ymean. About full_weights_ymean. About dtc_w.
