#!/bin/bash
# usage: dbg.sh file.v LINE  -> compiles a copy truncated before LINE with "Show." appended
f=$1; l=$2
head -n $((l-1)) $f > /verif/work/wB/scratch/Dbg.v
echo "Show. Abort. " >> /verif/work/wB/scratch/Dbg.v
cd /verif/work/wB && timeout 120 coqc -q -w none -R /verif/coq MellonV -R /verif/work/wB MellonV scratch/Dbg.v 2>&1 | tail -${3:-30}
