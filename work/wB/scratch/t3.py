import sys
sys.path.insert(0,'/verif')
from translate.pymatrix import *
tr = Translator('/repo')
C='mellon.conditional.'
D='mellon.decomposition.'
def tgt(q, want=None, **path):
    try:
        d = tr.target(q, want=want, **path)
    except PathError as e:
        print("PATHERR", q, path, e)
tgt(C+'_FullConditional.__init__', L='none', sigma='scalar', y_cov_factor='none', y_is_mean=False, with_uncertainty=True)
tgt(C+'_FullConditional.__init__', L='none', sigma='vec', y_cov_factor='none', y_is_mean=False, with_uncertainty=True)
tgt(C+'_FullConditional.__init__', L='none', sigma='scalar', y_cov_factor='none', y_is_mean=True, with_uncertainty=True)
tgt(C+'_FullConditional.__init__', L='none', sigma='scalar', y_cov_factor='mat', y_is_mean=True, with_uncertainty=True)
tgt(C+'_FullConditional.__init__', L='mat', sigma='scalar', y_cov_factor='mat', y_is_mean=True, with_uncertainty=True)
tgt(C+'_FullConditional.__init__', L='mat', sigma='scalar', y_cov_factor='none', y_is_mean=False, with_uncertainty=False)
for y in (True, False):
   tgt(C+'_LandmarksConditional.__init__', sigma='scalar', y_cov_factor='none', y_is_mean=y, with_uncertainty=False)
tgt(C+'_LandmarksConditional.__init__', sigma='scalar', y_cov_factor='mat', y_is_mean=True, with_uncertainty=True)
for L in ('none','mat'):
  for y in (True, False):
    for s in ('scalar','vec'):
        for u in (False, True):
            tgt(C+'_LandmarksConditionalCholesky.__init__', L=L, sigma=s, y_is_mean=y, with_uncertainty=u)
for cls in ('_FullConditional','_LandmarksConditional','_LandmarksConditionalCholesky'):
    tgt(C+cls+'._mean')
    for d in (True, False):
        tgt(C+cls+'._covariance', diag=d)
        tgt(C+cls+'._mean_covariance', diag=d)
tgt(D+'_full_rank')
tgt(D+'_full_decomposition_low_rank')
tgt(D+'_standard_low_rank', Lp='none')
tgt(D+'_standard_low_rank', Lp='mat')
tgt(D+'_modified_low_rank')
tgt('mellon.inference.compute_parameter_cov_factor')
open('/verif/work/wB/gen/TestGen.v','w').write(tr.emit())
