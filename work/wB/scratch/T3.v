From MellonV Require Import MatOps.
Section Gen.
Context {S : Type} {M : nat -> nat -> Type} {ops : MatOps S M}.
Time Definition t4 {n m : nat} (kq : nat) (p : nat) (p1 : nat) (K_x_xu : M n m) (W : M m m)  :=
  let qr_out := qr_red kq K_x_xu in
  let Q := fst qr_out in
  let R := snd qr_out in
  let eig_out := eig_top p W in
  let s := fst eig_out in
  let v := snd eig_out in
  let T := mmul R v in
  let eig_out1 := eig_top p1 (mmul (mbcol sdiv T s) (mtr T)) in
  let S1 := fst eig_out1 in
  let V := snd eig_out1 in
  V.
Time Definition t5 {n m : nat} (kq : nat) (p : nat) (p1 : nat) (K_x_xu : M n m) (W : M m m)  :=
  let qr_out := qr_red kq K_x_xu in
  let Q := fst qr_out in
  let R := snd qr_out in
  let eig_out := eig_top p W in
  let s := fst eig_out in
  let v := snd eig_out in
  let T := mmul R v in
  let eig_out1 := eig_top p1 (mmul (mbcol sdiv T s) (mtr T)) in
  let S1 := fst eig_out1 in
  let V := snd eig_out1 in
  let L := mbcol smul (mmul Q V) (mmap (fun t0 => ssqrt t0) S1) in
  L.
End Gen.
