(* C08 / C17: in function space the objective  J(f) = 1/2 (f - mu)^T (K + jI)^-1 (f - mu) - sum_i ell(r_i, f_i)  of the
   full model is strictly convex as soon as K + jI is symmetric positive definite and every likelihood term is
   concave in f_i; hence any two minimisers coincide, and the minimiser of the reordered problem IS the reordered
   minimiser - uniqueness is no longer a hypothesis (MathComp, any real closed field). *)
From mathcomp Require Import all_ssreflect all_fingroup all_algebra.
From mathcomp Require Import ring.
From MellonV Require Import MatOps MxInst MxPsd C08MxThm.
Set Implicit Arguments.
Unset Strict Implicit.
Unset Printing Implicit Defensive.
Import Order.TTheory GRing.Theory Num.Theory.
Local Open Scope ring_scope.

Section Uniq.
Variable F : rcfType.
Variable ell : F -> F -> F.

Definition concave2 : Prop :=
  forall r a b : F, (2%:R)^-1 * ell r a + (2%:R)^-1 * ell r b <= ell r ((2%:R)^-1 * (a + b)).

Definition is_min n (J : 'cV[F]_n -> F) (f : 'cV[F]_n) : Prop := forall g, J f <= J g.

Let h : F := (2%:R)^-1.
Lemma h_gt0 : 0 < h. Proof. by rewrite /h invr_gt0 ltr0n. Qed.
Lemma hh : h + h = 1. Proof. rewrite /h. by field. Qed.

(* parallelogram identity for a quadratic form: q(a)/2 + q(b)/2 - q((a+b)/2) = q(a-b)/4 *)
Lemma qf_midpoint n (B : 'M[F]_n) (a b : 'cV[F]_n) :
  h * qf B a + h * qf B b - qf B (h *: (a + b)) = h * h * qf B (a - b).
Proof.
  rewrite /qf.
  have e1 : (h *: (a + b))^T *m B *m (h *: (a + b)) = (h * h) *: ((a + b)^T *m B *m (a + b)).
    by rewrite linearZ /= [(h *: _)^T]linearZ /= -!scalemxAl scalerA.
  rewrite e1 !linearD /= linearN /=.
  rewrite ?mulmxDl ?mulmxDr ?mulNmx ?mulmxN ?mulNmx.
  have [Qa eQa] : {X | X = a^T *m B *m a} by eexists.
  have [Qb eQb] : {X | X = b^T *m B *m b} by eexists.
  have [C1 eC1] : {X | X = a^T *m B *m b} by eexists.
  have [C2 eC2] : {X | X = b^T *m B *m a} by eexists.
  rewrite -eQa -eQb -eC1 -eC2.
  rewrite !mxE.
  move: (Qa 0 0) (Qb 0 0) (C1 0 0) (C2 0 0) => qa qb c1 c2.
  have := hh. move: h => x hx.
  have -> : x * qa + x * qb = (x + x) * (x * qa + x * qb) by rewrite hx mul1r.
  ring.
Qed.

Lemma qfE' n (B : 'M[F]_n) (v : 'cV[F]_n) : (v^T *m B *m v) 0 0 = qf B v. Proof. by []. Qed.

Lemma objective_midpoint n (K : 'M[F]_n) (j mu : F) (r f g : 'cV[F]_n) :
  spd (K + j%:M) -> concave2 -> f != g ->
  objective ell K j mu r (h *: (f + g)) < h * objective ell K j mu r f + h * objective ell K j mu r g.
Proof.
  move=> sA cv fg. rewrite /objective -/h !qfE'.
  set B := invmx (K + j%:M). set c := const_mx mu.
  have em : h *: (f + g) - c = h *: ((f - c) + (g - c)).
    rewrite [in RHS]addrACA -opprD scalerBr scalerDr; congr (_ - _).
    by rewrite scalerDr -scalerDl hh scale1r.
  rewrite em.
  have := qf_midpoint B (f - c) (g - c).
  have -> : f - c - (g - c) = f - g by rewrite opprB addrA subrK.
  have pB : pd B by apply: pd_inv.
  have q0 : 0 < qf B (f - g) by apply: pB; rewrite subr_eq0.
  have lik : \sum_i (h * ell (r i 0) (f i 0) + h * ell (r i 0) (g i 0)) <= \sum_i ell (r i 0) ((h *: (f + g)) i 0).
    apply: ler_sum => i _. rewrite !mxE. exact: cv.
  move: lik. rewrite big_split /= -!mulr_sumr.
  move: (\sum_i ell (r i 0) (f i 0)) (\sum_i ell (r i 0) (g i 0)) (\sum_i ell (r i 0) ((h *: (f + g)) i 0)) => lf lg lm lik.
  move: (qf B (f - c)) (qf B (g - c)) (qf B (h *: (f - c + (g - c)))) (qf B (f - g)) q0 => qa qb qm qd q0 eq.
  have -> : qm = h * qa + h * qb - h * h * qd by rewrite -eq; ring.
  have hp := h_gt0.
  have pos : 0 < h * (h * h * qd) by rewrite !mulr_gt0.
  have -> : h * (h * qa - lf) + h * (h * qb - lg) = h * (h * qa + h * qb - h * h * qd) - (h * lf + h * lg) + h * (h * h * qd) by ring.
  rewrite -subr_gt0.
  have -> : h * (h * qa + h * qb - h * h * qd) - (h * lf + h * lg) + h * (h * h * qd) - (h * (h * qa + h * qb - h * h * qd) - lm)
            = (lm - (h * lf + h * lg)) + h * (h * h * qd) by ring.
  by apply: ltr_paddl => //; rewrite subr_ge0.
Qed.

Theorem objective_min_unique n (K : 'M[F]_n) (j mu : F) (r f g : 'cV[F]_n) :
  spd (K + j%:M) -> concave2 ->
  is_min (objective ell K j mu r) f -> is_min (objective ell K j mu r) g -> f = g.
Proof.
  move=> sA cv mf mg. apply/eqP/negPn/negP => fg.
  have := objective_midpoint mu r sA cv fg.
  have := mf (h *: (f + g)). have := mg (h *: (f + g)).
  move: (objective ell K j mu r (h *: (f + g))) (objective ell K j mu r f) (objective ell K j mu r g) => jm jf jg h1 h2 h3.
  have : h * jf + h * jg <= h * jm + h * jm by rewrite ler_add // ler_wpmul2l // ltW // h_gt0.
  rewrite -mulrDl hh mul1r => h4.
  by move: (lt_le_trans h3 h4); rewrite ltxx.
Qed.

(* fitted values follow the permutation: any minimiser of the reordered problem is the reordered minimiser *)
Theorem fitted_follow_permutation n (K : 'M[F]_n) (j mu : F) (r f g : 'cV[F]_n) (s : 'S_n) :
  spd (K + j%:M) -> concave2 ->
  is_min (objective ell K j mu r) f ->
  is_min (objective ell (perm_mx s *m K *m (perm_mx s)^T) j mu (perm_mx s *m r)) g ->
  g = perm_mx s *m f.
Proof.
  move=> sA cv mf mg. have uA := spd_unit sA.
  have eg : g = perm_mx s *m ((perm_mx s)^T *m g) by rewrite mulmxA perm_mxKT mul1mx.
  rewrite eg; congr (_ *m _). symmetry.
  apply: (objective_min_unique sA cv mf) => k.
  rewrite -(objective_permutation ell mu r ((perm_mx s)^T *m g) s uA) -eg.
  by rewrite -(objective_permutation ell mu r k s uA); apply: mg.
Qed.

(* and the reordered minimiser is a minimiser of the reordered problem *)
Theorem permuted_minimiser_is_min n (K : 'M[F]_n) (j mu : F) (r f : 'cV[F]_n) (s : 'S_n) :
  K + j%:M \in unitmx ->
  is_min (objective ell K j mu r) f ->
  is_min (objective ell (perm_mx s *m K *m (perm_mx s)^T) j mu (perm_mx s *m r)) (perm_mx s *m f).
Proof.
  move=> uA mf k.
  have ek : k = perm_mx s *m ((perm_mx s)^T *m k) by rewrite mulmxA perm_mxKT mul1mx.
  by rewrite ek !objective_permutation //; apply: mf.
Qed.
End Uniq.
