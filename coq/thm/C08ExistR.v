(* C08 at Coq's reals, completed: for a symmetric positive definite K + jI the function-space objective
     J(f) = 1/2 (f - mu)^T (K + jI)^-1 (f - mu) - sum_i nn_term(r_i, d, f_i)
   HAS a minimiser: with the Cholesky factor L of K + jI (lib/MxChol.v) and f = L z + mu it is the generated
   latent-coordinate loss (gen/AInference.v) up to a constant, whose minimiser exists by thm/AExistThm.v.
   Together with thm/C08UniqThm.v / C08UniqR.v: exactly one minimiser, and it follows every reordering of the cells. *)
From Coq Require Import Reals List Lra.
From mathcomp Require Import all_ssreflect all_fingroup all_algebra.
From MellonV Require Import ALists AInference AConvexThm AExistThm.
From MellonV Require Import Rstruct MatOps MxInst MxPsd MxChol C08MxThm C08UniqThm C08UniqR ASchurBridge.
Set Implicit Arguments.
Unset Strict Implicit.
Unset Printing Implicit Defensive.
Import GRing.Theory Num.Theory.

Section ExistR.
Local Open Scope ring_scope.
Variable lgam : R -> R.
Variable d : R.
Variable n : nat.

(* lists of a column vector / of the rows of a matrix *)
Definition lst (u : 'cV[R]_n) : list R := [seq u i 0 | i <- enum 'I_n].
Definition rows (L : 'M[R]_n) : list (list R) := [seq [seq L i j | j <- enum 'I_n] | i <- enum 'I_n].

Lemma sum_map_big (g : R -> R) (a : 'I_n -> R) (s : seq 'I_n) :
  sum_list [seq g (a i) | i <- s] = \sum_(i <- s) g (a i).
Proof. by elim: s => [|i s IH] /=; rewrite ?big_nil ?big_cons ?IH. Qed.

Lemma sum_sq_big (a : 'I_n -> R) (s : seq 'I_n) :
  sum_list (List.map (fun z0 : R => pow z0 2) [seq a i | i <- s]) = \sum_(i <- s) a i * a i.
Proof. by elim: s => [|i s IH] /=; rewrite ?big_nil ?big_cons ?IH ?Rmult_1_r. Qed.

Lemma dot_big (a b : 'I_n -> R) (s : seq 'I_n) :
  dot [seq a i | i <- s] [seq b i | i <- s] = \sum_(i <- s) a i * b i.
Proof. by rewrite /dot; elim: s => [|i s IH] /=; rewrite ?big_nil ?big_cons ?IH. Qed.

Lemma map3_big (f : R -> R -> R -> R) (a b : 'I_n -> R) (s : seq 'I_n) :
  sum_list (map3 f [seq a i | i <- s] (nseq (size s) d) [seq b i | i <- s]) = \sum_(i <- s) f (a i) d (b i).
Proof. by elim: s => [|i s IH] /=; rewrite ?big_nil ?big_cons ?IH. Qed.

Lemma dot_row (L : 'M[R]_n) (z : 'cV[R]_n) (i : 'I_n) : dot [seq L i j | j <- enum 'I_n] (lst z) = (L *m z) i 0.
Proof. by rewrite /lst dot_big mxE big_filter. Qed.

Lemma transform_rows_gen (L : 'M[R]_n) (mu : R) (z : 'cV[R]_n) (s : seq 'I_n) :
  List.map (fun Lrow : list R => transform_row mu Lrow (lst z)) [seq [seq L i j | j <- enum 'I_n] | i <- s]
  = [seq (L *m z) i 0 + mu | i <- s].
Proof. by elim: s => [|i s IH] //=; rewrite IH /transform_row dot_row. Qed.

Lemma transform_rows (L : 'M[R]_n) (mu : R) (z : 'cV[R]_n) :
  transform mu (rows L) (lst z) = [seq (L *m z) i 0 + mu | i <- enum 'I_n].
Proof. exact: transform_rows_gen. Qed.

Lemma size_lst (u : 'cV[R]_n) : length (lst u) = n.
Proof. exact: (etrans (size_map _ _) (size_enum_ord _)). Qed.

Lemma lst_colR (l : list R) : length l = n -> lst (colR n l) = l.
Proof.
  move=> e. have sz : size (lst (colR n l)) = n by exact: size_lst.
  apply: (@eq_from_nth _ (0 : R)); first by rewrite sz.
  move=> i; rewrite sz => lt_i.
  by rewrite /lst (nth_map (Ordinal lt_i)) ?size_enum_ord // mxE nth_enum_ord.
Qed.

(* the generated latent-coordinate loss on the lists of (r, d, L, z) *)
Definition lossL (L : 'M[R]_n) (mu : R) (r z : 'cV[R]_n) : R :=
  loss lgam (INR n) (lst r) (nseq n d) (transform mu (rows L)) (lst z).

Definition halfln : R := Rmult (Rdiv (INR n) (IZR 2)) (ln (Rmult (IZR 2) PI)).

Lemma lossL_big (L : 'M[R]_n) (mu : R) (r z : 'cV[R]_n) :
  lossL L mu r z = Rplus (Rminus (Rmult (Rinv (IZR 2)) (\sum_i z i 0 * z i 0)) (\sum_i nn_term lgam (r i 0) d ((L *m z) i 0 + mu))) halfln.
Proof.
  rewrite /lossL /loss /normal_logpdf /nn_loglik /halfln.
  have -> : sum_list (List.map (fun z0 : R => pow z0 2) (lst z)) = \sum_i z i 0 * z i 0.
    by rewrite /lst sum_sq_big big_filter.
  have -> : sum_list (map3 (nn_term lgam) (lst r) (nseq n d) (transform mu (rows L) (lst z))) = \sum_i nn_term lgam (r i 0) d ((L *m z) i 0 + mu).
    rewrite transform_rows.
    have -> : nseq n d = nseq (size (enum 'I_n)) d by rewrite size_enum_ord.
    rewrite /lst (map3_big (nn_term lgam) (fun i => r i 0) (fun i => (L *m z) i 0 + mu)).
    by rewrite big_filter.
  rewrite /GRing.add /GRing.mul /=. lra.
Qed.

(* in latent coordinates f = L z + mu the prior's quadratic form is |z|^2 *)
Lemma quad_latent (L A : 'M[R]_n) (z : 'cV[R]_n) : chol_of L A ->
  ((L *m z)^T *m invmx A *m (L *m z)) 0 0 = \sum_i z i 0 * z i 0.
Proof.
  move=> cL. have uL := chol_of_unit cL. case: cL => _ _ eA.
  have uLT : L^T \in unitmx by rewrite unitmx_tr.
  have uA : A \in unitmx by rewrite -eA unitmx_mul uL uLT.
  rewrite -mulmxA.
  have -> : invmx A *m (L *m z) = invmx L^T *m z.
    have e : L *m z = A *m (invmx L^T *m z) by rewrite -eA -!mulmxA (mulmxA L^T) mulmxV // mul1mx.
    by rewrite {1}e mulKmx.
  rewrite trmx_mul -mulmxA (mulmxA L^T) mulmxV // mul1mx mxE.
  by apply: eq_bigr => i _; rewrite mxE.
Qed.

Lemma objective_latent (L K : 'M[R]_n) (j mu : R) (r z : 'cV[R]_n) : chol_of L (K + j%:M) ->
  objective (ell_nn lgam d) K j mu r (L *m z + const_mx mu) = Rminus (lossL L mu r z) halfln.
Proof.
  move=> cL. rewrite lossL_big /objective half_R /two addrK (quad_latent z cL).
  set f := L *m z + const_mx mu.
  have -> : \sum_i ell_nn lgam d (r i 0) (f i 0) = \sum_i nn_term lgam (r i 0) d ((L *m z) i 0 + mu).
    by apply: eq_bigr => i _; rewrite /ell_nn /f !mxE.
  rewrite /GRing.add /GRing.opp /GRing.mul /=. lra.
Qed.

Theorem nn_objective_minimiser_exists (K : 'M[R]_n) (j mu : R) (r : 'cV[R]_n) :
  spd (K + j%:M) -> exists f, is_min (objective (ell_nn lgam d) K j mu r) f.
Proof.
  move=> sA. have [L cL] := chol_exists sA. have uL := chol_of_unit cL.
  have [zl [len_zl min_zl]] := loss_minimiser_exists lgam (INR n) (lst r) (nseq n d) mu (rows L) n.
  exists (L *m colR n zl + const_mx mu) => g.
  have eg : g = L *m (invmx L *m (g - const_mx mu)) + const_mx mu by rewrite mulKVmx // subrK.
  rewrite eg !(objective_latent _ _ _ cL). apply/RleP.
  have := min_zl (lst (invmx L *m (g - const_mx mu))) (size_lst _).
  rewrite /lossL (lst_colR len_zl). lra.
Qed.

(* exactly one minimiser, and it follows every reordering of the cells *)
Theorem nn_fitted_values_well_defined (K : 'M[R]_n) (j mu : R) (r : 'cV[R]_n) :
  spd (K + j%:M) ->
  exists f, [/\ is_min (objective (ell_nn lgam d) K j mu r) f,
               (forall g, is_min (objective (ell_nn lgam d) K j mu r) g -> g = f)
             & forall (s : 'S_n) g,
                 is_min (objective (ell_nn lgam d) (perm_mx s *m K *m (perm_mx s)^T) j mu (perm_mx s *m r)) g <-> g = perm_mx s *m f].
Proof.
  move=> sA. have [f mf] := nn_objective_minimiser_exists mu r sA. exists f. split=> //.
  - move=> g mg. exact: (nn_objective_min_unique sA mg mf).
  - move=> s g. split.
    + move=> mg. exact: (nn_fitted_follow_permutation sA mf mg).
    + move=> ->. apply: permuted_minimiser_is_min => //. exact: spd_unit.
Qed.
End ExistR.
