(* C10: the rank-count logic of mellon.decomposition._eigendecomposition.
   The definition [eigendecomposition] is generated from the source; the
   eigen-solver's outputs (s ascending, v) are its oracle parameters. *)
From Coq Require Import ZArith QArith List Bool Lia Qreduction Sorting.Sorted.
From MellonV Require Import PyVal PyValFacts EigCount.
Import ListNotations.
Open Scope Z_scope.

(* ---------- typed views ---------- *)
Definition farr (qs : list Q) : val := VArr KF [Z.of_nat (length qs)] (map XFin qs).
Definition fmat (r c : Z) (d : list Q) : val := VArr KF [r; c] (map XFin d).

Definition posb (q : Q) : bool := Qltb 0%Q q.
Definition npos (qs : list Q) : nat := length (filter posb qs).
(* the last p entries (the p largest when the list is ascending) *)
Definition lastn {A} (p : nat) (l : list A) : list A := skipn (length l - p) l.
(* the positive eigenvalues in descending order, as the code sees them *)
Definition top (qs : list Q) : list Q := rev (lastn (npos qs) qs).

Fixpoint qcumsum (acc : Q) (l : list Q) : list Q :=
  match l with [] => [] | x :: r => let a := Qred (acc + x) in a :: qcumsum a r end.
Fixpoint qcount_lt (l : list Q) (t : Q) : nat :=
  match l with [] => O | x :: r => if Qltb x t then S (qcount_lt r t) else O end.

Definition summed (qs : list Q) : list Q := qcumsum 0%Q (top qs).
Definition total (qs : list Q) : Q := nth (npos qs - 1) (summed qs) 0%Q.
(* number of directions kept for a fractional request f *)
Definition frac_count (qs : list Q) (f : Q) : nat :=
  S (qcount_lt (summed qs) (Qred (total qs * f))).
Definition int_count (qs : list Q) (r : Z) : Z := Z.min r (Z.of_nat (npos qs)).

(* ---------- step lemmas: each primitive on typed inputs ---------- *)
Lemma count_true_map (b : xf -> bool) d :
  count_true (map (fun y => xf_of_bool (b y)) d) = Z.of_nat (length (filter b d)).
Proof.
  unfold count_true. f_equal.
  induction d as [|x d IH]; [reflexivity|].
  cbn [map filter]. destruct (b x); cbn; rewrite ?IH; reflexivity.
Qed.

Lemma filter_map_XFin (qs : list Q) :
  length (filter (fun y => xf_ltb (XFin 0) y) (map XFin qs)) = npos qs.
Proof.
  unfold npos. induction qs as [|q qs IH]; [reflexivity|].
  cbn [map filter]. change (xf_ltb (XFin 0) (XFin q)) with (posb q).
  destruct (posb q); cbn [length]; now rewrite IH.
Qed.

Lemma step_count (qs : list Q) :
  bind (bind2 py_gt (Ok (farr qs)) (Ok (VInt 0))) np_count_nonzero = Ok (VJInt (Z.of_nat (npos qs))).
Proof.
  unfold farr. cbn -[count_true Z.of_nat].
  change (xf_of_Z 0) with (XFin 0).
  rewrite (count_true_map (fun y => xf_ltb (XFin 0) y)), filter_map_XFin. reflexivity.
Qed.

Lemma npos_le (qs : list Q) : (npos qs <= length qs)%nat.
Proof. unfold npos. induction qs as [|q qs IH]; cbn; [lia|]. destruct (posb q); cbn; lia. Qed.

Lemma lastn_length {A} p (l : list A) : (p <= length l)%nat -> length (lastn p l) = p.
Proof. intros H. unfold lastn. rewrite skipn_length. lia. Qed.

Lemma firstn_all_skipn {A} (k : nat) (l : list A) : firstn (length l - k) (skipn k l) = skipn k l.
Proof. rewrite <- (skipn_length k l). apply firstn_all. Qed.

Lemma step_slice_rev (qs : list Q) :
  np_slice1 (farr qs) VNone (VJInt (- Z.of_nat (npos qs) - 1)) (VInt (-1))
  = Ok (VArr KF [Z.of_nat (npos qs)] (map XFin (top qs))).
Proof.
  pose proof (npos_le qs) as Hle.
  unfold farr, np_slice1. cbn [opt_index as_num bind3 bind].
  rewrite slice_rev_tail by lia. cbn [bind].
  rewrite Nat2Z.id. do 2 f_equal.
  - now rewrite range_from_length.
  - rewrite (map_nth_range_down_gen (map XFin qs) XNaN (npos qs) (length qs)) by (rewrite ?map_length; lia).
    unfold top, lastn. rewrite map_rev. f_equal.
    rewrite <- (map_length XFin qs) at 1.
    replace (npos qs) with (length (map XFin qs) - (length (map XFin qs) - npos qs))%nat at 1
      by (rewrite map_length; lia).
    rewrite firstn_all_skipn. rewrite map_length. now rewrite skipn_map.
Qed.

Lemma cumsum_from_fin (a : Q) (l : list Q) :
  cumsum_from (XFin a) (map XFin l) = map XFin (qcumsum a l).
Proof. revert a; induction l as [|x l IH]; intros a; [reflexivity|]. cbn. now rewrite IH. Qed.

Lemma count_lt_fin (l : list Q) (t : Q) :
  count_lt (map XFin l) (XFin t) = Z.of_nat (qcount_lt l t).
Proof.
  induction l as [|x l IH]; [reflexivity|].
  cbn [map count_lt qcount_lt]. change (xf_ltb (XFin x) (XFin t)) with (Qltb x t).
  destruct (Qltb x t); [rewrite IH; lia|reflexivity].
Qed.

Lemma qcumsum_length a l : length (qcumsum a l) = length l.
Proof. revert a; induction l as [|x l IH]; intros a; cbn; [reflexivity|now rewrite IH]. Qed.

Lemma top_length qs : length (top qs) = npos qs.
Proof. unfold top. rewrite rev_length. apply lastn_length, npos_le. Qed.

Lemma summed_length qs : length (summed qs) = npos qs.
Proof. unfold summed. now rewrite qcumsum_length, top_length. Qed.

Lemma nth_map_fin (l : list Q) (j : nat) : (j < length l)%nat ->
  nth j (map XFin l) XNaN = XFin (nth j l 0%Q).
Proof. revert j; induction l as [|a l IH]; intros j H; [cbn in H; lia|]. destruct j; [reflexivity|]. cbn. apply IH. cbn in H; lia. Qed.

(* summed[-1] *)
Lemma step_last (qs : list Q) :
  (1 <= npos qs)%nat ->
  py_getitem (VArr KF [Z.of_nat (npos qs)] (map XFin (summed qs))) (VInt (-1))
  = Ok (VArr KF [] [XFin (total qs)]).
Proof.
  intros H. cbn [py_getitem np_index1 as_num].
  destruct (Z.ltb_spec (-1) 0) as [_|]; [|lia].
  destruct (Z.leb_spec 0 (-1 + Z.of_nat (npos qs))) as [_|]; [|lia].
  destruct (Z.ltb_spec (-1 + Z.of_nat (npos qs)) (Z.of_nat (npos qs))) as [_|]; [|lia].
  cbn [andb]. do 3 f_equal. unfold nthZ, total.
  replace (Z.to_nat (-1 + Z.of_nat (npos qs))) with (npos qs - 1)%nat by lia.
  apply nth_map_fin. rewrite summed_length. lia.
Qed.

Lemma step_slice_tail {k} (n : Z) (d : list xf) (p : Z) (lo : val) :
  opt_index lo = Ok (Some (- p)) ->
  n = Z.of_nat (length d) -> 1 <= p <= n ->
  np_slice1 (VArr k [n] d) lo VNone VNone = Ok (VArr k [p] (lastn (Z.to_nat p) d)).
Proof.
  intros Hlo Hn Hp. unfold np_slice1. rewrite Hlo. cbn [opt_index as_num bind3 bind].
  rewrite slice_tail by lia. cbn [bind]. rewrite range_from_length.
  rewrite Z2Nat.id by lia. do 2 f_equal.
  replace (n - p) with (Z.of_nat (length d - Z.to_nat p)) by lia.
  rewrite map_nth_range_up_gen by lia.
  unfold lastn.
  replace (Z.to_nat p) with (length d - (length d - Z.to_nat p))%nat at 1 by lia.
  apply firstn_all_skipn.
Qed.

Definition last_cols (r c p : Z) (d : list xf) : list xf :=
  flat_map (fun i => map (fun j => nthZ d (i * c + j) XNaN) (range_from (c - p) 1 (Z.to_nat p)))
           (range_from 0 1 (Z.to_nat r)).

Lemma step_slice_cols {k} (r c : Z) (d : list xf) (p : Z) (lo : val) :
  opt_index lo = Ok (Some (- p)) ->
  1 <= p <= c ->
  np_slice_cols (VArr k [r; c] d) lo VNone VNone = Ok (VArr k [r; p] (last_cols r c p d)).
Proof.
  intros Hlo Hp. unfold np_slice_cols. rewrite Hlo. cbn [opt_index as_num bind3 bind].
  rewrite slice_tail by lia. cbn [bind]. rewrite range_from_length.
  rewrite Z2Nat.id by lia. reflexivity.
Qed.

Arguments farr : simpl never.
Arguments np_slice1 : simpl never.
Arguments np_slice_cols : simpl never.
Arguments np_cumsum : simpl never.
Arguments py_getitem : simpl never.
Arguments np_searchsorted : simpl never.

(* ---------- the generated function on typed inputs: fractional request ---------- *)
Lemma eig_frac (A : val) (qs : list Q) (f : Q) (vd : list xf) :
  (1 <= npos qs)%nat -> (frac_count qs f <= length qs)%nat ->
  let n := Z.of_nat (length qs) in
  let P := Z.of_nat (frac_count qs f) in
  eigendecomposition A (VFloat (XFin f)) (farr qs) (VArr KF [n; n] vd)
  = Ok (VTuple [VArr KF [P] (lastn (frac_count qs f) (map XFin qs));
                VArr KF [n; P] (last_cols n n P vd)]).
Proof.
  intros Hpos Hle n P. unfold eigendecomposition.
  rewrite step_count. cbn [bind bind2 py_neg py_sub arith is_array orb as_num farr py_tuple fold_right rmap np_slice1_t].
  rewrite step_slice_rev. cbn [bind]. unfold np_cumsum at 1.
  rewrite cumsum_from_fin. fold (summed qs).
  cbn [bind cond py_isinstance existsb py_isinstance1 orb truthy].
  rewrite step_last by assumption. cbn [bind2 bind py_mul arith is_array orb broadcast2 arr_data as_num num_xf xf_mul].
  unfold np_searchsorted at 1. cbn [arr_data as_num].
  rewrite count_lt_fin. fold (frac_count qs f).
  cbn [bind2 bind py_add arith is_array orb as_num].
  set (c := qcount_lt (summed qs) (Qred (total qs * f))).
  replace (Z.of_nat c + 1) with P by (unfold P, frac_count; fold c; lia).
  cbn [py_eq is_array orb scalar_eqb as_num num_eqb cond bind truthy].
  destruct (Z.eqb_spec P 0) as [E|_]; [unfold P in E; unfold frac_count in E; lia|].
  cbn [py_neg py_tuple fold_right rmap bind np_slice1_t np_slice_cols_t].
  unfold farr at 1.
  assert (HP : 1 <= P <= n) by (unfold P, n, frac_count in *; lia).
  rewrite (step_slice_tail (Z.of_nat (length qs)) (map XFin qs) P)
    by (rewrite ?map_length; auto).
  cbn [bind]. fold n.
  rewrite (step_slice_cols n n vd P) by auto.
  cbn [bind]. unfold P at 2. rewrite Nat2Z.id. reflexivity.
Qed.

(* ---------- integer request ---------- *)
Lemma eig_int (A : val) (qs : list Q) (r : Z) (vd : list xf) :
  (1 <= npos qs)%nat -> 1 <= r ->
  let n := Z.of_nat (length qs) in
  let P := int_count qs r in
  eigendecomposition A (VInt r) (farr qs) (VArr KF [n; n] vd)
  = Ok (VTuple [VArr KF [P] (lastn (Z.to_nat P) (map XFin qs));
                VArr KF [n; P] (last_cols n n P vd)]).
Proof.
  intros Hpos Hr n P. unfold eigendecomposition.
  pose proof (npos_le qs) as Hle.
  rewrite step_count. cbn [bind bind2 py_neg py_sub arith is_array orb as_num farr py_tuple fold_right rmap np_slice1_t].
  rewrite step_slice_rev. cbn [bind]. unfold np_cumsum at 1.
  cbn [bind cond py_isinstance existsb py_isinstance1 orb truthy].
  cbn [py_min2 py_lt cmp_ord is_array orb as_num num_ltb bind truthy].
  assert (HP : 1 <= P <= n) by (unfold P, n, int_count; lia).
  destruct (Z.ltb_spec (Z.of_nat (npos qs)) r) as [Hlt|Hge];
    cbn [py_neg py_tuple fold_right rmap bind np_slice1_t np_slice_cols_t]; unfold farr at 1.
  - assert (E : Z.of_nat (npos qs) = P) by (unfold P, int_count; lia). rewrite E.
    rewrite (step_slice_tail (Z.of_nat (length qs)) (map XFin qs) P) by (rewrite ?map_length; auto).
    cbn [bind]. fold n. rewrite (step_slice_cols n n vd P) by auto. reflexivity.
  - assert (E : r = P) by (unfold P, int_count; lia). rewrite E.
    rewrite (step_slice_tail (Z.of_nat (length qs)) (map XFin qs) P) by (rewrite ?map_length; auto).
    cbn [bind]. fold n. rewrite (step_slice_cols n n vd P) by auto. reflexivity.
Qed.

(* ================================================================== *)
(* Specification-level facts (pure rational arithmetic)                *)
Open Scope Q_scope.

Lemma Qltb_lt (a b : Q) : Qltb a b = true <-> a < b.
Proof.
  unfold Qltb. rewrite negb_true_iff. split; intros H.
  - apply Qnot_le_lt. intro L. apply Qle_bool_iff in L. congruence.
  - destruct (Qle_bool b a) eqn:E; [|reflexivity]. apply Qle_bool_iff in E.
    exfalso. apply (Qlt_not_le _ _ H E).
Qed.
Lemma Qltb_ge (a b : Q) : Qltb a b = false <-> b <= a.
Proof.
  unfold Qltb. rewrite negb_false_iff. apply Qle_bool_iff.
Qed.

Fixpoint qsum (l : list Q) : Q := match l with [] => 0 | x :: r => x + qsum r end.
Definition prefix (qs : list Q) (c : nat) : Q := qsum (firstn c (top qs)).

Lemma qcumsum_nth (l : list Q) (a : Q) (i : nat) :
  (i < length l)%nat -> nth i (qcumsum a l) 0 == a + qsum (firstn (S i) l).
Proof.
  revert a i; induction l as [|x l IH]; intros a i H; [cbn in H; lia|].
  destruct i as [|i].
  - cbn [qcumsum nth firstn qsum]. rewrite Qred_correct. ring.
  - cbn [qcumsum nth]. rewrite IH by (cbn in H; lia).
    rewrite Qred_correct. cbn [firstn qsum]. ring.
Qed.

Lemma summed_nth qs i : (i < npos qs)%nat -> nth i (summed qs) 0 == prefix qs (S i).
Proof.
  intros H. unfold summed, prefix. rewrite qcumsum_nth by (rewrite top_length; exact H). ring.
Qed.

Lemma total_prefix qs : (1 <= npos qs)%nat -> total qs == prefix qs (npos qs).
Proof.
  intros H. unfold total. rewrite summed_nth by lia.
  replace (S (npos qs - 1)) with (npos qs) by lia. reflexivity.
Qed.

(* what left-searchsorted computes, as the code uses it *)
Lemma qcount_lt_le l t : (qcount_lt l t <= length l)%nat.
Proof. induction l as [|x l IH]; cbn; [lia|]. destruct (Qltb x t); lia. Qed.

Lemma qcount_lt_below l t i : (i < qcount_lt l t)%nat -> nth i l 0 < t.
Proof.
  revert i; induction l as [|x l IH]; intros i H; [cbn in H; lia|].
  cbn in H. destruct (Qltb x t) eqn:E; [|lia].
  destruct i; [now apply Qltb_lt|]. cbn. apply IH. lia.
Qed.

Lemma qcount_lt_stop l t : (qcount_lt l t < length l)%nat -> t <= nth (qcount_lt l t) l 0.
Proof.
  induction l as [|x l IH]; intros H; [cbn in H; lia|].
  cbn in *. destruct (Qltb x t) eqn:E.
  - apply IH. lia.
  - now apply Qltb_ge.
Qed.

Lemma qcount_lt_mono l t1 t2 : t1 <= t2 -> (qcount_lt l t1 <= qcount_lt l t2)%nat.
Proof.
  intros H. induction l as [|x l IH]; cbn; [lia|].
  destruct (Qltb x t1) eqn:E1; [|lia].
  apply Qltb_lt in E1. assert (E2 : Qltb x t2 = true) by (apply Qltb_lt; eapply Qlt_le_trans; eauto).
  rewrite E2. lia.
Qed.

(* on an ascending array the prefix count is the number of entries below t:
   the unique answer of a left binary search *)
Lemma qcount_lt_sorted l t :
  StronglySorted Qle l -> qcount_lt l t = length (filter (fun x => Qltb x t) l).
Proof.
  induction 1 as [|x l Hs IH Hall]; [reflexivity|].
  cbn. destruct (Qltb x t) eqn:E; cbn; [now rewrite IH|].
  apply Qltb_ge in E.
  assert (F : filter (fun y => Qltb y t) l = []).
  { clear IH Hs. induction l as [|y l IHl]; [reflexivity|].
    inversion Hall as [|? ? Hy Hl]; subst. cbn.
    assert (Qltb y t = false) as -> by (apply Qltb_ge; eapply Qle_trans; eauto).
    now apply IHl. }
  now rewrite F.
Qed.

(* ---- ascending spectrum: the positive eigenvalues are a suffix ---- *)
Lemma posb_true q : posb q = true <-> 0 < q.
Proof. apply Qltb_lt. Qed.

Lemma lastn_cons_le {A} (a : A) l p : (p <= length l)%nat -> lastn p (a :: l) = lastn p l.
Proof.
  intros H. unfold lastn. cbn [length]. replace (S (length l) - p)%nat with (S (length l - p)) by lia.
  reflexivity.
Qed.

Lemma filter_all_pos l : Forall (fun q => 0 < q) l -> filter posb l = l.
Proof.
  induction 1 as [|x l Hx Hl IH]; [reflexivity|]. cbn.
  assert (posb x = true) as -> by now apply posb_true. now rewrite IH.
Qed.

Lemma sorted_positive_suffix qs :
  StronglySorted Qle qs -> filter posb qs = lastn (npos qs) qs.
Proof.
  induction 1 as [|x l Hs IH Hall]; [reflexivity|].
  unfold npos. cbn [filter]. destruct (posb x) eqn:E.
  - apply posb_true in E.
    assert (Hp : Forall (fun q => 0 < q) l).
    { eapply Forall_impl; [|exact Hall]. intros q Hq. eapply Qlt_le_trans; eauto. }
    rewrite (filter_all_pos l Hp). cbn [length]. unfold lastn. cbn [length].
    now rewrite Nat.sub_diag.
  - fold (npos l). rewrite lastn_cons_le by apply npos_le. exact IH.
Qed.

Lemma top_positive qs : StronglySorted Qle qs -> Forall (fun q => 0 < q) (top qs).
Proof.
  intros Hs. unfold top. rewrite <- (sorted_positive_suffix qs Hs).
  apply Forall_rev. apply Forall_forall. intros q Hq. apply filter_In in Hq. now apply posb_true.
Qed.

Lemma qsum_firstn_pos l c : Forall (fun q => 0 < q) l -> (1 <= c)%nat -> (1 <= length l)%nat ->
  0 < qsum (firstn c l).
Proof.
  intros Hall Hc Hl. destruct c as [|c]; [lia|]. destruct l as [|x l]; [cbn in Hl; lia|].
  inversion Hall as [|? ? Hx Hl']; subst. cbn [firstn qsum].
  assert (0 <= qsum (firstn c l)).
  { clear -Hl'. revert c. induction Hl' as [|y l Hy Hl IH]; intros c; destruct c; cbn; try apply Qle_refl.
    specialize (IH c). apply Qlt_le_weak in Hy.
    replace 0 with (0 + 0) by reflexivity. now apply Qplus_le_compat. }
  rewrite <- (Qplus_0_r 0). apply Qplus_lt_le_compat; assumption.
Qed.

Lemma prefix_mono qs c1 c2 : StronglySorted Qle qs -> (c1 <= c2)%nat -> prefix qs c1 <= prefix qs c2.
Proof.
  intros Hs. pose proof (top_positive qs Hs) as Hp. unfold prefix. revert c1 c2.
  induction Hp as [|x l Hx Hl IH]; intros c1 c2 H.
  - destruct c1, c2; cbn; apply Qle_refl.
  - destruct c1 as [|c1].
    + cbn [firstn qsum]. destruct c2 as [|c2]; [apply Qle_refl|]. cbn [firstn qsum].
      specialize (IH O c2 ltac:(lia)). cbn [firstn qsum] in IH.
      apply Qlt_le_weak in Hx. replace 0 with (0 + 0) by reflexivity. now apply Qplus_le_compat.
    + destruct c2 as [|c2]; [lia|]. cbn [firstn qsum]. apply Qplus_le_compat; [apply Qle_refl|].
      apply IH. lia.
Qed.

Lemma qcumsum_sorted a l : Forall (fun q => 0 < q) l ->
  StronglySorted Qle (qcumsum a l) /\ Forall (Qle a) (qcumsum a l).
Proof.
  intros Hp. revert a. induction Hp as [|x l Hx Hl IH]; intros a; cbn [qcumsum]; [split; constructor|].
  destruct (IH (Qred (a + x))) as [S1 F1].
  assert (Hab : a <= Qred (a + x)).
  { rewrite Qred_correct. rewrite <- (Qplus_0_r a) at 1.
    apply Qplus_le_compat; [apply Qle_refl|now apply Qlt_le_weak]. }
  split.
  - constructor; assumption.
  - constructor; [exact Hab|]. eapply Forall_impl; [|exact F1].
    intros q Hq. eapply Qle_trans; eauto.
Qed.

(* ---------- C10, fractional request ---------- *)
Section Frac.
  Variable qs : list Q.
  Variable f : Q.
  Hypothesis Hsorted : StronglySorted Qle qs.      (* eigh contract: ascending *)
  Hypothesis Hpos : (1 <= npos qs)%nat.            (* at least one positive eigenvalue *)
  Hypothesis Hf : 0 < f <= 1.

  Let t := Qred (total qs * f).

  Lemma total_pos : 0 < total qs.
  Proof.
    rewrite total_prefix by assumption. unfold prefix.
    apply qsum_firstn_pos; [now apply top_positive|assumption|now rewrite top_length].
  Qed.

  Lemma target_eq : t == total qs * f.
  Proof. unfold t. apply Qred_correct. Qed.

  Lemma target_le_total : t <= total qs.
  Proof.
    rewrite target_eq. rewrite <- (Qmult_1_r (total qs)) at 2.
    apply Qmult_le_l; [apply total_pos|apply Hf].
  Qed.

  Lemma target_pos : 0 < t.
  Proof. rewrite target_eq. apply Qmult_lt_0_compat; [apply total_pos|apply Hf]. Qed.

  Lemma count_in_range : (qcount_lt (summed qs) t < npos qs)%nat.
  Proof.
    pose proof (qcount_lt_le (summed qs) t) as Hle. rewrite summed_length in Hle.
    destruct (Nat.eq_dec (qcount_lt (summed qs) t) (npos qs)) as [E|]; [|lia].
    exfalso.
    assert (H : nth (npos qs - 1) (summed qs) 0 < t) by (apply qcount_lt_below; lia).
    fold (total qs) in H. apply (Qlt_not_le _ _ H). apply target_le_total.
  Qed.

  Theorem frac_count_range : (1 <= frac_count qs f <= npos qs)%nat.
  Proof. unfold frac_count. fold t. pose proof count_in_range. lia. Qed.

  (* the retained directions carry at least the requested fraction ... *)
  Theorem frac_count_reaches : total qs * f <= prefix qs (frac_count qs f).
  Proof.
    unfold frac_count. fold t. rewrite <- target_eq.
    rewrite <- summed_nth by apply count_in_range.
    apply qcount_lt_stop. rewrite summed_length. apply count_in_range.
  Qed.

  (* ... and no smaller number of leading directions does *)
  Theorem frac_count_minimal c : (c < frac_count qs f)%nat -> prefix qs c < total qs * f.
  Proof.
    unfold frac_count. fold t. rewrite <- target_eq. intros H.
    destruct c as [|c].
    - unfold prefix. cbn. apply target_pos.
    - rewrite <- summed_nth by (pose proof count_in_range; lia).
      apply qcount_lt_below. lia.
  Qed.

  (* the prefix sums are ascending, so the model's prefix count is what a
     left binary search (jnp.searchsorted) returns on them *)
  Theorem summed_sorted : StronglySorted Qle (summed qs).
  Proof. unfold summed. apply (qcumsum_sorted 0). now apply top_positive. Qed.
End Frac.

Lemma frac_count_le_length qs f :
  StronglySorted Qle qs -> (1 <= npos qs)%nat -> 0 < f <= 1 -> (frac_count qs f <= length qs)%nat.
Proof.
  intros Hs Hp Hf. pose proof (frac_count_range qs f Hs Hp Hf). pose proof (npos_le qs). lia.
Qed.

(* a larger requested fraction never keeps fewer directions *)
Theorem frac_count_mono qs f1 f2 :
  StronglySorted Qle qs -> (1 <= npos qs)%nat -> 0 < f1 -> f1 <= f2 -> f2 <= 1 ->
  (frac_count qs f1 <= frac_count qs f2)%nat.
Proof.
  intros Hs Hp H1 H12 H2. unfold frac_count. apply le_n_S. apply qcount_lt_mono.
  rewrite !Qred_correct. apply Qmult_le_l; [|exact H12].
  apply (total_pos qs Hs Hp).
Qed.

Theorem int_count_spec qs r : int_count qs r = Z.min r (Z.of_nat (npos qs)).
Proof. reflexivity. Qed.

Theorem int_count_mono qs r1 r2 : (r1 <= r2)%Z -> (int_count qs r1 <= int_count qs r2)%Z.
Proof. unfold int_count. lia. Qed.

(* the retained eigenvalues are the largest ones *)
Lemma in_skipn_in {A} (l : list A) k x : In x (skipn k l) -> In x l.
Proof. revert l; induction k as [|k IH]; intros l H; [exact H|]. destruct l; [exact H|]. right. apply IH, H. Qed.
Lemma sorted_skipn_ge (l : list Q) (k : nat) x y :
  StronglySorted Qle l -> In x (firstn k l) -> In y (skipn k l) -> x <= y.
Proof.
  intros Hs. revert k. induction Hs as [|a l Hs IH Hall]; intros k Hx Hy.
  - destruct k; cbn in Hx; contradiction.
  - destruct k as [|k]; [cbn in Hx; contradiction|].
    cbn [firstn skipn] in *. destruct Hx as [->|Hx].
    + rewrite Forall_forall in Hall. apply Hall. eapply in_skipn_in. exact Hy.
    + eapply IH; eauto.
Qed.

Theorem retained_are_largest qs p x y :
  StronglySorted Qle qs -> In y (lastn p qs) -> In x (firstn (length qs - p) qs) -> x <= y.
Proof. intros Hs Hy Hx. unfold lastn in Hy. eapply sorted_skipn_ge; eauto. Qed.

(* error branch: no positive eigenvalue and a fractional request *)
Lemma eig_frac_no_positive (A : val) (qs : list Q) (f : Q) (v : val) :
  npos qs = O -> eigendecomposition A (VFloat (XFin f)) (farr qs) v = Err IndexError.
Proof.
  intros H0. unfold eigendecomposition.
  rewrite step_count. cbn [bind bind2 py_neg py_sub arith is_array orb as_num farr py_tuple fold_right rmap np_slice1_t].
  rewrite step_slice_rev. rewrite H0. cbn [bind]. unfold np_cumsum at 1. unfold top. rewrite H0.
  unfold lastn. rewrite Nat.sub_0_r, skipn_all. reflexivity.
Qed.

(* non-vacuity: the spectrum of the original report *)
Example spectrum_1234 :
  let qs := [1; 2; 3; 4] in
  StronglySorted Qle qs /\ (1 <= npos qs)%nat /\ frac_count qs (71 # 100) = 3%nat
  /\ frac_count qs (7 # 10) = 2%nat /\ frac_count qs (99 # 100) = 4%nat /\ frac_count qs (1 # 10) = 1%nat.
Proof.
  cbv zeta. split; [|vm_compute; repeat split; lia].
  repeat constructor; unfold Qle; cbn; lia.
Qed.
