(* Entrywise positivity of kernel expressions, decided syntactically (used by C05: Pow nodes in the psd closure, and by C11:
   the positivity premise of Pow nodes in wfk discharged once and for all points).
   kpos: every stationary leaf (Matern32/52 with ls > 0; ExpQuad, Exponential, RatQuad for every parameter: exp and Rpower are
   positive; the distance entry is a square root, so no length hypothesis is needed), sums, products, + c with c >= 0,
   * c with c > 0, and any Pow node (Rpower). *)
From Coq Require Import Reals List Lra Lia.
From MellonV Require Import ALists AKernels AKExpr AListsFacts ADocumented.
Import ListNotations.
Open Scope R_scope.

Fixpoint kpos (e : kexpr) : Prop :=
  match e with
  | KBase BExpQuad _ _ | KBase BExponential _ _ | KBase (BRatQuad _) _ _ => True
  | KBase BMatern32 ls _ | KBase BMatern52 ls _ => 0 < ls
  | KBase BLinear _ _ => False
  | KAdd l r _ | KMul l r _ => kpos l /\ kpos r
  | KAddC l c _ => kpos l /\ 0 <= c
  | KMulC l c _ => kpos l /\ 0 < c
  | KPow _ _ _ => True
  end.

Lemma kpos_sound e : kpos e -> forall x y, 0 < keval e x y.
Proof.
  induction e as [b ls ad|l IHl r IHr ad|l IHl c ad|l IHl r IHr ad|l IHl c ad|l IHl p ad]; cbn [kpos keval]; intros H x y.
  - destruct b; try contradiction; cbn [base_k].
    + apply Matern32_pos; [exact H|]. unfold dist_pts, distance_entry. apply sqrt_pos.
    + apply Matern52_pos; [exact H|]. unfold dist_pts, distance_entry. apply sqrt_pos.
    + unfold ExpQuad_k. apply exp_pos.
    + unfold Exponential_k. apply exp_pos.
    + unfold RatQuad_k, Rpower. apply exp_pos.
  - destruct H as [Hl Hr]. unfold Add_k_kk. specialize (IHl Hl (select_active_dims ad x) (select_active_dims ad y)).
    specialize (IHr Hr (select_active_dims ad x) (select_active_dims ad y)). lra.
  - destruct H as [Hl Hc]. unfold Add_k_kc. specialize (IHl Hl (select_active_dims ad x) (select_active_dims ad y)). lra.
  - destruct H as [Hl Hr]. unfold Mul_k_kk. apply Rmult_lt_0_compat; [apply IHl|apply IHr]; assumption.
  - destruct H as [Hl Hc]. unfold Mul_k_kc. apply Rmult_lt_0_compat; [now apply IHl|exact Hc].
  - unfold Pow_k, Rpower. apply exp_pos.
Qed.


(* ---- syntactic well-formedness: wfk without reference to the points.  n is the width of the points. *)
Definition selw (ad : dims) (n : nat) : nat := length (sel ad (repeat 0 n)).

Lemma selw_length ad (y : list R) : length (sel ad y) = selw ad (length y).
Proof. unfold selw. apply sel_length_eq. now rewrite repeat_length. Qed.

Fixpoint wfs (e : kexpr) (n : nat) : Prop :=
  match e with
  | KBase b ls ad => dims_ok ad n /\ base_ok b ls
  | KAdd l r ad | KMul l r ad => dims_ok ad n /\ wfs l (selw ad n) /\ wfs r (selw ad n)
  | KAddC l _ ad | KMulC l _ ad => dims_ok ad n /\ wfs l (selw ad n)
  | KPow l _ ad => dims_ok ad n /\ wfs l (selw ad n) /\ kpos l
  end.

Lemma wfs_wfk e : forall x y, length x = length y -> wfs e (length y) -> wfk e x y.
Proof.
  induction e as [b ls ad|l IHl r IHr ad|l IHl c ad|l IHl r IHr ad|l IHl c ad|l IHl p ad]; cbn [wfs wfk]; intros x y Hxy H.
  - exact H.
  - destruct H as [Hd [Hl Hr]]. rewrite <- selw_length in Hl, Hr.
    pose proof (sel_length_eq ad x y Hxy) as Hs. split; [exact Hd|]. split; [now apply IHl|now apply IHr].
  - destruct H as [Hd Hl]. rewrite <- selw_length in Hl.
    pose proof (sel_length_eq ad x y Hxy) as Hs. split; [exact Hd|]. now apply IHl.
  - destruct H as [Hd [Hl Hr]]. rewrite <- selw_length in Hl, Hr.
    pose proof (sel_length_eq ad x y Hxy) as Hs. split; [exact Hd|]. split; [now apply IHl|now apply IHr].
  - destruct H as [Hd Hl]. rewrite <- selw_length in Hl.
    pose proof (sel_length_eq ad x y Hxy) as Hs. split; [exact Hd|]. now apply IHl.
  - destruct H as [Hd [Hl Hk]]. rewrite <- selw_length in Hl.
    pose proof (sel_length_eq ad x y Hxy) as Hs. split; [exact Hd|]. split; [now apply IHl|now apply kpos_sound].
Qed.

(* non-vacuity of the syntactic form: the example tree of thm/AGradThm.v (a Pow node with exponent 3/2 over ExpQuad + 1/2),
   width 3 *)
Example wfs_example :
  wfs (KMul (KPow (KAddC (KBase BExpQuad 2 (DInt (-1)%Z)) (1 / 2) (DList [0%Z; 2%Z])) (3 / 2) DNone)
            (KBase (BRatQuad 3) 1 (DMask [true; false; true])) (DSlice None None None)) 3.
Proof.
  cbn [wfs kpos]. unfold selw; cbn [repeat].
  split; [split; [cbn; repeat constructor; cbn; intuition lia | cbn; repeat constructor; lia]|].
  split.
  - split; [split; [cbn; repeat constructor; cbn; intuition lia | cbn; repeat constructor; lia]|]. split.
    + split; [split; [cbn; repeat constructor; cbn; intuition lia | cbn; repeat constructor; lia]|].
      split; [split; [cbn; repeat constructor; cbn; intuition lia | cbn; repeat constructor; lia]|]. split; [lra|exact I].
    + split; [exact I|lra].
  - split; [split; [cbn; repeat constructor; cbn; intuition lia | cbn; repeat constructor; lia]|]. split; lra.
Qed.
