(* C17 / C08: the objective of the density estimators HAS a minimiser (and by thm/AConvexThm.v exactly one).
   Bounded below (each likelihood term l + A - exp(l + B) <= A - B - 1, the prior term is <= its constant), so the infimum m
   over R^k exists; a minimising sequence is Cauchy by 1-strong convexity (|a - b|^2 <= 4 (F a + F b - 2 m)); R^k is
   complete coordinate by coordinate; the objective is continuous along coordinate-wise convergent sequences. *)
From Coq Require Import Reals List Lra Lia Epsilon Classical_Prop.
From Coquelicot Require Import Coquelicot.
From MellonV Require Import ALists AInference AConvexThm.
Import ListNotations.
Open Scope R_scope.

(* ---- coordinate-wise convergence of a sequence of lists *)
Fixpoint lconv (zs : nat -> list R) (z : list R) : Prop :=
  match z with
  | [] => forall n, zs n = []
  | a :: z' => (forall n, zs n <> []) /\ is_lim_seq (fun n => hd 0 (zs n)) a /\ lconv (fun n => tl (zs n)) z'
  end.

Lemma cons_hd_tl (l : list R) : l <> [] -> l = hd 0 l :: tl l.
Proof. destruct l; [congruence|reflexivity]. Qed.

Lemma lconv_sumsq zs z : lconv zs z -> is_lim_seq (fun n => sumsq_l (zs n)) (sumsq_l z).
Proof.
  revert zs; induction z as [|a z IH]; intros zs H; cbn [lconv] in H.
  - apply (is_lim_seq_ext (fun _ => 0)); [intros n; now rewrite H|]. apply is_lim_seq_const.
  - destruct H as (Hne & Hh & Ht).
    apply (is_lim_seq_ext (fun n => hd 0 (zs n) * hd 0 (zs n) + sumsq_l (tl (zs n)))).
    + intros n. pose proof (Hne n) as Hn. destruct (zs n) as [|h0 t0]; [congruence|]. cbn [hd tl]. rewrite sumsq_cons. simpl. ring.
    + rewrite sumsq_cons. replace (a ^ 2) with (a * a) by (simpl; ring).
      apply (is_lim_seq_plus _ _ (a * a) (sumsq_l z)); [|apply IH; exact Ht|reflexivity].
      apply (is_lim_seq_mult _ _ a a); [exact Hh|exact Hh|reflexivity].
Qed.

Lemma lconv_dot row zs z : lconv zs z -> is_lim_seq (fun n => dot row (zs n)) (dot row z).
Proof.
  unfold dot. revert zs z; induction row as [|c row IH]; intros zs z H.
  - apply is_lim_seq_const.
  - destruct z as [|a z]; cbn [lconv] in H.
    + apply (is_lim_seq_ext (fun _ => 0)); [intros n; now rewrite H|]. apply is_lim_seq_const.
    + destruct H as (Hne & Hh & Ht).
      apply (is_lim_seq_ext (fun n => c * hd 0 (zs n) + sum_list (map2 Rmult row (tl (zs n))))).
      * intros n. pose proof (Hne n) as Hn. destruct (zs n) as [|h0 t0]; [congruence|]. reflexivity.
      * cbn [map2 sum_list].
        apply (is_lim_seq_plus _ _ (c * a) (sum_list (map2 Rmult row z))); [|apply IH; exact Ht|reflexivity].
        apply (is_lim_seq_scal_l _ c a). exact Hh.
Qed.

(* ---- R^k is complete: a sequence of lists of length k that is Cauchy for the squared distance converges coordinate-wise *)
Definition lcauchy (zs : nat -> list R) : Prop :=
  forall eps : R, 0 < eps -> exists N : nat, forall i j, (N <= i)%nat -> (N <= j)%nat -> sqdist (zs i) (zs j) < eps.

Lemma sqdist_nonneg x y : 0 <= sqdist x y.
Proof.
  unfold sqdist. revert y; induction x as [|a x IH]; intros [|b y]; cbn [map2 sum_list]; try lra.
  pose proof (IH y). pose proof (pow2_ge_0 (a - b)). lra.
Qed.

Lemma lcomplete k zs : (forall n, length (zs n) = k) -> lcauchy zs -> exists z, length z = k /\ lconv zs z.
Proof.
  revert zs; induction k as [|k IH]; intros zs Hlen Hc.
  - exists []. split; [reflexivity|]. cbn. intros n. apply length_zero_iff_nil, Hlen.
  - assert (Hne : forall n, zs n <> []) by (intros n E; specialize (Hlen n); rewrite E in Hlen; discriminate).
    assert (Hsplit : forall i j, sqdist (zs i) (zs j) = (hd 0 (zs i) - hd 0 (zs j)) ^ 2 + sqdist (tl (zs i)) (tl (zs j))).
    { intros i j. pose proof (Hne i) as Hi. pose proof (Hne j) as Hj.
      destruct (zs i) as [|a x]; [congruence|]. destruct (zs j) as [|b y]; [congruence|]. reflexivity. }
    (* the tails *)
    destruct (IH (fun n => tl (zs n))) as (zt & Hzt & Hct).
    { intros n. specialize (Hlen n). destruct (zs n); [discriminate|]. simpl in *. lia. }
    { intros eps He. destruct (Hc eps He) as [N HN]. exists N. intros i j Hi Hj. specialize (HN i j Hi Hj).
      rewrite Hsplit in HN. pose proof (pow2_ge_0 (hd 0 (zs i) - hd 0 (zs j))). lra. }
    (* the heads form a Cauchy sequence of reals *)
    assert (Hh : ex_finite_lim_seq (fun n => hd 0 (zs n))).
    { apply ex_lim_seq_cauchy_corr. intros eps.
      assert (He2 : 0 < eps * eps) by (apply Rmult_lt_0_compat; apply cond_pos).
      destruct (Hc (eps * eps) He2) as [N HN]. exists N. intros i j Hi Hj. specialize (HN i j Hi Hj).
      rewrite Hsplit in HN. pose proof (sqdist_nonneg (tl (zs i)) (tl (zs j))) as Hp.
      assert (Hsq : (hd 0 (zs i) - hd 0 (zs j)) ^ 2 < eps * eps) by lra.
      set (dlt := hd 0 (zs i) - hd 0 (zs j)) in *.
      rewrite <- (Rabs_pos_eq eps) by (left; apply cond_pos). apply Rsqr_lt_abs_0. unfold Rsqr. simpl in Hsq. lra. }
    destruct Hh as [a Ha]. exists (a :: zt). split; [simpl; now rewrite Hzt|].
    cbn [lconv]. repeat split; assumption.
Qed.

Section Exist.
Variable lgam : R -> R.

Lemma nn_term_lim r d (u : nat -> R) (l : R) : is_lim_seq u l -> is_lim_seq (fun n => nn_term lgam r d (u n)) (nn_term lgam r d l).
Proof.
  intros H. unfold nn_term.
  set (A := ln d + (d - 1) * ln r + (d * ln PI / 2 - lgam (d / 2 + 1))).
  set (B := ln r * d + (d * ln PI / 2 - lgam (d / 2 + 1))).
  apply (is_lim_seq_minus _ _ (l + A) (exp (l + B))); [| |reflexivity].
  - apply (is_lim_seq_plus _ _ l A); [exact H|apply is_lim_seq_const|reflexivity].
  - apply (is_lim_seq_continuous exp (fun n => u n + B) (l + B)).
    + apply derivable_continuous_pt, derivable_pt_exp.
    + apply (is_lim_seq_plus _ _ l B); [exact H|apply is_lim_seq_const|reflexivity].
Qed.

Lemma nn_loglik_lim mu L r d zs z : lconv zs z ->
  is_lim_seq (fun n => nn_loglik lgam r d (transform mu L (zs n))) (nn_loglik lgam r d (transform mu L z)).
Proof.
  intros H. unfold nn_loglik, transform. revert r d; induction L as [|row L IH]; intros r d.
  - destruct r, d; cbn; apply is_lim_seq_const.
  - destruct r as [|r0 r]; [cbn; apply is_lim_seq_const|]. destruct d as [|d0 d]; [cbn; apply is_lim_seq_const|].
    cbn [map map3 sum_list].
    apply (is_lim_seq_plus _ _ (nn_term lgam r0 d0 (transform_row mu row z)) (sum_list (map3 (nn_term lgam) r d (map (fun Lrow => transform_row mu Lrow z) L))));
      [|apply IH|reflexivity].
    apply nn_term_lim. unfold transform_row.
    apply (is_lim_seq_plus _ _ (dot row z) mu); [now apply lconv_dot|apply is_lim_seq_const|reflexivity].
Qed.

Lemma loss_lim k r d mu L zs z : lconv zs z ->
  is_lim_seq (fun n => loss lgam k r d (transform mu L) (zs n)) (loss lgam k r d (transform mu L) z).
Proof.
  intros H. unfold loss, normal_logpdf.
  pose proof (lconv_sumsq zs z H) as Hq. unfold sumsq_l in Hq.
  pose proof (nn_loglik_lim mu L r d zs z H) as Hn.
  apply (is_lim_seq_opp _ (- (1 / 2) * sum_list (map (fun z0 => z0 ^ 2) z) - k / 2 * ln (2 * PI) + nn_loglik lgam r d (transform mu L z))).
  apply (is_lim_seq_plus _ _ (- (1 / 2) * sum_list (map (fun z0 => z0 ^ 2) z) - k / 2 * ln (2 * PI)) (nn_loglik lgam r d (transform mu L z)));
    [|exact Hn|reflexivity].
  apply (is_lim_seq_minus _ _ (- (1 / 2) * sum_list (map (fun z0 => z0 ^ 2) z)) (k / 2 * ln (2 * PI))); [|apply is_lim_seq_const|reflexivity].
  apply (is_lim_seq_scal_l _ (- (1 / 2)) (sum_list (map (fun z0 => z0 ^ 2) z))). exact Hq.
Qed.

(* ---- the objective is bounded below *)
Definition term_bound (r d : R) : R :=
  Rmax 0 ((ln d + (d - 1) * ln r + (d * ln PI / 2 - lgam (d / 2 + 1))) - (ln r * d + (d * ln PI / 2 - lgam (d / 2 + 1))) - 1).

Lemma nn_term_le r d l : nn_term lgam r d l <= term_bound r d.
Proof.
  unfold nn_term, term_bound.
  set (A := ln d + (d - 1) * ln r + (d * ln PI / 2 - lgam (d / 2 + 1))).
  set (B := ln r * d + (d * ln PI / 2 - lgam (d / 2 + 1))).
  pose proof (exp_ineq1_le (l + B)) as He. pose proof (Rmax_r 0 (A - B - 1)). lra.
Qed.

Lemma nn_loglik_le r d f : nn_loglik lgam r d f <= sum_list (map2 term_bound r d).
Proof.
  unfold nn_loglik. revert d f; induction r as [|r0 r IH]; intros d f; [cbn; lra|].
  assert (Hpos : forall r' d', 0 <= sum_list (map2 term_bound r' d')).
  { clear. induction r' as [|a r' IH]; intros [|b d']; cbn [map2 sum_list]; try lra.
    pose proof (IH d'). unfold term_bound at 1. pose proof (Rmax_l 0 ((ln b + (b - 1) * ln a + (b * ln PI / 2 - lgam (b / 2 + 1))) - (ln a * b + (b * ln PI / 2 - lgam (b / 2 + 1))) - 1)). lra. }
  destruct d as [|d0 d]; [cbn; lra|].
  destruct f as [|f0 f].
  - cbn [map3 sum_list]. apply (Hpos (r0 :: r) (d0 :: d)).
  - cbn [map3 map2 sum_list]. pose proof (nn_term_le r0 d0 f0). pose proof (IH d f). lra.
Qed.

Lemma sumsq_l_nonneg z : 0 <= sumsq_l z.
Proof. unfold sumsq_l. induction z as [|a z IH]; cbn [map sum_list]; [lra|]. pose proof (pow2_ge_0 a). lra. Qed.

Lemma loss_lower_bound k r d mu L z :
  k / 2 * ln (2 * PI) - sum_list (map2 term_bound r d) <= loss lgam k r d (transform mu L) z.
Proof.
  unfold loss, normal_logpdf. pose proof (nn_loglik_le r d (transform mu L z)) as Hn.
  pose proof (sumsq_l_nonneg z) as Hq. unfold sumsq_l in Hq. lra.
Qed.

(* ---- existence *)
Theorem loss_minimiser_exists k r d mu L n : exists z, is_minimiser (loss lgam k r d (transform mu L)) n z.
Proof.
  set (F := loss lgam k r d (transform mu L)).
  set (c1 := k / 2 * ln (2 * PI) - sum_list (map2 term_bound r d)).
  assert (Hlb : forall z, c1 <= F z) by (intros z; apply loss_lower_bound).
  set (E := fun x : R => exists z, length z = n /\ x = - F z).
  assert (HbE : bound E).
  { exists (- c1). intros x (z & _ & ->). pose proof (Hlb z). lra. }
  assert (HneE : exists x, E x) by (exists (- F (repeat 0 n)), (repeat 0 n); split; [apply repeat_length|reflexivity]).
  destruct (completeness E HbE HneE) as [m' [Hub Hleast]].
  set (m := - m').
  assert (Hlow : forall z, length z = n -> m <= F z).
  { intros z Hz. assert (E (- F z)) by (exists z; split; [exact Hz|reflexivity]). pose proof (Hub _ H). unfold m. lra. }
  assert (Happrox : forall eps, 0 < eps -> exists z, length z = n /\ F z < m + eps).
  { intros eps He. destruct (classic (exists z, length z = n /\ F z < m + eps)) as [Hy|Hn]; [exact Hy|exfalso].
    assert (Hub2 : is_upper_bound E (m' - eps)).
    { intros x (z & Hz & ->). destruct (Rle_lt_dec (m + eps) (F z)) as [Hle|Hlt]; [unfold m in Hle; lra|].
      exfalso. apply Hn. exists z. split; assumption. }
    pose proof (Hleast _ Hub2). lra. }
  assert (Hh : forall i : nat, 0 < / (INR i + 1)) by (intros i; apply Rinv_0_lt_compat; pose proof (pos_INR i); lra).
  set (zs := fun i : nat => proj1_sig (constructive_indefinite_description _ (Happrox (/ (INR i + 1)) (Hh i)))).
  assert (Hzs : forall i, length (zs i) = n /\ F (zs i) < m + / (INR i + 1)).
  { intros i. unfold zs. destruct (constructive_indefinite_description _ (Happrox (/ (INR i + 1)) (Hh i))) as [z Hz]. exact Hz. }
  (* Cauchy by strong convexity *)
  assert (Hdist : forall i j, sqdist (zs i) (zs j) <= 4 * (F (zs i) + F (zs j) - 2 * m)).
  { intros i j. destruct (Hzs i) as [Li _]. destruct (Hzs j) as [Lj _].
    assert (Hl : length (zs i) = length (zs j)) by lia.
    assert (Ht : 0 <= 1 / 2 <= 1) by lra.
    pose proof (loss_strongly_convex lgam k r d mu L (zs i) (zs j) (1 / 2) Hl Ht) as Hs. fold F in Hs.
    assert (Hm : length (lincomb (1 / 2) (zs i) (zs j)) = n) by (rewrite lincomb_length; assumption).
    pose proof (Hlow _ Hm). lra. }
  assert (Hc : lcauchy zs).
  { intros eps He. destruct (archimed_cor1 (eps / 8)) as [N [HN HN0]]; [lra|].
    exists N. intros i j Hi Hj. pose proof (Hdist i j) as Hd.
    destruct (Hzs i) as [_ Fi]. destruct (Hzs j) as [_ Fj].
    assert (Hinv : forall q : nat, (N <= q)%nat -> / (INR q + 1) < eps / 8).
    { intros q Hq. apply Rlt_trans with (/ INR N); [|exact HN].
      apply Rinv_lt_contravar.
      - apply Rmult_lt_0_compat; [apply lt_0_INR; exact HN0|pose proof (pos_INR q); lra].
      - apply le_INR in Hq. lra. }
    pose proof (Hinv i Hi). pose proof (Hinv j Hj). lra. }
  destruct (lcomplete n zs (fun i => proj1 (Hzs i)) Hc) as (zstar & Lstar & Hconv).
  pose proof (loss_lim k r d mu L zs zstar Hconv) as Hlim. fold F in Hlim.
  assert (Hlim2 : is_lim_seq (fun i => F (zs i)) m).
  { apply (is_lim_seq_le_le (fun _ => m) _ (fun i => m + / (INR i + 1))).
    - intros i. destruct (Hzs i) as [Li Fi]. pose proof (Hlow _ Li). lra.
    - apply is_lim_seq_const.
    - replace (Finite m) with (Rbar_plus m 0) by (simpl; f_equal; ring).
      apply is_lim_seq_plus'; [apply is_lim_seq_const|].
      replace (Finite 0) with (Rbar_inv p_infty) by reflexivity.
      apply is_lim_seq_inv; [|discriminate].
      apply (is_lim_seq_plus INR (fun _ => 1) p_infty 1 p_infty); [apply is_lim_seq_INR|apply is_lim_seq_const|reflexivity]. }
  pose proof (is_lim_seq_unique _ _ Hlim) as U1. pose proof (is_lim_seq_unique _ _ Hlim2) as U2.
  assert (HF : F zstar = m) by (rewrite U1 in U2; now inversion U2).
  exists zstar. split; [exact Lstar|]. intros v Hv. fold F. rewrite HF. apply Hlow. exact Hv.
Qed.

(* exactly one minimiser *)
Theorem loss_has_unique_minimiser k r d mu L n :
  exists z, is_minimiser (loss lgam k r d (transform mu L)) n z
            /\ forall w, is_minimiser (loss lgam k r d (transform mu L)) n w -> w = z.
Proof.
  destruct (loss_minimiser_exists k r d mu L n) as [z Hz]. exists z. split; [exact Hz|].
  intros w Hw. exact (loss_minimiser_unique lgam k r d mu L n w z Hw Hz).
Qed.
End Exist.
