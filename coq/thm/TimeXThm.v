(* C13: validate_time_x (generated) merges every accepted form of the time argument
   into the same matrix. *)
From Coq Require Import ZArith QArith List Bool Lia.
From MellonV Require Import PyVal TimeX.
Import ListNotations.
Open Scope Z_scope.

Definition xmat (n d : Z) (xs : list xf) : val := VArr KF [n; d] xs.
(* x with the time column appended (row-major) *)
Definition merged (n d : Z) (xs ts : list xf) : val :=
  VArr KF [n; d + 1]
    (List.concat (zip_with (fun a b => a ++ b) (take_rows (Z.to_nat d) (Z.to_nat n) xs)
                                              (take_rows (Z.to_nat 1) (Z.to_nat n) ts))).
Definition vtx := py_validation_validate_time_x.

Lemma all_some_floats (ts : list xf) : all_some (map num_of_elem (map VFloat ts)) = Some ts.
Proof. induction ts as [|t ts IH]; [reflexivity|]. cbn [map]. cbn [all_some num_of_elem as_num num_xf]. now rewrite IH. Qed.

Ltac zeq :=
  repeat match goal with
         | |- context [Z.eqb ?a ?a] => rewrite (Z.eqb_refl a)
         | H : ?a <> ?b |- context [Z.eqb ?a ?b] => rewrite (proj2 (Z.eqb_neq a b) H)
         end.

Ltac step := repeat (progress (cbn; change (Pos.to_nat 1) with 1%nat; zeq)).

Section Forms.
  Variables (n d : Z) (xs ts : list xf).
  Hypothesis Hts : Z.of_nat (length ts) = n.

  (* per-row vector *)
  Lemma form_vector : n <> 1 ->
    vtx (xmat n d xs) (VArr KF [n] ts) (VInt (d + 1)) (VBool true) = Ok (merged n d xs ts).
  Proof.
    intros Hn. unfold vtx, py_validation_validate_time_x, py_validation_validate_array, xmat, merged.
    step. rewrite Hts. step.
    replace (d + 1 =? d + 1 - 1) with false by (symmetry; apply Z.eqb_neq; lia).
    step. reflexivity.
  Qed.

  (* per-row column vector *)
  Lemma form_column_vector : n <> 1 ->
    vtx (xmat n d xs) (VArr KF [n; 1] ts) (VInt (d + 1)) (VBool true) = Ok (merged n d xs ts).
  Proof.
    intros Hn. unfold vtx, py_validation_validate_time_x, py_validation_validate_array, xmat, merged.
    step.
    replace (d + 1 =? d + 1 - 1) with false by (symmetry; apply Z.eqb_neq; lia).
    step. reflexivity.
  Qed.

  (* Python list of per-row times *)
  Lemma form_list : n <> 1 ->
    vtx (xmat n d xs) (VList (map VFloat ts)) (VInt (d + 1)) (VBool true) = Ok (merged n d xs ts).
  Proof.
    intros Hn. unfold vtx, py_validation_validate_time_x, py_validation_validate_array, xmat, merged.
    step. rewrite all_some_floats. rewrite map_length, Hts. step. rewrite Hts. step.
    replace (d + 1 =? d + 1 - 1) with false by (symmetry; apply Z.eqb_neq; lia).
    step. reflexivity.
  Qed.

  (* time already the trailing column of x *)
  Lemma form_in_x :
    vtx (merged n d xs ts) VNone (VInt (d + 1)) (VBool true) = Ok (merged n d xs ts).
  Proof.
    unfold vtx, py_validation_validate_time_x, py_validation_validate_array, merged.
    step. replace (d + 1 =? d + 1 - 1) with false by (symmetry; apply Z.eqb_neq; lia).
    step. reflexivity.
  Qed.

  (* time missing although the predictor expects it *)
  Lemma missing_time_refused :
    vtx (xmat n d xs) VNone (VInt (d + 1)) (VBool true) = Err ValueError.
  Proof.
    unfold vtx, py_validation_validate_time_x, py_validation_validate_array, xmat.
    step. replace (d =? d + 1 - 1) with true by (symmetry; apply Z.eqb_eq; lia). reflexivity.
  Qed.

  (* wrong number of state features *)
  Lemma wrong_features_refused nf : nf <> d + 1 ->
    vtx (xmat n d xs) (VArr KF [n] ts) (VInt nf) (VBool true) = Err ValueError.
  Proof.
    intros Hnf. unfold vtx, py_validation_validate_time_x, py_validation_validate_array, xmat.
    destruct (Z.eq_dec n 1) as [->|Hn].
    - destruct ts as [|t [|t2 r]]; cbn in Hts; try lia.
      step. destruct (d + 1 =? nf - 1); step;
        replace (d + 1 =? nf) with false by (symmetry; apply Z.eqb_neq; lia); reflexivity.
    - step. rewrite Hts. step. destruct (d + 1 =? nf - 1); step;
        replace (d + 1 =? nf) with false by (symmetry; apply Z.eqb_neq; lia); reflexivity.
  Qed.
End Forms.

(* time vector of the wrong length *)
Lemma wrong_length_refused n d xs ts :
  Z.of_nat (length ts) <> n -> Z.of_nat (length ts) <> 1 ->
  vtx (xmat n d xs) (VArr KF [Z.of_nat (length ts)] ts) (VInt (d + 1)) (VBool true) = Err ValueError.
Proof.
  intros H1 H2. unfold vtx, py_validation_validate_time_x, py_validation_validate_array, xmat.
  step. replace (n =? Z.of_nat (length ts)) with false by (symmetry; apply Z.eqb_neq; lia). reflexivity.
Qed.

(* ---- scalar forms: broadcast to every row ---- *)
Section Scalar.
  Variables (n d : Z) (xs : list xf) (t : xf).
  Hypothesis Hn : 0 <= n.
  Let bt := repeat t (Z.to_nat n).

  Lemma len_bt : Z.of_nat (length bt) = n.
  Proof. unfold bt. rewrite repeat_length. lia. Qed.

  Ltac fin := rewrite ?len_bt; step;
    replace (d + 1 =? d + 1 - 1) with false by (symmetry; apply Z.eqb_neq; lia); step; reflexivity.

  Lemma form_float : vtx (xmat n d xs) (VFloat t) (VInt (d + 1)) (VBool true) = Ok (merged n d xs bt).
  Proof.
    unfold vtx, py_validation_validate_time_x, py_validation_validate_array, xmat, merged.
    step. fold bt. fin.
  Qed.
  Lemma form_0d : vtx (xmat n d xs) (VArr KF [] [t]) (VInt (d + 1)) (VBool true) = Ok (merged n d xs bt).
  Proof.
    unfold vtx, py_validation_validate_time_x, py_validation_validate_array, xmat, merged.
    step. fold bt. fin.
  Qed.
  Lemma form_1 : vtx (xmat n d xs) (VArr KF [1] [t]) (VInt (d + 1)) (VBool true) = Ok (merged n d xs bt).
  Proof.
    unfold vtx, py_validation_validate_time_x, py_validation_validate_array, xmat, merged.
    step. fold bt. fin.
  Qed.
  Lemma form_1x1 : vtx (xmat n d xs) (VArr KF [1; 1] [t]) (VInt (d + 1)) (VBool true) = Ok (merged n d xs bt).
  Proof.
    unfold vtx, py_validation_validate_time_x, py_validation_validate_array, xmat, merged.
    step. fold bt. fin.
  Qed.
End Scalar.

Lemma form_int n d xs z : 0 <= n ->
  vtx (xmat n d xs) (VInt z) (VInt (d + 1)) (VBool true) = Ok (merged n d xs (repeat (xf_of_Z z) (Z.to_nat n))).
Proof.
  intros Hn. unfold vtx, py_validation_validate_time_x, py_validation_validate_array, xmat, merged.
  step. rewrite repeat_length, Z2Nat.id by lia. step.
  replace (d + 1 =? d + 1 - 1) with false by (symmetry; apply Z.eqb_neq; lia). step. reflexivity.
Qed.

(* non-vacuity *)
Example merge_example :
  vtx (xmat 2 2 [XFin 1; XFin 2; XFin 3; XFin 4]) (VList [VFloat (XFin 7); VFloat (XFin 8)]) (VInt 3) (VBool true)
  = Ok (VArr KF [2; 3] [XFin 1; XFin 2; XFin 7; XFin 3; XFin 4; XFin 8]).
Proof. reflexivity. Qed.

(* NumPy arrays (not instances of jax.numpy.ndarray) are converted by validate_array first:
   the per-row and scalar array forms above hold verbatim for numpy.ndarray times *)
Lemma numpy_times_same x k sh d nf c :
  vtx x (VNpArr k sh d) nf (VBool c) = vtx x (VArr k sh d) nf (VBool c).
Proof.
  unfold vtx, py_validation_validate_time_x.
  match goal with |- bind ?m _ = bind ?m _ => destruct m as [x'|e]; [|reflexivity] end.
  cbn [bind]. destruct c; cbn [cond truthy bind and_then or_else rmap negb py_is_not py_is];
    destruct sh as [|s1 [|s2 [|s3 sh]]]; reflexivity.
Qed.

(* trailing-column form with the wrong number of columns *)
Lemma column_form_wrong_features n c xs nf (cs : bool) : c <> nf ->
  vtx (xmat n c xs) VNone (VInt nf) (VBool cs) = Err ValueError.
Proof.
  intros H. unfold vtx, py_validation_validate_time_x, py_validation_validate_array, xmat.
  destruct cs; step; destruct (c =? nf - 1); step;
    replace (c =? nf) with false by (symmetry; apply Z.eqb_neq; lia); reflexivity.
Qed.
