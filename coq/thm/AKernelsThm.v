(* C05: facts about the kernel-expression evaluator: stationary range, symmetry, pointwise algebra,
   inactive dimensions, time product *)
From Coq Require Import Reals List ZArith Lra Lia.
From Coquelicot Require Import Coquelicot.
From MellonV Require Import ALists ARealExtra AKernels AKExpr ACovFunc AListsFacts ADocumented ADistThm.
Import ListNotations.
Open Scope R_scope.

(* ------------------------------------------------------------------ stationary range *)

Definition profile (b : base) (ls d : R) : R :=
  match b with
  | BMatern32 => Matern32_k ls d | BMatern52 => Matern52_k ls d | BExpQuad => ExpQuad_k ls d
  | BExponential => Exponential_k ls d | BRatQuad a => RatQuad_k a ls d | BLinear => 0
  end.

Lemma base_k_profile b ls x y : stationary b -> base_k b ls x y = profile b ls (dist_pts x y).
Proof. destruct b; simpl; intros H; try reflexivity; contradiction. Qed.

Lemma profile_at_0 b ls : stationary b -> profile b ls 0 = 1.
Proof.
  destruct b; simpl; intros H; try contradiction.
  apply Matern32_at_0. apply Matern52_at_0. apply ExpQuad_at_0. apply Exponential_at_0. apply RatQuad_at_0.
Qed.

Lemma profile_decreasing b ls d1 d2 : stationary b -> base_ok b ls -> 0 <= d1 <= d2 ->
  profile b ls d2 <= profile b ls d1.
Proof.
  destruct b; simpl; intros H [Hl Ha] Hd; try contradiction.
  now apply Matern32_decreasing. now apply Matern52_decreasing. now apply ExpQuad_decreasing.
  now apply Exponential_decreasing. now apply RatQuad_decreasing.
Qed.

Lemma profile_range b ls d : stationary b -> base_ok b ls -> 0 <= d -> 0 < profile b ls d <= 1.
Proof.
  intros Hs Hok Hd. split.
  - destruct b; simpl in *; try contradiction; destruct Hok as [Hl Ha].
    now apply Matern32_pos. now apply Matern52_pos. apply ExpQuad_pos. apply Exponential_pos. apply RatQuad_pos.
  - rewrite <- (profile_at_0 b ls Hs). apply profile_decreasing; [assumption|assumption|lra].
Qed.

(* values of a stationary kernel on any pair of points: in (0,1]; on a coincident pair the value
   is the profile at the regulariser 1e-6, which is within L*1e-6 of 1 *)
Lemma stationary_value_range b ls x y : stationary b -> base_ok b ls -> length x = length y ->
  0 < base_k b ls x y <= 1.
Proof.
  intros Hs Hok Hl. rewrite base_k_profile by exact Hs. apply profile_range; try assumption.
  apply Rlt_le, dist_pts_pos, Hl.
Qed.

Lemma profile_near_one b ls d : stationary b -> base_ok b ls -> 0 <= d ->
  1 - 3 * d / ls - d ^ 2 / (2 * ls ^ 2) <= profile b ls d.
Proof.
  intros Hs [Hl Ha] Hd.
  assert (Hr : 0 <= d / ls) by (apply Rmult_le_pos; [exact Hd|apply Rlt_le, Rinv_0_lt_compat, Hl]).
  assert (Hq : d ^ 2 / (2 * ls ^ 2) = (d / ls) ^ 2 / 2) by (field; lra).
  assert (H9 : sqrt 9 = 3) by (replace 9 with (3 * 3) by lra; apply sqrt_square; lra).
  assert (H3 : sqrt 3 <= 3) by (rewrite <- H9; apply sqrt_le_1_alt; lra).
  assert (H5 : sqrt 5 <= 3) by (rewrite <- H9; apply sqrt_le_1_alt; lra).
  pose proof sqrt3_pos. pose proof sqrt5_pos.
  assert (0 <= (d / ls) ^ 2) by apply pow2_ge_0.
  replace (3 * d / ls) with (3 * (d / ls)) by (unfold Rdiv; ring). rewrite Hq.
  set (r := d / ls) in *.
  destruct b; simpl in *; try contradiction.
  - unfold Matern32_k. replace (sqrt 3 * d / ls) with (sqrt 3 * r) by (unfold r, Rdiv; ring).
    assert (Hu : 0 <= sqrt 3 * r) by (apply Rmult_le_pos; lra).
    assert (Hu3 : sqrt 3 * r <= 3 * r) by (apply Rmult_le_compat_r; lra).
    set (u := sqrt 3 * r) in *.
    pose proof (exp_ineq1_le (- u)). pose proof (exp_pos (- u)). set (E := exp (- u)) in *.
    assert (0 <= u * E) by (apply Rmult_le_pos; lra). clearbody E u. lra.
  - unfold Matern52_k. replace (sqrt 5 * d / ls) with (sqrt 5 * r) by (unfold r, Rdiv; ring).
    assert (Hu : 0 <= sqrt 5 * r) by (apply Rmult_le_pos; lra).
    assert (Hu3 : sqrt 5 * r <= 3 * r) by (apply Rmult_le_compat_r; lra).
    set (u := sqrt 5 * r) in *.
    pose proof (exp_ineq1_le (- u)). pose proof (exp_pos (- u)). set (E := exp (- u)) in *.
    assert (0 <= u * E) by (apply Rmult_le_pos; lra).
    assert (0 <= u ^ 2 / 3 * E) by (apply Rmult_le_pos; [pose proof (pow2_ge_0 u); lra|lra]). clearbody E u. lra.
  - unfold ExpQuad_k. fold r. pose proof (exp_ineq1_le (- r ^ 2 / 2)). lra.
  - unfold Exponential_k. fold r. pose proof (exp_ineq1_le (- r / 2)). lra.
  - unfold RatQuad_k. fold r. unfold Rpower.
    assert (0 <= r ^ 2 / (2 * alpha)).
    { apply Rmult_le_pos; [assumption|]. apply Rlt_le, Rinv_0_lt_compat. lra. }
    assert (ln (r ^ 2 / (2 * alpha) + 1) <= r ^ 2 / (2 * alpha)).
    { rewrite <- (ln_exp (r ^ 2 / (2 * alpha))) at 2. 
      destruct (Req_dec (r ^ 2 / (2 * alpha)) 0) as [E|E].
      - rewrite E, Rplus_0_l, exp_0. lra.
      - apply Rlt_le, ln_increasing; [lra|]. pose proof (exp_ineq1 _ E). lra. }
    pose proof (exp_ineq1_le (- alpha * ln (r ^ 2 / (2 * alpha) + 1))).
    assert (alpha * ln (r ^ 2 / (2 * alpha) + 1) <= alpha * (r ^ 2 / (2 * alpha))) by (apply Rmult_le_compat_l; lra).
    replace (alpha * (r ^ 2 / (2 * alpha))) with (r ^ 2 / 2) in * by (field; lra). lra.
Qed.

(* ------------------------------------------------------------------ symmetry *)
Lemma base_k_sym b ls x y : base_k b ls x y = base_k b ls y x.
Proof. destruct b; simpl; rewrite ?(dist_pts_sym x y), ?(dot_comm x y); reflexivity. Qed.

Lemma keval_symmetric e : forall x y, keval e x y = keval e y x.
Proof.
  induction e; intros x y; simpl; unfold select_active_dims.
  - apply base_k_sym.
  - now rewrite (IHe1 (sel ad x)), (IHe2 (sel ad x)).
  - now rewrite (IHe (sel ad x)).
  - now rewrite (IHe1 (sel ad x)), (IHe2 (sel ad x)).
  - now rewrite (IHe (sel ad x)).
  - now rewrite (IHe (sel ad x)).
Qed.

(* ------------------------------------------------------------------ pointwise algebra on the selected dimensions *)
Lemma keval_base b ls ad x y : keval (KBase b ls ad) x y = base_k b ls (sel ad x) (sel ad y).
Proof. reflexivity. Qed.
Lemma keval_add l r ad x y : keval (KAdd l r ad) x y = keval l (sel ad x) (sel ad y) + keval r (sel ad x) (sel ad y).
Proof. reflexivity. Qed.
Lemma keval_add_scalar l c ad x y : keval (KAddC l c ad) x y = keval l (sel ad x) (sel ad y) + c.
Proof. reflexivity. Qed.
Lemma keval_mul l r ad x y : keval (KMul l r ad) x y = keval l (sel ad x) (sel ad y) * keval r (sel ad x) (sel ad y).
Proof. reflexivity. Qed.
Lemma keval_mul_scalar l c ad x y : keval (KMulC l c ad) x y = keval l (sel ad x) (sel ad y) * c.
Proof. reflexivity. Qed.
Lemma keval_pow l p ad x y : keval (KPow l p ad) x y = Rpower (keval l (sel ad x) (sel ad y)) p.
Proof. reflexivity. Qed.

(* integer powers are repeated products (positive base) *)
Lemma keval_pow_nat l (n : nat) ad x y : 0 < keval l (sel ad x) (sel ad y) ->
  keval (KPow l (INR n) ad) x y = keval l (sel ad x) (sel ad y) ^ n.
Proof. intros H. rewrite keval_pow. apply Rpower_pow. exact H. Qed.


Lemma keval_reads_selection e x y x' y' :
  sel (dims_of e) x = sel (dims_of e) x' -> sel (dims_of e) y = sel (dims_of e) y' ->
  keval e x y = keval e x' y'.
Proof. intros Hx Hy. destruct e; simpl in *; unfold select_active_dims; rewrite Hx, Hy; reflexivity. Qed.

(* inactive dimensions never influence a value: points that agree on the resolved active
   coordinates of a node give the same value (operands see only the selected sub-vectors,
   so the statement applies again, with their own active_dims, one level down) *)
Lemma inactive_dims_irrelevant e x y x' y' :
  length x = length x' -> length y = length y' ->
  agree_on (resolve_dims (dims_of e) (length x)) x x' ->
  agree_on (resolve_dims (dims_of e) (length y)) y y' ->
  keval e x y = keval e x' y'.
Proof.
  intros Hlx Hly Hx Hy. apply keval_reads_selection; apply sel_agree; assumption.
Qed.

(* ------------------------------------------------------------------ index semantics used by compute_cov_func *)
Lemma zrange_seq fuel a n : (n <= fuel)%nat ->
  zrange fuel (Z.of_nat a) (Z.of_nat (a + n)) 1 = seq a n.
Proof.
  revert a n. induction fuel as [|f IH]; intros a [|n] H; simpl; try lia; try reflexivity.
  - replace (Z.of_nat a <? Z.of_nat (a + 0))%Z with false by (symmetry; apply Z.ltb_ge; lia). reflexivity.
  - replace (Z.of_nat a <? Z.of_nat (a + S n))%Z with true by (symmetry; apply Z.ltb_lt; lia).
    rewrite Nat2Z.id. f_equal.
    replace (Z.of_nat a + 1)%Z with (Z.of_nat (S a)) by lia.
    replace (a + S n)%nat with (S a + n)%nat by lia. apply IH. lia.
Qed.

Lemma slice_all_but_last n : slice_indices (S n) None (Some (-1)%Z) None = seq 0 n.
Proof.
  unfold slice_indices. cbv zeta.
  replace (0 <? 1)%Z with true by reflexivity. replace (1 =? 0)%Z with false by reflexivity.
  replace (-1 <? 0)%Z with true by reflexivity.
  replace (Z.max (-1 + Z.of_nat (S n)) 0) with (Z.of_nat (0 + n)) by lia.
  apply (zrange_seq (S (S n)) 0 n). lia.
Qed.

Lemma take_seq_app (x : list R) t : take_idx (seq 0 (length x)) (x ++ [t]) = x.
Proof.
  unfold take_idx. apply (nth_ext _ _ 0 0).
  - now rewrite map_length, seq_length.
  - intros i Hi. rewrite map_length, seq_length in Hi.
    rewrite (nth_indep _ 0 ((fun i => nth i (x ++ [t]) 0) O)) by (now rewrite map_length, seq_length).
    rewrite (map_nth (fun i => nth i (x ++ [t]) 0)), seq_nth by exact Hi. simpl. now apply app_nth1.
Qed.

Lemma sel_all_but_last (x : list R) t : sel (DSlice None (Some (-1)%Z) None) (x ++ [t]) = x.
Proof.
  unfold sel, resolve_dims. rewrite app_length. simpl length.
  replace (length x + 1)%nat with (S (length x)) by lia. rewrite slice_all_but_last. apply take_seq_app.
Qed.

Lemma sel_last (x : list R) t : sel (DInt (-1)%Z) (x ++ [t]) = [t].
Proof.
  unfold sel, resolve_dims, take_idx, norm_index. rewrite app_length. simpl length. simpl map.
  replace (Z.to_nat (Z.of_nat (length x + 1) + -1)) with (length x) by lia.
  rewrite app_nth2 by lia. now rewrite Nat.sub_diag.
Qed.

(* time-aware covariance: state kernel on all-but-last columns times time kernel on the last *)
Lemma time_cov_is_product b ls lt (x y : list R) tx ty :
  keval (compute_cov_func (KBase b) ls (Some lt)) (x ++ [tx]) (y ++ [ty])
  = base_k b ls x y * base_k b lt [tx] [ty].
Proof.
  unfold compute_cov_func. cbn [keval]. unfold select_active_dims, Mul_k_kk.
  assert (Hn : forall v, sel DNone v = v) by reflexivity.
  now rewrite !Hn, !sel_all_but_last, !sel_last.
Qed.

Lemma cov_func_no_time b ls x y : keval (compute_cov_func (KBase b) ls None) x y = base_k b ls x y.
Proof. reflexivity. Qed.
