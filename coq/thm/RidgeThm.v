(* C03: "the starting point is the ridge-regression solution of L z ~ MLE - mu".  The ridge objective
   J(z) = |L z - y|^2 + lam |z|^2 (lam > 0; sklearn's Ridge(fit_intercept=False) has lam = 1) has exactly one
   minimiser zs, the solution of the normal equations (L^T L + lam I) zs = L^T y; any other z is strictly worse by
   (z - zs)^T (L^T L + lam I) (z - zs).  Any real closed field, all sizes. *)
From mathcomp Require Import all_ssreflect all_fingroup all_algebra.
From mathcomp Require Import ring.
From MellonV Require Import MatOps MxInst MxPsd.
Set Implicit Arguments.
Unset Strict Implicit.
Unset Printing Implicit Defensive.
Import Order.TTheory GRing.Theory Num.Theory.
Local Open Scope ring_scope.

Section Ridge.
Variable F : rcfType.
Variables (n p : nat) (L : 'M[F]_(n, p)) (y : 'cV[F]_n) (lam : F).
Hypothesis lam_gt0 : 0 < lam.

Definition sqnorm m (v : 'cV[F]_m) : F := (v^T *m v) 0 0.
Definition ridge_objective (z : 'cV[F]_p) : F := sqnorm (L *m z - y) + lam * sqnorm z.
Let A : 'M[F]_p := L^T *m L + lam%:M.
Definition ridge_solution : 'cV[F]_p := invmx A *m (L^T *m y).

Lemma ridge_A_spd : spd A.
Proof.
split; first by apply: symD; [apply: sym_gramT|apply: sym_scalar].
by apply: pdDr; [apply: psd_gramT|apply: pd_scalar].
Qed.

Lemma ridge_normal_eq : A *m ridge_solution = L^T *m y.
Proof. by rewrite /ridge_solution mulmxA mulmxV ?mul1mx //; apply: spd_unit; apply: ridge_A_spd. Qed.

Definition dotp m (u v : 'cV[F]_m) : F := (u^T *m v) 0 0.

Lemma dotpC m (u v : 'cV[F]_m) : dotp u v = dotp v u.
Proof. by rewrite /dotp -[u^T *m v]trmxK trmx_mul trmxK mxE. Qed.
Lemma dotpDl m (u v w : 'cV[F]_m) : dotp (u + v) w = dotp u w + dotp v w.
Proof. by rewrite /dotp linearD /= mulmxDl mxE. Qed.
Lemma dotpDr m (u v w : 'cV[F]_m) : dotp w (u + v) = dotp w u + dotp w v.
Proof. by rewrite /dotp mulmxDr mxE. Qed.
Lemma dotpNl m (u w : 'cV[F]_m) : dotp (- u) w = - dotp u w.
Proof. by rewrite /dotp linearN /= mulNmx mxE. Qed.
Lemma dotpNr m (u w : 'cV[F]_m) : dotp w (- u) = - dotp w u.
Proof. by rewrite /dotp mulmxN mxE. Qed.
Lemma dotpZr m a (u w : 'cV[F]_m) : dotp w (a *: u) = a * dotp w u.
Proof. by rewrite /dotp -scalemxAr mxE. Qed.
Lemma dotp_adj (u : 'cV[F]_p) (v : 'cV[F]_n) : dotp (L *m u) v = dotp u (L^T *m v).
Proof. by rewrite /dotp trmx_mul mulmxA. Qed.

Lemma ridge_objectiveE z : ridge_objective z = dotp (L *m z - y) (L *m z - y) + lam * dotp z z.
Proof. by []. Qed.

Lemma ridge_gap z : ridge_objective z - ridge_objective ridge_solution = qf A (z - ridge_solution).
Proof.
set zs := ridge_solution; set e := z - zs.
have -> : z = zs + e by rewrite /e addrC subrK.
have qe : qf A e = dotp (L *m e) (L *m e) + lam * dotp e e.
  rewrite /qf /A mulmxDr mulmxDl mxE; congr (_ + _).
    by rewrite /dotp trmx_mul !mulmxA.
  by rewrite mul_mx_scalar -scalemxAl mxE.
(* the normal equations, contracted with e *)
have ne : dotp (L *m e) (L *m zs) + lam * dotp e zs = dotp (L *m e) y.
  have := congr1 (dotp e) ridge_normal_eq; rewrite -/zs /A mulmxDl dotpDr mul_scalar_mx dotpZr.
  by rewrite !dotp_adj mulmxA.
rewrite qe !ridge_objectiveE mulmxDr.
clearbody e; rewrite !dotpDl !dotpDr !dotpNl !dotpNr (dotpC (L *m zs) (L *m e)) (dotpC y (L *m e)) (dotpC zs e) -ne.
move: (dotp (L *m zs) (L *m zs)) (dotp (L *m zs) y) (dotp y (L *m zs)) (dotp y y) (dotp (L *m e) (L *m zs))
      (dotp (L *m e) (L *m e)) (dotp zs zs) (dotp e zs) (dotp e e) => a1 b1 b3 c a3 a4 d1 d3 d4.
by ring.
Qed.

(* the ridge solution is THE minimiser *)
Theorem ridge_unique_minimiser z :
  ridge_objective ridge_solution <= ridge_objective z
  /\ (ridge_objective z = ridge_objective ridge_solution -> z = ridge_solution).
Proof.
have [_ pA] := ridge_A_spd; split.
  by rewrite -subr_ge0 ridge_gap -qfE; apply: (pd_psd pA).
move=> e; apply/eqP; rewrite -subr_eq0; apply/negPn/negP => nz.
by have := pA _ nz; rewrite qfE -ridge_gap e subrr ltxx.
Qed.

End Ridge.

(* statement as one proposition, for the property file of C03 (which is written over Coq's R) *)
Definition ridge_unique_statement : Prop :=
  forall (F : rcfType) (n p : nat) (L : 'M[F]_(n, p)) (y : 'cV[F]_n) (lam : F) (z : 'cV[F]_p), 0 < lam ->
    ridge_objective L y lam (ridge_solution L y lam) <= ridge_objective L y lam z
    /\ (ridge_objective L y lam z = ridge_objective L y lam (ridge_solution L y lam) -> z = ridge_solution L y lam)
    /\ (L^T *m L + lam%:M) *m ridge_solution L y lam = L^T *m y.

Theorem ridge_unique : ridge_unique_statement.
Proof.
move=> F n p L y lam z l0; have [h1 h2] := ridge_unique_minimiser L y l0 z.
by split=> //; split=> //; apply: ridge_normal_eq.
Qed.
