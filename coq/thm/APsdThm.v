(* C05, PARTIAL: positive semi-definiteness.  What is proved: sums, non-negative scalings, non-negative
   constants and active_dims restrictions preserve PSD-ness of a kernel (any point set, any weights), hence so
   does every sum/scalar node of an expression tree.  What is NOT proved and enters as NAMED hypotheses:
   [kernel_psd] (Bochner: the five stationary profiles, and the Gram form of the linear kernel) and
   [hadamard_psd] (Schur product theorem).  The harness tests the smallest eigenvalue of sampled Gram
   matrices as support only. *)
From Coq Require Import Reals List ZArith Lra Lia.
From MellonV Require Import ALists AKernels AKExpr AListsFacts ADistThm AKernelsThm.
Import ListNotations.
Open Scope R_scope.

(* v^T K v for the Gram matrix K_ij = k(p_i, p_j) *)
Definition quad (k : list R -> list R -> R) (pts : list (list R)) (v : list R) : R :=
  sum_list (map2 (fun vi pi => sum_list (map2 (fun vj pj => vi * vj * k pi pj) v pts)) v pts).

Definition psd (k : list R -> list R -> R) : Prop :=
  forall pts v, length v = length pts -> 0 <= quad k pts v.

Lemma sum_map2_ext {A B} (f g : A -> B -> R) la lb :
  (forall a b, f a b = g a b) -> sum_list (map2 f la lb) = sum_list (map2 g la lb).
Proof. intros H. revert lb. induction la as [|a la IH]; intros [|b lb]; simpl; try reflexivity. now rewrite H, IH. Qed.

Lemma sum_map2_plus {A B} (f g : A -> B -> R) la lb :
  sum_list (map2 (fun a b => f a b + g a b) la lb) = sum_list (map2 f la lb) + sum_list (map2 g la lb).
Proof. revert lb. induction la as [|a la IH]; intros [|b lb]; simpl; try ring. rewrite IH. ring. Qed.

Lemma sum_map2_scal {A B} (c : R) (f : A -> B -> R) la lb :
  sum_list (map2 (fun a b => c * f a b) la lb) = c * sum_list (map2 f la lb).
Proof. revert lb. induction la as [|a la IH]; intros [|b lb]; simpl; try ring. rewrite IH. ring. Qed.

Lemma quad_ext k1 k2 pts v : (forall x y, k1 x y = k2 x y) -> quad k1 pts v = quad k2 pts v.
Proof. intros H. unfold quad. apply sum_map2_ext. intros a b. apply sum_map2_ext. intros c d. now rewrite H. Qed.

Lemma quad_add k1 k2 pts v : quad (fun x y => k1 x y + k2 x y) pts v = quad k1 pts v + quad k2 pts v.
Proof.
  unfold quad. rewrite <- sum_map2_plus. apply sum_map2_ext. intros a b.
  rewrite <- sum_map2_plus. apply sum_map2_ext. intros c d. ring.
Qed.

Lemma quad_scale c k pts v : quad (fun x y => k x y * c) pts v = c * quad k pts v.
Proof.
  unfold quad. rewrite <- sum_map2_scal. apply sum_map2_ext. intros a b.
  rewrite <- sum_map2_scal. apply sum_map2_ext. intros e d. ring.
Qed.

Lemma map2_map_r {A B B' C} (f : A -> B' -> C) (g : B -> B') la lb : map2 f la (map g lb) = map2 (fun a b => f a (g b)) la lb.
Proof. revert lb. induction la as [|a la IH]; intros [|b lb]; simpl; try reflexivity. now rewrite IH. Qed.

Lemma quad_sel k ad pts v : quad (fun x y => k (sel ad x) (sel ad y)) pts v = quad k (map (sel ad) pts) v.
Proof.
  unfold quad. rewrite map2_map_r. apply sum_map2_ext. intros a b. now rewrite map2_map_r.
Qed.

(* the Gram matrix of a constant c is c (sum v)^2 *)
Lemma quad_const c pts v : length v = length pts -> quad (fun _ _ => c) pts v = c * (sum_list v) ^ 2.
Proof.
  intros Hl. unfold quad.
  assert (Hin : forall (vi : R) (w : list R) (q : list (list R)), length w = length q ->
             sum_list (map2 (fun vj (_ : list R) => vi * vj * c) w q) = vi * c * sum_list w).
  { intros vi w. induction w as [|a w IH]; intros [|b q] H; simpl in *; try lia; [ring|]. rewrite IH by lia. ring. }
  rewrite (sum_map2_ext _ (fun vi (_ : list R) => vi * (c * sum_list v))).
  - assert (Hout : forall (w : list R) (q : list (list R)) (t : R), length w = length q ->
               sum_list (map2 (fun vi (_ : list R) => vi * t) w q) = t * sum_list w).
    { intros w. induction w as [|a w IH]; intros [|b q] t H; simpl in *; try lia; [ring|]. rewrite IH by lia. ring. }
    rewrite Hout by exact Hl. ring.
  - intros a b. rewrite Hin by exact Hl. ring.
Qed.

Lemma psd_add k1 k2 : psd k1 -> psd k2 -> psd (fun x y => k1 x y + k2 x y).
Proof. intros H1 H2 pts v Hl. rewrite quad_add. specialize (H1 pts v Hl). specialize (H2 pts v Hl). lra. Qed.

Lemma psd_scale c k : 0 <= c -> psd k -> psd (fun x y => k x y * c).
Proof. intros Hc H pts v Hl. rewrite quad_scale. specialize (H pts v Hl). nra. Qed.

Lemma psd_const c : 0 <= c -> psd (fun _ _ => c).
Proof. intros Hc pts v Hl. rewrite quad_const by exact Hl. pose proof (pow2_ge_0 (sum_list v)). nra. Qed.

Lemma psd_sel k ad : psd k -> psd (fun x y => k (sel ad x) (sel ad y)).
Proof. intros H pts v Hl. rewrite quad_sel. apply H. now rewrite map_length. Qed.

(* expression trees built from sums, products and non-negative scalars *)
Fixpoint psd_shape (e : kexpr) : Prop :=
  match e with
  | KBase b ls _ => base_ok b ls
  | KAdd l r _ | KMul l r _ => psd_shape l /\ psd_shape r
  | KAddC l c _ | KMulC l c _ => psd_shape l /\ 0 <= c
  | KPow _ _ _ => False
  end.

Section Closure.
(* NAMED HYPOTHESES, not proved (see the header) *)
Hypothesis kernel_psd : forall b ls, base_ok b ls -> psd (base_k b ls).
(* Schur product theorem.  It is stated for SYMMETRIC kernels: without symmetry the statement is false
   (k x y = x_0 - y_0 has the zero quadratic form, its square does not), and an unsatisfiable hypothesis
   would make the closure theorem vacuous.  lib/MxSchurProd.v proves the theorem for matrices over any
   real closed field (schur_product); the transfer to this list-over-R presentation is thm/ASchurBridge.v
   when present, otherwise it stays a named hypothesis. *)
Definition ksym (k : list R -> list R -> R) : Prop := forall x y, k x y = k y x.
Hypothesis hadamard_psd : forall k1 k2, ksym k1 -> ksym k2 -> psd k1 -> psd k2 -> psd (fun x y => k1 x y * k2 x y).

Theorem keval_psd_partial e : psd_shape e -> psd (keval e).
Proof.
  induction e; cbn [psd_shape]; intros Hs.
  - apply (psd_sel (base_k b ls) ad). now apply kernel_psd.
  - destruct Hs as [H1 H2]. apply (psd_sel (fun x y => keval e1 x y + keval e2 x y) ad). apply psd_add; auto.
  - destruct Hs as [H1 H2]. apply (psd_sel (fun x y => keval e x y + c) ad).
    apply (psd_add (keval e) (fun _ _ => c)); [auto|now apply psd_const].
  - destruct Hs as [H1 H2]. apply (psd_sel (fun x y => keval e1 x y * keval e2 x y) ad).
    apply hadamard_psd; auto; intros x y; apply keval_symmetric.
  - destruct Hs as [H1 H2]. apply (psd_sel (fun x y => keval e x y * c) ad). apply psd_scale; auto.
  - contradiction.
Qed.
End Closure.
