(* C05: positive semi-definiteness of the Gram matrices of the LINEAR and the EXPQUAD kernel, proved (no Bochner
   hypothesis for these two): the linear Gram matrix is X X^T; exp(<x,y>/l^2) is the pointwise limit of
   sum_(m <= N) (<x,y>/l^2)^m / m!, each term psd by the Schur product theorem; the Gaussian kernel is
   f(x) f(y) exp(<x,y>/l^2) times a positive constant.  Points may have different lengths (the generated dot
   product and squared norms then act on the zero-padded vectors). *)
From Coq Require Import Reals List Lra.
From Coquelicot Require Import Coquelicot.
From mathcomp Require Import all_ssreflect all_algebra.
From MellonV Require Import ALists AKernels AKExpr AKernelsThm APsdThm.
From MellonV Require Import Rstruct MatOps MxInst MxPsd MxChol MxSchurProd ASchurBridge.
Set Implicit Arguments.
Unset Strict Implicit.
Unset Printing Implicit Defensive.
Import GRing.Theory Num.Theory.
Delimit Scope R_scope with Re.
Local Open Scope ring_scope.

(* ---- from matrices back to kernels ------------------------------------ *)
Lemma psd_of_gram (k : list R -> list R -> R) :
  (forall pts, MxInst.psd (gramR k pts)) -> APsdThm.psd k.
Proof. by move=> h pts v e; rewrite quad_qf //; apply/RleP; rewrite -qfE; apply: h. Qed.

(* f(x) f(y) : Gram = u u^T *)
Lemma psd_rank_one (f : list R -> R) : APsdThm.psd (fun x y => Rmult (f x) (f y)).
Proof.
apply: psd_of_gram => pts.
have -> : gramR (fun x y => Rmult (f x) (f y)) pts
        = (\col_i f (nth [::] pts i) : 'cV[R]_(size pts)) *m (\col_i f (nth [::] pts i))^T.
  by apply/matrixP => i j; rewrite !mxE big_ord1 !mxE.
exact: psd_gram.
Qed.

(* the generated dot product on zero-padded coordinates *)
Lemma dot_nth (x y : list R) (W : nat) : (size x <= W)%N -> (size y <= W)%N ->
  dot x y = \sum_(c < W) nth (0 : R) x c * nth (0 : R) y c.
Proof.
rewrite /dot; elim: W x y => [|W IH] [|a x] [|b y] //= lx ly; rewrite ?big_ord0 //.
- by rewrite big1 // => c _; rewrite nth_nil mul0r.
- by rewrite big1 // => c _; rewrite nth_nil mul0r.
- by rewrite big1 // => c _; rewrite nth_nil mulr0.
- by rewrite big_ord_recl /= (IH x y).
Qed.

Definition maxlen (pts : list (list R)) : nat := \max_(p <- pts) size p.

Lemma size_le_maxlen pts (i : nat) : (size (nth [::] pts i) <= maxlen pts)%N.
Proof.
rewrite /maxlen; elim: pts i => [|p pts IH] [|i] /=; rewrite ?big_nil ?big_cons //.
- by rewrite leq_maxl.
- by rewrite leq_max IH orbT.
Qed.

Lemma psd_dot : APsdThm.psd dot.
Proof.
apply: psd_of_gram => pts.
pose X : 'M[R]_(size pts, maxlen pts) := \matrix_(i, c) nth (0 : R) (nth [::] pts i) c.
have -> : gramR dot pts = X *m X^T.
  apply/matrixP => i j; rewrite !mxE (dot_nth (W := maxlen pts)) ?size_le_maxlen //.
  by apply: eq_bigr => c _; rewrite !mxE.
exact: psd_gram.
Qed.

Lemma ksym_dot : ksym dot.
Proof. by move=> x y; apply: AListsFacts.dot_comm. Qed.

(* ---- closure under scaling by c >= 0 on the left, powers, finite sums -- *)
Lemma psd_scale_l c k : (0 <= c)%Re -> APsdThm.psd k -> APsdThm.psd (fun x y => Rmult c (k x y)).
Proof.
move=> c0 pk pts v e.
rewrite (@quad_ext (fun x y => Rmult c (k x y)) (fun x y => Rmult (k x y) c)); last by move=> x y; rewrite Rmult_comm.
exact: (@psd_scale c k c0 pk pts v e).
Qed.

Lemma psd_pow k m : ksym k -> APsdThm.psd k -> APsdThm.psd (fun x y => pow (k x y) m).
Proof.
move=> sk pk; elim: m => [|m IH] /=.
  by apply: psd_const; lra.
apply: hadamard_psd_R => //.
by move=> x y; rewrite sk.
Qed.
