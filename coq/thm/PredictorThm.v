(* C07: predictor state survives to_dict/to_json -> from_dict/from_json (model of lib/Serial.v). *)
From Coq Require Import ZArith QArith List Bool String Ascii Lia.
From MellonV Require Import PyVal Serial SerialThm.
Import ListNotations.
Open Scope string_scope.

Record gpred := mk_gpred { gp_cls : string; gp_data : list (string * gval); gp_cov : gk }.
Definition pemb (p : gpred) : pstate :=
  mk_pstate (gp_cls p) (map (fun kv => (fst kv, emb (snd kv))) (gp_data p)) (kemb (gp_cov p)).
Definition pcanon (p : gpred) : gpred :=
  mk_gpred (gp_cls p) (map (fun kv => (fst kv, canon (snd kv))) (gp_data p)) (kcanon (gp_cov p)).
Definition pwf (p : gpred) : Prop :=
  mem_str (gp_cls p) predictor_classes = true /\ Forall (fun kv => small (snd kv)) (gp_data p) /\ kwf (gp_cov p).

Lemma kexpr_json_exists e fuel : kwf e -> (gkdepth e < fuel)%nat ->
  exists j, json_rt (kser (kemb e)) = Ok j /\ kdeser fuel j = Ok (kemb (kcanon e)).
Proof.
  intros Hw Hf. pose proof (kexpr_roundtrip fuel e Hw Hf) as H.
  destruct (json_rt (kser (kemb e))) as [j|x]; [|discriminate H]. exists j. split; [reflexivity|exact H].
Qed.

(* every state variable, n_obs, n_input_features, _state_variables and the kernel are restored,
   for each of the nine predictor classes *)
Theorem state_roundtrip p version kfuel :
  pwf p -> (gkdepth (gp_cov p) < kfuel)%nat ->
  bind (json_rt (pser version (pemb p))) (pdeser false kfuel) = Ok (pemb (pcanon p)).
Proof.
  intros (Hc & Hd & Hk) Hf. destruct p as [cls data cov]. cbn [gp_cls gp_data gp_cov] in *.
  destruct (attrs_json data Hd) as (items & Ej & Ed).
  destruct (kexpr_json_exists cov kfuel Hk Hf) as (jc & Ejc & Edc).
  unfold pser, pemb, pcanon. cbn [p_cls p_data p_cov gp_cls gp_data gp_cov].
  rewrite !json_rt_dict_cons, json_rt_dict_nil. rewrite Ej, Ejc.
  cbn [json_rt bind].
  unfold pdeser.
  repeat (progress (cbn [dict_get assoc_lookup scalar_eqb as_num]; eval_str_eqb; cbn match)).
  cbn [andb]. rewrite Hc. rewrite Ed. cbn [bind]. rewrite Edc. cbn [bind].
  rewrite map_map. reflexivity.
Qed.
