(* C02: normalisation and exp clauses, about the GENERATED result tails of the predictor `mean`
   methods (gen/C02Mean.v). *)
From Coq Require Import Reals Lra.
From MellonV Require Import PyVal C02Mean.
Open Scope R_scope.

(* what normalize=True must return: the un-normalised value lowered by exactly ln(n_obs);
   refusal (ValueError) exactly when n_obs is missing or zero *)
Definition normalize_spec (m : R) (normalize : bool) (n_obs : option R) : res R :=
  if normalize then
    match n_obs with
    | None => Err ValueError
    | Some n => if Req_EM_T n 0 then Err ValueError else Ok (m - ln n)
    end
  else Ok m.

Lemma Predictor_mean_normalize m nz n_obs : Predictor_mean_tail m nz n_obs = normalize_spec m nz n_obs.
Proof. reflexivity. Qed.

Lemma PredictorTime_mean_normalize m nz n_obs : PredictorTime_mean_tail m nz n_obs = normalize_spec m nz n_obs.
Proof. reflexivity. Qed.

Lemma normalize_spec_value m n : n <> 0 -> normalize_spec m true (Some n) = Ok (m - ln n).
Proof. intros H. unfold normalize_spec. destruct (Req_EM_T n 0); [contradiction|reflexivity]. Qed.

Lemma normalize_spec_off m n_obs : normalize_spec m false n_obs = Ok m.
Proof. reflexivity. Qed.

Lemma normalize_spec_refuses m n_obs :
  (n_obs = None \/ n_obs = Some 0) <-> normalize_spec m true n_obs = Err ValueError.
Proof.
  unfold normalize_spec. split.
  - intros [->| ->]; [reflexivity|]. destruct (Req_EM_T 0 0); [reflexivity|contradiction].
  - destruct n_obs as [n|]; [|now left]. destruct (Req_EM_T n 0) as [->|]; [now right|discriminate].
Qed.

(* the normalised and the plain value of one predictor differ by exactly ln(n_obs) *)
Lemma normalize_difference m n a b : n <> 0 ->
  Predictor_mean_tail m true (Some n) = Ok a -> Predictor_mean_tail m false (Some n) = Ok b -> b - a = ln n.
Proof.
  intros H. rewrite !Predictor_mean_normalize, normalize_spec_value, normalize_spec_off by exact H.
  intros [= <-] [= <-]. ring.
Qed.

Lemma normalize_difference_time m n a b : n <> 0 ->
  PredictorTime_mean_tail m true (Some n) = Ok a -> PredictorTime_mean_tail m false (Some n) = Ok b -> b - a = ln n.
Proof.
  intros H. rewrite !PredictorTime_mean_normalize, normalize_spec_value, normalize_spec_off by exact H.
  intros [= <-] [= <-]. ring.
Qed.

(* positive-valued predictors *)
Lemma ExpPredictor_mean_exp m : ExpPredictor_mean_tail m false = Ok (exp m) /\ 0 < exp m
  /\ ExpPredictor_mean_tail m true = Ok m.
Proof. repeat split. apply exp_pos. Qed.

Lemma ExpPredictor_consistent m v l :
  ExpPredictor_mean_tail m false = Ok v -> ExpPredictor_mean_tail m true = Ok l -> v = exp l /\ 0 < v.
Proof. intros [= <-] [= <-]. split; [reflexivity|apply exp_pos]. Qed.

(* non-vacuity *)
Example normalize_example : Predictor_mean_tail 2 true (Some 40) = Ok (2 - ln 40)
  /\ Predictor_mean_tail 2 true (Some 0) = Err ValueError /\ Predictor_mean_tail 2 true None = Err ValueError.
Proof.
  rewrite !Predictor_mean_normalize. repeat split.
  - apply normalize_spec_value. lra.
  - apply normalize_spec_refuses. now right.
Qed.
