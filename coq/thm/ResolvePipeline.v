(* C15: the option-resolution pipeline of the estimators, composed from the
   GENERATED functions of gen/Resolve.v in the order recorded in the generated
   tables prepare_order_<Estimator>.  Definitions only. *)
From Coq Require Import ZArith QArith List String.
From MellonV Require Import PyVal Resolve.
Import ListNotations.
Open Scope Z_scope.
Open Scope string_scope.

(* BaseEstimator._prepare_attribute: compute only when the attribute is None *)
Definition prepare_attr (given : val) (computed : res val) : res val :=
  match given with VNone => computed | _ => Ok given end.

(* __init__ validation followed by the first four steps of prepare_inference *)
Definition resolve (n n_landmarks_arg landmarks rank_arg gp_type_arg : val) : res val :=
  bind (py_validation_validate_positive_int n_landmarks_arg (VStr "") (VBool true)) (fun nl0 =>
  bind (py_validation_validate_float_or_int rank_arg (VStr "") (VBool true)) (fun r0 =>
  bind (py_util_GaussianProcessType_from_string gp_type_arg (VBool true)) (fun g0 =>
  bind (prepare_attr nl0 (py_parameters_compute_n_landmarks g0 n landmarks)) (fun nl =>
  bind (prepare_attr r0 (py_parameters_compute_rank g0)) (fun r =>
  bind (prepare_attr g0 (py_parameters_compute_gp_type nl r n)) (fun g =>
  bind (py_parameter_validation_validate_params r g n nl landmarks) (fun _ =>
  Ok (VTuple [g; nl; r])))))))).

(* FunctionEstimator.__init__ fixes rank = 1.0 and refuses the Nystroem types; its
   prepare_inference prepares no rank and does not call validate_parameter (hand model of
   the constructor, tied by the exhaustive correspondence run) *)
Definition resolve_function_estimator (n n_landmarks_arg landmarks rank_arg gp_type_arg : val) : res val :=
  bind (py_validation_validate_positive_int n_landmarks_arg (VStr "") (VBool true)) (fun nl0 =>
  bind (py_util_GaussianProcessType_from_string gp_type_arg (VBool true)) (fun g0 =>
  match g0 with
  | VEnum FULL_NYSTROEM | VEnum SPARSE_NYSTROEM => Err ValueError
  | _ =>
  bind (prepare_attr nl0 (py_parameters_compute_n_landmarks g0 n landmarks)) (fun nl =>
  bind (prepare_attr g0 (py_parameters_compute_gp_type nl (VFloat (XFin 1)) n)) (fun g =>
  Ok (VTuple [g; nl; VFloat (XFin 1)])))
  end)).

Definition expected_order_inference : list string :=
  ["SET_X"; "n_landmarks"; "rank"; "gp_type"; "VALIDATE"].
Definition expected_order_function : list string :=
  ["SET_X"; "n_landmarks"; "gp_type"].

Definition lm_lp_l : list string := ["landmarks"; "Lp"; "L"].

(* which predictor class an accepted type must get *)
Definition family_of (g : gpt) : string :=
  match g with
  | FULL | FULL_NYSTROEM => "FullConditional"
  | SPARSE_CHOLESKY | FIXED => "LandmarksConditionalCholesky"
  | SPARSE_NYSTROEM => "LandmarksConditional"
  end.

(* the predictor the estimators build: _predictor_landmarks then compute_conditional *)
Definition predictor_of (g x landmarks z z_std y L Lp with_unc : val) : res val :=
  bind (py_base_model_BaseEstimator__predictor_landmarks g landmarks) (fun lm =>
  py_inference_compute_conditional x lm z z_std y VNone VNone L Lp VNone VNone (VBool true) with_unc VNone).

(* resolution, then the inducing points (explicit ones are kept; otherwise compute_landmarks,
   which refuses a single landmark), then the predictor family the type must get *)
Definition resolve_with_family (n n_landmarks_arg landmarks rank_arg gp_type_arg : val) : res val :=
  bind (resolve n n_landmarks_arg landmarks rank_arg gp_type_arg) (fun t =>
  match t with
  | VTuple [VEnum g; nl; r] =>
      bind (prepare_attr landmarks
              (py_parameters_compute_landmarks (VArr KF [match n with VInt z => z | _ => 0 end; 2] []) (VEnum g) nl
                 (VTuple [VObj "kmeans" 0; VNone; VNone]))) (fun _ =>
      Ok (VTuple [VEnum g; nl; VStr (family_of g)]))
  | _ => Err OtherError
  end).
