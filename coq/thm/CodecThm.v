(* C07: the codec chosen by from_json for the file that to_json wrote (generated functions). *)
From Coq Require Import ZArith List Bool String Ascii Lia.
From MellonV Require Import PyVal PyValIO C07Codec.
Import ListNotations.
Open Scope string_scope.

Lemma append_assoc (a b c : string) : (a ++ b) ++ c = a ++ (b ++ c).
Proof. induction a as [|x a IH]; [reflexivity|]. cbn. now rewrite IH. Qed.
Lemma srev_acc_app s acc : srev_acc s acc = srev_acc s "" ++ acc.
Proof.
  revert acc. induction s as [|c s IH]; intros acc; [reflexivity|].
  cbn [srev_acc]. rewrite (IH (String c acc)), (IH (String c "")).
  rewrite append_assoc. reflexivity.
Qed.
Lemma append_nil_r s : s ++ "" = s.
Proof. induction s as [|c s IH]; [reflexivity|]. cbn. now rewrite IH. Qed.
Lemma srev_app a b : srev (a ++ b) = srev b ++ srev a.
Proof.
  unfold srev. induction a as [|c a IH]; cbn [append srev_acc].
  - now rewrite append_nil_r.
  - rewrite srev_acc_app, IH, (srev_acc_app a (String c "")). now rewrite append_assoc.
Qed.
Lemma prefix_app p x : string_prefix p (p ++ x) = true.
Proof. induction p as [|c p IH]; [destruct x; reflexivity|]. cbn. now rewrite Ascii.eqb_refl, IH. Qed.
Lemma ends_with_app t s : ends_with_s t (s ++ t) = true.
Proof. unfold ends_with_s. rewrite srev_app. apply prefix_app. Qed.
Lemma gz_not_bz2 s : ends_with_s ".gz" (s ++ ".bz2") = false.
Proof. unfold ends_with_s. rewrite srev_app. reflexivity. Qed.
Lemma bz2_not_gz s : ends_with_s ".bz2" (s ++ ".gz") = false.
Proof. unfold ends_with_s. rewrite srev_app. reflexivity. Qed.
Lemma gz_excludes_bz2 s : ends_with_s ".gz" s = true -> ends_with_s ".bz2" s = false.
Proof.
  unfold ends_with_s. generalize (srev s) as r. intros r.
  change (srev ".gz") with "zg."; change (srev ".bz2") with "2zb.".
  destruct r as [|c r]; [discriminate|]. cbn [string_prefix].
  destruct (Ascii.eqb "z" c) eqn:E; [|discriminate].
  apply Ascii.eqb_eq in E. subst c. reflexivity.
Qed.

Inductive fname := FStr (s : string) | FPath (s : string).
Definition fval (f : fname) : val := match f with FStr s => VStr s | FPath s => mk_path s end.
Definition ftext (f : fname) : string := match f with FStr s | FPath s => s end.
Inductive comp := CNone | CGzip | CBz2.
Definition cval (c : comp) : val := match c with CNone => VNone | CGzip => VStr "gzip" | CBz2 => VStr "bz2" end.
Definition io_opener (r : res val) : option string :=
  match r with Ok (VTuple [VStr o; _; _]) => Some o | _ => None end.
Definition io_path (r : res val) : option val :=
  match r with Ok (VTuple [_; _; p]) => Some p | _ => None end.
Definition codec_name (opener : string) : string :=
  if string_eqb opener "gzip.open" then "gzip" else if string_eqb opener "bz2.open" then "bz2" else "plain".

(* the one excluded combination: a Path whose name ends in .gz written with compress="bz2" keeps its
   name, and from_json lets the .gz extension win over the bz2 keyword *)
Definition contradictory (f : fname) (c : comp) : bool :=
  match f, c with FPath s, CBz2 => ends_with_s ".gz" s | _, _ => false end.

Theorem codec_consistent_keyword f c :
  contradictory f c = false ->
  exists wo wp, io_opener (py_to_json (fval f) (cval c)) = Some wo
             /\ io_path (py_to_json (fval f) (cval c)) = Some wp
             /\ exists ro, io_opener (py_from_json VNone wp (cval c)) = Some ro /\ codec_name ro = codec_name wo.
Proof.
  intros Hc. unfold py_to_json, py_from_json.
  destruct f as [s|s], c; cbn -[ends_with_s] in *;
    destruct (ends_with_s ".gz" s) eqn:Eg; destruct (ends_with_s ".bz2" s) eqn:Eb;
    try (rewrite (gz_excludes_bz2 s Eg) in Eb; discriminate); try discriminate;
    repeat (progress (cbn -[ends_with_s]; rewrite ?Eg, ?Eb, ?ends_with_app, ?gz_not_bz2, ?bz2_not_gz));
    do 2 eexists; (split; [reflexivity|]); (split; [reflexivity|]);
    repeat (progress (cbn -[ends_with_s]; rewrite ?Eg, ?Eb, ?ends_with_app, ?gz_not_bz2, ?bz2_not_gz));
    eexists; split; reflexivity.
Qed.

(* reading WITHOUT the keyword: the extension alone selects the codec the file was written with,
   for every str filename (to_json appends the extension) and for Path filenames written without keyword *)
Theorem codec_consistent_extension f c :
  (match f with FStr _ => True | FPath _ => c = CNone end) ->
  exists wo wp, io_opener (py_to_json (fval f) (cval c)) = Some wo
             /\ io_path (py_to_json (fval f) (cval c)) = Some wp
             /\ exists ro, io_opener (py_from_json VNone wp VNone) = Some ro /\ codec_name ro = codec_name wo.
Proof.
  intros Hc. unfold py_to_json, py_from_json.
  destruct f as [s|s], c; try discriminate Hc; cbn -[ends_with_s] in *;
    destruct (ends_with_s ".gz" s) eqn:Eg; destruct (ends_with_s ".bz2" s) eqn:Eb;
    try (rewrite (gz_excludes_bz2 s Eg) in Eb; discriminate);
    repeat (progress (cbn -[ends_with_s]; rewrite ?Eg, ?Eb, ?ends_with_app, ?gz_not_bz2, ?bz2_not_gz));
    do 2 eexists; (split; [reflexivity|]); (split; [reflexivity|]);
    repeat (progress (cbn -[ends_with_s]; rewrite ?Eg, ?Eb, ?ends_with_app, ?gz_not_bz2, ?bz2_not_gz));
    eexists; split; reflexivity.
Qed.

(* no filename: the JSON text is returned; unknown compression names are refused *)
Lemma to_json_no_file c : py_to_json VNone c = Ok (VStr "<json>").
Proof. reflexivity. Qed.
Definition unknown_codec_cases : list (res val) :=
  [py_to_json (VStr "p.json") (VStr "zip"); py_to_json (mk_path "p") (VStr "GZIP"); py_to_json (VStr "p.gz") (VStr "none")].
Example unknown_codec_refused : unknown_codec_cases = [Err ValueError; Err ValueError; Err ValueError].
Proof. reflexivity. Qed.
(* the excluded combination really is inconsistent (observation recorded in DESIGN.md) *)
Example contradictory_witness :
  io_opener (py_to_json (mk_path "a.gz") (VStr "bz2")) = Some "bz2.open"
  /\ io_opener (py_from_json VNone (mk_path "a.gz") (VStr "bz2")) = Some "gzip.open".
Proof. split; reflexivity. Qed.
