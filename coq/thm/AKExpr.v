(* Deep embedding of Mellon's kernel expressions (definitions only, no proofs).
   The node arithmetic (Add_k_kk, Mul_kgrad_kk, Pow_kgrad, the six radial profiles, the
   distance entries ...) is GENERATED (gen/AKernels.v); the recursion scheme below - which
   operand receives the sliced x and y, where the gradient is scattered back - is the one
   the translator recognises by exact AST pattern in base_cov.py / cov.py (any other shape
   of those methods is refused), and is additionally tied to the implementation by the
   executable correspondence of checks/C05.py and checks/C11.py. *)
From Coq Require Import Reals List ZArith.
From MellonV Require Import ALists AKernels.
Import ListNotations.
Open Scope R_scope.

Inductive base := BMatern32 | BMatern52 | BExpQuad | BExponential | BRatQuad (alpha : R) | BLinear.

Inductive kexpr :=
| KBase (b : base) (ls : R) (ad : dims)
| KAdd (l r : kexpr) (ad : dims)
| KAddC (l : kexpr) (c : R) (ad : dims)
| KMul (l r : kexpr) (ad : dims)
| KMulC (l : kexpr) (c : R) (ad : dims)
| KPow (l : kexpr) (p : R) (ad : dims).

(* entry of util.distance for one pair of points *)
Definition dist_pts (x y : list R) : R := distance_entry (sumsq x) (dot x y) (sumsq y).

Definition base_k (b : base) (ls : R) (x y : list R) : R :=
  match b with
  | BMatern32 => Matern32_k ls (dist_pts x y)
  | BMatern52 => Matern52_k ls (dist_pts x y)
  | BExpQuad => ExpQuad_k ls (dist_pts x y)
  | BExponential => Exponential_k ls (dist_pts x y)
  | BRatQuad a => RatQuad_k a ls (dist_pts x y)
  | BLinear => Linear_k ls (dot x y)
  end.

Fixpoint keval (e : kexpr) (x y : list R) : R :=
  match e with
  | KBase b ls ad => base_k b ls (select_active_dims ad x) (select_active_dims ad y)
  | KAdd l r ad =>
    let x' := select_active_dims ad x in let y' := select_active_dims ad y in
    Add_k_kk (keval l x' y') (keval r x' y')
  | KAddC l c ad =>
    let x' := select_active_dims ad x in let y' := select_active_dims ad y in
    Add_k_kc c (keval l x' y')
  | KMul l r ad =>
    let x' := select_active_dims ad x in let y' := select_active_dims ad y in
    Mul_k_kk (keval l x' y') (keval r x' y')
  | KMulC l c ad =>
    let x' := select_active_dims ad x in let y' := select_active_dims ad y in
    Mul_k_kc c (keval l x' y')
  | KPow l p ad =>
    let x' := select_active_dims ad x in let y' := select_active_dims ad y in
    Pow_k p (keval l x' y')
  end.

(* the two outputs of util.distance_grad(x)(y) for one pair (and coordinate c) *)
Definition dist_code (x y : list R) : R :=
  distance_grad_dist distance_grad_eps (sumsq x) (dot x y) (sumsq y).
Definition dgrad_code (x y : list R) (c : nat) : R :=
  distance_grad_entry distance_grad_eps (sumsq x) (dot x y) (sumsq y) (nth c x 0) (nth c y 0).
(* the true partial derivative of the distance entry *)
Definition dgrad_true (x y : list R) (c : nat) : R := (nth c y 0 - nth c x 0) / dist_pts x y.

Definition base_kgrad (dg : list R -> list R -> nat -> R) (b : base) (ls : R) (x y : list R) (c : nat) : R :=
  match b with
  | BMatern32 => Matern32_kgrad ls (dist_code x y) (dg x y c)
  | BMatern52 => Matern52_kgrad ls (dist_code x y) (dg x y c)
  | BExpQuad => ExpQuad_kgrad ls (dist_code x y) (dg x y c)
  | BExponential => Exponential_kgrad ls (dist_code x y) (dg x y c)
  | BRatQuad a => RatQuad_kgrad a ls (dist_code x y) (dg x y c)
  | BLinear => Linear_kgrad ls (nth c x 0)
  end.

(* entry c of k_grad(x)(y) for one pair of points; [dg] is the distance-gradient entry used at the leaves *)
Fixpoint kgrad_gen (dg : list R -> list R -> nat -> R) (e : kexpr) (x y : list R) (c : nat) : R :=
  match e with
  | KBase b ls ad =>
    let x' := select_active_dims ad x in let y' := select_active_dims ad y in
    expand_to_inactive ad (length y) (fun j => base_kgrad dg b ls x' y' j) c
  | KAdd l r ad =>
    let x' := select_active_dims ad x in let y' := select_active_dims ad y in
    expand_to_inactive ad (length y)
      (fun j => Add_kgrad_kk (keval l x' y') (keval r x' y') (kgrad_gen dg l x' y' j) (kgrad_gen dg r x' y' j)) c
  | KAddC l k ad =>
    let x' := select_active_dims ad x in let y' := select_active_dims ad y in
    expand_to_inactive ad (length y) (fun j => Add_kgrad_kc k (kgrad_gen dg l x' y' j)) c
  | KMul l r ad =>
    let x' := select_active_dims ad x in let y' := select_active_dims ad y in
    expand_to_inactive ad (length y)
      (fun j => Mul_kgrad_kk (keval l x' y') (keval r x' y') (kgrad_gen dg l x' y' j) (kgrad_gen dg r x' y' j)) c
  | KMulC l k ad =>
    let x' := select_active_dims ad x in let y' := select_active_dims ad y in
    expand_to_inactive ad (length y) (fun j => Mul_kgrad_kc k (kgrad_gen dg l x' y' j)) c
  | KPow l p ad =>
    let x' := select_active_dims ad x in let y' := select_active_dims ad y in
    expand_to_inactive ad (length y) (fun j => Pow_kgrad p (keval l x' y') (kgrad_gen dg l x' y' j)) c
  end.

(* what the code returns *)
Definition kgrad := kgrad_gen dgrad_code.
(* the same composition with the exact distance derivative at the leaves *)
Definition kgrad_true := kgrad_gen dgrad_true.

(* well-formedness at a pair of points of width n: index lists in range without repetition,
   positive length scales / alpha, positive base under a power *)
Definition base_ok (b : base) (ls : R) : Prop :=
  0 < ls /\ match b with BRatQuad a => 0 < a | _ => True end.

Fixpoint wfk (e : kexpr) (x y : list R) : Prop :=
  match e with
  | KBase b ls ad => dims_ok ad (length y) /\ base_ok b ls
  | KAdd l r ad | KMul l r ad =>
    dims_ok ad (length y) /\ wfk l (sel ad x) (sel ad y) /\ wfk r (sel ad x) (sel ad y)
  | KAddC l _ ad | KMulC l _ ad => dims_ok ad (length y) /\ wfk l (sel ad x) (sel ad y)
  | KPow l p ad =>
    dims_ok ad (length y) /\ wfk l (sel ad x) (sel ad y) /\ 0 < keval l (sel ad x) (sel ad y)
  end.

(* the active_dims of the root node *)
Definition dims_of (e : kexpr) : dims :=
  match e with
  | KBase _ _ ad | KAdd _ _ ad | KAddC _ _ ad | KMul _ _ ad | KMulC _ _ ad | KPow _ _ ad => ad
  end.

(* the coordinates a kernel expression can depend on (relative to width n) *)
Definition agree_on (idx : list nat) (x x' : list R) : Prop :=
  forall i, In i idx -> nth i x 0 = nth i x' 0.
