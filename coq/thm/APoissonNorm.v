(* C03: the k-nearest-neighbour Poisson model of the dimensionality estimator is a normalised density for EVERY
   neighbour count k+1: exp(poisson_term) is the density of the (k+1)-th neighbour's log expected count, i.e.
   r |-> exp(poisson_term r) * dims / r integrates to one over (0, oo).
   Antiderivative: - exp(-u) * sum_{i<=k} u^i / i!  with u = exp(eta(r)). *)
From Coq Require Import Reals List Lra Lia.
From Coquelicot Require Import Coquelicot.
From MellonV Require Import ALists AInference AInferenceThm ANormThm.
Open Scope R_scope.

(* partial exponential sums *)
Fixpoint psum (k : nat) (u : R) : R :=
  match k with
  | O => 1
  | S k' => psum k' u + u ^ (S k') / INR (fact (S k'))
  end.

Lemma fact_pos k : 0 < INR (fact k).
Proof. apply lt_0_INR, lt_O_fact. Qed.

Lemma pow_div_derive n c u : is_derive (fun v => v ^ (S n) / c) u (INR (S n) * u ^ n / c).
Proof.
  auto_derive; [exact I|]. rewrite S_INR. replace (Nat.pred (S n)) with n by reflexivity.
  destruct n; simpl; unfold Rdiv; ring.
Qed.

Lemma psum_derive k u : is_derive (psum (S k)) u (psum k u).
Proof.
  induction k as [|k IH].
  - cbn [psum]. auto_derive; [exact I|]. cbn [fact INR]. simpl. field.
  - change (psum (S (S k))) with (fun v => psum (S k) v + v ^ (S (S k)) / INR (fact (S (S k)))).
    replace (psum (S k) u) with (psum k u + u ^ (S k) / INR (fact (S k))) by reflexivity.
    apply (is_derive_plus (psum (S k)) (fun v => v ^ (S (S k)) / INR (fact (S (S k))))); [exact IH|].
    replace (u ^ S k / INR (fact (S k))) with (INR (S (S k)) * u ^ (S k) / INR (fact (S (S k)))).
    + apply pow_div_derive.
    + pose proof (fact_pos (S k)) as Hp. pose proof (pos_INR (S k)) as Hs.
      change (fact (S (S k))) with ((S (S k)) * fact (S k))%nat. rewrite mult_INR.
      rewrite (S_INR (S k)). field. split; lra.
Qed.

Lemma psum0_derive u : is_derive (psum 0) u 0.
Proof. cbn [psum]. auto_derive; [exact I|reflexivity]. Qed.

(* H k u = - exp(-u) * psum k u,   H' = exp(-u) u^k / k! *)
Definition Hk (k : nat) (u : R) : R := - (exp (- u) * psum k u).

Lemma Hk_derive k u : is_derive (Hk k) u (exp (- u) * u ^ k / INR (fact k)).
Proof.
  unfold Hk. destruct k as [|k].
  - pose proof (psum0_derive u) as D.
    apply (is_derive_ext (fun v => - (exp (- v) * 1))); [intros; reflexivity|].
    auto_derive; [exact I|]. simpl. field.
  - pose proof (psum_derive k u) as D.
    assert (Dm : is_derive (fun v => exp (- v) * psum (S k) v) u (- exp (- u) * psum (S k) u + exp (- u) * psum k u)).
    { apply (is_derive_mult (fun v => exp (- v)) (psum (S k))); [|exact D|intros; apply Rmult_comm].
      auto_derive; [exact I|ring]. }
    apply (is_derive_opp _ _ _) in Dm.
    replace (exp (- u) * u ^ S k / INR (fact (S k))) with (opp (- exp (- u) * psum (S k) u + exp (- u) * psum k u)).
    + exact Dm.
    + change (- (- exp (- u) * (psum k u + u ^ S k / INR (fact (S k))) + exp (- u) * psum k u)
              = exp (- u) * u ^ S k / INR (fact (S k))).
      pose proof (fact_pos (S k)) as Hp. set (f := INR (fact (S k))) in *. set (w := u ^ S k). field. lra.
Qed.

(* exp(-u) u^i -> 0 *)
Lemma exp_INR_mult n x : exp (INR n * x) = exp x ^ n.
Proof.
  induction n as [|n IH]; [simpl; rewrite Rmult_0_l; apply exp_0|].
  rewrite S_INR, Rmult_plus_distr_r, Rmult_1_l, exp_plus, IH. simpl. ring.
Qed.

Lemma exp_ge_pow n u : 0 <= u -> (u / INR (S n)) ^ (S n) <= exp u.
Proof.
  intros Hu. pose proof (pos_INR n) as Hn.
  assert (HS : 0 < INR (S n)) by (rewrite S_INR; lra).
  replace (exp u) with (exp (u / INR (S n)) ^ (S n)).
  - apply pow_incr. split.
    + apply Rmult_le_pos; [exact Hu|left; now apply Rinv_0_lt_compat].
    + pose proof (exp_ineq1_le (u / INR (S n))). lra.
  - rewrite <- exp_INR_mult. f_equal. field. lra.
Qed.

Lemma expm_pow_bound i u : 0 < u -> 0 <= exp (- u) * u ^ i <= INR (S i) ^ (S i) * / u.
Proof.
  intros Hu. pose proof (exp_pos (- u)) as He. pose proof (pow_lt u i Hu) as Hp. split.
  - apply Rmult_le_pos; lra.
  - pose proof (exp_ge_pow i u (Rlt_le _ _ Hu)) as H.
    assert (HS : 0 < INR (S i)) by (pose proof (pos_INR i); rewrite S_INR; lra).
    unfold Rdiv in H. rewrite Rpow_mult_distr in H. rewrite pow_inv in H.
    pose proof (pow_lt _ (S i) HS) as HC.
    assert (H2 : u ^ S i <= INR (S i) ^ S i * exp u).
    { apply Rmult_le_reg_r with (/ INR (S i) ^ S i); [now apply Rinv_0_lt_compat|].
      replace (INR (S i) ^ S i * exp u * / INR (S i) ^ S i) with (exp u) by (field; lra). exact H. }
    rewrite exp_Ropp.
    apply Rmult_le_reg_r with (u * exp u); [apply Rmult_lt_0_compat; [exact Hu|apply exp_pos]|].
    pose proof (exp_pos u) as Heu.
    replace (/ exp u * u ^ i * (u * exp u)) with (u ^ S i) by (simpl; field; lra).
    replace (INR (S i) ^ S i * / u * (u * exp u)) with (INR (S i) ^ S i * exp u) by (field; lra).
    exact H2.
Qed.

Lemma lim_expm_pow i : filterlim (fun u => exp (- u) * u ^ i) (Rbar_locally p_infty) (locally 0).
Proof.
  apply (filterlim_le_le (F := Rbar_locally p_infty) (fun _ => 0) (fun u => exp (- u) * u ^ i)
           (fun u => INR (S i) ^ (S i) * / u) (Finite 0)).
  - exists 0. intros u Hu. apply expm_pow_bound. exact Hu.
  - apply filterlim_const.
  - replace (Finite 0) with (Rbar_mult (Finite (INR (S i) ^ S i)) (Rbar_inv p_infty)) by (simpl; f_equal; ring).
    apply (is_lim_scal_l (fun u => / u) (INR (S i) ^ S i) p_infty (Rbar_inv p_infty)).
    apply (is_lim_inv (fun u => u) p_infty p_infty); [apply is_lim_id|discriminate].
Qed.

(* T k u = exp(-u) psum k u -> 0 at +oo and -> 1 at 0 *)
Lemma lim_Hk_inf k : filterlim (Hk k) (Rbar_locally p_infty) (locally 0).
Proof.
  unfold Hk. induction k as [|k IH].
  - apply (filterlim_ext (fun u => - (exp (- u) * u ^ 0))); [intros u; simpl; ring|].
    apply (filterlim_comp _ _ _ (fun u => exp (- u) * u ^ 0) (fun t => - t) _ (locally 0)); [apply lim_expm_pow|].
    replace 0 with ((fun t => - t) 0) at 2 by (cbv beta; ring).
    apply (ex_derive_continuous (fun t => - t) 0). auto_derive. exact I.
  - apply (filterlim_ext (fun u => (- (exp (- u) * psum k u)) + (- / INR (fact (S k))) * (exp (- u) * u ^ S k))).
    + intros u.
      change (- (exp (- u) * psum k u) + (- / INR (fact (S k))) * (exp (- u) * u ^ S k)
              = - (exp (- u) * (psum k u + u ^ S k / INR (fact (S k))))).
      pose proof (fact_pos (S k)) as Hp. set (f := INR (fact (S k))) in *. set (w := u ^ S k). field. lra.
    + apply (is_lim_plus (fun u => - (exp (- u) * psum k u)) (fun u => (- / INR (fact (S k))) * (exp (- u) * u ^ S k))
               p_infty 0 (Rbar_mult (- / INR (fact (S k))) 0) 0).
      * exact IH.
      * apply (is_lim_scal_l (fun u => exp (- u) * u ^ S k) (- / INR (fact (S k))) p_infty 0). apply lim_expm_pow.
      * unfold is_Rbar_plus. simpl. f_equal. f_equal. ring.
Qed.

Lemma Hk_continuous k u : continuous (Hk k) u.
Proof. apply (ex_derive_continuous (Hk k) u). eexists. apply Hk_derive. Qed.

Lemma Hk_0 k : Hk k 0 = - 1.
Proof.
  unfold Hk. rewrite Ropp_0, exp_0. induction k as [|k IH]; [simpl; ring|].
  cbn [psum]. rewrite pow_i by lia. unfold Rdiv. rewrite Rmult_0_l, Rplus_0_r. exact IH.
Qed.

Section PoissonNorm.
Variable lgam : R -> R.
Variables (k : nat) (dims ld : R).
Hypothesis Hdims : 0 < dims.
Hypothesis Hlgam : lgam (INR (S k)) = ln (INR (fact k)).

Definition uu (r : R) : R := exp (poisson_eta lgam r dims ld).
Definition GG (r : R) : R := Hk k (uu r).
Definition pdens (r : R) : R := exp (poisson_term lgam r (INR (S k)) dims ld) * (dims / r).

Let A : R := ld + dims * (ln PI / 2) - lgam (dims / 2 + 1).

Lemma uu_eq r : uu r = exp A * exp (dims * ln r).
Proof. unfold uu, poisson_eta, A. rewrite <- exp_plus. f_equal. ring. Qed.

Lemma uu_derive r : 0 < r -> is_derive uu r (uu r * (dims / r)).
Proof.
  intros Hr. unfold uu, poisson_eta. auto_derive; [exact Hr|]. unfold Rminus, Rdiv. ring.
Qed.

Lemma pdens_eq r : pdens r = exp (- uu r) * uu r ^ k / INR (fact k) * (uu r * (dims / r)).
Proof.
  unfold pdens. rewrite poisson_term_documented, Hlgam. fold (uu r).
  unfold Rminus. rewrite !exp_plus, !exp_Ropp, exp_ln by apply fact_pos.
  rewrite exp_INR_mult. fold (uu r). rewrite <- tech_pow_Rmult. unfold Rdiv. ring.
Qed.

Lemma GG_derive r : 0 < r -> is_derive GG r (pdens r).
Proof.
  intros Hr. rewrite pdens_eq. unfold GG.
  replace (exp (- uu r) * uu r ^ k / INR (fact k) * (uu r * (dims / r)))
    with (scal (uu r * (dims / r)) (exp (- uu r) * uu r ^ k / INR (fact k)))
    by (unfold scal; simpl; unfold mult; simpl; ring).
  apply (is_derive_comp (Hk k) uu r); [apply Hk_derive|apply uu_derive; exact Hr].
Qed.

Lemma uu_at_0 : filterlim uu (at_right 0) (locally 0).
Proof.
  apply (filterlim_ext (fun r => exp A * exp (dims * ln r))); [intros; symmetry; apply uu_eq|].
  apply (filterlim_comp _ _ _ (fun r => exp (dims * ln r)) (fun v => exp A * v) _ (locally 0)).
  - exact (rpow_at_0 dims Hdims).
  - replace 0 with ((fun v => exp A * v) 0) at 2 by (cbv beta; ring).
    apply (ex_derive_continuous (fun v => exp A * v) 0). auto_derive. exact I.
Qed.

Lemma uu_at_infty : filterlim uu (Rbar_locally p_infty) (Rbar_locally p_infty).
Proof.
  apply (filterlim_ext (fun r => exp A * exp (dims * ln r))); [intros; symmetry; apply uu_eq|].
  apply (filterlim_comp _ _ _ (fun r => exp (dims * ln r)) (fun v => exp A * v) _ (Rbar_locally p_infty)).
  - exact (rpow_at_infty dims Hdims).
  - apply scale_to_pinfty. apply exp_pos.
Qed.

Lemma lim_GG_0 : filterlim GG (at_right 0) (locally (- 1)).
Proof.
  unfold GG. apply (filterlim_comp _ _ _ uu (Hk k) _ (locally 0)); [exact uu_at_0|].
  rewrite <- (Hk_0 k). apply Hk_continuous.
Qed.

Lemma lim_GG_inf : filterlim GG (Rbar_locally p_infty) (locally 0).
Proof.
  unfold GG. apply (filterlim_comp _ _ _ uu (Hk k) _ (Rbar_locally p_infty)); [exact uu_at_infty|apply lim_Hk_inf].
Qed.

Theorem poisson_density_normalised :
  is_RInt_gen pdens (at_right 0) (Rbar_locally p_infty) 1.
Proof.
  apply (is_RInt_gen_ext (Derive GG)).
  - exists (fun a => 0 < a) (fun b => 0 < b); [exact pos_at_right|exact pos_at_infty|].
    intros a b Ha Hb x Hx. simpl in Hx. apply is_derive_unique, GG_derive.
    destruct Hx as [Hx _]. unfold Rmin in Hx. destruct (Rle_dec a b); lra.
  - replace 1 with (0 - (- 1)) by ring.
    apply (is_RInt_gen_Derive GG (- 1) 0).
    + exists (fun a => 0 < a) (fun b => 0 < b); [exact pos_at_right|exact pos_at_infty|].
      intros a b Ha Hb x Hx. simpl in Hx. exists (pdens x). apply GG_derive.
      destruct Hx as [Hx _]. unfold Rmin in Hx. destruct (Rle_dec a b); lra.
    + exists (fun a => 0 < a) (fun b => 0 < b); [exact pos_at_right|exact pos_at_infty|].
      intros a b Ha Hb x Hx. simpl in Hx.
      assert (Hxp : 0 < x) by (destruct Hx as [Hx _]; unfold Rmin in Hx; destruct (Rle_dec a b); lra).
      apply (continuous_ext_loc _ (fun r => exp (- uu r) * uu r ^ k / INR (fact k) * (uu r * (dims / r)))).
      * exists (mkposreal x Hxp). intros y Hy. rewrite <- pdens_eq. symmetry. apply is_derive_unique, GG_derive.
        unfold ball in Hy. simpl in Hy. unfold AbsRing_ball, abs, minus, plus, opp in Hy. simpl in Hy.
        apply Rabs_def2 in Hy. lra.
      * apply (ex_derive_continuous (fun r => exp (- uu r) * uu r ^ k / INR (fact k) * (uu r * (dims / r))) x).
        unfold uu, poisson_eta. auto_derive. repeat split; try exact Hxp; try lra.
    + exact lim_GG_0.
    + exact lim_GG_inf.
Qed.

End PoissonNorm.
