(* Tactics and facts used by the generated C03 correspondence goals *)
From Coq Require Import Reals List ZArith Lra Lia.
From Interval Require Import Tactic.
From MellonV Require Import ALists AListsFacts AInference AInferenceThm.
Import ListNotations.
Open Scope R_scope.

Ltac ireduce :=
  cbv -[Rplus Rminus Rmult Rdiv Ropp Rinv sqrt exp ln Rmax Rmin Rabs Rpower pow powerRZ IZR PI Rle Rlt Rge Rgt].

(* abstract every application of the uninterpreted lgam (bounded by a hypothesis) into a variable *)
Ltac abstract_lgam f :=
  repeat match goal with
  | |- context [f ?a] => let g := fresh "g" in set (g := f a) in *; clearbody g
  end.

Ltac icase f := ireduce; abstract_lgam f; interval with (i_prec 80).

(* position of the quantile given by the harness, checked here *)
Lemma quantile_sorted_at s q lo : INR lo <= q * INR (length s - 1) < INR lo + 1 ->
  quantile_sorted s q = interp_at s (q * INR (length s - 1)) lo.
Proof.
  intros H. unfold quantile_sorted. f_equal.
  assert (Hh : 0 <= q * INR (length s - 1)) by (pose proof (pos_INR lo); lra).
  pose proof (floor_pos_nat _ Hh) as Hf.
  set (lo' := Z.to_nat (Int_part (q * INR (length s - 1)))) in *.
  apply INR_eq.
  destruct (Nat.lt_trichotomy lo' lo) as [L|[E|L]]; [|now rewrite E|].
  - apply lt_INR in L. assert (INR lo' + 1 <= INR lo).
    { rewrite <- S_INR. apply le_INR. apply INR_lt in L. lia. } lra.
  - apply lt_INR in L. assert (INR lo + 1 <= INR lo').
    { rewrite <- S_INR. apply le_INR. apply INR_lt in L. lia. } lra.
Qed.
