(* C03 / C08 / C17: the inference objective of the density estimators,
     loss z = - (log N(z; 0, I) + sum_i nn_term r_i d_i ((L z + mu)_i)),
   is STRICTLY CONVEX on R^k, so it has at most one minimiser.  [loss], [transform], [nn_term], [normal_logpdf] are
   the definitions regenerated from mellon/inference.py (gen/AInference.v). *)
From Coq Require Import Reals List Lra Lia.
From MellonV Require Import ALists AInference.
Import ListNotations.
Open Scope R_scope.

Definition lincomb (t : R) (z w : list R) : list R := map2 (fun a b => t * a + (1 - t) * b) z w.

Lemma lincomb_length t z w : length z = length w -> length (lincomb t z w) = length z.
Proof.
  revert w; induction z as [|a z IH]; intros [|b w] H; simpl in *; try discriminate; [reflexivity|].
  f_equal. apply IH. lia.
Qed.

(* ---- exp is convex (tangent-line argument) *)
Lemma exp_convex_A u v t : 0 <= t <= 1 -> exp (t * u + (1 - t) * v) <= t * exp u + (1 - t) * exp v.
Proof.
  intros Ht. set (m := t * u + (1 - t) * v).
  assert (Tan : forall w, exp m * (1 + (w - m)) <= exp w).
  { intros w. replace (exp w) with (exp m * exp (w - m)) by (rewrite <- exp_plus; f_equal; ring).
    apply Rmult_le_compat_l; [apply Rlt_le, exp_pos|apply exp_ineq1_le]. }
  pose proof (Tan u) as Hu. pose proof (Tan v) as Hv.
  assert (H : t * (exp m * (1 + (u - m))) + (1 - t) * (exp m * (1 + (v - m))) <= t * exp u + (1 - t) * exp v).
  { apply Rplus_le_compat; apply Rmult_le_compat_l; lra. }
  replace (t * (exp m * (1 + (u - m))) + (1 - t) * (exp m * (1 + (v - m)))) with (exp m) in H; [exact H|].
  unfold m. ring.
Qed.

(* ---- the quadratic prior is strictly convex *)
Lemma sq_convex a b t : 0 <= t <= 1 -> (t * a + (1 - t) * b) ^ 2 <= t * a ^ 2 + (1 - t) * b ^ 2.
Proof.
  intros Ht. assert (0 <= t * (1 - t) * (a - b) ^ 2).
  { apply Rmult_le_pos; [apply Rmult_le_pos; lra|apply pow2_ge_0]. }
  nra.
Qed.

Lemma sq_strictly_convex a b t : a <> b -> 0 < t < 1 -> (t * a + (1 - t) * b) ^ 2 < t * a ^ 2 + (1 - t) * b ^ 2.
Proof.
  intros Hab Ht.
  assert (0 < (a - b) ^ 2).
  { assert (Hd : a - b <> 0) by lra. pose proof (Rsqr_pos_lt (a - b) Hd) as Hp. unfold Rsqr in Hp. simpl. lra. }
  assert (0 < t * (1 - t)) by (apply Rmult_lt_0_compat; lra).
  assert (0 < t * (1 - t) * (a - b) ^ 2) by (apply Rmult_lt_0_compat; assumption).
  nra.
Qed.

Definition sumsq_l (z : list R) : R := sum_list (map (fun v => v ^ 2) z).

Lemma sumsq_cons a z : sumsq_l (a :: z) = a ^ 2 + sumsq_l z.
Proof. reflexivity. Qed.

Lemma lincomb_cons t a z b w : lincomb t (a :: z) (b :: w) = (t * a + (1 - t) * b) :: lincomb t z w.
Proof. reflexivity. Qed.

Lemma sumsq_convex t z w : 0 <= t <= 1 -> length z = length w ->
  sumsq_l (lincomb t z w) <= t * sumsq_l z + (1 - t) * sumsq_l w.
Proof.
  intros Ht. revert w; induction z as [|a z IH]; intros [|b w] H; cbn [length] in H; try discriminate.
  - unfold sumsq_l; cbn. lra.
  - assert (Hl : length z = length w) by lia. rewrite lincomb_cons, !sumsq_cons.
    pose proof (IH w Hl) as IH'. pose proof (sq_convex a b t Ht) as Hs. lra.
Qed.

Lemma sumsq_strictly_convex t z w : 0 < t < 1 -> length z = length w -> z <> w ->
  sumsq_l (lincomb t z w) < t * sumsq_l z + (1 - t) * sumsq_l w.
Proof.
  intros Ht. assert (Ht' : 0 <= t <= 1) by lra.
  revert w; induction z as [|a z IH]; intros [|b w] H Hne; cbn [length] in H; try discriminate.
  - exfalso. now apply Hne.
  - assert (Hl : length z = length w) by lia. rewrite lincomb_cons, !sumsq_cons.
    destruct (Req_dec a b) as [E|E].
    + subst b. assert (Hzw : z <> w) by (intros E; apply Hne; now rewrite E).
      pose proof (IH w Hl Hzw) as IH'. replace (t * a + (1 - t) * a) with a by ring. lra.
    + pose proof (sq_strictly_convex a b t E Ht) as Hs.
      pose proof (sumsq_convex t z w Ht' Hl) as Hc. lra.
Qed.

Lemma sqdist_cons a z b w : sqdist (a :: z) (b :: w) = (a - b) ^ 2 + sqdist z w.
Proof. reflexivity. Qed.

Lemma sumsq_lincomb_eq t z w : length z = length w ->
  sumsq_l (lincomb t z w) = t * sumsq_l z + (1 - t) * sumsq_l w - t * (1 - t) * sqdist z w.
Proof.
  revert w; induction z as [|a z IH]; intros [|b w] H; cbn [length] in H; try discriminate.
  - unfold sumsq_l, sqdist; cbn. ring.
  - assert (Hl : length z = length w) by lia. rewrite lincomb_cons, !sumsq_cons, sqdist_cons, (IH w Hl). ring.
Qed.

(* ---- the transform z |-> L z + mu is affine *)
Lemma dot_lincomb row t z w : length z = length w ->
  dot row (lincomb t z w) = t * dot row z + (1 - t) * dot row w.
Proof.
  unfold dot. revert z w; induction row as [|c row IH]; intros z w H; [simpl; ring|].
  destruct z as [|a z], w as [|b w]; simpl in *; try discriminate; [ring|].
  assert (Hl : length z = length w) by lia. pose proof (IH z w Hl) as IH'. unfold lincomb in IH'. rewrite IH'. ring.
Qed.

Lemma transform_lincomb mu L t z w : length z = length w ->
  transform mu L (lincomb t z w) = lincomb t (transform mu L z) (transform mu L w).
Proof.
  intros H. unfold transform. induction L as [|row L IH]; [reflexivity|].
  cbn [map]. rewrite lincomb_cons, IH. f_equal. unfold transform_row. rewrite (dot_lincomb row t z w H). ring.
Qed.

Lemma transform_length mu L z : length (transform mu L z) = length L.
Proof. unfold transform. apply map_length. Qed.

(* ---- the log-likelihood is concave in the log-densities *)
Section Lik.
Variable lgam : R -> R.

Lemma nn_term_concave r d t f g : 0 <= t <= 1 ->
  t * nn_term lgam r d f + (1 - t) * nn_term lgam r d g <= nn_term lgam r d (t * f + (1 - t) * g).
Proof.
  intros Ht. unfold nn_term.
  set (A := ln d + (d - 1) * ln r + (d * ln PI / 2 - lgam (d / 2 + 1))).
  set (B := ln r * d + (d * ln PI / 2 - lgam (d / 2 + 1))).
  pose proof (exp_convex_A (f + B) (g + B) t Ht) as H.
  replace (t * (f + B) + (1 - t) * (g + B)) with (t * f + (1 - t) * g + B) in H by ring.
  lra.
Qed.

Lemma nn_loglik_concave r d t f g : 0 <= t <= 1 -> length f = length g ->
  t * nn_loglik lgam r d f + (1 - t) * nn_loglik lgam r d g <= nn_loglik lgam r d (lincomb t f g).
Proof.
  intros Ht. unfold nn_loglik. revert d f g; induction r as [|r0 r IH]; intros d f g H; [simpl; lra|].
  destruct d as [|d0 d]; [simpl; lra|].
  destruct f as [|f0 f], g as [|g0 g]; simpl in *; try discriminate; [lra|].
  assert (Hl : length f = length g) by lia.
  pose proof (IH d f g Hl) as IH'. unfold lincomb in IH'.
  pose proof (nn_term_concave r0 d0 t f0 g0 Ht). lra.
Qed.

(* ---- the loss *)
Theorem loss_strictly_convex k r d mu L z w t : length z = length w -> z <> w -> 0 < t < 1 ->
  loss lgam k r d (transform mu L) (lincomb t z w)
  < t * loss lgam k r d (transform mu L) z + (1 - t) * loss lgam k r d (transform mu L) w.
Proof.
  intros Hl Hne Ht. assert (Ht' : 0 <= t <= 1) by lra.
  unfold loss, normal_logpdf.
  pose proof (sumsq_strictly_convex t z w Ht Hl Hne) as Hq. unfold sumsq_l in Hq.
  rewrite (transform_lincomb mu L t z w Hl).
  assert (Hlt : length (transform mu L z) = length (transform mu L w)) by now rewrite !transform_length.
  pose proof (nn_loglik_concave r d t _ _ Ht' Hlt) as Hc.
  lra.
Qed.

(* 1-strong convexity: the prior contributes exactly t(1-t)|z-w|^2/2 *)
Theorem loss_strongly_convex k r d mu L z w t : length z = length w -> 0 <= t <= 1 ->
  loss lgam k r d (transform mu L) (lincomb t z w)
  <= t * loss lgam k r d (transform mu L) z + (1 - t) * loss lgam k r d (transform mu L) w
     - (1 / 2) * t * (1 - t) * sqdist z w.
Proof.
  intros Hl Ht. unfold loss, normal_logpdf.
  pose proof (sumsq_lincomb_eq t z w Hl) as Hq. unfold sumsq_l in Hq. rewrite Hq.
  rewrite (transform_lincomb mu L t z w Hl).
  assert (Hlt : length (transform mu L z) = length (transform mu L w)) by now rewrite !transform_length.
  pose proof (nn_loglik_concave r d t _ _ Ht Hlt) as Hc.
  lra.
Qed.

(* at most one minimiser among the latent vectors of a given length *)
Definition is_minimiser (f : list R -> R) (n : nat) (z : list R) : Prop :=
  length z = n /\ forall v, length v = n -> f z <= f v.

Theorem loss_minimiser_unique k r d mu L n z w :
  is_minimiser (loss lgam k r d (transform mu L)) n z ->
  is_minimiser (loss lgam k r d (transform mu L)) n w -> z = w.
Proof.
  intros [Lz Mz] [Lw Mw].
  destruct (list_eq_dec Req_EM_T z w) as [E|Hne]; [exact E|exfalso].
  assert (Hl : length z = length w) by lia.
  assert (Ht : 0 < 1 / 2 < 1) by lra.
  pose proof (loss_strictly_convex k r d mu L z w (1 / 2) Hl Hne Ht) as H.
  assert (Hm : length (lincomb (1 / 2) z w) = n) by (rewrite lincomb_length; assumption).
  pose proof (Mz _ Hm). pose proof (Mw _ Hm). pose proof (Mz w Lw). pose proof (Mw z Lz). lra.
Qed.

(* quadratic growth around the minimiser: a point whose loss is within eps of the minimum lies within sqrt(2 eps) of it *)
Theorem loss_quadratic_growth k r d mu L n z w :
  is_minimiser (loss lgam k r d (transform mu L)) n z -> length w = n ->
  loss lgam k r d (transform mu L) z + (1 / 2) * sqdist z w <= loss lgam k r d (transform mu L) w.
Proof.
  intros [Lz Mz] Lw. assert (Hl : length z = length w) by lia.
  set (f := loss lgam k r d (transform mu L)) in *.
  assert (HD : 0 <= sqdist z w).
  { clear. unfold sqdist. revert w; induction z as [|a z IH]; intros [|b w]; cbn [map2 sum_list]; try lra.
    pose proof (IH w). pose proof (pow2_ge_0 (a - b)). lra. }
  destruct (Rle_lt_dec (f z + 1 / 2 * sqdist z w) (f w)) as [Hok|Hbad]; [exact Hok|exfalso].
  set (D := sqdist z w) in *. set (X := f w - f z).
  assert (HX : 0 <= X) by (unfold X; pose proof (Mz w Lw); lra).
  assert (HDpos : 0 < D) by (unfold X in *; lra).
  (* choose t in (0,1) with X < t D / 2 *)
  set (t := (2 * X / D + 1) / 2).
  assert (Hq : 2 * X / D < 1).
  { apply Rmult_lt_reg_r with D; [exact HDpos|]. unfold Rdiv. rewrite Rmult_assoc, Rinv_l by lra. unfold X. lra. }
  assert (Hq0 : 0 <= 2 * X / D) by (apply Rmult_le_pos; [lra|left; now apply Rinv_0_lt_compat]).
  assert (Ht : 0 < t < 1) by (unfold t; lra).
  assert (HtD : X < t * D / 2).
  { unfold t. replace ((2 * X / D + 1) / 2 * D / 2) with (X / 2 + D / 4) by (field; lra).
    unfold X. lra. }
  assert (Ht' : 0 <= t <= 1) by lra.
  pose proof (loss_strongly_convex k r d mu L z w t Hl Ht') as Hs. fold f in Hs. fold D in Hs.
  assert (Hm : length (lincomb t z w) = n) by (rewrite lincomb_length; assumption).
  pose proof (Mz _ Hm) as Hmin.
  (* f z <= t f z + (1-t) f w - t(1-t) D / 2  ==>  (1-t) (t D / 2 - X) <= 0 *)
  assert (Hk : (1 - t) * (t * D / 2 - X) <= 0) by (unfold X; nra).
  assert (0 < (1 - t) * (t * D / 2 - X)) by (apply Rmult_lt_0_compat; lra).
  lra.
Qed.
End Lik.
