(* C14: theorems about the per-time-point neighbour-distance model. *)
From Coq Require Import ZArith QArith List Bool String Lia.
From MellonV Require Import PyVal PyValExtC14 C14Gen C14Model.
Import ListNotations.
Open Scope Z_scope.

(* ---------- structural tables: the loop of the source is the loop of the model ---------- *)
Lemma skeleton_ok :
  nnwt_skeleton = expected_nnwt_skeleton
  /\ compute_nn_distances_skeleton = expected_compute_nn_distances_skeleton
  /\ n_obs_wiring = expected_n_obs_wiring.
Proof. repeat split; vm_compute; reflexivity. Qed.
