(* C14: theorems about the per-time-point neighbour-distance model. *)
From Coq Require Import ZArith QArith List Bool Lia Sorting.Sorted.
From MellonV Require Import PyVal PyValFacts PyValExtC14 C14Gen C14Model.
Import ListNotations.
Open Scope Z_scope.

(* ---------- structural tables: the loop of the source is the loop of the model ---------- *)
Lemma skeleton_ok :
  nnwt_skeleton = expected_nnwt_skeleton
  /\ compute_nn_distances_skeleton = expected_compute_nn_distances_skeleton
  /\ n_obs_wiring = expected_n_obs_wiring.
Proof. repeat split; vm_compute; reflexivity. Qed.

(* ---------- select / scatter / rank ---------- *)
Lemma select_length {A} (m : list bool) (l : list A) :
  length m = length l -> length (select m l) = count_true m.
Proof.
  revert l; induction m as [|b m IH]; intros [|a l] H; simpl in *; try discriminate; [reflexivity|].
  injection H as H. unfold count_true in *. destruct b; simpl; rewrite IH by assumption; reflexivity.
Qed.

Lemma scatter_length {A} (m : list bool) (v acc : list A) : length (scatter m v acc) = length acc.
Proof.
  revert v acc; induction m as [|b m IH]; intros v [|a acc]; simpl; try reflexivity.
  destruct b; [destruct v|]; simpl; rewrite IH; reflexivity.
Qed.

Lemma rank_le_count (m : list bool) i : (rank m i <= count_true m)%nat.
Proof.
  revert i; induction m as [|b m IH]; intros [|i]; simpl; try lia.
  unfold count_true in *. specialize (IH i). destruct b; simpl; lia.
Qed.

Lemma rank_lt_count (m : list bool) i :
  nth i m false = true -> (rank m i < count_true m)%nat.
Proof.
  revert i; induction m as [|b m IH]; intros [|i] H; simpl in *; try discriminate.
  - subst b. unfold count_true; simpl; lia.
  - specialize (IH i H). unfold count_true in *. destruct b; simpl; lia.
Qed.

Lemma scatter_nth {A} (m : list bool) (v acc : list A) i d :
  length m = length acc -> length v = count_true m -> (i < length acc)%nat ->
  nth i (scatter m v acc) d = if nth i m false then nth (rank m i) v d else nth i acc d.
Proof.
  revert v acc i; induction m as [|b m IH]; intros v [|a acc] i Hm Hv Hi; simpl in *; try discriminate; try lia.
  injection Hm as Hm. unfold count_true in Hv. destruct b; simpl in Hv.
  - destruct v as [|x v]; [discriminate|]. injection Hv as Hv.
    destruct i as [|i]; simpl; [reflexivity|]. apply IH; [assumption|exact Hv|lia].
  - destruct i as [|i]; simpl; [reflexivity|]. apply IH; [assumption|exact Hv|lia].
Qed.

Lemma select_nth_rank {A} (m : list bool) (l : list A) i d :
  length m = length l -> nth i m false = true -> nth (rank m i) (select m l) d = nth i l d.
Proof.
  revert l i; induction m as [|b m IH]; intros [|a l] i Hm Hi; simpl in *; try discriminate.
  - destruct i; discriminate.
  - injection Hm as Hm. destruct i as [|i]; simpl in *.
    + subst b. reflexivity.
    + destruct b; simpl; apply IH; assumption.
Qed.

Lemma rank_inj (m : list bool) i j :
  nth i m false = true -> nth j m false = true -> rank m i = rank m j -> i = j.
Proof.
  revert i j; induction m as [|b m IH]; intros [|i] [|j] Hi Hj H; simpl in *; try discriminate; try reflexivity.
  - subst b. lia.
  - subst b. lia.
  - f_equal. apply IH; try assumption. destruct b; lia.
Qed.

Lemma rank_surj (m : list bool) k :
  (k < count_true m)%nat -> exists j, (j < length m)%nat /\ nth j m false = true /\ rank m j = k.
Proof.
  revert k; induction m as [|b m IH]; intros k H; unfold count_true in *; simpl in *; [lia|].
  destruct b; simpl in *.
  - destruct k as [|k].
    + exists 0%nat. repeat split; lia.
    + destruct (IH k) as [j [H1 [H2 H3]]]; [lia|]. exists (S j). simpl. repeat split; try lia; assumption.
  - destruct (IH k H) as [j [H1 [H2 H3]]]. exists (S j). simpl. repeat split; try lia; assumption.
Qed.

(* ---------- equality / order on float values ---------- *)
Lemma Qeqb_refl q : Qeq_bool q q = true.
Proof. apply Qeq_bool_iff. reflexivity. Qed.

Lemma xf_eqb_refl a : xf_isnan a = false -> xf_eqb a a = true.
Proof. destruct a; simpl; intros H; try reflexivity; [apply Qeqb_refl|discriminate]. Qed.

Lemma xf_eqb_sym a b : xf_eqb a b = xf_eqb b a.
Proof.
  destruct a, b; simpl; try reflexivity.
  destruct (Qeq_bool q q0) eqn:E, (Qeq_bool q0 q) eqn:F; try reflexivity.
  - apply Qeq_bool_iff in E. symmetry in E. apply Qeq_bool_iff in E. congruence.
  - apply Qeq_bool_iff in F. symmetry in F. apply Qeq_bool_iff in F. congruence.
Qed.

Lemma xf_eqb_trans a b c : xf_eqb a b = true -> xf_eqb b c = true -> xf_eqb a c = true.
Proof.
  destruct a, b, c; simpl; try discriminate; try reflexivity.
  intros H1 H2. apply Qeq_bool_iff in H1, H2. apply Qeq_bool_iff. now rewrite H1.
Qed.

(* two values equal to a common third one are equal *)
Lemma xf_eqb_eucl a b c : xf_eqb a b = true -> xf_eqb a c = true -> xf_eqb b c = true.
Proof. intros H1 H2. rewrite xf_eqb_sym in H1. eapply xf_eqb_trans; eassumption. Qed.

Lemma Qltb_lt p q : Qltb p q = true <-> (p < q)%Q.
Proof.
  unfold Qltb. split; intros H.
  - apply Qnot_le_lt. intros C. apply Qle_bool_iff in C. rewrite C in H. discriminate.
  - destruct (Qle_bool q p) eqn:E; [|reflexivity]. apply Qle_bool_iff in E. exfalso. exact (Qlt_not_le _ _ H E).
Qed.

Lemma xf_ltb_trans a b c : xf_ltb a b = true -> xf_ltb b c = true -> xf_ltb a c = true.
Proof.
  destruct a, b, c; simpl; try discriminate; try reflexivity.
  intros H1 H2. apply Qltb_lt in H1, H2. apply Qltb_lt. eapply Qlt_trans; eassumption.
Qed.

Lemma xf_ltb_neq a b : xf_ltb a b = true -> xf_eqb a b = false.
Proof.
  destruct a, b; simpl; try discriminate; try reflexivity.
  intros H. apply Qltb_lt in H. destruct (Qeq_bool q q0) eqn:E; [|reflexivity].
  apply Qeq_bool_iff in E. rewrite E in H. exfalso. exact (Qlt_irrefl _ H).
Qed.

Lemma xf_trichotomy a b :
  xf_isnan a = false -> xf_isnan b = false -> xf_ltb a b = false -> xf_eqb a b = false -> xf_ltb b a = true.
Proof.
  destruct a, b; simpl; try discriminate; try reflexivity.
  intros _ _ H1 H2. apply Qltb_lt.
  destruct (Q_dec q q0) as [[H|H]|H].
  - apply Qltb_lt in H. congruence.
  - exact H.
  - apply Qeq_bool_iff in H. congruence.
Qed.

(* ---------- jnp.unique: strictly ascending, hence pairwise distinct, and covering ---------- *)
Definition lt_rel (a b : xf) : Prop := xf_ltb a b = true.

Lemma insert_dedup_in x l y : In y (insert_dedup x l) -> y = x \/ In y l.
Proof.
  induction l as [|h t IH]; simpl.
  - intros [H|[]]. left. symmetry. exact H.
  - destruct (xf_ltb x h).
    + intros [H|H]; [left; symmetry; exact H|right; exact H].
    + destruct (xf_eqb x h); [intros H; right; exact H|].
      intros [H|H]; [right; left; exact H|]. destruct (IH H) as [H1|H1]; [left; exact H1|right; right; exact H1].
Qed.

Lemma insert_dedup_nonan x l :
  xf_isnan x = false -> Forall (fun y => xf_isnan y = false) l -> Forall (fun y => xf_isnan y = false) (insert_dedup x l).
Proof.
  intros Hx Hl. apply Forall_forall. intros y Hy. apply insert_dedup_in in Hy. destruct Hy as [->|Hy]; [assumption|].
  rewrite Forall_forall in Hl. auto.
Qed.

Lemma insert_dedup_sorted x l :
  xf_isnan x = false -> Forall (fun y => xf_isnan y = false) l ->
  StronglySorted lt_rel l -> StronglySorted lt_rel (insert_dedup x l).
Proof.
  intros Hx Hn Hs. induction Hs as [|h t Hs IH Hh]; simpl.
  - constructor; constructor.
  - inversion Hn as [|? ? Hhn Htn]; subst.
    destruct (xf_ltb x h) eqn:E1.
    + constructor; [constructor; assumption|]. constructor; [exact E1|].
      eapply Forall_impl; [|exact Hh]. intros y Hy. eapply xf_ltb_trans; eassumption.
    + destruct (xf_eqb x h) eqn:E2; [constructor; assumption|].
      constructor; [apply IH; assumption|].
      apply Forall_forall. intros y Hy. apply insert_dedup_in in Hy. destruct Hy as [->|Hy].
      * apply xf_trichotomy; assumption.
      * rewrite Forall_forall in Hh. auto.
Qed.

Lemma insert_dedup_cover x l : xf_isnan x = false -> exists u, In u (insert_dedup x l) /\ xf_eqb x u = true.
Proof.
  intros Hx. induction l as [|h t IH]; simpl.
  - exists x. split; [left; reflexivity|apply xf_eqb_refl; assumption].
  - destruct (xf_ltb x h); [exists x; split; [left; reflexivity|apply xf_eqb_refl; assumption]|].
    destruct (xf_eqb x h) eqn:E; [exists h; split; [left; reflexivity|assumption]|].
    destruct IH as [u [H1 H2]]. exists u. split; [right; assumption|assumption].
Qed.


Definition nonan_part (l : list xf) : list xf := fold_right insert_dedup [] (filter (fun x => negb (xf_isnan x)) l).

Lemma nonan_part_props (l : list xf) :
  Forall (fun y => xf_isnan y = false) (nonan_part l) /\ StronglySorted lt_rel (nonan_part l).
Proof.
  unfold nonan_part. induction l as [|a l [IH1 IH2]]; simpl; [split; constructor|].
  destruct (xf_isnan a) eqn:E; simpl; [split; assumption|].
  split; [apply insert_dedup_nonan|apply insert_dedup_sorted]; assumption.
Qed.

Lemma insert_dedup_mono x l y : In y l -> xf_isnan y = false -> exists u, In u (insert_dedup x l) /\ xf_eqb y u = true.
Proof.
  intros Hy Hn. induction l as [|h t IH]; simpl; [destruct Hy|].
  destruct (xf_ltb x h); [exists y; split; [right; assumption|apply xf_eqb_refl; assumption]|].
  destruct (xf_eqb x h) eqn:E; [exists y; split; [assumption|apply xf_eqb_refl; assumption]|].
  destruct Hy as [->|Hy].
  - exists y. split; [left; reflexivity|apply xf_eqb_refl; assumption].
  - destruct (IH Hy) as [u [H1 H2]]. exists u. split; [right; assumption|assumption].
Qed.

Lemma nonan_part_cover (l : list xf) x : In x l -> xf_isnan x = false -> exists u, In u (nonan_part l) /\ xf_eqb x u = true.
Proof.
  unfold nonan_part. induction l as [|a l IH]; simpl; [tauto|].
  intros [->|Hx] Hn.
  - rewrite Hn. simpl. apply insert_dedup_cover. assumption.
  - destruct (IH Hx Hn) as [u [H1 H2]].
    destruct (xf_isnan a) eqn:E; simpl; [exists u; tauto|].
    destruct (insert_dedup_mono a _ u H1) as [w [H3 H4]].
    { destruct u; try reflexivity. destruct x; discriminate. }
    exists w. split; [assumption|]. eapply xf_eqb_trans; eassumption.
Qed.

Lemma sort_dedup_split l : sort_dedup l = nonan_part l ++ (if existsb xf_isnan l then [XNaN] else []).
Proof. reflexivity. Qed.

(* pairwise distinctness in the sense the loop needs *)
Definition distinct (uts : list xf) : Prop :=
  forall i j, (i < length uts)%nat -> (j < length uts)%nat -> i <> j -> xf_eqb (nth i uts XNaN) (nth j uts XNaN) = false.

Lemma sorted_distinct l : StronglySorted lt_rel l -> distinct l.
Proof.
  intros Hs. induction Hs as [|h t Hs IH Hh]; intros i j Hi Hj Hij; simpl in *; [lia|].
  rewrite Forall_forall in Hh.
  destruct i as [|i], j as [|j]; try lia.
  - apply xf_ltb_neq. apply Hh. apply nth_In. lia.
  - rewrite xf_eqb_sym. apply xf_ltb_neq. apply Hh. apply nth_In. lia.
  - apply IH; lia.
Qed.

Lemma distinct_app_nan l : distinct l -> Forall (fun y => xf_isnan y = false) l -> distinct (l ++ [XNaN]).
Proof.
  intros Hd Hn i j Hi Hj Hij. rewrite app_length in Hi, Hj. simpl in Hi, Hj.
  destruct (Nat.lt_ge_cases i (length l)) as [Hi'|Hi'], (Nat.lt_ge_cases j (length l)) as [Hj'|Hj'].
  - rewrite !app_nth1 by assumption. apply Hd; assumption.
  - rewrite (app_nth2 l [XNaN]) with (n := j) by assumption.
    replace (j - length l)%nat with 0%nat by lia. simpl. destruct (nth i (l ++ [XNaN]) XNaN); reflexivity.
  - rewrite (app_nth2 l [XNaN]) with (n := i) by assumption.
    replace (i - length l)%nat with 0%nat by lia. reflexivity.
  - lia.
Qed.

Lemma sort_dedup_distinct l : distinct (sort_dedup l).
Proof.
  rewrite sort_dedup_split. destruct (nonan_part_props l) as [H1 H2].
  destruct (existsb xf_isnan l).
  - apply distinct_app_nan; [apply sorted_distinct|]; assumption.
  - rewrite app_nil_r. apply sorted_distinct. assumption.
Qed.

(* "ordered from earliest to latest" *)
Lemma sort_dedup_sorted l : existsb xf_isnan l = false -> StronglySorted lt_rel (sort_dedup l).
Proof. intros H. rewrite sort_dedup_split, H, app_nil_r. apply nonan_part_props. Qed.

Lemma sort_dedup_cover l x : In x l -> xf_isnan x = false -> exists u, In u (sort_dedup l) /\ xf_eqb x u = true.
Proof.
  intros H1 H2. destruct (nonan_part_cover l x H1 H2) as [u [H3 H4]]. exists u. split; [|assumption].
  rewrite sort_dedup_split. apply in_or_app. left. assumption.
Qed.

Lemma sort_dedup_nan l : existsb xf_isnan l = true -> In XNaN (sort_dedup l).
Proof. intros H. rewrite sort_dedup_split, H. apply in_or_app. right. left. reflexivity. Qed.

(* ---------- the loop: induction over the fold with a filled-positions invariant ---------- *)
Lemma nth_zip_with {A B C} (f : A -> B -> C) (a : list A) (b : list B) k da db dc :
  (k < length a)%nat -> (k < length b)%nat -> nth k (zip_with f a b) dc = f (nth k a da) (nth k b db).
Proof.
  revert b k; induction a as [|x a IH]; intros [|y b] k Ha Hb; simpl in *; try lia.
  destruct k as [|k]; [reflexivity|]. apply IH; lia.
Qed.

Lemma zip_with_length {A B C} (f : A -> B -> C) (a : list A) (b : list B) :
  length a = length b -> length (zip_with f a b) = length a.
Proof. revert b; induction a as [|x a IH]; intros [|y b] H; simpl in *; try discriminate; [reflexivity|]. now rewrite IH by lia. Qed.

Lemma distinct_tail t r : distinct (t :: r) -> distinct r.
Proof. intros H i j Hi Hj Hij. apply (H (S i) (S j)); simpl; lia. Qed.

Lemma distinct_head t r u : distinct (t :: r) -> In u r -> xf_eqb t u = false.
Proof.
  intros H Hu. destruct (In_nth _ _ XNaN Hu) as [j [Hj <-]].
  apply (H 0%nat (S j)); simpl; lia.
Qed.

Lemma fold_err {A B} (f : res A -> B -> res A) (l : list B) e :
  (forall b, f (Err e) b = Err e) -> fold_left f l (Err e) = Err e.
Proof. intros H. induction l as [|b l IH]; simpl; [reflexivity|]. rewrite H. exact IH. Qed.

Lemma xf_eqb_nan_l u : xf_eqb XNaN u = false.
Proof. reflexivity. Qed.

Section LoopSpec.
  Context {P : Type}.
  Variable nn_oracle : list P -> list xf.
  Variable fac : xf -> list bool -> nat -> res (option (list xf)).
  Hypothesis nn_len : forall g, length (nn_oracle g) = length g.
  Variable cs : list (P * xf).
  Hypothesis fac_len : forall t fs, fac t (mask_of cs t) (count_true (mask_of cs t)) = Ok (Some fs) -> length fs = count_true (mask_of cs t).

  (* the value the property assigns to cell i of the time point u *)
  Definition value_at (u : xf) (fo : option (list xf)) (i : nat) : xf :=
    let m := mask_of cs u in
    let k := rank m i in
    let nn := nth k (nn_oracle (select m (map fst cs))) XNaN in
    match fo with None => nn | Some fs => xf_mul (nth k fs XNaN) nn end.

  Definition time_of (i : nat) : xf := nth i (map snd cs) XNaN.

  Lemma mask_length u : length (mask_of cs u) = length cs.
  Proof. unfold mask_of. apply map_length. Qed.

  Lemma mask_nth u i : nth i (mask_of cs u) false = xf_eqb (time_of i) u.
  Proof.
    unfold mask_of, time_of. revert i. clear fac_len. induction cs as [|c cs' IH]; intros [|i]; simpl; try reflexivity. apply IH.
  Qed.

  Lemma step_ok acc t a1 :
    length acc = length cs -> step nn_oracle fac cs acc t = Ok a1 ->
    (2 <= count_true (mask_of cs t))%nat /\ length a1 = length cs /\
    exists fo, fac t (mask_of cs t) (count_true (mask_of cs t)) = Ok fo /\
      forall i, (i < length cs)%nat ->
        nth i a1 XNaN = if nth i (mask_of cs t) false then value_at t fo i else nth i acc XNaN.
  Proof.
    intros Hacc. unfold step.
    destruct (Nat.ltb_spec (count_true (mask_of cs t)) 2) as [Hc|Hc]; [discriminate|].
    destruct (fac t (mask_of cs t) (count_true (mask_of cs t))) as [fo|e] eqn:Hf; simpl; [|discriminate].
    intros H. injection H as <-. split; [exact Hc|]. split; [rewrite scatter_length; exact Hacc|].
    exists fo. split; [reflexivity|]. intros i Hi.
    assert (Hsel : length (nn_oracle (select (mask_of cs t) (map fst cs))) = count_true (mask_of cs t)).
    { rewrite nn_len. apply select_length. rewrite mask_length, map_length. reflexivity. }
    assert (Hsc : length (scaled fo (nn_oracle (select (mask_of cs t) (map fst cs)))) = count_true (mask_of cs t)).
    { destruct fo as [fs|]; simpl; [|exact Hsel]. rewrite zip_with_length; [exact (fac_len _ _ Hf)|].
      rewrite Hsel. exact (fac_len _ _ Hf). }
    rewrite scatter_nth; [|rewrite mask_length; symmetry; exact Hacc|exact Hsc|rewrite Hacc; exact Hi].
    destruct (nth i (mask_of cs t) false) eqn:Hm; [|reflexivity].
    unfold value_at. pose proof (rank_lt_count _ _ Hm) as Hr.
    destruct fo as [fs|]; simpl; [|reflexivity].
    apply nth_zip_with; [rewrite (fac_len _ _ Hf)|rewrite Hsel]; exact Hr.
  Qed.

  Theorem loop_spec uts : forall init out,
    length init = length cs -> distinct uts ->
    loop nn_oracle fac cs uts init = Ok out ->
    length out = length cs
    /\ (forall u, In u uts ->
          (2 <= count_true (mask_of cs u))%nat /\
          exists fo, fac u (mask_of cs u) (count_true (mask_of cs u)) = Ok fo /\
            forall i, (i < length cs)%nat -> xf_eqb (time_of i) u = true -> nth i out XNaN = value_at u fo i)
    /\ (forall i, (i < length cs)%nat -> (forall u, In u uts -> xf_eqb (time_of i) u = false) ->
          nth i out XNaN = nth i init XNaN).
  Proof.
    induction uts as [|t r IH]; intros init out Hlen Hd Hloop.
    - unfold loop in Hloop. simpl in Hloop. injection Hloop as <-.
      split; [exact Hlen|]. split; [intros u []|reflexivity].
    - unfold loop in Hloop. simpl in Hloop.
      destruct (step nn_oracle fac cs init t) as [a1|e] eqn:Hs.
      2:{ rewrite fold_err in Hloop by reflexivity. discriminate. }
      destruct (step_ok _ _ _ Hlen Hs) as [Hc [Hl1 [fo [Hf Hv]]]].
      destruct (IH a1 out Hl1 (distinct_tail _ _ Hd) Hloop) as [Ho [Hin Hout]].
      split; [exact Ho|]. split.
      + intros u [<-|Hu].
        * split; [exact Hc|]. exists fo. split; [exact Hf|]. intros i Hi Hm.
          rewrite Hout; [|exact Hi|].
          -- rewrite Hv by exact Hi. rewrite mask_nth, Hm. reflexivity.
          -- intros u' Hu'. destruct (xf_eqb (time_of i) u') eqn:E; [|reflexivity].
             pose proof (xf_eqb_eucl _ _ _ Hm E) as C. rewrite (distinct_head _ _ _ Hd Hu') in C. discriminate.
        * exact (Hin u Hu).
      + intros i Hi Hno. rewrite Hout; [|exact Hi|intros u Hu; apply Hno; right; exact Hu].
        rewrite Hv by exact Hi. rewrite mask_nth, (Hno t (or_introl eq_refl)). reflexivity.
  Qed.

  (* a time point with fewer than two cells is refused (ValueError when the factor computation itself cannot fail,
     e.g. without normalisation) *)
  Theorem loop_singleton_refused uts init u :
    In u uts -> (count_true (mask_of cs u) < 2)%nat ->
    (forall t m n, exists fo, fac t m n = Ok fo) ->
    loop nn_oracle fac cs uts init = Err ValueError.
  Proof.
    intros Hu Hc Hfac. unfold loop. revert init. induction uts as [|t r IH]; intros init; [destruct Hu|].
    simpl. destruct (step nn_oracle fac cs init t) as [a1|e] eqn:Hs.
    - destruct Hu as [->|Hu]; [|apply IH; exact Hu].
      unfold step in Hs. destruct (Nat.ltb_spec (count_true (mask_of cs u)) 2); [discriminate|lia].
    - assert (e = ValueError) as ->.
      { unfold step in Hs. destruct (count_true (mask_of cs t) <? 2)%nat; [congruence|].
        destruct (Hfac t (mask_of cs t) (count_true (mask_of cs t))) as [fo Hfo]. rewrite Hfo in Hs. discriminate. }
      apply fold_err. reflexivity.
  Qed.
End LoopSpec.

(* ---------- with the contract of the neighbour search: the closest OTHER cell with the SAME time stamp ---------- *)
Section NNContract.
  Context {P : Type}.
  Variable dP : P.
  Variable dist : P -> P -> xf.
  Variable le : xf -> xf -> Prop.
  Variable nn_oracle : list P -> list xf.

  Definition is_nn (g : list P) (k : nat) (v : xf) : Prop :=
    (exists l, (l < length g)%nat /\ l <> k /\ v = dist (nth k g dP) (nth l g dP))
    /\ (forall l, (l < length g)%nat -> l <> k -> le v (dist (nth k g dP) (nth l g dP))).
  Hypothesis nn_contract : forall g k, (2 <= length g)%nat -> (k < length g)%nat -> is_nn g k (nth k (nn_oracle g) XNaN).

  Variable cs : list (P * xf).
  Definition point_of (i : nat) : P := nth i (map fst cs) dP.

  Theorem group_nn_is_within_time_point u i :
    (i < length cs)%nat -> xf_eqb (time_of cs i) u = true -> (2 <= count_true (mask_of cs u))%nat ->
    let v := nth (rank (mask_of cs u) i) (nn_oracle (select (mask_of cs u) (map fst cs))) XNaN in
    (exists j, (j < length cs)%nat /\ j <> i /\ xf_eqb (time_of cs j) u = true /\ v = dist (point_of i) (point_of j))
    /\ (forall j, (j < length cs)%nat -> j <> i -> xf_eqb (time_of cs j) u = true -> le v (dist (point_of i) (point_of j))).
  Proof.
    intros Hi Hm Hc v.
    set (m := mask_of cs u) in *. set (g := select m (map fst cs)) in *.
    assert (Hml : length m = length (map fst cs)) by (unfold m; rewrite mask_length, map_length; reflexivity).
    assert (Hg : length g = count_true m) by (apply select_length; exact Hml).
    assert (Hmi : nth i m false = true) by (unfold m; rewrite mask_nth; exact Hm).
    pose proof (rank_lt_count _ _ Hmi) as Hr.
    destruct (nn_contract g (rank m i)) as [[l [Hl [Hlk Hv]]] Hmin]; [lia|lia|].
    assert (Hpi : nth (rank m i) g dP = point_of i) by (apply select_nth_rank; assumption).
    split.
    - destruct (rank_surj m l) as [j [Hj [Hmj Hrj]]]; [lia|].
      exists j. rewrite Hml, map_length in Hj. split; [exact Hj|]. split; [intros ->; apply Hlk; symmetry; exact Hrj|].
      split; [unfold m in Hmj; rewrite mask_nth in Hmj; exact Hmj|].
      unfold v. fold m g. rewrite Hv, Hpi, <- Hrj. f_equal. apply select_nth_rank; assumption.
    - intros j Hj Hji Hmj.
      assert (Hmj' : nth j m false = true) by (unfold m; rewrite mask_nth; exact Hmj).
      pose proof (rank_lt_count _ _ Hmj') as Hrj.
      specialize (Hmin (rank m j)). unfold v. fold m g.
      pose proof (select_nth_rank m (map fst cs) j dP Hml Hmj') as Hpj. fold g in Hpj.
      rewrite Hpi, Hpj in Hmin.
      apply Hmin; [lia|]. intros E. apply Hji. eapply rank_inj; eassumption.
  Qed.
End NNContract.

(* ---------- the generated _get_target_cell_count: which N_t a time point gets ---------- *)
Lemma xf_truth_of_bool b : xf_truth (xf_of_bool b) = b.
Proof. destruct b; reflexivity. Qed.

Lemma target_bool b t av uv : py_parameters__get_target_cell_count (VBool b) t av uv = Ok av.
Proof. reflexivity. Qed.

Lemma target_dict l t av uv :
  py_parameters__get_target_cell_count (VDict l) (VArr KF [] [t]) av uv
  = match assoc_lookup (VFloat t) l with Some v => Ok v | None => Err KeyError end.
Proof. reflexivity. Qed.

Lemma find_index_spec (l : list xf) t : forall s j,
  (j < length l)%nat -> (forall i, (i < j)%nat -> xf_eqb (nth i l XNaN) t = false) -> xf_eqb (nth j l XNaN) t = true ->
  find_index (map (elem_val KF) l) (VArr KF [] [t]) s = Ok (VInt (s + Z.of_nat j)).
Proof.
  induction l as [|a l IH]; intros s j Hj Hbefore Hat; simpl in Hj; [lia|].
  cbn [map find_index]. unfold py_eq. cbn [elem_val is_array orb arr_data as_num num_xf broadcast2 bind truthy].
  rewrite xf_truth_of_bool.
  destruct j as [|j].
  - simpl in Hat. rewrite Hat. f_equal. f_equal. lia.
  - pose proof (Hbefore 0%nat ltac:(lia)) as H0. simpl in H0. rewrite H0.
    rewrite (IH (s + 1) j); [f_equal; f_equal; lia|lia| |exact Hat].
    intros i Hi. apply (Hbefore (S i)). lia.
Qed.

(* position of a time point in the ascending list of unique times *)
Lemma find_index_distinct uts j s :
  distinct uts -> (j < length uts)%nat -> xf_isnan (nth j uts XNaN) = false ->
  find_index (map (elem_val KF) uts) (VArr KF [] [nth j uts XNaN]) s = Ok (VInt (s + Z.of_nat j)).
Proof.
  intros Hd Hj Hn. apply find_index_spec; [exact Hj| |apply xf_eqb_refl; exact Hn].
  intros i Hi. apply Hd; lia.
Qed.

(* list / tuple: the j-th entry for the j-th time point in ascending order *)
Lemma target_list l uts k j av :
  distinct uts -> (j < length uts)%nat -> xf_isnan (nth j uts XNaN) = false -> (j < length l)%nat ->
  py_parameters__get_target_cell_count (VList l) (VArr KF [] [nth j uts XNaN]) av (VArr KF [k] uts)
  = Ok (nth j l VNone).
Proof.
  intros Hd Hj Hn Hl. unfold py_parameters__get_target_cell_count.
  cbn [bind bind2 cond py_isinstance existsb py_isinstance1 orb truthy np_tolist list_index].
  rewrite (find_index_distinct uts j 0 Hd Hj Hn). cbn [bind Z.add].
  unfold py_getitem_x, py_getitem, np_index1. cbn [as_num].
  destruct (Z.ltb_spec (Z.of_nat j) 0); [lia|].
  destruct (Z.leb_spec 0 (Z.of_nat j)); [|lia].
  destruct (Z.ltb_spec (Z.of_nat j) (Z.of_nat (length l))); [|lia].
  cbn [andb]. unfold nthZ. rewrite Nat2Z.id. reflexivity.
Qed.

(* JAX array: the j-th entry likewise *)
Lemma target_array kd n d uts k j av :
  distinct uts -> (j < length uts)%nat -> xf_isnan (nth j uts XNaN) = false -> (Z.of_nat j < n) ->
  py_parameters__get_target_cell_count (VArr kd [n] d) (VArr KF [] [nth j uts XNaN]) av (VArr KF [k] uts)
  = Ok (VArr kd [] [nth j d XNaN]).
Proof.
  intros Hd Hj Hn Hl. unfold py_parameters__get_target_cell_count.
  cbn [bind bind2 cond py_isinstance existsb py_isinstance1 orb truthy np_tolist list_index].
  rewrite (find_index_distinct uts j 0 Hd Hj Hn). cbn [bind Z.add].
  unfold py_getitem_x, py_getitem, np_index1. cbn [as_num].
  destruct (Z.ltb_spec (Z.of_nat j) 0); [lia|].
  destruct (Z.leb_spec 0 (Z.of_nat j)); [|lia].
  destruct (Z.ltb_spec (Z.of_nat j) n); [|lia].
  cbn [andb]. unfold nthZ. rewrite Nat2Z.id. reflexivity.
Qed.

(* ---------- the factor: powf (n_t / N_t) (1 / d_i) ---------- *)
Section Factor.
  Variable powf : xf -> xf -> xf.

  Lemma fac_of_off nz av uv d t m n : norm_on nz = false -> fac_of powf nz av uv d t m n = Ok None.
  Proof. intros H. unfold fac_of. rewrite H. reflexivity. Qed.

  Lemma fac_of_on nz av uv d t m n target Nt b es :
    norm_on nz = true ->
    py_parameters__get_target_cell_count nz (VArr KF [] [t]) av uv = Ok target ->
    as_num target = Some Nt -> xf_div (xf_of_Z (Z.of_nat n)) (num_xf Nt) = Some b ->
    exponents d m = Ok es ->
    fac_of powf nz av uv d t m n = Ok (Some (map (powf b) es)).
  Proof.
    intros H1 H2 H3 H4 H5. unfold fac_of. rewrite H1, H2. cbn [bind]. unfold py_truediv.
    unfold xf_of_Z at 1. cbn [as_num inject_Z Qnum]. rewrite H3. cbn [num_xf]. rewrite H4. cbn [bind].
    rewrite H5. reflexivity.
  Qed.

  (* scalar d: every member of the group gets the exponent 1/d *)
  Lemma exponents_scalar q m : Qeq_bool q 0 = false ->
    exponents (VFloat (XFin q)) m = Ok (repeat (XFin (Qred (1 / q))) (count_true m)).
  Proof.
    intros H. unfold exponents. cbn [np_ndim_f as_num bind py_eq is_array orb scalar_eqb num_eqb Z.eqb truthy].
    unfold py_truediv. cbn [as_num num_xf xf_of_Z xf_div inject_Z]. rewrite H. reflexivity.
  Qed.

  (* per-cell d: member k of the group gets 1/d_i of ITS cell *)
  Lemma exponents_vector kd n dd m : exponents (VArr kd [n] dd) m = Ok (map xf_inv (select m dd)).
  Proof. reflexivity. Qed.

  Lemma exponents_length d m es : exponents d m = Ok es ->
    (match d with VArr _ [_] dd => length dd = length m | _ => True end) -> length es = count_true m.
  Proof.
    unfold exponents. destruct (np_ndim_f d) as [nd|]; [|discriminate]. cbn [bind].
    destruct (bind (py_eq nd (VInt 0)) truthy) as [[|]|]; cbn [bind]; try discriminate.
    - destruct (py_truediv (VInt 1) d) as [[]|]; cbn [bind]; try discriminate.
      intros H _. injection H as <-. apply repeat_length.
    - destruct d; try discriminate. destruct shape as [|s [|]]; try discriminate.
      intros H Hl. injection H as <-. rewrite map_length. apply select_length. symmetry. exact Hl.
  Qed.

  Lemma fac_of_length nz av uv d t m n fs :
    fac_of powf nz av uv d t m n = Ok (Some fs) ->
    (match d with VArr _ [_] dd => length dd = length m | _ => True end) -> length fs = count_true m.
  Proof.
    unfold fac_of. destruct (norm_on nz); [|discriminate].
    destruct (py_parameters__get_target_cell_count nz (VArr KF [] [t]) av uv); [|discriminate]. cbn [bind].
    destruct (py_truediv _ a) as [b|]; [|discriminate]. cbn [bind].
    destruct (exponents d m) as [es|] eqn:He; [|discriminate]. cbn [bind].
    destruct b; try discriminate. intros H Hl. injection H as <-. rewrite map_length.
    eapply exponents_length; eassumption.
  Qed.
End Factor.

(* ---------- validate_normalize_parameter ---------- *)
Definition has_key (l : list (val * val)) (u : xf) : bool := existsb (fun kv => scalar_eqb (VFloat u) (fst kv)) l.

Lemma listcomp_go_filter (f : val -> res val) (c : val -> res bool) (g : val -> val) (p : val -> bool) l :
  (forall x, In x l -> f x = Ok (g x)) -> (forall x, In x l -> c x = Ok (p x)) ->
  listcomp_go f c l = Ok (map g (filter p l)).
Proof.
  induction l as [|x l IH]; intros Hf Hc; [reflexivity|].
  cbn [listcomp_go filter]. rewrite (Hc x (or_introl eq_refl)). cbn [bind].
  rewrite IH; [|intros y Hy; apply Hf; right; exact Hy|intros y Hy; apply Hc; right; exact Hy].
  destruct (p x); [rewrite (Hf x (or_introl eq_refl))|]; reflexivity.
Qed.

Lemma listcomp_missing l (uts : list xf) :
  listcomp_go (fun t => Ok t) (fun t => cond (bind2 py_not_in (bind (Ok t) np_item) (Ok (VDict l))))
    (map (fun x => VArr KF [] [x]) uts)
  = Ok (map (fun x => VArr KF [] [x]) (filter (fun u => negb (has_key l u)) uts)).
Proof.
  rewrite (listcomp_go_filter _ _ (fun v => v)
             (fun v => match v with VArr KF [] [u] => negb (has_key l u) | _ => false end)).
  - rewrite map_id. f_equal. induction uts as [|u uts IH]; [reflexivity|].
    cbn [map filter]. destruct (negb (has_key l u)); cbn [map]; rewrite IH; reflexivity.
  - reflexivity.
  - intros x Hx. apply in_map_iff in Hx. destruct Hx as [u [<- _]]. reflexivity.
Qed.

(* dict: refused exactly when a time point has no entry *)
Lemma validate_normalize_dict l k uts :
  py_parameter_validation_validate_normalize_parameter (VDict l) (VArr KF [k] uts)
  = if forallb (has_key l) uts then Ok VNone else Err ValueError.
Proof.
  unfold py_parameter_validation_validate_normalize_parameter.
  cbn [bind cond py_isinstance existsb py_isinstance1 orb truthy].
  unfold py_listcomp. cbn [iter_items bind]. rewrite listcomp_missing. cbn [rmap bind cond truthy].
  induction uts as [|u uts IH]; [reflexivity|].
  cbn [filter forallb]. destruct (has_key l u); cbn [negb andb]; [exact IH|reflexivity].
Qed.

Lemma missing_key_refused_lemma l k uts u :
  In u uts -> has_key l u = false ->
  py_parameter_validation_validate_normalize_parameter (VDict l) (VArr KF [k] uts) = Err ValueError.
Proof.
  intros Hu Hk. rewrite validate_normalize_dict.
  destruct (forallb (has_key l) uts) eqn:E; [|reflexivity].
  rewrite forallb_forall in E. rewrite (E u Hu) in Hk. discriminate.
Qed.

(* list / JAX array: refused exactly when the length differs from the number of time points *)
Lemma validate_normalize_list l k uts :
  py_parameter_validation_validate_normalize_parameter (VList l) (VArr KF [k] uts)
  = if Z.of_nat (length l) =? k then Ok VNone else Err ValueError.
Proof.
  unfold py_parameter_validation_validate_normalize_parameter.
  cbn [bind bind2 cond py_isinstance py_isinstance_x py_isinstance1_x existsb py_isinstance1 orb truthy and_then py_len py_ne is_array scalar_eqb as_num num_eqb].
  destruct (Z.of_nat (length l) =? k); reflexivity.
Qed.

Lemma validate_normalize_array kd n d k uts :
  py_parameter_validation_validate_normalize_parameter (VArr kd [n] d) (VArr KF [k] uts)
  = if n =? k then Ok VNone else Err ValueError.
Proof.
  unfold py_parameter_validation_validate_normalize_parameter.
  cbn [bind bind2 cond py_isinstance py_isinstance_x py_isinstance1_x existsb py_isinstance1 orb truthy and_then py_len].
  unfold py_ne. cbn [is_array orb scalar_eqb as_num num_eqb truthy bind].
  destruct (n =? k); reflexivity.
Qed.

(* NumPy arrays likewise *)
Lemma validate_normalize_nparray kd n d k uts :
  py_parameter_validation_validate_normalize_parameter (VNpArr kd [n] d) (VArr KF [k] uts)
  = if n =? k then Ok VNone else Err ValueError.
Proof.
  unfold py_parameter_validation_validate_normalize_parameter.
  cbn [bind bind2 cond py_isinstance py_isinstance_x py_isinstance1_x existsb py_isinstance1 orb truthy and_then py_len].
  unfold py_ne. cbn [is_array orb scalar_eqb as_num num_eqb truthy bind].
  destruct (n =? k); reflexivity.
Qed.

Lemma validate_normalize_flag nz uv : nz = VNone \/ (exists b, nz = VBool b) ->
  py_parameter_validation_validate_normalize_parameter nz uv = Ok VNone.
Proof. intros [->|[b ->]]; reflexivity. Qed.

(* ---------- compute_average_cell_count: the predictor's n_obs ---------- *)
Definition n_unique (dat : list xf) (n c : Z) : Z := Z.of_nat (length (sort_dedup (col_list dat n c (c - 1)))).

Ltac avg_head c :=
  unfold py_parameters_compute_average_cell_count;
  cbn [bind bind2 np_shape map py_getitem_x py_getitem np_index1 as_num Z.ltb length];
  unfold nthZ; cbn [Z.to_nat nth Z.leb Z.ltb Z.compare Z.of_nat andb Pos.of_succ_nat Pos.succ];
  unfold np_col; cbn [as_num];
  destruct (Z.ltb_spec (-1) 0); [|lia];
  destruct (Z.leb_spec 0 (-1 + c)); [|lia]; destruct (Z.ltb_spec (-1 + c) c); [|lia];
  replace (-1 + c) with (c - 1) by lia;
  cbn [andb bind np_unique np_shape map py_getitem np_index1 as_num];
  cbn [length Z.of_nat Z.ltb Z.leb Z.compare andb Pos.of_succ_nat Pos.succ]; unfold nthZ; cbn [Z.to_nat nth].

(* None / True / False: cells per time point *)
Lemma average_count_flag n c dat nz :
  1 <= c -> nz = VNone \/ (exists b, nz = VBool b) ->
  py_parameters_compute_average_cell_count (VArr KF [n; c] dat) nz = py_truediv (VInt n) (VInt (n_unique dat n c)).
Proof.
  intros Hc Hnz. avg_head c.
  destruct Hnz as [->|[b ->]]; reflexivity.
Qed.

(* dict: mean of the entries of the time points PRESENT in the data *)
Definition dict_get (l : list (val * val)) (u : xf) : val :=
  match assoc_lookup (VFloat u) l with Some w => w | None => VNone end.
Definition dict_has (l : list (val * val)) (u : xf) : bool :=
  match assoc_lookup (VFloat u) l with Some _ => true | None => false end.

Lemma average_count_dict n c dat l :
  1 <= c -> forallb (dict_has l) (sort_dedup (col_list dat n c (c - 1))) = true ->
  py_parameters_compute_average_cell_count (VArr KF [n; c] dat) (VDict l)
  = bind (py_sum (VList (map (dict_get l) (sort_dedup (col_list dat n c (c - 1))))))
         (fun s => py_truediv s (VInt (n_unique dat n c))).
Proof.
  intros Hc Hall. avg_head c.
  cbn [or_else cond bind bind2 py_is truthy py_isinstance existsb py_isinstance1 orb].
  unfold py_listcomp. cbn [iter_items bind].
  rewrite (listcomp_go_filter _ _ (fun v => match v with VArr KF [] [u] => dict_get l u | _ => VNone end) (fun _ => true)).
  - cbn [rmap bind]. fold (n_unique dat n c).
    replace (filter (fun _ : val => true) (map (fun x : xf => VArr KF [] [x]) (sort_dedup (col_list dat n c (c - 1)))))
      with (map (fun x : xf => VArr KF [] [x]) (sort_dedup (col_list dat n c (c - 1)))).
    2:{ generalize (sort_dedup (col_list dat n c (c - 1))). intros q. induction q as [|a q IH]; [reflexivity|]. cbn [map filter]. rewrite <- IH. reflexivity. }
    rewrite map_map. reflexivity.
  - intros x Hx. apply in_map_iff in Hx. destruct Hx as [u [<- Hu]].
    rewrite forallb_forall in Hall. specialize (Hall u Hu). unfold dict_has in Hall. unfold dict_get.
    cbn [bind bind2 np_item elem_val py_getitem_x py_getitem].
    destruct (assoc_lookup (VFloat u) l); [reflexivity|discriminate].
  - reflexivity.
Qed.

(* list / array: mean of the entries *)
Lemma average_count_list n c dat l :
  1 <= c ->
  py_parameters_compute_average_cell_count (VArr KF [n; c] dat) (VList l)
  = bind (bind (np_asarray (VList l)) np_sum) (fun s => py_truediv s (VInt (Z.of_nat (length l)))).
Proof.
  intros Hc. avg_head c. reflexivity.
Qed.

Lemma py_sum_ints_from (zs : list Z) a :
  fold_left (fun acc x => bind acc (fun v => py_add v x)) (map VInt zs) (Ok (VInt a)) = Ok (VInt (fold_left Z.add zs a)).
Proof.
  revert a. induction zs as [|z zs IH]; intros a; [reflexivity|].
  cbn [map fold_left bind]. unfold py_add at 2, arith. cbn [is_array orb as_num]. apply IH.
Qed.
Lemma py_sum_ints (zs : list Z) : py_sum (VList (map VInt zs)) = Ok (VInt (fold_left Z.add zs 0)).
Proof. unfold py_sum. apply py_sum_ints_from. Qed.

(* ---------- the estimator methods ---------- *)
Section Methods.
  Variable nnw : val -> val -> val -> val -> res val.
  Variable ls_of : val -> res val.

  (* the length-scale heuristic recomputes the distances with normalize=False whenever normalisation is on *)
  Lemma ls_uses_raw_lemma ls_factor nn nz x :
    norm_on nz = true ->
    tsde_compute_ls nnw ls_of ls_factor nn nz x
    = bind (nnw x VNone VNone (VBool false)) (fun raw => bind (ls_of raw) (fun ls => py_mul ls ls_factor)).
  Proof.
    intros H. unfold tsde_compute_ls.
    assert (E : forall m : res val, bind m (fun ls0 => Ok ls0) = m) by (intros [|]; reflexivity).
    destruct nz; try discriminate; try (destruct b; [|discriminate]);
      cbn [bind bind2 and_then cond py_is_not py_is truthy negb];
      (destruct (nnw x VNone VNone (VBool false)) as [raw|]; cbn [bind]; [|reflexivity]);
      (destruct (ls_of raw) as [ls|]; cbn [bind]; [|reflexivity]); apply E.
  Qed.

  Lemma ls_without_normalisation ls_factor nn nz x :
    norm_on nz = false ->
    tsde_compute_ls nnw ls_of ls_factor nn nz x = bind (ls_of nn) (fun ls => py_mul ls ls_factor).
  Proof.
    intros H. unfold tsde_compute_ls.
    assert (E : forall m : res val, bind m (fun ls0 => Ok ls0) = m) by (intros [|]; reflexivity).
    destruct nz; try discriminate; try (destruct b; [discriminate|]);
      cbn [bind bind2 and_then cond py_is_not py_is truthy negb Bool.eqb];
      (destruct (ls_of nn) as [ls|]; cbn [bind]; [|reflexivity]); apply E.
  Qed.

  (* _compute_nn_distances hands x, d and the normalize setting to the routine (times = None) *)
  Lemma compute_nn_wiring d nz x :
    tsde_compute_nn_distances nnw d nz x
    = bind (nnw x VNone d nz) (fun v => py_validation_validate_nn_distances v (VBool false)).
  Proof.
    unfold tsde_compute_nn_distances. cbn [bind bind2]. destruct (nnw x VNone d nz) as [v|]; cbn [bind]; [|reflexivity].
    destruct (py_validation_validate_nn_distances v (VBool false)); reflexivity.
  Qed.
End Methods.

(* BaseEstimator._prepare_attribute: compute only when the attribute is None (hand model, as in C15) *)
Definition prepare_attr14 (given : val) (computed : res val) : res val :=
  match given with VNone => computed | _ => Ok given end.

Lemma explicit_nn_untouched_lemma nnw k n dat d nz x :
  prepare_attr14 (VArr k [n] dat) (tsde_compute_nn_distances nnw d nz x) = Ok (VArr k [n] dat).
Proof. reflexivity. Qed.

(* ---------- the whole routine (times as the trailing column, already a float matrix) ---------- *)
Lemma vtx_column n c dat :
  py_validation_validate_time_x (VArr KF [n; c] dat) VNone VNone (VBool false) = Ok (VArr KF [n; c] dat).
Proof. reflexivity. Qed.

Lemma prologue_column_off n c dat d nz : 1 <= c -> nz = VNone \/ nz = VBool false ->
  nnwt_prologue (VArr KF [n; c] dat) VNone d nz
  = bind (np_empty (VInt n)) (fun init =>
    bind (py_truediv (VInt n) (VInt (n_unique dat n c))) (fun av =>
    Ok (VTuple [VArr KF [n; c] dat; VArr KF [n_unique dat n c] (sort_dedup (col_list dat n c (c - 1))); init; av; d]))).
Proof.
  intros Hc Hnz. unfold nnwt_prologue.
  cbn [bind]. rewrite vtx_column. cbn [bind bind2].
  unfold np_col. cbn [as_num].
  destruct (Z.ltb_spec (-1) 0); [|lia].
  destruct (Z.leb_spec 0 (-1 + c)); [|lia]. destruct (Z.ltb_spec (-1 + c) c); [|lia].
  replace (-1 + c) with (c - 1) by lia.
  cbn [andb bind np_unique np_shape map py_getitem_x py_getitem np_index1 as_num].
  cbn [length Z.of_nat Z.ltb Z.leb Z.compare andb Pos.of_succ_nat Pos.succ]. unfold nthZ. cbn [Z.to_nat nth].
  fold (n_unique dat n c).
  change (bind2 py_getitem_x (Ok (VTuple [VInt n; VInt c])) (Ok (VInt 0))) with (Ok (VInt n)).
  cbn [bind].
  destruct (np_empty (VInt n)) as [init|]; cbn [bind]; [|reflexivity].
  cbn [py_len bind].
  destruct (py_truediv (VInt n) (VInt (n_unique dat n c))) as [av|]; cbn [bind]; [|reflexivity].
  destruct Hnz as [-> | ->]; reflexivity.
Qed.

Lemma take_rows_length {A} (c rows : nat) (d : list A) : length (take_rows c rows d) = rows.
Proof. revert d; induction rows as [|r IH]; intros d; simpl; [reflexivity|]. now rewrite IH. Qed.

Lemma col_list_length dat n c j : length (col_list dat n c j) = Z.to_nat n.
Proof. unfold col_list. rewrite map_length. apply range_from_length. Qed.

Lemma cells_of_length dat n c : length (cells_of dat n c) = Z.to_nat n.
Proof.
  unfold cells_of, feature_rows. rewrite combine_length, map_length, take_rows_length, col_list_length. lia.
Qed.

Lemma map_snd_combine {A B} (a : list A) (b : list B) : length a = length b -> map snd (combine a b) = b.
Proof. revert b; induction a as [|x a IH]; intros [|y b] H; simpl in *; try discriminate; [reflexivity|]. now rewrite IH by lia. Qed.
Lemma map_fst_combine {A B} (a : list A) (b : list B) : length a = length b -> map fst (combine a b) = a.
Proof. revert b; induction a as [|x a IH]; intros [|y b] H; simpl in *; try discriminate; [reflexivity|]. now rewrite IH by lia. Qed.

Lemma cells_times dat n c : map snd (cells_of dat n c) = col_list dat n c (c - 1).
Proof. unfold cells_of, feature_rows. apply map_snd_combine. rewrite map_length, take_rows_length, col_list_length. reflexivity. Qed.
Lemma cells_features dat n c : map fst (cells_of dat n c) = feature_rows dat n c.
Proof. unfold cells_of, feature_rows. apply map_fst_combine. rewrite map_length, take_rows_length, col_list_length. reflexivity. Qed.

Lemma xf_eqb_nan_r a : xf_eqb a XNaN = false.
Proof. destruct a; reflexivity. Qed.

Lemma mask_nan_empty {P} (cs : list (P * xf)) : count_true (mask_of cs XNaN) = 0%nat.
Proof. unfold mask_of, count_true. induction cs as [|c cs IH]; [reflexivity|]. cbn [map filter]. rewrite xf_eqb_nan_r. exact IH. Qed.

Section Top.
  Variable nn_oracle : list (list xf) -> list xf.
  Variable powf : xf -> xf -> xf.
  Hypothesis nn_len : forall g, length (nn_oracle g) = length g.

  (* without normalisation: output i is the neighbour distance of cell i within the cells sharing its time stamp,
     in the original order; all time stamps are numbers *)
  Theorem nn_within_column_raw n c dat d nz v :
    0 <= n -> 1 <= c -> nz = VNone \/ nz = VBool false ->
    nn_within nn_oracle powf (VArr KF [n; c] dat) VNone d nz = Ok v ->
    let cs := cells_of dat n c in
    let uts := sort_dedup (col_list dat n c (c - 1)) in
    exists out, v = VArr KF [n] out /\ length out = Z.to_nat n /\
      forall i, (i < Z.to_nat n)%nat ->
        exists u, In u uts /\ xf_eqb (time_of cs i) u = true /\ (2 <= count_true (mask_of cs u))%nat /\
          nth i out XNaN = nth (rank (mask_of cs u) i) (nn_oracle (select (mask_of cs u) (feature_rows dat n c))) XNaN.
  Proof.
    intros Hn Hc Hnz H cs uts. unfold nn_within in H. rewrite (prologue_column_off n c dat d nz Hc Hnz) in H.
    unfold np_empty in H. cbn [as_num] in H. destruct (Z.ltb_spec n 0) as [|_]; [lia|]. cbn [bind] in H.
    destruct (py_truediv (VInt n) (VInt (n_unique dat n c))) as [av|] eqn:Hav; cbn [bind] in H; [|discriminate].
    fold cs uts in H.
    destruct (loop nn_oracle (fac_of powf nz av (VArr KF [n_unique dat n c] uts) d) cs uts (repeat (XFin 0) (Z.to_nat n)))
      as [out|] eqn:Hl; cbn [bind] in H; [|discriminate].
    injection H as <-. exists out.
    assert (Hoff : norm_on nz = false) by (destruct Hnz as [-> | ->]; reflexivity).
    destruct (loop_spec nn_oracle (fac_of powf nz av (VArr KF [n_unique dat n c] uts) d) nn_len cs) with (uts := uts)
      (init := repeat (XFin 0) (Z.to_nat n)) (out := out) as [Ho [Hin _]].
    - intros t fs Hf. rewrite fac_of_off in Hf by exact Hoff. discriminate.
    - rewrite repeat_length. unfold cs. rewrite cells_of_length. reflexivity.
    - apply sort_dedup_distinct.
    - exact Hl.
    - split; [reflexivity|]. split; [rewrite Ho; unfold cs; apply cells_of_length|].
      intros i Hi.
      assert (Hti : time_of cs i = nth i (col_list dat n c (c - 1)) XNaN) by (unfold time_of, cs; rewrite cells_times; reflexivity).
      assert (Hnn : xf_isnan (time_of cs i) = false).
      { destruct (xf_isnan (time_of cs i)) eqn:E; [|reflexivity]. exfalso.
        assert (Hex : existsb xf_isnan (col_list dat n c (c - 1)) = true).
        { apply existsb_exists. exists (time_of cs i). split; [|exact E]. rewrite Hti. apply nth_In. rewrite col_list_length. exact Hi. }
        destruct (Hin XNaN (sort_dedup_nan _ Hex)) as [Hc2 _]. rewrite mask_nan_empty in Hc2. lia. }
      destruct (sort_dedup_cover (col_list dat n c (c - 1)) (time_of cs i)) as [u [Hu Hm]]; [rewrite Hti; apply nth_In; rewrite col_list_length; exact Hi|exact Hnn|].
      exists u. split; [exact Hu|]. split; [exact Hm|].
      destruct (Hin u Hu) as [Hc2 [fo [Hf Hval]]]. split; [exact Hc2|].
      rewrite fac_of_off in Hf by exact Hoff. injection Hf as <-.
      rewrite (Hval i); [|unfold cs; rewrite cells_of_length; exact Hi|exact Hm].
      unfold value_at. unfold cs at 3. rewrite cells_features. reflexivity.
  Qed.
End Top.
