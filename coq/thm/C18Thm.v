(* C18: theorems about the staged-API state machine (lib/C18Machine.v) instantiated with the GENERATED
   tables and guards (gen/C18Gen.v). *)
From Coq Require Import ZArith List Bool String Lia.
From MellonV Require Import PyVal C18Machine C18Gen.
Import ListNotations.
Open Scope string_scope.

(* ---------- reflexive side condition on the generated tables ---------- *)
Lemma tables_ok :
  order_respects_deps table_DensityEstimator = true
  /\ order_respects_deps table_TimeSensitiveDensityEstimator = true
  /\ order_respects_deps table_DimensionalityEstimator = true.
Proof. repeat split; vm_compute; reflexivity. Qed.

(* ---------- the invariant: every cached value is the canonical one for the bound data ---------- *)
Definition attrs_canon (d : data) (m : list (string * term)) : Prop :=
  forall a t, lookup a m = Some t -> t = Canon a d.

Lemma data_eqb_refl d : data_eqb d d = true.
Proof. destruct d; reflexivity. Qed.

Lemma string_eqb_eq a b : string_eqb a b = true -> a = b.
Proof.
  revert b; induction a as [|c a IH]; intros [|c' b] H; simpl in H; try discriminate; [reflexivity|].
  apply andb_true_iff in H. destruct H as [H1 H2]. apply Ascii.eqb_eq in H1. subst. f_equal. apply IH. exact H2.
Qed.

Lemma value_of_canon s d rs a :
  attrs_canon d (sattrs s) -> ready s rs = true -> value_of s d rs a = Canon a d.
Proof.
  intros Hc Hr. unfold value_of.
  replace (forallb (fun r => string_eqb r "x" || is_canon d (lookup r (sattrs s))) rs) with true; [reflexivity|].
  symmetry. apply forallb_forall. intros r Hin. unfold ready in Hr. rewrite forallb_forall in Hr. specialize (Hr r Hin).
  destruct (string_eqb r "x"); [reflexivity|]. simpl.
  destruct (lookup r (sattrs s)) as [t|] eqn:E; [|discriminate].
  rewrite (Hc r t E). simpl. apply data_eqb_refl.
Qed.

Lemma lookup_app_map (ws : list string) (f : string -> term) m a t :
  lookup a (map (fun w => (w, f w)) ws ++ m) = Some t -> (t = f a /\ In a ws) \/ lookup a m = Some t.
Proof.
  induction ws as [|w ws IH]; simpl; [right; assumption|].
  destruct (string_eqb a w) eqn:E.
  - intros H. injection H as <-. apply string_eqb_eq in E. subst. left. split; [reflexivity|left; reflexivity].
  - intros H. destruct (IH H) as [[H1 H2]|H1]; [left; split; [assumption|right; assumption]|right; assumption].
Qed.

Lemma write_canon s rs ws s' d :
  sdata s = Some d -> attrs_canon d (sattrs s) -> write s rs ws = Ok s' ->
  sdata s' = Some d /\ sx s' = sx s /\ scount s' = scount s /\ attrs_canon d (sattrs s').
Proof.
  intros Hd Hc. unfold write. rewrite Hd. destruct (ready s rs) eqn:Hr; [|discriminate].
  intros H. injection H as <-. simpl. repeat split; try assumption.
  intros a t Hl. apply lookup_app_map in Hl. destruct Hl as [[-> _]|Hl]; [apply value_of_canon; assumption|apply Hc; assumption].
Qed.

Lemma write_needs_data s rs ws s' : write s rs ws = Ok s' -> exists d, sdata s = Some d.
Proof. unfold write. destruct (sdata s) as [d|]; [exists d; reflexivity|discriminate]. Qed.

Section Generic.
  Variable tb : table.
  Variable gs : guards.

  (* [allowed d0]: which data may get bound (None: any; Some d: only d, the data of the presets) *)
  Definition Inv (d0 : option data) (s : state) : Prop :=
    match sdata s with
    | Some d => attrs_canon d (sattrs s) /\ (match d0 with Some d' => d = d' | None => True end)
    | None => match d0 with Some d' => attrs_canon d' (sattrs s) | None => sattrs s = [] end
    end.

  Definition data_allowed (d0 : option data) (cd : option data) : Prop :=
    match d0, cd with Some d', Some d => d = d' | _, _ => True end.

  Definition arg_allowed (d0 : option data) (a : arg) : Prop :=
    match d0, a with
    | Some d', (AOrig d | AJax d) => d = d'
    | _, _ => True
    end.

  Lemma inv_bind d0 s newx cd : Inv d0 s -> data_allowed d0 cd -> (sdata s = None -> cd = None -> True) ->
    Inv d0 (bind_x s newx cd).
  Proof.
    unfold Inv, bind_x. simpl. destruct (sdata s) as [d|] eqn:E; [intros H _ _; exact H|].
    destruct cd as [d|]; [|intros H _ _; exact H].
    destruct d0 as [d'|]; simpl.
    - intros H -> _. split; [exact H|reflexivity].
    - intros H _ _. rewrite H. split; [intros a t Hl; discriminate|exact I].
  Qed.

  Lemma inv_write d0 s rs ws s' : Inv d0 s -> write s rs ws = Ok s' -> Inv d0 s'.
  Proof.
    intros Hi Hw. destruct (write_needs_data _ _ _ _ Hw) as [d Hd].
    unfold Inv in Hi. rewrite Hd in Hi. destruct Hi as [Hc Hd0].
    destruct (write_canon _ _ _ _ _ Hd Hc Hw) as [H1 [_ [_ H2]]].
    unfold Inv. rewrite H1. split; assumption.
  Qed.

  (* the carried data is consistent with what may be bound *)
  Definition carried_ok (d0 : option data) (s : state) (cd : option data) : Prop :=
    data_allowed d0 cd /\ (match sdata s, d0 with Some d, Some d' => d = d' | _, _ => True end).

  Lemma arg_data_allowed d0 s a : Inv d0 s -> arg_allowed d0 a -> data_allowed d0 (arg_data s a).
  Proof.
    unfold Inv, arg_allowed, data_allowed, arg_data. destruct d0 as [d'|]; [|intros; destruct a; exact I].
    destruct a; try (intros _ H; exact H); destruct (sdata s) as [d|]; try (intros [_ H] _; exact H); intros; exact I.
  Qed.

  Lemma inv_exec d0 s cx m cd s' cx' cd' :
    Inv d0 s -> data_allowed d0 cd -> (match m with MGuard _ a => arg_allowed d0 a | _ => True end) ->
    exec tb gs (s, cx) m cd = Ok ((s', cx'), cd') -> Inv d0 s' /\ data_allowed d0 cd'.
  Proof.
    intros Hi Hcd Ha. unfold exec.
    destruct m as [k a| | |a|nm|nm|a nm].
    - destruct (match k with GSetX => g_set_x gs | GPrepare => g_prepare gs | GFitPredict => g_fit_predict gs end
                  (validate_at (scount s)) (sx s) (arg_val s a)) as [x'|e]; [|discriminate].
      pose proof (arg_data_allowed d0 s a Hi Ha) as Had.
      destruct k; intros H; injection H as <- <- <-; (split; [|exact Had]); try exact Hi.
      apply inv_bind; [exact Hi|exact Had|trivial].
    - destruct (g_set_x gs (validate_at (scount s)) (sx s) cx) as [x'|e]; [|discriminate].
      intros H; injection H as <- <- <-. split; [|exact Hcd]. apply inv_bind; [exact Hi|exact Hcd|trivial].
    - destruct (g_prepare gs (validate_at (scount s)) (sx s) cx) as [x'|e]; [|discriminate].
      intros H; injection H as <- <- <-. split; assumption.
    - destruct (lookup a (sattrs s)); [intros H; injection H as <- <- <-; split; assumption|].
      destruct (write s (slookup a (t_reads tb)) [a]) as [s1|e] eqn:Hw; [|discriminate].
      intros H; injection H as <- <- <-. split; [eapply inv_write; eassumption|exact Hcd].
    - destruct (write s (slookup nm (t_reads tb)) []) as [s1|e] eqn:Hw; [|discriminate].
      intros H; injection H as <- <- <-. split; [eapply inv_write; eassumption|exact Hcd].
    - destruct (write s (slookup nm (t_reads tb)) (slookup nm (t_writes tb))) as [s1|e] eqn:Hw; [|discriminate].
      intros H; injection H as <- <- <-. split; [eapply inv_write; eassumption|exact Hcd].
    - destruct (lookup a (sattrs s)); [intros H; injection H as <- <- <-; split; assumption|].
      destruct (write s (slookup nm (t_reads tb)) (slookup nm (t_writes tb))) as [s1|e] eqn:Hw; [|discriminate].
      intros H; injection H as <- <- <-. split; [eapply inv_write; eassumption|exact Hcd].
  Qed.

  Definition micro_allowed (d0 : option data) (m : micro) : Prop :=
    match m with MGuard _ a => arg_allowed d0 a | _ => True end.

  Lemma inv_exec_list d0 l : forall s cx cd,
    Inv d0 s -> data_allowed d0 cd -> Forall (micro_allowed d0) l ->
    Inv d0 (fst (fst (exec_list tb gs (s, cx) cd l))).
  Proof.
    induction l as [|m l IH]; intros s cx cd Hi Hcd Hall; [exact Hi|].
    inversion Hall as [|? ? Hm Hl]; subst. cbn [exec_list].
    destruct (exec tb gs (s, cx) m cd) as [[[s' cx'] cd']|e] eqn:He; [|exact Hi].
    destruct (inv_exec d0 s cx m cd s' cx' cd' Hi Hcd Hm He) as [Hi' Hcd']. apply IH; assumption.
  Qed.

  Definition op_allowed (d0 : option data) (o : op) : Prop :=
    match o with OSetX a | OPrepare a | OFit a | OFitPredict a => arg_allowed d0 a | _ => True end.

  Lemma expand_allowed d0 o : op_allowed d0 o -> Forall (micro_allowed d0) (expand tb o).
  Proof.
    assert (Hmap : forall (f : string -> micro) l, (forall a, micro_allowed d0 (f a)) -> Forall (micro_allowed d0) (map f l)).
    { intros f l Hf. induction l; constructor; auto. }
    assert (Ho : Forall (micro_allowed d0) (order_micro tb)).
    { unfold order_micro. apply Hmap. intros a. destruct (string_eqb a "SET_X"); [exact I|]. destruct (string_eqb a "VALIDATE"); exact I. }
    assert (Hp : forall b, Forall (micro_allowed d0) (process_micro tb b)).
    { intros b. unfold process_micro. apply Forall_app. split; [apply Hmap; intros; exact I|]. destruct b; [apply Hmap; intros; exact I|constructor]. }
    intros H. destruct o as [a|a| |b|i|a|a]; simpl.
    - constructor; [exact H|constructor].
    - constructor; [exact H|exact Ho].
    - constructor; [exact I|constructor].
    - apply Hp.
    - destruct (nth_error (t_predicts tb) i) as [[a nm]|]; [constructor; [exact I|constructor]|constructor].
    - constructor; [exact H|]. apply Forall_app. split; [exact Ho|]. constructor; [exact I|apply Hp].
    - constructor; [exact H|]. unfold fit_tail. constructor; [exact I|]. apply Forall_app. split; [exact Ho|]. constructor; [exact I|apply Hp].
  Qed.

  (* inv_step *)
  Theorem inv_step d0 s o : Inv d0 s -> op_allowed d0 o -> Inv d0 (fst (step tb gs s o)).
  Proof.
    intros Hi Ho. unfold step.
    pose proof (inv_exec_list d0 (expand tb o) s VNone None Hi) as H.
    destruct (exec_list tb gs (s, VNone) None (expand tb o)) as [[s' cx'] e]. simpl in *.
    assert (Hd : data_allowed d0 None) by (destruct d0; exact I).
    specialize (H Hd (expand_allowed d0 o Ho)). exact H.
  Qed.

  (* inv_reachable: EVERY list of operations, no length bound *)
  Theorem inv_reachable d0 ops : forall s, Inv d0 s -> Forall (op_allowed d0) ops -> Inv d0 (fst (run tb gs s ops)).
  Proof.
    induction ops as [|o ops IH]; intros s Hi Hall; simpl; [exact Hi|].
    inversion Hall as [|? ? Ho Hr]; subst.
    pose proof (inv_step d0 s o Hi Ho) as H1.
    destruct (step tb gs s o) as [s' e]. simpl in H1.
    specialize (IH s' H1 Hr). destruct (run tb gs s' ops) as [s'' es]. exact IH.
  Qed.

  Lemma all_allowed_none ops : Forall (op_allowed None) ops.
  Proof. induction ops as [|o ops IH]; constructor; [destruct o; try destruct a; exact I|exact IH]. Qed.

  (* from the fresh estimator, after ANY call sequence, whatever is cached is the canonical value for the bound data *)
  Theorem staged_values_canonical ops a t :
    let s := fst (run tb gs init ops) in
    lookup a (sattrs s) = Some t -> exists d, sdata s = Some d /\ t = Canon a d.
  Proof.
    intros s Hl. pose proof (inv_reachable None ops init eq_refl (all_allowed_none ops)) as H. fold s in H.
    unfold Inv in H. destruct (sdata s) as [d|].
    - exists d. split; [reflexivity|]. destruct H as [H _]. apply H. exact Hl.
    - rewrite H in Hl. discriminate.
  Qed.

  (* presets: any set of intermediates preset to their canonical values for data d *)
  Lemma presets_inv d presets : Inv (Some d) (init_with d presets).
  Proof.
    unfold Inv, init_with. simpl. intros a t. induction presets as [|p ps IH]; simpl; [discriminate|].
    destruct (string_eqb a p) eqn:E; [intros H; injection H as <-; apply string_eqb_eq in E; subst; reflexivity|exact IH].
  Qed.

  Theorem presets_canonical d presets ops a t :
    Forall (op_allowed (Some d)) ops ->
    let s := fst (run tb gs (init_with d presets) ops) in
    lookup a (sattrs s) = Some t -> t = Canon a d.
  Proof.
    intros Hall s Hl. pose proof (inv_reachable (Some d) ops _ (presets_inv d presets) Hall) as H. fold s in H.
    unfold Inv in H. destruct (sdata s) as [d'|].
    - destruct H as [H ->]. apply H. exact Hl.
    - apply H. exact Hl.
  Qed.
End Generic.

(* ---------- the one-shot fit computes every attribute ---------- *)
Definition all_set (universe : list string) (d : data) (s : state) : bool :=
  forallb (fun a => match lookup a (sattrs s) with Some (Canon b d') => string_eqb a b && data_eqb d d' | _ => false end) universe.

Lemma oneshot_complete :
  (forall d, all_set universe_DensityEstimator d (fst (run table_DensityEstimator guards_DensityEstimator init [OFit (AOrig d)])) = true)
  /\ (forall d, all_set universe_TimeSensitiveDensityEstimator d (fst (run table_TimeSensitiveDensityEstimator guards_TimeSensitiveDensityEstimator init [OFit (AOrig d)])) = true)
  /\ (forall d, all_set universe_DimensionalityEstimator d (fst (run table_DimensionalityEstimator guards_DimensionalityEstimator init [OFit (AOrig d)])) = true).
Proof. repeat split; intros []; vm_compute; reflexivity. Qed.

(* ---------- rebinding: offering another object once x is bound ---------- *)
Definition refuses (g : validator -> val -> val -> res val) : Prop :=
  forall k i c j, i <> j -> (string_eqb c "jax" = false -> i <> (1000 + k)%Z) ->
  g (validate_at k) (VObj "jax" i) (VObj c j) = Err ValueError.

Ltac refuse_tac :=
  intros k i c j Hij Hfresh; cbn;
  repeat match goal with
         | |- context [Z.eqb ?a ?b] => destruct (Z.eqb_spec a b); try lia; cbn
         | |- context [string_eqb c "jax"] => destruct (string_eqb c "jax") eqn:?; cbn
         end; try reflexivity; try (exfalso; apply Hfresh; [reflexivity|assumption]); try lia.

Lemma guards_refuse_Density : refuses (g_set_x guards_DensityEstimator) /\ refuses (g_prepare guards_DensityEstimator) /\ refuses (g_fit_predict guards_DensityEstimator).
Proof. repeat split; refuse_tac. Qed.
Lemma guards_refuse_Time : refuses (g_set_x guards_TimeSensitiveDensityEstimator) /\ refuses (g_prepare guards_TimeSensitiveDensityEstimator) /\ refuses (g_fit_predict guards_TimeSensitiveDensityEstimator).
Proof. repeat split; refuse_tac. Qed.
Lemma guards_refuse_Dim : refuses (g_set_x guards_DimensionalityEstimator) /\ refuses (g_prepare guards_DimensionalityEstimator) /\ refuses (g_fit_predict guards_DimensionalityEstimator).
Proof. repeat split; refuse_tac. Qed.
