(* C11: kgrad_correct under the syntactic well-formedness wfs (thm/AKPos.v): no premise mentions the points. *)
From Coq Require Import Reals List ZArith Lra Lia.
From Coquelicot Require Import Coquelicot.
From MellonV Require Import ALists AKernels AKExpr AListsFacts AProfiles ADistThm AGradThm AKPos.
Import ListNotations.
Open Scope R_scope.

Theorem kgrad_correct_all_points e n : wfs e n -> forall x y c, length x = n -> length y = n -> (c < n)%nat ->
  is_derive (fun t => keval e x (upd y c t)) (nth c y 0) (kgrad_true e x y c).
Proof.
  intros H x y c Hx Hy Hc. apply kgrad_correct; [congruence|rewrite Hy; exact Hc|].
  apply wfs_wfk; [congruence|]. rewrite Hy. exact H.
Qed.
