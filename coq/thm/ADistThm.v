(* The generated distance entry (util.distance): documented form, symmetry, floor.  Used by C05 and C11. *)
From Coq Require Import Reals List ZArith Lra Lia.
From MellonV Require Import ALists AKernels AKExpr AListsFacts.
Import ListNotations.
Open Scope R_scope.

(* ------------------------------------------------------------------ distance *)
Lemma eps12_pos : 0 < 1 / 1000000000000. Proof. lra. Qed.

Lemma dist_pts_documented x y : length x = length y ->
  dist_pts x y = sqrt (sqdist x y + 1 / 1000000000000).
Proof.
  intros H. unfold dist_pts, distance_entry. rewrite <- (sqdist_expand x y H).
  rewrite Rmax_left; [reflexivity|]. pose proof (sqdist_nonneg x y). lra.
Qed.

Lemma dist_pts_sym x y : dist_pts x y = dist_pts y x.
Proof. unfold dist_pts, distance_entry. rewrite (dot_comm y x). do 2 f_equal. ring. Qed.

Lemma sqrt_eps12 : sqrt (1 / 1000000000000) = 1 / 1000000.
Proof.
  replace (1 / 1000000000000) with ((1 / 1000000) * (1 / 1000000)) by lra.
  apply sqrt_square. lra.
Qed.

Lemma dist_pts_ge x y : length x = length y -> 1 / 1000000 <= dist_pts x y.
Proof.
  intros H. rewrite dist_pts_documented by exact H. rewrite <- sqrt_eps12.
  apply sqrt_le_1_alt. pose proof (sqdist_nonneg x y). lra.
Qed.

Lemma dist_pts_self x : dist_pts x x = 1 / 1000000.
Proof. rewrite dist_pts_documented by reflexivity. rewrite sqdist_self, Rplus_0_l. apply sqrt_eps12. Qed.

Lemma dist_pts_pos x y : length x = length y -> 0 < dist_pts x y.
Proof. intros H. pose proof (dist_pts_ge x y H). lra. Qed.


Definition stationary (b : base) : Prop := match b with BLinear => False | _ => True end.
