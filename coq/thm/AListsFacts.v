(* Facts about the list-level semantics of lib/ALists.v *)
From Coq Require Import Reals List ZArith Lra Lia.
From Coquelicot Require Import Coquelicot.
From MellonV Require Import ALists.
Import ListNotations.
Open Scope R_scope.

Lemma map2_length {A B C} (f : A -> B -> C) la lb : length la = length lb -> length (map2 f la lb) = length la.
Proof. revert lb. induction la as [|a la IH]; intros [|b lb] H; simpl in *; try lia. rewrite IH; lia. Qed.

Lemma dot_comm x y : dot x y = dot y x.
Proof.
  unfold dot. revert y. induction x as [|a x IH]; intros [|b y]; simpl; try reflexivity.
  rewrite IH. ring.
Qed.

Lemma sqdist_expand x y : length x = length y -> sqdist x y = sumsq x - 2 * dot x y + sumsq y.
Proof.
  unfold sumsq, dot, sqdist. revert y. induction x as [|a x IH]; intros [|b y] H; cbn [map2 sum_list length] in *; try lia.
  - ring.
  - rewrite IH by lia. ring.
Qed.

Lemma sqdist_nonneg x y : 0 <= sqdist x y.
Proof.
  unfold sqdist. revert y. induction x as [|a x IH]; intros [|b y]; cbn [map2 sum_list]; try lra.
  specialize (IH y). pose proof (pow2_ge_0 (a - b)). lra.
Qed.

Lemma sqdist_sym x y : sqdist x y = sqdist y x.
Proof.
  unfold sqdist. revert y. induction x as [|a x IH]; intros [|b y]; cbn [map2 sum_list]; try reflexivity.
  rewrite IH. ring.
Qed.

Lemma sqdist_self x : sqdist x x = 0.
Proof. unfold sqdist. induction x as [|a x IH]; cbn [map2 sum_list]; [reflexivity|]. rewrite IH. ring. Qed.

(* ------------------------------------------------------------------ upd *)
Lemma upd_length l c t : length (upd l c t) = length l.
Proof. revert c. induction l as [|a l IH]; intros [|c]; simpl; auto. Qed.

Lemma nth_upd_same l c t : (c < length l)%nat -> nth c (upd l c t) 0 = t.
Proof. revert c. induction l as [|a l IH]; intros [|c] H; simpl in *; try lia; auto. apply IH. lia. Qed.

Lemma nth_upd_other l c i t : i <> c -> nth i (upd l c t) 0 = nth i l 0.
Proof.
  revert c i. induction l as [|a l IH]; intros [|c] [|i] H; simpl; try reflexivity; try congruence.
  apply IH. congruence.
Qed.

Lemma upd_self l c : upd l c (nth c l 0) = l.
Proof. revert c. induction l as [|a l IH]; intros [|c]; simpl; try reflexivity. now rewrite IH. Qed.

Lemma dot_upd x y c t : length x = length y -> (c < length y)%nat ->
  dot x (upd y c t) = dot x y + nth c x 0 * (t - nth c y 0).
Proof.
  unfold dot. revert y c. induction x as [|a x IH]; intros [|b y] [|c] H Hc; simpl in *; try lia.
  - ring.
  - rewrite IH by lia. ring.
Qed.

Lemma sqdist_upd x y c t : length x = length y -> (c < length y)%nat ->
  sqdist x (upd y c t) = sqdist x y - (nth c x 0 - nth c y 0) ^ 2 + (nth c x 0 - t) ^ 2.
Proof.
  unfold sqdist. revert y c. induction x as [|a x IH]; intros [|b y] [|c] H Hc; cbn [map2 sum_list length upd nth] in *; try lia.
  - ring.
  - rewrite IH by lia. ring.
Qed.

(* ------------------------------------------------------------------ take_idx / find_pos *)
Lemma take_idx_length idx x : length (take_idx idx x) = length idx.
Proof. apply map_length. Qed.

Lemma nth_take_idx idx x j : (j < length idx)%nat -> nth j (take_idx idx x) 0 = nth (nth j idx O) x 0.
Proof.
  intros H. unfold take_idx. rewrite (nth_indep _ 0 ((fun i => nth i x 0) O)) by (rewrite map_length; exact H).
  apply (map_nth (fun i => nth i x 0)).
Qed.

Lemma take_idx_upd_notin idx y c t : ~ In c idx -> take_idx idx (upd y c t) = take_idx idx y.
Proof.
  intros H. unfold take_idx. apply map_ext_in. intros i Hi. apply nth_upd_other. intro; subst; contradiction.
Qed.

Lemma take_idx_upd_in idx y c t j : NoDup idx -> nth_error idx j = Some c -> (c < length y)%nat ->
  take_idx idx (upd y c t) = upd (take_idx idx y) j t.
Proof.
  revert j. induction idx as [|i idx IH]; intros [|j] Hn He Hc; simpl in *; try discriminate.
  - injection He as ->. inversion Hn; subst. rewrite nth_upd_same by exact Hc. f_equal.
    apply take_idx_upd_notin. assumption.
  - inversion Hn; subst. rewrite (IH j) by assumption. f_equal.
    apply nth_upd_other. intro; subst. apply H1. eapply nth_error_In; eassumption.
Qed.

Lemma find_pos_some c idx j : find_pos c idx = Some j -> nth_error idx j = Some c.
Proof.
  revert j. induction idx as [|i idx IH]; intros j H; simpl in *; [discriminate|].
  destruct (Nat.eqb i c) eqn:E.
  - injection H as <-. apply Nat.eqb_eq in E. now subst.
  - destruct (find_pos c idx) as [k|]; simpl in H; [|discriminate]. injection H as <-. simpl. now apply IH.
Qed.

Lemma find_pos_none c idx : find_pos c idx = None -> ~ In c idx.
Proof.
  induction idx as [|i idx IH]; intros H; simpl in *; [tauto|].
  destruct (Nat.eqb i c) eqn:E; [discriminate|]. apply Nat.eqb_neq in E.
  destruct (find_pos c idx); simpl in H; [discriminate|]. intros [Hc|Hc]; [contradiction|]. now apply IH.
Qed.

Lemma nth_error_nth_nat (idx : list nat) j c : nth_error idx j = Some c -> nth j idx O = c /\ (j < length idx)%nat.
Proof.
  intros H. split.
  - apply nth_error_nth. exact H.
  - apply nth_error_Some. congruence.
Qed.

(* ------------------------------------------------------------------ the chain rule through x[..., active_dims] *)
Lemma derive_through_take idx y c (F : list R -> R) (G : nat -> R) :
  NoDup idx -> List.Forall (fun i => (i < length y)%nat) idx -> (c < length y)%nat ->
  (forall j, (j < length (take_idx idx y))%nat ->
     is_derive (fun t => F (upd (take_idx idx y) j t)) (nth j (take_idx idx y) 0) (G j)) ->
  is_derive (fun t => F (take_idx idx (upd y c t))) (nth c y 0)
            (match find_pos c idx with Some j => G j | None => 0 end).
Proof.
  intros Hn Hr Hc HF. destruct (find_pos c idx) as [j|] eqn:E.
  - apply find_pos_some in E. destruct (nth_error_nth_nat _ _ _ E) as [Hj Hlt].
    apply (is_derive_ext (fun t => F (upd (take_idx idx y) j t))).
    + intros t. now rewrite (take_idx_upd_in idx y c t j).
    + specialize (HF j). rewrite take_idx_length in HF. specialize (HF Hlt).
      rewrite nth_take_idx, Hj in HF by exact Hlt. exact HF.
  - apply find_pos_none in E.
    apply (is_derive_ext (fun _ => F (take_idx idx y))).
    + intros t. now rewrite take_idx_upd_notin.
    + apply (is_derive_const (F (take_idx idx y)) (nth c y 0)).
Qed.

Lemma derive_through_sel ad y c (F : list R -> R) (G : nat -> R) :
  dims_ok ad (length y) -> (c < length y)%nat ->
  (forall j, (j < length (sel ad y))%nat ->
     is_derive (fun t => F (upd (sel ad y) j t)) (nth j (sel ad y) 0) (G j)) ->
  is_derive (fun t => F (sel ad (upd y c t))) (nth c y 0) (expand ad (length y) G c).
Proof.
  intros [Hn Hr] Hc HF.
  destruct ad;
    try (unfold sel, expand in *;
         match goal with |- is_derive (fun t => F (take_idx (resolve_dims ?a _) _)) _ _ =>
           apply (is_derive_ext (fun t => F (take_idx (resolve_dims a (length y)) (upd y c t))));
           [intros t; rewrite upd_length; reflexivity|]
         end; apply derive_through_take; assumption).
  simpl. apply HF. exact Hc.
Qed.

Lemma sel_length_eq ad x y : length x = length y -> length (sel ad x) = length (sel ad y).
Proof. intros H. destruct ad; unfold sel; try exact H; rewrite !take_idx_length, H; reflexivity. Qed.

(* ------------------------------------------------------------------ selections only read the resolved coordinates *)
Lemma sel_agree ad x x' : length x = length x' ->
  (forall i, In i (resolve_dims ad (length x)) -> nth i x 0 = nth i x' 0) -> sel ad x = sel ad x'.
Proof.
  intros Hl H. destruct ad.
  - simpl in *. apply (nth_ext _ _ 0 0); [exact Hl|]. intros n Hn. apply H. apply in_seq. lia.
  - unfold sel, take_idx. rewrite <- Hl. apply map_ext_in. exact H.
  - unfold sel, take_idx. rewrite <- Hl. apply map_ext_in. exact H.
  - unfold sel, take_idx. rewrite <- Hl. apply map_ext_in. exact H.
  - unfold sel, take_idx. rewrite <- Hl. apply map_ext_in. exact H.
Qed.

Lemma expand_outside ad n G c : ad <> DNone -> ~ In c (resolve_dims ad n) -> expand ad n G c = 0.
Proof.
  intros Hne Hc. destruct ad; try congruence; unfold expand;
    (destruct (find_pos c _) as [j|] eqn:E; [|reflexivity]);
    apply find_pos_some in E; apply nth_error_In in E; contradiction.
Qed.

(* ------------------------------------------------------------------ sorting / quantile *)
Lemma rinsert_In a l x : In x (rinsert a l) <-> x = a \/ In x l.
Proof.
  induction l as [|b l IH]; simpl; [intuition|].
  destruct (Rle_dec a b); simpl; [intuition|]. rewrite IH. intuition.
Qed.

Lemma rsort_In l x : In x (rsort l) <-> In x l.
Proof. induction l as [|a l IH]; simpl; [tauto|]. rewrite rinsert_In, IH. intuition. Qed.

Lemma rinsert_length a l : length (rinsert a l) = S (length l).
Proof. induction l as [|b l IH]; simpl; [reflexivity|]. destruct (Rle_dec a b); simpl; auto. Qed.

Lemma rsort_length l : length (rsort l) = length l.
Proof. induction l as [|a l IH]; simpl; [reflexivity|]. now rewrite rinsert_length, IH. Qed.

Lemma rinsert_shift a l c : rinsert (a + c) (map (fun v => v + c) l) = map (fun v => v + c) (rinsert a l).
Proof.
  induction l as [|b l IH]; simpl; [reflexivity|].
  destruct (Rle_dec (a + c) (b + c)), (Rle_dec a b); simpl; try reflexivity; try lra. now rewrite IH.
Qed.

Lemma rsort_shift l c : rsort (map (fun v => v + c) l) = map (fun v => v + c) (rsort l).
Proof. induction l as [|a l IH]; simpl; [reflexivity|]. now rewrite IH, rinsert_shift. Qed.

Lemma interp_at_bounds s h lo a b : (S lo < length s)%nat -> INR lo <= h <= INR lo + 1 ->
  (forall v, In v s -> a <= v <= b) -> a <= interp_at s h lo <= b.
Proof.
  intros Hl Hh Hb. unfold interp_at.
  assert (a <= nth lo s 0 <= b) by (apply Hb, nth_In; lia).
  assert (a <= nth (S lo) s 0 <= b) by (apply Hb, nth_In; lia).
  set (u := nth lo s 0) in *. set (v := nth (S lo) s 0) in *. set (w := h - INR lo).
  assert (0 <= w <= 1) by (unfold w; lra). nra.
Qed.

Lemma interp_at_last s h lo a b : S lo = length s -> h = INR lo ->
  (forall v, In v s -> a <= v <= b) -> a <= interp_at s h lo <= b.
Proof.
  intros Hl Hh Hb. unfold interp_at. subst h. replace (INR lo - INR lo) with 0 by ring. rewrite Rmult_0_l, Rplus_0_r.
  apply Hb, nth_In. lia.
Qed.

Lemma interp_at_shift s h lo c : (S lo < length s)%nat ->
  interp_at (map (fun v => v + c) s) h lo = interp_at s h lo + c.
Proof.
  intros Hl. unfold interp_at.
  rewrite !(nth_indep (map _ s) 0 (0 + c)) by (rewrite map_length; lia).
  rewrite !(map_nth (fun v => v + c)). ring.
Qed.
