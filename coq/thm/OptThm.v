(* C17: theorems over the generated inference tables (gen/C17Tables.v) with the models of lib/OptSem.v.
   They carry the WIRING of the three optimisers into the estimator and the SHAPE of the loops; SciPy's line
   search, Adam's arithmetic and XLA are Section variables / hypotheses (contracts). *)
From Coq Require Import String.
From Coq Require Import Reals ZArith Bool Lra Lia FinFun List.
From MellonV Require Import PyVal OptSem C17Tables.
Import ListNotations.
Open Scope list_scope.

(* ------------------------------------------------------------------ _run_inference dispatch *)
Lemma run_inference_dispatch :
  map fst optimizer_names = ["adam"; "advi"; "L-BFGS-B"]%string
  /\ run_inference_model optimizer_names unknown_optimizer_exn attr_wiring "adam" = Ok (OAdam, attr_wiring OAdam)
  /\ run_inference_model optimizer_names unknown_optimizer_exn attr_wiring "advi" = Ok (OAdvi, attr_wiring OAdvi)
  /\ run_inference_model optimizer_names unknown_optimizer_exn attr_wiring "L-BFGS-B" = Ok (OLbfgsb, attr_wiring OLbfgsb)
  /\ routine_of OAdam = RAdam /\ routine_of OAdvi = RAdvi /\ routine_of OLbfgsb = RLbfgsb.
Proof. repeat split; reflexivity. Qed.

Lemma find_optimizer_none names s : ~ In s (map fst names) -> find_optimizer names s = None.
Proof.
  induction names as [|[n o] r IH]; intros H; [reflexivity|].
  cbn. destruct (String.eqb_spec s n) as [E|E].
  - exfalso. apply H. left. now symmetry.
  - apply IH. intros Hin. apply H. now right.
Qed.

Lemma unknown_optimizer_refused s :
  ~ In s (map fst optimizer_names) ->
  run_inference_model optimizer_names unknown_optimizer_exn attr_wiring s = Err ValueError.
Proof. intros H. unfold run_inference_model. now rewrite (find_optimizer_none _ _ H). Qed.

(* where the result fields go, per optimizer: the standard deviations come from ADVI only *)
Lemma result_wiring :
  (forall o, lookup_attr APre (attr_wiring o) = Some (SField FPre))
  /\ lookup_attr APreStd (attr_wiring OAdvi) = Some (SField FPreStd)
  /\ lookup_attr APreStd (attr_wiring OAdam) = Some SNone
  /\ lookup_attr APreStd (attr_wiring OLbfgsb) = Some SNone
  /\ lookup_attr ALosses (attr_wiring OAdam) = Some (SField FLosses)
  /\ lookup_attr ALosses (attr_wiring OAdvi) = Some (SField FLosses)
  /\ lookup_attr ALosses (attr_wiring OLbfgsb) = Some (SSingleton FLoss).
Proof. repeat split; try destruct o; reflexivity. Qed.

(* ------------------------------------------------------------------ L-BFGS-B *)
Section Lbfgsb.
  Variable Param : Type.
  Variable loss : Param -> R.
  Variable x0 opt_params : Param.
  Variable opt_fun_val : R.
  Notation attr_val := (lbfgsb_attr Param loss x0 opt_params opt_fun_val lbfgsb_fields (attr_wiring OLbfgsb)).

  Lemma lbfgs_wiring_table :
    attr_val APre = Some (LParam opt_params)
    /\ attr_val ALosses = Some (LRealList [opt_fun_val])
    /\ attr_val APreStd = Some LNone.
  Proof. repeat split; reflexivity. Qed.

  (* contract of ScipyMinimize(method="L-BFGS-B").run: fun_val is the objective at the returned parameters and
     not above the objective at the starting point *)
  Hypothesis lbfgsb_contract : opt_fun_val = loss opt_params /\ (opt_fun_val <= loss x0)%R.

  Lemma lbfgs_wiring :
    exists pre reported,
      attr_val APre = Some (LParam pre) /\ attr_val ALosses = Some (LRealList [reported])
      /\ loss pre = reported /\ (reported <= loss x0)%R.
  Proof.
    exists opt_params, opt_fun_val. destruct lbfgsb_contract as [H1 H2].
    repeat split; try reflexivity; [now symmetry|exact H2].
  Qed.
End Lbfgsb.

(* ------------------------------------------------------------------ loops *)
Section Loop.
  Variable State Val : Type.
  Variable step : Z -> State -> Val * State.

  Definition trace_of (r : State * list Val * list Z) : list Val := snd (fst r).
  Definition idxs_of (r : State * list Val * list Z) : list Z := snd r.

  Lemma loop_from_spec sk n : forall i s tr ix,
    sk_appended sk = AppStepValue -> sk_index sk = IdxLoopVar ->
    length (trace_of (loop_from State Val step sk n i s tr ix)) = (length tr + n * sk_appends sk)%nat
    /\ idxs_of (loop_from State Val step sk n i s tr ix) = ix ++ map (fun k => (i + Z.of_nat k)%Z) (seq 0 n).
  Proof.
    induction n as [|n IH]; intros i s tr ix Ha Hi.
    - cbn. split; [lia|now rewrite app_nil_r].
    - cbn [loop_from]. unfold step_index. rewrite Hi, Ha.
      destruct (step i s) as [v s']. destruct (IH (i + 1)%Z s' (tr ++ repeat v (sk_appends sk)) (ix ++ [i]) Ha Hi) as [H1 H2].
      split.
      + rewrite H1, app_length, repeat_length. lia.
      + rewrite H2, <- app_assoc. f_equal. cbn [app seq map]. f_equal; [f_equal; lia|].
        rewrite <- seq_shift, map_map. apply map_ext. intros k. lia.
  Qed.

  Lemma adam_trace_length n_iter s0 : (0 <= n_iter)%Z ->
    length (trace_of (run_loop State Val step adam_skel n_iter s0)) = Z.to_nat n_iter
    /\ idxs_of (run_loop State Val step adam_skel n_iter s0) = map Z.of_nat (seq 0 (Z.to_nat n_iter)).
  Proof.
    intros Hn. unfold run_loop, iterations.
    destruct (loop_from_spec adam_skel (Z.to_nat (n_iter + sk_offset adam_skel)) 0%Z s0 [] [] eq_refl eq_refl) as [H1 H2].
    split.
    - rewrite H1. cbn [length sk_appends adam_skel sk_offset]. rewrite Z.add_0_r. lia.
    - rewrite H2. cbn [app sk_offset adam_skel]. rewrite Z.add_0_r. apply map_ext. intros k. lia.
  Qed.

  Lemma advi_trace_length n_iter s0 : (0 <= n_iter)%Z ->
    length (trace_of (run_loop State Val step advi_skel n_iter s0)) = Z.to_nat n_iter
    /\ idxs_of (run_loop State Val step advi_skel n_iter s0) = map Z.of_nat (seq 0 (Z.to_nat n_iter)).
  Proof.
    intros Hn. unfold run_loop, iterations.
    destruct (loop_from_spec advi_skel (Z.to_nat (n_iter + sk_offset advi_skel)) 0%Z s0 [] [] eq_refl eq_refl) as [H1 H2].
    split.
    - rewrite H1. cbn [length sk_appends advi_skel sk_offset]. rewrite Z.add_0_r. lia.
    - rewrite H2. cbn [app sk_offset advi_skel]. rewrite Z.add_0_r. apply map_ext. intros k. lia.
  Qed.

  (* the returned parameters are read after the last step; stack() keeps the length *)
  Lemma params_after_last_step : sk_params_after_loop adam_skel = true /\ sk_params_after_loop advi_skel = true.
  Proof. split; reflexivity. Qed.

  (* iteration t of ADVI draws its samples from PRNGKey(t): a function of the loop index alone, all distinct *)
  Lemma advi_keys_are_loop_indices n_iter s0 : (0 <= n_iter)%Z ->
    let keys := advi_keys advi_key_source (idxs_of (run_loop State Val step advi_skel n_iter s0)) in
    keys = map Z.of_nat (seq 0 (Z.to_nat n_iter)) /\ NoDup keys.
  Proof.
    intros Hn keys. destruct (advi_trace_length n_iter s0 Hn) as [_ H]. subst keys.
    unfold advi_keys. change advi_key_source with KeyLoopIndex. cbv iota. rewrite H. split; [reflexivity|].
    apply FinFun.Injective_map_NoDup; [intros a b; apply Nat2Z.inj|apply seq_NoDup].
  Qed.
End Loop.

Lemma advi_std_positive log_std :
  Forall (fun s => (0 < s)%R) (std_sem advi_std_expr log_std)
  /\ length (std_sem advi_std_expr log_std) = length log_std.
Proof.
  change advi_std_expr with StdExp. cbn [std_sem]. split; [|apply map_length].
  apply Forall_forall. intros s Hs. apply in_map_iff in Hs. destruct Hs as [l [<- _]]. apply exp_pos.
Qed.

(* ------------------------------------------------------------------ no unseeded randomness on the inference path *)
Lemma fit_is_function_of_inputs :
  forallb site_ok random_sites = true
  /\ forallb (fun s => implb (on_inference_path s) (seed_kind_seeded (snd s))) random_sites = true
  /\ advi_key_source = KeyLoopIndex
  /\ direct_compute_landmarks_calls = []
  /\ forallb (fun c => String.eqb c "_compute_landmarks" || String.eqb c "parameters.compute_landmarks_rescale_time")
             compute_landmarks_callers = true
  /\ prepare_attribute_guards_set_value = true.
Proof. repeat split; vm_compute; reflexivity. Qed.

(* ------------------------------------------------------------------ convexity: the scalar core of the objective *)
Open Scope R_scope.

Lemma sq_half_strictly_convex x y t : x <> y -> 0 < t < 1 ->
  (t * x + (1 - t) * y) ^ 2 / 2 < t * (x ^ 2 / 2) + (1 - t) * (y ^ 2 / 2).
Proof.
  intros Hxy Ht.
  assert (0 < (x - y) ^ 2).
  { assert (Hd : x - y <> 0) by lra. pose proof (Rsqr_pos_lt (x - y) Hd) as Hp. unfold Rsqr in Hp. simpl. lra. }
  assert (0 < t * (1 - t)) by (apply Rmult_lt_0_compat; lra).
  assert (0 < t * (1 - t) * (x - y) ^ 2) by (apply Rmult_lt_0_compat; assumption).
  nra.
Qed.

Lemma exp_convex u v t : 0 <= t <= 1 -> exp (t * u + (1 - t) * v) <= t * exp u + (1 - t) * exp v.
Proof.
  intros Ht. set (m := t * u + (1 - t) * v).
  assert (Tan : forall w, exp m * (1 + (w - m)) <= exp w).
  { intros w. replace (exp w) with (exp m * exp (w - m)) by (rewrite <- exp_plus; f_equal; ring).
    apply Rmult_le_compat_l; [apply Rlt_le, exp_pos|apply exp_ineq1_le]. }
  pose proof (Tan u) as Hu. pose proof (Tan v) as Hv.
  assert (t * (exp m * (1 + (u - m))) + (1 - t) * (exp m * (1 + (v - m))) <= t * exp u + (1 - t) * exp v).
  { apply Rplus_le_compat; apply Rmult_le_compat_l; lra. }
  replace (t * (exp m * (1 + (u - m))) + (1 - t) * (exp m * (1 + (v - m)))) with (exp m) in H; [exact H|].
  unfold m. ring.
Qed.

Lemma exp_affine_convex a b x y t : 0 <= t <= 1 ->
  exp (a * (t * x + (1 - t) * y) + b) <= t * exp (a * x + b) + (1 - t) * exp (a * y + b).
Proof.
  intros Ht. replace (a * (t * x + (1 - t) * y) + b) with (t * (a * x + b) + (1 - t) * (a * y + b)) by ring.
  now apply exp_convex.
Qed.

(* PARTIAL (loss_strictly_convex).  Full statement: the objective  z |-> |z|^2/2 + sum_i exp(L_i z + c_i) - sum_i (L_i z + mu)
   + const  (C03: loss_is_documented) is strictly convex on R^k, hence has a unique minimiser.  Proved: its
   restriction to one coordinate with a single likelihood term: quadratic prior + exp(affine) - affine. *)
Definition loss_core (a b c : R) (z : R) : R := z ^ 2 / 2 + exp (a * z + b) - c * z.

Lemma loss_strictly_convex_partial a b c x y t : x <> y -> 0 < t < 1 ->
  loss_core a b c (t * x + (1 - t) * y) < t * loss_core a b c x + (1 - t) * loss_core a b c y.
Proof.
  intros Hxy Ht. unfold loss_core.
  pose proof (sq_half_strictly_convex x y t Hxy Ht).
  assert (0 <= t <= 1) by lra.
  pose proof (exp_affine_convex a b x y t H0).
  lra.
Qed.
