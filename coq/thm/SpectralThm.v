(* Consequences of the spectral theorem (lib/MxSpectral.v) for the eigen-truncation contract of thm/FactorThm.v:
   for a symmetric positive definite W and a full-rank request (p = n) the decomposition the contract asks for
   exists - kept pairs = all eigenpairs, nothing discarded.  (For 0 < p < n the contract additionally needs the
   selection of p positive eigenpairs out of the spectral decomposition; that bookkeeping is not formalised.) *)
From mathcomp Require Import all_ssreflect all_fingroup all_algebra.
From MellonV Require Import MatOps MxInst MxPsd MxChol MxSpectral MatGen CondThm FactorThm.
Set Implicit Arguments.
Unset Strict Implicit.
Unset Printing Implicit Defensive.
Import Order.TTheory GRing.Theory Num.Theory.
Local Open Scope ring_scope.

Section SpectralConsequences.
Variable F : rcfType.

Lemma qf_spectral n (P : 'M[F]_n) (d : 'cV[F]_n) (i : 'I_n) :
  P^T *m P = 1%:M -> qf (P *m diagv d *m P^T) (col i P) = d i 0.
Proof.
move=> PP; rewrite /qf.
have e : P^T *m col i P = delta_mx i 0.
  by rewrite colE mulmxA PP mul1mx.
have -> : (col i P)^T *m (P *m diagv d *m P^T) *m col i P = (P^T *m col i P)^T *m diagv d *m (P^T *m col i P).
  by rewrite trmx_mul trmxK !mulmxA.
by rewrite e -/(qf (diagv d) (delta_mx i 0)) qf_diagv (bigD1 i) //= big1 ?addr0 ?mxE ?eqxx ?expr1n ?mulr1 // => j ji; rewrite !mxE (negbTE ji) /= expr0n mulr0.
Qed.

(* eigenvalues of a positive definite matrix are positive *)
Lemma spectral_pd n (W : 'M[F]_n) :
  spd W -> exists P : 'M[F]_n, exists d : 'cV[F]_n,
    [/\ P^T *m P = 1%:M, W = P *m diagv d *m P^T & forall i, 0 < d i 0].
Proof.
move=> [sW pW]; have [P [d [PP eW]]] := spectral sW.
exists P, d; split=> // i.
have c0 : col i P != 0.
  apply/eqP => c; have := congr1 (fun M : 'M[F]_n => M i i) PP.
  rewrite !mxE eqxx (eq_bigr (fun=> 0)) ?big1 //; first by move/eqP; rewrite eq_sym oner_eq0.
  by move=> k _; have := congr1 (fun M : 'cV[F]_n => M k 0) c; rewrite !mxE => ->; rewrite mulr0.
by have := pW _ c0; rewrite qfE eW qf_spectral.
Qed.

(* the eigen contract is met by the full spectral decomposition when all n pairs are requested *)
Theorem eig_top_full n (W : 'M[F]_n) :
  spd W -> exists s : 'cV[F]_n, exists V : 'M[F]_(n, n), eig_top_of W s V.
Proof.
move=> sW; have [P [d [PP eW dpos]]] := spectral_pd sW.
exists d, P; exists 0%N, (0 : 'cV[F]_0), (0 : 'M[F]_(n, 0)); split=> //.
- by rewrite !mul0mx add0r.
- by case.
- by split=> //; [rewrite trmx0 mul0mx | apply/matrixP => -[]].
Qed.

(* ---- the eigen contract's decomposition exists whenever p <= rank W (deflation by Householder
        reflections: one positive eigenpair at a time; no sorting of the spectrum is needed) ---------- *)
Lemma spectral_psd n (W : 'M[F]_n) :
  sym W -> psd W -> exists P : 'M[F]_n, exists d : 'cV[F]_n,
    [/\ P^T *m P = 1%:M, W = P *m diagv d *m P^T & forall i, 0 <= d i 0].
Proof.
move=> sW pW; have [P [d [PP eW]]] := spectral sW.
by exists P, d; split=> // i; have := pW (col i P); rewrite qfE eW qf_spectral.
Qed.

Lemma rank_orth_congr n (H W : 'M[F]_n) : H *m H = 1%:M -> \rank (H *m W *m H) = \rank W.
Proof.
move=> HH; have [uH _] := mulmx1_unit HH.
rewrite mxrankMfree ?row_free_unit // -mxrank_tr trmx_mul mxrankMfree ?row_free_unit ?unitmx_tr //.
by rewrite mxrank_tr.
Qed.

Lemma diagv_delta n (d : 'cV[F]_n) i : diagv d *m delta_mx i 0 = d i 0 *: (delta_mx i 0 : 'cV[F]_n).
Proof.
apply/matrixP => a b; rewrite !mxE ord1 (bigD1 i) //= big1 => [|k ki].
  by rewrite !mxE !eqxx addr0 /= [b]ord1 eqxx andbT; case: eqP => [->|_]; rewrite ?mulr1 ?mul0r ?mulr0.
by rewrite !mxE (negbTE ki) /= mulr0.
Qed.

Lemma psd_dr n (B : 'M[F]_(1 + n)) : psd B -> psd (drsubmx B).
Proof.
move=> pB v; have := pB (col_mx 0 v).
rewrite -{1}[B]submxK tr_col_mx (@mul_row_block _ 1 1 n 1 n) (@mul_row_col _ 1 1 n) trmx0 !mul0mx !add0r mulmx0 add0r.
by [].
Qed.

Lemma eig_top_exists n p (W : 'M[F]_n) :
  sym W -> psd W -> (p <= \rank W)%N -> exists s : 'cV[F]_p, exists V : 'M[F]_(n, p), eig_top_of W s V.
Proof.
elim: p n W => [|p IH] n W sW pW.
  move=> _; have [P [d [PP eW d0]]] := spectral_psd sW pW.
  exists 0, 0; exists n, d, P; split=> //; first by rewrite addn0.
  - by rewrite !mul0mx addr0.
  - by case.
  - by split; [apply/matrixP => -[] | apply/matrixP => i [] | ].
case: n W sW pW => [|n] W sW pW; first by rewrite [W]flatmx0 mxrank0.
change ('M[F]_(1 + n)) in W => rk.
have [P [d [PP eW d0]]] := spectral_psd sW pW.
have [i di] : exists i, 0 < d i 0.
  case: (pickP (fun i => 0 < d i 0)) => [i hi|no]; first by exists i.
  have dz : d = 0.
    by apply/matrixP => i j; rewrite ord1 mxE; apply/eqP; rewrite eq_le d0 andbT leNgt no.
  have W0 : W = 0.
    rewrite eW dz; suff -> : diagv (0 : 'cV[F]_(1 + n)) = 0 by rewrite mulmx0 mul0mx.
    by apply/matrixP => a b; rewrite !mxE if_same.
  by move: rk; rewrite W0 mxrank0.
pose lam := d i 0; pose x : 'cV[F]_(1 + n) := col i P.
have x1 : (x^T *m x) 0 0 = 1.
  have := congr1 (fun M : 'M[F]_(1 + n) => M i i) PP; rewrite [RHS]mxE eqxx /= => h; rewrite -[RHS]h.
  by rewrite /x !mxE; apply: eq_bigr => k _; rewrite !mxE.
have Wx : W *m x = lam *: x.
  by rewrite /x eW colE -!mulmxA (mulmxA P^T) PP mul1mx diagv_delta -scalemxAr.
have [H [sH HH He]] := householder x1.
change ('M[F]_(1 + n)) in H.
pose e : 'cV[F]_(1 + n) := delta_mx 0 0.
have Hx : H *m x = e by rewrite -He mulmxA HH mul1mx.
have [B eB0] : {B : 'M[F]_(1 + n) | B = H *m W *m H} by eexists.
have sB : sym B by rewrite /sym eB0 !trmx_mul sH sW mulmxA.
have pB : psd B.
  by rewrite eB0 -{1}sH; apply: psd_congr.
have Be : B *m e = lam *: e by rewrite eB0 -!mulmxA He Wx -scalemxAr Hx.
have [sUL sDR eUR] := sym_block sB.
have dl0 : dlsubmx B = 0.
  apply/matrixP => a b; rewrite !mxE ord1.
  have := congr1 (fun M : 'cV[F]_(1 + n) => M (rshift 1 a) 0) Be.
  rewrite -colE !mxE (_ : lshift n 0 = 0 :> 'I_(1 + n)); last exact: val_inj.
  by move=> ->; rewrite (_ : (rshift 1 a == 0 :> 'I_(1 + n)) = false) ?mulr0.
have ul : ulsubmx B = lam%:M.
  rewrite [LHS]mx11_scalar !mxE; congr (_%:M).
  have := congr1 (fun M : 'cV[F]_(1 + n) => M 0 0) Be.
  rewrite -colE !mxE eqxx mulr1 => <-; congr (B _ _); exact: val_inj.
have Bblk : B = block_mx lam%:M 0 0 (drsubmx B).
  by rewrite -{1}[B]submxK ul eUR dl0 trmx0.
have rkB : \rank W = (1 + \rank (drsubmx B))%N.
  rewrite -(rank_orth_congr W HH) -eB0 [in LHS]Bblk rank_diag_block_mx; congr (_ + _)%N.
  by apply: mxrank_unit; rewrite unitmxE det_scalar1 unitfE gt_eqF.
have rk' : (p <= \rank (drsubmx B))%N by move: rk; rewrite rkB add1n ltnS.
have [s' [V' [q' [sd' [Vd' [qp eW' sd0 s0 [VV VdV VdVd]]]]]]] := IH n (drsubmx B) sDR (psd_dr pB) rk'.
pose s : 'cV[F]_(1 + p) := col_mx (lam%:M : 'M_1) s'.
pose V : 'M[F]_(1 + n, 1 + p) := H *m block_mx (1%:M : 'M[F]_1) 0 0 V'.
pose Vd : 'M[F]_(1 + n, q') := H *m col_mx (0 : 'M[F]_(1, q')) Vd'.
exists s, V; exists q', sd', Vd; split.
- by rewrite addnS qp.
- have -> : W = H *m B *m H by rewrite eB0 !mulmxA HH mul1mx -mulmxA HH mulmx1.
  have eT1 : col_mx (0 : 'M[F]_(1, q')) Vd' *m diagv sd' *m (col_mx (0 : 'M[F]_(1, q')) Vd')^T
             = block_mx 0 0 0 (Vd' *m diagv sd' *m Vd'^T).
    by rewrite tr_col_mx trmx0 mul_col_mx mul0mx (@mul_col_row _ 1 n q' 1 n) !mul0mx !mulmx0.
  have eT2 : block_mx (1%:M : 'M[F]_1) 0 0 V' *m diagv s *m (block_mx (1%:M : 'M[F]_1) 0 0 V')^T
             = block_mx lam%:M 0 0 (V' *m diagv s' *m V'^T).
    rewrite /s diagv_col_mx (@tr_block_mx _ 1 n 1 p) (@mulmx_block _ 1 n 1 p 1 p) !trmx0 trmx1.
    rewrite (@mulmx_block _ 1 n 1 p 1 n) !mul1mx !mulmx1 !mul0mx !mulmx0 !addr0 !add0r.
    by rewrite mul0mx.
  rewrite /V /Vd !trmx_mul sH.
  have -> : H *m col_mx 0 Vd' *m diagv sd' *m ((col_mx 0 Vd')^T *m H)
            + H *m block_mx 1%:M 0 0 V' *m diagv s *m ((block_mx 1%:M 0 0 V')^T *m H)
          = H *m (col_mx 0 Vd' *m diagv sd' *m (col_mx 0 Vd')^T
                  + block_mx 1%:M 0 0 V' *m diagv s *m (block_mx 1%:M 0 0 V')^T) *m H.
    by rewrite mulmxDr mulmxDl !mulmxA.
  congr (_ *m _ *m _); rewrite eT1 eT2 (@add_block_mx _ 1 n 1 n) !add0r [LHS]Bblk.
  by congr (block_mx _ _ _ _); rewrite {1}eW'.
- exact: sd0.
- move=> k; rewrite /s; case: (@split_ordP 1 p k) => k' ->.
    by rewrite (@col_mxEu _ 1 p 1) ord1 mxE eqxx mulr1n.
  by rewrite (@col_mxEd _ 1 p 1).
- split.
  + rewrite /V trmx_mul sH -mulmxA (mulmxA H) HH mul1mx (@tr_block_mx _ 1 n 1 p) (@mulmx_block _ 1 p 1 n 1 p).
    by rewrite !trmx0 trmx1 !mulmx0 !mul0mx mul1mx !addr0 add0r VV -scalar_mx_block.
  + rewrite /V /Vd trmx_mul sH -mulmxA (mulmxA H) HH mul1mx tr_col_mx trmx0 (@mul_row_block _ q' 1 n 1 p).
    by rewrite !mul0mx !mulmx0 !add0r VdV row_mx0.
  + by rewrite /Vd trmx_mul sH -mulmxA (mulmxA H) HH mul1mx tr_col_mx trmx0 (@mul_row_col _ q' 1 n) mul0mx add0r.
Qed.

(* ---- rank = number of non-zero eigenvalues: the side condition p <= rank W of the eigen contract says
        "at most as many pairs as there are positive eigenvalues", which is what the count rule of C10 keeps ---- *)
Lemma rank_diagv n (d : 'cV[F]_n) : \rank (diagv d) = #|[set i | d i 0 != 0]|.
Proof.
pose S := [set i | d i 0 != 0].
have -> : \rank (diagv d) = \rank (\sum_(i in S) <<delta_mx 0 i : 'rV[F]_n>>)%MS.
  apply/eqmx_rank/andP; split.
    apply/row_subP => i; case: (boolP (i \in S)) => [iS|iS].
      apply: (submx_trans _ (sumsmx_sup i iS (submx_refl _))).
      rewrite genmxE; have -> : row i (diagv d) = d i 0 *: delta_mx 0 i.
        by apply/matrixP => a b; rewrite !mxE ord1 eqxx /=; case: eqP => [->|]; rewrite ?eqxx ?mulr1 ?mulr0 // eq_sym => /eqP/negbTE ->; rewrite mulr0.
      exact: scalemx_sub.
    have -> : row i (diagv d) = 0; last exact: sub0mx.
    apply/matrixP => a b; rewrite !mxE; case: eqP => // _.
    by move: iS; rewrite inE negbK => /eqP.
  apply/sumsmx_subP => i iS; rewrite genmxE.
  have -> : delta_mx 0 i = (d i 0)^-1 *: row i (diagv d) :> 'rV[F]_n.
    apply/matrixP => a b; rewrite !mxE ord1 eqxx /=; move: iS; rewrite inE => di.
    by rewrite eq_sym; case: eqP => _; rewrite ?mulVf ?mulr0.
  by apply: scalemx_sub; apply: row_sub.
have /mxdirectP -> := @mxdirect_delta F _ (mem S) n id (in2W (@inj_id _)).
rewrite -sum1_card; apply: eq_bigr => i _ /=.
by rewrite mxrank_gen mxrank_delta.
Qed.

Lemma rank_spectral n (P : 'M[F]_n) (d : 'cV[F]_n) :
  P^T *m P = 1%:M -> \rank (P *m diagv d *m P^T) = #|[set i | d i 0 != 0]|.
Proof.
move=> PP; have [uPt uP] := mulmx1_unit PP.
rewrite mxrankMfree ?row_free_unit // -mxrank_tr trmx_mul mxrankMfree ?row_free_unit ?unitmx_tr // mxrank_tr.
exact: rank_diagv.
Qed.

(* for a positive semi-definite matrix: rank = number of POSITIVE eigenvalues *)
Theorem rank_is_positive_eigen_count n (W : 'M[F]_n) :
  sym W -> psd W -> exists P : 'M[F]_n, exists d : 'cV[F]_n,
    [/\ P^T *m P = 1%:M, W = P *m diagv d *m P^T, (forall i, 0 <= d i 0) & \rank W = #|[set i | 0 < d i 0]|].
Proof.
move=> sW pW; have [P [d [PP eW d0]]] := spectral_psd sW pW.
exists P, d; split=> //; rewrite {1}eW rank_spectral //.
by apply: eq_card => i; rewrite !inE lt_neqAle eq_sym d0 andbT.
Qed.

(* ---- the reduced-QR contract is satisfiable ------------------------------------------------ *)
Lemma qr_exists_b n m k (C : 'M[F]_(n, m)) : k = minn n m ->
  exists QR : 'M[F]_(n, k) * 'M[F]_(k, m), (QR.1 *m QR.2 == C) && (QR.1^T *m QR.1 == 1%:M).
Proof.
by move=> e; have [Q [R [h1 h2]]] := qr_exists C e; exists (Q, R); rewrite /= h1 h2 !eqxx.
Qed.

Definition qr_pair n m k (C : 'M[F]_(n, m)) : 'M[F]_(n, k) * 'M[F]_(k, m) :=
  match k =P minn n m with
  | ReflectT e => xchoose (qr_exists_b C e)
  | ReflectF _ => (0, 0)
  end.

Theorem qr_contract_satisfiable :
  qr_contract (fun n m k (C : 'M[F]_(n, m)) => (qr_pair k C).1) (fun n m k (C : 'M[F]_(n, m)) => (qr_pair k C).2).
Proof.
move=> n m k C e; rewrite /qr_pair; case: eqP => // e'.
by have /andP [/eqP h1 /eqP h2] := xchooseP (qr_exists_b C e').
Qed.

End SpectralConsequences.
