(* Consequences of the spectral theorem (lib/MxSpectral.v) for the eigen-truncation contract of thm/FactorThm.v:
   for a symmetric positive definite W and a full-rank request (p = n) the decomposition the contract asks for
   exists - kept pairs = all eigenpairs, nothing discarded.  (For 0 < p < n the contract additionally needs the
   selection of p positive eigenpairs out of the spectral decomposition; that bookkeeping is not formalised.) *)
From mathcomp Require Import all_ssreflect all_fingroup all_algebra.
From MellonV Require Import MatOps MxInst MxPsd MxChol MxSpectral MatGen CondThm FactorThm.
Set Implicit Arguments.
Unset Strict Implicit.
Unset Printing Implicit Defensive.
Import Order.TTheory GRing.Theory Num.Theory.
Local Open Scope ring_scope.

Section SpectralConsequences.
Variable F : rcfType.

Lemma qf_spectral n (P : 'M[F]_n) (d : 'cV[F]_n) (i : 'I_n) :
  P^T *m P = 1%:M -> qf (P *m diagv d *m P^T) (col i P) = d i 0.
Proof.
move=> PP; rewrite /qf.
have e : P^T *m col i P = delta_mx i 0.
  by rewrite colE mulmxA PP mul1mx.
have -> : (col i P)^T *m (P *m diagv d *m P^T) *m col i P = (P^T *m col i P)^T *m diagv d *m (P^T *m col i P).
  by rewrite trmx_mul trmxK !mulmxA.
by rewrite e -/(qf (diagv d) (delta_mx i 0)) qf_diagv (bigD1 i) //= big1 ?addr0 ?mxE ?eqxx ?expr1n ?mulr1 // => j ji; rewrite !mxE (negbTE ji) /= expr0n mulr0.
Qed.

(* eigenvalues of a positive definite matrix are positive *)
Lemma spectral_pd n (W : 'M[F]_n) :
  spd W -> exists P : 'M[F]_n, exists d : 'cV[F]_n,
    [/\ P^T *m P = 1%:M, W = P *m diagv d *m P^T & forall i, 0 < d i 0].
Proof.
move=> [sW pW]; have [P [d [PP eW]]] := spectral sW.
exists P, d; split=> // i.
have c0 : col i P != 0.
  apply/eqP => c; have := congr1 (fun M : 'M[F]_n => M i i) PP.
  rewrite !mxE eqxx (eq_bigr (fun=> 0)) ?big1 //; first by move/eqP; rewrite eq_sym oner_eq0.
  by move=> k _; have := congr1 (fun M : 'cV[F]_n => M k 0) c; rewrite !mxE => ->; rewrite mulr0.
by have := pW _ c0; rewrite qfE eW qf_spectral.
Qed.

(* the eigen contract is met by the full spectral decomposition when all n pairs are requested *)
Theorem eig_top_full n (W : 'M[F]_n) :
  spd W -> exists s : 'cV[F]_n, exists V : 'M[F]_(n, n), eig_top_of W s V.
Proof.
move=> sW; have [P [d [PP eW dpos]]] := spectral_pd sW.
exists d, P; exists 0%N, (0 : 'cV[F]_0), (0 : 'M[F]_(n, 0)); split=> //.
- by rewrite !mul0mx add0r.
- by case.
- by split=> //; [rewrite trmx0 mul0mx | apply/matrixP => -[]].
Qed.

(* ---- the reduced-QR contract is satisfiable ------------------------------------------------ *)
Lemma qr_exists_b n m k (C : 'M[F]_(n, m)) : k = minn n m ->
  exists QR : 'M[F]_(n, k) * 'M[F]_(k, m), (QR.1 *m QR.2 == C) && (QR.1^T *m QR.1 == 1%:M).
Proof.
by move=> e; have [Q [R [h1 h2]]] := qr_exists C e; exists (Q, R); rewrite /= h1 h2 !eqxx.
Qed.

Definition qr_pair n m k (C : 'M[F]_(n, m)) : 'M[F]_(n, k) * 'M[F]_(k, m) :=
  match k =P minn n m with
  | ReflectT e => xchoose (qr_exists_b C e)
  | ReflectF _ => (0, 0)
  end.

Theorem qr_contract_satisfiable :
  qr_contract (fun n m k (C : 'M[F]_(n, m)) => (qr_pair k C).1) (fun n m k (C : 'M[F]_(n, m)) => (qr_pair k C).2).
Proof.
move=> n m k C e; rewrite /qr_pair; case: eqP => // e'.
by have /andP [/eqP h1 /eqP h2] := xchooseP (qr_exists_b C e').
Qed.

End SpectralConsequences.
