(* C03: the nearest-neighbour-distance density integrates to one over (0, oo) *)
From Coq Require Import Reals List Lra Lia.
From Coquelicot Require Import Coquelicot.
From MellonV Require Import ALists AInference AInferenceThm.
Open Scope R_scope.

Section Normalisation.
Variables (c rho d : R).
Hypotheses (Hc : 0 < c) (Hrho : 0 < rho) (Hd : 0 < d).

(* antiderivative  -exp(-rho c r^d)  and the density, with r^d written exp(d ln r) *)
Definition F0 (r : R) : R := - exp (- (rho * c * exp (d * ln r))).
Definition dens0 (r : R) : R := rho * d * c * exp ((d - 1) * ln r) * exp (- (rho * c * exp (d * ln r))).

Lemma dens0_eq r : nn_density_c c rho d r = dens0 r.
Proof. reflexivity. Qed.

Lemma F0_derive r : 0 < r -> is_derive F0 r (dens0 r).
Proof.
  intros Hr. unfold F0, dens0. auto_derive; [exact Hr|].
  replace (exp ((d - 1) * ln r)) with (exp (d * ln r) * / r).
  - field. lra.
  - replace ((d - 1) * ln r) with (d * ln r + - ln r) by ring.
    rewrite exp_plus, exp_Ropp, exp_ln by exact Hr. reflexivity.
Qed.

Lemma pos_at_right : at_right 0 (fun a => 0 < a).
Proof. exists (mkposreal 1 Rlt_0_1). intros y _ Hy. exact Hy. Qed.

Lemma pos_at_infty : Rbar_locally p_infty (fun b => 0 < b).
Proof. exists 0. intros x Hx. exact Hx. Qed.

Lemma scale_to_minfty k : 0 < k -> filterlim (fun u => k * u) (Rbar_locally m_infty) (Rbar_locally m_infty).
Proof.
  intros Hk P [M HM]. exists (M / k). intros x Hx. apply HM.
  apply Rmult_lt_reg_r with (/ k); [now apply Rinv_0_lt_compat|].
  replace (k * x * / k) with x by (field; lra). exact Hx.
Qed.

Lemma scale_to_pinfty k : 0 < k -> filterlim (fun u => k * u) (Rbar_locally p_infty) (Rbar_locally p_infty).
Proof.
  intros Hk P [M HM]. exists (M / k). intros x Hx. apply HM.
  apply Rmult_lt_reg_r with (/ k); [now apply Rinv_0_lt_compat|].
  replace (k * x * / k) with x by (field; lra). exact Hx.
Qed.

Lemma negscale_to_minfty k : 0 < k -> filterlim (fun u => - (k * u)) (Rbar_locally p_infty) (Rbar_locally m_infty).
Proof.
  intros Hk P [M HM]. exists (- M / k). intros x Hx. apply HM.
  assert (- M < k * x); [|lra].
  apply Rmult_lt_reg_r with (/ k); [now apply Rinv_0_lt_compat|].
  replace (k * x * / k) with x by (field; lra). exact Hx.
Qed.

(* r^d -> 0 as r -> 0+ *)
Lemma rpow_at_0 : filterlim (fun r => exp (d * ln r)) (at_right 0) (locally 0).
Proof.
  apply (filterlim_comp _ _ _ (fun r => d * ln r) exp _ (Rbar_locally m_infty)).
  - apply (filterlim_comp _ _ _ ln (fun u => d * u) _ (Rbar_locally m_infty)).
    + exact is_lim_ln_0.
    + exact (scale_to_minfty d Hd).
  - exact is_lim_exp_m.
Qed.

Lemma rpow_at_infty : filterlim (fun r => exp (d * ln r)) (Rbar_locally p_infty) (Rbar_locally p_infty).
Proof.
  apply (filterlim_comp _ _ _ (fun r => d * ln r) exp _ (Rbar_locally p_infty)).
  - apply (filterlim_comp _ _ _ ln (fun u => d * u) _ (Rbar_locally p_infty)).
    + exact is_lim_ln_p.
    + exact (scale_to_pinfty d Hd).
  - exact is_lim_exp_p.
Qed.

Lemma lim_F0_0 : filterlim F0 (at_right 0) (locally (- 1)).
Proof.
  unfold F0.
  apply (filterlim_comp _ _ _ (fun r => exp (d * ln r)) (fun v => - exp (- (rho * c * v))) _ (locally 0)).
  - exact rpow_at_0.
  - replace (- 1) with ((fun v => - exp (- (rho * c * v))) 0) by (cbv beta; rewrite Rmult_0_r, Ropp_0, exp_0; reflexivity).
    apply (ex_derive_continuous (fun v => - exp (- (rho * c * v))) 0). auto_derive. exact I.
Qed.

Lemma lim_F0_inf : filterlim F0 (Rbar_locally p_infty) (locally 0).
Proof.
  unfold F0.
  apply (filterlim_comp _ _ _ (fun r => exp (d * ln r)) (fun v => - exp (- (rho * c * v))) _ (Rbar_locally p_infty)).
  - exact rpow_at_infty.
  - apply (filterlim_comp _ _ _ (fun v => - (rho * c * v)) (fun w => - exp w) _ (Rbar_locally m_infty)).
    + apply negscale_to_minfty. now apply Rmult_lt_0_compat.
    + apply (filterlim_comp _ _ _ exp (fun t => - t) _ (locally 0)).
      * exact is_lim_exp_m.
      * replace 0 with ((fun t => - t) 0) at 2 by (cbv beta; ring).
        apply (ex_derive_continuous (fun t => - t) 0). auto_derive. exact I.
Qed.

Theorem nn_density_normalised :
  is_RInt_gen (nn_density_c c rho d) (at_right 0) (Rbar_locally p_infty) 1.
Proof.
  apply (is_RInt_gen_ext (Derive F0)).
  - exists (fun a => 0 < a) (fun b => 0 < b); [exact pos_at_right|exact pos_at_infty|].
    intros a b Ha Hb x Hx. simpl in Hx. rewrite dens0_eq. apply is_derive_unique, F0_derive.
    destruct Hx as [Hx _]. unfold Rmin in Hx. destruct (Rle_dec a b); lra.
  - replace 1 with (0 - (- 1)) by ring.
    apply (is_RInt_gen_Derive F0 (- 1) 0).
    + exists (fun a => 0 < a) (fun b => 0 < b); [exact pos_at_right|exact pos_at_infty|].
      intros a b Ha Hb x Hx. simpl in Hx. exists (dens0 x). apply F0_derive.
      destruct Hx as [Hx _]. unfold Rmin in Hx. destruct (Rle_dec a b); lra.
    + exists (fun a => 0 < a) (fun b => 0 < b); [exact pos_at_right|exact pos_at_infty|].
      intros a b Ha Hb x Hx. simpl in Hx.
      assert (Hxp : 0 < x) by (destruct Hx as [Hx _]; unfold Rmin in Hx; destruct (Rle_dec a b); lra).
      apply (continuous_ext_loc (Derive F0) dens0).
      * exists (mkposreal x Hxp). intros y Hy. symmetry. apply is_derive_unique, F0_derive.
        unfold ball in Hy. simpl in Hy. unfold AbsRing_ball, abs, minus, plus, opp in Hy. simpl in Hy.
        apply Rabs_def2 in Hy. lra.
      * apply (ex_derive_continuous dens0 x). unfold dens0. auto_derive. repeat split; exact Hxp.
    + exact lim_F0_0.
    + exact lim_F0_inf.
Qed.

End Normalisation.
