(* C11: the analytic kernel gradients are the true derivatives, for every expression tree *)
From Coq Require Import Reals List ZArith Lra Lia.
From Coquelicot Require Import Coquelicot.
From MellonV Require Import ALists ARealExtra AKernels AKExpr AListsFacts AProfiles ADistThm.
Import ListNotations.
Open Scope R_scope.

Lemma scal_R (a b : R) : @scal R_AbsRing R_ModuleSpace a b = a * b.
Proof. reflexivity. Qed.

(* ------------------------------------------------------------------ distance and its gradient *)
Lemma dist_code_eq x y : dist_code x y = dist_pts x y.
Proof. reflexivity. Qed.

Lemma dist_partial x y c : length x = length y -> (c < length y)%nat ->
  is_derive (fun t => dist_pts x (upd y c t)) (nth c y 0) (dgrad_true x y c).
Proof.
  intros Hl Hc.
  set (A := sqdist x y - (nth c x 0 - nth c y 0) ^ 2).
  apply (is_derive_ext (fun t => sqrt (A + (nth c x 0 - t) ^ 2 + 1 / 1000000000000))).
  - intros t. rewrite dist_pts_documented by (now rewrite upd_length).
    rewrite sqdist_upd by assumption. reflexivity.
  - assert (Hp : 0 < A + (nth c x 0 - nth c y 0) ^ 2 + 1 / 1000000000000).
    { unfold A. pose proof (sqdist_nonneg x y). lra. }
    unfold dgrad_true. rewrite (dist_pts_documented x y Hl).
    replace (sqdist x y) with (A + (nth c x 0 - nth c y 0) ^ 2) by (unfold A; ring).
    set (xc := nth c x 0) in *. set (yc := nth c y 0) in *. clearbody A xc yc.
    auto_derive.
    + exact Hp.
    + assert (Hs : sqrt (A + (xc - yc) ^ 2 + 1 / 1000000000000) <> 0).
      { apply Rgt_not_eq, sqrt_lt_R0, Hp. }
      replace (A + (xc + - yc) * ((xc + - yc) * 1) + 1 / 1000000000000)
        with (A + (xc - yc) ^ 2 + 1 / 1000000000000) by ring.
      field. exact Hs.
Qed.

Definition eps_factor (x y : list R) : R := dist_pts x y / (dist_pts x y + 1 / 1000000000000).

(* the code's entry is the true partial derivative times dist/(dist+eps) *)
Lemma dgrad_code_factor x y c : length x = length y ->
  dgrad_code x y c = dgrad_true x y c * eps_factor x y.
Proof.
  intros Hl. unfold dgrad_code, dgrad_true, eps_factor, distance_grad_entry, distance_grad_eps.
  change (sqrt (Rmax (sumsq x - 2 * dot x y + sumsq y + 1 / 1000000000000) 0)) with (dist_pts x y).
  pose proof (dist_pts_pos x y Hl). field. lra.
Qed.

Lemma eps_factor_range x y : length x = length y -> 1 - 1 / 1000000 <= eps_factor x y < 1.
Proof.
  intros Hl. unfold eps_factor. pose proof (dist_pts_ge x y Hl) as H. set (D := dist_pts x y) in *.
  assert (0 < D + 1 / 1000000000000) by lra.
  split.
  - apply Rmult_le_reg_r with (D + 1 / 1000000000000); [assumption|].
    unfold Rdiv at 3. rewrite Rmult_assoc, Rinv_l by lra. nra.
  - apply Rmult_lt_reg_r with (D + 1 / 1000000000000); [assumption|].
    unfold Rdiv at 1. rewrite Rmult_assoc, Rinv_l by lra. lra.
Qed.

Lemma dgrad_code_close x y c : length x = length y ->
  Rabs (dgrad_code x y c - dgrad_true x y c) <= 1 / 1000000 * Rabs (dgrad_true x y c).
Proof.
  intros Hl. rewrite dgrad_code_factor by exact Hl.
  pose proof (eps_factor_range x y Hl) as [H1 H2].
  replace (dgrad_true x y c * eps_factor x y - dgrad_true x y c) with (dgrad_true x y c * (eps_factor x y - 1)) by ring.
  rewrite Rabs_mult, (Rmult_comm (1 / 1000000)). apply Rmult_le_compat_l; [apply Rabs_pos|].
  apply Rabs_le. lra.
Qed.

Lemma dgrad_coincident x c : dgrad_code x x c = 0 /\ dgrad_true x x c = 0.
Proof.
  split.
  - unfold dgrad_code, distance_grad_entry. unfold Rdiv. rewrite Rminus_diag_eq by reflexivity. ring.
  - unfold dgrad_true. unfold Rdiv. rewrite Rminus_diag_eq by reflexivity. ring.
Qed.

Lemma dist_denominator_pos x y : length x = length y -> 1 / 1000000 <= dist_code x y + distance_grad_eps.
Proof. intros Hl. rewrite dist_code_eq. pose proof (dist_pts_ge x y Hl). unfold distance_grad_eps. lra. Qed.

(* ------------------------------------------------------------------ leaves *)
Lemma is_derive_Rpower_comp (f : R -> R) (x df p : R) : 0 < f x -> is_derive f x df ->
  is_derive (fun t => Rpower (f t) p) x (p * Rpower (f x) (p - 1) * df).
Proof.
  intros Hp Hd.
  assert (Ha : is_derive (fun a => Rpower a p) (f x) (p * Rpower (f x) (p - 1))).
  { rewrite (Rpower_pred _ p) by exact Hp. unfold Rpower. auto_derive; [exact Hp|].
    field. lra. }
  replace (p * Rpower (f x) (p - 1) * df) with (df * (p * Rpower (f x) (p - 1))) by ring.
  exact (is_derive_comp (fun a => Rpower a p) f x _ _ Ha Hd).
Qed.

Lemma profile_comp_derive (k : R -> R) (co : R) x y j : length x = length y -> (j < length y)%nat ->
  is_derive k (dist_pts x y) co ->
  is_derive (fun t => k (dist_pts x (upd y j t))) (nth j y 0) (co * dgrad_true x y j).
Proof.
  intros Hl Hj Hk.
  replace (co * dgrad_true x y j) with (dgrad_true x y j * co) by ring.
  refine (is_derive_comp k (fun t => dist_pts x (upd y j t)) (nth j y 0) co (dgrad_true x y j) _ _).
  - rewrite upd_self. exact Hk.
  - apply dist_partial; assumption.
Qed.

Lemma base_kgrad_true_correct b ls x y j : length x = length y -> (j < length y)%nat -> base_ok b ls ->
  is_derive (fun t => base_k b ls x (upd y j t)) (nth j y 0) (base_kgrad dgrad_true b ls x y j).
Proof.
  intros Hl Hj [Hls Ha]. assert (ls <> 0) by lra.
  destruct b; simpl; rewrite ?dist_code_eq.
  - rewrite Matern32_kgrad_linear. apply profile_comp_derive; try assumption. now apply Matern32_radial_derivative.
  - rewrite Matern52_kgrad_linear. apply profile_comp_derive; try assumption. now apply Matern52_radial_derivative.
  - rewrite ExpQuad_kgrad_linear. apply profile_comp_derive; try assumption. now apply ExpQuad_radial_derivative.
  - rewrite Exponential_kgrad_linear. apply profile_comp_derive; try assumption. now apply Exponential_radial_derivative.
  - rewrite RatQuad_kgrad_linear. apply profile_comp_derive; try assumption. now apply RatQuad_radial_derivative.
  - unfold Linear_k, Linear_kgrad.
    apply (is_derive_ext (fun t => (dot x y + nth j x 0 * (t - nth j y 0)) / ls)).
    + intros t. now rewrite dot_upd.
    + auto_derive; [exact I|]. field. assumption.
Qed.

(* ------------------------------------------------------------------ every expression tree *)
Theorem kgrad_correct e : forall x y c, length x = length y -> (c < length y)%nat -> wfk e x y ->
  is_derive (fun t => keval e x (upd y c t)) (nth c y 0) (kgrad_true e x y c).
Proof.
  unfold kgrad_true.
  induction e; intros x y q Hl Hq Hw; cbn [wfk] in Hw; cbn [kgrad_gen keval];
    unfold select_active_dims, expand_to_inactive;
    pose proof (sel_length_eq ad x y Hl) as Hsl.
  - destruct Hw as [Hd Hb].
    apply (derive_through_sel ad y q (fun y' => base_k b ls (sel ad x) y')
             (fun j => base_kgrad dgrad_true b ls (sel ad x) (sel ad y) j) Hd Hq).
    intros j Hj. now apply base_kgrad_true_correct.
  - destruct Hw as [Hd [Hw1 Hw2]].
    apply (derive_through_sel ad y q (fun y' => Add_k_kk (keval e1 (sel ad x) y') (keval e2 (sel ad x) y')) _ Hd Hq).
    intros j Hj. unfold Add_k_kk, Add_kgrad_kk.
    refine (is_derive_plus (fun t => keval e1 (sel ad x) (upd (sel ad y) j t))
                           (fun t => keval e2 (sel ad x) (upd (sel ad y) j t)) _ _ _ _ _); [now apply IHe1|now apply IHe2].
  - destruct Hw as [Hd Hw1].
    apply (derive_through_sel ad y q (fun y' => Add_k_kc c (keval e (sel ad x) y')) _ Hd Hq).
    intros j Hj. unfold Add_k_kc, Add_kgrad_kc.
    replace (kgrad_gen dgrad_true e (sel ad x) (sel ad y) j) with (kgrad_gen dgrad_true e (sel ad x) (sel ad y) j + 0) by ring.
    refine (is_derive_plus (fun t => keval e (sel ad x) (upd (sel ad y) j t)) (fun _ => c) _ _ _ _ _);
      [now apply IHe|exact (is_derive_const c _)].
  - destruct Hw as [Hd [Hw1 Hw2]].
    apply (derive_through_sel ad y q (fun y' => Mul_k_kk (keval e1 (sel ad x) y') (keval e2 (sel ad x) y')) _ Hd Hq).
    intros j Hj. unfold Mul_k_kk, Mul_kgrad_kk.
    pose proof (IHe1 _ _ j Hsl Hj Hw1) as D1. pose proof (IHe2 _ _ j Hsl Hj Hw2) as D2.
    pose proof (is_derive_mult _ _ _ _ _ D1 D2 Rmult_comm) as D. cbv beta in D. rewrite !upd_self in D. exact D.
  - destruct Hw as [Hd Hw1].
    apply (derive_through_sel ad y q (fun y' => Mul_k_kc c (keval e (sel ad x) y')) _ Hd Hq).
    intros j Hj. unfold Mul_k_kc, Mul_kgrad_kc.
    replace (kgrad_gen dgrad_true e (sel ad x) (sel ad y) j * c) with (c * kgrad_gen dgrad_true e (sel ad x) (sel ad y) j) by ring.
    apply (is_derive_ext (fun t => c * keval e (sel ad x) (upd (sel ad y) j t))).
    + intros t. exact (Rmult_comm _ _).
    + refine (is_derive_scal (fun t => keval e (sel ad x) (upd (sel ad y) j t)) _ c _ _). now apply IHe.
  - destruct Hw as [Hd [Hw1 Hpos]].
    apply (derive_through_sel ad y q (fun y' => Pow_k p (keval e (sel ad x) y')) _ Hd Hq).
    intros j Hj. unfold Pow_k, Pow_kgrad.
    pose proof (IHe _ _ j Hsl Hj Hw1) as D1.
    assert (Hp' : 0 < (fun t => keval e (sel ad x) (upd (sel ad y) j t)) (nth j (sel ad y) 0)) by (cbv beta; now rewrite upd_self).
    pose proof (is_derive_Rpower_comp _ _ _ p Hp' D1) as D. cbv beta in D. rewrite !upd_self in D. exact D.
Qed.

(* exact zeros outside the resolved dimensions of a node, whatever the leaves compute *)
Lemma kgrad_inactive_zero dg e x y c : dims_of e <> DNone ->
  ~ In c (resolve_dims (dims_of e) (length y)) -> kgrad_gen dg e x y c = 0.
Proof.
  intros Hn Hc. destruct e; cbn [kgrad_gen dims_of] in *; unfold expand_to_inactive; now apply expand_outside.
Qed.

Lemma Linear_kgrad_entry dg ls x y c : base_kgrad dg BLinear ls x y c = nth c x 0 / ls.
Proof. reflexivity. Qed.

(* a stationary leaf: the code's entry is the true partial derivative times dist/(dist+eps) *)
Lemma base_kgrad_code_factor b ls x y c : stationary b -> length x = length y ->
  base_kgrad dgrad_code b ls x y c = base_kgrad dgrad_true b ls x y c * eps_factor x y.
Proof.
  intros Hs Hl. destruct b; simpl in *; try contradiction; rewrite (dgrad_code_factor x y c Hl).
  - rewrite !Matern32_kgrad_linear. ring.
  - rewrite !Matern52_kgrad_linear. ring.
  - rewrite !ExpQuad_kgrad_linear. ring.
  - rewrite !Exponential_kgrad_linear. ring.
  - rewrite !RatQuad_kgrad_linear. ring.
Qed.

(* ------------------------------------------------------------------ non-vacuity witness *)
Ltac dims_ok_tac := split; [cbn; repeat constructor; cbn; intuition lia | cbn; repeat constructor; lia].

Lemma wfk_example :
  let e := KMul (KPow (KAddC (KBase BExpQuad 2 (DInt (-1)%Z)) (1 / 2) (DList [0%Z; 2%Z])) (3 / 2) DNone)
                (KBase (BRatQuad 3) 1 (DMask [true; false; true])) (DSlice None None None) in
  let x := [1; 2; 3] in let y := [4; 5; 6] in
  wfk e x y /\ length x = length y /\ (1 < length y)%nat /\ dims_of e <> DNone
  /\ ~ In 5%nat (resolve_dims (dims_of e) (length y)).
Proof.
  cbv zeta. split; [|split; [reflexivity|split; [cbn; lia|split; [discriminate|cbn; intuition lia]]]].
  cbn [wfk]. split; [dims_ok_tac|]. split.
  - split; [dims_ok_tac|]. split.
    + split; [dims_ok_tac|]. split; [dims_ok_tac|]. split; [lra|exact I].
    + cbn [keval]. unfold Add_k_kc, select_active_dims. cbn [base_k].
      match goal with |- 0 < ExpQuad_k ?l ?d + _ => assert (0 < ExpQuad_k l d) by apply exp_pos end. lra.
  - split; [dims_ok_tac|]. split; lra.
Qed.
