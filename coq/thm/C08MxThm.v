(* C08, matrix part (MathComp, any real closed field): orthogonal maps preserve squared distances (entry-wise
   Q^T Q = I), the Gram matrix of reordered cells is P K P^T, and the function-space objective of the full model
   J(f) = 1/2 (f - mu)^T (K + jI)^-1 (f - mu) - sum_i ell(r_i, f_i)  satisfies  J_PX(P f) = J_X(f). *)
From mathcomp Require Import all_ssreflect all_fingroup all_algebra.
Set Implicit Arguments.
Unset Strict Implicit.
Unset Printing Implicit Defensive.
Import Order.TTheory GRing.Theory Num.Theory.
Local Open Scope ring_scope.

Section C08Mx.
Variable F : rcfType.

(* squared Euclidean norm of a column vector *)
Definition sqn n (v : 'cV[F]_n) : F := (v^T *m v) 0 0.

(* Q^T Q = I (entry-wise)  =>  Q preserves the dot product, hence |(Q a + t) - (Q b + t)|^2 = |a - b|^2 *)
Lemma orth_preserves_dot n (Q : 'M[F]_n) (v w : 'cV[F]_n) : Q^T *m Q = 1%:M -> (Q *m v)^T *m (Q *m w) = v^T *m w.
Proof. by move=> hQ; rewrite trmx_mul mulmxA -(mulmxA v^T) hQ mulmx1. Qed.

Theorem sqdist_isometry_mx n (Q : 'M[F]_n) (t a b : 'cV[F]_n) : Q^T *m Q = 1%:M ->
  sqn ((Q *m a + t) - (Q *m b + t)) = sqn (a - b).
Proof.
  move=> hQ. have -> : (Q *m a + t) - (Q *m b + t) = Q *m (a - b).
    by rewrite mulmxBr opprD addrACA subrr addr0.
  by rewrite /sqn orth_preserves_dot.
Qed.

(* Gram matrix of the cells x_0 .. x_{n-1} for any two-point function k *)
Variable T : Type.
Definition gram_mx n (k : T -> T -> F) (x : 'I_n -> T) : 'M[F]_n := \matrix_(i, j) k (x i) (x j).

(* reordering the cells by a permutation s: Gram(PX) = P Gram(X) P^T with P = perm_mx s *)
Theorem gram_permutation n (k : T -> T -> F) (x : 'I_n -> T) (s : 'S_n) :
  gram_mx k (fun i => x (s i)) = perm_mx s *m gram_mx k x *m (perm_mx s)^T.
Proof.
  rewrite tr_perm_mx -col_permE -row_permE.
  by apply/matrixP=> i j; rewrite !mxE.
Qed.

Lemma perm_mx_unit n (s : 'S_n) : (perm_mx s : 'M[F]_n) \in unitmx.
Proof. exact: unitmx_perm. Qed.

Lemma perm_mxTK n (s : 'S_n) : (perm_mx s : 'M[F]_n)^T *m perm_mx s = 1%:M.
Proof. by rewrite tr_perm_mx -perm_mxM mulVg perm_mx1. Qed.
Lemma perm_mxKT n (s : 'S_n) : perm_mx s *m (perm_mx s : 'M[F]_n)^T = 1%:M.
Proof. by rewrite tr_perm_mx -perm_mxM mulgV perm_mx1. Qed.

(* the prior quadratic form is invariant: (P v)^T (P A P^T)^-1 (P v) = v^T A^-1 v *)
Lemma quad_permutation n (A : 'M[F]_n) (s : 'S_n) (v : 'cV[F]_n) : A \in unitmx ->
  (perm_mx s *m v)^T *m invmx (perm_mx s *m A *m (perm_mx s)^T) *m (perm_mx s *m v) = v^T *m invmx A *m v.
Proof.
  move=> uA. set P := perm_mx s.
  have hTK : P^T *m P = 1%:M by exact: perm_mxTK.
  have hKT : P *m P^T = 1%:M by exact: perm_mxKT.
  have hMB : (P *m A *m P^T) *m (P *m invmx A *m P^T) = 1%:M.
    rewrite !mulmxA -(mulmxA (P *m A) P^T P) hTK mulmx1.
    by rewrite -(mulmxA P A) mulmxV // mulmx1 hKT.
  have -> : invmx (P *m A *m P^T) = P *m invmx A *m P^T.
    have [uM _] := mulmx1_unit hMB.
    by rewrite -[RHS](mulKmx uM) hMB mulmx1.
  rewrite trmx_mul !mulmxA -(mulmxA v^T P^T P) hTK mulmx1.
  by rewrite -(mulmxA (v^T *m invmx A) P^T P) hTK mulmx1.
Qed.

(* the objective of the full model in function space; ell r f is the (uninterpreted) log-likelihood term of a cell *)
Variable ell : F -> F -> F.
Definition objective n (K : 'M[F]_n) (j mu : F) (r f : 'cV[F]_n) : F :=
  (2%:R)^-1 * ((f - const_mx mu)^T *m invmx (K + j%:M) *m (f - const_mx mu)) 0 0 - \sum_i ell (r i 0) (f i 0).

Lemma perm_const n (s : 'S_n) (mu : F) : perm_mx s *m (const_mx mu : 'cV[F]_n) = const_mx mu.
Proof. by rewrite -row_permE; apply/matrixP=> i j; rewrite !mxE. Qed.

Lemma perm_scalar n (s : 'S_n) (j : F) : perm_mx s *m j%:M *m (perm_mx s)^T = (j%:M : 'M[F]_n).
Proof. by rewrite -scalemx1 -scalemxAr -scalemxAl mulmx1 perm_mxKT scalemx1. Qed.

(* J_PX(P f) = J_X(f) *)
Theorem objective_permutation n (K : 'M[F]_n) (j mu : F) (r f : 'cV[F]_n) (s : 'S_n) :
  K + j%:M \in unitmx ->
  objective (perm_mx s *m K *m (perm_mx s)^T) j mu (perm_mx s *m r) (perm_mx s *m f) = objective K j mu r f.
Proof.
  move=> uA. rewrite /objective. congr (_ * _ - _).
  - have -> : perm_mx s *m K *m (perm_mx s)^T + j%:M = perm_mx s *m (K + j%:M) *m (perm_mx s)^T.
      by rewrite mulmxDr mulmxDl perm_scalar.
    have -> : perm_mx s *m f - const_mx mu = perm_mx s *m (f - const_mx mu).
      by rewrite mulmxBr perm_const.
    by rewrite (quad_permutation s _ uA).
  - rewrite [RHS](reindex_inj (@perm_inj _ s)) /=. apply: eq_bigr => i _.
    by rewrite -!row_permE !mxE.
Qed.

(* fitted values follow the permutation - partial: existence and uniqueness of the minimiser (strict convexity of
   the objective, property C03/C17) is a hypothesis here; what is proved is that the unique minimiser of the
   reordered problem is the reordered minimiser.
   Full statement: for every data set the optimiser's result on PX is P times its result on X. *)
Definition unique_min n (J : 'cV[F]_n -> F) (f : 'cV[F]_n) : Prop := forall g, g != f -> J f < J g.

Theorem fitted_follow_permutation_partial n (K : 'M[F]_n) (j mu : F) (r f : 'cV[F]_n) (s : 'S_n) :
  K + j%:M \in unitmx ->
  unique_min (objective K j mu r) f ->
  unique_min (objective (perm_mx s *m K *m (perm_mx s)^T) j mu (perm_mx s *m r)) (perm_mx s *m f).
Proof.
  move=> uA hmin g hg.
  have uP : (perm_mx s : 'M[F]_n) \in unitmx by exact: perm_mx_unit.
  have eg : g = perm_mx s *m ((perm_mx s)^T *m g) by rewrite mulmxA perm_mxKT mul1mx.
  rewrite eg !objective_permutation //. apply: hmin.
  apply: contra_neq hg => h. by rewrite eg h.
Qed.
End C08Mx.

(* non-vacuity: a 2 x 2 rotation by a quarter turn is orthogonal entry-wise; a positive scalar matrix is invertible *)
Example c08mx_nonvacuous (F : rcfType) :
  let Q : 'M[F]_2 := \matrix_(i, j) (if (i == 0) && (j == 1) then -1 else if (i == 1) && (j == 0) then 1 else 0) in
  Q^T *m Q = 1%:M.
Proof.
  apply/matrixP=> i j. rewrite !mxE big_ord_recl big_ord_recl big_ord0 !mxE /=.
  by case: i => [[|[|i]] hi] //; case: j => [[|[|j]] hj] //=; rewrite ?mulr0 ?mul0r ?mulr1 ?mul1r ?mulrNN ?addr0 ?add0r ?mulr1 //.
Qed.
