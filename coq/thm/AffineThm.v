(* C16 / C02 (matrix part): the weights are linear in (y - mu), hence affinity and
   column independence; interpolation identities pred(X) - y = - jitter * w;
   equal-entry sigma vector = scalar sigma. *)
From mathcomp Require Import all_ssreflect all_fingroup all_algebra.
From MellonV Require Import MatOps MxInst MxPsd MatGen CondThm.
Set Implicit Arguments.
Unset Strict Implicit.
Unset Printing Implicit Defensive.
Import Order.TTheory GRing.Theory Num.Theory.
Local Open Scope ring_scope.

Section Affine.
Variable F : rcfType.
Variable cholF : forall n : nat, 'M[F]_n -> 'M[F]_n.
Variable eigS : forall n p : nat, 'M[F]_n -> 'cV[F]_p.
Variable eigV : forall n p : nat, 'M[F]_n -> 'M[F]_(n, p).
Variable qrQ : forall n m k : nat, 'M[F]_(n, m) -> 'M[F]_(n, k).
Variable qrR : forall n m k : nat, 'M[F]_(n, m) -> 'M[F]_(k, m).
Hypothesis chol_ok : chol_contract cholF.

Let ops := MxOps cholF eigS eigV qrQ qrR.
Local Existing Instance ops.

(* ------------------------------------------------------------- full model *)
Section Full.
Variables (n : nat) (K : 'M[F]_n) (j : F).
Hypothesis symK : sym K.
Hypothesis psdK : psd K.
Hypothesis j_gt0 : 0 < j.

(* the three noise forms as one solve operator T(N) = (K + N)^-1 *)
Definition Tfull (N : 'M[F]_n) := invmx (K + N).

Lemma full_weights_linear c (y : 'M[F]_(n, c)) mu s (sv : 'cV[F]_n) :
  [/\ FullCond_init_LN_sS_cN_yT_uF_weights K y mu s j = Tfull j%:M *m (y - const_mx mu),
      FullCond_init_LN_sS_cN_yF_uF_weights K y mu s j = Tfull (Num.max (s ^+ 2) j)%:M *m (y - const_mx mu)
    & FullCond_init_LN_sV_cN_yF_uF_weights K y mu sv j
      = Tfull (diagv (\col_i Num.max (sv i 0 ^+ 2) j)) *m (y - const_mx mu)].
Proof.
by split; [exact: full_weights_ymean|exact: full_weights_scalar|exact: full_weights_vector].
Qed.

Lemma full_affine c (y : 'M[F]_(n, c)) mu s (sv : 'cV[F]_n) a b :
  [/\ FullCond_init_LN_sS_cN_yT_uF_weights K (a *: y + const_mx b) (a * mu + b) s j
        = a *: (FullCond_init_LN_sS_cN_yT_uF_weights K y mu s j : 'M[F]_(n, c)),
      FullCond_init_LN_sS_cN_yF_uF_weights K (a *: y + const_mx b) (a * mu + b) s j
        = a *: (FullCond_init_LN_sS_cN_yF_uF_weights K y mu s j : 'M[F]_(n, c))
    & FullCond_init_LN_sV_cN_yF_uF_weights K (a *: y + const_mx b) (a * mu + b) sv j
        = a *: (FullCond_init_LN_sV_cN_yF_uF_weights K y mu sv j : 'M[F]_(n, c))].
Proof.
by split; rewrite ?full_weights_ymean ?full_weights_scalar ?full_weights_vector // affine_rhs -scalemxAr.
Qed.

Lemma full_columns c (y : 'M[F]_(n, c)) mu s (sv : 'cV[F]_n) (l : 'I_c) :
  [/\ col l (FullCond_init_LN_sS_cN_yT_uF_weights K y mu s j)
        = FullCond_init_LN_sS_cN_yT_uF_weights K (col l y) mu s j,
      col l (FullCond_init_LN_sS_cN_yF_uF_weights K y mu s j)
        = FullCond_init_LN_sS_cN_yF_uF_weights K (col l y) mu s j
    & col l (FullCond_init_LN_sV_cN_yF_uF_weights K y mu sv j)
        = FullCond_init_LN_sV_cN_yF_uF_weights K (col l y) mu sv j].
Proof.
by split; rewrite ?full_weights_ymean ?full_weights_scalar ?full_weights_vector // col_mulmx col_rhs.
Qed.

(* interpolation: with y_is_mean, or sigma^2 <= jitter (in particular sigma = 0),
   the in-sample prediction misses y by exactly - jitter * weights *)
Lemma full_insample_ymean c (y : 'M[F]_(n, c)) mu s :
  let w := FullCond_init_LN_sS_cN_yT_uF_weights K y mu s j in
  FullCond_mean K mu w - y = - (j *: w).
Proof.
move=> w; have := full_normal_eq_ymean eigS eigV qrQ qrR chol_ok y mu symK psdK j_gt0 s; rewrite -/w => h.
rewrite /FullCond_mean /=.
have -> : K *m w = (y - const_mx mu) - j *: w.
  by rewrite -h mulmxDl mul_scalar_mx addrK.
by rewrite addrA [const_mx mu + _]addrC subrK addrAC subrr add0r.
Qed.

Lemma full_insample_small_sigma c (y : 'M[F]_(n, c)) mu s :
  s ^+ 2 <= j ->
  let w := FullCond_init_LN_sS_cN_yF_uF_weights K y mu s j in
  FullCond_mean K mu w - y = - (j *: w).
Proof.
move=> sj w; have := full_normal_eq_scalar eigS eigV qrQ qrR chol_ok y mu symK psdK j_gt0 s; rewrite -/w.
have -> : Num.max (s ^+ 2) j = j by apply/max_idPr.
move=> h; rewrite /FullCond_mean /=.
have -> : K *m w = (y - const_mx mu) - j *: w.
  by rewrite -h mulmxDl mul_scalar_mx addrK.
by rewrite addrA [const_mx mu + _]addrC subrK addrAC subrr add0r.
Qed.

(* a per-cell sigma vector with equal entries is the scalar sigma *)
Lemma constant_vector_sigma c (y : 'M[F]_(n, c)) mu s :
  FullCond_init_LN_sV_cN_yF_uF_weights K y mu (const_mx s) j
  = FullCond_init_LN_sS_cN_yF_uF_weights K y mu s j.
Proof.
rewrite full_weights_vector // full_weights_scalar //; congr (invmx (_ + _) *m _).
by apply/matrixP => i l; rewrite !mxE; case: eqP => // _; rewrite ?mulr1n ?mulr0n.
Qed.

End Full.

(* ------------------------------------------------------ inducing points *)
Section Dtc.
Variables (n m : nat) (Kuf : 'M[F]_(m, n)) (Kuu : 'M[F]_m) (j : F).
Hypothesis symK : sym Kuu.
Hypothesis psdK : psd Kuu.
Hypothesis j_gt0 : 0 < j.

Definition Mdtc (a : F) := Kuf *m Kuf^T + a *: (Kuu + j%:M).

Lemma dtc_w_solve c (y : 'M[F]_(n, c)) mu a : 0 < a ->
  dtc_w cholF Kuf Kuu y mu j a = invmx (Mdtc a) *m (Kuf *m (y - const_mx mu)).
Proof.
move=> a0; have u := spd_unit (dtc_coeff_spd Kuf symK psdK j_gt0 a0).
by rewrite -(dtc_normal_eq_closed chol_ok Kuf y mu symK psdK j_gt0 a0) mulmxA mulVmx // mul1mx.
Qed.

Lemma dtc_linear_ymean c (y : 'M[F]_(n, c)) mu s :
  LandmarksCond_init_sS_cN_yT_uF_weights Kuf Kuu y mu s j = invmx (Mdtc j) *m Kuf *m (y - const_mx mu).
Proof. by rewrite dtc_weights_ymean // dtc_w_solve // mulmxA. Qed.

Lemma dtc_linear_scalar c (y : 'M[F]_(n, c)) mu s :
  LandmarksCond_init_sS_cN_yF_uF_weights Kuf Kuu y mu s j
     = invmx (Mdtc (Num.max (s ^+ 2) j)) *m Kuf *m (y - const_mx mu).
Proof. by rewrite dtc_weights_scalar // dtc_w_solve ?mulmxA // max_jitter_gt0. Qed.

Lemma dtc_affine c (y : 'M[F]_(n, c)) mu s a b :
  LandmarksCond_init_sS_cN_yT_uF_weights Kuf Kuu (a *: y + const_mx b) (a * mu + b) s j
    = a *: (LandmarksCond_init_sS_cN_yT_uF_weights Kuf Kuu y mu s j : 'M[F]_(m, c))
  /\ LandmarksCond_init_sS_cN_yF_uF_weights Kuf Kuu (a *: y + const_mx b) (a * mu + b) s j
    = a *: (LandmarksCond_init_sS_cN_yF_uF_weights Kuf Kuu y mu s j : 'M[F]_(m, c)).
Proof.
split; first by rewrite !dtc_linear_ymean affine_rhs -scalemxAr.
by rewrite !dtc_linear_scalar affine_rhs -scalemxAr.
Qed.

Lemma dtc_columns c (y : 'M[F]_(n, c)) mu s (l : 'I_c) :
  col l (LandmarksCond_init_sS_cN_yT_uF_weights Kuf Kuu y mu s j)
    = LandmarksCond_init_sS_cN_yT_uF_weights Kuf Kuu (col l y) mu s j
  /\ col l (LandmarksCond_init_sS_cN_yF_uF_weights Kuf Kuu y mu s j)
    = LandmarksCond_init_sS_cN_yF_uF_weights Kuf Kuu (col l y) mu s j.
Proof.
split; first by rewrite !dtc_linear_ymean col_mulmx col_rhs.
by rewrite !dtc_linear_scalar col_mulmx col_rhs.
Qed.

(* in-sample error of the inducing-point predictor when the values lie in the range of
   K_xu (e.g. inducing points containing the cells): y - mu = K_xu c0  ==>
   mean(X) - y = - j K_xu (K_ux K_xu + j A')^-1 A' c0 *)
Lemma dtc_insample c (y : 'M[F]_(n, c)) mu s (c0 : 'M[F]_(m, c)) :
  y - const_mx mu = Kuf^T *m c0 ->
  let w := LandmarksCond_init_sS_cN_yT_uF_weights Kuf Kuu y mu s j in
  LandmarksCond_mean Kuf^T mu w - y = - (j *: (Kuf^T *m (invmx (Mdtc j) *m ((Kuu + j%:M) *m c0)))).
Proof.
move=> hy w; have u := spd_unit (dtc_coeff_spd Kuf symK psdK j_gt0 j_gt0).
have wE : w = c0 - j *: (invmx (Mdtc j) *m ((Kuu + j%:M) *m c0)).
  rewrite /w dtc_linear_ymean hy -mulmxA (mulmxA Kuf).
  have -> : Kuf *m Kuf^T = Mdtc j - j *: (Kuu + j%:M) by rewrite /Mdtc addrK.
  by rewrite mulmxBl mulmxBr mulmxA mulVmx // mul1mx -scalemxAl -scalemxAr.
rewrite /LandmarksCond_mean /= wE mulmxBr -hy -scalemxAr.
by rewrite addrA [const_mx mu + _]addrC subrK addrAC subrr add0r.
Qed.

End Dtc.

(* ------------------------------------------------ Cholesky-latent: linear in z *)
Lemma latent_linear m c (Kuu : 'M[F]_m) (z : 'M[F]_(m, c)) mu j n_obs s a :
  sym Kuu -> psd Kuu -> 0 < j ->
  LandmarksCholCond_init_LN_sS_yT_uF_weights Kuu (a *: z) mu n_obs s j
  = a *: (LandmarksCholCond_init_LN_sS_yT_uF_weights Kuu z mu n_obs s j : 'M[F]_(m, c)).
Proof.
move=> sK pK j0.
have [_ _ ->] := latent_eq_ymean eigS eigV qrQ qrR chol_ok (a *: z) mu sK pK j0 n_obs s.
have [_ _ ->] := latent_eq_ymean eigS eigV qrQ qrR chol_ok z mu sK pK j0 n_obs s.
by rewrite -!scalemxAr.
Qed.

End Affine.
