(* C04 / C02 (matrix part) / C09: the four factorisations of the kernel matrix
   (generated full_rank, standard_low_rank_*, full_decomposition_low_rank,
   modified_low_rank): L L^T identities, Loewner bound (K + jI) - L L^T >= 0,
   in-sample exactness of the Cholesky-latent predictor, sparse-vs-full identity. *)
From mathcomp Require Import all_ssreflect all_fingroup all_algebra.
From MellonV Require Import MatOps MxInst MxPsd MatGen CondThm.
Set Implicit Arguments.
Unset Strict Implicit.
Unset Printing Implicit Defensive.
Import Order.TTheory GRing.Theory Num.Theory.
Local Open Scope ring_scope.

Section Factor.
Variable F : rcfType.
Variable cholF : forall n : nat, 'M[F]_n -> 'M[F]_n.
Variable eigS : forall n p : nat, 'M[F]_n -> 'cV[F]_p.
Variable eigV : forall n p : nat, 'M[F]_n -> 'M[F]_(n, p).
Variable qrQ : forall n m k : nat, 'M[F]_(n, m) -> 'M[F]_(n, k).
Variable qrR : forall n m k : nat, 'M[F]_(n, m) -> 'M[F]_(k, m).
Hypothesis chol_ok : chol_contract cholF.

Let ops := MxOps cholF eigS eigV qrQ qrR.
Local Existing Instance ops.

(* what _eigendecomposition is assumed to return when it keeps p pairs of a
   symmetric psd matrix W (eigh contract + the slicing proved in C10): the kept
   pairs (s, V) together with the discarded ones (sd, Vd) form an orthogonal
   eigen-decomposition of W (n = q + p orthonormal vectors); kept eigenvalues are
   positive, discarded ones >= 0.
   The contract is only claimed for p <= rank W: a psd matrix has exactly rank W positive
   eigenvalues, so for larger p no such decomposition exists (with W = 0 and p = 1 the five
   clauses are contradictory) and an unconditional contract would make every theorem that
   assumes it vacuous.  The count rule proved in C10 keeps at most #(positive eigenvalues) pairs. *)
Definition eig_top_of n p (W : 'M[F]_n) (s : 'cV[F]_p) (V : 'M[F]_(n, p)) :=
  exists q, exists sd : 'cV[F]_q, exists Vd : 'M[F]_(n, q),
    [/\ (q + p = n)%N, W = Vd *m diagv sd *m Vd^T + V *m diagv s *m V^T,
        (forall i, 0 <= sd i 0), (forall i, 0 < s i 0)
      & [/\ V^T *m V = 1%:M, Vd^T *m V = 0 & Vd^T *m Vd = 1%:M]].
Definition eig_contract := forall n p (W : 'M[F]_n),
  sym W -> psd W -> (p <= \rank W)%N -> eig_top_of W (eigS p W) (eigV p W).

(* reduced QR: claimed only for k = min(n, m) columns (numpy's mode="reduced"); for any other k the two clauses can be
   contradictory (k = 0 and C <> 0), and an unconditional contract would make the theorems that assume it vacuous *)
Definition qr_contract := forall n m k (C : 'M[F]_(n, m)), k = minn n m ->
  qrQ k C *m qrR k C = C /\ (qrQ k C)^T *m qrQ k C = 1%:M.

(* ---- small algebra ---- *)
Lemma bcol_mulE n p (A : 'M[F]_(n, p)) (d : 'cV[F]_p) :
  (\matrix_(i, l) (A i l * d l 0)) = A *m diagv d.
Proof.
apply/matrixP => i l; rewrite !mxE (bigD1 l) //= big1 ?addr0; last first.
  by move=> t tl; rewrite !mxE (negbTE tl) mulr0.
by rewrite !mxE eqxx.
Qed.

Lemma bcol_divE n p (A : 'M[F]_(n, p)) (d : 'cV[F]_p) :
  (\matrix_(i, l) (A i l / d l 0)) = A *m diagv (\col_i (d i 0)^-1).
Proof. by rewrite -bcol_mulE; apply/matrixP => i l; rewrite !mxE. Qed.

Lemma diagv_sqrt_sq p (s : 'cV[F]_p) : (forall i, 0 <= s i 0) ->
  diagv (map_mx Num.sqrt s) *m (diagv (map_mx Num.sqrt s))^T = diagv s.
Proof.
move=> s0; rewrite diagv_tr diagv_mul; congr diagv; apply/matrixP => i l.
by rewrite !mxE ord1 -expr2 sqr_sqrtr.
Qed.

Lemma scaled_gram n p (V : 'M[F]_(n, p)) (s : 'cV[F]_p) : (forall i, 0 <= s i 0) ->
  (V *m diagv (map_mx Num.sqrt s)) *m (V *m diagv (map_mx Num.sqrt s))^T = V *m diagv s *m V^T.
Proof. by move=> s0; rewrite trmx_mul mulmxA -(mulmxA V) diagv_sqrt_sq. Qed.

Lemma max_sif (a b : F) : sif (a < b) b a = Num.max a b.
Proof. by rewrite /sif /Num.max; case: ifP. Qed.

(* ---- full: L L^T = K + max(sigma^2, j) I ---- *)
Section Full.
Variables (n : nat) (K : 'M[F]_n) (s j : F).
Hypothesis symK : sym K.
Hypothesis psdK : psd K.
Hypothesis j_gt0 : 0 < j.

Lemma full_rankE : full_rank K s j = cholF (K + (Num.max (s ^+ 2) j)%:M).
Proof. by rewrite /full_rank stabilizeE /= max_sif -expr2. Qed.

Lemma full_rank_chol : chol_of (full_rank K s j) (K + (Num.max (s ^+ 2) j)%:M).
Proof. by rewrite full_rankE; apply: chol_ok; apply: spd_jitter => //; apply: max_jitter_gt0. Qed.

Lemma full_LLt : full_rank K s j *m (full_rank K s j)^T = K + (Num.max (s ^+ 2) j)%:M.
Proof. by case: full_rank_chol. Qed.
End Full.

(* ---- inducing points: L = K_xu Lp^-T ---- *)
Section Standard.
Variables (n m : nat) (Kxu : 'M[F]_(n, m)) (Kuu : 'M[F]_m) (s j : F).
Hypothesis symK : sym Kuu.
Hypothesis psdK : psd Kuu.
Hypothesis j_gt0 : 0 < j.

Lemma standard_given (Lp : 'M[F]_m) s' j' :
  is_lower Lp -> standard_low_rank_PM Kxu Lp s' j' = Kxu *m invmx Lp^T.
Proof. by move=> lL; rewrite /standard_low_rank_PM /= lowpart_id // trmx_mul trmxK trmx_inv. Qed.

Lemma standard_recomputed :
  let Lp := full_rank Kuu s j in
  standard_low_rank_PN Kxu Kuu s j = Kxu *m invmx Lp^T.
Proof.
move=> Lp; rewrite /standard_low_rank_PN -/Lp.
case: (full_rank_chol s symK psdK j_gt0) => lL _ _.
by rewrite /= lowpart_id // trmx_mul trmxK trmx_inv.
Qed.

Lemma standard_LLt :
  let L := standard_low_rank_PN Kxu Kuu s j in
  L *m L^T = Kxu *m invmx (Kuu + (Num.max (s ^+ 2) j)%:M) *m Kxu^T.
Proof.
move=> L; rewrite /L standard_recomputed trmx_mul trmx_inv trmxK.
have cL := full_rank_chol s symK psdK j_gt0.
by rewrite mulmxA -(mulmxA Kxu) (chol_inv cL).
Qed.

(* C02: the Cholesky-latent predictor built with the same Lp reproduces L z at the cells *)
Lemma chol_insample c (Lp : 'M[F]_m) (z : 'M[F]_(m, c)) mu n_obs s1 j1 s2 j2 :
  is_lower Lp ->
  Kxu *m LandmarksCholCond_init_LM_sS_yT_uF_weights z mu n_obs Lp s1 j1
  = standard_low_rank_PM Kxu Lp s2 j2 *m z.
Proof.
move=> lL; rewrite standard_given // /LandmarksCholCond_init_LM_sS_yT_uF_weights.
by rewrite (solve_upper_tr _ _ _ _ _ _ lL) mulmxA.
Qed.

End Standard.

(* ---- Loewner bound for the Nystroem projection (Schur complement) ---- *)
Lemma psd_block_shift n m (A : 'M[F]_n) (B : 'M[F]_(n, m)) (C : 'M[F]_m) a :
  0 <= a -> psd (block_mx A B B^T C) -> psd (block_mx (A + a%:M) B B^T C).
Proof.
move=> a0 pJ.
have -> : block_mx (A + a%:M) B B^T C = block_mx A B B^T C + block_mx a%:M 0 0 0.
  by rewrite add_block_mx !addr0.
apply: psdD => // v; rewrite -[v]vsubmxK tr_col_mx mul_row_block mul_row_col !mulmx0 !addr0 mul0mx addr0.
exact: (psd_scalar a0).
Qed.

Lemma nystroem_below n m (Kxu : 'M[F]_(n, m)) (Kuu : 'M[F]_m) (Kxx : 'M[F]_n) a :
  sym Kuu -> psd Kuu -> 0 < a -> psd (block_mx Kuu Kxu^T Kxu Kxx) ->
  psd (Kxx - Kxu *m invmx (Kuu + a%:M) *m Kxu^T).
Proof.
move=> sK pK a0 pJ.
have sA : spd (Kuu + a%:M) by apply: spd_jitter.
have pJ' : psd (block_mx (Kuu + a%:M) Kxu^T (Kxu^T)^T Kxx).
  by apply: psd_block_shift; [exact: ltW|rewrite trmxK].
by have := schur_psd sA pJ'; rewrite trmxK.
Qed.


(* ---- eigen-truncation (full_nystroem) ---- *)
Section Nystroem.
Variables (n p : nat) (K : 'M[F]_n) (s j : F) (rank : nat).
Hypothesis symK : sym K.
Hypothesis psdK : psd K.
Hypothesis j_gt0 : 0 < j.
Hypothesis eig_ok : eig_contract.
Hypothesis p_le : (p <= n)%N.

Let a := Num.max (s ^+ 2) j.
Let W := K + a%:M.

Lemma W_sym_psd : sym W /\ psd W.
Proof.
have [sW pW] := spd_jitter symK psdK (max_jitter_gt0 (s ^+ 2) j_gt0).
by split=> //; apply: pd_psd.
Qed.

Lemma W_rank : \rank W = n.
Proof. by apply: mxrank_unit; apply: spd_unit; apply: spd_jitter => //; apply: max_jitter_gt0. Qed.

Lemma nystroem_LE :
  full_decomposition_low_rank p K rank s j = eigV p W *m diagv (map_mx Num.sqrt (eigS p W)).
Proof.
rewrite /full_decomposition_low_rank stabilizeE /= max_sif -expr2 -/a -/W.
by rewrite -bcol_mulE.
Qed.

(* L L^T = V_p S_p V_p^T, the kept eigenpairs of K + a I; the gap is the discarded part *)
Lemma nystroem_LLt :
  let L := full_decomposition_low_rank p K rank s j in
  L *m L^T = eigV p W *m diagv (eigS p W) *m (eigV p W)^T
  /\ exists q, exists sd : 'cV[F]_q, exists Vd : 'M[F]_(n, q),
       [/\ (q + p = n)%N, W - L *m L^T = Vd *m diagv sd *m Vd^T, (forall i, 0 <= sd i 0),
           psd (W - L *m L^T) & Vd^T *m Vd = 1%:M].
Proof.
move=> L; have [sW pW] := W_sym_psd.
have pr : (p <= \rank W)%N by rewrite W_rank.
have [q [sd [Vd [qp hW sd0 s0 [VV VdV VdVd]]]]] := eig_ok sW pW pr.
have LL : L *m L^T = eigV p W *m diagv (eigS p W) *m (eigV p W)^T.
  by rewrite /L nystroem_LE scaled_gram // => i; apply: ltW.
have gap : W - L *m L^T = Vd *m diagv sd *m Vd^T by rewrite LL {1}hW addrK.
split=> //; exists q, sd, Vd; rewrite gap; split=> //.
have -> : Vd *m diagv sd *m Vd^T = (Vd^T)^T *m diagv sd *m Vd^T by rewrite trmxK.
by apply: psd_congr; apply: psd_diagv.
Qed.

(* trace of the gap = discarded eigenvalue mass (when the discarded vectors are orthonormal) *)
Lemma gap_trace q (sd : 'cV[F]_q) (Vd : 'M[F]_(n, q)) :
  Vd^T *m Vd = 1%:M -> \tr (Vd *m diagv sd *m Vd^T) = \sum_i sd i 0.
Proof.
move=> o; rewrite mxtrace_mulC mulmxA o mul1mx /mxtrace.
by apply: eq_bigr => i _; rewrite !mxE eqxx.
Qed.

End Nystroem.

(* a full-rank request (all n pairs kept) reproduces the un-reduced matrix: nothing is discarded *)
Lemma nystroem_full_rank_exact n (K : 'M[F]_n) (s j : F) (rank : nat) :
  sym K -> psd K -> 0 < j -> eig_contract ->
  let L := full_decomposition_low_rank n K rank s j in
  L *m L^T = K + (Num.max (s ^+ 2) j)%:M.
Proof.
move=> sK pK j0 eig_ok L.
have [_ [q [sd [Vd [qn gap _ _ _]]]]] := @nystroem_LLt n n K s j rank sK pK j0 eig_ok (leqnn n).
have q0 : q = 0%N by apply/eqP; rewrite -(eqn_add2r n) add0n qn.
move: sd Vd gap; rewrite q0 => sd Vd gap.
by apply/eqP; rewrite eq_sym -subr_eq0 gap (thinmx0 Vd) !mul0mx.
Qed.

(* ---- improved Nystroem (modified_low_rank) ---- *)
Section Modified.
Variables (n m kq p p1 : nat) (Kxu : 'M[F]_(n, m)) (Kuu : 'M[F]_m) (s j : F) (rank : nat).
Hypothesis symK : sym Kuu.
Hypothesis psdK : psd Kuu.
Hypothesis j_gt0 : 0 < j.
Hypothesis eig_ok : eig_contract.
Hypothesis qr_ok : qr_contract.
Hypothesis kq_min : kq = minn n m.
Hypothesis p_le : (p <= m)%N.

Let a := Num.max (s ^+ 2) j.
Let W := Kuu + a%:M.
Let Q := qrQ kq Kxu.
Let R := qrR kq Kxu.
Let sv := eigS p W.
Let v := eigV p W.
Let T := R *m v.
Let Mi := T *m diagv (\col_i (sv i 0)^-1) *m T^T.

Lemma modified_LE :
  modified_low_rank kq p p1 Kxu Kuu rank s j
  = Q *m eigV p1 Mi *m diagv (map_mx Num.sqrt (eigS p1 Mi)).
Proof.
rewrite /modified_low_rank stabilizeE /= max_sif -expr2 -/a -/W -/Q -/R -/sv -/v -/T.
by rewrite bcol_divE -/Mi -bcol_mulE.
Qed.

Lemma Mi_sym_psd : (forall i, 0 < sv i 0) -> sym Mi /\ psd Mi.
Proof.
move=> s0; rewrite /Mi.
have -> : T *m diagv (\col_i (sv i 0)^-1) *m T^T = (T^T)^T *m diagv (\col_i (sv i 0)^-1) *m T^T by rewrite trmxK.
split; first by apply: sym_congr; apply: sym_diagv.
by apply: psd_congr; apply: psd_diagv => i; rewrite mxE invr_ge0 ltW.
Qed.

(* L L^T = Q [M]_p1 Q^T with M = T S^-1 T^T = R (v S^-1 v^T) R^T, and Q M Q^T = K_xu (v S^-1 v^T) K_ux *)
Lemma modified_LLt :
  (p1 <= \rank Mi)%N ->
  let L := modified_low_rank kq p p1 Kxu Kuu rank s j in
  [/\ L *m L^T = Q *m (eigV p1 Mi *m diagv (eigS p1 Mi) *m (eigV p1 Mi)^T) *m Q^T,
      Mi = R *m (v *m diagv (\col_i (sv i 0)^-1) *m v^T) *m R^T,
      Q *m Mi *m Q^T = Kxu *m (v *m diagv (\col_i (sv i 0)^-1) *m v^T) *m Kxu^T
    & psd (Q *m Mi *m Q^T - L *m L^T)].
Proof.
move=> p1_le L.
have [sW pW] : sym W /\ psd W.
  have [sW' pW'] := spd_jitter symK psdK (max_jitter_gt0 (s ^+ 2) j_gt0).
  by split=> //; apply: pd_psd.
have pr : (p <= \rank W)%N.
  by rewrite mxrank_unit //; apply: spd_unit; apply: spd_jitter => //; apply: max_jitter_gt0.
have [q [sd [Vd [_ hW sd0 s0 [VV VdV _]]]]] := eig_ok sW pW pr.
have [sM pM] := Mi_sym_psd s0.
have [q2 [sd2 [Vd2 [_ hM sd20 s20 [VV2 VdV2 _]]]]] := eig_ok sM pM p1_le.
have [QR QQ] := qr_ok Kxu kq_min.
have LL : L *m L^T = Q *m (eigV p1 Mi *m diagv (eigS p1 Mi) *m (eigV p1 Mi)^T) *m Q^T.
  rewrite /L modified_LE scaled_gram; last by move=> i; apply: ltW.
  by rewrite trmx_mul !mulmxA.
have ME : Mi = R *m (v *m diagv (\col_i (sv i 0)^-1) *m v^T) *m R^T.
  by rewrite /Mi /T trmx_mul !mulmxA.
split=> //.
  by rewrite ME !mulmxA QR -!mulmxA -trmx_mul QR !mulmxA.
rewrite LL -mulmxBl -mulmxBr {1}hM addrK.
have -> : Q *m (Vd2 *m diagv sd2 *m Vd2^T) *m Q^T = ((Q *m Vd2)^T)^T *m diagv sd2 *m (Q *m Vd2)^T.
  by rewrite trmxK trmx_mul !mulmxA.
by apply: psd_congr; apply: psd_diagv.
Qed.

End Modified.

(* ---- C09: inducing points = training cells ---- *)
Section SparseFull.
Variables (n : nat) (K : 'M[F]_n) (j : F).
Hypothesis symK : sym K.
Hypothesis psdK : psd K.
Hypothesis j_gt0 : 0 < j.

Let A' := K + j%:M.

Lemma A'_spd : spd A'. Proof. exact: spd_jitter. Qed.

Lemma sandwich_id (A B : 'M[F]_n) :
  A *m B = 1%:M -> B *m A = 1%:M ->
  (A - j%:M) *m B *m (A - j%:M) = A - (j + j)%:M + (j ^+ 2) *: B.
Proof.
move=> AB BA; rewrite mulmxBl AB mul_scalar_mx mulmxBl mul1mx !mulmxBr -scalemxAl BA.
rewrite mul_mx_scalar scalemx1 scalerA -expr2 opprB [(j + j)%:M]raddfD /= opprD !addrA.
by rewrite addrAC.
Qed.

(* L_s L_s^T = K A'^-1 K = A' - 2jI + j^2 A'^-1 *)
Lemma sparse_vs_full_LLt :
  let Ls := standard_low_rank_PN K K 0 j in
  let Lf := full_rank K 0 j in
  Ls *m Ls^T = Lf *m Lf^T - (j + j)%:M + (j ^+ 2) *: invmx A'.
Proof.
move=> Ls Lf; have uA := spd_unit A'_spd.
have m0 : Num.max ((0 : F) ^+ 2) j = j by rewrite expr0n /=; apply/max_idPr/ltW.
rewrite /Ls /Lf standard_LLt // full_LLt // m0 -/A' symK.
have {1 2}-> : K = A' - j%:M by rewrite /A' addrK.
by apply: sandwich_id; rewrite ?mulmxV ?mulVmx.
Qed.

End SparseFull.

End Factor.
