(* C08: density estimates transform correctly under symmetries of the data - world A (real analysis) part.
   Everything about the code is stated over the GENERATED definitions of world A: distance_entry /
   distance_grad_dist (util.distance), the kernel profiles and compute_cov_func (gen/AKernels.v, gen/ACovFunc.v),
   mle, nn_term, nn_loglik, loss, transform, compute_ls, compute_mu, initial_value_target (gen/AInference.v).
   Points are lists of reals; a data set is a list of points. *)
From Coq Require Import Reals List ZArith Lra Lia Permutation.
From Coquelicot Require Import Coquelicot.
From MellonV Require Import ALists ARealExtra AKernels AKExpr ACovFunc AInference AListsFacts ADistThm AKernelsThm AInferenceThm.
Import ListNotations.
Open Scope R_scope.

(* ------------------------------------------------------------------ vectors as lists *)
Definition vadd (x t : list R) : list R := map2 Rplus x t.
Definition vscale (a : R) (x : list R) : list R := map (Rmult a) x.
Definition matvec (Q : list (list R)) (x : list R) : list R := map (fun row => dot row x) Q.

Lemma vscale_length a x : length (vscale a x) = length x.
Proof. apply map_length. Qed.
Lemma vadd_length x t : length x = length t -> length (vadd x t) = length x.
Proof. apply map2_length. Qed.

Lemma sqdist_translate x y t : length x = length t -> length y = length t ->
  sqdist (vadd x t) (vadd y t) = sqdist x y.
Proof.
  unfold sqdist, vadd. revert y t. induction x as [|a x IH]; intros [|b y] [|c t] Hx Hy; cbn [map2 sum_list length] in *; try lia; try reflexivity.
  rewrite IH by lia. ring.
Qed.

Lemma sqdist_scale a x y : sqdist (vscale a x) (vscale a y) = a ^ 2 * sqdist x y.
Proof.
  unfold sqdist, vscale. revert y. induction x as [|u x IH]; intros [|v y]; cbn [map map2 sum_list]; try ring.
  rewrite IH. ring.
Qed.

(* a map of R^n that preserves squared Euclidean distances (and the dimension): translations, rotations,
   reflections and their compositions *)
Definition isometry (n : nat) (T : list R -> list R) : Prop :=
  (forall a, length a = n -> length (T a) = n)
  /\ (forall a b, length a = n -> length b = n -> sqdist (T a) (T b) = sqdist a b).

Lemma isometry_translate n t : length t = n -> isometry n (fun x => vadd x t).
Proof.
  intros Ht. split.
  - intros a Ha. rewrite vadd_length; lia.
  - intros a b Ha Hb. apply sqdist_translate; lia.
Qed.

Lemma isometry_compose n T1 T2 : isometry n T1 -> isometry n T2 -> isometry n (fun x => T2 (T1 x)).
Proof.
  intros [L1 D1] [L2 D2]. split.
  - intros a Ha. apply L2, L1, Ha.
  - intros a b Ha Hb. rewrite D2 by (apply L1; assumption). apply D1; assumption.
Qed.

(* linear maps given by a matrix (list of rows) that preserves the dot product, i.e. Q^T Q = I
   (bilinear form of orthogonality; the entry-wise form is related in thm/C08MxThm.v) *)
Definition orthogonal (n : nat) (Q : list (list R)) : Prop :=
  length Q = n /\ (forall row, In row Q -> length row = n)
  /\ (forall v w, length v = n -> length w = n -> dot (matvec Q v) (matvec Q w) = dot v w).

Lemma dot_sub_l x y z : length x = length y -> length y = length z ->
  dot (map2 Rminus x y) z = dot x z - dot y z.
Proof.
  unfold dot. revert y z. induction x as [|a x IH]; intros [|b y] [|c z] H1 H2; cbn [map2 sum_list length] in *; try lia; try ring.
  rewrite IH by lia. ring.
Qed.

Lemma matvec_sub Q x y : (forall row, In row Q -> length row = length x) -> length x = length y ->
  matvec Q (map2 Rminus x y) = map2 Rminus (matvec Q x) (matvec Q y).
Proof.
  intros HQ Hxy. unfold matvec. induction Q as [|r Q IH]; [reflexivity|].
  cbn [map map2]. rewrite IH by (intros; apply HQ; now right). f_equal.
  rewrite (dot_comm r), (dot_comm r x), (dot_comm r y). apply dot_sub_l; [exact Hxy|].
  rewrite <- Hxy. symmetry. apply HQ. now left.
Qed.

Lemma sqdist_as_sumsq x y : length x = length y -> sqdist x y = sumsq (map2 Rminus x y).
Proof.
  unfold sqdist, sumsq, dot. revert y. induction x as [|a x IH]; intros [|b y] H; cbn [map2 sum_list length] in *; try lia; try reflexivity.
  rewrite IH by lia. ring.
Qed.

Lemma matvec_length Q x : length (matvec Q x) = length Q.
Proof. apply map_length. Qed.

(* sqdist_isometry, linear part: |Qa - Qb|^2 = |a - b|^2 *)
Lemma isometry_orthogonal n Q : orthogonal n Q -> isometry n (matvec Q).
Proof.
  intros (HQ & Hrows & Horth). split.
  - intros a Ha. rewrite matvec_length. exact HQ.
  - intros a b Ha Hb.
    rewrite sqdist_as_sumsq by (rewrite !matvec_length; reflexivity).
    rewrite <- matvec_sub by (try (intros; rewrite Ha; apply Hrows; assumption); lia).
    unfold sumsq. rewrite Horth by (rewrite map2_length; lia).
    fold (sumsq (map2 Rminus a b)). symmetry. apply sqdist_as_sumsq. lia.
Qed.

(* sqdist_isometry: Q^T Q = I  =>  |(Qa + t) - (Qb + t)|^2 = |a - b|^2 *)
Theorem sqdist_isometry n Q t a b : orthogonal n Q -> length t = n -> length a = n -> length b = n ->
  sqdist (vadd (matvec Q a) t) (vadd (matvec Q b) t) = sqdist a b.
Proof.
  intros HQ Ht Ha Hb.
  destruct (isometry_compose n _ _ (isometry_orthogonal n Q HQ) (isometry_translate n t Ht)) as [_ H].
  apply H; assumption.
Qed.

(* ------------------------------------------------------------------ distance entries and stationary kernels *)
(* the generated distance entry is the eps = 1e-12 instance of the generated distance_grad_dist *)
Definition dist_eps (eps : R) (x y : list R) : R := distance_grad_dist eps (sumsq x) (dot x y) (sumsq y).
Lemma dist_pts_is_dist_eps x y : dist_pts x y = dist_eps (1 / 1000000000000) x y.
Proof. reflexivity. Qed.

Lemma dist_eps_documented eps x y : 0 <= eps -> length x = length y -> dist_eps eps x y = sqrt (sqdist x y + eps).
Proof.
  intros He H. unfold dist_eps, distance_grad_dist. rewrite <- (sqdist_expand x y H).
  rewrite Rmax_left; [reflexivity|]. pose proof (sqdist_nonneg x y). lra.
Qed.

Section Isometry.
Variable n : nat.
Variable T : list R -> list R.
Hypothesis HT : isometry n T.

Lemma dist_eps_isometry eps a b : 0 <= eps -> length a = n -> length b = n -> dist_eps eps (T a) (T b) = dist_eps eps a b.
Proof.
  intros He Ha Hb. destruct HT as [HL HD].
  rewrite !dist_eps_documented by (try exact He; rewrite ?HL; lia). now rewrite HD.
Qed.

(* every entry of util.distance *)
Theorem dist_pts_isometry a b : length a = n -> length b = n -> dist_pts (T a) (T b) = dist_pts a b.
Proof. intros. rewrite !dist_pts_is_dist_eps. apply dist_eps_isometry; [lra|assumption|assumption]. Qed.

(* every stationary kernel value, hence every Gram matrix; also for the generated covariance constructor *)
Theorem base_k_isometry b ls a c : stationary b -> length a = n -> length c = n ->
  base_k b ls (T a) (T c) = base_k b ls a c.
Proof. intros Hs Ha Hc. rewrite !base_k_profile by exact Hs. now rewrite dist_pts_isometry. Qed.

Definition gram (k : list R -> list R -> R) (X Y : list (list R)) : list (list R) :=
  map (fun x => map (fun y => k x y) Y) X.

Definition all_len (X : list (list R)) : Prop := forall x, In x X -> length x = n.

Theorem gram_isometry b ls X Y : stationary b -> all_len X -> all_len Y ->
  gram (keval (compute_cov_func (KBase b) ls None)) (map T X) (map T Y)
  = gram (keval (compute_cov_func (KBase b) ls None)) X Y.
Proof.
  intros Hs HX HY. unfold gram. rewrite map_map. apply map_ext_in. intros x Hx.
  rewrite map_map. apply map_ext_in. intros y Hy.
  rewrite !cov_func_no_time. apply base_k_isometry; auto.
Qed.

(* Euclidean distances between cells, the input of the neighbour search *)
Definition edist (x y : list R) : R := sqrt (sqdist x y).
Definition pair_dists (X : list (list R)) : list (list R) := gram edist X X.

Lemma pair_dists_isometry X : all_len X -> pair_dists (map T X) = pair_dists X.
Proof.
  intros HX. unfold pair_dists, gram. rewrite map_map. apply map_ext_in. intros x Hx.
  rewrite map_map. apply map_ext_in. intros y Hy. unfold edist. destruct HT as [_ HD]. rewrite HD; auto.
Qed.
End Isometry.

(* ------------------------------------------------------------------ nearest-neighbour distances *)
(* library contract of the neighbour search (validated on every run by C03 / C14 against brute force):
   the distance from each cell to the nearest OTHER row, i.e. a function of the pairwise Euclidean distances *)
Fixpoint remove_nth {A} (i : nat) (l : list A) : list A :=
  match l, i with
  | [], _ => []
  | _ :: r, O => r
  | a :: r, S i' => a :: remove_nth i' r
  end.
Definition min_list (l : list R) : R := match l with [] => 0 | a :: r => fold_left Rmin r a end.
Definition nn_from_pairs (D : list (list R)) : list R :=
  map (fun ir => min_list (remove_nth (fst ir) (snd ir))) (combine (seq 0 (length D)) D).
Definition nn_distances (X : list (list R)) : list R := nn_from_pairs (pair_dists X).

Theorem nn_distances_isometry n T X : isometry n T -> all_len n X -> nn_distances (map T X) = nn_distances X.
Proof. intros HT HX. unfold nn_distances. now rewrite (pair_dists_isometry n T HT). Qed.

(* ------------------------------------------------------------------ the inference problem *)
Section Problem.
Variable lgam : R -> R.
(* the latent factor L is some function of the Gram matrices K(x, landmarks), K(landmarks, landmarks)
   (world B: Cholesky / Nystroem factorisations); the statements hold for every such function *)
Variable factor : list (list R) -> list (list R) -> list (list R).

(* (nn distances, length scale, mu, K_xu, K_uu, L, loss as a function of the latent vector, regression target of
   the starting point) for cells X, inducing points U, per-cell dimensionalities dl, ls_factor lsf *)
Definition inference_problem (b : base) (lsf : R) (dl : list R) (X U : list (list R)) :=
  let nn := nn_distances X in
  let ls := compute_ls nn * lsf in
  let mu := compute_mu lgam nn dl in
  let k := keval (compute_cov_func (KBase b) ls None) in
  let L := factor (gram k X U) (gram k U U) in
  (nn, ls, mu, gram k X U, gram k U U, L,
   (fun z : list R => loss lgam (INR (length z)) nn dl (transform mu L) z),
   map2 (fun r d => initial_value_target lgam r d mu) nn dl).

(* inference_problem_isometry_invariant: translating / rotating / reflecting the cells together with the inducing
   points leaves nn distances, ls, mu, both Gram matrices, L, the loss (every z) and the starting-point target EQUAL *)
Theorem inference_problem_isometry_invariant n T b lsf dl X U :
  isometry n T -> stationary b -> all_len n X -> all_len n U ->
  inference_problem b lsf dl (map T X) (map T U) = inference_problem b lsf dl X U.
Proof.
  intros HT Hs HX HU. unfold inference_problem.
  rewrite (nn_distances_isometry n T X HT HX).
  rewrite !(gram_isometry n T HT b _ _ _ Hs) by assumption.
  reflexivity.
Qed.
End Problem.

(* ------------------------------------------------------------------ scaling by a > 0 *)
Lemma Rmin_scale a x y : 0 <= a -> Rmin (a * x) (a * y) = a * Rmin x y.
Proof.
  intros Ha. unfold Rmin. destruct (Rle_dec x y) as [H|H], (Rle_dec (a * x) (a * y)) as [H'|H']; try reflexivity.
  - exfalso. apply H'. apply Rmult_le_compat_l; assumption.
  - assert (a * y <= a * x) by (apply Rmult_le_compat_l; lra). lra.
Qed.

Lemma min_list_scale a l : 0 <= a -> min_list (map (Rmult a) l) = a * min_list l.
Proof.
  intros Ha. destruct l as [|x l]; [simpl; ring|]. cbn [min_list map].
  revert x. induction l as [|y l IH]; intros x; [reflexivity|]. cbn [map fold_left].
  rewrite Rmin_scale by exact Ha. apply IH.
Qed.

Lemma remove_nth_map {A B} (f : A -> B) i l : remove_nth i (map f l) = map f (remove_nth i l).
Proof. revert i. induction l as [|a l IH]; intros [|i]; cbn; try reflexivity. now rewrite IH. Qed.

Lemma nn_from_pairs_scale a D : 0 <= a -> nn_from_pairs (map (map (Rmult a)) D) = map (Rmult a) (nn_from_pairs D).
Proof.
  intros Ha. unfold nn_from_pairs. rewrite map_length. generalize (seq 0 (length D)) as idx.
  induction D as [|row D IH]; intros [|i idx]; cbn [combine map]; try reflexivity.
  rewrite IH. f_equal. cbn [fst snd]. rewrite remove_nth_map. apply min_list_scale, Ha.
Qed.

Lemma edist_scale a x y : 0 <= a -> edist (vscale a x) (vscale a y) = a * edist x y.
Proof.
  intros Ha. unfold edist. rewrite sqdist_scale, sqrt_mult by (try apply pow2_ge_0; apply sqdist_nonneg).
  f_equal. replace (a ^ 2) with (a * a) by ring. apply sqrt_square, Ha.
Qed.

Lemma pair_dists_scale a X : 0 <= a -> pair_dists (map (vscale a) X) = map (map (Rmult a)) (pair_dists X).
Proof.
  intros Ha. unfold pair_dists, gram. rewrite !map_map. apply map_ext. intros x.
  rewrite !map_map. apply map_ext. intros y. apply edist_scale, Ha.
Qed.

(* nn(aX) = a nn(X) *)
Theorem nn_distances_scale a X : 0 <= a -> nn_distances (map (vscale a) X) = map (Rmult a) (nn_distances X).
Proof. intros Ha. unfold nn_distances. rewrite pair_dists_scale, nn_from_pairs_scale by exact Ha. reflexivity. Qed.

(* ls -> a ls *)
Theorem compute_ls_scale a r : 0 < a -> r <> [] -> (forall v, In v r -> 0 < v) ->
  compute_ls (map (Rmult a) r) = a * compute_ls r.
Proof.
  intros Ha Hne Hp. rewrite !ls_default.
  change (map (Rmult a) r) with (map (fun v => a * v) r). rewrite (geomean_scale r a Ha Hne Hp). ring.
Qed.

(* mle -> mle - d ln a  (generated mle; AInferenceThm.mle_scale) and, for one common dimensionality d, mu -> mu - d ln a *)
Lemma map2_mle_scale lgam a d r : 0 < a -> (forall v, In v r -> 0 < v) ->
  map2 (mle lgam) (map (Rmult a) r) (repeat d (length r)) = map (fun v => v + (- d * ln a)) (map2 (mle lgam) r (repeat d (length r))).
Proof.
  intros Ha Hp. induction r as [|x r IH]; [reflexivity|].
  cbn [map length repeat map2]. rewrite IH by (intros; apply Hp; now right).
  f_equal. apply mle_scale; [exact Ha|apply Hp; now left].
Qed.

Theorem compute_mu_scale lgam a d r : 0 < a -> r <> [] -> (forall v, In v r -> 0 < v) ->
  compute_mu lgam (map (Rmult a) r) (repeat d (length r)) = compute_mu lgam r (repeat d (length r)) - d * ln a.
Proof.
  intros Ha Hne Hp. rewrite !mu_default. rewrite <- (map_length (Rmult a) r) at 1.
  rewrite map_length. rewrite (map2_mle_scale lgam a d r Ha Hp).
  rewrite quantile_list_shift; [ring| |lra].
  destruct r; [congruence|discriminate].
Qed.

(* the regulariser inside `distance` is absolute: for eps = 0 the distance entry is exactly equivariant,
   otherwise scaling the data by a amounts to replacing eps by eps / a^2 *)
Theorem dist_eps_scale a eps x y : 0 < a -> 0 <= eps -> length x = length y ->
  dist_eps eps (vscale a x) (vscale a y) = a * dist_eps (eps / a ^ 2) x y.
Proof.
  intros Ha He Hl.
  assert (He' : 0 <= eps / a ^ 2) by (apply Rmult_le_pos; [exact He|apply Rlt_le, Rinv_0_lt_compat, pow_lt, Ha]).
  rewrite !dist_eps_documented by (try assumption; rewrite ?vscale_length; assumption).
  rewrite sqdist_scale.
  replace (a ^ 2 * sqdist x y + eps) with (a ^ 2 * (sqdist x y + eps / a ^ 2)) by (field; lra).
  rewrite sqrt_mult by (try apply pow2_ge_0; pose proof (sqdist_nonneg x y); lra).
  f_equal. replace (a ^ 2) with (a * a) by ring. apply sqrt_square; lra.
Qed.

(* the five stationary profiles depend on dist / ls only *)
Lemma profile_scale b a ls d : 0 < a -> ls <> 0 -> profile b (a * ls) (a * d) = profile b ls d.
Proof.
  intros Ha Hl. assert (a <> 0) by lra.
  destruct b; cbn [profile]; try reflexivity;
    unfold Matern32_k, Matern52_k, ExpQuad_k, Exponential_k, RatQuad_k.
  - replace (sqrt 3 * (a * d) / (a * ls)) with (sqrt 3 * d / ls) by (field; split; assumption). reflexivity.
  - replace (sqrt 5 * (a * d) / (a * ls)) with (sqrt 5 * d / ls) by (field; split; assumption). reflexivity.
  - replace (a * d / (a * ls)) with (d / ls) by (field; split; assumption). reflexivity.
  - replace (a * d / (a * ls)) with (d / ls) by (field; split; assumption). reflexivity.
  - replace (a * d / (a * ls)) with (d / ls) by (field; split; assumption). reflexivity.
Qed.

(* a stationary kernel value with regulariser eps; the code's value is the eps = 1e-12 instance *)
Definition base_k_eps (eps : R) (b : base) (ls : R) (x y : list R) : R := profile b ls (dist_eps eps x y).
Lemma base_k_is_eps b ls x y : stationary b -> base_k b ls x y = base_k_eps (1 / 1000000000000) b ls x y.
Proof. intros Hs. now rewrite base_k_profile. Qed.

(* Gram_eps(aX; a ls) = Gram_{eps / a^2}(X; ls) *)
Theorem base_k_eps_scale a eps b ls x y : 0 < a -> 0 <= eps -> ls <> 0 -> length x = length y ->
  base_k_eps eps b (a * ls) (vscale a x) (vscale a y) = base_k_eps (eps / a ^ 2) b ls x y.
Proof.
  intros Ha He Hl Hxy. unfold base_k_eps. rewrite dist_eps_scale by assumption. apply profile_scale; assumption.
Qed.

Theorem gram_eps_scale a eps b ls X Y : 0 < a -> 0 <= eps -> ls <> 0 ->
  (forall x y, In x X -> In y Y -> length x = length y) ->
  gram (base_k_eps eps b (a * ls)) (map (vscale a) X) (map (vscale a) Y) = gram (base_k_eps (eps / a ^ 2) b ls) X Y.
Proof.
  intros Ha He Hl Hlen. unfold gram. rewrite map_map. apply map_ext_in. intros x Hx.
  rewrite map_map. apply map_ext_in. intros y Hy. apply base_k_eps_scale; auto.
Qed.

(* one likelihood term: distances scaled by a and log-density shifted by - d ln a lose exactly ln a *)
Lemma nn_term_scale lgam a r d l : 0 < a -> 0 < r ->
  nn_term lgam (a * r) d (l - d * ln a) = nn_term lgam r d l - ln a.
Proof.
  intros Ha Hr. unfold nn_term. rewrite !ln_mult by assumption.
  replace (l - d * ln a + ((ln a + ln r) * d + (d * ln PI / 2 - lgam (d / 2 + 1))))
    with (l + (ln r * d + (d * ln PI / 2 - lgam (d / 2 + 1)))) by ring.
  ring.
Qed.

Lemma nn_loglik_scale lgam a d r f : 0 < a -> (forall v, In v r -> 0 < v) -> length f = length r ->
  nn_loglik lgam (map (Rmult a) r) (repeat d (length r)) (map (fun v => v - d * ln a) f)
  = nn_loglik lgam r (repeat d (length r)) f - INR (length r) * ln a.
Proof.
  intros Ha Hp. unfold nn_loglik. revert f. induction r as [|x r IH]; intros [|y f] Hl; try discriminate.
  - simpl. ring.
  - change (length (x :: r)) with (S (length r)). rewrite S_INR.
    cbn [map repeat map3 sum_list]. rewrite IH by (try (intros; apply Hp; now right); simpl in Hl; lia).
    rewrite nn_term_scale by (try exact Ha; apply Hp; now left). ring.
Qed.

Lemma transform_shift mu c L z : transform (mu - c) L z = map (fun v => v - c) (transform mu L z).
Proof. unfold transform, transform_row. rewrite map_map. apply map_ext. intros row. ring. Qed.

Lemma transform_length mu L z : length (transform mu L z) = length L.
Proof. apply map_length. Qed.

(* loss_aX(z) = loss_X(z) + n ln a: same latent factor (eps = 0, or eps rescaled as above), nn distances scaled by a,
   mu shifted by - d ln a *)
Theorem loss_scale lgam a d r mu L z : 0 < a -> (forall v, In v r -> 0 < v) -> length L = length r ->
  loss lgam (INR (length z)) (map (Rmult a) r) (repeat d (length r)) (transform (mu - d * ln a) L) z
  = loss lgam (INR (length z)) r (repeat d (length r)) (transform mu L) z + INR (length r) * ln a.
Proof.
  intros Ha Hp HL. unfold loss. rewrite transform_shift.
  rewrite nn_loglik_scale by (try assumption; rewrite transform_length; exact HL). ring.
Qed.

(* the regression target of the starting point is unchanged: (mle - d ln a) - (mu - d ln a) *)
Theorem initial_target_scale lgam a d r mu : 0 < a -> 0 < r ->
  initial_value_target lgam (a * r) d (mu - d * ln a) = initial_value_target lgam r d mu.
Proof. intros Ha Hr. unfold initial_value_target. rewrite mle_scale by assumption. ring. Qed.

(* the k-NN Poisson term of the dimensionality estimator: scaling the distances by a is compensated only by lowering
   the log-density by (local dimension) * ln a - a shift that depends on the latent local dimension of each cell, whereas
   the priors move by constants (mu_dens - d0 ln a, mu_dim fixed).  Hence no statement like loss_scale holds for the
   dimensionality estimator: its fitted values are NOT scale-equivariant (finding reported by checks/C08.py under the key
   C08|DimensionalityEstimator|scale|fitted-values-not-equivariant). *)
Lemma poisson_term_scale lgam a dist cnt dims ld : 0 < a -> 0 < dist ->
  poisson_term lgam (a * dist) cnt dims (ld - dims * ln a) = poisson_term lgam dist cnt dims ld.
Proof.
  intros Ha Hd. unfold poisson_term. rewrite ln_mult by assumption.
  replace (ld - dims * ln a + (dims * (ln a + ln dist + ln PI / 2) - lgam (dims / 2 + 1)))
    with (ld + (dims * (ln dist + ln PI / 2) - lgam (dims / 2 + 1))) by ring.
  reflexivity.
Qed.

(* ------------------------------------------------------------------ time axis *)
(* the time kernel reads the last column through the same distance entry, so t -> a t + c together with
   ls_time -> a ls_time changes a kernel value only through the regulariser (eps -> eps / a^2; nothing for eps = 0) *)
Theorem time_kernel_affine a c eps b lt t t' : 0 < a -> 0 <= eps -> lt <> 0 ->
  base_k_eps eps b (a * lt) [a * t + c] [a * t' + c] = base_k_eps (eps / a ^ 2) b lt [t] [t'].
Proof.
  intros Ha He Hl.
  change [a * t + c] with (vadd (vscale a [t]) [c]). change [a * t' + c] with (vadd (vscale a [t']) [c]).
  unfold base_k_eps at 1.
  rewrite (dist_eps_isometry 1 (fun x => vadd x [c]) (isometry_translate 1 [c] eq_refl)) by (try exact He; reflexivity).
  fold (base_k_eps eps b (a * lt) (vscale a [t]) (vscale a [t'])).
  apply base_k_eps_scale; auto.
Qed.

(* the generated time-aware covariance (state kernel on all columns but the last, times time kernel on the last) *)
Theorem time_cov_affine a c b ls lt x y t t' : stationary b -> 0 < a -> lt <> 0 ->
  keval (compute_cov_func (KBase b) ls (Some (a * lt))) (x ++ [a * t + c]) (y ++ [a * t' + c])
  = base_k b ls x y * base_k_eps (1 / 1000000000000 / a ^ 2) b lt [t] [t'].
Proof.
  intros Hs Ha Hl. rewrite time_cov_is_product. f_equal.
  rewrite base_k_is_eps by exact Hs. apply time_kernel_affine; auto. lra.
Qed.

Theorem time_cov_reference b ls lt x y t t' : stationary b ->
  keval (compute_cov_func (KBase b) ls (Some lt)) (x ++ [t]) (y ++ [t'])
  = base_k b ls x y * base_k_eps (1 / 1000000000000) b lt [t] [t'].
Proof. intros Hs. rewrite time_cov_is_product. f_equal. apply base_k_is_eps, Hs. Qed.

(* a function of the rescaled time: its derivative at the image point is 1/a times the original derivative *)
Theorem time_derivative_scale (f : R -> R) df a c t : a <> 0 -> is_derive f t df ->
  is_derive (fun s => f ((s - c) / a)) (a * t + c) (df / a).
Proof.
  intros Ha Hf.
  assert (E : (a * t + c - c) / a = t) by (field; exact Ha).
  evar_last.
  - apply (is_derive_comp f (fun s => (s - c) / a)).
    + rewrite E. exact Hf.
    + auto_derive; [exact I|reflexivity].
  - unfold scal; simpl; unfold mult; simpl. field. exact Ha.
Qed.

(* ------------------------------------------------------------------ reordering the cells *)
Lemma sum_list_perm l l' : Permutation l l' -> sum_list l = sum_list l'.
Proof. induction 1; cbn [sum_list]; try lra. Qed.

Lemma rinsert_comm x y l : rinsert x (rinsert y l) = rinsert y (rinsert x l).
Proof.
  induction l as [|b l IH]; cbn [rinsert].
  - destruct (Rle_dec x y), (Rle_dec y x); try reflexivity; try (exfalso; lra).
    assert (x = y) by lra. now subst.
  - destruct (Rle_dec y b) as [Hyb|Hyb], (Rle_dec x b) as [Hxb|Hxb]; cbn [rinsert].
    + destruct (Rle_dec x y), (Rle_dec y x), (Rle_dec x b), (Rle_dec y b); try reflexivity; try (exfalso; lra).
      assert (x = y) by lra. now subst.
    + destruct (Rle_dec x y), (Rle_dec x b), (Rle_dec y b); try reflexivity; exfalso; lra.
    + destruct (Rle_dec y x), (Rle_dec x b), (Rle_dec y b); try reflexivity; exfalso; lra.
    + destruct (Rle_dec x b), (Rle_dec y b); try (exfalso; lra). now rewrite IH.
Qed.

Lemma rsort_perm l l' : Permutation l l' -> rsort l = rsort l'.
Proof.
  induction 1; cbn [rsort]; try congruence.
  apply rinsert_comm.
Qed.

Lemma quantile_list_perm l l' q : Permutation l l' -> quantile_list l q = quantile_list l' q.
Proof. intros H. unfold quantile_list. now rewrite (rsort_perm l l' H). Qed.

(* a data set as a list of cells (nn distance, dimensionality, row of L) *)
Definition cell := (R * R * list R)%type.
Definition c_r (cs : list cell) : list R := map (fun c => fst (fst c)) cs.
Definition c_d (cs : list cell) : list R := map (fun c => snd (fst c)) cs.
Definition c_L (cs : list cell) : list (list R) := map (fun c => snd c) cs.

Theorem compute_ls_perm cs cs' : Permutation cs cs' -> compute_ls (c_r cs) = compute_ls (c_r cs').
Proof.
  intros H. unfold compute_ls, mean_list.
  assert (P : Permutation (map (fun r => ln r) (c_r cs)) (map (fun r => ln r) (c_r cs')))
    by (apply Permutation_map, Permutation_map, H).
  rewrite (sum_list_perm _ _ P), (Permutation_length P). reflexivity.
Qed.

Lemma map2_cells (f : R -> R -> R) cs : map2 f (c_r cs) (c_d cs) = map (fun c : cell => f (fst (fst c)) (snd (fst c))) cs.
Proof. unfold c_r, c_d. induction cs as [|c cs IH]; [reflexivity|]. cbn [map map2]. now rewrite IH. Qed.

Theorem compute_mu_perm lgam cs cs' : Permutation cs cs' ->
  compute_mu lgam (c_r cs) (c_d cs) = compute_mu lgam (c_r cs') (c_d cs').
Proof.
  intros H. rewrite !mu_default, !map2_cells. f_equal. apply quantile_list_perm. now apply Permutation_map.
Qed.

Lemma nn_loglik_cells lgam mu cs z :
  nn_loglik lgam (c_r cs) (c_d cs) (transform mu (c_L cs) z)
  = sum_list (map (fun c : cell => nn_term lgam (fst (fst c)) (snd (fst c)) (transform_row mu (snd c) z)) cs).
Proof.
  unfold nn_loglik, transform, c_r, c_d, c_L. induction cs as [|c cs IH]; [reflexivity|].
  cbn [map map3 sum_list]. now rewrite IH.
Qed.

(* when the rows of L follow the cells (inducing-point models with fixed landmarks: L = K_xu Lp^-T), the loss as a
   function of the latent vector does not depend on the order of the cells *)
Theorem loss_permutation lgam mu cs cs' z : Permutation cs cs' ->
  loss lgam (INR (length z)) (c_r cs) (c_d cs) (transform mu (c_L cs)) z
  = loss lgam (INR (length z)) (c_r cs') (c_d cs') (transform mu (c_L cs')) z.
Proof.
  intros H. unfold loss. rewrite !nn_loglik_cells. do 2 f_equal.
  apply sum_list_perm. now apply Permutation_map.
Qed.

(* ------------------------------------------------------------------ non-vacuity *)
Example c08_isometry_example :
  orthogonal 2 [[0; -1]; [1; 0]] /\ isometry 2 (fun x => vadd (matvec [[0; -1]; [1; 0]] x) [3; -2])
  /\ sqdist (vadd (matvec [[0; -1]; [1; 0]] [1; 2]) [3; -2]) (vadd (matvec [[0; -1]; [1; 0]] [4; 6]) [3; -2]) = 25.
Proof.
  assert (HO : orthogonal 2 [[0; -1]; [1; 0]]).
  { split; [reflexivity|]. split.
    - intros row [<-|[<-|[]]]; reflexivity.
    - intros [|v1 [|v2 [|? ?]]] [|w1 [|w2 [|? ?]]] Hv Hw; try discriminate. unfold dot, matvec. cbn. ring. }
  split; [exact HO|]. split.
  - exact (isometry_compose 2 _ _ (isometry_orthogonal 2 _ HO) (isometry_translate 2 [3; -2] eq_refl)).
  - rewrite (sqdist_isometry 2) by (try exact HO; reflexivity). unfold sqdist. cbn. ring.
Qed.

Example c08_scale_example : nn_distances (map (vscale 2) [[0; 0]; [3; 4]; [0; 1]]) = map (Rmult 2) (nn_distances [[0; 0]; [3; 4]; [0; 1]])
  /\ (forall v, In v [1; 5] -> 0 < v) /\ [1; 5] <> [].
Proof.
  split; [apply nn_distances_scale; lra|]. split; [|discriminate].
  intros v [<-|[<-|[]]]; lra.
Qed.
