(* C12: theorems over the generated wiring tables (gen/C12Wiring.v) with the semantics of lib/DerivSem.v.
   Part 1: pure wiring (no contract): which function every derivative method differentiates.
   Part 2: with the autodiff contract (Drev / Dfwd return the partial derivatives where they exist)
           the returned numbers are the derivatives of the value obtained by CALLING the predictor.
   Part 3: shape model.  Part 4: analytic content (gradient of the affine read-out, kernel gradients of C11). *)
From Coq Require Import Reals List ZArith Bool Lra Lia.
From Coquelicot Require Import Coquelicot.
From MellonV Require Import ALists AListsFacts AKernels AKExpr AKernelsThm AGradThm DerivSem C12Wiring.
Import ListNotations.
Open Scope R_scope.

(* ------------------------------------------------------------------ list helpers *)
Lemma nth_neg1_last (g : list R) : nth (norm_index (length g) (-1)) g 0 = last g 0.
Proof.
  unfold norm_index. change ((-1 <? 0)%Z) with true. cbv iota.
  destruct g as [|a g]; [reflexivity|].
  replace (Z.to_nat (Z.of_nat (length (a :: g)) + -1)) with (length g) by (cbn [length]; lia).
  revert a. induction g as [|b g IH]; intros a; [reflexivity|].
  change (nth (length g) (b :: g) 0 = last (b :: g) 0). apply IH.
Qed.

Lemma upd_app_last (s : list R) t v : upd (s ++ [t]) (length s) v = s ++ [v].
Proof. induction s as [|a s IH]; [reflexivity|]. cbn. now rewrite IH. Qed.

Lemma nth_app_last (s : list R) t : nth (length s) (s ++ [t]) 0 = t.
Proof. rewrite app_nth2 by lia. now rewrite Nat.sub_diag. Qed.

Lemma upd_app_left (s : list R) t j v : (j < length s)%nat -> upd (s ++ [t]) j v = upd s j v ++ [t].
Proof.
  revert j. induction s as [|a s IH]; intros j Hj; [cbn in Hj; lia|].
  destruct j; [reflexivity|]. cbn. rewrite IH by (cbn in Hj; lia). reflexivity.
Qed.

Lemma nth_app_left (s : list R) t j : (j < length s)%nat -> nth j (s ++ [t]) 0 = nth j s 0.
Proof. intros. now apply app_nth1. Qed.

Lemma last_app1 (s : list R) t d : last (s ++ [t]) d = t.
Proof. apply last_last. Qed.

Section Wiring.
  Variable umean : list R -> R.
  Variable logn : R.
  Variable Drev : (list R -> R) -> list R -> list R.
  Variable Dfwd : (list R -> list R) -> list R -> list (list R).
  Variable slogdet : list (list R) -> R * R.

  (* the generated tables plugged into the semantics *)
  Definition P (c : pcls) (args : list (list R)) : R :=
    predict call_target mean_target mean_input mean_tail umean logn c args.
  Definition mval (c : pcls) (m : meth) (uargs : list (list R)) : option dval :=
    match wiring_of c m with
    | Some w => method_value call_target mean_target mean_input mean_tail deriv_table umean logn Drev Dfwd slogdet c w uargs
    | None => None
    end.

  (* what calling the predictor returns, per base class *)
  Lemma predict_values :
    (forall x, P CPredictor [x] = umean x)
    /\ (forall x, P CExpPredictor [x] = exp (umean x))
    /\ (forall s t, P CPredictorTime [s; [t]] = umean (s ++ [t]))
    /\ (forall xt, P CPredictorTime [xt] = umean xt).
  Proof.
    repeat split; intros; unfold P, predict, callable_sem, mean_body; cbn;
      rewrite ?app_nil_r; reflexivity.
  Qed.

  (* ---- Part 1: wiring *)
  Lemma gradient_of_call :
    (forall x, mval CPredictor MGradient [x] = Some (VVec (Drev (fun a => P CPredictor [a]) x)))
    /\ (forall x, mval CExpPredictor MGradient [x] = Some (VVec (Drev (fun a => P CExpPredictor [a]) x)))
    /\ (forall s t, mval CPredictorTime MGradient [s; [t]]
                    = Some (VVec (Drev (fun a => P CPredictorTime [a; [t]]) s))).
  Proof.
    split; [|split]; intros.
    - reflexivity.
    - reflexivity.
    - unfold mval, method_value. cbn [wiring_of w_args w_fun w_callable w_post map arg_sem concat].
      rewrite app_nil_r, removelast_last, last_app1. reflexivity.
  Qed.

  Lemma time_derivative_is_last_component s t :
    mval CPredictorTime MTimeDerivative [s; [t]]
    = Some (VScal (last (Drev (fun a => P CPredictorTime [a]) (s ++ [t])) 0)).
  Proof.
    unfold mval, method_value. cbn [wiring_of w_args w_fun w_callable w_post map arg_sem concat].
    rewrite app_nil_r. cbn [deriv_table d_inner d_op grad_sem apply_post].
    rewrite nth_neg1_last. reflexivity.
  Qed.

  Lemma hessian_of_call :
    (forall x, mval CPredictor MHessian [x] = Some (VMat (Dfwd (Drev (fun a => P CPredictor [a])) x)))
    /\ (forall x, mval CExpPredictor MHessian [x] = Some (VMat (Dfwd (Drev (fun a => P CExpPredictor [a])) x)))
    /\ (forall s t, mval CPredictorTime MHessian [s; [t]]
                    = Some (VMat (Dfwd (Drev (fun a => P CPredictorTime [a; [t]])) s))).
  Proof.
    split; [|split]; intros.
    - reflexivity.
    - reflexivity.
    - unfold mval, method_value. cbn [wiring_of w_args w_fun w_callable w_post map arg_sem concat].
      rewrite app_nil_r, removelast_last, last_app1. reflexivity.
  Qed.

  (* the log-determinant is the slogdet of exactly the matrix `hessian` returns, whatever the arguments *)
  Lemma slogdet_of_same_hessian c uargs H :
    mval c MHessian uargs = Some (VMat H) ->
    mval c MHessLogDet uargs = Some (VPair (fst (slogdet H)) (snd (slogdet H))).
  Proof.
    unfold mval, method_value.
    destruct c; cbn [wiring_of w_args w_fun w_callable w_post map deriv_table d_inner d_op hess_sem apply_post];
      intros E; injection E as E; subst H; reflexivity.
  Qed.

  (* every derivative method of every class reaches derivatives.py with jit passed through and no other keyword;
     time_derivative exists only for the time-aware class *)
  Lemma method_resolution :
    (forall c, defined_in c MGradient <> None /\ defined_in c MHessian <> None /\ defined_in c MHessLogDet <> None)
    /\ defined_in CPredictor MTimeDerivative = None /\ defined_in CExpPredictor MTimeDerivative = None
    /\ defined_in CPredictorTime MTimeDerivative = Some CPredictorTime
    /\ (forall c, call_target c = Some c /\ mean_target c = Some c).
  Proof. repeat split; try destruct c; cbn; congruence. Qed.

  (* the nine concrete classes are pass-bodies over (mix-in, base); every mix-in's `_mean` is the affine read-out *)
  Lemma concrete_classes_cover :
    map (fun r => snd (snd r)) concrete_classes
    = [CPredictor; CExpPredictor; CPredictorTime; CPredictor; CExpPredictor; CPredictorTime;
       CPredictor; CExpPredictor; CPredictorTime]
    /\ map fst mean_centers = map (fun r => fst (snd r)) (firstn 1 concrete_classes)
                              ++ map (fun r => fst (snd r)) (firstn 1 (skipn 3 concrete_classes))
                              ++ map (fun r => fst (snd r)) (firstn 1 (skipn 6 concrete_classes)).
  Proof. split; reflexivity. Qed.

  (* ---- Part 2: the autodiff contract *)
  Definition partial_at (f : list R -> R) (x : list R) (c : nat) : R :=
    Derive (fun t => f (upd x c t)) (nth c x 0).
  Definition smooth1 (f : list R -> R) (x : list R) : Prop :=
    forall c, (c < length x)%nat -> ex_derive (fun t => f (upd x c t)) (nth c x 0).

  Hypothesis Drev_contract : forall f x, smooth1 f x ->
    length (Drev f x) = length x /\ forall c, (c < length x)%nat -> nth c (Drev f x) 0 = partial_at f x c.
  Hypothesis Dfwd_contract : forall g x i, smooth1 (fun y => nth i (g y) 0) x ->
    forall c, (c < length x)%nat -> nth c (nth i (Dfwd g x) []) 0 = partial_at (fun y => nth i (g y) 0) x c.

  Lemma Drev_is_derive f x c : smooth1 f x -> (c < length x)%nat ->
    is_derive (fun t => f (upd x c t)) (nth c x 0) (nth c (Drev f x) 0).
  Proof.
    intros Hs Hc. destruct (Drev_contract f x Hs) as [_ Hv]. rewrite (Hv c Hc).
    apply Derive_correct. now apply Hs.
  Qed.

  (* gradient: component j is the derivative of the called value in state coordinate j, time fixed *)
  Lemma gradient_true_derivative :
    (forall x j, smooth1 (fun a => P CPredictor [a]) x -> (j < length x)%nat ->
       exists g, mval CPredictor MGradient [x] = Some (VVec g) /\ length g = length x /\
         is_derive (fun v => P CPredictor [upd x j v]) (nth j x 0) (nth j g 0))
    /\ (forall x j, smooth1 (fun a => P CExpPredictor [a]) x -> (j < length x)%nat ->
       exists g, mval CExpPredictor MGradient [x] = Some (VVec g) /\ length g = length x /\
         is_derive (fun v => P CExpPredictor [upd x j v]) (nth j x 0) (nth j g 0))
    /\ (forall s t j, smooth1 (fun a => P CPredictorTime [a; [t]]) s -> (j < length s)%nat ->
       exists g, mval CPredictorTime MGradient [s; [t]] = Some (VVec g) /\ length g = length s /\
         is_derive (fun v => P CPredictorTime [upd s j v; [t]]) (nth j s 0) (nth j g 0)).
  Proof.
    destruct gradient_of_call as [G1 [G2 G3]].
    split; [|split]; intros.
    - eexists. split; [apply G1|]. split; [apply (Drev_contract _ _ H)|].
      exact (Drev_is_derive (fun a => P CPredictor [a]) x j H H0).
    - eexists. split; [apply G2|]. split; [apply (Drev_contract _ _ H)|].
      exact (Drev_is_derive (fun a => P CExpPredictor [a]) x j H H0).
    - eexists. split; [apply G3|]. split; [apply (Drev_contract _ _ H)|].
      exact (Drev_is_derive (fun a => P CPredictorTime [a; [t]]) s j H H0).
  Qed.

  (* time_derivative is d/dt of the called value, state fixed *)
  Lemma time_derivative_true s t :
    smooth1 (fun a => P CPredictorTime [a]) (s ++ [t]) ->
    exists r, mval CPredictorTime MTimeDerivative [s; [t]] = Some (VScal r) /\
      is_derive (fun v => P CPredictorTime [s; [v]]) t r.
  Proof.
    intros Hs. eexists. split; [apply time_derivative_is_last_component|].
    destruct predict_values as [_ [_ [P3 P4]]].
    set (f := fun a => P CPredictorTime [a]) in *.
    destruct (Drev_contract f (s ++ [t]) Hs) as [Hl _].
    assert (Hc : (length s < length (s ++ [t]))%nat) by (rewrite app_length; cbn; lia).
    pose proof (Drev_is_derive f (s ++ [t]) (length s) Hs Hc) as D.
    rewrite nth_app_last in D.
    assert (Hlast : last (Drev f (s ++ [t])) 0 = nth (length s) (Drev f (s ++ [t])) 0).
    { rewrite <- nth_neg1_last. unfold norm_index. change ((-1 <? 0)%Z) with true. cbv iota.
      rewrite Hl, app_length. cbn [length]. f_equal. lia. }
    rewrite Hlast.
    apply (is_derive_ext (fun v => f (upd (s ++ [t]) (length s) v))); [|exact D].
    intros v. unfold f. rewrite upd_app_last, P3, P4. reflexivity.
  Qed.

  (* hessian: entry (i, j) is the derivative in coordinate j of the i-th first partial of the called value *)
  Lemma hessian_entries (f : list R -> R) x i j :
    (forall y, length y = length x -> smooth1 f y) ->
    smooth1 (fun y => nth i (Drev f y) 0) x -> (i < length x)%nat -> (j < length x)%nat ->
    nth j (nth i (Dfwd (Drev f) x) []) 0
    = Derive (fun v => partial_at f (upd x j v) i) (nth j x 0).
  Proof.
    intros Hs Hs2 Hi Hj. rewrite (Dfwd_contract (Drev f) x i Hs2 j Hj). unfold partial_at at 1.
    apply Derive_ext. intros v.
    assert (Hl : length (upd x j v) = length x) by apply upd_length.
    destruct (Drev_contract f (upd x j v) (Hs _ Hl)) as [_ Hv]. apply Hv. now rewrite Hl.
  Qed.

  (* PARTIAL (Hessian symmetry).  Full statement: for a twice continuously differentiable called value
     the returned Hessian is symmetric.  Proved here: symmetry follows from the contract as soon as the
     mixed second partials of the called value commute (the conclusion of Schwarz' theorem); the analytic
     premise itself and the agreement of second derivatives with finite differences are tested numerically. *)
  Definition mixed_commute (f : list R -> R) (x : list R) : Prop :=
    forall i j, (i < length x)%nat -> (j < length x)%nat ->
      Derive (fun v => partial_at f (upd x j v) i) (nth j x 0)
      = Derive (fun v => partial_at f (upd x i v) j) (nth i x 0).

  Lemma hessian_symmetric_partial (f : list R -> R) x i j :
    (forall y, length y = length x -> smooth1 f y) ->
    (forall k, smooth1 (fun y => nth k (Drev f y) 0) x) ->
    mixed_commute f x -> (i < length x)%nat -> (j < length x)%nat ->
    nth j (nth i (Dfwd (Drev f) x) []) 0 = nth i (nth j (Dfwd (Drev f) x) []) 0.
  Proof.
    intros Hs Hs2 Hm Hi Hj.
    rewrite (hessian_entries f x i j Hs (Hs2 i) Hi Hj), (hessian_entries f x j i Hs (Hs2 j) Hj Hi).
    now apply Hm.
  Qed.
End Wiring.

(* ------------------------------------------------------------------ Schwarz: when the mixed partials commute *)
Lemma upd_comm (x : list R) i j u v : i <> j -> upd (upd x j v) i u = upd (upd x i u) j v.
Proof.
  revert i j. induction x as [|a x IH]; intros i j H; [reflexivity|].
  destruct i as [|i], j as [|j]; cbn; [now elim H|reflexivity|reflexivity|].
  f_equal. apply IH. congruence.
Qed.

(* f restricted to coordinates i and j *)
Definition F2 (f : list R -> R) (x : list R) (i j : nat) (u v : R) : R := f (upd (upd x i u) j v).

(* the premises of Schwarz' theorem for f in coordinates (i, j) at x: first and mixed second partials exist
   near x and the mixed second partials are continuous at x *)
Definition schwarz_regular (f : list R -> R) (x : list R) (i j : nat) : Prop :=
  locally_2d (fun u v =>
    ex_derive (fun z => F2 f x i j z v) u /\ ex_derive (fun z => F2 f x i j u z) v /\
    ex_derive (fun z => Derive (fun t => F2 f x i j z t) v) u /\
    ex_derive (fun z => Derive (fun t => F2 f x i j t z) u) v) (nth i x 0) (nth j x 0)
  /\ continuity_2d_pt (fun u v => Derive (fun z => Derive (fun t => F2 f x i j z t) v) u) (nth i x 0) (nth j x 0)
  /\ continuity_2d_pt (fun u v => Derive (fun z => Derive (fun t => F2 f x i j t z) u) v) (nth i x 0) (nth j x 0).

Lemma mixed_commute_schwarz (f : list R -> R) x i j : i <> j -> schwarz_regular f x i j ->
  Derive (fun v => partial_at f (upd x j v) i) (nth j x 0) = Derive (fun u => partial_at f (upd x i u) j) (nth i x 0).
Proof.
  intros Hij [HD [HC2 HC1]].
  pose proof (Schwarz (F2 f x i j) (nth i x 0) (nth j x 0) HD HC2 HC1) as S.
  transitivity (Derive (fun z => Derive (fun t => F2 f x i j t z) (nth i x 0)) (nth j x 0)).
  - apply Derive_ext. intros v. unfold partial_at. rewrite nth_upd_other by exact Hij.
    apply Derive_ext. intros t. unfold F2. now rewrite upd_comm.
  - rewrite <- S. apply Derive_ext. intros u. unfold partial_at.
    rewrite nth_upd_other by (intro E; apply Hij; now symmetry).
    apply Derive_ext. intros t. reflexivity.
Qed.

Section Symmetry.
  Variable Drev : (list R -> R) -> list R -> list R.
  Variable Dfwd : (list R -> list R) -> list R -> list (list R).
  Hypothesis Drev_contract : forall f x, smooth1 f x ->
    length (Drev f x) = length x /\ forall c, (c < length x)%nat -> nth c (Drev f x) 0 = partial_at f x c.
  Hypothesis Dfwd_contract : forall g x i, smooth1 (fun y => nth i (g y) 0) x ->
    forall c, (c < length x)%nat -> nth c (nth i (Dfwd g x) []) 0 = partial_at (fun y => nth i (g y) 0) x c.

  (* PARTIAL (Hessian symmetry): proved for every function that is regular in the sense of Schwarz' theorem;
     that the fitted predictor's value is that regular is not proved (it is a finite sum of smooth kernels). *)
  Lemma hessian_symmetric_schwarz_partial (f : list R -> R) x i j :
    (forall y, length y = length x -> smooth1 f y) ->
    (forall k, smooth1 (fun y => nth k (Drev f y) 0) x) ->
    (i < length x)%nat -> (j < length x)%nat -> (i <> j -> schwarz_regular f x i j) ->
    nth j (nth i (Dfwd (Drev f) x) []) 0 = nth i (nth j (Dfwd (Drev f) x) []) 0.
  Proof.
    intros Hs Hs2 Hi Hj Hreg.
    destruct (Nat.eq_dec i j) as [E|E]; [now subst|].
    rewrite (hessian_entries Drev Dfwd Drev_contract Dfwd_contract f x i j Hs (Hs2 i) Hi Hj),
            (hessian_entries Drev Dfwd Drev_contract Dfwd_contract f x j i Hs (Hs2 j) Hj Hi).
    now apply mixed_commute_schwarz; [|apply Hreg].
  Qed.
End Symmetry.

Lemma D_lin_r (z v : R) : Derive (fun t => z * t) v = z.
Proof. apply is_derive_unique. auto_derive; [exact I|ring]. Qed.
Lemma D_lin_l (z u : R) : Derive (fun t => t * z) u = z.
Proof. apply is_derive_unique. auto_derive; [exact I|ring]. Qed.

(* non-vacuity of schwarz_regular: f(l) = l_0 * l_1 at [1; 2] *)
Lemma schwarz_regular_example :
  0%nat <> 1%nat /\ schwarz_regular (fun l : list R => nth 0 l 0 * nth 1 l 0) [1; 2] 0 1.
Proof.
  split; [discriminate|]. unfold schwarz_regular, F2. cbn [upd nth].
  split; [|split].
  - apply locally_2d_forall. intros u v. repeat split.
    + auto_derive; exact I.
    + auto_derive; exact I.
    + apply (ex_derive_ext (fun z => z)); [intros z; symmetry; apply D_lin_r|]. auto_derive; exact I.
    + apply (ex_derive_ext (fun z => z)); [intros z; symmetry; apply D_lin_l|]. auto_derive; exact I.
  - apply (continuity_2d_pt_ext (fun _ _ => 1)); [|apply continuity_2d_pt_const].
    intros u v. symmetry. rewrite (Derive_ext _ (fun z => z)) by (intros z; apply D_lin_r). apply Derive_id.
  - apply (continuity_2d_pt_ext (fun _ _ => 1)); [|apply continuity_2d_pt_const].
    intros u v. symmetry. rewrite (Derive_ext _ (fun z => z)) by (intros z; apply D_lin_l). apply Derive_id.
Qed.

(* ------------------------------------------------------------------ Part 3: shapes *)
(* scalar-valued predictor on x of shape (n, d): gradient has x.shape, hessian x.shape + (d,),
   log-determinant two vectors of n entries; every reshape preserves the number of entries *)
Lemma shape_rules n d :
  out_shape (deriv_table DGradient) n d None = [n; d]
  /\ sprod (raw_shape (deriv_table DGradient) n d None) = sprod [n; d]
  /\ out_shape (deriv_table DHessian) n d None = [n; d; d]
  /\ sprod (raw_shape (deriv_table DHessian) n d None) = sprod [n; d; d]
  /\ out_shape (deriv_table DHessLogDet) n d None = [n]
  /\ sprod (tl (raw_shape (deriv_table DHessLogDet) n d None)) = sprod [d; d].
Proof. repeat split; first [reflexivity | cbn; lia | cbn; ring]. Qed.

(* m output columns (function estimation): the stride-2 rule drops exactly the unit axes *)
Lemma shape_rules_multi n d m :
  out_shape (deriv_table DGradient) n d (Some m) = [n; m; d]
  /\ sprod (raw_shape (deriv_table DGradient) n d (Some m)) = sprod [n; m; d]
  /\ out_shape (deriv_table DHessian) n d (Some m) = [n; m; d; d]
  /\ sprod (raw_shape (deriv_table DHessian) n d (Some m)) = sprod [n; m; d; d]
  /\ out_shape (deriv_table DHessLogDet) n d (Some m) = [n; m]
  /\ sprod (tl (raw_shape (deriv_table DHessLogDet) n d (Some m))) = sprod [m; d; d].
Proof. repeat split; first [reflexivity | cbn; lia | cbn; ring]. Qed.

(* ------------------------------------------------------------------ Part 4: analytic content *)
Definition readout_grad (dk : list R -> list R -> nat -> R) (w : list R) (B : list (list R)) (x : list R) (c : nat) : R :=
  sum_list (map2 (fun wj bj => dk bj x c * wj) w B).

(* abstract kernel: if dk b x c is the derivative of k(., b) in coordinate c, the read-out's gradient is the
   weighted sum of kernel gradients *)
Lemma readout_derive (k : list R -> list R -> R) (dk : list R -> list R -> nat -> R) mu w B x c :
  (forall b, In b B -> is_derive (fun t => k (upd x c t) b) (nth c x 0) (dk b x c)) ->
  is_derive (fun t => readout k mu w B (upd x c t)) (nth c x 0) (readout_grad dk w B x c).
Proof.
  intros Hk. unfold readout, readout_grad.
  replace (sum_list (map2 (fun wj bj => dk bj x c * wj) w B))
    with (0 + sum_list (map2 (fun wj bj => dk bj x c * wj) w B)) by ring.
  refine (is_derive_plus (fun _ => mu) (fun t => sum_list (map2 (fun wj bj => k (upd x c t) bj * wj) w B)) _ _ _ _ _).
  - exact (is_derive_const mu _).
  - revert B Hk. induction w as [|wj w IH]; intros B Hk.
    + cbn. exact (is_derive_const 0 _).
    + destruct B as [|bj B]; [cbn; exact (is_derive_const 0 _)|].
      cbn [map2 sum_list].
      refine (is_derive_plus (fun t => k (upd x c t) bj * wj)
                             (fun t => sum_list (map2 (fun wj0 bj0 => k (upd x c t) bj0 * wj0) w B)) _ _ _ _ _).
      * replace (dk bj x c * wj) with (wj * dk bj x c) by ring.
        apply (is_derive_ext (fun t => wj * k (upd x c t) bj)); [intros t; apply Rmult_comm|].
        refine (is_derive_scal (fun t => k (upd x c t) bj) _ wj _ _). apply Hk. now left.
      * apply IH. intros b Hb. apply Hk. now right.
Qed.

(* Mellon's kernels (every expression tree of C11): d/dx* mean = sum_j w_j dk/dx*(x*, b_j) with the proved
   kernel gradient; [x] is the query row (state ++ [time] for the time-aware classes) *)
Lemma mean_gradient_formula e mu w B x c :
  (c < length x)%nat -> (forall b, In b B -> length b = length x /\ wfk e b x) ->
  is_derive (fun t => readout (keval e) mu w B (upd x c t)) (nth c x 0)
            (readout_grad (kgrad_true e) w B x c).
Proof.
  intros Hc HB. apply readout_derive. intros b Hb. destruct (HB b Hb) as [Hl Hw].
  apply (is_derive_ext (fun t => keval e b (upd x c t))).
  - intros t. apply keval_symmetric.
  - now apply kgrad_correct.
Qed.

Lemma readout_smooth e mu w B x :
  (forall b, In b B -> length b = length x /\ wfk e b x) ->
  forall c, (c < length x)%nat -> ex_derive (fun t => readout (keval e) mu w B (upd x c t)) (nth c x 0).
Proof. intros HB c Hc. eexists. now apply mean_gradient_formula. Qed.

Section Composed.
  Variable logn : R.
  Variable Drev : (list R -> R) -> list R -> list R.
  Variable Dfwd : (list R -> list R) -> list R -> list (list R).
  Variable slogdet : list (list R) -> R * R.
  Hypothesis Drev_contract : forall f x, smooth1 f x ->
    length (Drev f x) = length x /\ forall c, (c < length x)%nat -> nth c (Drev f x) 0 = partial_at f x c.

  (* what p.gradient(x) returns for a fitted predictor with the affine read-out, per base class *)
  Lemma gradient_values e mu w B x c :
    (c < length x)%nat -> (forall b, In b B -> length b = length x /\ wfk e b x) ->
    let um := readout (keval e) mu w B in
    (exists g, mval um logn Drev Dfwd slogdet CPredictor MGradient [x] = Some (VVec g)
               /\ nth c g 0 = readout_grad (kgrad_true e) w B x c)
    /\ (exists g, mval um logn Drev Dfwd slogdet CExpPredictor MGradient [x] = Some (VVec g)
               /\ nth c g 0 = exp (um x) * readout_grad (kgrad_true e) w B x c).
  Proof.
    intros Hc HB um.
    destruct (gradient_of_call um logn Drev Dfwd slogdet) as [G1 [G2 _]].
    destruct (predict_values um logn) as [P1 [P2 _]].
    pose proof (readout_smooth e mu w B x HB) as Hsm.
    split.
    - eexists. split; [apply G1|].
      assert (Hs : smooth1 (fun a => P um logn CPredictor [a]) x).
      { intros j Hj. apply (ex_derive_ext (fun t => um (upd x j t))); [intros t; now rewrite P1|]. now apply Hsm. }
      destruct (Drev_contract _ _ Hs) as [_ Hv]. rewrite (Hv c Hc). unfold partial_at.
      apply is_derive_unique.
      apply (is_derive_ext (fun t => um (upd x c t))); [intros t; now rewrite P1|].
      now apply mean_gradient_formula.
    - eexists. split; [apply G2|].
      assert (Hd : forall j, (j < length x)%nat ->
                is_derive (fun t => P um logn CExpPredictor [upd x j t]) (nth j x 0)
                          (exp (um x) * readout_grad (kgrad_true e) w B x j)).
      { intros j Hj. apply (is_derive_ext (fun t => exp (um (upd x j t)))); [intros t; now rewrite P2|].
        pose proof (mean_gradient_formula e mu w B x j Hj HB) as D. fold um in D.
        replace (exp (um x) * readout_grad (kgrad_true e) w B x j)
          with (readout_grad (kgrad_true e) w B x j * exp (um (upd x j (nth j x 0)))) by (rewrite upd_self; ring).
        refine (is_derive_comp exp (fun t => um (upd x j t)) (nth j x 0) _ _ _ D).
        apply is_derive_Reals, derivable_pt_lim_exp. }
      assert (Hs : smooth1 (fun a => P um logn CExpPredictor [a]) x).
      { intros j Hj. eexists. now apply Hd. }
      destruct (Drev_contract _ _ Hs) as [_ Hv]. rewrite (Hv c Hc). unfold partial_at.
      apply is_derive_unique. now apply Hd.
  Qed.

  (* time-aware class: state components and the time derivative of the same read-out on the merged row *)
  Lemma gradient_values_time e mu w B s t c :
    (c < length s)%nat -> (forall b, In b B -> length b = length (s ++ [t]) /\ wfk e b (s ++ [t])) ->
    let um := readout (keval e) mu w B in
    (exists g, mval um logn Drev Dfwd slogdet CPredictorTime MGradient [s; [t]] = Some (VVec g)
               /\ nth c g 0 = readout_grad (kgrad_true e) w B (s ++ [t]) c)
    /\ (exists r, mval um logn Drev Dfwd slogdet CPredictorTime MTimeDerivative [s; [t]] = Some (VScal r)
               /\ r = readout_grad (kgrad_true e) w B (s ++ [t]) (length s)).
  Proof.
    intros Hc HB um.
    destruct (gradient_of_call um logn Drev Dfwd slogdet) as [_ [_ G3]].
    destruct (predict_values um logn) as [_ [_ [P3 P4]]].
    pose proof (readout_smooth e mu w B (s ++ [t]) HB) as Hsm.
    assert (Hlen : (length (s ++ [t]) = S (length s))%nat) by (rewrite app_length; cbn; lia).
    split.
    - eexists. split; [apply G3|].
      assert (Hd : forall j, (j < length s)%nat ->
                is_derive (fun v => P um logn CPredictorTime [upd s j v; [t]]) (nth j s 0)
                          (readout_grad (kgrad_true e) w B (s ++ [t]) j)).
      { intros j Hj. apply (is_derive_ext (fun v => um (upd (s ++ [t]) j v))).
        - intros v. rewrite P3, upd_app_left by exact Hj. reflexivity.
        - rewrite <- (nth_app_left s t j Hj). apply mean_gradient_formula; [lia|exact HB]. }
      assert (Hs : smooth1 (fun a => P um logn CPredictorTime [a; [t]]) s).
      { intros j Hj. eexists. now apply Hd. }
      destruct (Drev_contract _ _ Hs) as [_ Hv]. rewrite (Hv c Hc). unfold partial_at.
      apply is_derive_unique. now apply Hd.
    - assert (Hs : smooth1 (fun a => P um logn CPredictorTime [a]) (s ++ [t])).
      { intros j Hj. apply (ex_derive_ext (fun v => um (upd (s ++ [t]) j v))); [intros v; now rewrite P4|]. now apply Hsm. }
      destruct (time_derivative_true um logn Drev Dfwd slogdet Drev_contract s t Hs) as [r [Hr Dr]].
      exists r. split; [exact Hr|].
      rewrite <- (is_derive_unique _ _ _ Dr). apply is_derive_unique.
      apply (is_derive_ext (fun v => um (upd (s ++ [t]) (length s) v))).
      + intros v. now rewrite P3, upd_app_last.
      + assert (Hls : (length s < length (s ++ [t]))%nat) by lia.
        pose proof (mean_gradient_formula e mu w B (s ++ [t]) (length s) Hls HB) as D.
        rewrite nth_app_last in D. exact D.
  Qed.
End Composed.

(* ------------------------------------------------------------------ non-vacuity *)
(* the autodiff contract is satisfiable: the operator that returns the partial derivatives *)
Definition grad_true (f : list R -> R) (x : list R) : list R := map (partial_at f x) (seq 0 (length x)).
Definition jac_true (g : list R -> list R) (x : list R) : list (list R) :=
  map (fun i => grad_true (fun y => nth i (g y) 0) x) (seq 0 (length (g x))).

Lemma nth_map_seq (F : nat -> R) n c : (c < n)%nat -> nth c (map F (seq 0 n)) 0 = F c.
Proof.
  intros Hc. rewrite (nth_indep _ 0 (F 0%nat)) by (rewrite map_length, seq_length; exact Hc).
  rewrite map_nth. rewrite seq_nth by exact Hc. reflexivity.
Qed.

Lemma contract_satisfiable :
  (forall f x, smooth1 f x ->
     length (grad_true f x) = length x /\ forall c, (c < length x)%nat -> nth c (grad_true f x) 0 = partial_at f x c).
Proof.
  intros f x _. split.
  - unfold grad_true. now rewrite map_length, seq_length.
  - intros c Hc. unfold grad_true. now apply nth_map_seq.
Qed.

(* the hypotheses of mean_gradient_formula / gradient_values hold on a depth-3 kernel expression *)
Lemma gradient_values_example :
  let e := KMul (KPow (KAddC (KBase BExpQuad 2 (DInt (-1)%Z)) (1 / 2) (DList [0%Z; 2%Z])) (3 / 2) DNone)
                (KBase (BRatQuad 3) 1 (DMask [true; false; true])) (DSlice None None None) in
  let B := [[1; 2; 3]] in let x := [4; 5; 6] in
  (1 < length x)%nat /\ (forall b, In b B -> length b = length x /\ wfk e b x).
Proof.
  cbv zeta. split; [cbn; lia|]. intros b [Hb|[]]. subst b.
  destruct wfk_example as [Hw [Hl _]]. split; [exact Hl|exact Hw].
Qed.
