(* C08: entry-wise orthogonality (Q^T Q = I, columns orthonormal) implies the bilinear form used by thm/C08Thm.v,
   for matrices given as lists of rows over the reals.  So sqdist_isometry holds under the literal hypothesis Q^T Q = I. *)
From Coq Require Import Reals List ZArith Lra Lia.
From MellonV Require Import ALists AListsFacts C08Thm.
Import ListNotations.
Open Scope R_scope.

Definition ssum (n : nat) (f : nat -> R) : R := sum_list (map f (seq 0 n)).

Lemma ssum_ext n f g : (forall i, (i < n)%nat -> f i = g i) -> ssum n f = ssum n g.
Proof.
  intros H. unfold ssum. f_equal. apply map_ext_in. intros i Hi. apply in_seq in Hi. apply H. lia.
Qed.

Lemma sum_list_map_plus {A} (f g : A -> R) l : sum_list (map (fun a => f a + g a) l) = sum_list (map f l) + sum_list (map g l).
Proof. induction l as [|a l IH]; cbn [map sum_list]; [ring|]. rewrite IH. ring. Qed.

Lemma sum_list_map_scal {A} c (f : A -> R) l : sum_list (map (fun a => c * f a) l) = c * sum_list (map f l).
Proof. induction l as [|a l IH]; cbn [map sum_list]; [ring|]. rewrite IH. ring. Qed.

Lemma sum_list_map_zero {A} (l : list A) : sum_list (map (fun _ => 0) l) = 0.
Proof. induction l as [|a l IH]; cbn [map sum_list]; [reflexivity|]. rewrite IH. ring. Qed.

Lemma ssum_plus n f g : ssum n (fun i => f i + g i) = ssum n f + ssum n g.
Proof. apply sum_list_map_plus. Qed.
Lemma ssum_scal n c f : ssum n (fun i => c * f i) = c * ssum n f.
Proof. apply sum_list_map_scal. Qed.

(* sum over a list of rows commutes with a sum over indices *)
Lemma sum_rows_ssum {A} (Q : list A) n (F : A -> nat -> R) :
  sum_list (map (fun r => ssum n (F r)) Q) = ssum n (fun i => sum_list (map (fun r => F r i) Q)).
Proof.
  induction Q as [|r Q IH]; cbn [map sum_list].
  - unfold ssum. now rewrite sum_list_map_zero.
  - rewrite IH, <- ssum_plus. reflexivity.
Qed.

Lemma dot_as_ssum_gen x y k : length x = length y ->
  dot x y = sum_list (map (fun i => nth (i - k) x 0 * nth (i - k) y 0) (seq k (length x))).
Proof.
  unfold dot. revert y k. induction x as [|a x IH]; intros [|b y] k H; cbn [length] in *; try lia; [reflexivity|].
  cbn [map2 sum_list seq map]. rewrite Nat.sub_diag. cbn [nth]. f_equal.
  rewrite (IH y (S k)) by lia. f_equal. apply map_ext_in. intros i Hi. apply in_seq in Hi.
  replace (i - k)%nat with (S (i - S k)) by lia. reflexivity.
Qed.

Lemma dot_as_ssum n x y : length x = n -> length y = n -> dot x y = ssum n (fun i => nth i x 0 * nth i y 0).
Proof.
  intros Hx Hy. rewrite (dot_as_ssum_gen x y 0) by lia. rewrite Hx. unfold ssum. f_equal.
  apply map_ext. intros i. now rewrite Nat.sub_0_r.
Qed.

Lemma dot_map_map {A} (f g : A -> R) l : dot (map f l) (map g l) = sum_list (map (fun a => f a * g a) l).
Proof. unfold dot. induction l as [|a l IH]; cbn [map map2 sum_list]; [reflexivity|]. now rewrite IH. Qed.

Lemma ssum_delta n i (f : nat -> R) : (i < n)%nat ->
  ssum n (fun j => f j * (if Nat.eq_dec i j then 1 else 0)) = f i.
Proof.
  unfold ssum. intros Hi.
  assert (G : forall k m, (k <= i < k + m)%nat ->
     sum_list (map (fun j => f j * (if Nat.eq_dec i j then 1 else 0)) (seq k m)) = f i).
  { intros k m. revert k. induction m as [|m IH]; intros k Hk; [lia|].
    cbn [seq map sum_list]. destruct (Nat.eq_dec i k) as [->|Hne].
    - assert (Z : sum_list (map (fun j => f j * (if Nat.eq_dec k j then 1 else 0)) (seq (S k) m)) = 0).
      { transitivity (sum_list (map (fun _ : nat => 0) (seq (S k) m))); [|apply sum_list_map_zero].
        f_equal. apply map_ext_in. intros j Hj. apply in_seq in Hj.
        destruct (Nat.eq_dec k j); [lia|ring]. }
      rewrite Z. ring.
    - rewrite IH by lia. ring. }
  apply G. lia.
Qed.

(* column j of a matrix given as a list of rows *)
Definition col (j : nat) (Q : list (list R)) : list R := map (fun row => nth j row 0) Q.

(* Q^T Q = I, entry by entry *)
Definition orth_entries (n : nat) (Q : list (list R)) : Prop :=
  length Q = n /\ (forall row, In row Q -> length row = n)
  /\ (forall i j, (i < n)%nat -> (j < n)%nat -> dot (col i Q) (col j Q) = if Nat.eq_dec i j then 1 else 0).

Theorem orthogonal_from_entries n Q : orth_entries n Q -> orthogonal n Q.
Proof.
  intros (HQ & Hrows & Hent). split; [exact HQ|]. split; [exact Hrows|].
  intros v w Hv Hw. unfold matvec. rewrite dot_map_map.
  (* each row: (sum_i r_i v_i) (sum_j r_j w_j) = sum_i sum_j r_i r_j v_i w_j *)
  assert (E : forall r, In r Q -> dot r v * dot r w
              = ssum n (fun i => ssum n (fun j => (nth i r 0 * nth j r 0) * (nth i v 0 * nth j w 0)))).
  { intros r Hr. rewrite (dot_as_ssum n r v), (dot_as_ssum n r w) by (auto using Hrows).
    rewrite Rmult_comm, <- ssum_scal. apply ssum_ext. intros i _.
    rewrite Rmult_comm, <- ssum_scal. apply ssum_ext. intros j _. ring. }
  rewrite (map_ext_in _ _ _ E).
  rewrite sum_rows_ssum.
  rewrite (dot_as_ssum n v w Hv Hw). apply ssum_ext. intros i Hi.
  rewrite sum_rows_ssum.
  transitivity (ssum n (fun j => (nth i v 0 * nth j w 0) * (if Nat.eq_dec i j then 1 else 0))).
  - apply ssum_ext. intros j Hj.
    rewrite <- (Hent i j Hi Hj). unfold col. rewrite dot_map_map.
    rewrite <- sum_list_map_scal. f_equal. apply map_ext. intros r. ring.
  - rewrite (ssum_delta n i (fun j => nth i v 0 * nth j w 0) Hi). reflexivity.
Qed.

(* sqdist_isometry under the literal hypothesis Q^T Q = I *)
Theorem sqdist_isometry_entries n Q t a b : orth_entries n Q -> length t = n -> length a = n -> length b = n ->
  sqdist (vadd (matvec Q a) t) (vadd (matvec Q b) t) = sqdist a b.
Proof. intros H. apply sqdist_isometry. now apply orthogonal_from_entries. Qed.

Example orth_entries_example : orth_entries 2 [[0; -1]; [1; 0]].
Proof.
  split; [reflexivity|]. split.
  - intros row [<-|[<-|[]]]; reflexivity.
  - intros [|[|i]] [|[|j]] Hi Hj; try lia; unfold col, dot; cbn; ring.
Qed.
