(* C19: round-trip theorems about the serialisation model of lib/Serial.v. *)
From Coq Require Import ZArith QArith List Bool String Ascii Lia.
From MellonV Require Import PyVal Serial.
Import ListNotations.
Open Scope Z_scope.

(* ------------------------------------------------------------------ *)
(* the value grammar of the property, as an inductive type (unbounded nesting) *)
Inductive gscalar :=
  | GNone | GBool (b : bool) | GInt (z : Z) | GFloat (f : xf)          (* f: any float incl. NaN, +-inf *)
  | GStr (s : string)                                                  (* any str other than the reserved "None" *)
  | GNpFloat (f : xf) | GNpInt (z : Z).                                (* numpy scalars: come back as Python scalars *)

Inductive gval :=
  | GScal (s : gscalar)
  | GArr (numpy : bool) (k : akind) (sh : list Z) (d : list xf)        (* JAX / NumPy array of any rank, also empty *)
  | GSlice (a b c : option Z)
  | GDict (d : gdict)
  | GSet (l : list gscalar)
with gdict := GDNil | GDCons (k : string) (v : gval) (r : gdict).

Scheme gval_mut := Induction for gval Sort Prop
  with gdict_mut := Induction for gdict Sort Prop.

Definition emb_scalar (s : gscalar) : val :=
  match s with
  | GNone => VNone | GBool b => VBool b | GInt z => VInt z | GFloat f => VFloat f | GStr s => VStr s
  | GNpFloat f => VNpScalar KF f | GNpInt z => VNpScalar KI (XFin (inject_Z z))
  end.
Definition oz (o : option Z) : val := match o with None => VNone | Some z => VInt z end.
Fixpoint emb (g : gval) : val :=
  match g with
  | GScal s => emb_scalar s
  | GArr false k sh d => VArr k sh d
  | GArr true k sh d => VNpArr k sh d
  | GSlice a b c => VSlice (oz a) (oz b) (oz c)
  | GDict d => VDict (emb_dict d)
  | GSet l => VSet (map emb_scalar l)
  end
with emb_dict (d : gdict) : list (val * val) :=
  match d with GDNil => [] | GDCons k v r => (VStr k, emb v) :: emb_dict r end.

(* what comes back: numpy scalars as Python scalars, NumPy arrays as JAX arrays *)
Definition canon_scalar (s : gscalar) : gscalar :=
  match s with GNpFloat f => GFloat f | GNpInt z => GInt z | _ => s end.
Fixpoint canon (g : gval) : gval :=
  match g with
  | GScal s => GScal (canon_scalar s)
  | GArr _ k sh d => GArr false k sh d
  | GSlice a b c => g
  | GDict d => GDict (canon_dict d)
  | GSet l => GSet (map canon_scalar l)
  end
with canon_dict (d : gdict) : gdict :=
  match d with GDNil => GDNil | GDCons k v r => GDCons k (canon v) (canon_dict r) end.

(* well-formedness: strings are not the reserved token; arrays are consistent and their entries
   are representable in their dtype; 0-d integer JAX arrays are the VJInt values (handled by the
   correspondence run, excluded here) *)
Definition ok_str (s : string) : Prop := string_eqb s "None" = false.
Definition ok_scalar (s : gscalar) : Prop := match s with GStr t => ok_str t | _ => True end.
Definition repr_elem (k : akind) (x : xf) : Prop :=
  match k with
  | KF => True
  | KI => exists z, x = XFin (inject_Z z)
  | KB => x = XFin (inject_Z 0) \/ x = XFin (inject_Z 1)
  end.
Definition wf_arr (k : akind) (sh : list Z) (d : list xf) : Prop :=
  Forall (fun n => 0 <= n) sh /\ Z.of_nat (List.length d) = prodZ sh /\ Forall (repr_elem k) d
  /\ (k = KI -> sh <> []).
Fixpoint wf (g : gval) : Prop :=
  match g with
  | GScal s => ok_scalar s
  | GArr _ k sh d => wf_arr k sh d
  | GSlice _ _ _ => True
  | GDict d => wf_dict d
  | GSet l => Forall ok_scalar l
  end
with wf_dict (d : gdict) : Prop :=
  match d with GDNil => True | GDCons k v r => wf v /\ wf_dict r end.

Fixpoint depth (g : gval) : nat :=
  match g with
  | GDict d => S (depth_dict d)
  | GSet _ => 2
  | _ => 1
  end
with depth_dict (d : gdict) : nat :=
  match d with GDNil => 0 | GDCons _ v r => Nat.max (depth v) (depth_dict r) end.

(* ------------------------------------------------------------------ *)
(* scalars *)
Lemma scalar_roundtrip s fuel : ok_scalar s -> (1 <= fuel)%nat ->
  bind (json_rt (ser (emb_scalar s))) (deser_f fuel) = Ok (emb_scalar (canon_scalar s)).
Proof.
  intros Hs Hf. destruct fuel as [|fuel]; [lia|].
  destruct s as [|b|z|f|t|f|z]; cbn; try reflexivity.
  - cbn in Hs. unfold ok_str in Hs. now rewrite Hs.
Qed.

(* lists of scalars (set payloads) *)
Lemma json_ser_scalars l :
  Forall ok_scalar l ->
  (fix go (l : list val) : res (list val) :=
     match l with [] => Ok [] | x :: r => bind (json_rt x) (fun a => bind (go r) (fun b => Ok (a :: b))) end)
    ((fix go (l : list val) : list val := match l with [] => [] | v :: r => ser v :: go r end) (map emb_scalar l))
  = Ok (map (fun s => ser (emb_scalar (canon_scalar s))) l).
Proof.
  induction 1 as [|s l Hs Hl IH]; [reflexivity|].
  cbn [map]. rewrite IH. destruct s as [|b|z|f|t|f|z]; reflexivity.
Qed.

Lemma deser_scalars l fuel : Forall ok_scalar l -> (1 <= fuel)%nat ->
  (fix go (l : list val) : res (list val) :=
     match l with [] => Ok [] | v :: r => bind (deser_f fuel v) (fun a => bind (go r) (fun b => Ok (a :: b))) end)
    (map (fun s => ser (emb_scalar (canon_scalar s))) l)
  = Ok (map (fun s => emb_scalar (canon_scalar s)) l).
Proof.
  intros H Hf. destruct fuel as [|fuel]; [lia|].
  induction H as [|s l Hs Hl IH]; [reflexivity|].
  cbn [map]. rewrite IH. destruct s as [|b|z|f|t|f|z]; cbn; try reflexivity.
  cbn in Hs. unfold ok_str in Hs. now rewrite Hs.
Qed.

(* ------------------------------------------------------------------ *)
(* arrays *)
Lemma flat_list l : flat (VList l) = List.concat (map flat l).
Proof. cbn [flat]. induction l as [|x l IH]; [reflexivity|]. cbn [map List.concat]. now rewrite <- IH. Qed.

Lemma take_rows_concat {A} (c r : nat) (d : list A) :
  List.length d = (r * c)%nat -> List.concat (take_rows c r d) = d.
Proof.
  revert d. induction r as [|r IH]; intros d H.
  - cbn in *. destruct d; [reflexivity|discriminate].
  - cbn [take_rows List.concat]. rewrite IH.
    + apply firstn_skipn.
    + rewrite skipn_length. lia.
Qed.

Lemma take_rows_rows {A} (c r : nat) (d : list A) :
  List.length d = (r * c)%nat -> Forall (fun row => List.length row = c) (take_rows c r d).
Proof.
  revert d. induction r as [|r IH]; intros d H; [constructor|].
  cbn [take_rows]. constructor.
  - rewrite firstn_length. lia.
  - apply IH. rewrite skipn_length. lia.
Qed.

Lemma elem_not_list k x : forall l, elem_val k x <> VList l.
Proof. intros l. destruct k, x as [q| | |]; cbn; discriminate. Qed.

Lemma flat_elem k x : flat (elem_val k x) = [elem_val k x].
Proof. destruct k, x as [q| | |]; reflexivity. Qed.

Lemma prodZ_nonneg sh : Forall (fun n => 0 <= n) sh -> 0 <= prodZ sh.
Proof. induction 1 as [|n sh Hn Hsh IH]; cbn; [lia|]. apply Z.mul_nonneg_nonneg; assumption. Qed.

Lemma Forall_concat {A} (P : A -> Prop) (ll : list (list A)) :
  Forall P (List.concat ll) -> Forall (Forall P) ll.
Proof.
  induction ll as [|l ll IH]; intros H; [constructor|].
  cbn in H. apply Forall_app in H. destruct H. constructor; auto.
Qed.

Lemma flat_tolist k sh : forall d,
  Forall (fun n => 0 <= n) sh -> Z.of_nat (List.length d) = prodZ sh ->
  flat (tolist k sh d) = map (elem_val k) d.
Proof.
  induction sh as [|n rest IH]; intros d Hsh Hlen.
  - cbn in Hlen. destruct d as [|x [|y d]]; cbn in Hlen; try lia. cbn. apply flat_elem.
  - inversion Hsh as [|? ? Hn Hrest]; subst.
    cbn [tolist]. rewrite flat_list, map_map.
    pose proof (prodZ_nonneg rest Hrest) as Hp.
    assert (Hl : List.length d = (Z.to_nat n * Z.to_nat (prodZ rest))%nat).
    { cbn [prodZ fold_right] in Hlen. fold (prodZ rest) in Hlen. nia. }
    pose proof (take_rows_rows _ _ d Hl) as Hrows.
    rewrite <- (take_rows_concat _ _ d Hl) at 2. rewrite concat_map. f_equal.
    apply map_ext_in. intros row Hrow. apply IH; [assumption|].
    rewrite Forall_forall in Hrows. rewrite (Hrows row Hrow). lia.
Qed.

Lemma json_rt_list (l : list val) :
  Forall (fun x => json_rt x = Ok x) l -> json_rt (VList l) = Ok (VList l).
Proof.
  intros H. cbn [json_rt]. unfold rmap.
  assert (E : (fix go (l : list val) : res (list val) :=
                 match l with [] => Ok [] | x :: r => bind (json_rt x) (fun a => bind (go r) (fun b => Ok (a :: b))) end) l = Ok l).
  { induction H as [|x l Hx Hl IH]; [reflexivity|]. rewrite Hx, IH. reflexivity. }
  now rewrite E.
Qed.

Lemma json_rt_elem k x : json_rt (elem_val k x) = Ok (elem_val k x).
Proof. destruct k, x as [q| | |]; reflexivity. Qed.

Lemma json_rt_tolist k sh : forall d,
  Forall (fun n => 0 <= n) sh -> Z.of_nat (List.length d) = prodZ sh ->
  json_rt (tolist k sh d) = Ok (tolist k sh d).
Proof.
  induction sh as [|n rest IH]; intros d Hsh Hlen.
  - cbn in Hlen. destruct d as [|x [|y d]]; cbn in Hlen; try lia. cbn. apply json_rt_elem.
  - inversion Hsh as [|? ? Hn Hrest]; subst. cbn [tolist]. apply json_rt_list.
    pose proof (prodZ_nonneg rest Hrest) as Hp.
    assert (Hl : List.length d = (Z.to_nat n * Z.to_nat (prodZ rest))%nat).
    { cbn [prodZ fold_right] in Hlen. fold (prodZ rest) in Hlen. nia. }
    pose proof (take_rows_rows _ _ d Hl) as Hrows.
    apply Forall_forall. intros v Hv. apply in_map_iff in Hv. destruct Hv as (row & <- & Hrow).
    apply IH; [assumption|]. rewrite Forall_forall in Hrows. rewrite (Hrows row Hrow). lia.
Qed.

Lemma leaf_elem k x : repr_elem k x -> leaf_xf (elem_val k x) = Some x.
Proof.
  destruct k; cbn; intros H.
  - reflexivity.
  - destruct H as [z ->]. cbn. reflexivity.
  - destruct H as [-> | ->]; reflexivity.
Qed.

Lemma all_some_leaves k d : Forall (repr_elem k) d -> all_some (map leaf_xf (map (elem_val k) d)) = Some d.
Proof.
  induction 1 as [|x d Hx Hd IH]; [reflexivity|]. cbn [map all_some]. now rewrite (leaf_elem k x Hx), IH.
Qed.

Lemma json_rt_shape sh : json_rt (VList (map VInt sh)) = Ok (VList (map VInt sh)).
Proof. apply json_rt_list. apply Forall_forall. intros v Hv. apply in_map_iff in Hv. destruct Hv as (z & <- & _). reflexivity. Qed.

Lemma all_some_shape sh :
  all_some (map (fun v => match v with VInt z => Some z | _ => None end) (map VInt sh)) = Some sh.
Proof. induction sh as [|z sh IH]; [reflexivity|]. cbn [map all_some]. now rewrite IH. Qed.

Lemma kind_of_dtype_name k : kind_of_dtype (dtype_name k) = Some k.
Proof. destruct k; reflexivity. Qed.

Lemma tolist_empty_data k sh d :
  tolist k sh d = VList [] -> Forall (fun n => 0 <= n) sh -> Z.of_nat (List.length d) = prodZ sh -> d = [].
Proof.
  destruct sh as [|n rest]; intros H Hsh Hlen.
  - cbn in Hlen. destruct d as [|x [|y d]]; cbn in Hlen; try lia. cbn in H. exfalso. eapply elem_not_list; eauto.
  - cbn [tolist] in H. injection H as H. apply map_eq_nil in H.
    destruct (Z.to_nat n) as [|m] eqn:En; [|discriminate].
    inversion Hsh; subst. cbn [prodZ fold_right] in Hlen. assert (n = 0) by lia. subst n.
    destruct d; [reflexivity|cbn in Hlen; lia].
Qed.

Lemma json_rt_dict_nil : json_rt (VDict []) = Ok (VDict []).
Proof. reflexivity. Qed.
Lemma json_rt_dict_cons k x r :
  json_rt (VDict ((VStr k, x) :: r))
  = bind (json_rt x) (fun a => bind (json_rt (VDict r))
      (fun d => match d with VDict b => Ok (VDict ((VStr k, a) :: b)) | _ => Err TypeError end)).
Proof.
  cbn [json_rt]. unfold rmap. destruct (json_rt x) as [a|e]; [|reflexivity]. cbn [bind].
  match goal with |- context [bind (?f r) _] => destruct (f r) as [b|e] end; reflexivity.
Qed.

Theorem array_roundtrip numpy k sh d fuel :
  wf_arr k sh d -> (1 <= fuel)%nat ->
  bind (json_rt (ser (emb (GArr numpy k sh d)))) (deser_f fuel) = Ok (VArr k sh d).
Proof.
  intros (Hsh & Hlen & Hrep & Hki) Hf. destruct fuel as [|fuel]; [lia|].
  assert (Es : ser (emb (GArr numpy k sh d))
               = tagged "jax.numpy" [(VStr "data", tolist k sh d); (VStr "dtype", VStr (dtype_name k));
                                     (VStr "shape", VList (map VInt sh))]) by (destruct numpy; reflexivity).
  rewrite Es. clear Es. unfold tagged.
  rewrite !json_rt_dict_cons, json_rt_dict_nil.
  rewrite json_rt_tolist by assumption. rewrite json_rt_shape.
  cbn [json_rt bind].
  cbn [deser_f dict_get assoc_lookup scalar_eqb as_num].
  repeat match goal with |- context [string_eqb ?a ?b] =>
    let v := eval vm_compute in (string_eqb a b) in change (string_eqb a b) with v end.
  cbn match. 
  unfold array_of_json. rewrite flat_tolist by assumption. rewrite all_some_leaves by assumption.
  rewrite kind_of_dtype_name, all_some_shape.
  assert (Exs : match tolist k sh d with VList [] => [] | _ => d end = d).
  { destruct (tolist k sh d) eqn:Et; try reflexivity. destruct l; [|reflexivity].
    symmetry. eapply tolist_empty_data; eauto. }
  replace (match tolist k sh d with VList _ => d | _ => d end) with d by (destruct (tolist k sh d); reflexivity).
  rewrite Exs, <- Hlen, Z.eqb_refl.
  destruct k; try reflexivity. destruct sh; [exfalso; now apply Hki|reflexivity].
Qed.

(* ------------------------------------------------------------------ *)
(* slices, sets, dicts, and the whole grammar *)
Ltac unfold_deser_once :=
  match goal with |- context [deser_f (S ?f) ?x] =>
    let t := eval cbv beta iota zeta delta [deser_f] in (deser_f (S f) x) in
    change (deser_f (S f) x) with t; fold deser_f end.
Lemma slice_roundtrip a b c fuel : (1 <= fuel)%nat ->
  bind (json_rt (ser (VSlice (oz a) (oz b) (oz c)))) (deser_f fuel) = Ok (VSlice (oz a) (oz b) (oz c)).
Proof. intros Hf. destruct fuel as [|fuel]; [lia|]. destruct a, b, c; reflexivity. Qed.

Lemma ser_set l :
  ser (VSet l) = tagged "set" [(VStr "data", VList ((fix go (l : list val) : list val :=
                                   match l with [] => [] | v :: r => ser v :: go r end) l))].
Proof. reflexivity. Qed.

Definition deser_list (fuel : nat) := (fix go (l : list val) : res (list val) :=
     match l with [] => Ok [] | v :: r => bind (deser_f fuel v) (fun a => bind (go r) (fun b => Ok (a :: b))) end).
Lemma deser_set_eq fuel items :
  deser_f (S fuel) (VDict [(VStr "type", VStr "set"); (VStr "data", VList items)]) = rmap VSet (deser_list fuel items).
Proof. reflexivity. Qed.

Lemma set_roundtrip l fuel : Forall ok_scalar l -> (2 <= fuel)%nat ->
  bind (json_rt (ser (VSet (map emb_scalar l)))) (deser_f fuel) = Ok (VSet (map (fun s => emb_scalar (canon_scalar s)) l)).
Proof.
  intros Hl Hf. destruct fuel as [|[|fuel]]; try lia.
  rewrite ser_set. unfold tagged. rewrite !json_rt_dict_cons, json_rt_dict_nil.
  cbn [json_rt]. unfold rmap. rewrite (json_ser_scalars l Hl). cbn [bind].
  rewrite deser_set_eq. unfold rmap, deser_list.
  rewrite (deser_scalars l (S fuel) Hl) by lia. reflexivity.
Qed.

Lemma ser_dict l :
  ser (VDict l) = tagged "dict" [(VStr "data", VDict ((fix go (l : list (val * val)) : list (val * val) :=
                                   match l with [] => [] | (k, v) :: r => (k, ser v) :: go r end) l))].
Proof. reflexivity. Qed.

Definition ser_items := (fix go (l : list (val * val)) : list (val * val) :=
                           match l with [] => [] | (k, v) :: r => (k, ser v) :: go r end).
Definition deser_items (fuel : nat) := (fix go (l : list (val * val)) : res (list (val * val)) :=
                               match l with
                               | [] => Ok []
                               | (k, v) :: r => bind (deser_f fuel v) (fun a => bind (go r) (fun b => Ok ((k, a) :: b)))
                               end).

Lemma deser_dict_eq fuel items :
  deser_f (S fuel) (VDict [(VStr "type", VStr "dict"); (VStr "data", VDict items)]) = rmap VDict (deser_items fuel items).
Proof. reflexivity. Qed.

(* the statement proved by mutual induction: values, and the item lists of dictionaries *)
Definition P_val (g : gval) : Prop :=
  wf g -> forall fuel, (depth g < fuel)%nat ->
  bind (json_rt (ser (emb g))) (deser_f fuel) = Ok (emb (canon g)).
Definition P_dict (d : gdict) : Prop :=
  wf_dict d -> forall fuel, (depth_dict d < fuel)%nat ->
  bind (json_rt (VDict (ser_items (emb_dict d)))) (fun j => match j with VDict items => deser_items fuel items | _ => Err TypeError end)
  = Ok (emb_dict (canon_dict d)).

Theorem value_roundtrip_all : forall g, P_val g.
Proof.
  apply (gval_mut P_val P_dict); unfold P_val, P_dict.
  - (* scalars *) intros s Hs fuel Hf. cbn [emb canon]. apply scalar_roundtrip; [exact Hs|cbn in Hf; lia].
  - (* arrays *) intros numpy k sh d Hw fuel Hf. cbn [canon].
    change (emb (GArr false k sh d)) with (VArr k sh d).
    apply array_roundtrip; [exact Hw|cbn in Hf; lia].
  - (* slices *) intros a b c _ fuel Hf. cbn [emb canon]. apply slice_roundtrip. cbn in Hf; lia.
  - (* dicts *) intros d IH Hw fuel Hf. cbn [emb canon]. rewrite ser_dict. fold ser_items.
    cbn [depth] in Hf. destruct fuel as [|fuel]; [lia|].
    specialize (IH Hw fuel ltac:(lia)).
    unfold tagged. rewrite !json_rt_dict_cons, json_rt_dict_nil.
    destruct (json_rt (VDict (ser_items (emb_dict d)))) as [j|e] eqn:Ej; [|discriminate IH].
    cbn [bind] in IH |- *. destruct j as [| | | | | | | | | | |items| | | | |]; try discriminate IH.
    cbn [json_rt bind].
    rewrite deser_dict_eq. unfold rmap. rewrite IH. reflexivity.
  - (* sets *) intros l Hw fuel Hf. cbn [emb canon]. cbn [depth] in Hf.
    rewrite map_map. apply set_roundtrip; [exact Hw|lia].
  - (* empty dict *) intros _ fuel _. reflexivity.
  - (* dict item *) intros k v IHv r IHr [Hv Hr] fuel Hf. cbn [depth_dict] in Hf.
    cbn [emb_dict ser_items canon_dict]. rewrite json_rt_dict_cons.
    specialize (IHv Hv fuel ltac:(lia)). specialize (IHr Hr fuel ltac:(lia)).
    destruct (json_rt (ser (emb v))) as [jv|e] eqn:Ev; [|discriminate IHv]. cbn [bind] in IHv |- *.
    destruct (json_rt (VDict (ser_items (emb_dict r)))) as [jr|e] eqn:Er; [|discriminate IHr]. cbn [bind] in IHr |- *.
    destruct jr as [| | | | | | | | | | |items| | | | |]; try discriminate IHr.
    cbn [deser_items bind]. rewrite IHv. cbn [bind]. fold (deser_items fuel). rewrite IHr. reflexivity.
Qed.

(* the property's statement: every value of the grammar survives
   make_serializable -> json.dumps -> json.loads -> deserialize, for any nesting depth *)
Corollary value_roundtrip g fuel :
  wf g -> (depth g < fuel)%nat -> bind (json_rt (ser (emb g))) (deser_f fuel) = Ok (emb (canon g)).
Proof. intros Hw Hf. now apply value_roundtrip_all. Qed.

Definition roundtrip_example : gval :=
  GDict (GDCons "a" (GArr false KF [0; 3] []) (GDCons "b" (GDict (GDCons "s" (GSet [GStr "x"; GNpInt 3]) GDNil)) GDNil)).
Example roundtrip_nonvacuous :
  wf roundtrip_example /\ roundtrip (emb roundtrip_example) = Ok (emb (canon roundtrip_example)).
Proof. split; [cbn; repeat split; repeat constructor; try discriminate; cbn; lia|vm_compute; reflexivity]. Qed.

(* ------------------------------------------------------------------ *)
(* covariance expressions *)
Inductive gk :=
  | GKBase (cls : string) (attrs : list (string * gval))
  | GKPair (cls : string) (l : gk) (r : gk + gval) (ad : gval).

Fixpoint kemb (e : gk) : kexpr :=
  match e with
  | GKBase cls attrs => KBase cls (map (fun kv => (fst kv, emb (snd kv))) attrs)
  | GKPair cls l r ad => KPair cls (kemb l) (match r with inl k => inl (kemb k) | inr v => inr (emb v) end) (emb ad)
  end.
Fixpoint kcanon (e : gk) : gk :=
  match e with
  | GKBase cls attrs => GKBase cls (map (fun kv => (fst kv, canon (snd kv))) attrs)
  | GKPair cls l r ad => GKPair cls (kcanon l) (match r with inl k => inl (kcanon k) | inr v => inr (canon v) end) (canon ad)
  end.
(* a scalar right operand is a number (never a dictionary) *)
Definition scalar_operand (v : gval) : Prop :=
  match v with GScal (GInt _) | GScal (GFloat _) | GScal (GNpFloat _) | GScal (GNpInt _) => True | _ => False end.
Definition small (v : gval) : Prop := wf v /\ (depth v < 12)%nat.
Fixpoint kwf (e : gk) : Prop :=
  match e with
  | GKBase cls attrs => mem_str cls base_classes = true /\ Forall (fun kv => small (snd kv)) attrs
  | GKPair cls l r ad =>
      mem_str cls pair_classes = true /\ mem_str cls base_classes = false /\ kwf l
      /\ (match r with inl k => kwf k | inr v => scalar_operand v end) /\ small ad
  end.
Fixpoint gkdepth (e : gk) : nat :=
  match e with
  | GKBase _ _ => 1
  | GKPair _ l r _ => S (Nat.max (gkdepth l) (match r with inl k => gkdepth k | inr _ => 0 end))
  end.

Lemma value_json_exists g : small g ->
  exists j, json_rt (ser (emb g)) = Ok j /\ deser j = Ok (emb (canon g)).
Proof.
  intros [Hw Hd]. pose proof (value_roundtrip g 12 Hw Hd) as H.
  destruct (json_rt (ser (emb g))) as [j|e]; [|discriminate H]. exists j. split; [reflexivity|exact H].
Qed.

Lemma attrs_json attrs : Forall (fun kv => small (snd kv)) attrs ->
  exists items, json_rt (VDict (map (fun kv => (VStr (fst kv), ser (snd kv))) (map (fun kv => (fst kv, emb (snd kv))) attrs))) = Ok (VDict items)
                /\ deser_attrs items = Ok (map (fun kv => (fst kv, emb (canon (snd kv)))) attrs).
Proof.
  induction 1 as [|[k v] attrs Hv Hr IH].
  - exists []. split; reflexivity.
  - destruct IH as (items & Ej & Ed). destruct (value_json_exists v Hv) as (j & Ejv & Edv).
    exists ((VStr k, j) :: items). cbn [map fst snd]. rewrite json_rt_dict_cons. cbn [fst snd] in *.
    rewrite Ejv. cbn [bind]. rewrite Ej. cbn [bind]. split; [reflexivity|].
    cbn [deser_attrs]. rewrite Edv. cbn [bind]. rewrite Ed. reflexivity.
Qed.

Lemma json_kmeta cls m : json_rt (kmeta cls m) = Ok (kmeta cls m).
Proof. reflexivity. Qed.

Lemma scalar_operand_json v : scalar_operand v ->
  exists j, json_rt (ser (emb v)) = Ok j /\ is_cov_dict j = false /\ deser j = Ok (emb (canon v)).
Proof.
  destruct v as [[| | z | f | | f | z]| | | |]; cbn; try contradiction; intros _; eexists; repeat split.
Qed.

Lemma json_dict_head k x r j :
  json_rt (VDict ((VStr k, x) :: r)) = Ok j -> json_rt x = Ok x ->
  exists b, j = VDict ((VStr k, x) :: b).
Proof.
  rewrite json_rt_dict_cons. intros H Hx. rewrite Hx in H. cbn [bind] in H.
  destruct (json_rt (VDict r)) as [d|e']; [|discriminate H]. cbn [bind] in H.
  destruct d; try discriminate H. injection H as <-. eexists. reflexivity.
Qed.

Lemma kser_json_cov e j : json_rt (kser e) = Ok j -> is_cov_dict j = true.
Proof.
  destruct e as [cls attrs|cls l r ad]; cbn [kser]; intros H;
    apply json_dict_head in H; try reflexivity; destruct H as [b ->]; reflexivity.
Qed.

Ltac eval_str_eqb :=
  repeat match goal with |- context [string_eqb ?a ?b] =>
    let v := eval vm_compute in (string_eqb a b) in change (string_eqb a b) with v end.

Theorem kexpr_roundtrip : forall fuel e, kwf e -> (gkdepth e < fuel)%nat ->
  bind (json_rt (kser (kemb e))) (kdeser fuel) = Ok (kemb (kcanon e)).
Proof.
  induction fuel as [|fuel IH]; intros e Hw Hf; [lia|].
  destruct e as [cls attrs|cls l r ad].
  - destruct Hw as [Hc Ha].
    destruct (attrs_json attrs Ha) as (items & Ej & Ed).
    cbn [kemb kser]. rewrite !json_rt_dict_cons, json_rt_dict_nil. rewrite Ej, json_kmeta.
    cbn [json_rt bind].
    cbn [kdeser is_cov_dict dict_get assoc_lookup scalar_eqb as_num negb].
    eval_str_eqb. cbn match. cbn [negb]. unfold kmeta. cbn [dict_get assoc_lookup scalar_eqb as_num].
    eval_str_eqb. cbn match. rewrite Hc. unfold rmap. rewrite Ed. cbn [bind kcanon kemb]. rewrite map_map. reflexivity.
  - destruct Hw as (Hp & Hnb & Hl & Hr & Had). cbn [gkdepth] in Hf.
    pose proof (IH l Hl ltac:(lia)) as El.
    destruct (json_rt (kser (kemb l))) as [jl|e'] eqn:Ejl; [|discriminate El]. cbn [bind] in El.
    destruct (value_json_exists ad Had) as (jad & Ejad & Edad).
    (* the right operand: kernel or scalar *)
    assert (Hright : exists jr,
               json_rt (match r with inl k => kser (kemb k) | inr v => ser (emb v) end) = Ok jr
               /\ (if is_cov_dict jr then rmap inl (kdeser fuel jr) else rmap inr (deser jr))
                  = Ok (match r with inl k => inl (kemb (kcanon k)) | inr v => inr (emb (canon v)) end)).
    { destruct r as [k|v].
      - pose proof (IH k Hr ltac:(lia)) as Ek.
        destruct (json_rt (kser (kemb k))) as [jk|e'] eqn:Ejk; [|discriminate Ek]. cbn [bind] in Ek.
        exists jk. split; [reflexivity|]. rewrite (kser_json_cov _ _ Ejk). unfold rmap. now rewrite Ek.
      - destruct (scalar_operand_json v Hr) as (j & Ej & Hnc & Ed). exists j. split; [exact Ej|].
        rewrite Hnc. unfold rmap. now rewrite Ed. }
    destruct Hright as (jr & Ejr & Edr).
    cbn [kemb kser].
    replace (match match r with inl k => inl (kemb k) | inr v => inr (emb v) end with
             | inl k => kser k | inr v => ser v end)
      with (match r with inl k => kser (kemb k) | inr v => ser (emb v) end) by (destruct r; reflexivity).
    rewrite !json_rt_dict_cons, json_rt_dict_nil. rewrite Ejl, Ejr, Ejad, json_kmeta.
    cbn [json_rt bind].
    cbn [kdeser is_cov_dict dict_get assoc_lookup scalar_eqb as_num negb].
    eval_str_eqb. cbn match. cbn [negb]. unfold kmeta. cbn [dict_get assoc_lookup scalar_eqb as_num].
    eval_str_eqb. cbn match. rewrite Hnb, Hp. rewrite El. cbn [bind]. rewrite Edr. cbn [bind].
    fold deser. rewrite Edad. cbn [bind kcanon kemb]. destruct r; reflexivity.
Qed.

Example kexpr_nonvacuous :
  let e := GKPair "Add" (GKBase "Matern52" [("active_dims", GSlice None (Some (-1)) None); ("ls", GScal (GFloat (XFin (3#2))))])
                  (inl (GKPair "Mul" (GKBase "Linear" [("active_dims", GArr true KI [2] [XFin 0; XFin 2]); ("ls", GScal (GNpFloat (XFin 1)))])
                               (inr (GScal (GFloat (XFin (1#4))))) (GScal GNone))) (GScal (GInt (-1))) in
  bind (json_rt (kser (kemb e))) (kdeser 5) = Ok (kemb (kcanon e)).
Proof. vm_compute. reflexivity. Qed.

(* ------------------------------------------------------------------ *)
(* re-serialising a restored value gives the content that was read: the JSON form of a value is the
   serialised form of its restored (canonical) value *)
Definition Q_val (g : gval) : Prop := wf g -> json_rt (ser (emb g)) = Ok (ser (emb (canon g))).
Definition Q_dict (d : gdict) : Prop :=
  wf_dict d -> json_rt (VDict (ser_items (emb_dict d))) = Ok (VDict (ser_items (emb_dict (canon_dict d)))).

Theorem reserialise_stable_all : forall g, Q_val g.
Proof.
  apply (gval_mut Q_val Q_dict); unfold Q_val, Q_dict.
  - intros s Hs. destruct s as [|b|z|f|t|f|z]; reflexivity.
  - intros numpy k sh d (Hsh & Hlen & Hrep & Hki).
    assert (Es : forall np, ser (emb (GArr np k sh d))
               = tagged "jax.numpy" [(VStr "data", tolist k sh d); (VStr "dtype", VStr (dtype_name k));
                                     (VStr "shape", VList (map VInt sh))]) by (intros np; destruct np; reflexivity).
    cbn [canon]. rewrite !Es. unfold tagged. rewrite !json_rt_dict_cons, json_rt_dict_nil.
    rewrite json_rt_tolist by assumption. rewrite json_rt_shape. reflexivity.
  - intros a b c _. destruct a, b, c; reflexivity.
  - intros d IH Hw. cbn [emb canon]. rewrite !ser_dict. fold ser_items. unfold tagged.
    rewrite !json_rt_dict_cons, json_rt_dict_nil. rewrite (IH Hw). reflexivity.
  - intros l Hw. cbn [emb canon]. rewrite !ser_set. unfold tagged.
    rewrite !json_rt_dict_cons, json_rt_dict_nil. cbn [json_rt]. unfold rmap.
    rewrite (json_ser_scalars l Hw). cbn [bind]. do 6 f_equal. rewrite !map_map.
    clear. induction l as [|s l IH]; [reflexivity|]. cbn [map]. rewrite IH.
    destruct s; reflexivity.
  - intros _. reflexivity.
  - intros k v IHv r IHr [Hv Hr]. cbn [emb_dict ser_items canon_dict]. rewrite json_rt_dict_cons.
    rewrite (IHv Hv), (IHr Hr). reflexivity.
Qed.
