(* C02: executable composition of the GENERATED estimator methods (gen/C02Dispatch.v) used by the correspondence
   run of checks/C02.py: compute Lp, then L, then the predictor setter(s) (order: theorem C02_order_and_classes),
   with a shape-only stand-in for the uninterpreted factorisation routines (the theorems hold for every oracle;
   here only the recorded class names and n_obs are read off).  Definitions only. *)
From Coq Require Import ZArith QArith List String.
From MellonV Require Import PyVal PyValExtC02 C02Dispatch C02DispatchThm.
Import ListNotations.
Open Scope Z_scope.
Open Scope string_scope.

Definition shape_oracle (name : string) (args : list val) : res val :=
  match args with
  | pts :: _ => if String.eqb name "_full_rank" then Ok (VArr KF [rows_of pts; rows_of pts] [])
                else if String.eqb name "test_rank" then Ok VNone
                else Ok (VArr KF [rows_of pts; 2] [])
  | [] => Ok VNone
  end.

Definition describe (p : val) : res val :=
  bind (predictor_n_obs p) (fun nobs =>
  Ok (VTuple [match obj_class p with Some c => VStr c | None => VNone end; nobs;
              match obj_field p "xu" with Some xu => xu | None => VNone end])).

Definition cov_ := VObj "cov" 1.
Definition y_ (n : Z) := VArr KF [n] [].

(* (class, n_obs, inducing points) of the predictor a DensityEstimator of resolved type g builds *)
Definition run_density (g x lm rank jit : val) (pz : Z) : res val :=
  bind (c02_base_model_BaseEstimator__compute_Lp shape_oracle cov_ g jit lm x) (fun Lp =>
  bind (c02_base_model_BaseEstimator__compute_L shape_oracle Lp VNone cov_ g jit lm rank x) (fun L =>
  bind (c02_density_estimator_DensityEstimator__set_log_density_func shape_oracle L Lp cov_ g jit lm
          (y_ (rows_of x)) (VFloat (XFin 0)) (VArr KF [pz] []) VNone (VBool false) x) describe)).

Definition run_time (g x lm rank jit nrm : val) (pz : Z) : res val :=
  bind (c02_base_model_BaseEstimator__compute_Lp shape_oracle cov_ g jit lm x) (fun Lp =>
  bind (c02_base_model_BaseEstimator__compute_L shape_oracle Lp VNone cov_ g jit lm rank x) (fun L =>
  bind (c02_time_sensitive_density_estimator_TimeSensitiveDensityEstimator__set_log_density_func shape_oracle L Lp cov_ g jit lm
          (y_ (rows_of x)) (VFloat (XFin 0)) nrm (VArr KF [pz] []) VNone (VBool false) x) describe)).

Definition run_dim (g x lm rank jit : val) (pz : Z) : res val :=
  let z := VArr KF [2; pz] (repeat (XFin 0) (Z.to_nat (2 * pz))) in
  bind (c02_base_model_BaseEstimator__compute_Lp shape_oracle cov_ g jit lm x) (fun Lp =>
  bind (c02_base_model_BaseEstimator__compute_L shape_oracle Lp VNone cov_ g jit lm rank x) (fun L =>
  bind (bind (c02_dimensionality_estimator_DimensionalityEstimator__set_local_dim_func shape_oracle L Lp cov_ g jit lm
          (y_ (rows_of x)) (VFloat (XFin 0)) z VNone (VBool false) x) describe) (fun a =>
  bind (bind (c02_dimensionality_estimator_DimensionalityEstimator__set_log_density_func shape_oracle L Lp cov_ g jit lm
          (y_ (rows_of x)) (VFloat (XFin 0)) z VNone (VBool false) x) describe) (fun b =>
  Ok (VTuple [a; b]))))).
