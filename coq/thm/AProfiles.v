(* Radial profiles of the kernels (generated, gen/AKernels.v): the generated k_grad bodies are linear in the
   distance gradient and their coefficient is the radial derivative of the generated k profile.
   The proofs do not depend on the numeric constants inside the profiles (sqrt 3, sqrt 5): a consistent
   change of a constant in both k and k_grad keeps them valid, as it should. *)
From Coq Require Import Reals List Lra Lia.
From Coquelicot Require Import Coquelicot.
From MellonV Require Import ALists ARealExtra AKernels.
Open Scope R_scope.

(* ---------------------------------------------------------------- k_grad is linear in the distance gradient *)
Lemma Matern32_kgrad_linear ls d g : Matern32_kgrad ls d g = Matern32_kgrad_coeff ls d * g.
Proof. unfold Matern32_kgrad_coeff, Matern32_kgrad. ring. Qed.
Lemma Matern52_kgrad_linear ls d g : Matern52_kgrad ls d g = Matern52_kgrad_coeff ls d * g.
Proof. unfold Matern52_kgrad_coeff, Matern52_kgrad. ring. Qed.
Lemma ExpQuad_kgrad_linear ls d g : ExpQuad_kgrad ls d g = ExpQuad_kgrad_coeff ls d * g.
Proof. unfold ExpQuad_kgrad_coeff, ExpQuad_kgrad, Rdiv. ring. Qed.
Lemma Exponential_kgrad_linear ls d g : Exponential_kgrad ls d g = Exponential_kgrad_coeff ls d * g.
Proof. unfold Exponential_kgrad_coeff, Exponential_kgrad, Rdiv. ring. Qed.
Lemma RatQuad_kgrad_linear a ls d g : RatQuad_kgrad a ls d g = RatQuad_kgrad_coeff a ls d * g.
Proof. unfold RatQuad_kgrad_coeff, RatQuad_kgrad, Rdiv. ring. Qed.

(* ---------------------------------------------------------------- radial derivatives *)
Lemma Matern32_radial_derivative ls d : ls <> 0 ->
  is_derive (fun t => Matern32_k ls t) d (Matern32_kgrad_coeff ls d).
Proof.
  intros H. unfold Matern32_k, Matern32_kgrad_coeff, Matern32_kgrad. abstract_sqrt.
  auto_derive; [exact I|]. same_exp H. field. exact H.
Qed.

Lemma Matern52_radial_derivative ls d : ls <> 0 ->
  is_derive (fun t => Matern52_k ls t) d (Matern52_kgrad_coeff ls d).
Proof.
  intros H. unfold Matern52_k, Matern52_kgrad_coeff, Matern52_kgrad. abstract_sqrt.
  auto_derive; [exact I|]. same_exp H. field. exact H.
Qed.

Lemma ExpQuad_radial_derivative ls d : ls <> 0 ->
  is_derive (fun t => ExpQuad_k ls t) d (ExpQuad_kgrad_coeff ls d).
Proof.
  intros H. unfold ExpQuad_k, ExpQuad_kgrad_coeff, ExpQuad_kgrad.
  auto_derive; [exact I|]. unfold Rdiv.
  same_exp H. field. exact H.
Qed.

Lemma Exponential_radial_derivative ls d : ls <> 0 ->
  is_derive (fun t => Exponential_k ls t) d (Exponential_kgrad_coeff ls d).
Proof.
  intros H. unfold Exponential_k, Exponential_kgrad_coeff, Exponential_kgrad.
  auto_derive; [exact I|]. unfold Rdiv.
  same_exp H. field. exact H.
Qed.

Lemma RatQuad_radial_derivative alpha ls d : ls <> 0 -> 0 < alpha ->
  is_derive (fun t => RatQuad_k alpha ls t) d (RatQuad_kgrad_coeff alpha ls d).
Proof.
  intros H Ha. unfold RatQuad_k, RatQuad_kgrad_coeff, RatQuad_kgrad.
  pose proof (RatQuad_base_pos alpha ls d Ha) as Hb.
  rewrite (Rpower_pred _ (- alpha)) by exact Hb.
  unfold Rpower.
  auto_derive.
  - replace (d * / ls * (d * / ls * 1) * / (2 * alpha) + 1) with ((d / ls) ^ 2 / (2 * alpha) + 1) by (field; split; [lra|exact H]). exact Hb.
  - replace (d * / ls * (d * / ls * 1) * / (2 * alpha) + 1) with ((d / ls) ^ 2 / (2 * alpha) + 1) by (field; split; [lra|exact H]).
    generalize (exp (- alpha * ln ((d / ls) ^ 2 / (2 * alpha) + 1))); intro E.
    assert (d ^ 2 + ls ^ 2 * (2 * alpha) <> 0).
    { assert (0 <= d ^ 2) by apply pow2_ge_0. assert (0 < ls ^ 2) by (apply pow2_gt_0; exact H). nra. }
    field. repeat split; [exact H|lra|assumption].
Qed.

