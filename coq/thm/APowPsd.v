(* C05: Pow nodes inside the positive semi-definiteness closure.
   mellon.base_cov.Pow evaluates left.k(x, y) ** right; the generated node arithmetic is Pow_k p lk = Rpower lk p
   (gen/AKernels.v), which is the model of the code for POSITIVE bases only (wfk demands it).  For a positive integer
   exponent S n and an entrywise positive operand, Rpower lk (INR (S n)) = lk ^ S n is an (S n)-fold Schur product of the
   operand's Gram matrix, so the Pow node is psd whenever its operand is.  Entrywise positivity is decided syntactically
   (kpos: every stationary leaf - Matern32/52 with ls > 0, ExpQuad, Exponential, RatQuad; the distance entry is a square
   root, so this holds also for points of unequal lengths -, closed under +, *, + c with c >= 0, * c with c > 0, and any Pow node). *)
From Coq Require Import Reals List Lra Lia.
From MellonV Require Import ALists AKernels AKExpr AListsFacts ADocumented ADistThm AKernelsThm APsdThm APsdLimit ASchurBridge ABochnerThm ABochnerFinal ARatQuadPsd AKPos.
Import ListNotations.
Open Scope R_scope.

(* expression trees over Linear, ExpQuad and integer-alpha RatQuad leaves WITH positive-integer Pow nodes over entrywise
   positive operands *)
Fixpoint psd_shape_pow (e : kexpr) : Prop :=
  match e with
  | KBase b ls _ => base_ok b ls
  | KAdd l r _ | KMul l r _ => psd_shape_pow l /\ psd_shape_pow r
  | KAddC l c _ | KMulC l c _ => psd_shape_pow l /\ 0 <= c
  | KPow l p _ => psd_shape_pow l /\ (exists n : nat, p = INR (S n)) /\ kpos l
  end.

Fixpoint elementary_pow_only (e : kexpr) : Prop :=
  match e with
  | KBase BLinear _ _ | KBase BExpQuad _ _ => True
  | KBase (BRatQuad a) _ _ => exists n : nat, a = INR (S n)
  | KBase _ _ _ => False
  | KAdd l r _ | KMul l r _ => elementary_pow_only l /\ elementary_pow_only r
  | KAddC l _ _ | KMulC l _ _ | KPow l _ _ => elementary_pow_only l
  end.

Lemma psd_ext k1 k2 : (forall x y, k1 x y = k2 x y) -> psd k2 -> psd k1.
Proof. intros H H2 pts v Hl. rewrite (quad_ext k1 k2 pts v H). now apply H2. Qed.

(* the Pow node alone: any psd, entrywise positive operand (whatever its leaves) *)
Theorem psd_pow_node l n ad : psd (keval l) -> (forall x y, 0 < keval l x y) ->
  psd (keval (KPow l (INR (S n)) ad)).
Proof.
  intros Hp Hpos. cbn [keval].
  apply (psd_ext _ (fun x y => (fun a b => keval l a b ^ S n) (sel ad x) (sel ad y))).
  - intros x y. unfold Pow_k. apply Rpower_pow. apply Hpos.
  - apply (psd_sel (fun a b => keval l a b ^ S n) ad). apply psd_pow; [|exact Hp].
    intros a b. apply keval_symmetric.
Qed.

Theorem keval_psd_elementary_pow e : psd_shape_pow e -> elementary_pow_only e -> psd (keval e).
Proof.
  induction e as [b ls ad|l IHl r IHr ad|l IHl c ad|l IHl r IHr ad|l IHl c ad|l IHl p ad];
    cbn [psd_shape_pow elementary_pow_only]; intros Hs Hg.
  - apply (psd_sel (base_k b ls) ad). destruct Hs as [Hls _]. destruct b; try contradiction.
    + now apply psd_expquad.
    + destruct Hg as [n ->]. now apply psd_ratquad_nat.
    + now apply psd_linear.
  - destruct Hs, Hg. apply (psd_sel (fun x y => keval l x y + keval r x y) ad). apply psd_add; auto.
  - destruct Hs. apply (psd_sel (fun x y => keval l x y + c) ad).
    apply (psd_add (keval l) (fun _ _ => c)); [auto|now apply psd_const].
  - destruct Hs, Hg. apply (psd_sel (fun x y => keval l x y * keval r x y) ad).
    apply hadamard_psd_R; auto; intros x y; apply keval_symmetric.
  - destruct Hs. apply (psd_sel (fun x y => keval l x y * c) ad). apply psd_scale; auto.
  - destruct Hs as [Hl [[n ->] Hk]]. apply psd_pow_node; [now apply IHl|now apply kpos_sound].
Qed.

(* with the Bochner hypothesis for the remaining stationary leaves (the one hypothesis of keval_psd_bochner_only): the closure
   with Pow nodes, over all six kernels *)
Theorem keval_psd_pow_bochner_only :
  (forall b ls, base_ok b ls -> psd (base_k b ls)) -> forall e, psd_shape_pow e -> psd (keval e).
Proof.
  intros kb e.
  induction e as [b ls ad|l IHl r IHr ad|l IHl c ad|l IHl r IHr ad|l IHl c ad|l IHl p ad]; cbn [psd_shape_pow]; intros Hs.
  - apply (psd_sel (base_k b ls) ad). now apply kb.
  - destruct Hs. apply (psd_sel (fun x y => keval l x y + keval r x y) ad). apply psd_add; auto.
  - destruct Hs. apply (psd_sel (fun x y => keval l x y + c) ad).
    apply (psd_add (keval l) (fun _ _ => c)); [auto|now apply psd_const].
  - destruct Hs. apply (psd_sel (fun x y => keval l x y * keval r x y) ad).
    apply hadamard_psd_R; auto; intros x y; apply keval_symmetric.
  - destruct Hs. apply (psd_sel (fun x y => keval l x y * c) ad). apply psd_scale; auto.
  - destruct Hs as [Hl [[n ->] Hk]]. apply psd_pow_node; [now apply IHl|now apply kpos_sound].
Qed.

(* conservative over the Pow-free fragment *)
Lemma psd_shape_pow_of_shape e : psd_shape e -> psd_shape_pow e.
Proof. induction e; cbn [psd_shape psd_shape_pow]; intros H; try tauto. Qed.

Lemma elementary_pow_of_elementary e : elementary_only e -> elementary_pow_only e.
Proof. induction e as [b ls ad| | | | |]; cbn [elementary_only elementary_pow_only]; intros H; try tauto. Qed.

(* non-vacuity: (RatQuad(1, ls 2) * (ExpQuad(3) + 1)) ** 3 + Linear(1/2)  (a Pow node over a positive operand, next to a
   leaf that is not entrywise positive) *)
Example elementary_pow_example :
  let e := KAdd (KPow (KMul (KBase (BRatQuad 1) 2 DNone) (KAddC (KBase BExpQuad 3 DNone) 1 DNone) DNone) 3 (DInt 0%Z))
                (KBase BLinear (1 / 2) DNone) DNone in
  psd_shape_pow e /\ elementary_pow_only e.
Proof.
  cbn. repeat split; try lra; try (exists 0%nat; reflexivity).
  exists 2%nat. simpl. ring.
Qed.
