(* C20: theorems about the generated validators of mellon/validation.py. *)
From Coq Require Import ZArith QArith List Bool Lia.
From MellonV Require Import PyVal Validators.
Import ListNotations.
Open Scope Z_scope.

(* ---------- validate_nn_distances ---------- *)
Definition valid_dist (x : xf) : bool := match x with XFin q => Qltb 0 q | _ => false end.
Definition bad_dist (x : xf) : bool := xf_isnan x || xf_isinf x || xf_leb x (XFin 0).

Lemma Qltb_iff a b : Qltb a b = true <-> (a < b)%Q.
Proof.
  unfold Qltb. rewrite negb_true_iff. split; intros H.
  - apply Qnot_le_lt. intro L. apply Qle_bool_iff in L. congruence.
  - destruct (Qle_bool b a) eqn:E; [|reflexivity]. apply Qle_bool_iff in E.
    exfalso. apply (Qlt_not_le _ _ H E).
Qed.

Lemma Qle_bool_split q : Qle_bool q 0 = Qltb q 0 || Qeq_bool q 0.
Proof.
  apply eq_true_iff_eq. rewrite orb_true_iff, Qle_bool_iff, Qltb_iff, Qeq_bool_iff.
  apply Qle_lteq.
Qed.

Lemma bad_is_not_valid x : bad_dist x = negb (valid_dist x).
Proof.
  destruct x as [q| | |]; try reflexivity.
  unfold bad_dist, valid_dist, xf_leb. cbn [xf_isnan xf_isinf orb xf_ltb xf_eqb].
  rewrite <- Qle_bool_split. unfold Qltb. now rewrite negb_involutive.
Qed.

Lemma zip_with_map_map {A B C D} (f : B -> C -> D) (g : A -> B) (h : A -> C) l :
  zip_with f (map g l) (map h l) = map (fun x => f (g x) (h x)) l.
Proof. induction l as [|a l IH]; [reflexivity|]. cbn. now rewrite IH. Qed.
Lemma zip_with_map_l {A B C} (f : B -> A -> C) (g : A -> B) l :
  zip_with f (map g l) l = map (fun x => f (g x) x) l.
Proof. induction l as [|a l IH]; [reflexivity|]. cbn. now rewrite IH. Qed.
Lemma truth_of_bool b : xf_truth (xf_of_bool b) = b.
Proof. destruct b; reflexivity. Qed.

Lemma select_mask_filter (p : xf -> bool) d :
  select_mask d (map (fun x => xf_of_bool (p x)) d) = filter p d.
Proof. induction d as [|x d IH]; [reflexivity|]. cbn [map select_mask filter]. rewrite truth_of_bool. destruct (p x); now rewrite IH. Qed.

Definition xmin (x : xf) (r : list xf) : xf := fold_left (fun m y => if xf_ltb y m then y else m) r x.
Definition sanitise (d : list xf) : list xf :=
  match filter valid_dist d with
  | [] => d
  | x :: r => map (fun y => if valid_dist y then y else xmin x r) d
  end.

Lemma forallb_map_truth (p : xf -> bool) d :
  forallb xf_truth (map (fun x => xf_of_bool (p x)) d) = forallb p d.
Proof. induction d as [|x d IH]; [reflexivity|]. cbn [map forallb]. now rewrite truth_of_bool, IH. Qed.

Theorem nn_sanitised_model (d : list xf) opt :
  let n := Z.of_nat (length d) in
  py_validation_validate_nn_distances (VArr KF [n] d) (VBool opt)
  = if forallb (fun x => negb (valid_dist x)) d then Err ValueError
    else Ok (VArr KF [n] (sanitise d)).
Proof.
  intros n. unfold py_validation_validate_nn_distances.
  cbn -[Z.of_nat forallb]. fold n.
  cbn [forallb fst snd]. rewrite Z.eqb_refl. cbn [andb bind2 bind py_or_].
  rewrite zip_with_map_map. cbn -[Z.of_nat forallb]. fold n.
  cbn [forallb fst snd]. rewrite Z.eqb_refl. cbn [andb bind].
  rewrite zip_with_map_map.
  (* the combined mask is bad_dist *)
  assert (E : map (fun x : xf => xf_lift2 orb (xf_lift2 orb (xf_of_bool (xf_isnan x)) (xf_of_bool (xf_isinf x)))
                                  (xf_of_bool (xf_leb x (xf_of_Z 0)))) d
              = map (fun x => xf_of_bool (bad_dist x)) d).
  { apply map_ext. intros x. unfold xf_lift2, bad_dist. now rewrite !truth_of_bool. }
  rewrite E. clear E.
  cbn [np_all cond bind truthy]. rewrite truth_of_bool, forallb_map_truth.
  assert (Eb : forallb bad_dist d = forallb (fun x => negb (valid_dist x)) d)
    by (clear; induction d as [|x d IH]; [reflexivity|]; cbn [forallb]; now rewrite IH, bad_is_not_valid).
  rewrite Eb. destruct (forallb (fun x => negb (valid_dist x)) d) eqn:Hall; [reflexivity|].
  cbn [py_invert bind]. rewrite map_map.
  assert (Ev : map (fun x => xf_of_bool (negb (xf_truth (xf_of_bool (bad_dist x))))) d
               = map (fun x => xf_of_bool (valid_dist x)) d).
  { apply map_ext. intros x. now rewrite truth_of_bool, bad_is_not_valid, negb_involutive. }
  rewrite Ev. clear Ev. rewrite Z.eqb_refl. rewrite select_mask_filter.
  unfold sanitise. destruct (filter valid_dist d) as [|x r] eqn:Hf.
  - (* impossible: some entry is valid *)
    exfalso. assert (forallb (fun x => negb (valid_dist x)) d = true); [|congruence].
    apply forallb_forall. intros x Hx. destruct (valid_dist x) eqn:Hv; [|reflexivity].
    assert (In x (filter valid_dist d)) by (apply filter_In; auto). rewrite Hf in H. destruct H.
  - cbn -[Z.of_nat]. fold n. cbn [forallb fst snd]. rewrite Z.eqb_refl. cbn [andb].
    rewrite zip_with_map_l. cbn [bind]. unfold xmin. do 2 f_equal. apply map_ext. intros y. now rewrite truth_of_bool.
Qed.

(* ---- what the sanitised vector looks like ---- *)
Lemma xmin_in x r : In (xmin x r) (x :: r).
Proof.
  unfold xmin. revert x. induction r as [|y r IH]; intros x; [now left|].
  cbn [fold_left]. destruct (xf_ltb y x).
  - destruct (IH y) as [H|H]; [right; now left|right; now right].
  - destruct (IH x) as [H|H]; [now left|right; now right].
Qed.

Definition xle (a b : xf) : Prop := xf_ltb b a = false.      (* a <= b, as Python's min sees it *)
Definition isfin (x : xf) : bool := match x with XFin _ => true | _ => false end.

Lemma xle_fin a b : isfin a = true -> isfin b = true -> (xle a b <-> match a, b with XFin p, XFin q => (p <= q)%Q | _, _ => False end).
Proof.
  destruct a as [p| | |], b as [q| | |]; try discriminate. intros _ _. unfold xle. cbn.
  unfold Qltb. rewrite negb_false_iff. apply Qle_bool_iff.
Qed.
Lemma xle_refl a : isfin a = true -> xle a a.
Proof. intros H. apply (xle_fin a a H H). destruct a; try discriminate. apply Qle_refl. Qed.
Lemma xle_trans a b c : isfin a = true -> isfin b = true -> isfin c = true -> xle a b -> xle b c -> xle a c.
Proof.
  intros Ha Hb Hc H1 H2. apply (xle_fin a b Ha Hb) in H1. apply (xle_fin b c Hb Hc) in H2. apply (xle_fin a c Ha Hc).
  destruct a, b, c; try discriminate. eapply Qle_trans; eauto.
Qed.
Lemma xle_total a b : isfin a = true -> isfin b = true -> xf_ltb a b = true -> xle a b.
Proof.
  intros Ha Hb H. apply (xle_fin a b Ha Hb). destruct a as [p| | |], b as [q| | |]; try discriminate.
  cbn in H. apply Qltb_iff in H. now apply Qlt_le_weak.
Qed.

Lemma fold_min_lower r : forall x, isfin x = true -> Forall (fun z => isfin z = true) r ->
  let m := xmin x r in isfin m = true /\ xle m x /\ Forall (fun y => xle m y) r.
Proof.
  unfold xmin. induction r as [|z r IH]; intros x Hx Hr; cbn [fold_left].
  - repeat split; [assumption|now apply xle_refl|constructor].
  - inversion Hr as [|? ? Hz Hr']; subst.
    destruct (xf_ltb z x) eqn:E.
    + destruct (IH z Hz Hr') as (Hm & Hmz & Hmr). repeat split; [assumption| |constructor; assumption].
      eapply (xle_trans _ z x); auto. now apply xle_total.
    + destruct (IH x Hx Hr') as (Hm & Hmx & Hmr). repeat split; [assumption|assumption|constructor; [|assumption]].
      eapply (xle_trans _ x z); auto.
  Qed.

Lemma valid_fin x : valid_dist x = true -> isfin x = true.
Proof. destruct x; try discriminate; reflexivity. Qed.

(* if some distance is valid: same length, valid entries untouched, every other entry replaced by
   one and the same valid entry m of the input, and m is the smallest valid one *)
Theorem sanitise_spec d :
  existsb valid_dist d = true ->
  exists m, valid_dist m = true /\ In m d
            /\ sanitise d = map (fun y => if valid_dist y then y else m) d
            /\ (forall y, In y d -> valid_dist y = true -> xle m y).
Proof.
  intros He. unfold sanitise. destruct (filter valid_dist d) as [|x r] eqn:Hf.
  - exfalso. apply existsb_exists in He. destruct He as (y & Hy & Hv).
    assert (In y (filter valid_dist d)) by (apply filter_In; auto). rewrite Hf in H. destruct H.
  - exists (xmin x r). pose proof (xmin_in x r) as Hin. rewrite <- Hf in Hin.
    apply filter_In in Hin. destruct Hin as [Hin Hv]. repeat split; auto.
    intros y Hy Hvy. assert (Hyf : In y (x :: r)) by (rewrite <- Hf; apply filter_In; auto).
    assert (Hallv : Forall (fun z => isfin z = true) (x :: r)).
    { rewrite <- Hf. apply Forall_forall. intros z Hz. apply filter_In in Hz. apply valid_fin. tauto. }
    inversion Hallv as [|? ? Hx Hr]; subst.
    destruct (fold_min_lower r x Hx Hr) as (_ & Hmx & Hmr).
    destruct Hyf as [<-|Hyr]; [exact Hmx|]. rewrite Forall_forall in Hmr. now apply Hmr.
Qed.

Theorem nn_none_handling :
  py_validation_validate_nn_distances VNone (VBool true) = Ok VNone
  /\ py_validation_validate_nn_distances VNone (VBool false) = Err ValueError.
Proof. split; reflexivity. Qed.

(* ---------- scalar validators over the WHOLE value universe ---------- *)
Theorem validate_bool_spec v nm opt :
  py_validation_validate_bool v nm (VBool opt)
  = match v with
    | VNone => if opt then Ok VNone else Err TypeError
    | VBool b => Ok (VBool b)
    | _ => Err TypeError
    end.
Proof. destruct v; destruct opt; reflexivity. Qed.

Theorem validate_positive_int_spec v nm opt :
  py_validation_validate_positive_int v nm (VBool opt)
  = match v with
    | VNone => if opt then Ok VNone else Err ValueError
    | VBool b => Ok v
    | VInt z => if z <? 0 then Err ValueError else Ok v
    | _ => Err ValueError
    end.
Proof.
  destruct v; destruct opt; try reflexivity; unfold py_validation_validate_positive_int; cbn;
    try (destruct b; reflexivity); destruct (z <? 0); reflexivity.
Qed.

(* accepted values are positive non-NaN floats; every refusal is a ValueError *)
Definition pos_float_result (v : val) (opt : bool) (r : res val) : Prop :=
  match r with
  | Ok VNone => v = VNone /\ opt = true
  | Ok (VFloat f) => xf_ltb (XFin 0) f = true
  | Ok _ => False
  | Err e => e = ValueError
  end.

Ltac arr_cases d := destruct d as [|? [|? ?]].

Lemma positive_when_not_le f :
  xf_leb f (xf_of_Z 0) = false -> xf_isnan f = false -> xf_ltb (XFin 0) f = true.
Proof.
  destruct f as [q| | |]; cbn; try discriminate; try reflexivity.
  unfold xf_leb. cbn. change (inject_Z 0) with 0%Q. intros H _.
  apply orb_false_iff in H. destruct H as [H1 H2].
  apply Qltb_iff. apply Qnot_le_lt. intro L. apply Qle_bool_iff in L.
  rewrite Qle_bool_split, H1, H2 in L. discriminate.
Qed.

Ltac pos_case f :=
  destruct (xf_leb f (xf_of_Z 0)) eqn:?E1; cbn; [reflexivity|];
  try (destruct (xf_isnan f) eqn:?E2; cbn; [reflexivity|]);
  apply (positive_when_not_le f); auto.

Theorem validate_positive_float_spec v nm opt :
  pos_float_result v opt (py_validation_validate_positive_float v nm (VBool opt)).
Proof.
  unfold pos_float_result, py_validation_validate_positive_float.
  destruct v as [|b|z|f|s|s f|g|k sh data|k sh data|l|l|l|l|a b c|k f|z|cls id]; destruct opt; cbn; try reflexivity; try (split; reflexivity);
    try (destruct b; cbn; reflexivity).
  all: try (pos_case (xf_of_Z z)).
  all: try (pos_case f).
  all: try (destruct sh as [|? ?]; destruct data as [|f [|f2 data]]; cbn; try reflexivity; pos_case f).
Qed.

(* accepted values are None (when optional), ints/bools unchanged, or non-NaN floats; refusals are ValueErrors *)
Definition float_or_int_result (v : val) (opt : bool) (r : res val) : Prop :=
  match r with
  | Ok VNone => v = VNone /\ opt = true
  | Ok (VFloat f) => xf_isnan f = false
  | Ok (VNpScalar KF f) => xf_isnan f = false /\ v = VNpScalar KF f
  | Ok (VInt z) => v = VInt z
  | Ok (VBool b) => v = VBool b
  | Ok _ => False
  | Err e => e = ValueError
  end.

Ltac nan_case f := destruct (xf_isnan f) eqn:?E; cbn; auto.

Theorem validate_float_or_int_spec v nm opt :
  float_or_int_result v opt (py_validation_validate_float_or_int v nm (VBool opt)).
Proof.
  unfold float_or_int_result, py_validation_validate_float_or_int.
  destruct v as [|b|z|f|s|s f|g|k sh data|k sh data|l|l|l|l|a b c|k f|z|cls id]; destruct opt; cbn; try reflexivity; try (split; reflexivity).
  all: try (nan_case f).
  all: try (destruct sh as [|? ?]; destruct data as [|f [|f2 data]]; cbn; try reflexivity; nan_case f).
  all: try (destruct k; cbn; try reflexivity; nan_case f).
Qed.

Theorem validate_float_spec v nm opt :
  match py_validation_validate_float v nm (VBool opt) with
  | Ok VNone => v = VNone /\ opt = true
  | Ok (VFloat f) => xf_isnan f = false
  | Ok (VNpScalar KF f) => xf_isnan f = false
  | Ok (VInt z) => v = VInt z
  | Ok (VBool b) => v = VBool b
  | Ok (VArr _ [] [f]) => xf_isnan f = false
  | Ok _ => False
  | Err e => e = ValueError
  end.
Proof.
  unfold py_validation_validate_float.
  destruct v as [|b|z|f|s|s f|g|k sh data|k sh data|l|l|l|l|a b c|k f|z|cls id]; destruct opt; cbn; try reflexivity; try (split; reflexivity).
  all: try (nan_case f).
  all: try (destruct k; cbn; try reflexivity; nan_case f).
  all: try (destruct data as [|f [|f2 data]]; cbn; try reflexivity;
            try (destruct (match Pos.succ (Pos.of_succ_nat (length data)) with 1%positive => true | _ => false end); reflexivity)).
  all: try (destruct (filter (fun s : Z => negb (s =? 1)) sh) as [|? ?]; cbn; try reflexivity; nan_case f).
  all: try (destruct sh as [|? ?]; cbn; try reflexivity; nan_case f).
  all: try (destruct (match Pos.succ (Pos.of_succ_nat (length data)) with 1%positive => true | _ => false end); reflexivity).
Qed.
