(* C09: cross-formulation identities when the inducing points are the training cells. *)
From mathcomp Require Import all_ssreflect all_fingroup all_algebra.
From MellonV Require Import MatOps MxInst MxPsd MatGen CondThm AffineThm FactorThm.
Set Implicit Arguments.
Unset Strict Implicit.
Unset Printing Implicit Defensive.
Import Order.TTheory GRing.Theory Num.Theory.
Local Open Scope ring_scope.

Section Cross.
Variable F : rcfType.
Variable cholF : forall n : nat, 'M[F]_n -> 'M[F]_n.
Variable eigS : forall n p : nat, 'M[F]_n -> 'cV[F]_p.
Variable eigV : forall n p : nat, 'M[F]_n -> 'M[F]_(n, p).
Variable qrQ : forall n m k : nat, 'M[F]_(n, m) -> 'M[F]_(n, k).
Variable qrR : forall n m k : nat, 'M[F]_(n, m) -> 'M[F]_(k, m).
Hypothesis chol_ok : chol_contract cholF.

Let ops := MxOps cholF eigS eigV qrQ qrR.
Local Existing Instance ops.

Variables (n : nat) (K : 'M[F]_n) (j : F).
Hypothesis symK : sym K.
Hypothesis psdK : psd K.
Hypothesis j_gt0 : 0 < j.

Let A' := K + j%:M.
Let B := invmx A'.

Lemma A'u : A' \in unitmx. Proof. by apply: spd_unit; apply: spd_jitter. Qed.

Lemma BK : B *m K = 1%:M - j *: B.
Proof.
have {1}-> : K = A' - j%:M by rewrite /A' addrK.
by rewrite mulmxBr mulVmx ?A'u // mul_mx_scalar.
Qed.

(* A'^-1 <= (1/j) I :  j v^T A'^-1 v <= v^T v *)
Lemma inv_bound_u (u : 'cV[F]_n) : j * qf A' u <= qf (A' *m A') u.
Proof.
rewrite -qfZ -subr_ge0 -qfB.
have -> : A' *m A' - j *: A' = K^T *m K + j *: K.
  rewrite symK /A' mulmxDl !mulmxDr mul_mx_scalar !mul_scalar_mx scalerDr.
  by rewrite addrK.
rewrite qfD addr_ge0 // ?qfZ ?mulr_ge0 ?(ltW j_gt0) // -qfE; first exact: psd_gramT.
exact: psdK.
Qed.

Lemma inv_bound (v : 'cV[F]_n) : j * qf B v <= (v^T *m v) 0 0.
Proof.
have sB : B^T = B by apply: sym_inv; case: (spd_jitter symK psdK j_gt0).
have := inv_bound_u (B *m v); rewrite -!qf_congr sB.
have -> : B *m A' *m B = B by rewrite mulVmx ?A'u // mul1mx.
have -> : B *m (A' *m A') *m B = 1%:M.
  by rewrite mulmxA mulVmx ?A'u // mul1mx mulmxV ?A'u.
by rewrite qf_scalar mul1r.
Qed.

(* -2jI <= L_s L_s^T - L_f L_f^T <= -jI *)
Lemma sparse_vs_full_sandwich :
  let D := standard_low_rank_PN K K 0 j *m (standard_low_rank_PN K K 0 j)^T
           - full_rank K 0 j *m (full_rank K 0 j)^T in
  psd (D + (j + j)%:M) /\ psd (- j%:M - D).
Proof.
move=> D; have -> : D = - (j + j)%:M + (j ^+ 2) *: B.
  by rewrite /D sparse_vs_full_LLt // addrAC [X in X - _]addrC addrK.
split.
  rewrite addrAC addNr add0r; apply: psdZ; first by rewrite sqr_ge0.
  by apply: pd_psd; apply: pd_inv; apply: spd_jitter.
move=> v; rewrite qfE.
have -> : - j%:M - (- (j + j)%:M + j ^+ 2 *: B) = j%:M - j ^+ 2 *: B.
  by rewrite opprD opprK addrA [(j + j)%:M]raddfD /= addrA addNr add0r.
rewrite qfB qfZ qf_scalar expr2 -mulrA -mulrBr mulr_ge0 ?(ltW j_gt0) // subr_ge0.

exact: inv_bound.
Qed.

(* same function values f = K w_C + mu: Cholesky-latent read-out minus full read-out *)
Lemma latent_vs_full_pred q c (Ks : 'M[F]_(q, n)) (wC : 'M[F]_(n, c)) mu s :
  FullCond_mean Ks mu wC
  - FullCond_mean Ks mu (FullCond_init_LN_sS_cN_yT_uF_weights K (K *m wC + const_mx mu) mu s j)
  = j *: (Ks *m B *m wC).
Proof.
rewrite full_weights_ymean // addrK /FullCond_mean /= -/A' -/B.
rewrite (mulmxA B) BK mulmxBl mul1mx -scalemxAl mulmxBr -scalemxAr.
by rewrite opprD addrACA subrr add0r opprB addrC subrK mulmxA.
Qed.

Lemma KA'C : K *m A' = A' *m K.
Proof. by rewrite /A' mulmxDr mulmxDl mul_mx_scalar mul_scalar_mx. Qed.

(* inducing points = cells: w_F - w_DTC = j^2 (K K + j A')^-1 w_F *)
Lemma dtc_vs_full_weights c (y : 'M[F]_(n, c)) mu s :
  let wF := FullCond_init_LN_sS_cN_yT_uF_weights K y mu s j in
  let wD := LandmarksCond_init_sS_cN_yT_uF_weights K K y mu s j in
  wF - wD = (j ^+ 2) *: (invmx (K *m K^T + j *: A') *m wF).
Proof.
move=> wF wD; set M := K *m K^T + j *: A'.
have uM : M \in unitmx by apply: spd_unit; apply: dtc_coeff_spd.
have rE : y - const_mx mu = A' *m wF.
  by rewrite /wF full_weights_ymean // mulmxA mulmxV ?A'u // mul1mx.
have -> : wD = invmx M *m K *m (y - const_mx mu) by rewrite /wD dtc_linear_ymean.
have KA : K *m A' = M - (j ^+ 2)%:M.
  rewrite /M symK /A' mulmxDr mul_mx_scalar scalerDr.
  by rewrite scale_scalar_mx -expr2 !addrA addrK.
rewrite rE -!mulmxA (mulmxA K) KA mulmxBl mul_scalar_mx mulmxBr mulmxA mulVmx // mul1mx.
by rewrite opprB addrC subrK -scalemxAr.
Qed.

End Cross.
