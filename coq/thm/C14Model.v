(* C14: model of mellon.parameters.compute_nn_distances_within_time_points.
   Definitions only.

   GENERATED (gen/C14Gen.v, rewritten from /repo on every run): everything before the loop
   (nnwt_prologue: time merge, unique times, average count, normalize / d validation),
   _get_target_cell_count, validate_normalize_parameter, compute_average_cell_count, and the
   estimator methods _compute_nn_distances / _compute_ls.

   HAND-WRITTEN (this file): the `for time in unique_times` loop.  Its statements are tied to the
   source by the generated table [nnwt_skeleton] (theorem C14_skeleton) and by the exact
   correspondence run of checks/C14.py.  The nearest-neighbour search of one group and the real
   power function are parameters (library oracles). *)
From Coq Require Import ZArith QArith List Bool String.
From MellonV Require Import PyVal PyValExtC14 C14Gen.
Import ListNotations.
Open Scope Z_scope.

(* ------------------------------------------------------------------ *)
(* list primitives of the loop *)
Fixpoint select {A} (m : list bool) (l : list A) : list A :=
  match m, l with
  | b :: m', a :: l' => if b then a :: select m' l' else select m' l'
  | _, _ => []
  end.

(* acc.at[mask].set(vals) *)
Fixpoint scatter {A} (m : list bool) (vals : list A) (acc : list A) : list A :=
  match m, acc with
  | b :: m', a :: acc' =>
      if b then match vals with
                | v :: vs => v :: scatter m' vs acc'
                | [] => a :: scatter m' [] acc'
                end
      else a :: scatter m' vals acc'
  | _, _ => acc
  end.

Definition count_true (m : list bool) : nat := List.length (filter (fun b => b) m).

(* number of selected positions strictly before i *)
Fixpoint rank (m : list bool) (i : nat) : nat :=
  match i, m with
  | S i', b :: m' => (if b then 1 else 0) + rank m' i'
  | _, _ => 0
  end%nat.

(* ------------------------------------------------------------------ *)
Section Loop.
  Context {P : Type}.
  Variable nn_oracle : list P -> list xf.            (* compute_nn_distances on one group *)
  (* the factors of one group: None when normalisation is off *)
  Variable fac : xf -> list bool -> nat -> res (option (list xf)).

  Definition mask_of (cs : list (P * xf)) (t : xf) : list bool := map (fun c => xf_eqb (snd c) t) cs.

  Definition scaled (fo : option (list xf)) (nn : list xf) : list xf :=
    match fo with None => nn | Some fs => zip_with xf_mul fs nn end.

  Definition step (cs : list (P * xf)) (acc : list xf) (t : xf) : res (list xf) :=
    let m := mask_of cs t in                                   (* mask = x[:, -1] == time *)
    let n_t := count_true m in                                 (* n_samples = arraysum(mask) *)
    if (n_t <? 2)%nat then Err ValueError else                 (* if n_samples < 2: raise ValueError *)
    let nn := nn_oracle (select m (map fst cs)) in             (* compute_nn_distances(x[mask, :-1]) *)
    bind (fac t m n_t) (fun fo =>                              (* factor (when normalising) *)
    Ok (scatter m (scaled fo nn) acc)).                        (* nn_distances.at[mask].set(...) *)

  Definition loop (cs : list (P * xf)) (uts : list xf) (init : list xf) : res (list xf) :=
    fold_left (fun acc t => bind acc (fun a => step cs a t)) uts (Ok init).
End Loop.

(* ------------------------------------------------------------------ *)
(* the factor of one group, from the GENERATED _get_target_cell_count *)
Definition norm_on (normalize : val) : bool :=            (* normalize is not False and normalize is not None *)
  match normalize with VBool false | VNone => false | _ => true end.

Definition xf_inv (x : xf) : xf :=                         (* JAX: 1 / x on an array *)
  match x with
  | XFin q => if Qeq_bool q 0 then XPInf else XFin (Qred (1 / q))
  | XPInf | XNInf => XFin 0
  | XNaN => XNaN
  end.

(* 1 / d if ndim(d) == 0 else 1 / d[mask] : one exponent per member of the group *)
Definition exponents (d : val) (m : list bool) : res (list xf) :=
  bind (np_ndim_f d) (fun nd =>
  bind (bind (py_eq nd (VInt 0)) truthy) (fun z =>
  if z then
    bind (py_truediv (VInt 1) d) (fun e =>
    match e with VFloat ef => Ok (repeat ef (count_true m)) | _ => Err OtherError end)
  else match d with
       | VArr _ [_] dd => Ok (map xf_inv (select m dd))
       | _ => Err OtherError
       end)).

Section Model.
  Variable nn_oracle : list (list xf) -> list xf.
  Variable powf : xf -> xf -> xf.                          (* real power function on float values *)

  Definition fac_of (normalize av uts_val d : val) (t : xf) (m : list bool) (n_t : nat) : res (option (list xf)) :=
    if norm_on normalize then
      bind (py_parameters__get_target_cell_count normalize (VArr KF [] [t]) av uts_val) (fun target =>
      bind (py_truediv (VArr KI [] [xf_of_Z (Z.of_nat n_t)]) target) (fun b =>
      bind (exponents d m) (fun es =>
      match b with VFloat bf => Ok (Some (map (powf bf) es)) | _ => Err OtherError end)))
    else Ok None.

  (* rows (without the time column) and the time column of the merged matrix *)
  Definition feature_rows (dat : list xf) (n c : Z) : list (list xf) :=
    map (firstn (Z.to_nat (c - 1))) (take_rows (Z.to_nat c) (Z.to_nat n) dat).
  Definition cells_of (dat : list xf) (n c : Z) : list (list xf * xf) :=
    combine (feature_rows dat n c) (col_list dat n c (c - 1)).

  Definition nn_within (x times d normalize : val) : res val :=
    bind (nnwt_prologue x times d normalize) (fun p =>
    match p with
    | VTuple [VArr KF [n; c] dat; VArr KF [k] uts; VArr KF [_] init; av; d'] =>
        bind (loop nn_oracle (fac_of normalize av (VArr KF [k] uts) d') (cells_of dat n c) uts init)
             (fun out => Ok (VArr KF [n] out))
    | _ => Err OtherError
    end).
End Model.

(* ------------------------------------------------------------------ *)
(* expected structural tables (compared with the generated ones by reflexivity) *)
Open Scope string_scope.
Definition expected_nnwt_skeleton : list string := [
  "x = validate_time_x(x, times)";
  "unique_times = unique(x[:, -1])";
  "nn_distances = empty(x.shape[0])";
  "n_cells = x.shape[0]";
  "av_cells_per_tp = n_cells / len(unique_times)";
  "validate_normalize_parameter(normalize, unique_times)";
  "if normalize is not False and normalize is not None:";
  "> d = validate_float_or_iterable_numerical(d, 'd', optional=False, positive=True)";
  "> if ndim(d) > 0 and len(d) != x.shape[0]:";
  "> > ld = len(d)";
  "> > raise ValueError()";
  "for time in unique_times:";
  "> mask = x[:, -1] == time";
  "> n_samples = arraysum(mask)";
  "> if n_samples < 2:";
  "> > raise ValueError()";
  "> x_at_time = x[mask, :-1]";
  "> nn_distances_at_time = compute_nn_distances(x_at_time)";
  "> if normalize is not False and normalize is not None:";
  "> > target_cell_count = _get_target_cell_count(normalize, time, av_cells_per_tp, unique_times)";
  "> > factor = (n_samples / target_cell_count) ** (1 / d if ndim(d) == 0 else 1 / d[mask])";
  "> > nn_distances_at_time = factor * nn_distances_at_time";
  "> nn_distances = nn_distances.at[mask].set(nn_distances_at_time)";
  "return nn_distances"].
Definition expected_compute_nn_distances_skeleton : list string := [
  "return compute_distances(x, 1)[:, 0]"].
Definition expected_n_obs_wiring : list string := [
  "log_density_func.n_obs"; "compute_average_cell_count"; "self.x"; "self.normalize_per_time_point";
  "stored:log_density_func"].

(* ------------------------------------------------------------------ *)
(* instances used only by the executable correspondence run (checks/C14.py) *)
(* a labelling stand-in for the neighbour search: the label of a row depends on the row, on its
   position in the group and on every other row of the group (exact in binary floating point) *)
Definition stub_nn (g : list (list xf)) : list xf :=
  let firsts := map (fun r => hd (XFin 0) r) g in
  let s := fold_left xf_add (zip_with (fun j v => xf_mul (xf_of_Z j) v) (range_from 1 1 (List.length g)) firsts) (XFin 0) in
  map (fun v => xf_add v (xf_mul (XFin 1024) s)) firsts.
(* the real power function, tabulated by the harness at the rational points the run needs *)
Fixpoint pow_lookup (tbl : list (xf * xf * xf)) (b e : xf) : xf :=
  match tbl with
  | [] => XNaN
  | (b', e', v) :: r => if (xf_same b b' && xf_same e e')%bool then v else pow_lookup r b e
  end.
