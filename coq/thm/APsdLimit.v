(* C05: positive semi-definite kernels are closed under pointwise limits; consequently exp(t(x,y)) is positive
   semi-definite as soon as every power t(x,y)^m is (exponential series of Coquelicot's [is_exp_Reals]). *)
From Coq Require Import Reals List Lra Lia.
From Coquelicot Require Import Coquelicot.
From MellonV Require Import ALists AKernels AKExpr AListsFacts ADistThm AKernelsThm APsdThm.
Import ListNotations.
Open Scope R_scope.

Lemma lim_sum_map2 {A B : Type} (f : nat -> A -> B -> R) (g : A -> B -> R) la lb :
  (forall a b, is_lim_seq (fun N => f N a b) (g a b)) ->
  is_lim_seq (fun N => sum_list (map2 (f N) la lb)) (sum_list (map2 g la lb)).
Proof.
  intros H. revert lb. induction la as [|a la IH]; intros [|b lb]; cbn [map2 sum_list]; try apply is_lim_seq_const.
  apply (is_lim_seq_plus' (fun N => f N a b) (fun N => sum_list (map2 (f N) la lb))); [apply H|apply IH].
Qed.

Lemma quad_lim (kN : nat -> list R -> list R -> R) (k : list R -> list R -> R) pts v :
  (forall x y, is_lim_seq (fun N => kN N x y) (k x y)) ->
  is_lim_seq (fun N => quad (kN N) pts v) (quad k pts v).
Proof.
  intros H. unfold quad.
  apply (lim_sum_map2 (fun N vi pi => sum_list (map2 (fun vj pj => vi * vj * kN N pi pj) v pts))
                      (fun vi pi => sum_list (map2 (fun vj pj => vi * vj * k pi pj) v pts))).
  intros vi pi.
  apply (lim_sum_map2 (fun N vj pj => vi * vj * kN N pi pj) (fun vj pj => vi * vj * k pi pj)).
  intros vj pj.
  apply (is_lim_seq_scal_l (fun N => kN N pi pj) (vi * vj) (k pi pj)). apply H.
Qed.

Theorem psd_lim (kN : nat -> list R -> list R -> R) (k : list R -> list R -> R) :
  (forall N, psd (kN N)) -> (forall x y, is_lim_seq (fun N => kN N x y) (k x y)) -> psd k.
Proof.
  intros HN Hl pts v Hlen.
  assert (Hq := quad_lim kN k pts v Hl).
  assert (Hle : Rbar_le 0 (quad k pts v)).
  { apply (is_lim_seq_le (fun _ => 0) (fun N => quad (kN N) pts v) 0 (quad k pts v)).
    - intros N. apply HN. exact Hlen.
    - apply is_lim_seq_const.
    - exact Hq. }
  exact Hle.
Qed.

(* partial sums of the exponential series of a kernel *)
Definition exp_partial (t : list R -> list R -> R) (N : nat) (x y : list R) : R :=
  sum_n (fun m => scal (pow_n (t x y) m) (/ INR (fact m))) N.

Lemma exp_partial_lim (t : list R -> list R -> R) x y : is_lim_seq (fun N => exp_partial t N x y) (exp (t x y)).
Proof. exact (is_exp_Reals (t x y)). Qed.

Lemma inv_fact_nonneg m : 0 <= / INR (fact m).
Proof. left. apply Rinv_0_lt_compat. apply lt_0_INR. apply lt_O_fact. Qed.

Lemma psd_term t m : psd (fun x y => t x y ^ m) -> psd (fun x y => scal (pow_n (t x y) m) (/ INR (fact m))).
Proof.
  intros H pts v Hl.
  rewrite (quad_ext _ (fun x y => (t x y ^ m) * / INR (fact m))).
  - apply (psd_scale (/ INR (fact m)) (fun x y => t x y ^ m) (inv_fact_nonneg m) H pts v Hl).
  - intros x y. rewrite pow_n_pow. unfold scal; simpl; unfold mult; simpl. ring.
Qed.

Lemma psd_exp_partial t : (forall m, psd (fun x y => t x y ^ m)) -> forall N, psd (exp_partial t N).
Proof.
  intros H N. induction N as [|N IH].
  - intros pts v Hl. rewrite (quad_ext _ (fun x y => scal (pow_n (t x y) 0) (/ INR (fact 0)))).
    + apply (psd_term t 0 (H 0%nat) pts v Hl).
    + intros x y. unfold exp_partial. now rewrite sum_O.
  - intros pts v Hl.
    rewrite (quad_ext _ (fun x y => exp_partial t N x y + scal (pow_n (t x y) (S N)) (/ INR (fact (S N))))).
    + apply (psd_add (exp_partial t N) (fun x y => scal (pow_n (t x y) (S N)) (/ INR (fact (S N)))) IH (psd_term t (S N) (H (S N))) pts v Hl).
    + intros x y. unfold exp_partial. now rewrite sum_Sn.
Qed.

Theorem psd_exp t : (forall m, psd (fun x y => t x y ^ m)) -> psd (fun x y => exp (t x y)).
Proof.
  intros H. apply (psd_lim (exp_partial t) (fun x y => exp (t x y))).
  - apply psd_exp_partial. exact H.
  - intros x y. apply exp_partial_lim.
Qed.

(* squared distance of the generated distance entry, for points of any lengths *)
Lemma sumsq_nonneg l : 0 <= sum_list (map2 Rmult l l).
Proof. induction l as [|c l IH]; cbn [map2 sum_list]; [lra|nra]. Qed.

Lemma sq_expand_nonneg x y : 0 <= sumsq x - 2 * dot x y + sumsq y.
Proof.
  unfold sumsq, dot. revert y. induction x as [|a x IH]; intros [|b y]; cbn [map2 sum_list].
  - lra.
  - pose proof (sumsq_nonneg y). nra.
  - pose proof (sumsq_nonneg x). nra.
  - specialize (IH y). pose proof (Rle_0_sqr (a - b)) as Hs. unfold Rsqr in Hs. nra.
Qed.
