(* C08 / C17: the uniqueness theorems of thm/C08UniqThm.v instantiated at Coq's real numbers with the GENERATED
   nearest-neighbour log-likelihood term: its concavity (thm/AConvexThm.v) discharges the hypothesis [concave2]. *)
From Coq Require Import Reals Lra.
From mathcomp Require Import all_ssreflect all_fingroup all_algebra.
From MellonV Require Import ALists AInference AConvexThm Rstruct MatOps MxInst MxPsd C08MxThm C08UniqThm.
Set Implicit Arguments.
Unset Strict Implicit.
Unset Printing Implicit Defensive.
Import Order.TTheory GRing.Theory Num.Theory.

Section AtR.
Variable lgam : R -> R.
Variable d : R.

Definition ell_nn (r a : R) : R := nn_term lgam r d a.

Definition two : R := IZR 2.
Lemma half_R : ((2%:R)^-1 : R)%R = Rinv two.
Proof.
  have e2 : (2%:R : R)%R = two.
    rewrite /GRing.natmul /= /GRing.add /= /GRing.one /= /two. lra.
  rewrite e2 /GRing.inv /= /Rinvx. case: ifP => // /negbFE /eqP h. exfalso. rewrite /two in h. lra.
Qed.

Lemma nn_concave2 : @concave2 R_rcfType ell_nn.
Proof.
  move=> r a b. apply/RleP. rewrite half_R /ell_nn.
  have H := @nn_term_concave lgam r d (Rinv two) a b.
  have Ht : Rle (IZR 0) (Rinv two) /\ Rle (Rinv two) (IZR 1) by rewrite /two; lra.
  move: (H Ht).
  rewrite /GRing.mul /GRing.add /=.
  have -> : Rminus (IZR 1) (Rinv two) = Rinv two by rewrite /two; lra.
  have -> : Rplus (Rmult (Rinv two) a) (Rmult (Rinv two) b) = Rmult (Rinv two) (Rplus a b) by lra.
  by [].
Qed.

Local Open Scope ring_scope.

Theorem nn_objective_min_unique n (K : 'M[R]_n) (j mu : R) (r f g : 'cV[R]_n) :
  spd (K + j%:M) ->
  is_min (objective ell_nn K j mu r) f -> is_min (objective ell_nn K j mu r) g -> f = g.
Proof. move=> sA. exact: (objective_min_unique sA nn_concave2). Qed.

Theorem nn_fitted_follow_permutation n (K : 'M[R]_n) (j mu : R) (r f g : 'cV[R]_n) (s : 'S_n) :
  spd (K + j%:M) ->
  is_min (objective ell_nn K j mu r) f ->
  is_min (objective ell_nn (perm_mx s *m K *m (perm_mx s)^T) j mu (perm_mx s *m r)) g ->
  g = perm_mx s *m f.
Proof. move=> sA. exact: (fitted_follow_permutation sA nn_concave2). Qed.
End AtR.
