(* C05: the Gram matrices of the generated LINEAR and EXPQUAD kernels are positive semi-definite - theorems, no
   Bochner hypothesis - and so is every expression tree over them (sums, products, non-negative scalars).
   Pure Coq/Coquelicot presentation; the matrix work is behind thm/ABochnerThm.v and thm/ASchurBridge.v. *)
From Coq Require Import Reals List Lra Lia.
From Coquelicot Require Import Coquelicot.
From MellonV Require Import ALists AKernels AKExpr AListsFacts ADistThm AKernelsThm APsdThm APsdLimit ASchurBridge ABochnerThm.
Import ListNotations.
Open Scope R_scope.

Lemma psd_scaled_dot c : 0 <= c -> psd (fun x y => dot x y * c) /\ ksym (fun x y => dot x y * c).
Proof.
  intros Hc. split.
  - apply psd_scale; [exact Hc|exact psd_dot].
  - intros x y. now rewrite (ksym_dot x y).
Qed.

Theorem psd_linear ls : 0 < ls -> psd (base_k BLinear ls).
Proof.
  intros Hls pts v Hl. cbn [base_k]. unfold Linear_k.
  rewrite (quad_ext _ (fun x y => dot x y * / ls)) by (intros; reflexivity).
  apply (proj1 (psd_scaled_dot (/ ls) (Rlt_le _ _ (Rinv_0_lt_compat _ Hls)))). exact Hl.
Qed.

(* exp(<x,y> c) for c >= 0 *)
Lemma psd_exp_dot c : 0 <= c -> psd (fun x y => exp (dot x y * c)).
Proof.
  intros Hc. apply (psd_exp (fun x y => dot x y * c)). intros m.
  destruct (psd_scaled_dot c Hc) as [Hp Hs]. apply (psd_pow m Hs Hp).
Qed.

Lemma expquad_factorisation ls x y : 0 < ls ->
  base_k BExpQuad ls x y
  = exp (- (1 / 1000000000000) / (2 * ls ^ 2))
    * ((exp (- sumsq x / (2 * ls ^ 2)) * exp (- sumsq y / (2 * ls ^ 2))) * exp (dot x y * / ls ^ 2)).
Proof.
  intros Hls. cbn [base_k]. unfold ExpQuad_k, dist_pts, distance_entry.
  pose proof (sq_expand_nonneg x y) as Hs.
  set (s := sumsq x - 2 * dot x y + sumsq y) in *.
  rewrite Rmax_left by lra.
  rewrite <- !exp_plus. f_equal.
  assert (Hd : (sqrt (s + 1 / 1000000000000) / ls) ^ 2 = (s + 1 / 1000000000000) / ls ^ 2).
  { unfold Rdiv. rewrite Rpow_mult_distr. rewrite <- Rsqr_pow2, Rsqr_sqrt by lra. rewrite pow_inv. reflexivity. }
  rewrite Hd. unfold s. field. lra.
Qed.

Theorem psd_expquad ls : 0 < ls -> psd (base_k BExpQuad ls).
Proof.
  intros Hls pts v Hl.
  rewrite (quad_ext _ (fun x y => exp (- (1 / 1000000000000) / (2 * ls ^ 2))
    * ((exp (- sumsq x / (2 * ls ^ 2)) * exp (- sumsq y / (2 * ls ^ 2))) * exp (dot x y * / ls ^ 2))))
    by (intros x y; apply expquad_factorisation; exact Hls).
  assert (Hc : 0 <= / ls ^ 2) by (left; apply Rinv_0_lt_compat; apply pow_lt; exact Hls).
  apply (@psd_scale_l (exp (- (1 / 1000000000000) / (2 * ls ^ 2)))
           (fun x y => (exp (- sumsq x / (2 * ls ^ 2)) * exp (- sumsq y / (2 * ls ^ 2))) * exp (dot x y * / ls ^ 2))).
  - left. apply exp_pos.
  - apply (@hadamard_psd_R (fun x y => exp (- sumsq x / (2 * ls ^ 2)) * exp (- sumsq y / (2 * ls ^ 2)))
                          (fun x y => exp (dot x y * / ls ^ 2))).
    + intros x y. ring.
    + intros x y. now rewrite (ksym_dot x y).
    + apply (@psd_rank_one (fun x => exp (- sumsq x / (2 * ls ^ 2)))).
    + apply psd_exp_dot. exact Hc.
  - exact Hl.
Qed.

(* expression trees whose base kernels are all linear or ExpQuad *)
Fixpoint gaussian_linear_only (e : kexpr) : Prop :=
  match e with
  | KBase BLinear _ _ | KBase BExpQuad _ _ => True
  | KBase _ _ _ => False
  | KAdd l r _ | KMul l r _ => gaussian_linear_only l /\ gaussian_linear_only r
  | KAddC l _ _ | KMulC l _ _ => gaussian_linear_only l
  | KPow _ _ _ => False
  end.

Theorem keval_psd_gaussian_linear e : psd_shape e -> gaussian_linear_only e -> psd (keval e).
Proof.
  induction e as [b ls ad|l IHl r IHr ad|l IHl c ad|l IHl r IHr ad|l IHl c ad|l IHl p ad]; cbn [psd_shape gaussian_linear_only]; intros Hs Hg.
  - apply (psd_sel (base_k b ls) ad). destruct Hs as [Hls _]. destruct b; try contradiction; [apply psd_expquad|apply psd_linear]; exact Hls.
  - destruct Hs, Hg. apply (psd_sel (fun x y => keval l x y + keval r x y) ad). apply psd_add; auto.
  - destruct Hs. apply (psd_sel (fun x y => keval l x y + c) ad).
    apply (psd_add (keval l) (fun _ _ => c)); [auto|now apply psd_const].
  - destruct Hs, Hg. apply (psd_sel (fun x y => keval l x y * keval r x y) ad).
    apply hadamard_psd_R; auto; intros x y; apply keval_symmetric.
  - destruct Hs. apply (psd_sel (fun x y => keval l x y * c) ad). apply psd_scale; auto.
  - contradiction.
Qed.
