(* C06: the generated _covariance / _mean_covariance of the three families and the
   uncertainty propagators W: symmetry, positive semi-definiteness (Schur complement),
   diag agreement, bounds, value at the conditioning points, Gram form. *)
From mathcomp Require Import all_ssreflect all_fingroup all_algebra.
From MellonV Require Import MatOps MxInst MxPsd MatGen CondThm FactorThm.
Set Implicit Arguments.
Unset Strict Implicit.
Unset Printing Implicit Defensive.
Import Order.TTheory GRing.Theory Num.Theory.
Local Open Scope ring_scope.

Section Cov.
Variable F : rcfType.
Variable cholF : forall n : nat, 'M[F]_n -> 'M[F]_n.
Variable eigS : forall n p : nat, 'M[F]_n -> 'cV[F]_p.
Variable eigV : forall n p : nat, 'M[F]_n -> 'M[F]_(n, p).
Variable qrQ : forall n m k : nat, 'M[F]_(n, m) -> 'M[F]_(n, k).
Variable qrR : forall n m k : nat, 'M[F]_(n, m) -> 'M[F]_(k, m).
Hypothesis chol_ok : chol_contract cholF.

Let ops := MxOps cholF eigS eigV qrQ qrR.
Local Existing Instance ops.

(* the three families share one body *)
Lemma cov_coincide q b (Kss : 'M[F]_q) (Kd : 'cV[F]_q) (Kbs : 'M[F]_(b, q)) (L : 'M[F]_b) :
  [/\ LandmarksCond_covariance_dF Kss Kbs L = FullCond_covariance_dF Kss Kbs L,
      LandmarksCholCond_covariance_dF Kss Kbs L = FullCond_covariance_dF Kss Kbs L,
      LandmarksCond_covariance_dT Kd Kbs L = FullCond_covariance_dT Kd Kbs L
    & LandmarksCholCond_covariance_dT Kd Kbs L = FullCond_covariance_dT Kd Kbs L].
Proof. by []. Qed.

Lemma psd_block_shiftN n m (A N : 'M[F]_n) (B : 'M[F]_(n, m)) (C : 'M[F]_m) :
  psd N -> psd (block_mx A B B^T C) -> psd (block_mx (A + N) B B^T C).
Proof.
move=> pN pJ.
have -> : block_mx (A + N) B B^T C = block_mx A B B^T C + block_mx N 0 0 0.
  by rewrite add_block_mx !addr0.
apply: psdD => // v; rewrite -[v]vsubmxK tr_col_mx mul_row_block mul_row_col !mulmx0 !addr0 mul0mx addr0.
exact: pN.
Qed.

Lemma qf_delta n (A : 'M[F]_n) i : qf A (delta_mx i 0) = A i i.
Proof. by rewrite /qf trmx_delta -rowE -colE !mxE. Qed.

Section One.
Variables (q b : nat) (Kss : 'M[F]_q) (Kbs : 'M[F]_(b, q)) (Kbb N : 'M[F]_b) (L : 'M[F]_b).
Hypothesis cL : chol_of L (Kbb + N).

Lemma cov_closed :
  FullCond_covariance_dF Kss Kbs L = Kss - Kbs^T *m invmx (Kbb + N) *m Kbs.
Proof.
case: (cL) => lL _ _; rewrite /FullCond_covariance_dF /= lowpart_id //.
by rewrite trmx_mul trmx_inv -!mulmxA (mulmxA (invmx L^T)) (chol_inv cL) !mulmxA.
Qed.

Lemma cov_sym : sym Kss -> sym (Kbb + N) -> sym (FullCond_covariance_dF Kss Kbs L).
Proof.
move=> sK sA; rewrite cov_closed; apply: symB => //.
by apply: sym_congr; apply: sym_inv.
Qed.

Lemma cov_psd :
  spd (Kbb + N) -> psd N -> psd (block_mx Kbb Kbs Kbs^T Kss) ->
  psd (FullCond_covariance_dF Kss Kbs L).
Proof.
move=> sA pN pJ; rewrite cov_closed.
by apply: schur_psd => //; apply: psd_block_shiftN.
Qed.

Lemma cov_diag_agrees (Kd : 'cV[F]_q) :
  Kd = diagof Kss -> FullCond_covariance_dT Kd Kbs L = diagof (FullCond_covariance_dF Kss Kbs L).
Proof.
move=> ->; rewrite /FullCond_covariance_dT /FullCond_covariance_dF /=.
apply/matrixP => i l; rewrite !mxE; congr (_ - _).
by apply: eq_bigr => t _; rewrite !mxE.
Qed.

Lemma var_bounds i :
  spd (Kbb + N) -> psd N -> psd (block_mx Kbb Kbs Kbs^T Kss) ->
  0 <= (FullCond_covariance_dF Kss Kbs L) i i <= Kss i i.
Proof.
move=> sA pN pJ; apply/andP; split.
  by have := cov_psd sA pN pJ (delta_mx i 0); rewrite qfE qf_delta.
rewrite /FullCond_covariance_dF /= mxE [X in _ + X]mxE ler_subl_addr ler_addl mxE.
by apply: sumr_ge0 => t _; rewrite !mxE -expr2 sqr_ge0.
Qed.

End One.

(* at the conditioning points (X* = X): cov = N - N (K + N)^-1 N ; with N = jI: jI - j^2 A'^-1 *)
Lemma cond_id b (A B N : 'M[F]_b) : A *m B = 1%:M -> B *m A = 1%:M ->
  (A - N) - (A - N) *m B *m (A - N) = N - N *m B *m N.
Proof.
move=> AB BA; rewrite mulmxBl AB mulmxBl mul1mx !mulmxBr -mulmxA BA mulmx1.
by rewrite opprB addrC subrK.
Qed.

Lemma cov_at_conditioning_points b (K N L : 'M[F]_b) :
  chol_of L (K + N) -> sym K -> sym N ->
  FullCond_covariance_dF K K L = N - N *m invmx (K + N) *m N.
Proof.
move=> cL sK sN; have uA : K + N \in unitmx.
  by case: (cL) => _ _ <-; rewrite unitmx_mul unitmx_tr (chol_of_unit cL) .
rewrite (cov_closed _ _ cL) sK.
have KE : K = (K + N) - N by rewrite addrK.
by rewrite {1 2 4}KE; apply: cond_id; rewrite ?mulmxV ?mulVmx.
Qed.

(* ---- mean covariance: Gram form ---- *)
Lemma mean_cov_gram q b k (Ks : 'M[F]_(q, b)) (W : 'M[F]_(b, k)) :
  [/\ FullCond_mean_covariance_dF Ks W = (Ks *m W) *m (Ks *m W)^T,
      sym (FullCond_mean_covariance_dF Ks W), psd (FullCond_mean_covariance_dF Ks W)
    & FullCond_mean_covariance_dT Ks W = diagof (FullCond_mean_covariance_dF Ks W)].
Proof.
split=> //; [exact: sym_gram|exact: psd_gram|].
rewrite /FullCond_mean_covariance_dT /FullCond_mean_covariance_dF /=.
by apply/matrixP => i l; rewrite !mxE; apply: eq_bigr => t _; rewrite !mxE.
Qed.

Lemma mean_cov_coincide q b k (Ks : 'M[F]_(q, b)) (W : 'M[F]_(b, k)) :
  [/\ LandmarksCond_mean_covariance_dF Ks W = FullCond_mean_covariance_dF Ks W,
      LandmarksCholCond_mean_covariance_dF Ks W = FullCond_mean_covariance_dF Ks W,
      LandmarksCond_mean_covariance_dT Ks W = FullCond_mean_covariance_dT Ks W
    & LandmarksCholCond_mean_covariance_dT Ks W = FullCond_mean_covariance_dT Ks W].
Proof. by []. Qed.

(* ---- W propagates the input covariance factor with the same operator as the weights ---- *)
Section Propag.
Variables (n : nat) (K : 'M[F]_n) (j : F).
Hypothesis symK : sym K.
Hypothesis psdK : psd K.
Hypothesis j_gt0 : 0 < j.

Lemma W_full_scalar c (y : 'M[F]_(n, c)) mu s :
  let a := Num.max (s ^+ 2) j in
  [/\ chol_of (FullCond_init_LN_sS_cN_yF_uT_L K y mu s j) (K + a%:M),
      FullCond_init_LN_sS_cN_yF_uT_W K y mu s j = invmx (K + a%:M) *m (s *: 1%:M)
    & FullCond_init_LN_sS_cN_yF_uF_weights K y mu s j = invmx (K + a%:M) *m (y - const_mx mu)].
Proof.
move=> a; have sp := spd_jitter symK psdK (max_jitter_gt0 (s ^+ 2) j_gt0).
have cL := chol_ok sp; case: (cL) => lL _ _.
split; last exact: full_weights_scalar.
  by rewrite /FullCond_init_LN_sS_cN_yF_uT_L /get_L_cM /sigma_to_y_cov_factor_sS_cN add_variance_factor [mscale _ _]/= noise_of_scalar.
rewrite /FullCond_init_LN_sS_cN_yF_uT_W /get_L_cM /sigma_to_y_cov_factor_sS_cN /sigma_to_y_cov_factor_sN_cM.
rewrite add_variance_factor [mscale _ _]/= noise_of_scalar -/a.
by rewrite (solve_chain _ _ _ _ _ _ lL) mulmxA (chol_inv cL).
Qed.

Lemma W_full_ymean c (y : 'M[F]_(n, c)) mu s :
  [/\ chol_of (FullCond_init_LN_sS_cN_yT_uT_L K y mu s j) (K + j%:M)
    & FullCond_init_LN_sS_cN_yT_uT_W K y mu s j = invmx (K + j%:M) *m (s *: 1%:M)].
Proof.
have sp := spd_jitter symK psdK j_gt0.
have cL := chol_ok sp; case: (cL) => lL _ _.
split; first by rewrite /FullCond_init_LN_sS_cN_yT_uT_L /get_L_cN add_variance_none.
rewrite /FullCond_init_LN_sS_cN_yT_uT_W /get_L_cN /sigma_to_y_cov_factor_sS_cN add_variance_none.
by rewrite (solve_chain _ _ _ _ _ _ lL) mulmxA (chol_inv cL).
Qed.

Lemma W_full_factor c k (y : 'M[F]_(n, c)) mu s (Yf : 'M[F]_(n, k)) :
  [/\ chol_of (FullCond_init_LN_sS_cM_yT_uT_L K y mu s j Yf) (K + j%:M)
    & FullCond_init_LN_sS_cM_yT_uT_W K y mu s j Yf = invmx (K + j%:M) *m Yf].
Proof.
have sp := spd_jitter symK psdK j_gt0.
have cL := chol_ok sp; case: (cL) => lL _ _.
split; first by rewrite /FullCond_init_LN_sS_cM_yT_uT_L /get_L_cN add_variance_none.
rewrite /FullCond_init_LN_sS_cM_yT_uT_W /get_L_cN /sigma_to_y_cov_factor_sS_cM add_variance_none.
by rewrite (solve_chain _ _ _ _ _ _ lL) mulmxA (chol_inv cL).
Qed.

End Propag.

(* Cholesky-latent: W = L^-T diag(sigma) ; latent posterior factor = L diag(std) *)
Lemma W_latent m c (z : 'M[F]_(m, c)) mu n_obs (L : 'M[F]_m) (sv : 'cV[F]_m) s j :
  is_lower L ->
  LandmarksCholCond_init_LM_sV_yT_uT_W z mu n_obs L sv j = invmx L^T *m diagv sv
  /\ LandmarksCholCond_init_LM_sS_yT_uT_W z mu n_obs L s j = invmx L^T *m (s *: 1%:M).
Proof.
move=> lL; split.
  by rewrite /LandmarksCholCond_init_LM_sV_yT_uT_W (solve_upper_tr _ _ _ _ _ _ lL).
by rewrite /LandmarksCholCond_init_LM_sS_yT_uT_W (solve_upper_tr _ _ _ _ _ _ lL).
Qed.

Lemma param_cov_factor n p (L : 'M[F]_(n, p)) (std : 'cV[F]_p) :
  compute_parameter_cov_factor std L = L *m diagv std.
Proof. by rewrite /compute_parameter_cov_factor /= bcol_mulE. Qed.

End Cov.
