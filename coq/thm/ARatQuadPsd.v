(* C05: the Gram matrices of the generated RATIONAL-QUADRATIC kernel are positive semi-definite for alpha = 1 (the default
   of mellon.cov.RatQuad) and for every positive integer alpha - a theorem, no Bochner hypothesis.
   1 / u = lim_{h -> 0} lim_{N -> oo} sum_{k <= N} h exp(- k h u)   (geometric series; u = 1 + r^2 / (2 ls^2) >= 1),
   every summand is a non-negative multiple of an ExpQuad Gram entry (length scale ls / sqrt(k h)), psd kernels are
   closed under sums and pointwise limits (thm/APsdLimit.v), and powers are Schur products (thm/ABochnerThm.v). *)
From Coq Require Import Reals List Lra Lia.
From Coquelicot Require Import Coquelicot.
From MellonV Require Import ALists AKernels AKExpr AListsFacts ADistThm AKernelsThm APsdThm APsdLimit ASchurBridge ABochnerThm ABochnerFinal.
Import ListNotations.
Open Scope R_scope.

(* w = (dist / ls)^2 / 2 *)
Definition wq (ls : R) (x y : list R) : R := (dist_pts x y / ls) ^ 2 / 2.

Lemma wq_nonneg ls x y : 0 <= wq ls x y.
Proof. unfold wq. pose proof (pow2_ge_0 (dist_pts x y / ls)). lra. Qed.

Lemma wq_sym ls x y : wq ls x y = wq ls y x.
Proof. unfold wq. now rewrite (dist_pts_sym x y). Qed.

(* exp(- c w) is an ExpQuad Gram entry with length scale ls / sqrt c *)
Lemma expquad_rescaled ls c x y : 0 < ls -> 0 < c ->
  exp (- (c * wq ls x y)) = base_k BExpQuad (ls / sqrt c) x y.
Proof.
  intros Hls Hc. cbn [base_k]. unfold ExpQuad_k, wq. f_equal.
  assert (Hs : 0 < sqrt c) by now apply sqrt_lt_R0.
  replace (dist_pts x y / (ls / sqrt c)) with (dist_pts x y / ls * sqrt c) by (field; split; lra).
  rewrite Rpow_mult_distr. replace (sqrt c ^ 2) with c by (simpl; rewrite Rmult_1_r, sqrt_sqrt; lra). field. lra.
Qed.

Lemma psd_exp_neg_cw ls c : 0 < ls -> 0 <= c -> psd (fun x y => exp (- (c * (wq ls x y + 1)))).
Proof.
  intros Hls Hc. destruct (Rle_lt_or_eq_dec 0 c Hc) as [Hpos|Hz].
  - apply (fun H => proj2 (conj I H)). intros pts v Hl.
    rewrite (quad_ext _ (fun x y => exp (- c) * base_k BExpQuad (ls / sqrt c) x y)).
    + apply (@psd_scale_l (exp (- c)) (base_k BExpQuad (ls / sqrt c))); [left; apply exp_pos| |exact Hl].
      apply psd_expquad. apply Rdiv_lt_0_compat; [exact Hls|now apply sqrt_lt_R0].
    + intros x y. rewrite <- (expquad_rescaled ls c x y Hls Hpos), <- exp_plus. f_equal. ring.
  - subst c. intros pts v Hl. rewrite (quad_ext _ (fun _ _ => 1)).
    + apply (psd_const 1); [lra|exact Hl].
    + intros x y. rewrite Rmult_0_l, Ropp_0. apply exp_0.
Qed.

(* partial geometric sums  sum_{k <= N} h q^k  with q = exp(-h (w + 1)) *)
Definition geo (ls h : R) (N : nat) (x y : list R) : R :=
  sum_n (fun k => h * exp (- (h * (wq ls x y + 1))) ^ k) N.

Lemma exp_pow_nat a k : exp a ^ k = exp (INR k * a).
Proof.
  induction k as [|k IH]; [simpl; rewrite Rmult_0_l; symmetry; apply exp_0|].
  rewrite S_INR, Rmult_plus_distr_r, Rmult_1_l, exp_plus, <- IH. simpl. ring.
Qed.

Lemma psd_geo ls h N : 0 < ls -> 0 <= h -> psd (geo ls h N).
Proof.
  intros Hls Hh. unfold geo. induction N as [|N IH].
  - intros pts v Hl. rewrite (quad_ext _ (fun _ _ => h)).
    + apply (psd_const h Hh). exact Hl.
    + intros x y. rewrite sum_O. simpl. ring.
  - intros pts v Hl.
    rewrite (quad_ext _ (fun x y => sum_n (fun k => h * exp (- (h * (wq ls x y + 1))) ^ k) N
                                     + exp (- ((INR (S N) * h) * (wq ls x y + 1))) * h)).
    + apply psd_add; [exact IH| |exact Hl].
      apply psd_scale; [exact Hh|]. apply psd_exp_neg_cw; [exact Hls|].
      apply Rmult_le_pos; [apply pos_INR|exact Hh].
    + intros x y. rewrite sum_Sn, exp_pow_nat.
      change (sum_n (fun k : nat => h * exp (- (h * (wq ls x y + 1))) ^ k) N + h * exp (INR (S N) * - (h * (wq ls x y + 1)))
              = sum_n (fun k : nat => h * exp (- (h * (wq ls x y + 1))) ^ k) N + exp (- (INR (S N) * h * (wq ls x y + 1))) * h).
      f_equal. rewrite Rmult_comm. f_equal. f_equal. ring.
Qed.

Lemma geo_lim ls h x y : 0 < h ->
  is_lim_seq (fun N => geo ls h N x y) (h / (1 - exp (- (h * (wq ls x y + 1))))).
Proof.
  intros Hh. unfold geo. set (q := exp (- (h * (wq ls x y + 1)))).
  pose proof (wq_nonneg ls x y) as Hw.
  assert (Hq : 0 < q < 1).
  { split; [apply exp_pos|]. unfold q.
    assert (Hm : 0 < h * (wq ls x y + 1)) by (apply Rmult_lt_0_compat; lra).
    apply Rlt_le_trans with (exp 0); [apply exp_increasing; lra|rewrite exp_0; lra]. }
  assert (Hs : is_series (fun k => q ^ k) (/ (1 - q))).
  { apply is_series_geom. rewrite Rabs_pos_eq; lra. }
  apply (is_series_scal_l h) in Hs.
  unfold is_series in Hs. unfold is_lim_seq.
  replace (h / (1 - q)) with (h * / (1 - q)) by reflexivity.
  eapply filterlim_ext; [|exact Hs]. intros N. apply sum_n_ext. intros k. reflexivity.
Qed.

Lemma psd_geo_limit ls h : 0 < ls -> 0 < h -> psd (fun x y => h / (1 - exp (- (h * (wq ls x y + 1))))).
Proof.
  intros Hls Hh. apply (psd_lim (geo ls h)).
  - intros N. apply psd_geo; [exact Hls|lra].
  - intros x y. apply geo_lim. exact Hh.
Qed.

(* h / (1 - exp(-h u)) is squeezed between 1/u and 1/u + h *)
Lemma resolvent_squeeze h u : 0 < h -> 0 < u -> / u <= h / (1 - exp (- (h * u))) <= / u + h.
Proof.
  intros Hh Hu. set (t := h * u). assert (Ht : 0 < t) by (apply Rmult_lt_0_compat; assumption).
  assert (H1 : 1 - exp (- t) <= t) by (pose proof (exp_ineq1_le (- t)); lra).
  assert (H2 : t / (1 + t) <= 1 - exp (- t)).
  { pose proof (exp_ineq1_le t) as He. rewrite exp_Ropp.
    assert (/ exp t <= / (1 + t)) by (apply Rinv_le_contravar; lra).
    replace (t / (1 + t)) with (1 - / (1 + t)) by (field; lra). lra. }
  assert (Hpos : 0 < 1 - exp (- t)).
  { assert (0 < t / (1 + t)) by (apply Rdiv_lt_0_compat; lra). lra. }
  set (e := exp (- t)) in *.
  assert (Hd : 1 - e <> 0) by lra.
  split.
  - apply Rmult_le_reg_r with ((1 - e) * u); [apply Rmult_lt_0_compat; assumption|].
    replace (/ u * ((1 - e) * u)) with (1 - e) by (field; lra).
    replace (h / (1 - e) * ((1 - e) * u)) with t by (unfold t; field; exact Hd). exact H1.
  - apply Rmult_le_reg_r with ((1 - e) * u); [apply Rmult_lt_0_compat; assumption|].
    replace (h / (1 - e) * ((1 - e) * u)) with t by (unfold t; field; exact Hd).
    replace ((/ u + h) * ((1 - e) * u)) with ((1 + t) * (1 - e)) by (unfold t; field; lra).
    apply Rmult_le_reg_r with (/ (1 + t)); [apply Rinv_0_lt_compat; lra|].
    replace ((1 + t) * (1 - e) * / (1 + t)) with (1 - e) by (field; lra).
    replace (t * / (1 + t)) with (t / (1 + t)) by reflexivity. exact H2.
Qed.

Definition hseq (M : nat) : R := / (INR M + 1).

Lemma hseq_pos M : 0 < hseq M.
Proof. unfold hseq. apply Rinv_0_lt_compat. pose proof (pos_INR M). lra. Qed.

Lemma hseq_lim : is_lim_seq hseq 0.
Proof.
  unfold hseq. replace (Finite 0) with (Rbar_inv p_infty) by reflexivity.
  apply is_lim_seq_inv; [|discriminate].
  apply (is_lim_seq_plus INR (fun _ => 1) p_infty 1 p_infty); [apply is_lim_seq_INR|apply is_lim_seq_const|reflexivity].
Qed.

Lemma resolvent_lim u : 0 < u -> is_lim_seq (fun M => hseq M / (1 - exp (- (hseq M * u)))) (/ u).
Proof.
  intros Hu.
  apply (is_lim_seq_le_le (fun _ => / u) _ (fun M => / u + hseq M)).
  - intros M. apply resolvent_squeeze; [apply hseq_pos|exact Hu].
  - apply is_lim_seq_const.
  - replace (Finite (/ u)) with (Rbar_plus (/ u) 0) by (simpl; f_equal; ring).
    apply is_lim_seq_plus'; [apply is_lim_seq_const|exact hseq_lim].
Qed.

Theorem psd_resolvent ls : 0 < ls -> psd (fun x y => / (wq ls x y + 1)).
Proof.
  intros Hls. apply (psd_lim (fun M x y => hseq M / (1 - exp (- (hseq M * (wq ls x y + 1)))))).
  - intros M. apply psd_geo_limit; [exact Hls|apply hseq_pos].
  - intros x y. apply resolvent_lim. pose proof (wq_nonneg ls x y). lra.
Qed.

(* ---- the generated RatQuad kernel *)
Lemma ratquad_one ls x y : base_k (BRatQuad 1) ls x y = / (wq ls x y + 1).
Proof.
  cbn [base_k]. unfold RatQuad_k, wq. pose proof (pow2_ge_0 (dist_pts x y / ls)) as Hp.
  set (p2 := (dist_pts x y / ls) ^ 2) in *.
  replace (p2 / (2 * 1) + 1) with (p2 / 2 + 1) by field.
  unfold Rpower. replace (- (1) * ln (p2 / 2 + 1)) with (- ln (p2 / 2 + 1)) by ring.
  rewrite exp_Ropp, exp_ln by lra. reflexivity.
Qed.

Theorem psd_ratquad_one ls : 0 < ls -> psd (base_k (BRatQuad 1) ls).
Proof.
  intros Hls pts v Hl. rewrite (quad_ext _ (fun x y => / (wq ls x y + 1))) by (intros; apply ratquad_one).
  now apply psd_resolvent.
Qed.

(* alpha = n + 1: (1 + r^2 / (2 alpha ls^2))^-alpha is the alpha-th power of the alpha = 1 kernel with length scale ls sqrt(alpha) *)
Lemma ratquad_nat n ls x y : 0 < ls ->
  base_k (BRatQuad (INR (S n))) ls x y = (/ (wq (ls * sqrt (INR (S n))) x y + 1)) ^ (S n).
Proof.
  intros Hls. cbn [base_k]. unfold RatQuad_k, wq.
  assert (Ha : 0 < INR (S n)) by (apply lt_0_INR; lia).
  assert (Hs : 0 < sqrt (INR (S n))) by now apply sqrt_lt_R0.
  set (a := INR (S n)) in *.
  pose proof (pow2_ge_0 (dist_pts x y / ls)) as Hp.
  assert (E : (dist_pts x y / (ls * sqrt a)) ^ 2 / 2 + 1 = (dist_pts x y / ls) ^ 2 / (2 * a) + 1).
  { replace (dist_pts x y / (ls * sqrt a)) with (dist_pts x y / ls * / sqrt a) by (field; split; lra).
    rewrite Rpow_mult_distr. replace ((/ sqrt a) ^ 2) with (/ a).
    - field. lra.
    - simpl. rewrite Rmult_1_r, <- Rinv_mult, sqrt_sqrt by lra. reflexivity. }
  rewrite E. set (z := (dist_pts x y / ls) ^ 2 / (2 * a) + 1).
  assert (Hz : 0 < z).
  { unfold z. assert (0 <= (dist_pts x y / ls) ^ 2 / (2 * a)); [|lra].
    apply Rmult_le_pos; [exact Hp|left; apply Rinv_0_lt_compat; lra]. }
  unfold Rpower. rewrite pow_inv. rewrite <- (exp_ln z) at 2 by exact Hz.
  rewrite exp_pow_nat, <- exp_Ropp. f_equal. unfold a. ring.
Qed.

Theorem psd_ratquad_nat n ls : 0 < ls -> psd (base_k (BRatQuad (INR (S n))) ls).
Proof.
  intros Hls pts v Hl.
  rewrite (quad_ext _ (fun x y => (/ (wq (ls * sqrt (INR (S n))) x y + 1)) ^ (S n))) by (intros; now apply ratquad_nat).
  assert (Hl2 : 0 < ls * sqrt (INR (S n))).
  { apply Rmult_lt_0_compat; [exact Hls|apply sqrt_lt_R0, lt_0_INR; lia]. }
  apply (@psd_pow (fun x y => / (wq (ls * sqrt (INR (S n))) x y + 1)) (S n)).
  - intros x y. now rewrite (wq_sym _ x y).
  - now apply psd_resolvent.
  - exact Hl.
Qed.

(* expression trees whose base kernels are Linear, ExpQuad or RatQuad with a positive integer alpha (alpha = 1 is the default
   of mellon.cov.RatQuad): no hypothesis of the Schoenberg / Bochner kind is left for them *)
Fixpoint elementary_only (e : kexpr) : Prop :=
  match e with
  | KBase BLinear _ _ | KBase BExpQuad _ _ => True
  | KBase (BRatQuad a) _ _ => exists n : nat, a = INR (S n)
  | KBase _ _ _ => False
  | KAdd l r _ | KMul l r _ => elementary_only l /\ elementary_only r
  | KAddC l _ _ | KMulC l _ _ => elementary_only l
  | KPow _ _ _ => False
  end.

Theorem keval_psd_elementary e : psd_shape e -> elementary_only e -> psd (keval e).
Proof.
  induction e as [b ls ad|l IHl r IHr ad|l IHl c ad|l IHl r IHr ad|l IHl c ad|l IHl p ad]; cbn [psd_shape elementary_only]; intros Hs Hg.
  - apply (psd_sel (base_k b ls) ad). destruct Hs as [Hls _]. destruct b; try contradiction.
    + now apply psd_expquad.
    + destruct Hg as [n ->]. now apply psd_ratquad_nat.
    + now apply psd_linear.
  - destruct Hs, Hg. apply (psd_sel (fun x y => keval l x y + keval r x y) ad). apply psd_add; auto.
  - destruct Hs. apply (psd_sel (fun x y => keval l x y + c) ad).
    apply (psd_add (keval l) (fun _ _ => c)); [auto|now apply psd_const].
  - destruct Hs, Hg. apply (psd_sel (fun x y => keval l x y * keval r x y) ad).
    apply hadamard_psd_R; auto; intros x y; apply keval_symmetric.
  - destruct Hs. apply (psd_sel (fun x y => keval l x y * c) ad). apply psd_scale; auto.
  - contradiction.
Qed.

Example elementary_example :
  let e := KMul (KBase (BRatQuad 1) 2 DNone) (KAddC (KBase BExpQuad 3 DNone) 1 DNone) DNone in
  psd_shape e /\ elementary_only e.
Proof. cbn. repeat split; try lra. exists 0%nat. reflexivity. Qed.
