(* C15: theorems about the generated option-resolution functions. *)
From Coq Require Import ZArith QArith List String Ascii Bool Lia.
From MellonV Require Import PyVal Resolve ResolvePipeline.
Import ListNotations.
Open Scope Z_scope.

(* ---------- typed views of the arguments ---------- *)
Inductive rk := RNone | RInt (z : Z) | RFloat (q : Q).
Definition rank_val (r : rk) : val :=
  match r with RNone => VNone | RInt z => VInt z | RFloat q => VFloat (XFin q) end.
Definition gp_val (g : option gpt) : val := match g with None => VNone | Some g => VEnum g end.
(* explicit landmarks: None or an m x d float array *)
Definition lm_val (l : option (Z * Z * list xf)) : val :=
  match l with None => VNone | Some (m, d, dat) => VArr KF [m; d] dat end.

Definition float_full (q : Q) : bool := xf_leb (XFin 1) (XFin q) || Qeq_bool q 0.
(* "full rank is indicated" (docstring of validate_rank_params / compute_gp_type) *)
Definition full_rank_indicated (r : rk) (bound : Z) : bool :=
  match r with
  | RNone => true
  | RInt z => (bound <=? z) || (z =? 0)
  | RFloat q => float_full q
  end.

Ltac split_ifs :=
  repeat (match goal with
          | |- context [if ?b then _ else _] =>
              lazymatch b with
              | context [if _ then _ else _] => fail
              | _ => destruct b eqn:?
              end
          end; cbn [bind orb andb negb]).

(* ---------- validators on typed inputs ---------- *)
Lemma vpi_int z pn opt : py_validation_validate_positive_int (VInt z) pn (VBool opt)
  = if z <? 0 then Err ValueError else Ok (VInt z).
Proof. unfold py_validation_validate_positive_int. destruct opt; cbn; destruct (z <? 0); reflexivity. Qed.

Lemma vpi_none_opt pn : py_validation_validate_positive_int VNone pn (VBool true) = Ok VNone.
Proof. reflexivity. Qed.

Lemma vfi_rank r pn : py_validation_validate_float_or_int (rank_val r) pn (VBool true) = Ok (rank_val r).
Proof. destruct r; reflexivity. Qed.

Lemma vfi_rank_required r pn : py_validation_validate_float_or_int (rank_val r) pn (VBool false)
  = match r with RNone => Err ValueError | _ => Ok (rank_val r) end.
Proof. destruct r; reflexivity. Qed.

(* ---------- compute_gp_type : the documented rules ---------- *)
Definition gp_type_rule (nl : Z) (r : rk) (n : Z) : gpt :=
  if (nl =? 0) || (n <=? nl)
  then (if full_rank_indicated r n then FULL else FULL_NYSTROEM)
  else (if full_rank_indicated r nl then SPARSE_CHOLESKY else SPARSE_NYSTROEM).

Lemma compute_gp_type_rules nl r n :
  0 <= nl -> 0 <= n ->
  py_parameters_compute_gp_type (VInt nl) (rank_val r) (VInt n) = Ok (VEnum (gp_type_rule nl r n)).
Proof.
  intros Hnl Hn. unfold py_parameters_compute_gp_type, gp_type_rule.
  cbn [bind3 bind]. rewrite vfi_rank, !vpi_int.
  destruct (Z.ltb_spec nl 0); [lia|]. destruct (Z.ltb_spec n 0); [lia|].
  cbn [bind].
  destruct r as [|z|q]; cbn; unfold float_full; cbn;
    change (inject_Z 0) with 0%Q; split_ifs; reflexivity.
Qed.

Lemma compute_gp_type_negative nl r n :
  nl < 0 \/ n < 0 ->
  py_parameters_compute_gp_type (VInt nl) (rank_val r) (VInt n) = Err ValueError.
Proof.
  intros H. unfold py_parameters_compute_gp_type.
  cbn [bind3 bind]. rewrite vfi_rank, !vpi_int. cbn [bind].
  destruct (Z.ltb_spec nl 0); [reflexivity|]. cbn [bind].
  destruct (Z.ltb_spec n 0); [reflexivity|lia].
Qed.

(* ---------- validate_params: accepted exactly when consistent ---------- *)
Definition is_nystroem (g : gpt) : bool :=
  match g with FULL_NYSTROEM | SPARSE_NYSTROEM => true | _ => false end.
Definition is_sparse (g : gpt) : bool :=
  match g with SPARSE_CHOLESKY | SPARSE_NYSTROEM => true | _ => false end.
Definition is_full (g : gpt) : bool :=
  match g with FULL | FULL_NYSTROEM => true | _ => false end.
(* the integer-rank bound that "indicates full rank" for a type (none for FIXED) *)
Definition rank_full_for (g : gpt) (r : rk) (n nl : Z) : bool :=
  match r with
  | RNone => false
  | RInt z => (match g with
               | SPARSE_CHOLESKY | SPARSE_NYSTROEM => nl <=? z
               | FULL | FULL_NYSTROEM => n <=? z
               | FIXED => false end) || (z =? 0)
  | RFloat q => float_full q
  end.
Definition params_consistent (r : rk) (g : gpt) (n nl : Z) (lm : option (Z * Z * list xf)) : bool :=
  (0 <=? nl)
  && (match r with RNone => false | _ => true end)
  && (match lm with None => true | Some (m, _, _) => nl =? m end)
  && (if is_full g then negb ((negb (nl =? 0)) && (nl <? n)) else true)
  && (if is_sparse g then (negb (nl =? 0)) && (nl <? n) else true)
  && (match g with FIXED => negb (nl =? 0) | _ => true end)
  && (Bool.eqb (rank_full_for g r n nl) (negb (is_nystroem g))).

Ltac z_cases :=
  repeat (match goal with
          | |- context [Z.ltb ?a ?b] => destruct (Z.ltb_spec a b)
          | |- context [Z.leb ?a ?b] => destruct (Z.leb_spec a b)
          | |- context [Z.eqb ?a ?b] => destruct (Z.eqb_spec a b)
          end; cbn);
  try reflexivity; try lia.

Lemma validate_params_spec r g n nl lm :
  py_parameter_validation_validate_params (rank_val r) (VEnum g) (VInt n) (VInt nl) (lm_val lm)
  = if params_consistent r g n nl lm then Ok VNone else Err ValueError.
Proof.
  unfold py_parameter_validation_validate_params, params_consistent,
    py_parameter_validation_validate_landmark_params, py_parameter_validation_validate_gp_type,
    py_parameter_validation_validate_rank_params.
  cbn [bind3 bind]. rewrite vpi_int, vfi_rank_required.
  destruct r as [|z|q].
  - destruct (nl <? 0), (0 <=? nl); cbn; reflexivity.
  - destruct lm as [[[m d] dat]|]; destruct g; cbn; z_cases.
  - destruct lm as [[[m d] dat]|]; destruct g; cbn; unfold float_full; cbn;
      change (inject_Z 0) with 0%Q;
      destruct (xf_leb (XFin 1) (XFin q)), (Qeq_bool q 0); cbn; z_cases.
Qed.

(* ---------- GaussianProcessType.from_string ---------- *)
Open Scope string_scope.
Definition norm_name (s : string) : string :=
  string_map (fun c => if Ascii.eqb c " " then "_"%char else c) (string_map ascii_lower s).
Definition gpt_all : list gpt := [FULL; FULL_NYSTROEM; SPARSE_CHOLESKY; SPARSE_NYSTROEM; FIXED].
(* exact value first, otherwise the first member (declaration order) whose value contains the input *)
Definition from_string_spec (s : string) : res val :=
  match find (fun g => string_eqb (gpt_value g) (norm_name s)) gpt_all with
  | Some g => Ok (VEnum g)
  | None => match find (fun g => string_contains (norm_name s) (gpt_value g)) gpt_all with
            | Some g => Ok (VEnum g)
            | None => Err ValueError
            end
  end.

Lemma from_string_str s opt :
  py_util_GaussianProcessType_from_string (VStr s) (VBool opt) = from_string_spec s.
Proof.
  unfold py_util_GaussianProcessType_from_string, from_string_spec.
  cbn -[string_eqb string_contains string_map]. fold (norm_name s).
  generalize (norm_name s) as t. intros t.
  cbn -[string_eqb string_contains].
  split_ifs; reflexivity.
Qed.

Lemma from_string_none_optional : py_util_GaussianProcessType_from_string VNone (VBool true) = Ok VNone.
Proof. reflexivity. Qed.
Lemma from_string_none_required : py_util_GaussianProcessType_from_string VNone (VBool false) = Err ValueError.
Proof. reflexivity. Qed.
Lemma from_string_member g opt : py_util_GaussianProcessType_from_string (VEnum g) (VBool opt) = Ok (VEnum g).
Proof. destruct opt; reflexivity. Qed.

Example from_string_examples :
  from_string_spec "Full" = Ok (VEnum FULL) /\ from_string_spec "sparse" = Ok (VEnum SPARSE_CHOLESKY)
  /\ from_string_spec "nystroem" = Ok (VEnum FULL_NYSTROEM) /\ from_string_spec "sparse nystroem" = Ok (VEnum SPARSE_NYSTROEM)
  /\ from_string_spec "bogus" = Err ValueError /\ from_string_spec "fixed" = Ok (VEnum FIXED).
Proof. vm_compute. repeat split. Qed.
Close Scope string_scope.

(* ---------- defaults ---------- *)
Lemma compute_rank_spec g :
  py_parameters_compute_rank (gp_val g)
  = Ok (VFloat (XFin (match g with
                      | Some FULL_NYSTROEM | Some SPARSE_NYSTROEM => 4458563631096791 # 4503599627370496   (* 0.99 *)
                      | _ => 1 end))).
Proof. destruct g as [[]|]; reflexivity. Qed.

Lemma compute_n_landmarks_spec g n lm :
  py_parameters_compute_n_landmarks (gp_val g) (VInt n) (lm_val lm)
  = Ok (VInt (match lm with
              | Some (m, _, _) => m
              | None => match g with
                        | None | Some FIXED => Z.min n 5000
                        | Some FULL | Some FULL_NYSTROEM => n
                        | Some SPARSE_CHOLESKY | Some SPARSE_NYSTROEM => 5000
                        end
              end)).
Proof.
  destruct lm as [[[m d] dat]|]; [destruct g as [[]|]; reflexivity|].
  destruct g as [[]|]; cbn; try reflexivity;
    destruct (Z.ltb_spec 5000 n); cbn; f_equal; f_equal; lia.
Qed.

(* ---------- the whole pipeline ---------- *)
Definition nl_arg_val (a : option Z) : val := match a with None => VNone | Some z => VInt z end.
Definition default_rank (g : option gpt) : rk :=
  RFloat (match g with
          | Some FULL_NYSTROEM | Some SPARSE_NYSTROEM => 4458563631096791 # 4503599627370496
          | _ => 1 end).
Definition default_n_landmarks (g : option gpt) (n : Z) (lm : option (Z * Z * list xf)) : Z :=
  match lm with
  | Some (m, _, _) => m
  | None => match g with
            | None | Some FIXED => Z.min n 5000
            | Some FULL | Some FULL_NYSTROEM => n
            | Some SPARSE_CHOLESKY | Some SPARSE_NYSTROEM => 5000
            end
  end.
Definition nl_final (a : option Z) g n lm : Z := match a with Some z => z | None => default_n_landmarks g n lm end.
Definition r_final (r : rk) g : rk := match r with RNone => default_rank g | _ => r end.
Definition g_final (g : option gpt) nl r n : gpt := match g with Some g => g | None => gp_type_rule nl r n end.

Definition lm_ok (lm : option (Z * Z * list xf)) : Prop :=
  match lm with None => True | Some (m, _, _) => 0 <= m end.

Lemma prepare_attr_rank r g :
  prepare_attr (rank_val r) (py_parameters_compute_rank (gp_val g)) = Ok (rank_val (r_final r g)).
Proof. destruct r; cbn [rank_val prepare_attr r_final]; try reflexivity. apply compute_rank_spec. Qed.

Lemma resolve_spec n a lm r g0 :
  0 <= n -> lm_ok lm ->
  resolve (VInt n) (nl_arg_val a) (lm_val lm) (rank_val r) (gp_val g0)
  = if (match a with Some z => z <? 0 | None => false end) then Err ValueError else
    let nl := nl_final a g0 n lm in
    let r' := r_final r g0 in
    let g := g_final g0 nl r' n in
    if params_consistent r' g n nl lm then Ok (VTuple [VEnum g; VInt nl; rank_val r']) else Err ValueError.
Proof.
  intros Hn Hlm. unfold resolve.
  assert (E1 : py_validation_validate_positive_int (nl_arg_val a) (VStr "") (VBool true)
               = match a with Some z => if z <? 0 then Err ValueError else Ok (VInt z) | None => Ok VNone end)
    by (destruct a; [apply vpi_int|reflexivity]).
  rewrite E1. rewrite vfi_rank.
  assert (E3 : py_util_GaussianProcessType_from_string (gp_val g0) (VBool true) = Ok (gp_val g0))
    by (destruct g0; reflexivity).
  destruct a as [z|].
  - destruct (Z.ltb_spec z 0) as [Hz|Hz]; [reflexivity|].
    cbn [bind]. rewrite E3. cbn [bind prepare_attr nl_final].
    rewrite prepare_attr_rank. cbn [bind].
    destruct g0 as [g|]; cbn [gp_val prepare_attr g_final bind].
    + rewrite validate_params_spec. cbv zeta. destruct (params_consistent _ _ _ _ _); reflexivity.
    + rewrite compute_gp_type_rules by lia. cbn [bind]. rewrite validate_params_spec.
      cbv zeta. destruct (params_consistent _ _ _ _ _); reflexivity.
  - cbn [bind]. rewrite E3. cbn [bind prepare_attr nl_arg_val].
    rewrite compute_n_landmarks_spec. cbn [bind]. fold (default_n_landmarks g0 n lm).
    change (default_n_landmarks g0 n lm) with (nl_final None g0 n lm).
    rewrite prepare_attr_rank. cbn [bind].
    assert (Hnl : 0 <= nl_final None g0 n lm).
    { unfold nl_final, default_n_landmarks. destruct lm as [[[m d] dat]|]; [exact Hlm|].
      destruct g0 as [[]|]; lia. }
    destruct g0 as [g|]; cbn [gp_val prepare_attr g_final bind].
    + rewrite validate_params_spec. cbv zeta. destruct (params_consistent _ _ _ _ _); reflexivity.
    + rewrite compute_gp_type_rules by lia. cbn [bind]. rewrite validate_params_spec.
      cbv zeta. destruct (params_consistent _ _ _ _ _); reflexivity.
Qed.

(* every typed option combination is refused with ValueError or resolves to exactly one
   consistent (type, n_landmarks, rank) triple *)
Theorem resolve_total_exclusive n a lm r g0 :
  0 <= n -> lm_ok lm ->
  resolve (VInt n) (nl_arg_val a) (lm_val lm) (rank_val r) (gp_val g0) = Err ValueError
  \/ exists g nl r', resolve (VInt n) (nl_arg_val a) (lm_val lm) (rank_val r) (gp_val g0)
                       = Ok (VTuple [VEnum g; VInt nl; rank_val r'])
                     /\ params_consistent r' g n nl lm = true.
Proof.
  intros Hn Hlm. rewrite (resolve_spec n a lm r g0 Hn Hlm).
  destruct (match a with Some z => z <? 0 | None => false end); [now left|].
  cbv zeta. destruct (params_consistent _ _ _ _ _) eqn:E; [right|now left].
  do 3 eexists. split; [reflexivity|exact E].
Qed.

(* partial / unknown names *)
Theorem resolve_string n a lm r s :
  resolve (VInt n) (nl_arg_val a) (lm_val lm) (rank_val r) (VStr s)
  = match from_string_spec s with
    | Ok (VEnum g) => resolve (VInt n) (nl_arg_val a) (lm_val lm) (rank_val r) (VEnum g)
    | _ => match (match a with Some z => z <? 0 | None => false end) with true => Err ValueError | false => Err ValueError end
    end.
Proof.
  unfold resolve.
  assert (E1 : py_validation_validate_positive_int (nl_arg_val a) (VStr "") (VBool true)
               = match a with Some z => if z <? 0 then Err ValueError else Ok (VInt z) | None => Ok VNone end)
    by (destruct a; [apply vpi_int|reflexivity]).
  rewrite E1, vfi_rank, from_string_str.
  unfold from_string_spec.
  destruct (find _ gpt_all) as [g|]; [|destruct (find _ gpt_all) as [g|]].
  - rewrite (from_string_member g true). reflexivity.
  - rewrite (from_string_member g true). reflexivity.
  - destruct a as [z|]; [destruct (z <? 0)|]; reflexivity.
Qed.

(* the documented rules when the type is inferred *)
Theorem inferred_type_rules nl r n :
  let g := gp_type_rule nl r n in
  ((nl = 0 \/ n <= nl) -> is_full g = true)
  /\ ((nl <> 0 /\ nl < n) -> is_sparse g = true)
  /\ (is_nystroem g = negb (full_rank_indicated r (if is_full g then n else nl))).
Proof.
  cbv zeta. unfold gp_type_rule.
  destruct (Z.eqb_spec nl 0), (Z.leb_spec n nl); cbn [orb];
    (split; [|split]); try (intros; cbn; try lia; try reflexivity);
    try (destruct (full_rank_indicated r n); reflexivity);
    try (destruct (full_rank_indicated r nl); reflexivity);
    try (destruct H; lia).
  all: try (destruct (full_rank_indicated r n) eqn:E; cbn; rewrite ?E; reflexivity).
  all: try (destruct (full_rank_indicated r nl) eqn:E; cbn; rewrite ?E; reflexivity).
Qed.

(* ---------- landmarks, landmark factor, predictor family ---------- *)
Definition xarr (n d : Z) (dat : list xf) : val := VArr KF [n; d] dat.

Lemma compute_landmarks_spec n d dat g nl km :
  py_parameters_compute_landmarks (xarr n d dat) (gp_val g) (VInt nl) (VTuple [km; VNone; VNone])
  = if nl =? 0 then Ok VNone
    else if nl <=? 1 then Err ValueError
    else if n <=? nl then Ok (match g with Some FIXED => xarr n d dat | _ => VNone end)
    else Ok km.
Proof.
  unfold py_parameters_compute_landmarks, xarr. cbn.
  destruct (Z.eqb_spec nl 0); [reflexivity|]. cbn.
  destruct (Z.leb_spec nl 1); [reflexivity|]. cbn.
  destruct (Z.leb_spec n nl); cbn; [|reflexivity].
  destruct g as [[]|]; reflexivity.
Qed.

Lemma compute_Lp_spec n d dat cf g lm sg jt fr :
  py_parameters_compute_Lp (xarr n d dat) cf (VEnum g) (lm_val lm) sg jt fr
  = Ok (if is_nystroem g then VNone else fr).
Proof.
  unfold py_parameters_compute_Lp, xarr.
  destruct lm as [[[m dd] ldat]|]; destruct g; reflexivity.
Qed.

(* what the estimators hand to compute_conditional, per resolved type *)
Definition dispatch_facts (g : gpt) (lm z Lp : val) : Prop :=
  match g with
  | FULL | FULL_NYSTROEM => True
  | SPARSE_NYSTROEM => (exists m d dat, lm = VArr KF [m; d] dat) /\ Lp = VNone
  | SPARSE_CHOLESKY | FIXED =>
      exists m d dat zd k s ld, lm = VArr KF [m; d] dat /\ z = VArr KF [m] zd /\ Lp = VArr k s ld
  end.

Theorem predictor_matches_type g n dx xd lm z std y L Lp wu :
  dispatch_facts g lm z Lp ->
  predictor_of (VEnum g) (xarr n dx xd) lm z std y L Lp (VBool wu) = Ok (VObj (family_of g) 0).
Proof.
  unfold predictor_of, dispatch_facts. intros H.
  destruct g; cbn [py_base_model_BaseEstimator__predictor_landmarks].
  - cbn. destruct wu, std; reflexivity.
  - cbn. destruct wu, std; reflexivity.
  - destruct H as (m & d & dat & zd & k & s & ld & -> & -> & ->). cbn.
    rewrite Z.eqb_refl. cbn. destruct std; reflexivity.
  - destruct H as ((m & d & dat & ->) & ->). cbn.
    destruct z; cbn; destruct wu, std; reflexivity.
  - destruct H as (m & d & dat & zd & k & s & ld & -> & -> & ->). cbn.
    rewrite Z.eqb_refl. cbn. destruct std; reflexivity.
Qed.

(* resolution order assumed by [resolve] is the one in the source *)
Lemma order_tables_ok :
  firstn 5 prepare_order_DensityEstimator = expected_order_inference
  /\ firstn 5 prepare_order_TimeSensitiveDensityEstimator = expected_order_inference
  /\ firstn 5 prepare_order_DimensionalityEstimator = expected_order_inference
  /\ firstn 3 prepare_order_FunctionEstimator = expected_order_function
  /\ (forall o, In o [prepare_order_DensityEstimator; prepare_order_TimeSensitiveDensityEstimator;
                      prepare_order_DimensionalityEstimator] ->
        exists a b, o = a ++ lm_lp_l ++ b).
Proof.
  repeat split; try reflexivity.
  intros o [<-|[<-|[<-|[]]]]; unfold prepare_order_DensityEstimator, prepare_order_TimeSensitiveDensityEstimator,
    prepare_order_DimensionalityEstimator.
  - exists (firstn 10 prepare_order_DensityEstimator), (skipn 13 prepare_order_DensityEstimator). reflexivity.
  - exists (firstn 11 prepare_order_TimeSensitiveDensityEstimator), (skipn 14 prepare_order_TimeSensitiveDensityEstimator). reflexivity.
  - exists (firstn 11 prepare_order_DimensionalityEstimator), (skipn 14 prepare_order_DimensionalityEstimator). reflexivity.
Qed.

(* non-vacuity *)
Example resolve_examples :
  resolve (VInt 12) VNone VNone VNone VNone = Ok (VTuple [VEnum FULL; VInt 12; VFloat (XFin 1)])
  /\ resolve (VInt 12) (VInt 5) VNone VNone VNone = Ok (VTuple [VEnum SPARSE_CHOLESKY; VInt 5; VFloat (XFin 1)])
  /\ resolve (VInt 12) (VInt 5) VNone (VFloat (XFin (1#2))) VNone = Ok (VTuple [VEnum SPARSE_NYSTROEM; VInt 5; VFloat (XFin (1#2))])
  /\ resolve (VInt 12) (VInt 5) VNone VNone (VStr "full") = Err ValueError
  /\ resolve (VInt 12) (VInt 5000) VNone VNone (VStr "fixed") = Ok (VTuple [VEnum FIXED; VInt 5000; VFloat (XFin 1)]).
Proof. vm_compute. repeat split. Qed.
