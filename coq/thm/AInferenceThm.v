(* C03: the inference objective is the documented Bayesian model, with the documented defaults.
   All definitions about the code (mle, normal_logpdf, nn_term, nn_loglik, loss, poisson_term,
   compute_ls, compute_mu ...) are GENERATED (gen/AInference.v); [lgam] stands for gammaln. *)
From Coq Require Import Reals List ZArith Lra Lia.
From Coquelicot Require Import Coquelicot.
From MellonV Require Import ALists AListsFacts AInference.
Import ListNotations.
Open Scope R_scope.

Section Documented.
Variable lgam : R -> R.

(* c_d = pi^(d/2) / Gamma(d/2+1): volume of the unit d-ball, with Gamma = exp o lgam *)
Definition cvol (d : R) : R := Rpower PI (d / 2) / exp (lgam (d / 2 + 1)).
(* density of the nearest-neighbour distance of a homogeneous Poisson process of intensity rho in d dimensions *)
Definition nn_density_c (c rho d r : R) : R := rho * d * c * Rpower r (d - 1) * exp (- (rho * c * Rpower r d)).
Definition nn_density (rho d r : R) : R := nn_density_c (cvol d) rho d r.

Lemma cvol_pos d : 0 < cvol d.
Proof. unfold cvol. apply Rdiv_lt_0_compat; apply exp_pos. Qed.

Lemma ln_cvol d : ln (cvol d) = d * ln PI / 2 - lgam (d / 2 + 1).
Proof.
  unfold cvol, Rdiv. rewrite ln_mult by (try apply exp_pos; apply Rinv_0_lt_compat, exp_pos).
  rewrite ln_Rinv by apply exp_pos. rewrite ln_exp. unfold Rpower. rewrite ln_exp. unfold Rdiv. ring.
Qed.

(* ---- prior *)
Lemma sum_list_map_ext (f g : R -> R) l : (forall v, f v = g v) -> sum_list (map f l) = sum_list (map g l).
Proof. intros H. induction l; simpl; [reflexivity|]. now rewrite H, IHl. Qed.

Lemma ln_sqrt_half a : 0 < a -> ln (sqrt a) = ln a / 2.
Proof.
  intros Ha. assert (Hs : 0 < sqrt a) by (apply sqrt_lt_R0; exact Ha).
  pose proof (ln_mult (sqrt a) (sqrt a) Hs Hs) as H. rewrite sqrt_sqrt in H by lra. lra.
Qed.

Definition std_normal_pdf (z : R) : R := exp (- (z ^ 2 / 2)) / sqrt (2 * PI).

Lemma ln_std_normal z : ln (std_normal_pdf z) = - (1 / 2) * z ^ 2 - (1 / 2) * ln (2 * PI).
Proof.
  assert (0 < 2 * PI) by (pose proof PI_RGT_0; lra).
  unfold std_normal_pdf, Rdiv. rewrite ln_mult by (try apply exp_pos; apply Rinv_0_lt_compat, sqrt_lt_R0; assumption).
  rewrite ln_exp, ln_Rinv by (apply sqrt_lt_R0; assumption). rewrite ln_sqrt_half by assumption. unfold Rdiv. ring.
Qed.

Lemma normal_logpdf_documented z : normal_logpdf (INR (length z)) z = sum_list (map (fun v => ln (std_normal_pdf v)) z).
Proof.
  unfold normal_logpdf.
  rewrite (sum_list_map_ext (fun v => ln (std_normal_pdf v)) (fun v => - (1 / 2) * v ^ 2 - (1 / 2) * ln (2 * PI))) by apply ln_std_normal.
  induction z as [|a z IH]; [simpl; unfold Rdiv; ring|].
  change (length (a :: z)) with (S (length z)). rewrite S_INR. cbn [map sum_list]. rewrite <- IH. unfold Rdiv. ring.
Qed.

(* ---- nearest-neighbour likelihood term *)
Lemma nn_term_documented r d l : 0 < r -> 0 < d ->
  nn_term lgam r d l = ln (nn_density (exp l) d r).
Proof.
  intros Hr Hd. unfold nn_density, nn_density_c.
  pose proof (cvol_pos d) as Hc. pose proof (exp_pos l) as Hl.
  assert (Hp : 0 < Rpower r (d - 1)) by apply exp_pos.
  assert (H1 : 0 < exp l * d) by (apply Rmult_lt_0_compat; assumption).
  assert (H2 : 0 < exp l * d * cvol d) by (apply Rmult_lt_0_compat; assumption).
  assert (H3 : 0 < exp l * d * cvol d * Rpower r (d - 1)) by (apply Rmult_lt_0_compat; assumption).
  rewrite (ln_mult _ _ H3 (exp_pos _)), (ln_mult _ _ H2 Hp), (ln_mult _ _ H1 Hc), (ln_mult _ _ Hl Hd).
  rewrite !ln_exp, ln_cvol. unfold Rpower at 1. rewrite ln_exp.
  unfold nn_term. 
  replace (exp l * cvol d * Rpower r d) with (exp (l + (ln r * d + (d * ln PI / 2 - lgam (d / 2 + 1))))).
  - ring.
  - rewrite !exp_plus. rewrite <- ln_cvol, exp_ln by exact Hc. unfold Rpower. rewrite (Rmult_comm d (ln r)). ring.
Qed.

Lemma map3_ext_in {A B C D} (f g : A -> B -> C -> D) la lb lc :
  (forall a b c, In a la -> In b lb -> In c lc -> f a b c = g a b c) -> map3 f la lb lc = map3 g la lb lc.
Proof.
  revert lb lc. induction la as [|a la IH]; intros [|b lb] [|c lc] H; simpl; try reflexivity.
  rewrite H by (now left). f_equal. apply IH. intros; apply H; now right.
Qed.

(* loss z = -[ log N(z;0,I) + sum_i log p(r_i | rho_i = exp((tr z)_i), d_i) ] *)
Lemma loss_is_documented r d tr z :
  (forall v, In v r -> 0 < v) -> (forall v, In v d -> 0 < v) ->
  loss lgam (INR (length z)) r d tr z =
  - (sum_list (map (fun v => ln (std_normal_pdf v)) z)
     + sum_list (map3 (fun ri di fi => ln (nn_density (exp fi) di ri)) r d (tr z))).
Proof.
  intros Hr Hd. unfold loss, nn_loglik. rewrite normal_logpdf_documented. do 2 f_equal. f_equal.
  apply map3_ext_in. intros a b c Ha Hb _. apply nn_term_documented; auto.
Qed.

(* ---- the closed-form MLE maximises each likelihood term, and is the only maximiser *)
Lemma nn_term_max_at_mle r d l : nn_term lgam r d l <= nn_term lgam r d (mle lgam r d).
Proof.
  unfold nn_term, mle.
  set (V := ln r * d + (d * ln PI / 2 - lgam (d / 2 + 1))).
  replace (lgam (d / 2 + 1) - d / 2 * ln PI - d * ln r + V) with 0 by (unfold V; field).
  rewrite exp_0. pose proof (exp_ineq1_le (l + V)). unfold V in *. lra.
Qed.

Lemma nn_term_max_unique r d l : nn_term lgam r d l = nn_term lgam r d (mle lgam r d) -> l = mle lgam r d.
Proof.
  unfold nn_term, mle.
  set (V := ln r * d + (d * ln PI / 2 - lgam (d / 2 + 1))).
  replace (lgam (d / 2 + 1) - d / 2 * ln PI - d * ln r + V) with 0 by (unfold V; field).
  rewrite exp_0. intros H.
  destruct (Req_dec (l + V) 0) as [E|E]; [unfold V in *; lra|].
  pose proof (exp_ineq1 (l + V) E). unfold V in *. lra.
Qed.

Lemma mle_documented r d : mle lgam r d = lgam (d / 2 + 1) - (d / 2) * ln PI - d * ln r.
Proof. reflexivity. Qed.

(* at the MLE the expected number of points in the ball of radius r is one: rho * c_d * r^d = 1 *)
Lemma mle_unit_volume r d : 0 < r -> exp (mle lgam r d) * cvol d * Rpower r d = 1.
Proof.
  intros Hr. rewrite <- (exp_ln (cvol d)) by apply cvol_pos. unfold Rpower. rewrite <- !exp_plus, ln_cvol.
  unfold mle. replace (_ + _ + _) with 0 by field. apply exp_0.
Qed.

(* ---- k-nearest-neighbour Poisson model *)
Definition poisson_eta (dist dims log_dens : R) : R :=
  log_dens + dims * (ln dist + ln PI / 2) - lgam (dims / 2 + 1).

Lemma poisson_term_documented dist j dims log_dens :
  poisson_term lgam dist j dims log_dens =
  j * poisson_eta dist dims log_dens - exp (poisson_eta dist dims log_dens) - lgam j.
Proof.
  unfold poisson_term, poisson_eta.
  replace (log_dens + (dims * (ln dist + ln PI / 2) - lgam (dims / 2 + 1)))
    with (log_dens + dims * (ln dist + ln PI / 2) - lgam (dims / 2 + 1)) by ring.
  ring.
Qed.

(* eta = log(rho * volume of the ball of radius dist) *)
Lemma poisson_eta_volume dist dims log_dens : 0 < dist ->
  poisson_eta dist dims log_dens = ln (exp log_dens * cvol dims * Rpower dist dims).
Proof.
  intros Hd. pose proof (cvol_pos dims) as Hc. pose proof (exp_pos log_dens) as Hl.
  assert (H1 : 0 < exp log_dens * cvol dims) by (apply Rmult_lt_0_compat; assumption).
  assert (Hp : 0 < Rpower dist dims) by apply exp_pos.
  rewrite (ln_mult _ _ H1 Hp), (ln_mult _ _ Hl Hc).
  rewrite ln_exp, ln_cvol. unfold Rpower. rewrite ln_exp. unfold poisson_eta. field.
Qed.

(* j*eta - e^eta is maximal at eta = ln j *)
Lemma poisson_max j eta : 0 < j -> j * eta - exp eta <= j * ln j - j.
Proof.
  intros Hj. pose proof (exp_ineq1_le (eta - ln j)) as H.
  replace (exp (eta - ln j)) with (exp eta / j) in H by (unfold Rminus; rewrite exp_plus, exp_Ropp, exp_ln by exact Hj; reflexivity).
  assert (j * (1 + (eta - ln j)) <= exp eta).
  { replace (exp eta) with (j * (exp eta / j)) by (field; lra). apply Rmult_le_compat_l; lra. }
  lra.
Qed.

(* for one neighbour the Poisson term is the nearest-neighbour term in log-volume coordinates:
   they differ by the log-Jacobian d/r of r -> log volume (and by lgam 1) *)
Lemma poisson_k1_is_nn r d l : 0 < r -> 0 < d ->
  nn_term lgam r d l = poisson_term lgam r 1 d l + lgam 1 + ln d - ln r.
Proof.
  intros Hr Hd. unfold nn_term, poisson_term.
  replace (l + (d * (ln r + ln PI / 2) - lgam (d / 2 + 1))) with (l + (ln r * d + (d * ln PI / 2 - lgam (d / 2 + 1)))) by field.
  field.
Qed.

(* ---- defaults *)
(* ls = e^3 * geometric mean of the nearest-neighbour distances (ls_factor is applied by the estimator) *)
Definition geomean (l : list R) : R := exp (mean_list (map ln l)).

Lemma ls_default r : compute_ls r = exp 3 * geomean r.
Proof. unfold compute_ls, geomean. rewrite exp_plus. apply Rmult_comm. Qed.

Lemma geomean_scale r c : 0 < c -> r <> [] -> (forall v, In v r -> 0 < v) ->
  geomean (map (fun v => c * v) r) = c * geomean r.
Proof.
  intros Hc Hne Hp. unfold geomean, mean_list. rewrite !map_length.
  assert (Hs : sum_list (map ln (map (fun v => c * v) r)) = INR (length r) * ln c + sum_list (map ln r)).
  { clear Hne. induction r as [|a r IH]; [simpl; ring|].
    cbn [map sum_list length]. rewrite S_INR, IH by (intros; apply Hp; now right).
    rewrite ln_mult by (try exact Hc; apply Hp; now left). ring. }
  rewrite Hs. assert (INR (length r) <> 0).
  { destruct r; [congruence|]. apply not_0_INR. simpl. lia. }
  replace ((INR (length r) * ln c + sum_list (map ln r)) / INR (length r)) with (ln c + sum_list (map ln r) / INR (length r)) by (field; assumption).
  rewrite exp_plus, exp_ln by exact Hc. reflexivity.
Qed.

(* mu = (1st percentile of the MLE log-densities, linear interpolation) - 10 *)
Lemma mu_default r d : compute_mu lgam r d = quantile_list (map2 (mle lgam) r d) (1 / 100) - 10.
Proof. reflexivity. Qed.

Lemma d_default ndim ncols : (2 <= ndim)%nat -> compute_d ndim ncols = ncols.
Proof. intros H. unfold compute_d. destruct (Nat.ltb_spec ndim 2); [lia|reflexivity]. Qed.

Lemma d_default_1d ncols : compute_d 1 ncols = 1%nat.
Proof. reflexivity. Qed.

(* the ridge start regresses L z on  mle - mu *)
Lemma initial_value_target_documented r d mu : initial_value_target lgam r d mu = mle lgam r d - mu.
Proof. reflexivity. Qed.

End Documented.

(* ------------------------------------------------------------------ the quantile (linear interpolation on the sorted values) *)
Lemma floor_pos_nat h : 0 <= h -> INR (Z.to_nat (Int_part h)) <= h < INR (Z.to_nat (Int_part h)) + 1.
Proof.
  intros Hh. destruct (base_Int_part h) as [H1 H2].
  assert (0 <= Int_part h)%Z.
  { destruct (Z_lt_le_dec (Int_part h) 0) as [Hn|Hp]; [|exact Hp].
    assert (IZR (Int_part h) <= -1) by (apply IZR_le; lia). lra. }
  rewrite INR_IZR_INZ, Z2Nat.id by assumption. lra.
Qed.

Lemma quantile_sorted_bounds s q a b : s <> [] -> 0 <= q <= 1 ->
  (forall v, In v s -> a <= v <= b) -> a <= quantile_sorted s q <= b.
Proof.
  intros Hne Hq Hb. unfold quantile_sorted.
  assert (Hn : (1 <= length s)%nat) by (destruct s; [congruence|simpl; lia]). set (n := length s) in *.
  set (h := q * INR (n - 1)).
  assert (Hh : 0 <= h <= INR (n - 1)).
  { unfold h. pose proof (pos_INR (n - 1)). split; nra. }
  pose proof (floor_pos_nat h (proj1 Hh)) as Hf. set (lo := Z.to_nat (Int_part h)) in *.
  assert (Hlo : (lo <= n - 1)%nat).
  { apply INR_le. lra. }
  destruct (Nat.eq_dec lo (n - 1)) as [E|E].
  - apply interp_at_last; [fold n; lia| |exact Hb].
    rewrite E in *. lra.
  - apply interp_at_bounds; [fold n; lia|lra|exact Hb].
Qed.

Lemma quantile_list_bounds l q a b : l <> [] -> 0 <= q <= 1 ->
  (forall v, In v l -> a <= v <= b) -> a <= quantile_list l q <= b.
Proof.
  intros Hne Hq Hb. unfold quantile_list. apply quantile_sorted_bounds; [|exact Hq|].
  - intro E. apply (f_equal (@length R)) in E. rewrite rsort_length in E. destruct l; [congruence|discriminate].
  - intros v Hv. apply Hb. now apply rsort_In.
Qed.

Lemma quantile_list_shift l q c : l <> [] -> 0 <= q <= 1 ->
  quantile_list (map (fun v => v + c) l) q = quantile_list l q + c.
Proof.
  intros Hne Hq. unfold quantile_list, quantile_sorted. rewrite rsort_shift, map_length.
  set (s := rsort l).
  assert (Hn : (1 <= length s)%nat).
  { unfold s. rewrite rsort_length. destruct l; [congruence|simpl; lia]. }
  set (n := length s) in *.
  set (h := q * INR (n - 1)).
  assert (Hh : 0 <= h <= INR (n - 1)).
  { unfold h. pose proof (pos_INR (n - 1)). split; nra. }
  pose proof (floor_pos_nat h (proj1 Hh)) as Hf. set (lo := Z.to_nat (Int_part h)) in *.
  assert (Hlo : (lo <= n - 1)%nat) by (apply INR_le; lra).
  destruct (Nat.eq_dec lo (n - 1)) as [E|E].
  - unfold interp_at. assert (h = INR lo) by (rewrite E in *; lra).
    replace (h - INR lo) with 0 by lra. rewrite !Rmult_0_l, !Rplus_0_r.
    rewrite (nth_indep (map _ s) 0 (0 + c)) by (rewrite map_length; fold n; lia).
    now rewrite (map_nth (fun v => v + c)).
  - apply interp_at_shift. fold n. lia.
Qed.

(* scaling all distances by a > 0 shifts every MLE log-density by -d ln a, hence mu as well (equal d) *)
Lemma mle_scale lgam r d a : 0 < a -> 0 < r -> mle lgam (a * r) d = mle lgam r d + (- d * ln a).
Proof. intros Ha Hr. unfold mle. rewrite ln_mult by assumption. ring. Qed.

