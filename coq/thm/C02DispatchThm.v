(* C02: which predictor the estimators build, on which points, with which factor, and what it is told about
   the number of training cells.  Everything named c02_* is GENERATED (gen/C02Dispatch.v) from
   BaseEstimator._predictor_landmarks/_compute_Lp/_compute_L, the four _set_*_func setters, compute_Lp, compute_L,
   validate_compute_L_input, the three compute_conditional* dispatchers, compute_average_cell_count and the
   self.n_obs assignments of the three constructor bases.  The factorisation routines and the predictor
   constructors are NOT interpreted: [oracle name args] is an arbitrary function (Section variable), constructor
   calls are recorded with their normalised arguments (new_obj).  So "the factor handed to the predictor is the
   factor of the kernel matrix on the predictor's own inducing points" is literally: the value in the "L" slot of
   the recorded constructor call is the result of  _full_rank(<value in the "xu" slot>, cov_func, 0, jitter). *)
From Coq Require Import ZArith QArith List String Bool Lia.
From MellonV Require Import PyVal PyValExtC02 C02Dispatch.
Import ListNotations.
Open Scope Z_scope.
Open Scope string_scope.

Ltac inv_step H :=
  match type of H with
  | Err _ = Ok _ => discriminate H
  | Ok _ = Ok _ => injection H as H
  | bind (Ok _) _ = Ok _ => cbn [bind] in H
  | bind ?m _ = Ok _ => let E := fresh "E" in destruct m eqn:E; cbn [bind] in H; [|discriminate H]
  | (if ?b then _ else _) = Ok _ => let B := fresh "B" in destruct b eqn:B
  end.

(* typed views of the estimator's attributes *)
Definition xarr (n d : Z) (dat : list xf) : val := VArr KF [n; d] dat.
Definition lm_val (l : option (Z * Z * list xf)) : val :=
  match l with None => VNone | Some (m, d, dat) => VArr KF [m; d] dat end.
Definition is_nystroem (g : gpt) : bool := match g with FULL_NYSTROEM | SPARSE_NYSTROEM => true | _ => false end.
Definition is_full (g : gpt) : bool := match g with FULL | FULL_NYSTROEM => true | _ => false end.
Definition is_none (v : val) : bool := match v with VNone => true | _ => false end.

Lemma validate_L_input_shape n d xd cov g lm Lp rank sg jit t :
  c02_parameters_validate_compute_L_input (xarr n d xd) cov (VEnum g) (lm_val lm) Lp rank sg jit = Ok t ->
  exists nl ns r, t = VTuple [xarr n d xd; lm_val lm; nl; ns; VEnum g; r].
Proof.
  unfold c02_parameters_validate_compute_L_input, xarr.
  intros H.
  inv_step H. inv_step H.
  destruct lm as [[[m dd] ld]|]; destruct g; cbn in H.
  all: repeat inv_step H.
  all: try (subst; do 3 eexists; reflexivity).
Qed.

(* the three shapes of recorded predictor *)
Definition full_pred (cls : string) (p x y fac nobs : val) : Prop :=
  obj_class p = Some cls /\ obj_field p "x" = Some x /\ obj_field p "y" = Some y /\ obj_field p "L" = Some fac
  /\ obj_field p "n_obs" = None /\ c02_n_obs_FullConditional x = Ok nobs.
Definition chol_pred (cls : string) (p xu z fac nobs : val) : Prop :=
  obj_class p = Some cls /\ obj_field p "xu" = Some xu /\ obj_field p "pre_transformation" = Some z
  /\ obj_field p "L" = Some fac /\ obj_field p "n_obs" = Some nobs.
Definition dtc_pred (cls : string) (p x xu y nobs : val) : Prop :=
  obj_class p = Some cls /\ obj_field p "x" = Some x /\ obj_field p "xu" = Some xu /\ obj_field p "y" = Some y
  /\ obj_field p "n_obs" = None /\ c02_n_obs_LandmarksConditional x = Ok nobs.

Section Dispatch.
Variable oracle : string -> list val -> res val.

(* ------------------------------------------------------------------ Lp and L of the estimator *)
Lemma est_Lp_spec n d xd cov g jit lm :
  c02_base_model_BaseEstimator__compute_Lp oracle cov (VEnum g) jit (lm_val lm) (xarr n d xd)
  = if is_nystroem g then Ok VNone
    else oracle "_full_rank" [match g, lm with
                              | FULL, _ | _, None => xarr n d xd
                              | _, Some _ => lm_val lm end; cov; VInt 0; jit].
Proof.
  unfold c02_base_model_BaseEstimator__compute_Lp, c02_parameters_compute_Lp, xarr.
  destruct lm as [[[m dd] ld]|]; destruct g; cbn; try reflexivity;
    match goal with |- bind ?o _ = _ => destruct o; reflexivity end.
Qed.

Definition L_spec (x cov lm jit Lp : val) (g : gpt) (L : val) : Prop :=
  match g with
  | FULL => (Lp = VNone /\ oracle "_full_rank" [x; cov; VInt 0; jit] = Ok L) \/ (Lp <> VNone /\ L = Lp)
  | FULL_NYSTROEM => exists r, oracle "_full_decomposition_low_rank" [x; cov; r; VInt 0; jit] = Ok L
  | SPARSE_CHOLESKY | FIXED => oracle "_standard_low_rank" [x; cov; lm; Lp; VInt 0; jit] = Ok L
  | SPARSE_NYSTROEM => exists r, oracle "_modified_low_rank" [x; cov; lm; r; VInt 0; jit] = Ok L
  end.

Lemma compute_L_spec n d xd cov g lm Lp rank jit L :
  c02_parameters_compute_L oracle (xarr n d xd) cov (VEnum g) (lm_val lm) Lp rank (VInt 0) jit = Ok L ->
  L_spec (xarr n d xd) cov (lm_val lm) jit Lp g L.
Proof.
  unfold c02_parameters_compute_L. cbn [bind]. intros H.
  inv_step H.
  destruct (validate_L_input_shape _ _ _ _ _ _ _ _ _ _ _ E) as (nl & ns & r & ->).
  destruct g; simpl in H; unfold L_spec.
  - destruct Lp; try (right; split; [discriminate|congruence]). left. split; [reflexivity|exact H].
  - eexists; exact H.
  - destruct Lp; exact H.
  - eexists; exact H.
  - destruct Lp; exact H.
Qed.

Lemma est_L_spec n d xd cov g lm Lp rank chk jit L :
  c02_base_model_BaseEstimator__compute_L oracle Lp chk cov (VEnum g) jit (lm_val lm) rank (xarr n d xd) = Ok L ->
  L_spec (xarr n d xd) cov (lm_val lm) jit Lp g L.
Proof.
  unfold c02_base_model_BaseEstimator__compute_L. cbn [bind]. intros H.
  inv_step H. apply compute_L_spec in E.
  repeat inv_step H; subst; exact E.
Qed.

(* ------------------------------------------------------------------ the dispatchers *)
(* what compute_conditional* builds from (predictor landmarks, latent vector, landmark factor):
   no landmarks -> full family on x with the factor Lp (None = recompute);
   landmarks, a landmark factor and as many latent entries as landmarks -> Cholesky-latent family on the
   landmarks with that factor; otherwise the inducing-point (DTC) family *)
Definition dispatch_spec (cf cc cd : string) (ylink : val -> val -> Prop)
    (x lmp z y Lp : val) (pz : Z) (p : val) : Prop :=
  exists nobs, c02_n_obs_FullConditional x = Ok nobs /\
  match lmp with
  | VArr _ (m :: _) _ =>
      if negb (is_none Lp) && (pz =? m)%Z
      then chol_pred cc p lmp z Lp nobs
      else exists y', ylink y y' /\ dtc_pred cd p x lmp y' nobs
  | _ => exists y', ylink y y' /\ full_pred cf p x y' Lp nobs
  end.

(* the positive-valued flavour conditions on log(y) *)
Definition log_link (y y' : val) : Prop := oracle "log" [y] = Ok y'.

Lemma cond_is_not_none v : cond (bind2 py_is_not (Ok v) (Ok VNone)) = Ok (negb (is_none v)).
Proof. destruct v; reflexivity. Qed.
Lemma cond_is_none v : cond (bind2 py_is (Ok v) (Ok VNone)) = Ok (is_none v).
Proof. destruct v; reflexivity. Qed.

Ltac finish_pred :=
  lazymatch goal with
  | |- exists _, _ => eexists; split; [first [reflexivity|eassumption]|]
  | _ => idtac
  end; repeat split; reflexivity.

Ltac dispatch_proof D nn lm Lp :=
  intros H; exists (VInt nn); split; [reflexivity|];
  unfold D, xarr, lm_val, log_link in *;
  rewrite ?cond_is_not_none, ?cond_is_none in H;
  destruct lm as [[[m dd] ld]|];
  [ destruct (is_none Lp) eqn:EL; cbn in H |- *;
    [ | match goal with |- context [Z.eqb ?a ?b] => destruct (Z.eqb a b) eqn:Epm end; cbn in H |- * ];
    repeat inv_step H; subst; finish_pred
  | cbn in H |- *; repeat inv_step H; subst; finish_pred ].

Lemma compute_conditional_spec n d xd lm pz zd zstd y mu cov L Lp jit wu p :
  c02_inference_compute_conditional oracle (xarr n d xd) (lm_val lm) (VArr KF [pz] zd) zstd y mu cov L Lp VNone jit
    (VBool true) (VBool wu) = Ok p ->
  dispatch_spec "FullConditional" "LandmarksConditionalCholesky" "LandmarksConditional" eq
    (xarr n d xd) (lm_val lm) (VArr KF [pz] zd) y Lp pz p.
Proof. dispatch_proof c02_inference_compute_conditional n lm Lp. Qed.

Lemma compute_conditional_times_spec n d xd lm pz zd zstd y mu cov L Lp jit wu p :
  c02_inference_compute_conditional_times oracle (xarr n d xd) (lm_val lm) (VArr KF [pz] zd) zstd y mu cov L Lp VNone jit
    (VBool true) (VBool wu) = Ok p ->
  dispatch_spec "FullConditionalTime" "LandmarksConditionalCholeskyTime" "LandmarksConditionalTime" eq
    (xarr n d xd) (lm_val lm) (VArr KF [pz] zd) y Lp pz p.
Proof. dispatch_proof c02_inference_compute_conditional_times n lm Lp. Qed.

Lemma compute_conditional_explog_spec n d xd lm pz zd zstd y mu cov L Lp jit wu p :
  c02_inference_compute_conditional_explog oracle (xarr n d xd) (lm_val lm) (VArr KF [pz] zd) zstd y mu cov L Lp VNone jit
    (VBool true) (VBool wu) = Ok p ->
  dispatch_spec "ExpFullConditional" "ExpLandmarksConditionalCholesky" "ExpLandmarksConditional" log_link
    (xarr n d xd) (lm_val lm) (VArr KF [pz] zd) y Lp pz p.
Proof. dispatch_proof c02_inference_compute_conditional_explog n lm Lp. Qed.

(* ------------------------------------------------------------------ the estimators *)
(* what a fitted estimator of resolved type g with inducing points lm must hand to its predictor.
   x, cov, jit: training cells, kernel, jitter; Lp, L: the estimator's landmark factor and latent factor;
   z: latent vector (pz entries); y: fitted values; p: the recorded predictor *)
Definition predictor_consistent (cf cc cd : string) (ylink : val -> val -> Prop)
    (x : val) (lm : option (Z * Z * list xf)) (cov jit : val) (g : gpt) (y z : val) (pz : Z) (Lp L p nobs : val) : Prop :=
  match g, lm with
  | FULL, _ =>
      (* full GP on the cells, factor of K(x,x): the predictor and the latent model share it *)
      oracle "_full_rank" [x; cov; VInt 0; jit] = Ok Lp /\ L = Lp
      /\ exists y', ylink y y' /\ full_pred cf p x y' Lp nobs
  | FULL_NYSTROEM, _ =>
      Lp = VNone /\ (exists r, oracle "_full_decomposition_low_rank" [x; cov; r; VInt 0; jit] = Ok L)
      /\ exists y', ylink y y' /\ full_pred cf p x y' VNone nobs
  | SPARSE_NYSTROEM, Some _ =>
      Lp = VNone /\ (exists r, oracle "_modified_low_rank" [x; cov; lm_val lm; r; VInt 0; jit] = Ok L)
      /\ exists y', ylink y y' /\ dtc_pred cd p x (lm_val lm) y' nobs
  | (SPARSE_CHOLESKY | FIXED), Some (m, _, _) =>
      oracle "_full_rank" [lm_val lm; cov; VInt 0; jit] = Ok Lp
      /\ oracle "_standard_low_rank" [x; cov; lm_val lm; Lp; VInt 0; jit] = Ok L
      /\ (if negb (is_none Lp) && (pz =? m)%Z
          then chol_pred cc p (lm_val lm) z Lp nobs
          else exists y', ylink y y' /\ dtc_pred cd p x (lm_val lm) y' nobs)
  | _, None =>
      (* a sparse type without inducing points is refused by validate_params (C15); the model builds a full predictor *)
      exists y', ylink y y' /\ full_pred cf p x y' Lp nobs
  end.

Lemma consistent_from_parts cf cc cd ylink n d xd lm cov jit g y pz zd Lp L p rank chk :
  c02_base_model_BaseEstimator__compute_Lp oracle cov (VEnum g) jit (lm_val lm) (xarr n d xd) = Ok Lp ->
  c02_base_model_BaseEstimator__compute_L oracle Lp chk cov (VEnum g) jit (lm_val lm) rank (xarr n d xd) = Ok L ->
  dispatch_spec cf cc cd ylink (xarr n d xd) (if is_full g then VNone else lm_val lm) (VArr KF [pz] zd) y Lp pz p ->
  predictor_consistent cf cc cd ylink (xarr n d xd) lm cov jit g y (VArr KF [pz] zd) pz Lp L p (VInt n).
Proof.
  rewrite est_Lp_spec. intros HLp HL HD. apply est_L_spec in HL.
  destruct HD as (nobs & Hn & HD). injection Hn as <-.
  unfold predictor_consistent, L_spec in *.
  destruct g; cbn [is_nystroem is_full] in *.
  - split; [exact HLp|]. split; [|exact HD].
    destruct HL as [[-> HL]|[_ HL]]; [congruence|exact HL].
  - injection HLp as <-. split; [reflexivity|]. split; [exact HL|exact HD].
  - destruct lm as [[[m dd] ld]|]; [|exact HD].
    split; [exact HLp|]. split; [exact HL|exact HD].
  - injection HLp as <-. destruct lm as [[[m dd] ld]|]; [|exact HD].
    split; [reflexivity|]. split; [exact HL|]. exact HD.
  - destruct lm as [[[m dd] ld]|]; [|exact HD].
    split; [exact HLp|]. split; [exact HL|exact HD].
Qed.

Lemma predictor_landmarks_spec g lm :
  c02_base_model_BaseEstimator__predictor_landmarks (VEnum g) (lm_val lm) = Ok (if is_full g then VNone else lm_val lm).
Proof. destruct g; reflexivity. Qed.

(* DensityEstimator._set_log_density_func *)
Theorem density_predictor_consistent n d xd lm cov jit g y mu pz zd zstd wu Lp L p rank chk :
  c02_base_model_BaseEstimator__compute_Lp oracle cov (VEnum g) jit (lm_val lm) (xarr n d xd) = Ok Lp ->
  c02_base_model_BaseEstimator__compute_L oracle Lp chk cov (VEnum g) jit (lm_val lm) rank (xarr n d xd) = Ok L ->
  c02_density_estimator_DensityEstimator__set_log_density_func oracle L Lp cov (VEnum g) jit (lm_val lm) y mu
    (VArr KF [pz] zd) zstd (VBool wu) (xarr n d xd) = Ok p ->
  predictor_consistent "FullConditional" "LandmarksConditionalCholesky" "LandmarksConditional" eq
    (xarr n d xd) lm cov jit g y (VArr KF [pz] zd) pz Lp L p (VInt n).
Proof.
  intros HLp HL H. apply (consistent_from_parts _ _ _ _ _ _ _ _ _ _ _ _ _ _ _ _ _ rank chk HLp HL).
  unfold c02_density_estimator_DensityEstimator__set_log_density_func in H.
  cbn [bind bind2] in H. rewrite predictor_landmarks_spec in H. cbn [bind] in H.
  inv_step H. injection H as <-.
  destruct g; cbn [is_full] in *;
    first [ apply (compute_conditional_spec n d xd None) in E; exact E
          | apply (compute_conditional_spec n d xd lm) in E; exact E ].
Qed.

(* DimensionalityEstimator._set_local_dim_func (row 0 of the latent pair) and ._set_log_density_func (row 1) *)
Definition zrow (pz : Z) (zd : list xf) (i : Z) : val :=
  VArr KF [pz] (map (fun j => nthZ zd (i * pz + j) XNaN) (range_from 0 1 (Z.to_nat pz))).

Theorem local_dim_predictor_consistent n d xd lm cov jit g y mu pz zd zstd wu Lp L p rank chk :
  c02_base_model_BaseEstimator__compute_Lp oracle cov (VEnum g) jit (lm_val lm) (xarr n d xd) = Ok Lp ->
  c02_base_model_BaseEstimator__compute_L oracle Lp chk cov (VEnum g) jit (lm_val lm) rank (xarr n d xd) = Ok L ->
  c02_dimensionality_estimator_DimensionalityEstimator__set_local_dim_func oracle L Lp cov (VEnum g) jit (lm_val lm) y mu
    (VArr KF [2; pz] zd) zstd (VBool wu) (xarr n d xd) = Ok p ->
  predictor_consistent "ExpFullConditional" "ExpLandmarksConditionalCholesky" "ExpLandmarksConditional" log_link
    (xarr n d xd) lm cov jit g y (zrow pz zd 0) pz Lp L p (VInt n).
Proof.
  intros HLp HL H. apply (consistent_from_parts _ _ _ _ _ _ _ _ _ _ _ _ _ _ _ _ _ rank chk HLp HL).
  unfold c02_dimensionality_estimator_DimensionalityEstimator__set_local_dim_func in H.
  cbn [bind bind2] in H. rewrite predictor_landmarks_spec in H. cbn [bind] in H.
  change (np_row (VArr KF [2; pz] zd) (VInt 0)) with (Ok (zrow pz zd 0)) in H. cbn [bind] in H.
  repeat inv_step H; subst;
  destruct g; cbn [is_full] in *;
    first [ apply (compute_conditional_explog_spec n d xd None) in E; exact E
          | apply (compute_conditional_explog_spec n d xd lm) in E; exact E
          | apply (compute_conditional_explog_spec n d xd None) in E0; exact E0
          | apply (compute_conditional_explog_spec n d xd lm) in E0; exact E0
          | apply (compute_conditional_explog_spec n d xd None) in E1; exact E1
          | apply (compute_conditional_explog_spec n d xd lm) in E1; exact E1 ].
Qed.

Theorem dim_density_predictor_consistent n d xd lm cov jit g y mu pz zd zstd wu Lp L p rank chk :
  c02_base_model_BaseEstimator__compute_Lp oracle cov (VEnum g) jit (lm_val lm) (xarr n d xd) = Ok Lp ->
  c02_base_model_BaseEstimator__compute_L oracle Lp chk cov (VEnum g) jit (lm_val lm) rank (xarr n d xd) = Ok L ->
  c02_dimensionality_estimator_DimensionalityEstimator__set_log_density_func oracle L Lp cov (VEnum g) jit (lm_val lm) y mu
    (VArr KF [2; pz] zd) zstd (VBool wu) (xarr n d xd) = Ok p ->
  predictor_consistent "FullConditional" "LandmarksConditionalCholesky" "LandmarksConditional" eq
    (xarr n d xd) lm cov jit g y (zrow pz zd 1) pz Lp L p (VInt n).
Proof.
  intros HLp HL H. apply (consistent_from_parts _ _ _ _ _ _ _ _ _ _ _ _ _ _ _ _ _ rank chk HLp HL).
  unfold c02_dimensionality_estimator_DimensionalityEstimator__set_log_density_func in H.
  cbn [bind bind2] in H. rewrite predictor_landmarks_spec in H. cbn [bind] in H.
  change (np_row (VArr KF [2; pz] zd) (VInt 1)) with (Ok (zrow pz zd 1)) in H. cbn [bind] in H.
  repeat inv_step H; subst;
  destruct g; cbn [is_full] in *;
    first [ apply (compute_conditional_spec n d xd None) in E; exact E
          | apply (compute_conditional_spec n d xd lm) in E; exact E
          | apply (compute_conditional_spec n d xd None) in E0; exact E0
          | apply (compute_conditional_spec n d xd lm) in E0; exact E0
          | apply (compute_conditional_spec n d xd None) in E1; exact E1
          | apply (compute_conditional_spec n d xd lm) in E1; exact E1 ].
Qed.

(* TimeSensitiveDensityEstimator._set_log_density_func: the dispatched predictor, then n_obs is overwritten with
   compute_average_cell_count(x, normalize_per_time_point) *)
Theorem time_predictor_consistent n d xd lm cov jit g y mu pz zd zstd wu Lp L p rank chk nrm :
  c02_base_model_BaseEstimator__compute_Lp oracle cov (VEnum g) jit (lm_val lm) (xarr n d xd) = Ok Lp ->
  c02_base_model_BaseEstimator__compute_L oracle Lp chk cov (VEnum g) jit (lm_val lm) rank (xarr n d xd) = Ok L ->
  c02_time_sensitive_density_estimator_TimeSensitiveDensityEstimator__set_log_density_func oracle L Lp cov (VEnum g) jit
    (lm_val lm) y mu nrm (VArr KF [pz] zd) zstd (VBool wu) (xarr n d xd) = Ok p ->
  exists p0 avg,
    predictor_consistent "FullConditionalTime" "LandmarksConditionalCholeskyTime" "LandmarksConditionalTime" eq
      (xarr n d xd) lm cov jit g y (VArr KF [pz] zd) pz Lp L p0 (VInt n)
    /\ c02_parameters_compute_average_cell_count (xarr n d xd) nrm = Ok avg
    /\ obj_setattr p0 "n_obs" avg = Ok p.
Proof.
  intros HLp HL H.
  unfold c02_time_sensitive_density_estimator_TimeSensitiveDensityEstimator__set_log_density_func in H.
  cbn [bind bind2] in H. rewrite predictor_landmarks_spec in H. cbn [bind] in H.
  inv_step H. inv_step H. inv_step H. injection H as <-.
  exists a, a0. split; [|split; [reflexivity|assumption]].
  apply (consistent_from_parts _ _ _ _ _ _ _ _ _ _ _ _ _ _ _ _ _ rank chk HLp HL).
  destruct g; cbn [is_full] in *;
    first [ apply (compute_conditional_times_spec n d xd None) in E; exact E
          | apply (compute_conditional_times_spec n d xd lm) in E; exact E ].
Qed.

(* ------------------------------------------------------------------ the property clause *)
(* dispatch_matches_factor: whenever the Cholesky-latent family is built, the resolved type is sparse_cholesky or
   fixed, the predictor's inducing points are the estimator's landmarks, the latent vector has one entry per
   landmark, the factor handed to the predictor (slot "L") is  _full_rank(<those landmarks>, cov, 0, jitter), and it
   is the very factor with which the latent factor  L = _standard_low_rank(x, cov, <those landmarks>, Lp = it)
   was computed - the hypotheses of C02_chol_insample_exact.
   Historical witnesses (both FALSE on the pinned tree, repaired by two fix commits):
     * 8a478b7: DensityEstimator(landmarks=<40 arbitrary points>).fit(<40 cells>): type FULL, yet the predictor was
       LandmarksConditionalCholesky(xu = landmarks, L = _full_rank(x ...)): here the FULL case of
       predictor_consistent (predictor on x) fails - reverting _predictor_landmarks breaks density_predictor_consistent;
     * 4ef1c81: sparse_nystroem, 5 tight clusters on 5 landmarks, rank = 0.99 so that all 5 directions are retained:
       LandmarksConditionalCholesky(xu = landmarks, L = None): the SPARSE_NYSTROEM case (DTC predictor whatever pz)
       fails - dropping `Lp is not None` from the dispatchers breaks compute_conditional*_spec. *)
Theorem dispatch_matches_factor cf cc cd ylink x lm cov jit g y z pz Lp L p nobs :
  cf <> cc -> cd <> cc ->
  predictor_consistent cf cc cd ylink x lm cov jit g y z pz Lp L p nobs ->
  obj_class p = Some cc ->
  exists m dd ld, lm = Some (m, dd, ld) /\ (g = SPARSE_CHOLESKY \/ g = FIXED) /\ pz = m /\ Lp <> VNone
    /\ chol_pred cc p (lm_val lm) z Lp nobs
    /\ oracle "_full_rank" [lm_val lm; cov; VInt 0; jit] = Ok Lp
    /\ oracle "_standard_low_rank" [x; cov; lm_val lm; Lp; VInt 0; jit] = Ok L.
Proof.
  intros Hfc Hdc H Hc. unfold predictor_consistent in H.
  assert (Hfull : forall y' fac, full_pred cf p x y' fac nobs -> False).
  { intros y' fac (Hc' & _). rewrite Hc in Hc'. injection Hc' as Hc'. congruence. }
  assert (Hdtc : forall xu y', dtc_pred cd p x xu y' nobs -> False).
  { intros xu y' (Hc' & _). rewrite Hc in Hc'. injection Hc' as Hc'. congruence. }
  destruct g.
  - destruct H as (_ & _ & y' & _ & Hp). destruct (Hfull _ _ Hp).
  - destruct H as (_ & _ & y' & _ & Hp). destruct (Hfull _ _ Hp).
  - destruct lm as [[[m dd] ld]|]; [|destruct H as (y' & _ & Hp); destruct (Hfull _ _ Hp)].
    destruct H as (H1 & H2 & H3).
    destruct (is_none Lp) eqn:EL; cbn [negb andb] in H3; [destruct H3 as (y' & _ & Hp); destruct (Hdtc _ _ Hp)|].
    destruct (Z.eqb_spec pz m) as [->|]; [|destruct H3 as (y' & _ & Hp); destruct (Hdtc _ _ Hp)].
    exists m, dd, ld. split; [reflexivity|]. split; [auto|]. split; [reflexivity|]. split; [intros ->; discriminate|].
    split; [exact H3|]. split; assumption.
  - destruct lm as [[[m dd] ld]|]; [|destruct H as (y' & _ & Hp); destruct (Hfull _ _ Hp)].
    destruct H as (_ & _ & y' & _ & Hp). destruct (Hdtc _ _ Hp).
  - destruct lm as [[[m dd] ld]|]; [|destruct H as (y' & _ & Hp); destruct (Hfull _ _ Hp)].
    destruct H as (H1 & H2 & H3).
    destruct (is_none Lp) eqn:EL; cbn [negb andb] in H3; [destruct H3 as (y' & _ & Hp); destruct (Hdtc _ _ Hp)|].
    destruct (Z.eqb_spec pz m) as [->|]; [|destruct H3 as (y' & _ & Hp); destruct (Hfull _ _ Hp) || destruct (Hdtc _ _ Hp)].
    exists m, dd, ld. split; [reflexivity|]. split; [auto|]. split; [reflexivity|]. split; [intros ->; discriminate|].
    split; [exact H3|]. split; assumption.
Qed.

(* which family an accepted type gets (ties to C15's family_of): sparse types have inducing points
   (validate_params, C15), sparse_cholesky / fixed get a landmark factor and one latent entry per landmark *)
Definition family_class (cf cc cd : string) (g : gpt) : string :=
  match g with FULL | FULL_NYSTROEM => cf | SPARSE_CHOLESKY | FIXED => cc | SPARSE_NYSTROEM => cd end.

Theorem family_for_type cf cc cd ylink x m dd ld cov jit g y z pz Lp L p nobs :
  predictor_consistent cf cc cd ylink x (Some (m, dd, ld)) cov jit g y z pz Lp L p nobs ->
  (g = SPARSE_CHOLESKY \/ g = FIXED -> Lp <> VNone /\ pz = m) ->
  obj_class p = Some (family_class cf cc cd g).
Proof.
  intros H Hs. unfold predictor_consistent in H. destruct g; cbn [family_class].
  - destruct H as (_ & _ & y' & _ & Hp & _). exact Hp.
  - destruct H as (_ & _ & y' & _ & Hp & _). exact Hp.
  - destruct (Hs (or_introl eq_refl)) as [HL ->]. destruct H as (_ & _ & H).
    rewrite Z.eqb_refl in H. destruct Lp; try congruence; exact (proj1 H).
  - destruct H as (_ & _ & y' & _ & Hp & _). exact Hp.
  - destruct (Hs (or_intror eq_refl)) as [HL ->]. destruct H as (_ & _ & H).
    rewrite Z.eqb_refl in H. destruct Lp; try congruence; exact (proj1 H).
Qed.

(* ------------------------------------------------------------------ n_obs *)
(* the number a recorded predictor reports as self.n_obs: an attribute stored after construction wins, otherwise
   what the constructor base stores (the generated c02_n_obs functions), read from the constructor argument it names *)
Definition lookup_class (c : string) : option (string * string) :=
  option_map snd (find (fun r => String.eqb (fst r) c) c02_class_table).

Definition predictor_n_obs (p : val) : res val :=
  match obj_class p with
  | None => Err AttributeError
  | Some c =>
    match lookup_class c with
    | Some (base, _) =>
        let arg (names : list string) := match names with [a] => obj_field p a | _ => None end in
        if String.eqb base "_FullConditional" then
          match obj_field p "n_obs", arg c02_n_obs_args_FullConditional with
          | Some v, _ => Ok v | None, Some a => c02_n_obs_FullConditional a | _, _ => Err AttributeError end
        else if String.eqb base "_LandmarksConditional" then
          match obj_field p "n_obs", arg c02_n_obs_args_LandmarksConditional with
          | Some v, _ => Ok v | None, Some a => c02_n_obs_LandmarksConditional a | _, _ => Err AttributeError end
        else if String.eqb base "_LandmarksConditionalCholesky" then
          match arg c02_n_obs_args_LandmarksConditionalCholesky with
          | Some a => c02_n_obs_LandmarksConditionalCholesky a | None => Err AttributeError end
        else Err AttributeError
    | None => Err AttributeError
    end
  end.


Lemma string_eqb_refl s : string_eqb s s = true.
Proof. induction s as [|c s IH]; cbn; [reflexivity|]. rewrite Ascii.eqb_refl. exact IH. Qed.

Lemma assoc_set_assoc k v l : assoc_lookup (VStr k) (set_assoc k v l) = Some v.
Proof.
  assert (R : scalar_eqb (VStr k) (VStr k) = true) by (unfold scalar_eqb; cbn; apply string_eqb_refl).
  induction l as [|[k' v'] l IH]; cbn [set_assoc assoc_lookup].
  - now rewrite R.
  - destruct (scalar_eqb (VStr k) k') eqn:E; cbn [assoc_lookup].
    + now rewrite R.
    + rewrite E. exact IH.
Qed.

Lemma obj_setattr_spec o a v o' : obj_setattr o a v = Ok o' ->
  obj_class o' = obj_class o /\ obj_field o' a = Some v.
Proof.
  unfold obj_setattr. destruct o; try discriminate. destruct l as [|[k c] l]; try discriminate.
  destruct k; try discriminate. destruct s as [|ch s]; try discriminate.
  repeat (destruct ch as [b0 b1 b2 b3 b4 b5 b6 b7]; destruct b0, b1, b2, b3, b4, b5, b6, b7; try discriminate;
          destruct s as [|ch s]; try discriminate).
  intros [= <-]. split; [reflexivity|]. cbn. apply assoc_set_assoc.
Qed.

(* n_obs_spec, estimators without a time axis: whatever type was resolved, the predictor reports the number of
   training cells (rows of x) *)
Theorem n_obs_spec cf cc cd ylink n d xd lm cov jit g y z pz Lp L p fl1 fl2 fl3 :
  lookup_class cf = Some ("_FullConditional", fl1) -> lookup_class cc = Some ("_LandmarksConditionalCholesky", fl2) ->
  lookup_class cd = Some ("_LandmarksConditional", fl3) ->
  predictor_consistent cf cc cd ylink (xarr n d xd) lm cov jit g y z pz Lp L p (VInt n) ->
  predictor_n_obs p = Ok (VInt n).
Proof.
  intros Hf Hc Hd H. unfold predictor_consistent in H.
  assert (Full : forall y' fac, full_pred cf p (xarr n d xd) y' fac (VInt n) -> predictor_n_obs p = Ok (VInt n)).
  { intros y' fac (H1 & H2 & _ & _ & H5 & H6). unfold predictor_n_obs. rewrite H1, Hf. cbn. rewrite H5, H2. exact H6. }
  assert (Dtc : forall xu y', dtc_pred cd p (xarr n d xd) xu y' (VInt n) -> predictor_n_obs p = Ok (VInt n)).
  { intros xu y' (H1 & H2 & _ & _ & H5 & H6). unfold predictor_n_obs. rewrite H1, Hd. cbn. rewrite H5, H2. exact H6. }
  assert (Chol : forall xu fac, chol_pred cc p xu z fac (VInt n) -> predictor_n_obs p = Ok (VInt n)).
  { intros xu fac (H1 & _ & _ & _ & H5). unfold predictor_n_obs. rewrite H1, Hc. cbn. rewrite H5. reflexivity. }
  destruct g.
  - destruct H as (_ & _ & y' & _ & Hp). eauto.
  - destruct H as (_ & _ & y' & _ & Hp). eauto.
  - destruct lm as [[[m dd] ld]|]; [|destruct H as (y' & _ & Hp); eauto].
    destruct H as (_ & _ & H). destruct (negb (is_none Lp) && (pz =? m)%Z); [eauto|destruct H as (y' & _ & Hp); eauto].
  - destruct lm as [[[m dd] ld]|]; [|destruct H as (y' & _ & Hp); eauto].
    destruct H as (_ & _ & y' & _ & Hp). eauto.
  - destruct lm as [[[m dd] ld]|]; [|destruct H as (y' & _ & Hp); eauto].
    destruct H as (_ & _ & H). destruct (negb (is_none Lp) && (pz =? m)%Z); [eauto|destruct H as (y' & _ & Hp); eauto].
Qed.

(* time-sensitive estimator: n_obs is the stored average cell count, whichever family was built *)
Theorem n_obs_spec_time cf cc cd ylink x lm cov jit g y z pz Lp L p0 nobs avg p fl1 fl2 fl3 :
  lookup_class cf = Some ("_FullConditional", fl1) -> lookup_class cc = Some ("_LandmarksConditionalCholesky", fl2) ->
  lookup_class cd = Some ("_LandmarksConditional", fl3) ->
  predictor_consistent cf cc cd ylink x lm cov jit g y z pz Lp L p0 nobs ->
  obj_setattr p0 "n_obs" avg = Ok p ->
  predictor_n_obs p = Ok avg.
Proof.
  intros Hf Hc Hd H Hs. destruct (obj_setattr_spec _ _ _ _ Hs) as [Hcl Hfield].
  assert (Hclass : obj_class p0 = Some cf \/ obj_class p0 = Some cc \/ obj_class p0 = Some cd).
  { unfold predictor_consistent in H.
    destruct g; try (destruct lm as [[[m dd] ld]|]);
      repeat match goal with
             | H : _ /\ _ |- _ => destruct H
             | H : exists _, _ |- _ => destruct H
             | H : (if ?b then _ else _) |- _ => destruct b
             end;
      match goal with
      | H : full_pred _ _ _ _ _ _ |- _ => left; exact (proj1 H)
      | H : chol_pred _ _ _ _ _ _ |- _ => right; left; exact (proj1 H)
      | H : dtc_pred _ _ _ _ _ _ |- _ => right; right; exact (proj1 H)
      end. }
  unfold predictor_n_obs. rewrite Hcl.
  destruct Hclass as [->|[->| ->]]; rewrite ?Hf, ?Hc, ?Hd; cbn; rewrite Hfield; reflexivity.
Qed.

End Dispatch.

(* ------------------------------------------------------------------ compute_average_cell_count *)
Definition last_col (n d : Z) (xd : list xf) : list xf :=
  map (fun i => nthZ xd (i * d + (d - 1)) XNaN) (range_from 0 1 (Z.to_nat n)).
(* number of distinct time points = distinct values of the last column *)
Definition n_times (n d : Z) (xd : list xf) : Z := Z.of_nat (List.length (sort_dedup (last_col n d xd))).

Lemma average_cell_count_default n d xd nrm : 1 <= d -> (nrm = VNone \/ exists b, nrm = VBool b) ->
  c02_parameters_compute_average_cell_count (xarr n d xd) nrm = py_truediv (VInt n) (VInt (n_times n d xd)).
Proof.
  intros Hd Hn. unfold c02_parameters_compute_average_cell_count, xarr, n_times, last_col.
  cbn [bind bind2 np_shape map py_getitem np_index1 as_num].
  cbn -[Z.add Z.mul Z.sub nthZ sort_dedup range_from Z.to_nat py_truediv].
  destruct (Z.ltb_spec (-1) 0); [|lia].
  replace (-1 + d) with (d - 1) by lia.
  destruct (Z.leb_spec 0 (d - 1)); [|lia]. destruct (Z.ltb_spec (d - 1) d); [|lia].
  cbn -[Z.add Z.mul Z.sub nthZ sort_dedup range_from Z.to_nat py_truediv].
  destruct Hn as [->|[b ->]]; reflexivity.
Qed.

(* a list / array of counts: their mean; a dict: sum of its values over the number of time points *)
Example average_cell_count_forms :
  let x := xarr 4 2 [XFin 0; XFin 0; XFin 1; XFin 0; XFin 2; XFin 1; XFin 3; XFin 1] in
  c02_parameters_compute_average_cell_count x (VBool true) = Ok (VFloat (XFin 2))
  /\ c02_parameters_compute_average_cell_count x VNone = Ok (VFloat (XFin 2))
  /\ c02_parameters_compute_average_cell_count x (VList [VInt 10; VInt 20]) = Ok (VFloat (XFin 15))
  /\ c02_parameters_compute_average_cell_count x (VDict [(VFloat (XFin 0), VInt 10); (VFloat (XFin 1), VInt 30)]) = Ok (VFloat (XFin 20))
  /\ c02_parameters_compute_average_cell_count x (VStr "x") = Err ValueError.
Proof. vm_compute. repeat split. Qed.

(* ------------------------------------------------------------------ structural tables *)
Fixpoint index_of (a : string) (l : list string) : option nat :=
  match l with [] => None | b :: r => if String.eqb a b then Some O else option_map S (index_of a r) end.
Definition before (a b : string) (l : list string) : bool :=
  match index_of a l, index_of b l with Some i, Some j => Nat.ltb i j | _, _ => false end.

(* landmarks are settled before Lp, Lp before L (so _compute_L sees the Lp the predictor will get), and the
   predictor setters run after the fitted values are stored *)
Lemma c02_order_tables :
  forallb (fun o => before "landmarks" "Lp" o && before "Lp" "L" o && before "gp_type" "landmarks" o && before "cov_func" "Lp" o)
    [c02_prepare_order_DensityEstimator; c02_prepare_order_TimeSensitiveDensityEstimator; c02_prepare_order_DimensionalityEstimator] = true
  /\ before "_set_log_density_x" "_set_log_density_func" c02_process_steps_DensityEstimator = true
  /\ before "_set_log_density_x" "_set_log_density_func" c02_process_steps_TimeSensitiveDensityEstimator = true
  /\ before "_set_local_dim_x" "_set_local_dim_func" c02_process_steps_DimensionalityEstimator = true
  /\ before "_set_local_dim_x" "_set_log_density_func" c02_process_steps_DimensionalityEstimator = true.
Proof. vm_compute. repeat split. Qed.

(* which `mean` the nine predictor classes inherit: density predictors can be normalised, the local-dimensionality
   predictor is the positive-valued flavour; constructor bases as used by n_obs_spec *)
Lemma c02_class_flavours :
  map lookup_class ["FullConditional"; "LandmarksConditionalCholesky"; "LandmarksConditional"]
    = [Some ("_FullConditional", "Predictor"); Some ("_LandmarksConditionalCholesky", "Predictor"); Some ("_LandmarksConditional", "Predictor")]
  /\ map lookup_class ["FullConditionalTime"; "LandmarksConditionalCholeskyTime"; "LandmarksConditionalTime"]
    = [Some ("_FullConditional", "PredictorTime"); Some ("_LandmarksConditionalCholesky", "PredictorTime"); Some ("_LandmarksConditional", "PredictorTime")]
  /\ map lookup_class ["ExpFullConditional"; "ExpLandmarksConditionalCholesky"; "ExpLandmarksConditional"]
    = [Some ("_FullConditional", "ExpPredictor"); Some ("_LandmarksConditionalCholesky", "ExpPredictor"); Some ("_LandmarksConditional", "ExpPredictor")].
Proof. vm_compute. repeat split. Qed.

(* ------------------------------------------------------------------ non-vacuity: a concrete run of the whole model *)
Definition rows_of (v : val) : Z := match v with VArr _ (r :: _) _ => r | _ => 0 end.
Definition ex_oracle (name : string) (args : list val) : res val :=
  match args with
  | pts :: _ => if String.eqb name "_full_rank" then Ok (VArr KF [rows_of pts; rows_of pts] [])
                else Ok (VArr KF [rows_of pts; 2] [])
  | [] => Ok VNone
  end.
Definition ex_x : val := xarr 3 2 [XFin 0; XFin 0; XFin 1; XFin 0; XFin 2; XFin 1].
Definition ex_lm : option (Z * Z * list xf) := Some (2, 2, [XFin 0; XFin 0; XFin 5; XFin 1]).
Definition ex_build (g : gpt) (lm : option (Z * Z * list xf)) (rank : Q) (pz : Z) : res val :=
  let cov := VObj "cov" 1 in let jit := VFloat (XFin (1 # 1000000)) in
  bind (c02_base_model_BaseEstimator__compute_Lp ex_oracle cov (VEnum g) jit (lm_val lm) ex_x) (fun Lp =>
  bind (c02_base_model_BaseEstimator__compute_L ex_oracle Lp VNone cov (VEnum g) jit (lm_val lm) (VFloat (XFin rank)) ex_x) (fun L =>
  bind (c02_density_estimator_DensityEstimator__set_log_density_func ex_oracle L Lp cov (VEnum g) jit (lm_val lm)
          (VArr KF [3] []) (VFloat (XFin 0)) (VArr KF [pz] []) VNone (VBool false) ex_x) (fun p =>
  bind (predictor_n_obs p) (fun nobs =>
  Ok (VTuple [match obj_class p with Some c => VStr c | None => VNone end; nobs]))))).

Example c02_model_runs :
  ex_build FULL None 1 3 = Ok (VTuple [VStr "FullConditional"; VInt 3])
  /\ ex_build FULL_NYSTROEM None (99 # 100) 2 = Ok (VTuple [VStr "FullConditional"; VInt 3])
  /\ ex_build SPARSE_CHOLESKY ex_lm 1 2 = Ok (VTuple [VStr "LandmarksConditionalCholesky"; VInt 3])
  /\ ex_build SPARSE_NYSTROEM ex_lm (99 # 100) 2 = Ok (VTuple [VStr "LandmarksConditional"; VInt 3])
  /\ ex_build SPARSE_NYSTROEM ex_lm (99 # 100) 1 = Ok (VTuple [VStr "LandmarksConditional"; VInt 3])
  /\ ex_build FIXED ex_lm 1 2 = Ok (VTuple [VStr "LandmarksConditionalCholesky"; VInt 3])
  /\ ex_build FIXED (Some (3, 2, [XFin 9; XFin 9; XFin 8; XFin 8; XFin 7; XFin 7])) 1 3
     = Ok (VTuple [VStr "LandmarksConditionalCholesky"; VInt 3]).
Proof. vm_compute. repeat split. Qed.
