(* C05: documented closed forms of the six generated profiles, their range and monotonicity *)
From Coq Require Import Reals List Lra Lia.
From Coquelicot Require Import Coquelicot.
From MellonV Require Import ALists ARealExtra AKernels.
Open Scope R_scope.

Lemma sqrt3_sq : sqrt 3 * sqrt 3 = 3. Proof. apply sqrt_sqrt; lra. Qed.
Lemma sqrt5_sq : sqrt 5 * sqrt 5 = 5. Proof. apply sqrt_sqrt; lra. Qed.
Lemma sqrt3_pow2 : sqrt 3 ^ 2 = 3. Proof. simpl. rewrite Rmult_1_r. apply sqrt3_sq. Qed.
Lemma sqrt5_pow2 : sqrt 5 ^ 2 = 5. Proof. simpl. rewrite Rmult_1_r. apply sqrt5_sq. Qed.
Lemma sqrt3_pos : 0 < sqrt 3. Proof. apply sqrt_lt_R0; lra. Qed.
Lemma sqrt5_pos : 0 < sqrt 5. Proof. apply sqrt_lt_R0; lra. Qed.

(* ---------------------------------------------------------------- documented closed forms *)
Lemma Matern32_k_documented ls d :
  Matern32_k ls d = (1 + sqrt 3 * d / ls) * exp (- (sqrt 3 * d / ls)).
Proof. unfold Matern32_k. f_equal. ring. Qed.

Lemma Matern52_k_documented ls d : ls <> 0 ->
  Matern52_k ls d = (1 + sqrt 5 * d / ls + 5 * d ^ 2 / (3 * ls ^ 2)) * exp (- (sqrt 5 * d / ls)).
Proof.
  intros H. unfold Matern52_k. f_equal.
  replace ((sqrt 5 * d / ls) ^ 2) with ((sqrt 5 * sqrt 5) * d ^ 2 / ls ^ 2) by (field; exact H).
  rewrite sqrt5_sq. field. exact H.
Qed.

Lemma ExpQuad_k_documented ls d : ls <> 0 ->
  ExpQuad_k ls d = exp (- (d ^ 2 / (2 * ls ^ 2))).
Proof. intros H. unfold ExpQuad_k. f_equal. field. exact H. Qed.

Lemma Exponential_k_documented ls d : ls <> 0 ->
  Exponential_k ls d = exp (- (d / (2 * ls))).
Proof. intros H. unfold Exponential_k. f_equal. field. exact H. Qed.

(* the code (and PyMC, whence it comes) uses the exponent -alpha; the docstring prints -alpha*l *)
Lemma RatQuad_k_documented alpha ls d : ls <> 0 -> alpha <> 0 ->
  RatQuad_k alpha ls d = Rpower (1 + d ^ 2 / (2 * alpha * ls ^ 2)) (- alpha).
Proof. intros H Ha. unfold RatQuad_k. f_equal. field. split; assumption. Qed.

Lemma Linear_k_documented ls dotxy : Linear_k ls dotxy = dotxy / ls.
Proof. reflexivity. Qed.

(* ---------------------------------------------------------------- stationary range *)
Lemma Matern32_at_0 ls : Matern32_k ls 0 = 1.
Proof. unfold Matern32_k. replace (sqrt 3 * 0 / ls) with 0 by (unfold Rdiv; ring). rewrite Ropp_0, exp_0. ring. Qed.
Lemma Matern52_at_0 ls : Matern52_k ls 0 = 1.
Proof. unfold Matern52_k. replace (sqrt 5 * 0 / ls) with 0 by (unfold Rdiv; ring). rewrite Ropp_0, exp_0. simpl. unfold Rdiv. ring. Qed.
Lemma ExpQuad_at_0 ls : ExpQuad_k ls 0 = 1.
Proof. unfold ExpQuad_k. replace (- (0 / ls) ^ 2 / 2) with 0 by (unfold Rdiv; simpl; ring). apply exp_0. Qed.
Lemma Exponential_at_0 ls : Exponential_k ls 0 = 1.
Proof. unfold Exponential_k. replace (- (0 / ls) / 2) with 0 by (unfold Rdiv; ring). apply exp_0. Qed.
Lemma RatQuad_at_0 alpha ls : RatQuad_k alpha ls 0 = 1.
Proof.
  unfold RatQuad_k. replace ((0 / ls) ^ 2 / (2 * alpha) + 1) with 1 by (unfold Rdiv; simpl; ring).
  unfold Rpower. rewrite ln_1, Rmult_0_r. apply exp_0.
Qed.

Lemma Matern32_pos ls d : 0 < ls -> 0 <= d -> 0 < Matern32_k ls d.
Proof.
  intros Hl Hd. unfold Matern32_k. apply Rmult_lt_0_compat; [|apply exp_pos].
  assert (0 <= sqrt 3 * d / ls).
  { apply Rmult_le_pos; [apply Rmult_le_pos; [apply Rlt_le, sqrt3_pos|exact Hd]|apply Rlt_le, Rinv_0_lt_compat, Hl]. }
  lra.
Qed.
Lemma Matern52_pos ls d : 0 < ls -> 0 <= d -> 0 < Matern52_k ls d.
Proof.
  intros Hl Hd. unfold Matern52_k. apply Rmult_lt_0_compat; [|apply exp_pos].
  assert (0 <= sqrt 5 * d / ls).
  { apply Rmult_le_pos; [apply Rmult_le_pos; [apply Rlt_le, sqrt5_pos|exact Hd]|apply Rlt_le, Rinv_0_lt_compat, Hl]. }
  assert (0 <= (sqrt 5 * d / ls) ^ 2) by apply pow2_ge_0. lra.
Qed.
Lemma ExpQuad_pos ls d : 0 < ExpQuad_k ls d. Proof. apply exp_pos. Qed.
Lemma Exponential_pos ls d : 0 < Exponential_k ls d. Proof. apply exp_pos. Qed.
Lemma RatQuad_pos alpha ls d : 0 < RatQuad_k alpha ls d. Proof. apply exp_pos. Qed.

(* ---------------------------------------------------------------- derivatives of the profiles (for monotonicity)
   Written by hand here, NOT the generated k_grad coefficients: C05 is about kernel values only and must
   not depend on the k_grad code (that dependence is C11). *)
Definition Matern32_dk (ls d : R) : R := - (sqrt 3 / ls) * d * (sqrt 3 / ls * 1) * exp (- (sqrt 3 / ls) * d).
Definition Matern52_dk (ls d : R) : R :=
  -1 / 3 * exp (- (sqrt 5 / ls * d)) * (sqrt 5 / ls * d) * (sqrt 5 / ls * d + 1) * (sqrt 5 / ls * 1).
Definition ExpQuad_dk (ls d : R) : R := - (d / ls) * (1 / ls) * exp (- (d / ls) ^ 2 / 2).
Definition Exponential_dk (ls d : R) : R := -1 / 2 * (1 / ls) * exp (- (d / ls) / 2).
Definition RatQuad_dk (alpha ls d : R) : R :=
  - (d / ls) * (1 / ls) * Rpower ((d / ls) ^ 2 / (2 * alpha) + 1) (- alpha - 1).

Lemma Matern32_dk_derive ls d : ls <> 0 -> is_derive (fun t => Matern32_k ls t) d (Matern32_dk ls d).
Proof.
  intros H. unfold Matern32_k, Matern32_dk. abstract_sqrt.
  auto_derive; [exact I|]. same_exp H. field. exact H.
Qed.
Lemma Matern52_dk_derive ls d : ls <> 0 -> is_derive (fun t => Matern52_k ls t) d (Matern52_dk ls d).
Proof.
  intros H. unfold Matern52_k, Matern52_dk. abstract_sqrt.
  auto_derive; [exact I|]. same_exp H. field. exact H.
Qed.
Lemma ExpQuad_dk_derive ls d : ls <> 0 -> is_derive (fun t => ExpQuad_k ls t) d (ExpQuad_dk ls d).
Proof.
  intros H. unfold ExpQuad_k, ExpQuad_dk.
  auto_derive; [exact I|]. unfold Rdiv. same_exp H. field. exact H.
Qed.
Lemma Exponential_dk_derive ls d : ls <> 0 -> is_derive (fun t => Exponential_k ls t) d (Exponential_dk ls d).
Proof.
  intros H. unfold Exponential_k, Exponential_dk.
  auto_derive; [exact I|]. unfold Rdiv. same_exp H. field. exact H.
Qed.
Lemma RatQuad_dk_derive alpha ls d : ls <> 0 -> 0 < alpha ->
  is_derive (fun t => RatQuad_k alpha ls t) d (RatQuad_dk alpha ls d).
Proof.
  intros H Ha. unfold RatQuad_k, RatQuad_dk.
  pose proof (RatQuad_base_pos alpha ls d Ha) as Hb.
  rewrite (Rpower_pred _ (- alpha)) by exact Hb.
  unfold Rpower.
  auto_derive.
  - replace (d * / ls * (d * / ls * 1) * / (2 * alpha) + 1) with ((d / ls) ^ 2 / (2 * alpha) + 1) by (field; split; [lra|exact H]). exact Hb.
  - replace (d * / ls * (d * / ls * 1) * / (2 * alpha) + 1) with ((d / ls) ^ 2 / (2 * alpha) + 1) by (field; split; [lra|exact H]).
    generalize (exp (- alpha * ln ((d / ls) ^ 2 / (2 * alpha) + 1))); intro E.
    assert (d ^ 2 + ls ^ 2 * (2 * alpha) <> 0).
    { assert (0 <= d ^ 2) by apply pow2_ge_0. assert (0 < ls ^ 2) by (apply pow2_gt_0; exact H). nra. }
    field. repeat split; [exact H|lra|assumption].
Qed.

(* sign of the derivative on [0, oo) *)
Lemma Matern32_coeff_nonpos ls d : 0 < ls -> 0 <= d -> Matern32_dk ls d <= 0.
Proof.
  intros Hl Hd. unfold Matern32_dk.
  pose proof (exp_pos (- (sqrt 3 / ls) * d)) as He.
  assert (0 < sqrt 3 / ls) by (apply Rdiv_lt_0_compat; [apply sqrt3_pos|exact Hl]).
  set (s := sqrt 3 / ls) in *. set (E := exp (- s * d)) in *.
  assert (0 <= s * d * (s * 1)) by (apply Rmult_le_pos; nra). nra.
Qed.
Lemma Matern52_coeff_nonpos ls d : 0 < ls -> 0 <= d -> Matern52_dk ls d <= 0.
Proof.
  intros Hl Hd. unfold Matern52_dk.
  assert (0 < sqrt 5 / ls) by (apply Rdiv_lt_0_compat; [apply sqrt5_pos|exact Hl]).
  set (s := sqrt 5 / ls) in *. pose proof (exp_pos (- (s * d))) as He. set (E := exp (- (s * d))) in *.
  assert (0 <= s * d) by nra.
  assert (0 <= E * (s * d) * (s * d + 1) * (s * 1)).
  { clearbody E s. repeat apply Rmult_le_pos; lra. }
  lra.
Qed.
Lemma ExpQuad_coeff_nonpos ls d : 0 < ls -> 0 <= d -> ExpQuad_dk ls d <= 0.
Proof.
  intros Hl Hd. unfold ExpQuad_dk.
  pose proof (exp_pos (- (d / ls) ^ 2 / 2)) as He. set (E := exp _) in *.
  assert (0 < / ls) by (apply Rinv_0_lt_compat, Hl).
  assert (0 <= d / ls * (1 / ls) * E).
  { unfold Rdiv. repeat apply Rmult_le_pos; lra. }
  lra.
Qed.
Lemma Exponential_coeff_nonpos ls d : 0 < ls -> Exponential_dk ls d <= 0.
Proof.
  intros Hl. unfold Exponential_dk.
  pose proof (exp_pos (- (d / ls) / 2)) as He. set (E := exp _) in *.
  assert (0 < / ls) by (apply Rinv_0_lt_compat, Hl).
  assert (0 <= 1 / ls * E). { unfold Rdiv. repeat apply Rmult_le_pos; lra. }
  lra.
Qed.
Lemma RatQuad_coeff_nonpos alpha ls d : 0 < ls -> 0 <= d -> RatQuad_dk alpha ls d <= 0.
Proof.
  intros Hl Hd. unfold RatQuad_dk.
  assert (0 < Rpower ((d / ls) ^ 2 / (2 * alpha) + 1) (- alpha - 1)) as He by apply exp_pos.
  set (E := Rpower _ _) in *.
  assert (0 < / ls) by (apply Rinv_0_lt_compat, Hl).
  assert (0 <= d / ls * (1 / ls) * E).
  { unfold Rdiv. repeat apply Rmult_le_pos; lra. }
  lra.
Qed.

(* decreasing on [0, oo) *)
Lemma Matern32_decreasing ls d1 d2 : 0 < ls -> 0 <= d1 <= d2 -> Matern32_k ls d2 <= Matern32_k ls d1.
Proof.
  intros Hl H. apply (decr_from_derive (Matern32_k ls) (Matern32_dk ls)); [lra| |].
  - intros x _. apply Matern32_dk_derive. lra.
  - intros x Hx. apply Matern32_coeff_nonpos; lra.
Qed.
Lemma Matern52_decreasing ls d1 d2 : 0 < ls -> 0 <= d1 <= d2 -> Matern52_k ls d2 <= Matern52_k ls d1.
Proof.
  intros Hl H. apply (decr_from_derive (Matern52_k ls) (Matern52_dk ls)); [lra| |].
  - intros x _. apply Matern52_dk_derive. lra.
  - intros x Hx. apply Matern52_coeff_nonpos; lra.
Qed.
Lemma ExpQuad_decreasing ls d1 d2 : 0 < ls -> 0 <= d1 <= d2 -> ExpQuad_k ls d2 <= ExpQuad_k ls d1.
Proof.
  intros Hl H. apply (decr_from_derive (ExpQuad_k ls) (ExpQuad_dk ls)); [lra| |].
  - intros x _. apply ExpQuad_dk_derive. lra.
  - intros x Hx. apply ExpQuad_coeff_nonpos; lra.
Qed.
Lemma Exponential_decreasing ls d1 d2 : 0 < ls -> 0 <= d1 <= d2 -> Exponential_k ls d2 <= Exponential_k ls d1.
Proof.
  intros Hl H. apply (decr_from_derive (Exponential_k ls) (Exponential_dk ls)); [lra| |].
  - intros x _. apply Exponential_dk_derive. lra.
  - intros x Hx. apply Exponential_coeff_nonpos; lra.
Qed.
Lemma RatQuad_decreasing alpha ls d1 d2 : 0 < ls -> 0 < alpha -> 0 <= d1 <= d2 ->
  RatQuad_k alpha ls d2 <= RatQuad_k alpha ls d1.
Proof.
  intros Hl Ha H. apply (decr_from_derive (RatQuad_k alpha ls) (RatQuad_dk alpha ls)); [lra| |].
  - intros x _. apply RatQuad_dk_derive; lra.
  - intros x Hx. apply RatQuad_coeff_nonpos; lra.
Qed.
