(* Tactics and rewriting facts used by the generated correspondence goals (cases files):
   reduce a closed model application to real arithmetic, then enclose it with Interval. *)
From Coq Require Import Reals List ZArith Lra.
From Interval Require Import Tactic.
From MellonV Require Import ALists AKernels AKExpr.
Open Scope R_scope.

(* Coq's sqrt is 0 on negative arguments, so the clamp is absorbed *)
Lemma sqrt_Rmax0 s : sqrt (Rmax s 0) = sqrt s.
Proof.
  unfold Rmax. destruct (Rle_dec s 0) as [H|H]; [|reflexivity].
  rewrite sqrt_0. symmetry. destruct (Rle_lt_or_eq_dec _ _ H) as [Hl|He].
  - apply sqrt_neg_0. lra.
  - rewrite He. apply sqrt_0.
Qed.

Ltac kreduce :=
  cbv -[Rplus Rminus Rmult Rdiv Ropp Rinv sqrt exp ln Rmax Rmin Rabs Rpower pow powerRZ IZR PI Rle Rlt Rge Rgt INR];
  rewrite ?sqrt_Rmax0.

Ltac kcase := kreduce; interval with (i_prec 80).
