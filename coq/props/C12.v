(* C12 - Derivative methods return true derivatives of what the predictor returns.
   Property theorems only (proofs: thm/DerivThm.v).  The wiring tables (which callable each of
   gradient / hessian / hessian_log_determinant / time_derivative differentiates, with respect to which
   argument, what is held fixed, the post-processing, the autodiff operator, vmap axes and reshape rule of
   mellon/derivatives.py, the tail of `mean`, what `__call__` is bound to, the affine form of `_mean`) are
   regenerated from the AST of /repo on every run (gen/C12Wiring.v); semantics: lib/DerivSem.v.
   [umean] is `_mean` on one prepared row; [P c args] is the value obtained by CALLING a predictor of base
   class c; [mval c m args] is what method m returns for that row.  Drev / Dfwd / slogdet are jax.jacrev,
   jax.jacfwd, jax.numpy.linalg.slogdet: Section variables, constrained only where a contract is stated. *)
From Coq Require Import Reals List ZArith.
From Coquelicot Require Import Coquelicot.
From MellonV Require Import ALists AKernels AKExpr DerivSem C12Wiring DerivThm.
Import ListNotations.
Open Scope R_scope.

Section C12.
  Variable umean : list R -> R.
  Variable logn : R.
  Variable Drev : (list R -> R) -> list R -> list R.
  Variable Dfwd : (list R -> list R) -> list R -> list (list R).
  Variable slogdet : list (list R) -> R * R.
  Notation P := (P umean logn).
  Notation mval := (mval umean logn Drev Dfwd slogdet).

  (* calling a predictor: _mean, exp(_mean), _mean on the merged row (both time forms) *)
  Theorem C12_call_values :
    (forall x, P CPredictor [x] = umean x)
    /\ (forall x, P CExpPredictor [x] = exp (umean x))
    /\ (forall s t, P CPredictorTime [s; [t]] = umean (s ++ [t]))
    /\ (forall xt, P CPredictorTime [xt] = umean xt).
  Proof. exact (predict_values umean logn). Qed.

  (* every class differentiates exactly the function obtained by calling the predictor,
     w.r.t. the state coordinates, time held fixed *)
  Theorem C12_gradient_of_call :
    (forall x, mval CPredictor MGradient [x] = Some (VVec (Drev (fun a => P CPredictor [a]) x)))
    /\ (forall x, mval CExpPredictor MGradient [x] = Some (VVec (Drev (fun a => P CExpPredictor [a]) x)))
    /\ (forall s t, mval CPredictorTime MGradient [s; [t]]
                    = Some (VVec (Drev (fun a => P CPredictorTime [a; [t]]) s))).
  Proof. exact (gradient_of_call umean logn Drev Dfwd slogdet). Qed.

  Theorem C12_time_derivative_is_last_component : forall s t,
    mval CPredictorTime MTimeDerivative [s; [t]]
    = Some (VScal (last (Drev (fun a => P CPredictorTime [a]) (s ++ [t])) 0)).
  Proof. exact (time_derivative_is_last_component umean logn Drev Dfwd slogdet). Qed.

  Theorem C12_hessian_of_call :
    (forall x, mval CPredictor MHessian [x] = Some (VMat (Dfwd (Drev (fun a => P CPredictor [a])) x)))
    /\ (forall x, mval CExpPredictor MHessian [x] = Some (VMat (Dfwd (Drev (fun a => P CExpPredictor [a])) x)))
    /\ (forall s t, mval CPredictorTime MHessian [s; [t]]
                    = Some (VMat (Dfwd (Drev (fun a => P CPredictorTime [a; [t]])) s))).
  Proof. exact (hessian_of_call umean logn Drev Dfwd slogdet). Qed.

  Theorem C12_slogdet_of_same_hessian : forall c uargs H,
    mval c MHessian uargs = Some (VMat H) ->
    mval c MHessLogDet uargs = Some (VPair (fst (slogdet H)) (snd (slogdet H))).
  Proof. exact (slogdet_of_same_hessian umean logn Drev Dfwd slogdet). Qed.

  Theorem C12_method_resolution :
    (forall c, defined_in c MGradient <> None /\ defined_in c MHessian <> None /\ defined_in c MHessLogDet <> None)
    /\ defined_in CPredictor MTimeDerivative = None /\ defined_in CExpPredictor MTimeDerivative = None
    /\ defined_in CPredictorTime MTimeDerivative = Some CPredictorTime
    /\ (forall c, call_target c = Some c /\ mean_target c = Some c).
  Proof. exact method_resolution. Qed.

  Theorem C12_nine_classes :
    map (fun r => snd (snd r)) concrete_classes
    = [CPredictor; CExpPredictor; CPredictorTime; CPredictor; CExpPredictor; CPredictorTime;
       CPredictor; CExpPredictor; CPredictorTime]
    /\ map fst mean_centers = map (fun r => fst (snd r)) (firstn 1 concrete_classes)
                              ++ map (fun r => fst (snd r)) (firstn 1 (skipn 3 concrete_classes))
                              ++ map (fun r => fst (snd r)) (firstn 1 (skipn 6 concrete_classes)).
  Proof. exact concrete_classes_cover. Qed.

  (* ---- under the autodiff contract: true derivatives of the called value *)
  Hypothesis Drev_contract : forall f x, smooth1 f x ->
    length (Drev f x) = length x /\ forall c, (c < length x)%nat -> nth c (Drev f x) 0 = partial_at f x c.
  Hypothesis Dfwd_contract : forall g x i, smooth1 (fun y => nth i (g y) 0) x ->
    forall c, (c < length x)%nat -> nth c (nth i (Dfwd g x) []) 0 = partial_at (fun y => nth i (g y) 0) x c.

  Theorem C12_gradient_true_derivative :
    (forall x j, smooth1 (fun a => P CPredictor [a]) x -> (j < length x)%nat ->
       exists g, mval CPredictor MGradient [x] = Some (VVec g) /\ length g = length x /\
         is_derive (fun v => P CPredictor [upd x j v]) (nth j x 0) (nth j g 0))
    /\ (forall x j, smooth1 (fun a => P CExpPredictor [a]) x -> (j < length x)%nat ->
       exists g, mval CExpPredictor MGradient [x] = Some (VVec g) /\ length g = length x /\
         is_derive (fun v => P CExpPredictor [upd x j v]) (nth j x 0) (nth j g 0))
    /\ (forall s t j, smooth1 (fun a => P CPredictorTime [a; [t]]) s -> (j < length s)%nat ->
       exists g, mval CPredictorTime MGradient [s; [t]] = Some (VVec g) /\ length g = length s /\
         is_derive (fun v => P CPredictorTime [upd s j v; [t]]) (nth j s 0) (nth j g 0)).
  Proof. exact (gradient_true_derivative umean logn Drev Dfwd slogdet Drev_contract). Qed.

  Theorem C12_time_derivative_true : forall s t,
    smooth1 (fun a => P CPredictorTime [a]) (s ++ [t]) ->
    exists r, mval CPredictorTime MTimeDerivative [s; [t]] = Some (VScal r) /\
      is_derive (fun v => P CPredictorTime [s; [v]]) t r.
  Proof. exact (time_derivative_true umean logn Drev Dfwd slogdet Drev_contract). Qed.

  Theorem C12_hessian_entries : forall (f : list R -> R) x i j,
    (forall y, length y = length x -> smooth1 f y) ->
    smooth1 (fun y => nth i (Drev f y) 0) x -> (i < length x)%nat -> (j < length x)%nat ->
    nth j (nth i (Dfwd (Drev f) x) []) 0 = Derive (fun v => partial_at f (upd x j v) i) (nth j x 0).
  Proof. exact (hessian_entries Drev Dfwd Drev_contract Dfwd_contract). Qed.

  (* PARTIAL.  Full statement: the returned Hessian of a twice continuously differentiable predictor is
     symmetric and agrees with second differences of the called value.  Proved: symmetry given that the mixed
     second partials commute (conclusion of Schwarz' theorem); the rest rests on the autodiff contract and is
     tested numerically by checks/C12.py. *)
  Theorem C12_hessian_symmetric_partial : forall (f : list R -> R) x i j,
    (forall y, length y = length x -> smooth1 f y) ->
    (forall k, smooth1 (fun y => nth k (Drev f y) 0) x) ->
    mixed_commute f x -> (i < length x)%nat -> (j < length x)%nat ->
    nth j (nth i (Dfwd (Drev f) x) []) 0 = nth i (nth j (Dfwd (Drev f) x) []) 0.
  Proof. exact (hessian_symmetric_partial Drev Dfwd Drev_contract Dfwd_contract). Qed.

  Theorem C12_hessian_symmetric_schwarz_partial : forall (f : list R -> R) x i j,
    (forall y, length y = length x -> smooth1 f y) ->
    (forall k, smooth1 (fun y => nth k (Drev f y) 0) x) ->
    (i < length x)%nat -> (j < length x)%nat -> (i <> j -> schwarz_regular f x i j) ->
    nth j (nth i (Dfwd (Drev f) x) []) 0 = nth i (nth j (Dfwd (Drev f) x) []) 0.
  Proof. exact (hessian_symmetric_schwarz_partial Drev Dfwd Drev_contract Dfwd_contract). Qed.
End C12.
Print Assumptions C12_call_values.
Print Assumptions C12_gradient_of_call.
Print Assumptions C12_time_derivative_is_last_component.
Print Assumptions C12_hessian_of_call.
Print Assumptions C12_slogdet_of_same_hessian.
Print Assumptions C12_method_resolution.
Print Assumptions C12_nine_classes.
Print Assumptions C12_gradient_true_derivative.
Print Assumptions C12_time_derivative_true.
Print Assumptions C12_hessian_entries.
Print Assumptions C12_hessian_symmetric_partial.
Print Assumptions C12_hessian_symmetric_schwarz_partial.

(* ---- shape rules (x of shape (n, d); None = scalar-valued predictor, Some m = m output columns) *)
Theorem C12_shape_rules : forall n d,
  out_shape (deriv_table DGradient) n d None = [n; d]
  /\ sprod (raw_shape (deriv_table DGradient) n d None) = sprod [n; d]
  /\ out_shape (deriv_table DHessian) n d None = [n; d; d]
  /\ sprod (raw_shape (deriv_table DHessian) n d None) = sprod [n; d; d]
  /\ out_shape (deriv_table DHessLogDet) n d None = [n]
  /\ sprod (tl (raw_shape (deriv_table DHessLogDet) n d None)) = sprod [d; d].
Proof. exact shape_rules. Qed.
Print Assumptions C12_shape_rules.

Theorem C12_shape_rules_multi : forall n d m,
  out_shape (deriv_table DGradient) n d (Some m) = [n; m; d]
  /\ sprod (raw_shape (deriv_table DGradient) n d (Some m)) = sprod [n; m; d]
  /\ out_shape (deriv_table DHessian) n d (Some m) = [n; m; d; d]
  /\ sprod (raw_shape (deriv_table DHessian) n d (Some m)) = sprod [n; m; d; d]
  /\ out_shape (deriv_table DHessLogDet) n d (Some m) = [n; m]
  /\ sprod (tl (raw_shape (deriv_table DHessLogDet) n d (Some m))) = sprod [m; d; d].
Proof. exact shape_rules_multi. Qed.
Print Assumptions C12_shape_rules_multi.

(* ---- analytic content: gradient of the affine read-out with the proved kernel gradients of C11 *)
Theorem C12_mean_gradient_formula : forall e mu w B x c,
  (c < length x)%nat -> (forall b, In b B -> length b = length x /\ wfk e b x) ->
  is_derive (fun t => readout (keval e) mu w B (upd x c t)) (nth c x 0) (readout_grad (kgrad_true e) w B x c).
Proof. exact mean_gradient_formula. Qed.
Print Assumptions C12_mean_gradient_formula.

Theorem C12_mean_gradient_abstract_kernel : forall (k : list R -> list R -> R) dk mu w B x c,
  (forall b, In b B -> is_derive (fun t => k (upd x c t) b) (nth c x 0) (dk b x c)) ->
  is_derive (fun t => readout k mu w B (upd x c t)) (nth c x 0) (readout_grad dk w B x c).
Proof. exact readout_derive. Qed.
Print Assumptions C12_mean_gradient_abstract_kernel.

(* what gradient / time_derivative return on a fitted predictor (contract on jacrev only) *)
Theorem C12_gradient_values : forall logn Drev Dfwd slogdet,
  (forall f x, smooth1 f x ->
     length (Drev f x) = length x /\ forall c, (c < length x)%nat -> nth c (Drev f x) 0 = partial_at f x c) ->
  forall e mu w B x c,
  (c < length x)%nat -> (forall b, In b B -> length b = length x /\ wfk e b x) ->
  let um := readout (keval e) mu w B in
  (exists g, DerivThm.mval um logn Drev Dfwd slogdet CPredictor MGradient [x] = Some (VVec g)
             /\ nth c g 0 = readout_grad (kgrad_true e) w B x c)
  /\ (exists g, DerivThm.mval um logn Drev Dfwd slogdet CExpPredictor MGradient [x] = Some (VVec g)
             /\ nth c g 0 = exp (um x) * readout_grad (kgrad_true e) w B x c).
Proof. exact gradient_values. Qed.
Print Assumptions C12_gradient_values.

Theorem C12_gradient_values_time : forall logn Drev Dfwd slogdet,
  (forall f x, smooth1 f x ->
     length (Drev f x) = length x /\ forall c, (c < length x)%nat -> nth c (Drev f x) 0 = partial_at f x c) ->
  forall e mu w B s t c,
  (c < length s)%nat -> (forall b, In b B -> length b = length (s ++ [t]) /\ wfk e b (s ++ [t])) ->
  let um := readout (keval e) mu w B in
  (exists g, DerivThm.mval um logn Drev Dfwd slogdet CPredictorTime MGradient [s; [t]] = Some (VVec g)
             /\ nth c g 0 = readout_grad (kgrad_true e) w B (s ++ [t]) c)
  /\ (exists r, DerivThm.mval um logn Drev Dfwd slogdet CPredictorTime MTimeDerivative [s; [t]] = Some (VScal r)
             /\ r = readout_grad (kgrad_true e) w B (s ++ [t]) (length s)).
Proof. exact gradient_values_time. Qed.
Print Assumptions C12_gradient_values_time.

(* mixed second partials commute under the premises of Schwarz' theorem (pure analysis, no contract) *)
Theorem C12_mixed_partials_commute : forall (f : list R -> R) x i j, i <> j -> schwarz_regular f x i j ->
  Derive (fun v => partial_at f (upd x j v) i) (nth j x 0) = Derive (fun u => partial_at f (upd x i u) j) (nth i x 0).
Proof. exact mixed_commute_schwarz. Qed.
Print Assumptions C12_mixed_partials_commute.

Example C12_schwarz_regular_satisfiable :
  0%nat <> 1%nat /\ schwarz_regular (fun l : list R => nth 0 l 0 * nth 1 l 0) [1; 2] 0 1.
Proof. exact schwarz_regular_example. Qed.

(* ---- non-vacuity: the contract has a model; the kernel hypotheses hold on a depth-3 expression *)
Example C12_contract_satisfiable :
  forall f x, smooth1 f x ->
    length (grad_true f x) = length x /\ forall c, (c < length x)%nat -> nth c (grad_true f x) 0 = partial_at f x c.
Proof. exact contract_satisfiable. Qed.

Example C12_kernel_hypotheses_satisfiable :
  let e := KMul (KPow (KAddC (KBase BExpQuad 2 (DInt (-1)%Z)) (1 / 2) (DList [0%Z; 2%Z])) (3 / 2) DNone)
                (KBase (BRatQuad 3) 1 (DMask [true; false; true])) (DSlice None None None) in
  let B := [[1; 2; 3]] in let x := [4; 5; 6] in
  (1 < length x)%nat /\ (forall b, In b B -> length b = length x /\ wfk e b x).
Proof. exact gradient_values_example. Qed.
