(* C07 — Predictor persistence (JSON, gzip, bz2, dict, copy) is lossless.
   Property theorems only (proofs: thm/PredictorThm.v, SerialThm.v, CodecThm.v).  The state model
   lib/Serial.v is hand-written (tie: exact correspondence run); the file-codec functions
   py_to_json / py_from_json are regenerated from mellon/base_predictor.py on every run. *)
From Coq Require Import ZArith QArith List.
From MellonV Require Import PyVal PyValIO Serial SerialThm PredictorThm C07Codec CodecThm.
Import ListNotations.

(* the whole predictor state (every state variable, n_obs, n_input_features, _state_variables, kernel
   expression) of each of the nine classes survives to_dict/to_json -> from_dict/from_json *)
Theorem C07_state_roundtrip :
  forall p version kfuel, pwf p -> (gkdepth (gp_cov p) < kfuel)%nat ->
  bind (json_rt (pser version (pemb p))) (pdeser false kfuel) = Ok (pemb (pcanon p)).
Proof. exact state_roundtrip. Qed.
Print Assumptions C07_state_roundtrip.

(* re-serialising the restored state gives the content that was read *)
Theorem C07_reserialise_stable :
  forall g, wf g -> json_rt (ser (emb g)) = Ok (ser (emb (canon g))).
Proof. exact reserialise_stable_all. Qed.
Print Assumptions C07_reserialise_stable.

(* the file to_json wrote is read back by from_json with the codec it was written with:
   same keyword on both sides ... *)
Theorem C07_codec_consistent_keyword :
  forall f c, contradictory f c = false ->
  exists wo wp, io_opener (py_to_json (fval f) (cval c)) = Some wo
             /\ io_path (py_to_json (fval f) (cval c)) = Some wp
             /\ exists ro, io_opener (py_from_json VNone wp (cval c)) = Some ro /\ codec_name ro = codec_name wo.
Proof. exact codec_consistent_keyword. Qed.
Print Assumptions C07_codec_consistent_keyword.

(* ... or no keyword when reading: the extension alone suffices (str filenames always; Path filenames
   written without keyword) *)
Theorem C07_codec_consistent_extension :
  forall f c, (match f with FStr _ => True | FPath _ => c = CNone end) ->
  exists wo wp, io_opener (py_to_json (fval f) (cval c)) = Some wo
             /\ io_path (py_to_json (fval f) (cval c)) = Some wp
             /\ exists ro, io_opener (py_from_json VNone wp VNone) = Some ro /\ codec_name ro = codec_name wo.
Proof. exact codec_consistent_extension. Qed.
Print Assumptions C07_codec_consistent_extension.

Example C07_unknown_codec_refused : unknown_codec_cases = [Err ValueError; Err ValueError; Err ValueError].
Proof. exact unknown_codec_refused. Qed.
