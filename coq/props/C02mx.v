(* C02 (matrix clauses) - predictor reproduces the fitted values.
   Property theorems only; proofs in thm/FactorThm.v and thm/AffineThm.v.  The normalisation / exp clauses and the
   dispatch clause of C02 live in other worlds; this file is to be merged into (or required by) props/C02.v. *)
From mathcomp Require Import all_ssreflect all_fingroup all_algebra.
From MellonV Require Import MatOps MxInst MxPsd MatGen CondThm AffineThm FactorThm.
Set Implicit Arguments.
Unset Strict Implicit.
Import Order.TTheory GRing.Theory Num.Theory.
Local Open Scope ring_scope.

Section C02.
Variable F : rcfType.
Variable cholF : forall n : nat, 'M[F]_n -> 'M[F]_n.
Variable eigS : forall n p : nat, 'M[F]_n -> 'cV[F]_p.
Variable eigV : forall n p : nat, 'M[F]_n -> 'M[F]_(n, p).
Variable qrQ : forall n m k : nat, 'M[F]_(n, m) -> 'M[F]_(n, k).
Variable qrR : forall n m k : nat, 'M[F]_(n, m) -> 'M[F]_(k, m).
Hypothesis chol_ok : chol_contract cholF.
Let ops := MxOps cholF eigS eigV qrQ qrR.
Local Existing Instance ops.

(* inducing-point Cholesky models: with the same Lp (any lower-triangular matrix, so a user-supplied one too)
   used for L = K_xu Lp^-T and for weights = Lp^-T z, the predictor at the cells returns L z exactly *)
Theorem C02_chol_insample_exact n m c (Kxu : 'M[F]_(n, m)) (Lp : 'M[F]_m) (z : 'M[F]_(m, c)) mu n_obs s1 j1 s2 j2 :
  is_lower Lp ->
  LandmarksCholCond_mean Kxu mu (LandmarksCholCond_init_LM_sS_yT_uF_weights z mu n_obs Lp s1 j1)
  = const_mx mu + standard_low_rank_PM Kxu Lp s2 j2 *m z.
Proof. by move=> lL; rewrite /LandmarksCholCond_mean /= (chol_insample cholF eigS eigV qrQ qrR Kxu z mu n_obs s1 j1 s2 j2 lL). Qed.

(* full / full_nystroem models (predictor recomputes chol(K + jI), y_is_mean): mean(X) - y = - j weights *)
Theorem C02_full_insample_error n c (K : 'M[F]_n) (y : 'M[F]_(n, c)) (mu j s : F) :
  sym K -> psd K -> 0 < j ->
  FullCond_mean K mu (FullCond_init_LN_sS_cN_yT_uF_weights K y mu s j) - y
  = - (j *: FullCond_init_LN_sS_cN_yT_uF_weights K y mu s j).
Proof. by move=> sK pK j0; apply: (full_insample_ymean eigS eigV qrQ qrR chol_ok sK pK j0). Qed.

(* inducing-point (DTC) models: if y - mu = K_xu c0 then
   mean(X) - y = - j K_xu (K_ux K_xu + j (K_uu + jI))^-1 (K_uu + jI) c0 *)
Theorem C02_dtc_insample_error n m c (Kuf : 'M[F]_(m, n)) (Kuu : 'M[F]_m) (y : 'M[F]_(n, c)) (mu j s : F) (c0 : 'M[F]_(m, c)) :
  sym Kuu -> psd Kuu -> 0 < j -> y - const_mx mu = Kuf^T *m c0 ->
  LandmarksCond_mean Kuf^T mu (LandmarksCond_init_sS_cN_yT_uF_weights Kuf Kuu y mu s j) - y
  = - (j *: (Kuf^T *m (invmx (Kuf *m Kuf^T + j *: (Kuu + j%:M)) *m ((Kuu + j%:M) *m c0)))).
Proof. by move=> sK pK j0 hy; apply: (dtc_insample eigS eigV qrQ qrR chol_ok sK pK j0). Qed.

End C02.

Print Assumptions C02_chol_insample_exact.
Print Assumptions C02_full_insample_error.
Print Assumptions C02_dtc_insample_error.
