(* C17 - Optimisation never degrades the objective and is reproducible.
   Property theorems only (proofs: thm/OptThm.v; world-A facts: thm/AInferenceThm.v).
   What a theorem can carry here is the WIRING of the optimisers into the estimator and the SHAPE of the
   problem - not SciPy's line search, Adam's arithmetic or XLA.  The tables (gen/C17Tables.v: the dispatch of
   _run_inference, where every result field goes, the expressions behind minimize_lbfgsb's result, the loop
   skeletons of minimize_adam / run_advi, the PRNG-key data flow, std = exp(log_std), every randomness site of
   mellon/*.py) are regenerated from the AST on every run; the loop and L-BFGS-B models are hand-written
   (lib/OptSem.v) and parameterised by those tables.  Gradient-norm reduction, bit-identical repeats (in process
   and in fresh interpreters) and jit on/off agreement are run-time facts: tested by checks/C17.py, labelled tests. *)
From Coq Require Import String.
From Coq Require Import Reals ZArith Bool Lra List.
From MellonV Require Import PyVal OptSem C17Tables OptThm ALists AInference AInferenceThm AConvexThm AExistThm.
Import ListNotations.
Open Scope list_scope.

(* dispatch: three optimizer names, anything else is a ValueError *)
Theorem C17_run_inference_dispatch :
  map fst optimizer_names = ["adam"; "advi"; "L-BFGS-B"]%string
  /\ run_inference_model optimizer_names unknown_optimizer_exn attr_wiring "adam" = Ok (OAdam, attr_wiring OAdam)
  /\ run_inference_model optimizer_names unknown_optimizer_exn attr_wiring "advi" = Ok (OAdvi, attr_wiring OAdvi)
  /\ run_inference_model optimizer_names unknown_optimizer_exn attr_wiring "L-BFGS-B" = Ok (OLbfgsb, attr_wiring OLbfgsb)
  /\ routine_of OAdam = RAdam /\ routine_of OAdvi = RAdvi /\ routine_of OLbfgsb = RLbfgsb.
Proof. exact run_inference_dispatch. Qed.
Print Assumptions C17_run_inference_dispatch.

Theorem C17_unknown_optimizer_refused : forall s,
  ~ In s (map fst optimizer_names) ->
  run_inference_model optimizer_names unknown_optimizer_exn attr_wiring s = Err ValueError.
Proof. exact unknown_optimizer_refused. Qed.
Print Assumptions C17_unknown_optimizer_refused.

(* which result field lands in which estimator attribute; standard deviations come from ADVI only *)
Theorem C17_result_wiring :
  (forall o, lookup_attr APre (attr_wiring o) = Some (SField FPre))
  /\ lookup_attr APreStd (attr_wiring OAdvi) = Some (SField FPreStd)
  /\ lookup_attr APreStd (attr_wiring OAdam) = Some SNone
  /\ lookup_attr APreStd (attr_wiring OLbfgsb) = Some SNone
  /\ lookup_attr ALosses (attr_wiring OAdam) = Some (SField FLosses)
  /\ lookup_attr ALosses (attr_wiring OAdvi) = Some (SField FLosses)
  /\ lookup_attr ALosses (attr_wiring OLbfgsb) = Some (SSingleton FLoss).
Proof. exact result_wiring. Qed.
Print Assumptions C17_result_wiring.

(* L-BFGS-B: pre_transformation = params, reported loss = state.fun_val; with the contract of the SciPy wrapper
   (fun_val = f(params) <= f(x0)) the reported loss is the objective at the returned parameters and not above
   the objective at the starting point *)
Theorem C17_lbfgs_wiring : forall (Param : Type) (loss : Param -> R) (x0 opt_params : Param) (opt_fun_val : R),
  (opt_fun_val = loss opt_params /\ (opt_fun_val <= loss x0)%R) ->
  exists pre reported,
    lbfgsb_attr Param loss x0 opt_params opt_fun_val lbfgsb_fields (attr_wiring OLbfgsb) APre = Some (LParam pre)
    /\ lbfgsb_attr Param loss x0 opt_params opt_fun_val lbfgsb_fields (attr_wiring OLbfgsb) ALosses = Some (LRealList [reported])
    /\ loss pre = reported /\ (reported <= loss x0)%R.
Proof. exact lbfgs_wiring. Qed.
Print Assumptions C17_lbfgs_wiring.

Theorem C17_lbfgs_wiring_table : forall (Param : Type) (loss : Param -> R) (x0 opt_params : Param) (opt_fun_val : R),
  lbfgsb_attr Param loss x0 opt_params opt_fun_val lbfgsb_fields (attr_wiring OLbfgsb) APre = Some (LParam opt_params)
  /\ lbfgsb_attr Param loss x0 opt_params opt_fun_val lbfgsb_fields (attr_wiring OLbfgsb) ALosses = Some (LRealList [opt_fun_val])
  /\ lbfgsb_attr Param loss x0 opt_params opt_fun_val lbfgsb_fields (attr_wiring OLbfgsb) APreStd = Some LNone.
Proof. exact lbfgs_wiring_table. Qed.
Print Assumptions C17_lbfgs_wiring_table.

(* Adam / ADVI: for every n_iter >= 0 and every step function, the trace has n_iter entries and step t receives index t *)
Theorem C17_adam_trace_length : forall (State Val : Type) (step : Z -> State -> Val * State) n_iter s0, (0 <= n_iter)%Z ->
  length (trace_of State Val (run_loop State Val step adam_skel n_iter s0)) = Z.to_nat n_iter
  /\ idxs_of State Val (run_loop State Val step adam_skel n_iter s0) = map Z.of_nat (seq 0 (Z.to_nat n_iter)).
Proof. exact adam_trace_length. Qed.
Print Assumptions C17_adam_trace_length.

Theorem C17_advi_trace_length : forall (State Val : Type) (step : Z -> State -> Val * State) n_iter s0, (0 <= n_iter)%Z ->
  length (trace_of State Val (run_loop State Val step advi_skel n_iter s0)) = Z.to_nat n_iter
  /\ idxs_of State Val (run_loop State Val step advi_skel n_iter s0) = map Z.of_nat (seq 0 (Z.to_nat n_iter)).
Proof. exact advi_trace_length. Qed.
Print Assumptions C17_advi_trace_length.

Theorem C17_params_after_last_step :
  sk_params_after_loop adam_skel = true /\ sk_params_after_loop advi_skel = true.
Proof. exact params_after_last_step. Qed.
Print Assumptions C17_params_after_last_step.

(* ADVI draws the samples of iteration t from PRNGKey(t): seeded by the loop index alone, all keys distinct *)
Theorem C17_advi_keys_are_loop_indices : forall (State Val : Type) (step : Z -> State -> Val * State) n_iter s0, (0 <= n_iter)%Z ->
  let keys := advi_keys advi_key_source (idxs_of State Val (run_loop State Val step advi_skel n_iter s0)) in
  keys = map Z.of_nat (seq 0 (Z.to_nat n_iter)) /\ NoDup keys.
Proof. exact advi_keys_are_loop_indices. Qed.
Print Assumptions C17_advi_keys_are_loop_indices.

(* std = exp(log_std): strictly positive, same shape *)
Theorem C17_advi_std_positive : forall log_std,
  Forall (fun s => (0 < s)%R) (std_sem advi_std_expr log_std)
  /\ length (std_sem advi_std_expr log_std) = length log_std.
Proof. exact advi_std_positive. Qed.
Print Assumptions C17_advi_std_positive.

(* every randomness site of mellon/*.py is seeded by an argument / derived key / constant, except k-means inside
   compute_landmarks, which is reached only through _prepare_attribute("landmarks") (a no-op when landmarks are
   given); nothing on mellon/inference.py is unseeded; the ADVI key is the loop index *)
Theorem C17_fit_is_function_of_inputs :
  forallb site_ok random_sites = true
  /\ forallb (fun s => implb (on_inference_path s) (seed_kind_seeded (snd s))) random_sites = true
  /\ advi_key_source = KeyLoopIndex
  /\ direct_compute_landmarks_calls = []
  /\ forallb (fun c => String.eqb c "_compute_landmarks" || String.eqb c "parameters.compute_landmarks_rescale_time")
             compute_landmarks_callers = true
  /\ prepare_attribute_guards_set_value = true.
Proof. exact fit_is_function_of_inputs. Qed.
Print Assumptions C17_fit_is_function_of_inputs.

(* well-posedness, imported from world A (C03): every likelihood term has a unique maximiser *)
Theorem C17_likelihood_term_unique_max : forall (lgam : R -> R) r d l,
  nn_term lgam r d l = nn_term lgam r d (mle lgam r d) -> l = mle lgam r d.
Proof. exact nn_term_max_unique. Qed.
Print Assumptions C17_likelihood_term_unique_max.

(* The objective of the density estimators (generated [loss] with the generated affine [transform]) is strictly - in
   fact 1-strongly - convex on R^k: quadratic prior + exp(affine) - affine.  Hence at most one minimiser (exactly one: C17_loss_has_unique_minimiser below), and a point
   whose loss is within eps of the minimum is within sqrt(2 eps) of the minimiser (thm/AConvexThm.v). *)
Theorem C17_loss_strictly_convex : forall (lgam : R -> R) k r d mu L z w t,
  length z = length w -> z <> w -> (0 < t < 1)%R ->
  (loss lgam k r d (transform mu L) (lincomb t z w)
   < t * loss lgam k r d (transform mu L) z + (1 - t) * loss lgam k r d (transform mu L) w)%R.
Proof. exact loss_strictly_convex. Qed.
Print Assumptions C17_loss_strictly_convex.

Theorem C17_loss_strongly_convex : forall (lgam : R -> R) k r d mu L z w t,
  length z = length w -> (0 <= t <= 1)%R ->
  (loss lgam k r d (transform mu L) (lincomb t z w)
   <= t * loss lgam k r d (transform mu L) z + (1 - t) * loss lgam k r d (transform mu L) w
      - (1 / 2) * t * (1 - t) * sqdist z w)%R.
Proof. exact loss_strongly_convex. Qed.
Print Assumptions C17_loss_strongly_convex.

Theorem C17_loss_minimiser_unique : forall (lgam : R -> R) k r d mu L n z w,
  is_minimiser (loss lgam k r d (transform mu L)) n z ->
  is_minimiser (loss lgam k r d (transform mu L)) n w -> z = w.
Proof. exact loss_minimiser_unique. Qed.
Print Assumptions C17_loss_minimiser_unique.

Theorem C17_loss_quadratic_growth : forall (lgam : R -> R) k r d mu L n z w,
  is_minimiser (loss lgam k r d (transform mu L)) n z -> length w = n ->
  (loss lgam k r d (transform mu L) z + (1 / 2) * sqdist z w <= loss lgam k r d (transform mu L) w)%R.
Proof. exact loss_quadratic_growth. Qed.
Print Assumptions C17_loss_quadratic_growth.

(* ... and a minimiser exists (thm/AExistThm.v: the objective is bounded below, a minimising sequence is Cauchy by strong
   convexity, R^k is complete coordinate-wise, the objective is continuous along convergent sequences; the sequence is
   chosen with the standard library's Epsilon.constructive_indefinite_description): the fit problem is well posed *)
Theorem C17_loss_has_unique_minimiser : forall (lgam : R -> R) k r d mu L n,
  exists z, is_minimiser (loss lgam k r d (transform mu L)) n z
            /\ forall w, is_minimiser (loss lgam k r d (transform mu L)) n w -> w = z.
Proof. exact loss_has_unique_minimiser. Qed.
Print Assumptions C17_loss_has_unique_minimiser.

(* the scalar core, kept from the first delivery *)
Theorem C17_loss_strictly_convex_partial : forall a b c x y t, x <> y -> (0 < t < 1)%R ->
  (loss_core a b c (t * x + (1 - t) * y) < t * loss_core a b c x + (1 - t) * loss_core a b c y)%R.
Proof. exact loss_strictly_convex_partial. Qed.
Print Assumptions C17_loss_strictly_convex_partial.

(* ---- non-vacuity *)
Example C17_lbfgs_contract_satisfiable :
  exists (loss : R -> R) (x0 p : R) (v : R), v = loss p /\ (v <= loss x0)%R /\ p <> x0.
Proof. exists (fun z => (z * z)%R), 1%R, 0%R, 0%R. repeat split; try lra; ring_simplify; lra. Qed.

Example C17_loop_example :
  trace_of nat Z (run_loop nat Z (fun i s => (i, S s)) adam_skel 3 O) = [0; 1; 2]%Z
  /\ fst (fst (run_loop nat Z (fun i s => (i, S s)) adam_skel 3 O)) = 3%nat.
Proof. split; reflexivity. Qed.

Example C17_unknown_name : ~ In "bfgs"%string (map fst optimizer_names).
Proof. cbn. intros [H|[H|[H|[]]]]; discriminate. Qed.
