(* C20 — Degenerate and dirty inputs are sanitised or refused, never propagated.
   Property theorems only (proofs: thm/ValidatorsThm.v; validators regenerated from
   mellon/validation.py and mellon/util.py on every run). *)
From Coq Require Import ZArith QArith List.
From MellonV Require Import PyVal Validators ValidatorsThm.
Import ListNotations.
Open Scope Z_scope.

(* nearest-neighbour distances: all invalid -> ValueError, otherwise the sanitised vector *)
Theorem C20_nn_distances_model :
  forall (d : list xf) opt, let n := Z.of_nat (length d) in
  py_validation_validate_nn_distances (VArr KF [n] d) (VBool opt)
  = if forallb (fun x => negb (valid_dist x)) d then Err ValueError
    else Ok (VArr KF [n] (sanitise d)).
Proof. exact nn_sanitised_model. Qed.
Print Assumptions C20_nn_distances_model.

(* ... where valid entries (finite, > 0) are untouched and every other entry becomes the smallest valid one *)
Theorem C20_nn_sanitised :
  forall d, existsb valid_dist d = true ->
  exists m, valid_dist m = true /\ In m d
            /\ sanitise d = map (fun y => if valid_dist y then y else m) d
            /\ (forall y, In y d -> valid_dist y = true -> xle m y).
Proof. exact sanitise_spec. Qed.
Print Assumptions C20_nn_sanitised.

Theorem C20_nn_none :
  py_validation_validate_nn_distances VNone (VBool true) = Ok VNone
  /\ py_validation_validate_nn_distances VNone (VBool false) = Err ValueError.
Proof. exact nn_none_handling. Qed.
Print Assumptions C20_nn_none.

(* scalar validators, for EVERY value of the universe (None, bool, int, float incl. NaN/inf, str,
   numeric str, arrays of any size, lists, dicts, sets, slices, numpy scalars, objects) *)
Theorem C20_validate_bool :
  forall v nm opt,
  py_validation_validate_bool v nm (VBool opt)
  = match v with
    | VNone => if opt then Ok VNone else Err TypeError
    | VBool b => Ok (VBool b)
    | _ => Err TypeError
    end.
Proof. exact validate_bool_spec. Qed.
Print Assumptions C20_validate_bool.

Theorem C20_validate_positive_int :
  forall v nm opt,
  py_validation_validate_positive_int v nm (VBool opt)
  = match v with
    | VNone => if opt then Ok VNone else Err ValueError
    | VBool b => Ok v
    | VInt z => if z <? 0 then Err ValueError else Ok v
    | _ => Err ValueError
    end.
Proof. exact validate_positive_int_spec. Qed.
Print Assumptions C20_validate_positive_int.

Theorem C20_validate_positive_float :
  forall v nm opt, pos_float_result v opt (py_validation_validate_positive_float v nm (VBool opt)).
Proof. exact validate_positive_float_spec. Qed.
Print Assumptions C20_validate_positive_float.

Theorem C20_validate_float_or_int :
  forall v nm opt, float_or_int_result v opt (py_validation_validate_float_or_int v nm (VBool opt)).
Proof. exact validate_float_or_int_spec. Qed.
Print Assumptions C20_validate_float_or_int.

Theorem C20_validate_float :
  forall v nm opt,
  match py_validation_validate_float v nm (VBool opt) with
  | Ok VNone => v = VNone /\ opt = true
  | Ok (VFloat f) => xf_isnan f = false
  | Ok (VNpScalar KF f) => xf_isnan f = false
  | Ok (VInt z) => v = VInt z
  | Ok (VBool b) => v = VBool b
  | Ok (VArr _ [] [f]) => xf_isnan f = false
  | Ok _ => False
  | Err e => e = ValueError
  end.
Proof. exact validate_float_spec. Qed.
Print Assumptions C20_validate_float.

Example C20_nonvacuous :
  py_validation_validate_nn_distances (VArr KF [4] [XFin 2; XNaN; XFin (1#2); XFin 0]) (VBool false)
  = Ok (VArr KF [4] [XFin 2; XFin (1#2); XFin (1#2); XFin (1#2)]).
Proof. reflexivity. Qed.
