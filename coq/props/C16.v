(* C16 - function estimation is affine in the values, column-independent, noise-aware.
   Property theorems only; proofs live in thm/AffineThm.v and thm/CondThm.v.
   The definitions are regenerated from mellon/conditional.py on every run (gen/MatGen.v);
   FunctionEstimator.compute_conditional passes (x, landmarks, None, None, y, mu, cov_func, None, None,
   sigma, jitter, y_is_mean, with_uncertainty) to compute_conditional, i.e. the paths L = None,
   y_cov_factor = None treated here.  F: any real closed field; all sizes. *)
From mathcomp Require Import all_ssreflect all_fingroup all_algebra.
From MellonV Require Import MatOps MxInst MxPsd MxChol MatGen CondThm AffineThm ShrinkThm.
Set Implicit Arguments.
Unset Strict Implicit.
Import GRing.Theory Num.Theory.
Local Open Scope ring_scope.

Section C16.
Variable F : rcfType.
Variable cholF : forall n : nat, 'M[F]_n -> 'M[F]_n.
Variable eigS : forall n p : nat, 'M[F]_n -> 'cV[F]_p.
Variable eigV : forall n p : nat, 'M[F]_n -> 'M[F]_(n, p).
Variable qrQ : forall n m k : nat, 'M[F]_(n, m) -> 'M[F]_(n, k).
Variable qrR : forall n m k : nat, 'M[F]_(n, m) -> 'M[F]_(k, m).
Hypothesis chol_ok : chol_contract cholF.
Let ops := MxOps cholF eigS eigV qrQ qrR.
Local Existing Instance ops.

(* weights = T (y - mu 1) with T independent of y and mu (full model: T = (K + N)^-1) *)
Theorem C16_weights_linear_full n c (K : 'M[F]_n) (y : 'M[F]_(n, c)) (mu j s : F) (sv : 'cV[F]_n) :
  sym K -> psd K -> 0 < j ->
  [/\ FullCond_init_LN_sS_cN_yT_uF_weights K y mu s j = invmx (K + j%:M) *m (y - const_mx mu),
      FullCond_init_LN_sS_cN_yF_uF_weights K y mu s j = invmx (K + (Num.max (s ^+ 2) j)%:M) *m (y - const_mx mu)
    & FullCond_init_LN_sV_cN_yF_uF_weights K y mu sv j
      = invmx (K + diagv (\col_i Num.max (sv i 0 ^+ 2) j)) *m (y - const_mx mu)].
Proof. by move=> sK pK j0; apply: full_weights_linear. Qed.

(* inducing points: T = (K_uf K_fu + a (K_uu + jI))^-1 K_uf *)
Theorem C16_weights_linear_dtc n m c (Kuf : 'M[F]_(m, n)) (Kuu : 'M[F]_m) (y : 'M[F]_(n, c)) (mu j s : F) :
  sym Kuu -> psd Kuu -> 0 < j ->
  LandmarksCond_init_sS_cN_yT_uF_weights Kuf Kuu y mu s j
    = invmx (Kuf *m Kuf^T + j *: (Kuu + j%:M)) *m Kuf *m (y - const_mx mu)
  /\ LandmarksCond_init_sS_cN_yF_uF_weights Kuf Kuu y mu s j
    = invmx (Kuf *m Kuf^T + Num.max (s ^+ 2) j *: (Kuu + j%:M)) *m Kuf *m (y - const_mx mu).
Proof. by move=> sK pK j0; split; [apply: dtc_linear_ymean|apply: dtc_linear_scalar]. Qed.

(* affinity: fitting a y + b with prior mean a mu + b gives a * prediction + b
   (weights scale by a; the read-out restores b) *)
Theorem C16_affine_full n c q (K : 'M[F]_n) (Ks : 'M[F]_(q, n)) (y : 'M[F]_(n, c)) (mu j s a b : F) (sv : 'cV[F]_n) :
  sym K -> psd K -> 0 < j ->
  [/\ FullCond_mean Ks (a * mu + b) (FullCond_init_LN_sS_cN_yT_uF_weights K (a *: y + const_mx b) (a * mu + b) s j)
        = a *: FullCond_mean Ks mu (FullCond_init_LN_sS_cN_yT_uF_weights K y mu s j) + const_mx b,
      FullCond_mean Ks (a * mu + b) (FullCond_init_LN_sS_cN_yF_uF_weights K (a *: y + const_mx b) (a * mu + b) s j)
        = a *: FullCond_mean Ks mu (FullCond_init_LN_sS_cN_yF_uF_weights K y mu s j) + const_mx b
    & FullCond_mean Ks (a * mu + b) (FullCond_init_LN_sV_cN_yF_uF_weights K (a *: y + const_mx b) (a * mu + b) sv j)
        = a *: FullCond_mean Ks mu (FullCond_init_LN_sV_cN_yF_uF_weights K y mu sv j) + const_mx b].
Proof.
move=> sK pK j0; have [e1 e2 e3] := full_affine eigS eigV qrQ qrR chol_ok sK pK j0 y mu s sv a b.
by split; rewrite ?e1 ?e2 ?e3 readout_affine.
Qed.

Theorem C16_affine_dtc n m c q (Kuf : 'M[F]_(m, n)) (Kuu : 'M[F]_m) (Ks : 'M[F]_(q, m)) (y : 'M[F]_(n, c)) (mu j s a b : F) :
  sym Kuu -> psd Kuu -> 0 < j ->
  LandmarksCond_mean Ks (a * mu + b) (LandmarksCond_init_sS_cN_yT_uF_weights Kuf Kuu (a *: y + const_mx b) (a * mu + b) s j)
    = a *: LandmarksCond_mean Ks mu (LandmarksCond_init_sS_cN_yT_uF_weights Kuf Kuu y mu s j) + const_mx b
  /\ LandmarksCond_mean Ks (a * mu + b) (LandmarksCond_init_sS_cN_yF_uF_weights Kuf Kuu (a *: y + const_mx b) (a * mu + b) s j)
    = a *: LandmarksCond_mean Ks mu (LandmarksCond_init_sS_cN_yF_uF_weights Kuf Kuu y mu s j) + const_mx b.
Proof.
move=> sK pK j0; have [e1 e2] := dtc_affine eigS eigV qrQ qrR chol_ok Kuf sK pK j0 y mu s a b.
by split; rewrite ?e1 ?e2; apply: readout_affine.
Qed.

(* column independence: column l of a joint fit = the fit of column l alone *)
Theorem C16_columns_independent n m c (K : 'M[F]_n) (Kuf : 'M[F]_(m, n)) (Kuu : 'M[F]_m) (y : 'M[F]_(n, c))
    (mu j s : F) (sv : 'cV[F]_n) (l : 'I_c) :
  sym K -> psd K -> sym Kuu -> psd Kuu -> 0 < j ->
  [/\ col l (FullCond_init_LN_sS_cN_yT_uF_weights K y mu s j) = FullCond_init_LN_sS_cN_yT_uF_weights K (col l y) mu s j,
      col l (FullCond_init_LN_sS_cN_yF_uF_weights K y mu s j) = FullCond_init_LN_sS_cN_yF_uF_weights K (col l y) mu s j,
      col l (FullCond_init_LN_sV_cN_yF_uF_weights K y mu sv j) = FullCond_init_LN_sV_cN_yF_uF_weights K (col l y) mu sv j,
      col l (LandmarksCond_init_sS_cN_yT_uF_weights Kuf Kuu y mu s j) = LandmarksCond_init_sS_cN_yT_uF_weights Kuf Kuu (col l y) mu s j
    & col l (LandmarksCond_init_sS_cN_yF_uF_weights Kuf Kuu y mu s j) = LandmarksCond_init_sS_cN_yF_uF_weights Kuf Kuu (col l y) mu s j].
Proof.
move=> sK pK sU pU j0.
have [e1 e2 e3] := full_columns eigS eigV qrQ qrR chol_ok sK pK j0 y mu s sv l.
have [e4 e5] := dtc_columns eigS eigV qrQ qrR chol_ok Kuf sU pU j0 y mu s l.
by split.
Qed.

(* and the read-out acts column by column *)
Theorem C16_readout_columns q b c (Ks : 'M[F]_(q, b)) mu (w : 'M[F]_(b, c)) (l : 'I_c) :
  col l (FullCond_mean Ks mu w) = FullCond_mean Ks mu (col l w).
Proof. by rewrite /FullCond_mean /=; apply/matrixP => i t; rewrite !mxE; congr (_ + _); apply: eq_bigr => u _; rewrite !mxE. Qed.

(* interpolation: y_is_mean, or sigma^2 <= jitter (in particular sigma = 0):
   in-sample prediction - y = - jitter * weights, exactly *)
Theorem C16_interpolation n c (K : 'M[F]_n) (y : 'M[F]_(n, c)) (mu j s : F) :
  sym K -> psd K -> 0 < j ->
  FullCond_mean K mu (FullCond_init_LN_sS_cN_yT_uF_weights K y mu s j) - y
    = - (j *: FullCond_init_LN_sS_cN_yT_uF_weights K y mu s j)
  /\ (s ^+ 2 <= j ->
      FullCond_mean K mu (FullCond_init_LN_sS_cN_yF_uF_weights K y mu s j) - y
      = - (j *: FullCond_init_LN_sS_cN_yF_uF_weights K y mu s j)).
Proof.
move=> sK pK j0; split; first exact: (full_insample_ymean eigS eigV qrQ qrR chol_ok sK pK j0).
by move=> sj; apply: (full_insample_small_sigma eigS eigV qrQ qrR chol_ok sK pK j0).
Qed.

(* inducing-point family: exact in-sample error whenever y - mu is in the range of K_xu *)
Theorem C16_interpolation_dtc n m c (Kuf : 'M[F]_(m, n)) (Kuu : 'M[F]_m) (y : 'M[F]_(n, c)) (mu j s : F) (c0 : 'M[F]_(m, c)) :
  sym Kuu -> psd Kuu -> 0 < j -> y - const_mx mu = Kuf^T *m c0 ->
  LandmarksCond_mean Kuf^T mu (LandmarksCond_init_sS_cN_yT_uF_weights Kuf Kuu y mu s j) - y
  = - (j *: (Kuf^T *m (invmx (Kuf *m Kuf^T + j *: (Kuu + j%:M)) *m ((Kuu + j%:M) *m c0)))).
Proof. by move=> sK pK j0 hy; apply: (dtc_insample eigS eigV qrQ qrR chol_ok sK pK j0). Qed.

(* a per-cell sigma vector with equal entries is equivalent to the scalar *)
Theorem C16_constant_vector_sigma n c (K : 'M[F]_n) (y : 'M[F]_(n, c)) (mu j s : F) :
  sym K -> psd K -> 0 < j ->
  FullCond_init_LN_sV_cN_yF_uF_weights K y mu (const_mx s) j = FullCond_init_LN_sS_cN_yF_uF_weights K y mu s j.
Proof. by move=> sK pK j0; apply: constant_vector_sigma. Qed.

(* requesting predictive uncertainty never changes the weights (hence the prediction): the noise
   factor built for W must not leak into the factor the weights are solved with *)
Theorem C16_uncertainty_flag_keeps_weights n m c k (K : 'M[F]_n) (Kuf : 'M[F]_(m, n)) (Kuu : 'M[F]_m)
    (y : 'M[F]_(n, c)) (z : 'M[F]_(m, c)) (Yf : 'M[F]_(n, k)) (mu j s : F) (sv : 'cV[F]_n) (svm : 'cV[F]_m) (n_obs : nat) :
  [/\ FullCond_init_LN_sS_cN_yT_uT_weights K y mu s j = FullCond_init_LN_sS_cN_yT_uF_weights K y mu s j,
      FullCond_init_LN_sS_cN_yF_uT_weights K y mu s j = FullCond_init_LN_sS_cN_yF_uF_weights K y mu s j,
      FullCond_init_LN_sV_cN_yF_uT_weights K y mu sv j = FullCond_init_LN_sV_cN_yF_uF_weights K y mu sv j,
      LandmarksCond_init_sS_cM_yT_uT_weights Kuf Kuu y mu s j Yf = LandmarksCond_init_sS_cN_yT_uF_weights Kuf Kuu y mu s j
    & LandmarksCholCond_init_LN_sS_yT_uT_weights Kuu z mu n_obs s j = LandmarksCholCond_init_LN_sS_yT_uF_weights Kuu z mu n_obs s j].
Proof. by split. Qed.

(* in-sample predictions of the full model shrink monotonically towards the prior mean as sigma grows:
   the squared Euclidean norm of (prediction at the training cells - prior mean) is non-increasing in |sigma| *)
Theorem C16_shrinkage_monotone n (K : 'M[F]_n) (y : 'cV[F]_n) (mu s t j : F) :
  sym K -> psd K -> 0 < j -> s ^+ 2 <= t ^+ 2 ->
  let dev sigma := FullCond_mean K mu (FullCond_init_LN_sS_cN_yF_uF_weights K y mu sigma j) - const_mx mu in
  ((dev t)^T *m dev t) 0 0 <= ((dev s)^T *m dev s) 0 0.
Proof. by move=> sK pK j0 st; exact: (@shrinkage_monotone F cholF eigS eigV qrQ qrR chol_ok n K y mu s t j sK pK j0 st). Qed.

End C16.

(* non-vacuity of the library contract assumed above *)
Theorem C16_chol_contract_satisfiable (F : rcfType) : chol_contract (@cholm F).
Proof. exact: chol_contract_cholm. Qed.

Print Assumptions C16_weights_linear_full.
Print Assumptions C16_weights_linear_dtc.
Print Assumptions C16_affine_full.
Print Assumptions C16_affine_dtc.
Print Assumptions C16_columns_independent.
Print Assumptions C16_readout_columns.
Print Assumptions C16_interpolation.
Print Assumptions C16_interpolation_dtc.
Print Assumptions C16_constant_vector_sigma.
Print Assumptions C16_uncertainty_flag_keeps_weights.
Print Assumptions C16_shrinkage_monotone.
Print Assumptions C16_chol_contract_satisfiable.
