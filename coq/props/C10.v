(* C10 — Requested rank or variance fraction is honoured by the rank reduction.
   Property theorems only; proofs live in thm/EigCountThm.v; the function
   [eigendecomposition] is regenerated from mellon/decomposition.py on every run. *)
From Coq Require Import ZArith QArith List Sorting.Sorted.
From MellonV Require Import PyVal EigCount EigCountThm.
Import ListNotations.
Open Scope Q_scope.

(* Fractional request f in (0,1]: with s ascending (eigh contract) and at least
   one positive eigenvalue, the routine keeps the p largest eigenvalues/columns,
   where p is the least count whose leading eigenvalues sum to >= f * total. *)
Theorem C10_fraction_honoured :
  forall (A : val) (qs : list Q) (f : Q) (vd : list xf),
    StronglySorted Qle qs -> (1 <= npos qs)%nat -> 0 < f <= 1 ->
    let n := Z.of_nat (length qs) in
    let p := frac_count qs f in
    eigendecomposition A (VFloat (XFin f)) (farr qs) (VArr KF [n; n] vd)
      = Ok (VTuple [VArr KF [Z.of_nat p] (lastn p (map XFin qs));
                    VArr KF [n; Z.of_nat p] (last_cols n n (Z.of_nat p) vd)])
    /\ (1 <= p <= npos qs)%nat
    /\ total qs * f <= prefix qs p
    /\ (forall c, (c < p)%nat -> prefix qs c < total qs * f).
Proof.
  intros A qs f vd Hs Hp Hf n p. split; [|split; [|split]].
  - apply eig_frac; [exact Hp|now apply frac_count_le_length].
  - now apply frac_count_range.
  - now apply frac_count_reaches.
  - intros c Hc. now apply frac_count_minimal.
Qed.
Print Assumptions C10_fraction_honoured.

Theorem C10_integer_honoured :
  forall (A : val) (qs : list Q) (r : Z) (vd : list xf),
    (1 <= npos qs)%nat -> (1 <= r)%Z ->
    let n := Z.of_nat (length qs) in
    let p := Z.min r (Z.of_nat (npos qs)) in
    eigendecomposition A (VInt r) (farr qs) (VArr KF [n; n] vd)
      = Ok (VTuple [VArr KF [p] (lastn (Z.to_nat p) (map XFin qs));
                    VArr KF [n; p] (last_cols n n p vd)]).
Proof. exact eig_int. Qed.
Print Assumptions C10_integer_honoured.

Theorem C10_retained_are_largest :
  forall qs p x y, StronglySorted Qle qs ->
    In y (lastn p qs) -> In x (firstn (length qs - p) qs) -> x <= y.
Proof. exact retained_are_largest. Qed.
Print Assumptions C10_retained_are_largest.

Theorem C10_larger_fraction_keeps_more :
  forall qs f1 f2, StronglySorted Qle qs -> (1 <= npos qs)%nat -> 0 < f1 -> f1 <= f2 -> f2 <= 1 ->
    (frac_count qs f1 <= frac_count qs f2)%nat.
Proof. exact frac_count_mono. Qed.
Print Assumptions C10_larger_fraction_keeps_more.

Theorem C10_larger_rank_keeps_more :
  forall qs r1 r2, (r1 <= r2)%Z -> (int_count qs r1 <= int_count qs r2)%Z.
Proof. exact int_count_mono. Qed.
Print Assumptions C10_larger_rank_keeps_more.

(* the cumulative sums handed to searchsorted are ascending, so the model's
   prefix count coincides with the (unique) left binary-search answer *)
Theorem C10_searchsorted_well_defined :
  forall qs t, StronglySorted Qle qs ->
    qcount_lt (summed qs) t = length (filter (fun x => Qltb x t) (summed qs)).
Proof. intros qs t Hs. apply qcount_lt_sorted. now apply summed_sorted. Qed.
Print Assumptions C10_searchsorted_well_defined.

(* error branch: no positive eigenvalue *)
Theorem C10_no_positive_eigenvalue_refused :
  forall A qs f v, npos qs = O -> eigendecomposition A (VFloat (XFin f)) (farr qs) v = Err IndexError.
Proof. exact eig_frac_no_positive. Qed.
Print Assumptions C10_no_positive_eigenvalue_refused.

Example C10_nonvacuous :
  let qs := [1; 2; 3; 4] in
  StronglySorted Qle qs /\ (1 <= npos qs)%nat /\ frac_count qs (71 # 100) = 3%nat
  /\ frac_count qs (7 # 10) = 2%nat /\ frac_count qs (99 # 100) = 4%nat /\ frac_count qs (1 # 10) = 1%nat.
Proof. exact spectrum_1234. Qed.
