(* C05 - Kernels compute their documented closed forms and are valid covariances.
   Property theorems only; proofs live in thm/ADocumented.v, thm/ADistThm.v and thm/AKernelsThm.v.  The radial
   profiles, the distance entry, the node arithmetic and compute_cov_func are regenerated from
   mellon/cov.py, base_cov.py, util.py, parameters.py on every run (gen/AKernels.v, gen/ACovFunc.v).
   Partial: positive semi-definiteness of the five stationary kernels (Bochner's theorem) is not
   provable with the installed libraries; it is tested numerically as support only. *)
From Coq Require Import Reals List ZArith Lra.
From MellonV Require Import ALists AKernels AKExpr ACovFunc AListsFacts ADocumented ADistThm AKernelsThm APsdThm ASchurBridge APsdLimit ABochnerThm ABochnerFinal ARatQuadPsd AKPos APowPsd.
Import ListNotations.
Open Scope R_scope.

(* ---- documented closed forms of the six profiles *)
Theorem C05_Matern32_documented : forall ls d,
  Matern32_k ls d = (1 + sqrt 3 * d / ls) * exp (- (sqrt 3 * d / ls)).
Proof. exact Matern32_k_documented. Qed.
Print Assumptions C05_Matern32_documented.

Theorem C05_Matern52_documented : forall ls d, ls <> 0 ->
  Matern52_k ls d = (1 + sqrt 5 * d / ls + 5 * d ^ 2 / (3 * ls ^ 2)) * exp (- (sqrt 5 * d / ls)).
Proof. exact Matern52_k_documented. Qed.
Print Assumptions C05_Matern52_documented.

Theorem C05_ExpQuad_documented : forall ls d, ls <> 0 ->
  ExpQuad_k ls d = exp (- (d ^ 2 / (2 * ls ^ 2))).
Proof. exact ExpQuad_k_documented. Qed.
Print Assumptions C05_ExpQuad_documented.

Theorem C05_Exponential_documented : forall ls d, ls <> 0 ->
  Exponential_k ls d = exp (- (d / (2 * ls))).
Proof. exact Exponential_k_documented. Qed.
Print Assumptions C05_Exponential_documented.

(* exponent -alpha as in the code; the docstring's "-alpha l" is a typo (observation, not a finding) *)
Theorem C05_RatQuad_documented : forall alpha ls d, ls <> 0 -> alpha <> 0 ->
  RatQuad_k alpha ls d = Rpower (1 + d ^ 2 / (2 * alpha * ls ^ 2)) (- alpha).
Proof. exact RatQuad_k_documented. Qed.
Print Assumptions C05_RatQuad_documented.

Theorem C05_Linear_documented : forall ls x y, base_k BLinear ls x y = dot x y / ls.
Proof. intros; exact (Linear_k_documented ls (dot x y)). Qed.
Print Assumptions C05_Linear_documented.

(* ---- the distance entry: sqrt(max(|x|^2 - 2<x,y> + |y|^2 + 1e-12, 0)) = sqrt(|x-y|^2 + 1e-12) *)
Theorem C05_distance_entry : forall x y, length x = length y ->
  dist_pts x y = sqrt (sqdist x y + 1 / 1000000000000).
Proof. exact dist_pts_documented. Qed.
Print Assumptions C05_distance_entry.

Theorem C05_distance_symmetric : forall x y, dist_pts x y = dist_pts y x.
Proof. exact dist_pts_sym. Qed.
Print Assumptions C05_distance_symmetric.

Theorem C05_distance_floor : forall x y, length x = length y -> 1 / 1000000 <= dist_pts x y.
Proof. exact dist_pts_ge. Qed.
Print Assumptions C05_distance_floor.

Theorem C05_distance_coincident : forall x, dist_pts x x = 1 / 1000000.
Proof. exact dist_pts_self. Qed.
Print Assumptions C05_distance_coincident.

(* ---- stationary kernels: profile(0) = 1, decreasing, values in (0,1], near 1 at coincident points *)
Theorem C05_profile_at_zero : forall b ls, stationary b -> profile b ls 0 = 1.
Proof. exact profile_at_0. Qed.
Print Assumptions C05_profile_at_zero.

Theorem C05_profile_decreasing : forall b ls d1 d2, stationary b -> base_ok b ls -> 0 <= d1 <= d2 ->
  profile b ls d2 <= profile b ls d1.
Proof. exact profile_decreasing. Qed.
Print Assumptions C05_profile_decreasing.

Theorem C05_stationary_range : forall b ls x y, stationary b -> base_ok b ls -> length x = length y ->
  0 < base_k b ls x y <= 1.
Proof. exact stationary_value_range. Qed.
Print Assumptions C05_stationary_range.

Theorem C05_unit_self_covariance_up_to_regulariser : forall b ls d, stationary b -> base_ok b ls -> 0 <= d ->
  1 - 3 * d / ls - d ^ 2 / (2 * ls ^ 2) <= profile b ls d.
Proof. exact profile_near_one. Qed.
Print Assumptions C05_unit_self_covariance_up_to_regulariser.

(* ---- every expression tree: symmetry, pointwise algebra on the node's own dimensions *)
Theorem C05_keval_symmetric : forall e x y, keval e x y = keval e y x.
Proof. exact keval_symmetric. Qed.
Print Assumptions C05_keval_symmetric.

Theorem C05_sum_pointwise : forall l r ad x y,
  keval (KAdd l r ad) x y = keval l (sel ad x) (sel ad y) + keval r (sel ad x) (sel ad y).
Proof. exact keval_add. Qed.
Print Assumptions C05_sum_pointwise.

Theorem C05_sum_scalar_pointwise : forall l c ad x y,
  keval (KAddC l c ad) x y = keval l (sel ad x) (sel ad y) + c.
Proof. exact keval_add_scalar. Qed.
Print Assumptions C05_sum_scalar_pointwise.

Theorem C05_product_pointwise : forall l r ad x y,
  keval (KMul l r ad) x y = keval l (sel ad x) (sel ad y) * keval r (sel ad x) (sel ad y).
Proof. exact keval_mul. Qed.
Print Assumptions C05_product_pointwise.

Theorem C05_product_scalar_pointwise : forall l c ad x y,
  keval (KMulC l c ad) x y = keval l (sel ad x) (sel ad y) * c.
Proof. exact keval_mul_scalar. Qed.
Print Assumptions C05_product_scalar_pointwise.

Theorem C05_power_pointwise : forall l p ad x y,
  keval (KPow l p ad) x y = Rpower (keval l (sel ad x) (sel ad y)) p.
Proof. exact keval_pow. Qed.
Print Assumptions C05_power_pointwise.

Theorem C05_power_nat_pointwise : forall l (n : nat) ad x y, 0 < keval l (sel ad x) (sel ad y) ->
  keval (KPow l (INR n) ad) x y = keval l (sel ad x) (sel ad y) ^ n.
Proof. exact keval_pow_nat. Qed.
Print Assumptions C05_power_nat_pointwise.

Theorem C05_inactive_dims_irrelevant : forall e x y x' y',
  length x = length x' -> length y = length y' ->
  agree_on (resolve_dims (dims_of e) (length x)) x x' ->
  agree_on (resolve_dims (dims_of e) (length y)) y y' ->
  keval e x y = keval e x' y'.
Proof. exact inactive_dims_irrelevant. Qed.
Print Assumptions C05_inactive_dims_irrelevant.

(* ---- time-aware covariance = state kernel on all-but-last columns x time kernel on the last *)
Theorem C05_time_cov_is_product : forall b ls lt (x y : list R) tx ty,
  keval (compute_cov_func (KBase b) ls (Some lt)) (x ++ [tx]) (y ++ [ty])
  = base_k b ls x y * base_k b lt [tx] [ty].
Proof. exact time_cov_is_product. Qed.
Print Assumptions C05_time_cov_is_product.

(* ---- positive semi-definiteness (PARTIAL).  Full statement of the property: "Gram matrices are positive
   semi-definite" for every kernel expression.  Proved: closure under sums, non-negative scalars and constants and
   active_dims restriction.  NOT proved, explicit hypotheses of the last theorem: PSD-ness of the base kernels
   (Bochner) and of entry-wise products (Schur).  quad k pts v = sum_ij v_i v_j k(p_i, p_j). *)
Theorem C05_psd_sum : forall k1 k2, psd k1 -> psd k2 -> psd (fun x y => k1 x y + k2 x y).
Proof. exact psd_add. Qed.
Print Assumptions C05_psd_sum.

Theorem C05_psd_scale : forall c k, 0 <= c -> psd k -> psd (fun x y => k x y * c).
Proof. exact psd_scale. Qed.
Print Assumptions C05_psd_scale.

Theorem C05_psd_constant : forall c, 0 <= c -> psd (fun _ _ => c).
Proof. exact psd_const. Qed.
Print Assumptions C05_psd_constant.

Theorem C05_psd_active_dims : forall k ad, psd k -> psd (fun x y => k (sel ad x) (sel ad y)).
Proof. exact psd_sel. Qed.
Print Assumptions C05_psd_active_dims.

Theorem C05_keval_psd_partial :
  (forall b ls, base_ok b ls -> psd (base_k b ls)) ->                                   (* kernel_psd: assumed *)
  (forall k1 k2, (forall x y, k1 x y = k1 y x) -> (forall x y, k2 x y = k2 y x) ->
                 psd k1 -> psd k2 -> psd (fun x y => k1 x y * k2 x y)) ->              (* hadamard_psd (symmetric kernels): assumed *)
  forall e, psd_shape e -> psd (keval e).
Proof. exact keval_psd_partial. Qed.
Print Assumptions C05_keval_psd_partial.

(* The Schur product theorem is no longer assumed: it is proved for MathComp matrices over any real closed
   field (lib/MxSchurProd.v, via the Cholesky factor of A + eI built in lib/MxChol.v), instantiated at Coq's R
   (lib/Rstruct.v) and carried to the list presentation (thm/ASchurBridge.v). *)
Theorem C05_hadamard_psd : forall k1 k2 : list R -> list R -> R,
  (forall x y, k1 x y = k1 y x) -> (forall x y, k2 x y = k2 y x) ->
  psd k1 -> psd k2 -> psd (fun x y => k1 x y * k2 x y).
Proof. exact hadamard_psd_R. Qed.
Print Assumptions C05_hadamard_psd.

(* ... so the closure of the kernel algebra under sums, products and non-negative scalars rests on the positive
   semi-definiteness of the base profiles alone (Bochner's theorem for the five stationary profiles and the
   Gram form of the linear kernel: NOT proved here; the harness tests sampled Gram matrices as support) *)
Theorem C05_keval_psd_bochner_only_partial :
  (forall b ls, base_ok b ls -> psd (base_k b ls)) ->                                   (* kernel_psd: assumed *)
  forall e, psd_shape e -> psd (keval e).
Proof. exact keval_psd_bochner_only. Qed.
Print Assumptions C05_keval_psd_bochner_only_partial.

(* For two of the six base kernels the hypothesis is discharged.  Linear: the Gram matrix is X X^T / ls.
   ExpQuad: exp(<x,y>/ls^2) is the pointwise limit of the partial sums of the exponential series, each a non-negative
   combination of entry-wise powers of the linear Gram matrix (Schur product theorem); the Gaussian kernel is
   f(x) f(y) exp(<x,y>/ls^2) times the positive constant exp(-1e-12 / (2 ls^2)).  Points of any (even unequal) lengths. *)
Theorem C05_linear_gram_psd : forall ls, 0 < ls -> psd (base_k BLinear ls).
Proof. exact psd_linear. Qed.
Print Assumptions C05_linear_gram_psd.

Theorem C05_expquad_gram_psd : forall ls, 0 < ls -> psd (base_k BExpQuad ls).
Proof. exact psd_expquad. Qed.
Print Assumptions C05_expquad_gram_psd.

(* every expression tree over linear and ExpQuad kernels (sums, products, non-negative scalars, any depth, any
   active_dims) has positive semi-definite Gram matrices: no hypothesis left *)
Theorem C05_keval_psd_gaussian_linear : forall e, psd_shape e -> gaussian_linear_only e -> psd (keval e).
Proof. exact keval_psd_gaussian_linear. Qed.
Print Assumptions C05_keval_psd_gaussian_linear.

(* the rational-quadratic kernel with alpha = 1 (the default of mellon.cov.RatQuad) and with every positive integer alpha:
   1/u = lim_h lim_N sum_{k<=N} h exp(-k h u) is a limit of non-negative combinations of ExpQuad Gram entries
   (thm/ARatQuadPsd.v); integer powers are Schur products *)
Theorem C05_ratquad_default_gram_psd : forall ls, 0 < ls -> psd (base_k (BRatQuad 1) ls).
Proof. exact psd_ratquad_one. Qed.
Print Assumptions C05_ratquad_default_gram_psd.

Theorem C05_ratquad_integer_alpha_gram_psd : forall n ls, 0 < ls -> psd (base_k (BRatQuad (INR (S n))) ls).
Proof. exact psd_ratquad_nat. Qed.
Print Assumptions C05_ratquad_integer_alpha_gram_psd.

(* ... and every expression tree over Linear, ExpQuad and integer-alpha RatQuad kernels: no hypothesis left *)
Theorem C05_keval_psd_elementary : forall e, psd_shape e -> elementary_only e -> psd (keval e).
Proof. exact keval_psd_elementary. Qed.
Print Assumptions C05_keval_psd_elementary.

(* Pow nodes (mellon.base_cov.Pow: left.k(x, y) ** right) enter the closure: with a positive integer exponent over an
   entrywise positive operand - decided syntactically by kpos: ExpQuad / Exponential / RatQuad leaves, sums, products,
   + c (c >= 0), * c (c > 0), Pow - the generated Pow_k p lk = Rpower lk p is lk ^ p, an iterated Schur product
   (thm/APowPsd.v).  The node alone, for ANY psd operand that is entrywise positive: *)
Theorem C05_pow_node_psd : forall l n ad, psd (keval l) -> (forall x y, 0 < keval l x y) ->
  psd (keval (KPow l (INR (S n)) ad)).
Proof. exact psd_pow_node. Qed.
Print Assumptions C05_pow_node_psd.

Theorem C05_kpos_entrywise_positive : forall e, kpos e -> forall x y, 0 < keval e x y.
Proof. exact kpos_sound. Qed.
Print Assumptions C05_kpos_entrywise_positive.

(* ... and every expression tree over Linear, ExpQuad and integer-alpha RatQuad leaves with such Pow nodes at any depth:
   no hypothesis left; the Pow-free theorem above is the special case (psd_shape_pow_of_shape) *)
Theorem C05_keval_psd_elementary_pow : forall e, psd_shape_pow e -> elementary_pow_only e -> psd (keval e).
Proof. exact keval_psd_elementary_pow. Qed.
Print Assumptions C05_keval_psd_elementary_pow.

(* the same closure over all six kernels, with the base-profile hypothesis of C05_keval_psd_bochner_only_partial as the only one
   left (kpos covers Matern32/52 leaves with ls > 0 as well) *)
Theorem C05_keval_psd_pow_bochner_only_partial :
  (forall b ls, base_ok b ls -> psd (base_k b ls)) ->                                   (* kernel_psd: assumed *)
  forall e, psd_shape_pow e -> psd (keval e).
Proof. exact keval_psd_pow_bochner_only. Qed.
Print Assumptions C05_keval_psd_pow_bochner_only_partial.

Example C05_pow_nonvacuous :
  let e := KAdd (KPow (KMul (KBase (BRatQuad 1) 2 DNone) (KAddC (KBase BExpQuad 3 DNone) 1 DNone) DNone) 3 (DInt 0%Z))
                (KBase BLinear (1 / 2) DNone) DNone in
  psd_shape_pow e /\ elementary_pow_only e.
Proof. exact elementary_pow_example. Qed.

(* ---- non-vacuity of the hypotheses used above *)
Example C05_nonvacuous :
  stationary (BRatQuad 2) /\ base_ok (BRatQuad 2) (3 / 2) /\ length [1; 2] = length [3; 4]
  /\ (0 <= 1 <= 2) /\ (3 / 2 <> 0) /\ (2 <> 0)
  /\ agree_on (resolve_dims (DList [0%Z; (-1)%Z]) 3) [1; 2; 3] [1; 7; 3]
  /\ 0 < keval (KBase BExpQuad 1 DNone) (sel DNone [0]) (sel DNone [0])
  /\ psd (fun _ _ => 2) /\ psd_shape (KAddC (KMulC (KBase BMatern52 1 DNone) 3 (DInt 0%Z)) (1 / 2) DNone).
Proof.
  repeat split; simpl; try lra; try exact I.
  - intros i [<-|[<-|[]]]; reflexivity.
  - apply ExpQuad_pos.
  - apply psd_const. lra.
Qed.
